"""Shared machinery for the /verif checks.

Every check is a python module checks/<id>.py with a function run(ctx) that
  1. runs TLC on a specification under /verif/spec (ctx.tlc),
  2. builds a Go driver from /verif/harness against the *current* /repo tree
     with the `verif` build tag (ctx.go_build),
  3. replays TLC-generated cases into the real code and/or records traces of the
     real code and has TLC validate them,
  4. reports discrepancies through ctx.violation(...) (classified against
     known_findings.json) and finally calls ctx.finish(...).

Exit codes: 0 property held on everything explored (known findings are printed
as KNOWN-FINDING lines), 1 at least one VIOLATION line was printed, 2
infrastructure problem (never a verdict).
"""
import json
import os
import re
import shutil
import subprocess
import sys
import time

VERIF = os.path.dirname(os.path.dirname(os.path.abspath(__file__)))
SPEC = os.path.join(VERIF, "spec")
HARNESS = os.path.join(VERIF, "harness")
REPO = os.environ.get("VERIF_REPO", "/repo")
GOENV = {
    "GOFLAGS": "-mod=mod",
    "GOPROXY": "off",
    "GOSUMDB": "off",
    "GOTOOLCHAIN": "local",
}
NCPU = os.cpu_count() or 4


class Infra(Exception):
    """Infrastructure failure: exit 2, never a verdict."""


class TlcResult:
    def __init__(self):
        self.ok = False            # finished without error
        self.generated = 0
        self.distinct = 0
        self.depth = 0
        self.errors = []           # "Error: ..." lines
        self.violated = []         # names of violated invariants / properties
        self.json_path = None
        self.json_count = 0
        self.wall = 0.0
        self.rc = None
        self.log = None
        self.coverage = {}

    def summary(self):
        return {
            "ok": self.ok, "generated": self.generated, "distinct": self.distinct,
            "depth": self.depth, "json_lines": self.json_count,
            "wall_s": round(self.wall, 1), "violated": self.violated,
        }


class Ctx:
    def __init__(self, prop, tier, seed, level="model_checking"):
        self.prop = prop
        self.tier = tier
        self.seed = seed
        self.level = level
        self.repo = REPO
        self.t0 = time.time()
        self.work = os.path.join(VERIF, "out", ".work", "%s-%d" % (prop, os.getpid()))
        shutil.rmtree(self.work, ignore_errors=True)
        os.makedirs(self.work)
        self.outdir = os.path.join(VERIF, "out", prop)
        os.makedirs(self.outdir, exist_ok=True)
        self.states = 0
        self.transitions = 0
        self.traces = 0
        self.tlc_runs = []
        self.violations = []       # (sig, path)
        self.known_hits = {}       # finding id -> count
        self.samples = []
        self.extra = {}
        self.assumptions = []
        self._ntlc = 0
        self._sigs_seen = set()
        self._spec_dir = None
        self._built = {}
        self.findings = load_findings(prop)
        self.keep_work = bool(os.environ.get("VERIF_KEEP"))

    # ------------------------------------------------------------------ utils
    def log(self, *a):
        print("[%s %6.1fs]" % (self.prop, time.time() - self.t0), *a, flush=True)

    def path(self, *p):
        return os.path.join(self.work, *p)

    def spec_dir(self):
        """Scratch copy of /verif/spec (TLC litters its working directory)."""
        if self._spec_dir is None:
            d = self.path("spec")
            shutil.copytree(SPEC, d)
            self._spec_dir = d
        return self._spec_dir

    # ------------------------------------------------------------------ TLC
    def tlc(self, module, cfg, *, workers=None, timeout=600, simulate=None,
            depth=None, json_out=None, files=None, coverage=False, dfs=False,
            heap=None, label=None, allow_violation=False, consts=None,
            count_stats=True):
        """Run TLC on spec/<module>.tla with spec/cfg/<cfg>.

        json_out: path that receives every JSON object printed with
        PrintT(ToJson(..)) (one per line).  files: {name: path} copied next to
        the modules (trace files read with ndJsonDeserialize).  consts: dict of
        CONSTANT overrides appended to a scratch copy of the cfg.
        Raises Infra on tool failure/timeout; returns TlcResult otherwise.
        If an invariant is violated and allow_violation is False this is an
        Infra error as well: the model itself is expected to be correct on the
        committed specification (a model counterexample is a design finding,
        never a verdict about the code).
        """
        sd = self.spec_dir()
        self._ntlc += 1
        tag = "%02d-%s" % (self._ntlc, label or cfg.replace(".cfg", ""))
        cfg_src = os.path.join(sd, "cfg", cfg)
        if not os.path.exists(cfg_src):
            raise Infra("missing cfg " + cfg_src)
        cfg_path = self.path(tag + ".cfg")
        with open(cfg_src) as f:
            cfg_text = f.read()
        if consts:
            # override CONSTANT lines "  Name = value"
            for k, v in consts.items():
                pat = re.compile(r"^(\s*)%s\s*=.*$" % re.escape(k), re.M)
                if pat.search(cfg_text):
                    cfg_text = pat.sub(r"\g<1>%s = %s" % (k, v), cfg_text)
                else:
                    cfg_text += "\nCONSTANT %s = %s\n" % (k, v)
        with open(cfg_path, "w") as f:
            f.write(cfg_text)
        for name, src in (files or {}).items():
            shutil.copyfile(src, os.path.join(sd, name))
        if workers is None:
            workers = NCPU
        meta = self.path("meta-" + tag)
        cmd = ["timeout", "-k", "10", str(int(timeout)), "tlc", "-workers", str(workers),
               "-metadir", meta, "-noGenerateSpecTE", "-config", cfg_path]
        if simulate:
            cmd += ["-simulate", simulate]
        if depth:
            cmd += ["-depth", str(depth)]
        if simulate or True:
            cmd += ["-seed", str(self.seed)]
        if coverage:
            cmd += ["-coverage", "1"]
        cmd += [module + ".tla"]
        env = dict(os.environ)
        jopts = []
        if dfs:
            jopts.append("-Dtlc2.tool.queue.IStateQueue=StateDeque")
        jopts.append("-Xmx" + (heap or "6g"))
        jopts.append("-Xss256m")
        env["JAVA_TOOL_OPTIONS"] = " ".join(jopts)
        res = TlcResult()
        res.log = self.path(tag + ".log")
        t0 = time.time()
        jf = open(json_out, "w") if json_out else None
        res.json_path = json_out
        with open(res.log, "w") as lg:
            p = subprocess.Popen(cmd, cwd=sd, env=env, stdout=subprocess.PIPE,
                                 stderr=subprocess.STDOUT, text=True, bufsize=1 << 20)
            for line in p.stdout:
                if line.startswith('"{') or line.startswith('"['):
                    if jf:
                        try:
                            jf.write(json.loads(line))
                            jf.write("\n")
                            res.json_count += 1
                        except Exception:
                            lg.write("UNPARSED " + line[:300] + "\n")
                    continue
                lg.write(line if len(line) < 2000 else line[:2000] + "...\n")
                m = re.match(r"(\d+) states generated, (\d+) distinct states found", line)
                if m:
                    res.generated = int(m.group(1))
                    res.distinct = int(m.group(2))
                m = re.match(r"The depth of the complete state graph search is (\d+)", line)
                if m:
                    res.depth = int(m.group(1))
                if line.startswith("Error:"):
                    res.errors.append(line.strip()[:400])
                    m = re.search(r"Invariant (\S+) is violated", line)
                    if m:
                        res.violated.append(m.group(1))
                    m = re.search(r"Action property (\S+) is violated", line)
                    if m:
                        res.violated.append(m.group(1))
                    if "Temporal properties were violated" in line:
                        res.violated.append("<temporal>")
                m = re.match(r"<(\w+) line \d+, col \d+ to line \d+, col \d+ of module (\w+)>: (\d+):(\d+)", line)
                if m and coverage:
                    res.coverage[m.group(1)] = res.coverage.get(m.group(1), 0) + int(m.group(4))
            res.rc = p.wait()
        if jf:
            jf.close()
        res.wall = time.time() - t0
        shutil.rmtree(meta, ignore_errors=True)
        if res.rc in (124, 137):
            raise Infra("TLC timeout (%ss) on %s/%s, see %s" % (timeout, module, cfg, res.log))
        res.ok = (res.rc == 0 and not res.errors)
        if count_stats:
            self.states += res.distinct
            self.transitions += res.generated
        self.tlc_runs.append(dict(module=module, cfg=cfg, label=label, consts=consts or {},
                                  simulate=simulate, **res.summary()))
        if not res.ok and not allow_violation:
            tail = tail_of(res.log, 40)
            raise Infra("TLC failed on %s/%s (rc=%s): %s\n%s" % (module, cfg, res.rc, res.errors[:3], tail))
        return res

    def sany(self, module):
        sd = self.spec_dir()
        p = subprocess.run(["timeout", "120", "tla-sany", module + ".tla"], cwd=sd,
                           capture_output=True, text=True)
        if p.returncode != 0 or "Semantic errors" in p.stdout or "Parsing or semantic analysis failed" in p.stdout:
            raise Infra("SANY failed on %s:\n%s" % (module, p.stdout[-3000:]))

    # ------------------------------------------------------------------ Go
    def go_build(self, cmd, race=False):
        """Build harness/cmd/<cmd> against the current repo tree, tag verif."""
        key = (cmd, race)
        if key in self._built:
            return self._built[key]
        modfile = self.path("go.mod")
        if not os.path.exists(modfile):
            with open(os.path.join(HARNESS, "go.mod")) as f:
                txt = f.read()
            txt = re.sub(r"=>\s*/repo\b", "=> " + self.repo, txt)
            with open(modfile, "w") as f:
                f.write(txt)
            sums = set()
            for p in (os.path.join(self.repo, "go.sum"), os.path.join(HARNESS, "go.sum")):
                if os.path.exists(p):
                    sums.update(open(p).read().splitlines())
            with open(self.path("go.sum"), "w") as f:
                f.write("\n".join(sorted(s for s in sums if s.strip())) + "\n")
        os.makedirs(self.path("bin"), exist_ok=True)
        out = self.path("bin", cmd + ("-race" if race else ""))
        env = dict(os.environ)
        env.update(GOENV)
        args = ["go", "build", "-modfile=" + modfile, "-tags", "verif", "-o", out]
        if race:
            args.append("-race")
        if os.environ.get("VERIF_COVER"):
            # opt-in measurement (bin/coverage): statement coverage of the library under the harness
            args += ["-cover", "-covermode=atomic", "-coverpkg=all"]
        args.append("./cmd/" + cmd)
        t0 = time.time()
        p = subprocess.run(args, cwd=HARNESS, env=env, capture_output=True, text=True)
        if p.returncode != 0:
            raise Infra("go build failed for %s (repo=%s):\n%s" % (cmd, self.repo, (p.stdout + p.stderr)[-4000:]))
        self.log("built %s in %.1fs" % (cmd, time.time() - t0))
        self._built[key] = out
        return out

    def run(self, args, timeout=600, env=None, stdout_path=None, ok_codes=(0,), cwd=None):
        e = dict(os.environ)
        e.update(GOENV)
        e["VERIF_SEED"] = str(self.seed)
        e["VERIF_TIER"] = self.tier
        if os.environ.get("VERIF_COVER"):
            d = os.path.join(os.environ["VERIF_COVER"], self.prop)
            os.makedirs(d, exist_ok=True)
            e["GOCOVERDIR"] = d
        if env:
            e.update(env)
        t0 = time.time()
        try:
            if stdout_path:
                with open(stdout_path, "w") as f:
                    p = subprocess.run(args, env=e, stdout=f, stderr=subprocess.PIPE, text=True,
                                       timeout=timeout, cwd=cwd)
                out = ""
            else:
                p = subprocess.run(args, env=e, capture_output=True, text=True, timeout=timeout, cwd=cwd)
                out = p.stdout
        except subprocess.TimeoutExpired:
            raise Infra("timeout (%ss): %s" % (timeout, " ".join(args)[:300]))
        if p.returncode not in ok_codes:
            raise Infra("command failed rc=%s: %s\n%s" % (p.returncode, " ".join(args)[:300],
                                                         ((out or "") + (p.stderr or ""))[-3000:]))
        return p.returncode, out, p.stderr, time.time() - t0

    # ------------------------------------------------------------------ verdicts
    def violation(self, sig, detail, name=None):
        """Report a discrepancy between the real code and the specification.

        sig: flat dict identifying the kind of failure (used both to match
        known_findings.json and to print at most one VIOLATION line per
        distinct signature).  detail: JSON-serialisable replay object.
        """
        f = match_finding(self.findings, sig)
        if f is not None:
            self.known_hits[f["id"]] = self.known_hits.get(f["id"], 0) + 1
            return "known"
        key = json.dumps(sig, sort_keys=True)
        if key in self._sigs_seen:
            self.extra["violations_suppressed_same_signature"] = \
                self.extra.get("violations_suppressed_same_signature", 0) + 1
            return "dup"
        self._sigs_seen.add(key)
        if len(self.violations) >= 25:
            return "capped"
        n = len(self.violations) + 1
        fname = name or ("viol-%s-%d-%02d.json" % (self.tier, self.seed, n))
        path = os.path.join(self.outdir, fname)
        with open(path, "w") as fh:
            json.dump({"property": self.prop, "tier": self.tier, "seed": self.seed,
                       "signature": sig, "detail": detail}, fh, indent=1, sort_keys=True)
        self.violations.append((sig, path))
        print("VIOLATION property=%s replay=%s" % (self.prop, path), flush=True)
        self.log("  signature:", key[:400])
        return "violation"

    def sample(self, obj):
        if len(self.samples) < 4:
            s = json.dumps(obj)
            if len(s) > 1500:
                obj = {"truncated": s[:1500]}
            self.samples.append(obj)

    def finish(self, rule, evaluations=None, distinct_nontrivial=None, exhaustive=None,
               trusted_base=None):
        for fid, n in sorted(self.known_hits.items()):
            f = [x for x in self.findings if x["id"] == fid][0]
            print("KNOWN-FINDING: property=%s %s [%s, %d occurrence(s)]" % (self.prop, f["what"], fid, n), flush=True)
        cov = {
            "states": max(self.states, 0),
            "transitions": max(self.transitions, 0),
            "traces_validated_against_impl": self.traces,
            "samples": self.samples or [{"note": "no sample recorded"}],
            "rule": rule,
            "tlc_runs": self.tlc_runs,
            "known_findings_hit": self.known_hits,
            "trusted_base": trusted_base or ["TLC 1.8.0", "CommunityModules Json", "Go harness projection"],
        }
        if evaluations is not None:
            cov["evaluations"] = evaluations
        if distinct_nontrivial is not None:
            cov["distinct_nontrivial"] = distinct_nontrivial
        if exhaustive is not None:
            cov["exhaustive"] = exhaustive
        cov.update(self.extra)
        ev = {
            "property_id": self.prop, "tier": self.tier, "seed": self.seed,
            "level": self.level, "coverage": cov, "assumptions": self.assumptions,
            "wall_s": round(time.time() - self.t0, 1), "violations": len(self.violations),
        }
        os.makedirs(os.path.join(VERIF, "evidence"), exist_ok=True)
        with open(os.path.join(VERIF, "evidence", self.prop + ".json"), "w") as fh:
            json.dump(ev, fh, indent=1, sort_keys=True)
        status = "violation" if self.violations else "ok"
        print("RESULT %s %s states=%d transitions=%d traces=%d known=%d wall=%.0fs" % (
            self.prop, status, self.states, self.transitions, self.traces,
            sum(self.known_hits.values()), time.time() - self.t0), flush=True)
        self.cleanup()
        return 1 if self.violations else 0

    def cleanup(self):
        if not self.keep_work:
            shutil.rmtree(self.work, ignore_errors=True)


# ---------------------------------------------------------------------- helpers
def tail_of(path, n):
    try:
        with open(path) as f:
            return "".join(f.readlines()[-n:])
    except Exception:
        return ""


def load_findings(prop):
    out = []
    paths = [os.path.join(VERIF, "known_findings.json")]
    dd = os.path.join(VERIF, "known_findings.d")
    if os.path.isdir(dd):
        paths += [os.path.join(dd, n) for n in sorted(os.listdir(dd)) if n.endswith(".json")]
    seen = set()
    for p in paths:
        if not os.path.exists(p):
            continue
        with open(p) as f:
            d = json.load(f)
        for x in d.get("findings", []):
            if x.get("property") == prop and x.get("status", "open") == "open" and x.get("id") not in seen:
                seen.add(x.get("id"))
                out.append(x)
    return out


def match_finding(findings, sig):
    """A finding matches when every key of its signature is present in the
    violation signature with an equal value (or a member of the listed values)."""
    for f in findings:
        ok = True
        for k, want in f.get("signature", {}).items():
            got = sig.get(k, None)
            if isinstance(want, list):
                if got not in want:
                    ok = False
                    break
            elif got != want:
                ok = False
                break
        if ok:
            return f
    return None


def read_ndjson(path, limit=None):
    out = []
    with open(path) as f:
        for line in f:
            line = line.strip()
            if not line:
                continue
            out.append(json.loads(line))
            if limit and len(out) >= limit:
                break
    return out


def iter_ndjson(path):
    with open(path) as f:
        for line in f:
            line = line.strip()
            if line:
                yield json.loads(line)


def validate_trace(ctx, module, cfg, name, path, timeout=600, label=None, consts=None, dfs=False):
    """Run a trace specification over a recorded ndjson trace.

    Returns (accepted, bad_index, reason): bad_index is the 1-based index of the
    first event the specification could not explain (guard failed) or whose
    logged observation violated an invariant.
    """
    res = ctx.tlc(module, cfg, workers=1, timeout=timeout, files={name: path}, label=label,
                  allow_violation=True, consts=consts, dfs=dfs, count_stats=False)
    ctx.states += res.distinct
    ctx.transitions += res.generated
    ctx.last_trace_log = res.log      # for trace specifications that print named deviations
    if res.ok:
        return True, None, None
    log = open(res.log).read()
    m = re.search(r'REJECTED_AT", (\d+)', log)
    if res.violated:
        ls = re.findall(r"/\\ l = (\d+)", log)
        if ls:
            return False, int(ls[-1]) - 1, "invariant " + ",".join(res.violated)
        ns = re.findall(r"^n = (\d+)|/\\ n = (\d+)", log, re.M)
        if ns:
            last = [a or b for a, b in ns][-1]
            return False, int(last), "invariant " + ",".join(res.violated)
        return False, None, "invariant " + ",".join(res.violated)
    if m:
        return False, int(m.group(1)), "no action of the specification explains the event"
    raise Infra("trace validation failed without a verdict (%s): %s\n%s" % (module, res.errors[:3], tail_of(res.log, 30)))
