save_seeds () 
{ 
    id=$1;
    ID=$2;
    for i in 1 2 3 4 5;
    do
        [ -d /tmp/seed-out/$id-$i ] || continue;
        d=seeded/$ID-$i;
        mkdir -p $d;
        cp -r /tmp/seed-out/$id-$i/* $d/;
        python3 - "$d" "$ID" "$3" <<'EOF'
import json,sys,os
d,ID,note=sys.argv[1:4]
mp=d+'/meta.json'
m=json.load(open(mp)) if os.path.exists(mp) else {"property":ID}
m['detected_by']='bin/check %s --tier quick (exit 1)'%ID
m['lead_confirmed']=note
json.dump(m,open(mp,'w'),indent=1)
EOF

    done
}
