"""C19 - the ordered integer index behaves as a balanced set under any history.

model -> code : spec/AvlTree.tla (mechanism x contract product) is model-checked
                exhaustively; every transition of its state graph is printed as a
                call history and replayed on the real AvlTree, the contract
                observation is compared after the last call, and every distinct
                real shape is handed back to TLC (AvlShapes.tla) for the
                structural invariant.
code -> model : seeded random histories on several trees / clones / live and
                safe iterators are recorded and validated by AvlTrace.tla.
"""
import json
import os
import shutil

import vlib

LEVEL = "model_checking"


KOFF = 2     # the key universe of every configuration is -KOFF .. nkeys-1-KOFF (negative keys included)


CONFIGS = {
    # label, nkeys, NI, emit
    "quick": [("rot", 9, 0, True), ("it1", 6, 1, True), ("it2", 4, 2, True)],
    "thorough": [("rot", 13, 0, True), ("it1", 9, 1, True), ("it2", 6, 2, True), ("it3", 4, 3, True), ("it2big", 7, 2, False)],
}
RECORD = {"quick": (12, 800, 12), "thorough": (80, 4000, 16)}   # traces, ops, keys


def replay_cases(ctx, binary, cases, nkeys, tag, keymap="identity"):
    results = ctx.path("results-%s.ndjson" % tag)
    shapes = ctx.path("shapes-%s.ndjson" % tag)
    ctx.run([binary, "replay", cases, results, shapes, str(-KOFF), str(nkeys - 1 - KOFF), keymap], timeout=1200)
    summary = None
    nviol = 0
    for r in vlib.iter_ndjson(results):
        if r["kind"] == "summary":
            summary = r
        elif r["kind"] == "mismatch":
            r["detail"]["mode"] = "replay"
            r["detail"]["nkeys"] = nkeys
            r["detail"]["keymap"] = keymap
            r["sig"]["keymap"] = keymap
            ctx.violation(r["sig"], r["detail"])
            nviol += 1
    if summary is None:
        raise vlib.Infra("avl replay wrote no summary (driver died?)")
    return summary, shapes


def check_trace(ctx, binary, ntr, nops, nkeys, seed, tag):
    trace = ctx.path("avl_trace-%s.ndjson" % tag)
    ctx.run([binary, "record", trace, str(ntr), str(nops), str(nkeys), str(-KOFF)], env={"VERIF_SEED": str(seed)})
    n = 0
    clean = trace + ".clean"
    with open(clean, "w") as out:
        for line in open(trace):
            if line.startswith('{"kind":') or '"kind":"mismatch"' in line[:40] or '"kind":"summary"' in line[:40]:
                r = json.loads(line)
                if r.get("kind") == "mismatch":
                    ctx.violation(r["sig"], dict(r["detail"], mode="record", seed=seed, ntraces=ntr, nops=nops, nkeys=nkeys))
                continue
            out.write(line)
            n += 1
    trace = clean
    ok, bad, why = vlib.validate_trace(ctx, "AvlTrace", "AvlTrace.cfg", "avl_trace.ndjson", trace,
                                       timeout=1800, label="trace-" + tag,
                                       consts={"NK": str(max(nkeys, 1)), "KOff": str(KOFF)})
    return trace, n, ok, bad, why


def run(ctx):
    tier = ctx.tier
    ctx.sany("AvlTrace")
    # 0. the contract itself
    ctx.tlc("AvlSet", "AvlSet.cfg", timeout=300, label="contract")
    # 1. mechanism refines contract; cases = transitions
    case_files = []
    for label, nk, ni, emit in CONFIGS[tier]:
        out = ctx.path("cases-%s.ndjson" % label) if emit else None
        res = ctx.tlc("AvlTree", "AvlTree_it.cfg", timeout=3000, label=label, json_out=out,
                      consts={"NK": str(nk), "KOff": str(KOFF), "NI": str(ni), "Emit": "TRUE" if emit else "FALSE"})
        ctx.log("AvlTree %s: %d distinct states, %d transitions, %d cases" % (label, res.distinct, res.generated, res.json_count))
        if emit:
            if res.json_count == 0:
                raise vlib.Infra("no cases generated for " + label)
            case_files.append((label, nk, out))
    binary = ctx.go_build("avl")
    total_cases = 0
    total_steps = 0
    all_shapes = ctx.path("avl_shapes.ndjson")
    seen = set()
    with open(all_shapes, "w") as sh:
        for label, nk, cases in case_files:
            # the same cases once more with the keys embedded order-preservingly into the extremes of the
            # int range (MinInt64, ..., -2, ..., MaxInt64): the contract only depends on the order of keys
            summ2, _ = replay_cases(ctx, binary, cases, nk, label + "-x", keymap="extreme")
            total_cases += summ2.get("cases", 0)
            total_steps += summ2.get("steps", 0)
            summ, shapes = replay_cases(ctx, binary, cases, nk, label)
            total_cases += summ.get("cases", 0)      # a summary written by the watchdog (hang) carries no counts
            total_steps += summ.get("steps", 0)
            for line in open(shapes):
                key = json.dumps(json.loads(line)["shape"], sort_keys=True)
                if key not in seen:
                    seen.add(key)
                    sh.write(line)
            with open(cases) as f:
                ctx.sample({"replayed_case": json.loads(f.readline())})
    ctx.log("replayed %d cases (%d calls), %d distinct real shapes" % (total_cases, total_steps, len(seen)))
    # 2. structural invariant on every distinct real shape, by TLC
    ok, bad, why = vlib.validate_trace(ctx, "AvlShapes", "AvlShapes.cfg", "avl_shapes.ndjson", all_shapes,
                                       timeout=1200, label="shapes")
    if not ok:
        rec = None
        if bad:
            with open(all_shapes) as f:
                for i, line in enumerate(f, 1):
                    if i == bad:
                        rec = json.loads(line)
        ctx.violation({"engine": "replay", "what": "structure"},
                      {"mode": "shape", "reason": why, "index": bad, "record": rec})
    # 3. recorded histories of the real tree validated against the contract
    ntr, nops, nkeys = RECORD[tier]
    trace, nev, ok, bad, why = check_trace(ctx, binary, ntr, nops, nkeys, ctx.seed, "rec")
    ctx.log("recorded %d events in %d traces: %s" % (nev, ntr, "accepted" if ok else "REJECTED at %s (%s)" % (bad, why)))
    if ok:
        ctx.traces += ntr
        with open(trace) as f:
            evs = [json.loads(next(f)) for _ in range(4)]
        for e in evs:
            e["shape"] = "..."
        ctx.sample({"recorded_trace_prefix": evs})
    else:
        events = vlib.read_ndjson(trace)
        e = events[bad - 1] if bad and bad <= len(events) else None
        ctx.violation({"engine": "trace", "what": "rejected", "event": e["e"] if e else "?"},
                      {"mode": "record", "seed": ctx.seed, "ntraces": ntr, "nops": nops, "nkeys": nkeys,
                       "rejected_at": bad, "reason": why, "event": e,
                       "preceding": events[max(0, (bad or 1) - 6):(bad or 1) - 1]})
    # 4. binding self-test: a corrupted copy of the trace must be rejected
    if ok:
        events = vlib.read_ndjson(trace, limit=400)
        idx = next((i for i, e in enumerate(events) if e["e"] in ("ins", "del") and i > 50), None)
        if idx is None:
            raise vlib.Infra("self-test: no ins/del event")
        events[idx]["res"] = not events[idx]["res"]
        bad_trace = ctx.path("avl_trace-corrupt.ndjson")
        with open(bad_trace, "w") as f:
            for e in events:
                f.write(json.dumps(e) + "\n")
        ok2, bad2, _ = vlib.validate_trace(ctx, "AvlTrace", "AvlTrace.cfg", "avl_trace.ndjson", bad_trace,
                                           label="selftest", consts={"NK": str(nkeys), "KOff": str(KOFF)})
        if ok2 or bad2 != idx + 1:
            raise vlib.Infra("binding self-test failed: corrupted trace accepted=%s at=%s want=%s" % (ok2, bad2, idx + 1))
        # and a structural corruption (balance factor) must be rejected too
        events = vlib.read_ndjson(trace, limit=400)
        idx = next((i for i, e in enumerate(events) if e["sh"] and not e["shape"]["nil"] and i > 50), None)
        events[idx]["shape"]["b"] = events[idx]["shape"]["b"] + 1
        with open(bad_trace, "w") as f:
            for e in events:
                f.write(json.dumps(e) + "\n")
        ok3, bad3, _ = vlib.validate_trace(ctx, "AvlTrace", "AvlTrace.cfg", "avl_trace.ndjson", bad_trace,
                                           label="selftest2", consts={"NK": str(nkeys), "KOff": str(KOFF)})
        if ok3:
            raise vlib.Infra("binding self-test failed: corrupted balance factor accepted")
        ctx.extra["binding_selftest"] = "corrupted return value rejected at event %d; corrupted balance factor rejected" % (idx + 1)
    ctx.extra["replay_cases"] = total_cases
    ctx.extra["replay_calls"] = total_steps
    ctx.extra["distinct_real_shapes_checked_by_tlc"] = len(seen)
    ctx.extra["recorded_events"] = nev
    ctx.extra["bounds"] = {"configs": [dict(label=l, keys=k, iterators=i, emit=e) for l, k, i, e in CONFIGS[tier]],
                           "record": dict(traces=ntr, ops=nops, keys=nkeys, trees=3, iterators=3)}
    ctx.traces += total_cases
    return ctx.finish(
        rule="one replay case per transition of the AvlTree.tla state graph (canonical VIEW: shape x iterator "
             "positions), each a call history executed on the real AvlTree with the contract observation compared "
             "after the last call; plus seeded random multi-tree histories recorded from the real code and accepted "
             "by AvlTrace.tla; a case is distinct by its (source state, action) pair",
        evaluations=total_cases + nev, distinct_nontrivial=total_cases, exhaustive=True)


def replay(ctx, path):
    with open(path) as f:
        v = json.load(f)
    d = v["detail"]
    binary = ctx.go_build("avl")
    if d.get("mode") == "replay":
        cases = ctx.path("case.ndjson")
        with open(cases, "w") as f:
            f.write(json.dumps(d["case"]) + "\n")
        replay_cases(ctx, binary, cases, d.get("nkeys", 16), "replay", keymap=d.get("keymap", "identity"))
    elif d.get("mode") == "record":
        trace, nev, ok, bad, why = check_trace(ctx, binary, d["ntraces"], d["nops"], d["nkeys"], d["seed"], "replay")
        if not ok:
            ctx.violation({"engine": "trace", "what": "rejected"}, dict(d, rejected_at=bad, reason=why))
    else:
        # structural: re-run the history that produced the shape
        cases = ctx.path("case.ndjson")
        rec = d.get("record") or {}
        with open(cases, "w") as f:
            f.write(json.dumps({"hist": rec.get("hist", []), "obs": {"ret": True, "S": [], "its": []}}) + "\n")
        results = ctx.path("r.ndjson")
        shapes = ctx.path("avl_shapes.ndjson")
        ctx.run([binary, "replay", cases, results, shapes, "-4", "16"])
        ok, bad, why = vlib.validate_trace(ctx, "AvlShapes", "AvlShapes.cfg", "avl_shapes.ndjson", shapes, label="shapes")
        if not ok:
            ctx.violation({"engine": "replay", "what": "structure"}, d)
    return ctx.finish(rule="replay of one recorded violation", evaluations=1, distinct_nontrivial=1)

MANIFEST = {
    "engine": "avl",
    "spec": "spec/AvlTree.tla",
    "engine_text": "AvlSet.tla (contract), AvlTree.tla (mechanism transcribed from avl-tree.go, product with the contract), "
                   "AvlTrace.tla / AvlShapes.tla (trace validation); Go driver harness/cmd/avl",
    "technique": "TLA+ contract + mechanism model checked by TLC; one replay case per transition of the model's state graph "
                 "executed on the real AvlTree; recorded real histories validated by a TLC trace specification",
    "text": "TLC exhaustively checks that the transcribed mechanism refines the set contract (all histories over up to 9/12 keys "
            "without and 6/8 keys with live iterators), every transition of that state graph is replayed on the real tree with the "
            "contract observation compared (return value, membership, ascending iteration from start and from every lower bound, "
            "live iterator positions), the structural invariant (height balance, stored balance factors, parent links, BST order, "
            "no tombstone) is evaluated by TLC on every distinct real shape, and seeded random histories over several trees, clones "
            "and safe iterators recorded from the real code are accepted by the contract's trace specification. Bounded model "
            "checking plus conformance; not a proof for unbounded key universes.",
    "note": "Trusted: TLC, CommunityModules Json, the Go driver's projection of the exported AvlNode fields, Go runtime. "
            "Bounds are echoed in evidence (coverage.bounds).",
    "design_ref": "DESIGN.md section 5 (C19), section 4 (AvlSet/AvlTree)",
}
