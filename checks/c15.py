"""C15 - HMM and mixture inference equals explicit enumeration.

model -> code : spec/HMM.tla builds cases step by step (states, integer weights
                with zeros, state -> emission map, emission tables, start/final
                sets, 1..2 observation sequences, queried state sets) and solves
                each one with the contract of spec/HMMCore.tla (explicit
                enumeration of all m^n hidden paths, exact integer arithmetic);
                the mechanism (forward/backward, restricted forward pass,
                Viterbi with back-pointers) is evaluated next to it and TLC
                checks mechanism = contract on every case.  Exhaustive families
                by breadth-first search, larger spaces by `-simulate`.  Every
                case is printed with the demanded likelihood, marginals,
                state-set posteriors, arg-max path set and expected transition
                counts and replayed by harness/cmd/hmm on the REAL library
                (generic Hmm with Float64 and Real64 parameters, the
                float64-specialised recursion through one Baum-Welch step, the
                vector/matrix wrappers, classifiers, constrained / hierarchical
                HMM with trivial constraints).  spec/Mixture.tla does the same
                for mixtures (all component subsets).
histories     : spec/HMMHist.tla keeps ONE mixture / HMM object alive through a
                history of inference calls and parameter changes (state: the
                current parameters `cur` and the call log): a word over a small
                alphabet of calls (identical arguments every time they recur)
                and changes (SetParameters, SetStartStates, SetFinalStates,
                Clone).  Every call must equal the enumeration for the
                parameters current at that moment - no hidden state may be
                carried between calls.  Replayed on one real object per
                implementation (driver kind "hist").
code -> model : seeded random models are run through the library by the
                recorder; spec/HMMTrace.tla re-enumerates the paths of every
                logged call and accepts the logged fixed-point results.  A
                third of the trials are histories on one object: the trace
                specification tracks the current parameters through the logged
                changes and accepts a call only for exactly those parameters.
"""
import json
import os

import vlib

LEVEL = "model_checking"


def S(vals):
    return "{" + ", ".join(str(v) for v in vals) + "}"


def Q(s):
    return '"%s"' % s


def hmm_consts(minm, maxm, minn, maxn, seqs, wvals, rowsum, evals, smap, restr, qmode, nsym=2):
    return {"MinM": str(minm), "MaxM": str(maxm), "MinN": str(minn), "MaxN": str(maxn), "MaxSeqs": str(seqs),
            "WVals": S(wvals), "RowSum": str(rowsum), "EVals": S(evals), "EDen": "4", "NSym": str(nsym),
            "SmapMode": Q(smap), "RestrMode": Q(restr), "QMode": Q(qmode), "Emit": "TRUE"}


def mix_consts(mink, maxk, wvals, evals, maxd, nsym=2):
    return {"MinK": str(mink), "MaxK": str(maxk), "WVals": S(wvals), "EVals": S(evals), "EDen": "4",
            "NSym": str(nsym), "MaxD": str(maxd), "Emit": "TRUE"}


def hist_consts(kind, minm, maxm, maxn, wvals, evals, smap, ncalls, nchanges, steps, pool, nsym=2):
    return {"Kind": Q(kind), "MinM": str(minm), "MaxM": str(maxm), "MaxN": str(maxn), "WVals": S(wvals), "EVals": S(evals),
            "EDen": "4", "NSym": str(nsym), "SmapMode": Q(smap), "NCalls": str(ncalls), "NChanges": str(nchanges),
            "Steps": str(steps), "PoolMode": Q(pool), "Emit": "TRUE"}


# (label, kind, consts, simulate traces per worker (None = exhaustive breadth-first search), timeout)
FAMILIES = {
    "quick": [
        # every model with 1..2 states and weights 0/1 (all zero patterns), every canonical state map,
        # every start/final restriction, every sequence of length 1..3
        ("exh2", "hmm", hmm_consts(1, 2, 1, 3, 1, [0, 1], 0, [1, 3], "canon", "all", "one"), None, 600),
        # random walks through the full space: 1..3 states, weights 0..2, emissions 0..3, any state map,
        # any restriction, 1..2 sequences of length 1..4, any pair of queried state sets
        ("sim3", "hmm", hmm_consts(2, 3, 1, 4, 2, [0, 1, 2], 0, [0, 1, 2, 3], "all", "all", "all"), 4000, 600),
        ("mix2", "mix", mix_consts(1, 2, [0, 1, 2], [0, 1, 3], 2), None, 300),
        ("mixsim", "mix", mix_consts(3, 4, [0, 1, 2, 3], [0, 1, 2, 3], 3), 500, 300),
        # histories on one object.  Fixed alphabet (2 calls, SetParameters, Clone): every 2-component mixture with
        # weights/emissions from two values and EVERY word of length 4
        ("histmix", "hist", hist_consts("mix", 2, 2, 1, [1, 2], [1, 3], "id", 2, 2, 4, "fixed"), None, 300),
        # random alphabets (2 calls, 2 changes) and random words of length 6
        ("histmixsim", "hist", hist_consts("mix", 2, 4, 3, [0, 1, 2, 3], [0, 1, 2, 3], "id", 2, 2, 6, "free"), 1000, 300),
        ("histhmmsim", "hist", hist_consts("hmm", 2, 3, 3, [0, 1, 2], [0, 1, 2, 3], "all", 2, 2, 6, "free"), 500, 600),
    ],
    "thorough": [
        # all zero patterns, all canonical maps, all restrictions, every sequence of length 1..4, three query pairs
        ("exh2", "hmm", hmm_consts(1, 2, 1, 4, 1, [0, 1], 0, [1, 3], "canon", "all", "few"), None, 3000),
        # the same with zero emission weights (zero-likelihood sequences, zero marginals)
        ("exh2z", "hmm", hmm_consts(2, 2, 1, 3, 1, [0, 1], 0, [0, 1, 3], "canon", "all", "one"), None, 3000),
        # every 2-state model with weights 0..2 (unequal non-zero weights), start/final = none or one state, length 3
        ("exh2w", "hmm", hmm_consts(2, 2, 3, 3, 1, [0, 1, 2], 0, [1, 3], "id", "single", "one"), None, 3000),
        ("sim3", "hmm", hmm_consts(2, 3, 1, 4, 2, [0, 1, 2], 0, [0, 1, 2, 3], "all", "all", "all"), 30000, 3000),
        ("sim3sym", "hmm", hmm_consts(2, 3, 2, 4, 2, [0, 1, 2], 0, [0, 1, 2, 3], "all", "all", "all", nsym=3), 5000, 3000),
        # spot checks beyond the exhaustive bounds: 4 states, length 5..6 (4096 paths), rows are compositions of 4
        ("sim4", "hmm", hmm_consts(4, 4, 5, 6, 1, [0, 1, 2, 3, 4], 4, [0, 1, 2, 3], "all", "all", "all"), 25, 3000),
        ("mix3", "mix", mix_consts(1, 3, [0, 1, 2], [0, 1, 3], 2), None, 1200),
        ("mixsim", "mix", mix_consts(3, 4, [0, 1, 2, 3], [0, 1, 2, 3], 3), 5000, 600),
        ("histmix", "hist", hist_consts("mix", 2, 3, 2, [1, 2], [1, 3], "id", 2, 2, 5, "fixed"), None, 1200),
        # every 2-state HMM with weights 0/1, fixed alphabet (2 calls, SetParameters, SetFinalStates, Clone), every word of length 4
        ("histhmm", "hist", hist_consts("hmm", 2, 2, 3, [0, 1], [1, 3], "id", 2, 3, 4, "fixed"), None, 1800),
        ("histmixsim", "hist", hist_consts("mix", 2, 4, 3, [0, 1, 2, 3], [0, 1, 2, 3], "id", 2, 2, 6, "free"), 8000, 900),
        ("histmixsim3", "hist", hist_consts("mix", 2, 4, 3, [0, 1, 2, 3], [0, 1, 2, 3], "id", 3, 3, 8, "free"), 3000, 900),
        ("histhmmsim", "hist", hist_consts("hmm", 2, 3, 3, [0, 1, 2], [0, 1, 2, 3], "all", 2, 2, 6, "free"), 5000, 1800),
        ("histhmmsim3", "hist", hist_consts("hmm", 2, 3, 4, [0, 1, 2], [0, 1, 2, 3], "all", 3, 3, 8, "free"), 1500, 1800),
    ],
}
RECORD = {"quick": 1500, "thorough": 15000}      # recorder trials (about 4 events each)
WORKERS = 8
NEED_FEATURES = ["start_restricted", "final_restricted", "state_map_not_identity", "zero_likelihood_sequence",
                 "viterbi_tie", "two_sequences", "length_one", "zero_transition_or_initial_weight",
                 "zero_posterior_query", "three_or_more_states", "baum_welch_step_compared", "zero_emission"]
NEED_HIST = ["same_call_repeated_after_parameter_change", "same_call_back_to_back", "calls_alternating_a_b_a",
             "set_parameters", "set_start_states", "set_final_states", "clone"]
MODULES = {"hmm": ("HMM", "HMM.cfg"), "mix": ("Mixture", "Mixture.cfg"), "hist": ("HMMHist", "HMMHist.cfg")}


def generate(ctx, label, kind, consts, sim, timeout):
    out = ctx.path("cases-%s.ndjson" % label)
    module, cfg = MODULES[kind]
    res = ctx.tlc(module, cfg, workers=WORKERS, timeout=timeout, json_out=out, consts=consts, label=label,
                  simulate=("num=%d" % sim) if sim else None, depth=60 if sim else None)
    if res.json_count == 0:
        raise vlib.Infra("no cases generated for " + label)
    if sim:
        ctx.states += res.json_count          # one solved terminal state per printed case
    ctx.log("%s: %d cases (%s), TLC %.0fs" % (label, res.json_count, "simulate" if sim else "exhaustive", res.wall))
    return out, res.json_count


def replay_cases(ctx, binary, cases, kind, tag, extra=None):
    results = ctx.path("results-%s.ndjson" % tag)
    ctx.run([binary, "replay", cases, results, kind], timeout=3000)
    summary = None
    for r in vlib.iter_ndjson(results):
        if r["kind"] == "summary":
            summary = r
        elif r["kind"] == "mismatch":
            d = r["detail"]
            d.setdefault("mode", "replay")
            d.setdefault("kind", kind)
            if extra:
                d.update(extra)
            ctx.violation(r["sig"], d)
    if summary is None:
        raise vlib.Infra("hmm replay wrote no summary (driver died?) for " + tag)
    return summary


def record_and_validate(ctx, binary, ntrials, seed, tag):
    trace = ctx.path("hmm_trace-%s.ndjson" % tag)
    ctx.run([binary, "record", trace, str(ntrials)], env={"VERIF_SEED": str(seed)}, timeout=1200)
    events = vlib.read_ndjson(trace)
    clean = []
    for e in events:
        if e.get("kind") == "mismatch":          # watchdog: the library did not return
            ctx.violation(e["sig"], dict(e["detail"], mode="record", seed=seed, ntrials=ntrials))
        elif e.get("kind") != "summary":
            clean.append(e)
    path = trace + ".clean"
    with open(path, "w") as f:
        for e in clean:
            f.write(json.dumps(e) + "\n")
    ok, bad, why = vlib.validate_trace(ctx, "HMMTrace", "HMMTrace.cfg", "hmm_trace.ndjson", path,
                                       timeout=1800, label="trace-" + tag)
    return path, clean, ok, bad, why


def trace_violation(ctx, clean, bad, why, seed, ntrials):
    e = clean[bad - 1] if bad and bad <= len(clean) else None
    sig = {"engine": "trace", "what": "rejected", "event": e["e"] if e else "?", "op": (e["op"].split(":")[0] if e else "?"),
           "impl": e.get("impl", "?") if e else "?"}
    ctx.violation(sig, {"mode": "record", "seed": seed, "ntrials": ntrials, "rejected_at": bad, "reason": why, "event": e})


def run(ctx):
    tier = ctx.tier
    for mod in ("HMM", "Mixture", "HMMHist", "HMMTrace"):
        ctx.sany(mod)
    # 1. TLC: enumerate / simulate cases, check mechanism = contract on each, print them
    gen = []
    for label, kind, consts, sim, timeout in FAMILIES[tier]:
        out, n = generate(ctx, label, kind, consts, sim, timeout)
        gen.append((label, kind, out, n, sim))
    # 2. replay on the real library
    binary = ctx.go_build("hmm")
    total = 0
    comparisons = 0
    drift = 0
    feats = {}
    hfeats = {}
    per_family = {}
    for label, kind, cases, n, sim in gen:
        summ = replay_cases(ctx, binary, cases, kind, label)
        if summ.get("aborted"):
            ctx.log("%s: replay aborted (%s)" % (label, summ["aborted"]))
        total += summ.get("cases", 0)
        comparisons += summ.get("comparisons", 0)
        drift += summ.get("viterbi_tiebreak_drift", 0)
        per_family[label] = {"cases": summ.get("cases", 0), "comparisons": summ.get("comparisons", 0),
                             "mismatches": summ.get("mismatches", 0), "mode": "simulate" if sim else "exhaustive"}
        for k, v in summ.get("features", {}).items():
            if kind == "hmm":
                feats[k] = feats.get(k, 0) + v
        for k, v in summ.get("history_features", {}).items():
            hfeats[k] = hfeats.get(k, 0) + v
        if summ.get("cases", 0) != n and not summ.get("aborted"):
            raise vlib.Infra("replay of %s executed %s of %d cases" % (label, summ.get("cases"), n))
        with open(cases) as f:
            ctx.sample({"family": label, "replayed_case": json.loads(f.readline())})
        ctx.log("%s: replayed %d cases, %d comparisons, %d mismatches" % (
            label, summ.get("cases", 0), summ.get("comparisons", 0), summ.get("mismatches", 0)))
    # vacuity: the interesting features must really occur
    missing = [k for k in NEED_FEATURES if feats.get(k, 0) == 0]
    missing += [k for k in NEED_HIST if hfeats.get(k, 0) == 0]
    if missing and not ctx.violations:
        raise vlib.Infra("vacuous generation: features never exercised: %s" % missing)
    # 3. code -> model: recorded calls validated by HMMTrace.tla
    ntr = RECORD[tier]
    path, clean, ok, bad, why = record_and_validate(ctx, binary, ntr, ctx.seed, "rec")
    ctx.log("recorded %d events from %d trials: %s" % (len(clean), ntr, "accepted" if ok else "REJECTED at %s (%s)" % (bad, why)))
    if ok:
        ctx.traces += ntr
        ctx.sample({"recorded_events": [dict(e, marg="..") for e in clean[:2]]})
    else:
        trace_violation(ctx, clean, bad, why, ctx.seed, ntr)
    # 4. binding self-test: one corrupted number must be rejected at exactly that event
    if ok:
        done = []
        for op, field in (("logpdf", "v"), ("marginals", "marg"), ("viterbi", "path"), ("posterior", "v")):
            idx = next((i for i, e in enumerate(clean) if e["e"] == "hmm" and e["h"] == 0 and e["op"] == op and not e["zero"] and i > 10
                        and (op != "viterbi" or (e["m"] > 1))), None)
            if idx is None:
                raise vlib.Infra("self-test: no %s event" % op)
            evs = [dict(e) for e in clean[:idx + 5]]
            e = evs[idx]
            if field == "v":
                e["v"] = e["v"] + (40 if e["v"] < 500000 else -40)
            elif field == "marg":
                m = [list(r) for r in e["marg"]]
                m[-1][0] = m[-1][0] + (40 if m[-1][0] < 500000 else -40)
                e["marg"] = m
            else:
                # another path with a different weight, if there is one: flip through all alternatives
                p = list(e["path"])
                p[0] = p[0] % e["m"] + 1
                e["path"] = p
            badp = ctx.path("hmm_trace-corrupt.ndjson")
            with open(badp, "w") as f:
                for x in evs:
                    f.write(json.dumps(x) + "\n")
            ok2, bad2, _ = vlib.validate_trace(ctx, "HMMTrace", "HMMTrace.cfg", "hmm_trace.ndjson", badp,
                                               label="selftest-" + op)
            if field == "path" and ok2:
                continue      # the altered path happened to be another arg-max path (a tie): not a binding failure
            if ok2 or bad2 != idx + 1:
                raise vlib.Infra("binding self-test failed (%s): corrupted trace accepted=%s at=%s want=%s" % (op, ok2, bad2, idx + 1))
            done.append("%s@%d" % (op, idx + 1))
        # a dropped parameter change: the next call on the object is logged with parameters that are not the
        # current ones of the specification's state -> rejected at that call
        idx = next((i for i, e in enumerate(clean) if e["e"] in ("hchg", "mchg") and e["ck"] == "set" and i > 10
                    and (e["e"] == "mchg" or True) and clean[i + 1]["e"] in ("hmm", "mix")
                    and (clean[i + 1]["pi"], clean[i + 1]["tr"], clean[i + 1]["w"]) !=
                        next(((p["pi"], p["tr"], p["w"]) for p in reversed(clean[:i]) if p["e"] in ("hmm", "mix")), None)), None)
        if idx is None:
            raise vlib.Infra("self-test: no parameter change event in the trace")
        evs = [dict(e) for e in clean[:idx] + clean[idx + 1:idx + 6]]
        badp = ctx.path("hmm_trace-corrupt.ndjson")
        with open(badp, "w") as f:
            for x in evs:
                f.write(json.dumps(x) + "\n")
        ok2, bad2, _ = vlib.validate_trace(ctx, "HMMTrace", "HMMTrace.cfg", "hmm_trace.ndjson", badp, label="selftest-dropchange")
        if ok2 or bad2 != idx + 1:
            raise vlib.Infra("binding self-test failed (dropped change): accepted=%s at=%s want=%s" % (ok2, bad2, idx + 1))
        done.append("dropped-change@%d" % (idx + 1))
        if len(done) < 4:
            raise vlib.Infra("binding self-test: too few corruptions exercised: %s" % done)
        ctx.extra["binding_selftest"] = "corrupted results rejected at the corrupted event: " + ", ".join(done)
    ctx.traces += total
    ctx.extra["replay_cases"] = total
    ctx.extra["replay_comparisons"] = comparisons
    ctx.extra["families"] = per_family
    ctx.extra["features_exercised"] = feats
    ctx.extra["history_features_exercised"] = hfeats
    # information only (DESIGN 3.6): the library broke a Viterbi tie differently from the mechanism model
    ctx.extra["drift_viterbi_tiebreak"] = drift
    ctx.extra["recorded_events"] = len(clean)
    ctx.extra["bounds"] = {"families": [dict(label=l, kind=k, consts=c, simulate_traces_per_worker=s, workers=WORKERS)
                                        for l, k, c, s, _ in FAMILIES[tier]],
                           "record_trials": ntr, "tolerance_log_domain": 1e-9, "trace_fixed_point_bits": 20}
    ctx.assumptions.append("models with an all-zero transition row (also after the final-state restriction) or an all-zero "
                           "restricted initial vector are excluded (DESIGN.md C15 L); for sequences of zero likelihood only "
                           "'-Inf or error' is demanded")
    return ctx.finish(
        rule="one case = (model, data set of 1..2 sequences, two queried state sets) printed by TLC with the results of "
             "explicit path enumeration; exhaustive families enumerate every case of their constants, simulated "
             "families draw one case per random walk; each case is executed on the real library through generic.Hmm "
             "(Float64, Real64), one Baum-Welch step (float64-specialised recursion), the vector/matrix wrappers and "
             "classifiers; plus recorded library calls on seeded random models accepted by HMMTrace.tla",
        evaluations=comparisons + len(clean), distinct_nontrivial=total, exhaustive=False)


def replay(ctx, path):
    with open(path) as f:
        v = json.load(f)
    d = v["detail"]
    binary = ctx.go_build("hmm")
    if d.get("mode") == "record":
        p, clean, ok, bad, why = record_and_validate(ctx, binary, d["ntrials"], d["seed"], "replay")
        if not ok:
            trace_violation(ctx, clean, bad, why, d["seed"], d["ntrials"])
    else:
        cases = ctx.path("case.ndjson")
        # replay with every instantiation parity the driver uses (index 0..3 select type / variant / wrapper)
        with open(cases, "w") as f:
            for _ in range(4):
                f.write(json.dumps(d["case"]) + "\n")
        replay_cases(ctx, binary, cases, d.get("kind", "hmm"), "replay")
    ctx.states = max(ctx.states, 1)
    ctx.transitions = max(ctx.transitions, 1)
    ctx.traces = max(ctx.traces, 1)
    return ctx.finish(rule="replay of one recorded violation", evaluations=1, distinct_nontrivial=1)


MANIFEST = {
    "engine": "hmm",
    "spec": "spec/HMM.tla",
    "engine_text": "HMMCore.tla (contract: explicit enumeration of all hidden paths with exact integer/rational arithmetic; "
                   "mechanism: forward/backward, restricted forward pass, Viterbi with back-pointers, transcribed from "
                   "statistics/generic/hmm*.go), HMM.tla / Mixture.tla (case generation, mechanism = contract invariant), "
                   "HMMHist.tla (histories of calls and parameter changes on one object: state = current parameters + call log), "
                   "HMMTrace.tla (trace validation, tracks the current parameters of long-lived objects); Go driver harness/cmd/hmm",
    "technique": "TLA+ contract + mechanism model checked by TLC on every generated case (exhaustive families by breadth-first "
                 "search, larger spaces by simulation); every case is printed with the values the contract demands and replayed "
                 "on the real library; recorded library calls are validated by a TLC trace specification",
    "text": "TLC builds hidden Markov models (1..3 states, 4 in spot checks; integer weights with zeros; every state-to-emission "
            "map; emission tables over a 2- or 3-symbol alphabet; every start and final restriction; data sets of 1..2 sequences "
            "of length 1..4, 6 in spot checks) and mixtures (1..4 components, every component subset), evaluates the definition "
            "by enumerating all m^n hidden paths exactly, checks that the forward/backward/Viterbi mechanism equals it "
            "(alpha*beta = path sums, marginals sum to one exactly, Viterbi path in the arg-max set), and prints likelihood, "
            "posterior marginals, posteriors of state-set sequences, the set of maximal paths and expected transition counts. "
            "The Go driver executes each case on generic.Hmm with Float64 and Real64 parameters (LogPdf, PosteriorMarginals, "
            "Posterior, Viterbi, ForwardBackward), on the float64-specialised recursion through one Baum-Welch step "
            "(likelihood, gamma, re-estimated Pi and Tr), on the vector/matrix distribution wrappers, the HMM and mixture "
            "classifiers and the constrained/hierarchical HMM with trivial constraints, comparing in the log domain to 1e-9. "
            "HMMHist.tla keeps one mixture or HMM object alive through words of inference calls (recurring with identical "
            "arguments) and parameter changes (SetParameters, SetStartStates, SetFinalStates, Clone): every call must equal the "
            "enumeration for the parameters current at that moment, so state carried between calls is detected. "
            "Seeded random library calls are logged as fixed-point numbers and accepted by HMMTrace.tla, which re-enumerates "
            "the paths; corrupted logs are rejected. Bounded checking plus conformance, not a proof.",
    "note": "Trusted: TLC, CommunityModules Json, Go's math.Log/Exp, the driver's data records. Excluded by design: models with "
            "an all-zero (restricted) transition row or initial vector; zero-likelihood sequences only demand -Inf or an error. "
            "Bounds are echoed in evidence (coverage.bounds).",
    "design_ref": "DESIGN.md section 5 (C15), section 4 (HMM.tla, Mixture.tla), section 3.4",
}
