"""C01 - automatic differentiation returns exact first and second derivatives.

model -> code : spec/ScalarMachine.tla (register machine over the scalar method
                calls, contents are symbolic terms of spec/Expr.tla) is explored
                exhaustively by TLC; every program (path mode) is printed with the
                value / gradient / Hessian TERMS the specification demands of the
                last receiver, the evaluation points, the dependence flags and the
                guard terms (local derivatives whose finiteness makes the point
                regular).  harness/cmd/scalar replays every program on Real64 and
                Real32, order 1 and 2, generic and CAPITAL methods, dense and
                sparse containers, and compares with the evaluated terms.
code -> model : seeded random deeper programs are recorded from the real scalars;
                spec/ScalarTrace.tla must accept every call as a machine action,
                checks the discrete observations (exact-zero slots, symmetry,
                order/N, frame) and prints the expected terms of every event,
                which `scalar judge` compares with the recorded numbers.
"""
import json
import os
import re

import vlib

LEVEL = "model_checking"

STD = ["arith", "pow", "trig", "explog", "softplus", "special", "special2", "branch", "reduce", "mix"]
D3 = ["d3trig", "d3log", "d3hyp", "d3branch", "d3erf", "d3pow"]


def tset(names):
    return "{" + ", ".join('"%s"' % n for n in names) + "}"


def iset(xs):
    return "{" + ", ".join(str(x) for x in xs) + "}"


# (label, families, NSet, MaxDepth, Shallow)
RUNS = {
    "quick": [("d2", STD, [1, 2], 2, ["pow"]), ("d3trig", ["d3trig"], [2], 3, []), ("n3", ["d3trig", "d3log"], [3], 2, [])],
    "thorough": [("d2", STD, [1, 2, 3], 2, [])] + [(f, [f], [2], 3, []) for f in D3],
}
RECORD = {"quick": (300, 6, 10), "thorough": (1500, 6, 12)}     # traces, min depth, max depth

# operations the specification gives a meaning to; all must be exercised (vacuity)
ALL_OPS = ["Neg", "Abs", "Sqrt", "Sin", "Sinh", "Cos", "Cosh", "Tan", "Tanh", "Exp", "Log", "Log1p", "Log1pExp",
           "Logistic", "Sigmoid", "Erf", "Erfc", "LogErfc", "Gamma", "Lgamma", "Add", "Sub", "Mul", "Div", "Pow",
           "Min", "Max", "LogAdd", "LogSub", "Mlgamma", "GammaP", "BesselI", "LogBesselI", "Vmean", "VdotV", "Vnorm",
           "SmoothMax", "LogSmoothMax", "Mtrace", "Mnorm", "Activate"]
BRANCHES = ["Log1pExp:x<=-37", "Log1pExp:-37<x<=18", "Log1pExp:18<x<=33.3", "Log1pExp:x>33.3", "Sigmoid:x>=0",
            "Sigmoid:x<0", "Abs:x<0", "Abs:x=0", "Abs:x>0", "Pow:variable exponent", "Pow:constant exponent",
            "Pow:base 0"] + ["Activate:%s shape/%s" % (s, a) for s in ("same", "new")
                             for a in ("setvariable", "variables", "resetset")]


def add_counts(total, part):
    for k, v in part.items():
        if isinstance(v, dict):
            add_counts(total.setdefault(k, {}), v)
        elif isinstance(v, (int, float)) and not isinstance(v, bool):
            total[k] = total.get(k, 0) + v
        elif isinstance(v, list):
            total[k] = sorted(set(total.get(k, [])) | set(v))
        else:
            total[k] = v


def run_replay(ctx, binary, cases, tag, extra=None):
    """Replay a case file; report mismatches; return the driver's summary."""
    results = ctx.path("results-%s.ndjson" % tag)
    ctx.run([binary, "replay", cases, results], timeout=3000)
    summary = None
    for r in vlib.iter_ndjson(results):
        if r["kind"] == "summary":
            summary = r
        elif r["kind"] == "mismatch":
            d = r["detail"]
            d["mode"] = "replay"
            if extra:
                d.update(extra)
            ctx.violation(r["sig"], d)
    if summary is None:
        raise vlib.Infra("scalar replay wrote no summary (driver died?)")
    if summary.get("aborted"):
        return summary
    os.remove(results)
    return summary


def trace_tlc(ctx, trace, label, json_out=None):
    """ScalarTrace over a recorded trace.  Returns (accepted, bad_index, reason)."""
    res = ctx.tlc("ScalarTrace", "ScalarTrace.cfg", workers=1, timeout=1800, files={"scalar_trace.ndjson": trace},
                  label=label, allow_violation=True, json_out=json_out)
    if res.ok:
        return True, None, None
    log = open(res.log).read()
    if res.violated:
        ls = re.findall(r"/\\ l = (\d+)", log)
        return False, (int(ls[-1]) - 1 if ls else None), "invariant " + ",".join(res.violated)
    m = re.search(r'REJECTED_AT", (\d+)', log)
    if m:
        return False, int(m.group(1)), "no action of the specification explains the event"
    raise vlib.Infra("trace validation failed without a verdict: %s\n%s" % (res.errors[:3], vlib.tail_of(res.log, 30)))


def record_and_judge(ctx, binary, ntr, mind, maxd, seed, tag):
    trace = ctx.path("scalar_trace-%s.ndjson" % tag)
    obs = ctx.path("scalar_obs-%s.ndjson" % tag)
    ctx.run([binary, "record", trace, obs, str(ntr), str(mind), str(maxd)], env={"VERIF_SEED": str(seed)}, timeout=1200)
    expected = ctx.path("scalar_expected-%s.ndjson" % tag)
    ok, bad, why = trace_tlc(ctx, trace, "trace-" + tag, json_out=expected)
    events = sum(1 for _ in open(trace))
    info = {"seed": seed, "ntraces": ntr, "mindepth": mind, "maxdepth": maxd, "mode": "record"}
    if not ok:
        evs = vlib.read_ndjson(trace)
        e = evs[bad - 1] if bad and bad <= len(evs) else None
        ctx.violation({"engine": "scalar", "op": (e or {}).get("c", {}).get("op", "?"), "what": "trace_rejected",
                       "mode": "recorded"},
                      dict(info, rejected_at=bad, reason=why, event=e, preceding=evs[max(0, (bad or 1) - 6):(bad or 1) - 1]))
        return trace, obs, events, 0, None
    results = ctx.path("judge-%s.ndjson" % tag)
    ctx.run([binary, "judge", obs, expected, results], timeout=1200)
    summary = None
    for r in vlib.iter_ndjson(results):
        if r["kind"] == "summary":
            summary = r
        elif r["kind"] == "mismatch":
            ctx.violation(r["sig"], dict(r["detail"], **info))
    if summary is None:
        raise vlib.Infra("scalar judge wrote no summary")
    if summary["events_judged"] == 0:
        raise vlib.Infra("no recorded event was judged (vacuous)")
    return trace, obs, events, summary["events_judged"], summary


def selftest(ctx, binary, trace, obs):
    """Binding self-test on a prefix of the recorded trace."""
    evs = vlib.read_ndjson(trace, limit=400)
    # cut at a trace boundary
    cut = max(i for i, e in enumerate(evs) if e["e"] == "reset")
    evs = evs[:cut] if cut > 20 else evs
    # (a) a non-zero flag for a variable the result does not depend on must be rejected by TLC.
    # The result of the first call of a trace with n >= 2 depends on at most ... find a false flag.
    idx = None
    for i, e in enumerate(evs):
        if e["e"] == "op" and e["n"] >= 2 and False in e["nz"] and len(e["c"]["a"]) == 1 and e["c"]["a"][0] <= e["n"]:
            idx = i      # unary call on variable a: the other variables' slots are exact zeros
            break
    if idx is None:
        raise vlib.Infra("self-test: no suitable event")
    bad = [json.loads(json.dumps(e)) for e in evs]
    j = [k for k in range(bad[idx]["n"]) if k + 1 != bad[idx]["c"]["a"][0]][0]
    bad[idx]["nz"][j] = True
    p = ctx.path("scalar_trace-corrupt1.ndjson")
    with open(p, "w") as f:
        for e in bad:
            f.write(json.dumps(e) + "\n")
    ok, at, _ = trace_tlc(ctx, p, "selftest-zero-slot")
    if ok or at != idx + 1:
        raise vlib.Infra("vacuous binding: a non-zero slot for an independent variable was accepted (ok=%s at=%s want=%s)"
                         % (ok, at, idx + 1))
    # (b) a call whose receiver is also an operand is not an action of the machine
    bad = [json.loads(json.dumps(e)) for e in evs]
    idx2 = next(i for i, e in enumerate(bad) if e["e"] == "op")
    bad[idx2]["c"]["a"][0] = bad[idx2]["c"]["r"]
    with open(p, "w") as f:
        for e in bad:
            f.write(json.dumps(e) + "\n")
    ok, at, _ = trace_tlc(ctx, p, "selftest-alias")
    if ok:
        raise vlib.Infra("vacuous binding: an aliased call was accepted by the trace specification")
    # (c) a changed operand register changes the expected terms: the judge must notice
    bad = [json.loads(json.dumps(e)) for e in evs]
    done = False
    for i, e in enumerate(bad):
        if e["e"] == "op" and e["c"]["op"] in ("Sin", "Exp", "Tanh", "Cos", "Logistic") and e["c"]["a"][0] <= e["n"]:
            e["c"]["a"][0] = e["n"] + 3          # the first constant register instead of the variable
            e["nz"] = [False] * e["n"]
            e["hz"] = [[False] * e["n"] for _ in range(e["n"])]
            # later events of this trace may no longer satisfy the zero-slot invariant: cut the trace here
            bad = bad[:i + 1]
            done = True
            break
    if not done:
        raise vlib.Infra("self-test: no unary call on a variable in the trace prefix")
    with open(p, "w") as f:
        for e in bad:
            f.write(json.dumps(e) + "\n")
    exp = ctx.path("scalar_expected-corrupt.ndjson")
    ok, at, why = trace_tlc(ctx, p, "selftest-operand", json_out=exp)
    if not ok:
        raise vlib.Infra("self-test (c): corrupted operand unexpectedly rejected by TLC at %s (%s)" % (at, why))
    res = ctx.path("judge-corrupt.ndjson")
    ctx.run([binary, "judge", obs, exp, res])
    n = sum(1 for r in vlib.iter_ndjson(res) if r["kind"] == "mismatch")
    if n == 0:
        raise vlib.Infra("vacuous binding: the judge accepted observations against terms of a different program")
    return ("flipped zero-slot flag rejected at event %d; aliased call rejected; judge flags a swapped operand" % (idx + 1))


def run(ctx):
    tier = ctx.tier
    ctx.sany("ScalarTrace")
    binary = ctx.go_build("scalar")
    total = {}
    ncases = 0
    bounds = []
    for label, fams, nset, depth, shallow in RUNS[tier]:
        cases = ctx.path("cases-%s.ndjson" % label)
        res = ctx.tlc("ScalarMachine", "ScalarMachine.cfg", workers=8, timeout=3000, label=label, json_out=cases,
                      heap="8g",
                      consts={"Fams": tset(fams), "NSet": iset(nset), "MaxDepth": str(depth),
                              "Shallow": tset(shallow), "Emit": "TRUE"})
        ctx.log("ScalarMachine %s: %d programs (%d states) in %.0fs" % (label, res.json_count, res.distinct, res.wall))
        if res.json_count == 0:
            raise vlib.Infra("no cases generated for " + label)
        with open(cases) as f:
            first = f.readline()
            if ncases == 0:
                c = json.loads(first)
                ctx.sample({"program": c["hist"], "n": c["n"], "value_term": c["val"], "gradient_terms": c["grad"],
                            "depends": c["dep"], "points_x1": c["pts1"]})
        summ = run_replay(ctx, binary, cases, label)
        if summ.get("aborted"):
            ctx.extra["aborted"] = summ["aborted"]
            break
        os.remove(cases)
        ncases += summ["cases"]
        add_counts(total, {k: v for k, v in summ.items() if k not in ("kind", "tolerance_factor")})
        bounds.append(dict(label=label, families=fams, n=nset, max_calls=depth, one_call_less=shallow,
                           programs=summ["cases"]))
        ctx.log("replayed %s: %d programs, %d executions, %d comparisons, %d mismatch records" % (
            label, summ["cases"], summ["executions"], summ["comparisons"], summ["mismatches"]))
    # vacuity: every operation, instantiation and named branch must have been exercised
    if not ctx.extra.get("aborted"):
        missing = [o for o in ALL_OPS if total.get("ops", {}).get(o, 0) == 0]
        if missing:
            raise vlib.Infra("operations never exercised: %s" % missing)
        nb = [b for b in BRANCHES if total.get("branches", {}).get(b, 0) == 0]
        if nb:
            raise vlib.Infra("branches never exercised: %s" % nb)
        for typ in ("Real64", "Real32"):
            for o in (1, 2):
                for md, st in (("generic", "dense"), ("generic", "sparse"), ("concrete", "dense")):
                    key = "%s/order%d/%s/%s" % (typ, o, md, st)
                    if total.get("instantiations", {}).get(key, 0) == 0:
                        raise vlib.Infra("instantiation never exercised: " + key)
        if total.get("zero_slot_checks", 0) == 0 or total.get("comparisons", 0) == 0:
            raise vlib.Infra("no comparison performed")
    # code -> model
    ntr, mind, maxd = RECORD[tier]
    trace, obs, events, judged, jsum = record_and_judge(ctx, binary, ntr, mind, maxd, ctx.seed, "rec")
    ctx.log("recorded %d events in %d traces, %d judged" % (events, ntr, judged))
    if jsum is not None:
        ctx.traces += ntr
        ctx.extra["binding_selftest"] = selftest(ctx, binary, trace, obs)
        ctx.extra["recorded"] = {"traces": ntr, "events": events, "events_judged": judged,
                                 "comparisons": jsum["comparisons"], "calls_per_trace": [mind, maxd]}
        with open(trace) as f:
            evs = [json.loads(next(f)) for _ in range(3)]
        ctx.sample({"recorded_trace_prefix": evs})
    # API surface accounting
    opsf = ctx.path("ops.json")
    ctx.run([binary, "ops", opsf])
    api = vlib.read_ndjson(opsf)[0]
    ctx.extra["unmodelled_methods"] = api["Real64"]["unmodelled_methods"]
    ctx.extra["bound_methods"] = len(api["Real64"]["bound_to_specification"])
    ctx.traces += ncases
    ctx.extra["replay"] = {k: total.get(k) for k in (
        "cases", "executions", "comparisons", "skipped_undefined", "skipped_range", "skipped_ties",
        "singular_points_value_only", "zero_slot_checks", "known_deviation_matches", "branches", "instantiations", "ops")}
    ctx.extra["bounds"] = {"runs": bounds, "temporaries": 2, "types": ["Real64", "Real32"], "orders": [1, 2],
                           "tolerance": "16 x running first-order error bound of the expected term at the type's unit roundoff",
                           "record": {"traces": ntr, "calls": [mind, maxd]}}
    ctx.assumptions += [
        "expected terms are evaluated with Go's math package (float64); digamma, trigamma, incomplete gamma and Bessel I "
        "by independent series in harness/exprlib",
        "at ties (Abs at 0, Min/Max of equal operands) any of the sub-gradients -1/0/+1 resp. either operand is accepted",
        "at singular points of a local derivative (guard terms not finite) only the value is demanded",
    ]
    return ctx.finish(
        rule="one case per program of the ScalarMachine.tla state graph (call history is part of the state), executed on "
             "Real64/Real32 x order 1/2 x generic/CAPITAL x dense/sparse at every listed evaluation point; value, every "
             "gradient and Hessian slot compared with the specification's term, exact zero demanded for independent "
             "inputs, Hessian symmetry exact; plus seeded recorded programs of 6..12 calls accepted by ScalarTrace.tla and "
             "judged against the terms it rebuilds; a case is distinct by its call history and register file",
        evaluations=total.get("executions", 0) + judged, distinct_nontrivial=ncases + judged, exhaustive=True,
        trusted_base=["TLC 1.8.0", "CommunityModules Json", "Go math (float64)", "harness/exprlib evaluator and error model",
                      "harness/cmd/scalar driver"])


def replay(ctx, path):
    with open(path) as f:
        v = json.load(f)
    d = v["detail"]
    binary = ctx.go_build("scalar")
    if d.get("mode") == "replay" and "case" in d:
        case = d["case"]
        if d.get("point"):
            case = dict(case)
            case["pts"] = [[float(x) for x in d["point"]]]
        cases = ctx.path("case.ndjson")
        with open(cases, "w") as f:
            f.write(json.dumps(case, separators=(",", ":")) + "\n")
        run_replay(ctx, binary, cases, "replay")
    elif d.get("mode") == "record":
        record_and_judge(ctx, binary, d["ntraces"], d["mindepth"], d["maxdepth"], d["seed"], "replay")
    else:
        raise vlib.Infra("violation file has no replayable detail")
    # one stored program (one state of the ScalarMachine graph) was re-executed
    ctx.states = max(ctx.states, 1)
    ctx.transitions = max(ctx.transitions, 1)
    ctx.traces = max(ctx.traces, 1)
    return ctx.finish(rule="replay of one recorded violation", evaluations=1, distinct_nontrivial=1)


MANIFEST = {
    "engine": "scalar",
    "spec": "spec/ScalarMachine.tla",
    "engine_text": "Expr.tla (symbolic terms, differentiation table, meaning of every scalar operation), ScalarMachine.tla "
                   "(register machine over the scalar method calls, path-mode case generation), ScalarTrace.tla (trace "
                   "validation of recorded programs); Go driver harness/cmd/scalar with the term evaluator harness/exprlib",
    "technique": "TLA+ contract with symbolic expressions checked by TLC; every program of the model's state graph is printed "
                 "with the value/gradient/Hessian terms the specification demands and replayed on the real Real64/Real32 "
                 "scalars; recorded deeper programs are validated by a TLC trace specification that rebuilds the terms",
    "text": "TLC enumerates every program of up to 2 calls (3 calls for six small operation families) over the 40 scalar "
            "operations and reductions, with constant / plain / order-0 magic / active-variable operands, 1-3 variables and "
            "reused temporaries; the specification (not Go code) owns the differentiation table and the meaning of every "
            "operation and prints the expected value, gradient and Hessian as symbolic terms. Each program is executed on "
            "Real64 and Real32, order 1 and 2, generic and type-specific methods, dense and sparse containers, at rational "
            "points including the Log1pExp thresholds, the Sigmoid split, Abs at 0, LogAdd/LogSub with -Inf and Pow with "
            "base 0; every slot is compared within a running-error tolerance, slots of independent inputs must be exactly "
            "zero, the Hessian exactly symmetric. Seeded recorded programs of 6-12 calls are accepted by the trace "
            "specification, which checks the zero pattern and prints the terms the recorded numbers are judged against. "
            "Bounded and point-wise: finitely many evaluation points per operation, accuracy across a domain is not claimed.",
    "note": "Trusted: TLC, CommunityModules Json, Go's math package, the ~400-line term evaluator and its error model "
            "(harness/exprlib, with independent digamma/trigamma/incomplete-gamma/Bessel series). At ties (Abs at 0, Min/Max "
            "of equal operands) any sub-gradient is accepted; at singular points of a local derivative only the value is "
            "demanded. Receiver aliasing is property C08. Known findings: Erfc value (repaired under C02), Mnorm without "
            "square root (checked against the modelled deviation). Bounds are echoed in evidence (coverage.bounds).",
    "design_ref": "DESIGN.md section 5 (C01), section 4 (Expr, ScalarMachine), section 3.4",
}
