"""C18 - serialisation round-trips every value; malformed input is answered with
an error or a well-formed object.

model -> code : spec/Serialization.tla is model-checked (RoundTrip, Repacked,
                FaultSafe on the abstract encoders/decoders); every state
                (object x format x faults applied) is printed as a replay case
                with the outcome class the contract demands and executed by
                harness/cmd/serial on the real encoders/decoders for every
                element type the case names (children processes + journal: a
                fatal runtime error of the library is an observation).
                Plus seeded byte-level mutation of valid documents.
code -> model : seeded random larger objects are encoded/decoded by the real
                code, the produced bytes are parsed generically into the
                abstract document form and spec/SerializationTrace.tla checks
                document = Encode(object), decoded = Carried(object).
"""
import collections
import json
import os

import vlib

LEVEL = "model_checking"

WORKERS = 4
TIERS = {
    #            round: MaxDim, Rich    fault: MaxFaults   dist: MaxFaults   mutations/format   recorded events
    "quick":    dict(maxdim=2, rich=False, faults=1, dist_faults=1, mut=100, rec=600, wide='{"64K", "1M"}'),
    "thorough": dict(maxdim=3, rich=True, faults=2, dist_faults=1, mut=1000, rec=4000, wide='{"64K", "1M", "4M"}'),
}
FAULT_NAMES = {"DropField", "WrongType", "LenMismatch", "NegDim", "DupIndex", "IndexOutOfRange", "LengthTooSmall",
               "Truncate", "EmptyFile", "BlankLine", "EntryRange", "CellIndex", "DropLine", "DropToken", "ExtraToken", "NonNumeric"}
CFG_FAULTS = {"DropField", "WrongType", "UnknownName", "ParamLen", "ParamElemType", "ParamIndexRange", "ChildCount", "Truncate"}
ALL_TYPES = {"Float64", "Float32", "Int", "Int8", "Int16", "Int32", "Int64", "Real64", "Real32",
             "ConstFloat64", "ConstFloat32", "ConstInt", "ConstInt8", "ConstInt16", "ConstInt32", "ConstInt64"}


def view_word(obj):
    w = "".join(o["op"] for o in obj.get("view", []) or [])
    return w or "id"


def case_stats(path, stats):
    """vacuity accounting over the generated cases"""
    n = 0
    for c in vlib.iter_ndjson(path):
        n += 1
        o = c["obj"]
        stats["receivers"][(o["k"], c.get("rcv", {}).get("pre", "fresh"))] += 1
        if o["k"] == "dist":
            stats["dist_names"].update(names_of(o["cfg"]))
            hv = o["cfg"]["f"]["Parameters"].get("hv")
            if hv and not c["faults"]:
                stats["hmm_variants"][hv] += 1
            for f in c["faults"]:
                stats["cfg_faults"][f["f"]] += 1
            continue
        stats["kinds"][(o["k"], o["cls"], o["st"], c["fmt"], view_word(o))] += 1
        stats["layouts"][c.get("layout", "canonical")] += 1
        if "hist" in o:
            stats["history"][(o["k"], o["hist"]["how"])] += 1
        if "wide" in o:
            stats["wide"][(o["k"], o["wide"])] += 1
        for f in c["faults"]:
            if f["f"] == "EntryRange":
                stats["range"][(c["fmt"], f["val"], f["notation"])] += 1
                if o["k"] == "scalar":
                    stats["range"][("scalar", f["val"], f["notation"])] += 1
            if f["f"] == "CellIndex":
                stats["range"][("cell", f["out"], f["other"])] += 1
        for f in c["faults"]:
            stats["faults"][f["f"]] += 1
        stats["types"].update(c["types"])
        if o["k"] != "scalar":
            for a in o["c"]:
                stats["atoms"][a] += 1
        else:
            stats["atoms"][o["v"]] += 1
        stats["model"][c["model"]] += 1
    return n


def names_of(cfg):
    out = set()
    if cfg.get("t") == "obj":
        nm = cfg["f"].get("Name", {})
        if nm.get("t") == "str":
            out.add(nm["s"])
        d = cfg["f"].get("Distributions", {})
        for k in d.get("v", []) or []:
            out |= names_of(k)
    return out


def tclass(tn):
    if tn.startswith("Const"):
        return "const-int" if "Int" in tn else "const-float"
    if tn.startswith("Real"):
        return "real"
    return "int" if tn.startswith("Int") else "float"


def death_sig(case, rec):
    o = case["obj"]
    ft = case["faults"][0]["f"] if case["faults"] else "none"
    if o["k"] == "dist":
        return {"engine": "serial", "mode": "fault" if case["faults"] else "roundtrip", "kind": "dist", "format": "config",
                "fault": ft, "what": rec["what"], "stage": rec["stage"]}
    tn = case["types"][rec["inst"]] if rec["inst"] < len(case["types"]) else "?"
    return {"engine": "serial", "mode": "fault" if case["faults"] else "roundtrip", "kind": o["k"], "cls": o["cls"],
            "storage": o["st"], "format": case["fmt"], "view": view_word(o), "fault": ft, "tclass": tclass(tn),
            "what": rec["what"], "stage": rec["stage"]}


def process_results(ctx, results, cases_path, tag, counts):
    """mismatch / death records of the driver -> violations; returns the summed counters"""
    cases = None
    nsum = 0
    for r in vlib.iter_ndjson(results):
        k = r.get("kind")
        if k == "summary":
            nsum += 1
            for a, b in r["counts"].items():
                counts[a] += b
        elif k == "mismatch":
            d = r["detail"]
            if not d.get("elided"):
                d["replay_mode"] = "replay"
            ctx.violation(r["sig"], d)
        elif k == "death":
            if r.get("mode") == "mutate":
                ctx.violation({"engine": "serial", "mode": "mutation", "what": r["what"], "stage": r["stage"]},
                              {"replay_mode": "mutate", "record": r, "tag": tag})
                continue
            if cases is None:
                cases = vlib.read_ndjson(cases_path)
            c = cases[r["item"]]
            tn = c["types"][r["inst"]] if c["obj"]["k"] != "dist" and r["inst"] < len(c["types"]) else None
            cc = dict(c)
            if tn:
                cc["types"] = [tn]
            ctx.violation(death_sig(c, r), {"replay_mode": "replay", "case": cc, "type": tn, "stage": r["stage"],
                                           "message": "the driver's child process died (%s) in step %s: %s" % (r["what"], r["stage"], r["stderr"][:300])})
            counts["deaths"] += 1
        elif k == "nobuilder":
            raise vlib.Infra("driver cannot build distribution family %s: %s" % (r["family"], r["error"]))
    if nsum == 0:
        raise vlib.Infra("serial %s wrote no summary (driver died?)" % tag)


def run_replay(ctx, binary, cases, tag, counts):
    results = ctx.path("results-%s.ndjson" % tag)
    ctx.run([binary, "replay", cases, results, ctx.path("scratch-" + tag)], timeout=3000,
            env={"VERIF_SHARDS": str(WORKERS)})
    process_results(ctx, results, cases, tag, counts)


def check_trace(ctx, binary, n, seed, tag, sparse_views):
    trace = ctx.path("serial_trace-%s.ndjson" % tag)
    args = [binary, "record", trace, str(n), ctx.path("scratch-rec")]
    if sparse_views:
        args.append("sparse-views")
    ctx.run(args, env={"VERIF_SEED": str(seed)}, timeout=900)
    clean = trace + ".clean"
    nev = 0
    with open(clean, "w") as out:
        for line in open(trace):
            if line.startswith('{"detail"') or '"kind":"mismatch"' in line[-60:]:
                r = json.loads(line)
                if r.get("kind") == "mismatch":
                    ctx.violation(r["sig"], dict(r["detail"], replay_mode="record", n=n, sparse_views=sparse_views))
                    continue
            out.write(line)
            nev += 1
    if nev == 0:
        raise vlib.Infra("recorder produced no events")
    ok, bad, why = vlib.validate_trace(ctx, "SerializationTrace", "SerializationTrace.cfg", "serial_trace.ndjson", clean,
                                       timeout=1800, label="trace-" + tag)
    return clean, nev, ok, bad, why


def run(ctx):
    t = TIERS[ctx.tier]
    ctx.sany("SerializationTrace")
    stats = dict(kinds=collections.Counter(), faults=collections.Counter(), cfg_faults=collections.Counter(),
                 types=set(), atoms=collections.Counter(), model=collections.Counter(), dist_names=set(),
                 layouts=collections.Counter(), hmm_variants=collections.Counter(), receivers=collections.Counter(),
                 history=collections.Counter(), wide=collections.Counter(), range=collections.Counter())
    # 1. the model: contract invariants + case generation
    files = {}
    ncases = {}
    for tag, cfg, consts in [
        ("round", "Serialization_round.cfg", {"MaxDim": str(t["maxdim"]), "Rich": "TRUE" if t["rich"] else "FALSE",
                                              "WideClasses": t["wide"]}),
        ("fault", "Serialization_fault.cfg", {"MaxFaults": str(t["faults"])}),
        ("dist", "Serialization_dist.cfg", {"MaxFaults": str(t["dist_faults"])}),
    ]:
        out = ctx.path("cases-%s.ndjson" % tag)
        consts = dict(consts, Emit="TRUE")
        res = ctx.tlc("Serialization", cfg, workers=WORKERS, timeout=6000, label=tag, json_out=out, consts=consts, heap="6g" if ctx.tier == "thorough" else "3g")
        if res.json_count == 0 or res.json_count != res.distinct:
            raise vlib.Infra("case generation %s: %d cases for %d states" % (tag, res.json_count, res.distinct))
        files[tag] = out
        ncases[tag] = case_stats(out, stats)
        ctx.log("Serialization %s: %d states = cases" % (tag, res.distinct))
    # vacuity: every fault action, element type, atom, storage/view/format combination occurs
    missing = FAULT_NAMES - set(stats["faults"])
    if missing:
        raise vlib.Infra("vacuity: fault actions never taken: %s" % sorted(missing))
    missing = CFG_FAULTS - set(stats["cfg_faults"])
    if missing:
        raise vlib.Infra("vacuity: configuration faults never taken: %s" % sorted(missing))
    if stats["types"] != ALL_TYPES:
        raise vlib.Infra("vacuity: element types without a case: %s" % sorted(ALL_TYPES - stats["types"]))
    for a in ("zero", "negzero", "subnormal", "maxfinite", "minfinite", "typeMaxInt", "typeMinInt", "one", "minusTwo", "half"):
        if stats["atoms"][a] == 0:
            raise vlib.Infra("vacuity: atom %s never placed" % a)
    for st in ("dense", "sparse"):
        for fm in ("json", "table"):
            for w in ("id", "T", "S", "ST", "TS"):
                if not any(k[0] == "matrix" and k[2] == st and k[3] == fm and k[4] == w for k in stats["kinds"]):
                    raise vlib.Infra("vacuity: no matrix case %s/%s/%s" % (st, fm, w))
    for kind, pres in (("scalar", ("used", "used-o1-sameN", "used-o2-sameN", "used-o1-otherN", "used-o2-otherN")), ("dist", ("used",)), ("vector", ("longer", "shorter", "sliced")),
                       ("matrix", ("larger", "smaller", "transposed", "transposedSame", "sliced", "slicedT"))):
        for pre in pres:
            if stats["receivers"][(kind, pre)] == 0:
                raise vlib.Infra("vacuity: receiver pre-state %s/%s never generated" % (kind, pre))
    for kind in ("vector", "matrix"):
        for how in ("overwrite", "touch", "cancel", "reset"):
            if stats["history"][(kind, how)] == 0:
                raise vlib.Infra("vacuity: no sparse %s with a stored zero created by %s" % (kind, how))
        for w in json.loads("[" + t["wide"].strip("{}") + "]"):
            if stats["wide"][(kind, w)] == 0:
                raise vlib.Infra("vacuity: no long-line %s case of class %s" % (kind, w))
    for fm in ("json", "table"):
        for val in ("max", "min", "above", "below"):
            for nt in ("dec", "float", "exp"):
                if stats["range"][(fm, val, nt)] == 0:
                    raise vlib.Infra("vacuity: no %s entry %s/%s at the bounds of the integer types" % (fm, val, nt))
    for val in ("max", "min", "above", "below", "frac", "huge"):
        for nt in ("dec", "float", "exp"):
            if stats["range"][("scalar", val, nt)] == 0:
                raise vlib.Infra("vacuity: no bare scalar document %s/%s" % (val, nt))
    for out in ("col=cols", "col=cols+1", "col=-1", "row=rows", "row=-1"):
        for other in ("first", "last"):
            if stats["range"][("cell", out, other)] == 0:
                raise vlib.Infra("vacuity: no sparse matrix entry %s/%s" % (out, other))
    for lay in ("NoFinalNewline", "CRLF", "TrailingBlanks"):
        if stats["layouts"][lay] == 0:
            raise vlib.Infra("vacuity: table layout %s never generated" % lay)
    for hv in ("start", "final", "startfinal", "statemap"):
        if stats["hmm_variants"][hv] == 0:
            raise vlib.Infra("vacuity: HMM variant %s never generated" % hv)
    if stats["model"]["error"] == 0 or stats["model"]["object"] == 0:
        raise vlib.Infra("vacuity: the model decoder never errs / never accepts")
    # 2. the driver
    binary = ctx.go_build("serial")
    rc, out, _, _ = ctx.run([binary, "registry"])
    registered = set(json.loads(out))
    not_modelled = sorted(registered - stats["dist_names"])
    ctx.extra["registered_families"] = len(registered)
    ctx.extra["registered_families_not_modelled"] = not_modelled
    counts = collections.Counter()
    for tag in ("round", "fault", "dist"):
        run_replay(ctx, binary, files[tag], tag, counts)
        with open(files[tag]) as f:
            line = f.readline()
            if len(line) < 1400:
                ctx.sample({"replay_case_" + tag: json.loads(line)})
    ctx.log("replayed %d instantiations (%d round trips, %d damaged documents: %d rejected, %d accepted), %d child deaths"
            % (counts["instantiations"], counts["roundtrips"], counts["faults"], counts["fault_error"], counts["fault_object"],
               counts["deaths"]))
    if counts["roundtrips"] == 0 or counts["fault_error"] == 0 or counts["fault_object"] == 0:
        raise vlib.Infra("vacuity: driver outcome classes not all exercised: %s" % dict(counts))
    # 3. byte-level mutation of valid documents (all formats incl. configurations)
    pool = ctx.path("pool.ndjson")
    with open(pool, "w") as f:
        for tag in ("dist", "round"):
            for line in open(files[tag]):
                if '"faults":[]' in line:
                    f.write(line)
    mres = ctx.path("results-mutate.ndjson")
    ctx.run([binary, "mutate", pool, mres, ctx.path("scratch-mut"), str(t["mut"])], timeout=3000)
    mcounts = collections.Counter()
    process_results(ctx, mres, pool, "mutate", mcounts)
    ctx.log("byte-level mutations: %d (%d rejected, %d accepted and well formed)" % (
        mcounts["mutations"], mcounts["fault_error"], mcounts["fault_object"]))
    if mcounts["mutations"] < t["mut"]:
        raise vlib.Infra("vacuity: only %d byte-level mutations ran" % mcounts["mutations"])
    # 4. recorded encodings of the real code validated against Encode / Carried
    sparse_views = not any(f["id"] == "C18-sparse-slice" for f in ctx.findings)
    trace, nev, ok, bad, why = check_trace(ctx, binary, t["rec"], ctx.seed, "rec", sparse_views)
    ctx.log("recorded %d encode/decode events: %s" % (nev, "accepted" if ok else "REJECTED at %s (%s)" % (bad, why)))
    events = None
    if ok:
        ctx.traces += nev
        with open(trace) as f:
            e = json.loads(f.readline())
        ctx.sample({"recorded_event": e})
    else:
        events = vlib.read_ndjson(trace)
        e = events[bad - 1] if bad and bad <= len(events) else None
        o = (e or {}).get("obj", {})
        ctx.violation({"engine": "serial", "mode": "record", "kind": o.get("k"), "storage": o.get("st"),
                       "format": (e or {}).get("fmt"), "view": view_word(o), "tclass": tclass((e or {}).get("type") or "?"),
                       "what": "trace_rejected"},
                      {"replay_mode": "record", "n": t["rec"], "seed": ctx.seed, "sparse_views": sparse_views,
                       "rejected_at": bad, "reason": why, "event": e})
    # 5. binding self-test: one corrupted atom of the document / of the decoded object is rejected
    if ok:
        events = vlib.read_ndjson(trace)
        rejected = []
        for which in ("doc", "dec"):
            ev = json.loads(json.dumps(events))
            idx = None
            for i in range(min(40, len(ev) - 1), len(ev)):
                if corrupt(ev[i][which]):
                    idx = i
                    break
            if idx is None:
                raise vlib.Infra("self-test: nothing to corrupt")
            badp = ctx.path("serial_trace-corrupt.ndjson")
            with open(badp, "w") as f:
                for x in ev:
                    f.write(json.dumps(x) + "\n")
            ok2, bad2, _ = vlib.validate_trace(ctx, "SerializationTrace", "SerializationTrace.cfg", "serial_trace.ndjson", badp,
                                               timeout=900, label="selftest-" + which)
            if ok2 or bad2 != idx + 1:
                raise vlib.Infra("vacuous binding: corrupted %s atom accepted=%s at=%s want=%s" % (which, ok2, bad2, idx + 1))
            rejected.append("%s atom of event %d" % (which, idx + 1))
        ctx.extra["binding_selftest"] = "rejected: corrupted " + ", corrupted ".join(rejected)
    total_cases = sum(ncases.values())
    ctx.traces += counts["instantiations"] + mcounts["mutations"]
    ctx.extra["replay_cases"] = ncases
    ctx.extra["instantiations"] = counts["instantiations"]
    ctx.extra["roundtrips"] = counts["roundtrips"]
    ctx.extra["damaged_documents"] = {"structured": counts["faults"], "rejected": counts["fault_error"],
                                      "accepted_wellformed": counts["fault_object"],
                                      "fault_not_applicable_to_real_document": counts["fault_inapplicable"],
                                      "byte_mutations": mcounts["mutations"]}
    ctx.extra["child_deaths_attributed"] = counts["deaths"]
    ctx.extra["per_action_counts"] = {"faults": dict(stats["faults"]), "config_faults": dict(stats["cfg_faults"]),
                                      "model_decoder": dict(stats["model"]), "table_layouts": dict(stats["layouts"]),
                                      "receiver_pre_states": {"%s/%s" % k: v for k, v in sorted(stats["receivers"].items())},
                                      "hmm_variants": dict(stats["hmm_variants"])}
    ctx.extra["layout_variants_rejected_with_error"] = counts["layout_rejected"]
    ctx.extra["bound_entries_of_integer_types"] = counts["range_entries"]
    ctx.extra["long_line_round_trips"] = {k: v for k, v in counts.items() if k.startswith("wide_")}
    ctx.extra["sparse_history_cases"] = {"%s/%s" % k: v for k, v in sorted(stats["history"].items())}
    ctx.extra["element_types"] = sorted(stats["types"])
    ctx.extra["recorded_events"] = nev
    ctx.extra["bounds"] = dict(t, atoms=10, scalar_N="0..2", vector_n="0..%d (+slices of 1..%d)" % (t["maxdim"] + 1, t["maxdim"] + 2),
                               matrix_dims="0..%d (+views of parents up to %d x %d)" % (t["maxdim"], t["maxdim"] + 1, t["maxdim"] + 1),
                               record="vectors n<=16, matrices <=16 cells, views of depth <=2")
    return ctx.finish(
        rule="one replay case per state of Serialization.tla (object x format x sequence of faults), instantiated for every "
             "element type the specification lists for it and executed on the real encoder/decoder; distinct by "
             "(abstract object, format, faults); a case is non-trivial when the object has at least one element or the "
             "document is damaged; plus seeded byte mutations and recorded encodings accepted by SerializationTrace.tla",
        evaluations=counts["instantiations"] + mcounts["mutations"] + nev,
        distinct_nontrivial=total_cases, exhaustive=True)


def corrupt(node):
    """flip the first atom found in an abstract document / decoded object"""
    if isinstance(node, dict):
        if "a" in node and isinstance(node["a"], str):
            node["a"] = "half" if node["a"] == "one" else "one"
            return True
        if "v" in node and isinstance(node["v"], str) and node.get("k") == "scalar":
            node["v"] = "half" if node["v"] == "one" else "one"
            return True
        for v in node.values():
            if corrupt(v):
                return True
    elif isinstance(node, list):
        for v in node:
            if corrupt(v):
                return True
    return False


def replay(ctx, path):
    with open(path) as f:
        v = json.load(f)
    d = v["detail"]
    binary = ctx.go_build("serial")
    mode = d.get("replay_mode", "replay")
    counts = collections.Counter()
    if mode == "replay":
        c = d["case"]
        if isinstance(c, str):
            c = json.loads(c)
        if d.get("type") and c["obj"]["k"] != "dist":
            c["types"] = [d["type"]]
        cases = ctx.path("case.ndjson")
        with open(cases, "w") as f:
            f.write(json.dumps(c) + "\n")
        run_replay(ctx, binary, cases, "replay", counts)
    elif mode == "record":
        ctx.seed = d.get("seed", ctx.seed)
        trace, nev, ok, bad, why = check_trace(ctx, binary, d["n"], ctx.seed, "replay", d.get("sparse_views", False))
        if not ok:
            ctx.violation(v["signature"], dict(d, rejected_at=bad, reason=why))
    else:
        raise vlib.Infra("mutation-campaign deaths are replayed by re-running the tier with the same seed")
    return ctx.finish(rule="replay of one recorded violation", evaluations=1, distinct_nontrivial=1)


MANIFEST = {
    "engine": "serial",
    "spec": "spec/Serialization.tla",
    "engine_text": "Serialization.tla (abstract objects, documents, Encode/Decode of the JSON and table formats and of distribution "
                   "configurations, fault actions, contract invariants), SerializationTrace.tla (trace validation); Go driver "
                   "harness/cmd/serial (children processes with a step journal)",
    "technique": "TLA+ contract of encoders/decoders model-checked by TLC (RoundTrip, Repacked, FaultSafe); every state of the model "
                 "(object x format x faults) replayed on the real encoder/decoder for every element type; recorded real encodings "
                 "validated by a TLC trace specification; seeded byte-level mutation",
    "text": "TLC enumerates scalars (bare/real with gradient and Hessian), dense/sparse vectors and matrices (all zero patterns of small "
            "shapes, ten value atoms incl. -0, subnormal, +-max, type-bound integers; identity/T/Slice/Slice.T/T.Slice views of a larger "
            "parent; vector slices) and trees of distribution families, checks on the model that Decode(Encode(x)) is the denotation of x, "
            "that a view is written re-packed and that every structurally damaged document decodes to an error or a well-formed object, "
            "and prints each state as a case with the demanded outcome class. The driver builds the real object for all 16 scalar / 9 "
            "container element types, encodes with json.Marshal / Export / ExportConfig, damages the real bytes as the case says, decodes "
            "into a fresh object (UnmarshalJSON / Import / ImportConfig) and compares bit patterns, dimensions, the iterator's non-zero "
            "set and derivatives, or requires error-or-wellformed (no panic in decoder, Dims/At/iteration/String/Table/re-encoding). "
            "Library crashes that kill the process are attributed to the journalled step. Bounded model checking plus conformance, "
            "not a proof for unbounded sizes or arbitrary byte strings.",
    "note": "Trusted: TLC, CommunityModules Json, strconv/encoding/json of Go, the driver's atom<->value table and generic JSON/table "
            "parsing. Distribution parameters are one valid set per family (driver table); mixtures/HMMs/categorical/binomial store "
            "exp() of log-scale parameters and are compared with 1e-12 relative tolerance, the constrained HMM (iterative "
            "re-normalisation) with 1e-7. Bounds are echoed in evidence (coverage.bounds).",
    "design_ref": "DESIGN.md section 5 (C18), section 4 (Serialization.tla), section 3.1 (crash containment)",
}
