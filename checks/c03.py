"""C03 - vector and matrix results do not depend on dense or sparse storage.

contract   : spec/Containers.tla (vectors/matrices as total functions index -> dual number;
             one operator per operation giving the result content from operand contents only).
model->code: spec/ContainersCases.tla enumerates operation x shapes x operand contents x
             representation of the receiver (storage, prior content) and of every operand
             (storage, explicitly stored zeros) and prints each record with the content the
             contract demands; harness/cmd/containers replays every case on the real library
             for all nine element types and compares every element (values and, for the magic
             types, derivatives) exactly.
mechanism  : spec/JointIter.tla - the generic 2-/3-way joint iterators transcribed from the
             repaired code, TLC checks the walk contract; the pre-repair Ok() (Buggy = TRUE)
             must be refuted (vacuity control); every finished walk of the model is compared
             with the real iterators.
code->model: seeded random operation sequences over a pool of dense and sparse objects are
             recorded and validated by spec/ContainersTrace.tla (binding self-test included).

The helpers of this module are shared with checks/c09.py.
"""
import json
import os

import vlib

LEVEL = "model_checking"
ENGINE = "containers"

TIERS = {
    "quick": dict(
        parts=[dict(Part='"all"', MaxN=3, Big=0, Rich=0, Cap=1000)],
        zerovar=[dict(Part='"all"', MaxN=2, Big=0, Rich=0, Cap=300)],
        special=[dict(Part='"all"', MaxN=2, Big=0, Rich=0, Cap=1000)],
        sim=None,
        ji=[(2, 4), (3, 3)], ji_bug=[(2, 3), (3, 3)], walk_every=3,
        record=(200, 1)),
    "thorough": dict(
        parts=[dict(Part='"vec"', MaxN=4, Big=1, Rich=1, Cap=8000),
               dict(Part='"mat"', MaxN=4, Big=1, Rich=1, Cap=8000),
               dict(Part='"prod"', MaxN=4, Big=1, Rich=1, Cap=8000)],
        zerovar=[dict(Part='"all"', MaxN=3, Big=1, Rich=0, Cap=1000)],
        special=[dict(Part='"all"', MaxN=2, Big=0, Rich=0, Cap=1000)],
        sim=dict(num=6000, SimN=8),
        ji=[(2, 5), (3, 4)], ji_bug=[(2, 3), (3, 3)], walk_every=3,
        record=(400, 6)),
}

_REPLAYING = [False]     # violations met while replaying a stored one must not overwrite the stored files


def _report(ctx, sig, detail):
    if _REPLAYING[0]:
        n = len(ctx.violations) + 1
        return ctx.violation(sig, detail, name="replayed-%s-%d-%02d.json" % (ctx.tier, os.getpid(), n))
    return ctx.violation(sig, detail)


ALL_OPS = ["VaddV", "VsubV", "VmulV", "VdivV", "VaddS", "VsubS", "VmulS", "VdivS", "VdotV", "MdotV", "VdotM",
           "MaddM", "MsubM", "MmulM", "MdivM", "MaddS", "MsubS", "MmulS", "MdivS", "MdotM", "Outer",
           "Set", "Equals", "SetIdentity", "Reset", "As", "New"]
# plus op "Ctor": the generic (element-type driven) constructors / converters of vector.go, matrix.go


# ------------------------------------------------------------------ model -> code
def gen_cases(ctx, mode, consts, label, zerovar=False, simulate=None, timeout=3000, special=False):
    """Run the case enumeration; returns (path of the ndjson file, TlcResult)."""
    out = ctx.path("cases-%s.ndjson" % label)
    c = dict(Mode='"%s"' % mode, ZeroVar="TRUE" if zerovar else "FALSE", Emit="TRUE", Sim="FALSE",
             Special="TRUE" if special else "FALSE")
    c.update({k: str(v) for k, v in consts.items()})
    kw = {}
    if simulate:
        c["Sim"] = "TRUE"
        kw = dict(simulate="num=%d" % simulate, depth=6)
    res = ctx.tlc("ContainersCases", "ContainersCases.cfg", workers=8, timeout=timeout, json_out=out,
                  consts=c, label=label, heap="8g", **kw)
    if res.json_count == 0:
        raise vlib.Infra("no cases generated for " + label)
    return out, res


def run_replay(ctx, binary, cases, mode, label, env=None, timeout=3000):
    """Replay a case file on the real library; violations are reported through ctx."""
    results = ctx.path("results-%s.ndjson" % label)
    ctx.run([binary, "replay", cases, results, mode], timeout=timeout, env=env)
    summary = None
    for r in vlib.iter_ndjson(results):
        if r["kind"] == "summary":
            summary = r
        elif r["kind"] == "mismatch":
            d = r["detail"]
            d["mode"] = "replay"
            d["replay_mode"] = mode
            _report(ctx, r["sig"], d)
    if summary is None or "cases" not in summary:
        raise vlib.Infra("containers replay wrote no summary for %s (driver died?): %s" % (label, summary))
    os.remove(results)
    return summary


def merge_summary(total, s):
    for k in ("records", "cases", "concrete_cases", "scalar_cases", "mismatches"):
        total[k] = total.get(k, 0) + s.get(k, 0)
    for k in ("by_op", "recv_kinds", "both_deviate"):
        d = total.setdefault(k, {})
        for a, b in s.get(k, {}).items():
            d[a] = d.get(a, 0) + b
    total.setdefault("pairs", set()).update(s.get("pairs", []))
    total.setdefault("both_deviate_examples", {}).update(s.get("both_deviate_examples", {}))
    return total


# ------------------------------------------------------------------ mechanism layer
def mechanism(ctx, conf, kinds='{"dense", "sparse"}', tag="generic"):
    """TLC on JointIter.tla: repaired transcription must satisfy the walk contract,
    the pre-repair Ok() must be refuted.  Returns the file with the model's walks."""
    walks = ctx.path("walks-%s.ndjson" % tag)
    with open(walks, "w") as allw:
        for ways, n in conf["ji"]:
            out = ctx.path("walks-%s-%d-%d.ndjson" % (tag, ways, n))
            res = ctx.tlc("JointIter", "JointIter.cfg", workers=6, timeout=2400, json_out=out, heap="6g",
                          consts=dict(N=n, Ways=ways, Buggy="FALSE", Kinds=kinds, Emit="TRUE"),
                          label="jointiter-%s-%dway-n%d" % (tag, ways, n))
            ctx.log("JointIter %s %d-way N=%d: %d states, %d walks, contract holds" % (tag, ways, n, res.distinct, res.json_count))
            k = 0
            for line in open(out):
                if ways == 2 or k % conf["walk_every"] == 0:
                    allw.write(line)
                k += 1
            os.remove(out)
    if "dense" in kinds:
        for ways, n in conf["ji_bug"]:
            res = ctx.tlc("JointIter", "JointIter.cfg", workers=4, timeout=1200, allow_violation=True,
                          consts=dict(N=n, Ways=ways, Buggy="TRUE", Kinds=kinds, Emit="FALSE"),
                          label="jointiter-prefix-%dway-n%d" % (ways, n), count_stats=False)
            if res.ok or "Complete" not in res.violated:
                raise vlib.Infra("vacuous mechanism check: the pre-repair joint iterator (Buggy = TRUE, %d-way) "
                                 "was not refuted by TLC (violated=%s)" % (ways, res.violated))
        ctx.extra["mechanism_vacuity_control"] = "pre-repair Ok() refuted by TLC (invariant Complete) for " + \
            ", ".join("%d-way N=%d" % x for x in conf["ji_bug"])
    return walks


def run_walks(ctx, binary, walks, label="walks"):
    results = ctx.path("results-%s.ndjson" % label)
    ctx.run([binary, "walk", walks, results], timeout=2400)
    summary = None
    for r in vlib.iter_ndjson(results):
        if r["kind"] == "summary":
            summary = r
        elif r["kind"] == "mismatch":
            d = r["detail"]
            d["mode"] = "walk"
            _report(ctx, r["sig"], d)
    if summary is None or "walks" not in summary:
        raise vlib.Infra("containers walk wrote no summary")
    return summary


# ------------------------------------------------------------------ code -> model
def record_and_validate(ctx, binary, nops, ntr, seed, label, concrete=False, selftest=True):
    trace = ctx.path("containers_trace-%s.ndjson" % label)
    args = [binary, "record", trace, str(nops), str(ntr)] + (["concrete"] if concrete else [])
    ctx.run(args, env={"VERIF_SEED": str(seed)}, timeout=1200)
    events = vlib.read_ndjson(trace)
    ok, bad, why = vlib.validate_trace(ctx, "ContainersTrace", "ContainersTrace.cfg", "containers_trace.ndjson", trace,
                                       timeout=2400, label="trace-" + label)
    nev = len(events)
    if not ok:
        e = events[bad - 1] if bad and bad <= nev else None
        _report(ctx, {"engine": "containers-trace", "what": "rejected", "op": (e or {}).get("op", "?"),
                      "type": (e or {}).get("t", "?"), "via": (e or {}).get("via", "?")},
                      {"mode": "record", "seed": seed, "nops": nops, "ntraces": ntr, "concrete": concrete,
                       "rejected_at": bad, "reason": why, "event": e,
                       "preceding": events[max(0, (bad or 1) - 5):(bad or 1) - 1]})
        return nev, False
    ops = {}
    for e in events:
        if e["e"] == "op":
            ops[e["op"]] = ops.get(e["op"], 0) + 1
    missing = [o for o in ALL_OPS if o not in ("As", "New") and ops.get(o, 0) == 0]
    if missing:
        raise vlib.Infra("vacuous trace: operations never recorded: %s" % missing)
    ctx.sample({"recorded_trace_events": [e for e in events if e["e"] == "op"][:3]})
    if selftest:
        # binding self-test: one corrupted observation must be rejected at exactly that event
        idx = next((i for i, e in enumerate(events) if e["e"] == "op" and e["post"] and i > len(events) // 3), None)
        if idx is None:
            raise vlib.Infra("self-test: no operation event with an observation")
        cor = [dict(e) for e in events[:idx + 40]]
        cor[idx] = dict(cor[idx], post=[cor[idx]["post"][0] + 1] + cor[idx]["post"][1:])
        badtrace = ctx.path("containers_trace-corrupt.ndjson")
        with open(badtrace, "w") as f:
            for e in cor:
                f.write(json.dumps(e) + "\n")
        ok2, bad2, _ = vlib.validate_trace(ctx, "ContainersTrace", "ContainersTrace.cfg", "containers_trace.ndjson",
                                           badtrace, label="selftest-" + label)
        if ok2 or bad2 != idx + 1:
            raise vlib.Infra("binding self-test failed: corrupted observation accepted=%s rejected_at=%s want=%s"
                             % (ok2, bad2, idx + 1))
        ctx.extra["binding_selftest"] = "corrupted element of the logged receiver content rejected at event %d" % (idx + 1)
    return nev, True


def vacuity(summary, mode):
    missing = [o for o in ALL_OPS if summary.get("by_op", {}).get(o, 0) == 0]
    if missing:
        raise vlib.Infra("vacuous enumeration: operations without a replayed case: %s" % missing)
    ctors = [c + m + k for c in ("Null", "As") for m in ("Dense", "Sparse") for k in ("Vector", "Matrix", "MagicVector", "MagicMatrix")] + \
            ["DenseIdentityMatrix", "SparseIdentityMatrix", "DenseMagicIdentityMatrix", "SparseMagicIdentityMatrix"]
    missing = [c for c in ctors if summary.get("by_op", {}).get("Ctor:" + c, 0) == 0]
    if missing:
        raise vlib.Infra("vacuous enumeration: generic constructors never exercised: %s" % missing)
    need = ["ratio:VdivS", "ratio:VdivV", "ratio:MdivS", "ratio:MdivM", "big:MdotV", "big:VdotM", "big:Set", "view:Equals", "view:MaddM"]
    miss = [k for k in need if summary.get("by_op", {}).get(k, 0) == 0]
    if miss:
        raise vlib.Infra("vacuous enumeration: case sets never replayed: %s" % miss)
    if summary.get("by_op", {}).get("Equals:eps", 0) == 0:
        raise vlib.Infra("vacuous enumeration: no Equals case with the epsilon dimension")
    rk = summary.get("recv_kinds", {})
    for need in ("d/zeros", "d/nz", "s/zeros", "z/zeros", "s/nz", "s/mixo", "z/mixo"):
        if rk.get(need, 0) == 0:
            raise vlib.Infra("vacuous enumeration: no case with receiver representation " + need)


# ------------------------------------------------------------------ the check
def run(ctx):
    conf = TIERS[ctx.tier]
    for m in ("Containers", "ContainersCases", "ContainersTrace", "JointIter"):
        ctx.sany(m)
    binary = ctx.go_build("containers")
    # 0. the contract's own invariant
    res = ctx.tlc("ContainersCases", "ContainersCases_si.cfg", workers=8, timeout=1200, label="storage-independence")
    ctx.log("StorageIndependence holds on %d states of the contract" % res.distinct)
    # 1. mechanism layer + comparison of the model's walks with the real iterators
    walks = mechanism(ctx, conf)
    ws = run_walks(ctx, binary, walks)
    ctx.log("joint-iterator walks: %d real walks compared with the model, drift=%d, mismatches=%d"
            % (ws["walks"], ws["drift"], ws["mismatches"]))
    ctx.extra["jointiter"] = {"real_walks": ws["walks"], "visits": ws["visits"], "drift": ws["drift"]}
    # 2. exhaustive cases
    total = {}
    runs = [("c03-" + str(i), p, False, False) for i, p in enumerate(conf["parts"])] + \
           [("zerovar-" + str(i), p, True, False) for i, p in enumerate(conf["zerovar"])] + \
           [("special-" + str(i), p, False, True) for i, p in enumerate(conf["special"])]
    sampled = False
    for label, consts, zv, sp in runs:
        cases, res = gen_cases(ctx, "c03", consts, label, zerovar=zv, special=sp)
        if not sampled:
            with open(cases) as f:
                for _ in range(2000):
                    line = f.readline()
                if line:
                    ctx.sample({"case_record": json.loads(line)})
            sampled = True
        s = run_replay(ctx, binary, cases, "c03", label)
        ctx.log("%s: %d records -> %d cases replayed (x9 element types incl.), mismatches=%d"
                % (label, s["records"], s["cases"], s["mismatches"]))
        if sp:
            if any(s.get("by_op", {}).get(o, 0) == 0 for o in ("VmulV", "VdivV", "MmulM", "MdivM")):
                raise vlib.Infra("vacuous special-operand run (Inf/NaN opposite zeros)")
            ctx.extra["special_operand_cases"] = s["cases"]
            total["cases_zerovar"] = total.get("cases_zerovar", 0) + s["cases"]
            total["records_zerovar"] = total.get("records_zerovar", 0) + s["records"]
        elif not zv:
            merge_summary(total, s)
        else:
            ctx.extra.setdefault("zero_valued_variable_cases", 0)
            ctx.extra["zero_valued_variable_cases"] += s["cases"]
            total["cases_zerovar"] = total.get("cases_zerovar", 0) + s["cases"]
            total["records_zerovar"] = total.get("records_zerovar", 0) + s["records"]
        os.remove(cases)
    vacuity(total, "c03")
    # 3. beyond the exhaustive bounds
    if conf["sim"]:
        cases, res = gen_cases(ctx, "c03", dict(Part='"all"', MaxN=conf["parts"][0]["MaxN"], Big=0, Rich=1, Cap=1000,
                                                SimN=conf["sim"]["SimN"]), "simulate", simulate=conf["sim"]["num"])
        s = run_replay(ctx, binary, cases, "c03", "simulate")
        ctx.log("simulation: %d records -> %d cases, mismatches=%d" % (s["records"], s["cases"], s["mismatches"]))
        ctx.extra["simulated"] = {"records": s["records"], "cases": s["cases"]}
        total["cases_sim"] = s["cases"]
        os.remove(cases)
    # 4. recorded operation sequences
    nops, ntr = conf["record"]
    nev, ok = record_and_validate(ctx, binary, nops, ntr, ctx.seed, "rec")
    ctx.log("recorded %d events (%d traces x 9 element types x %d operations): %s"
            % (nev, ntr, nops, "accepted" if ok else "REJECTED"))
    if ok:
        ctx.traces += ntr * 9
    ncases = total.get("cases", 0) + total.get("cases_zerovar", 0) + total.get("cases_sim", 0)
    ctx.traces += ncases
    ctx.extra["replay_records"] = total.get("records", 0) + total.get("records_zerovar", 0)
    ctx.extra["replay_cases"] = ncases
    ctx.extra["cases_by_operation"] = total.get("by_op", {})
    ctx.extra["cases_by_receiver_representation"] = total.get("recv_kinds", {})
    ctx.extra["recorded_events"] = nev
    ctx.extra["element_types"] = 9
    ctx.extra["bounds"] = {"tier": ctx.tier, "case_runs": conf["parts"], "zero_valued_variable_runs": conf["zerovar"],
                           "simulate": conf["sim"], "jointiter": {"fixed": conf["ji"], "prefix": conf["ji_bug"]},
                           "record": {"ops": nops, "traces_per_type": ntr, "max_len": 8, "max_matrix": "8x4"}}
    return ctx.finish(
        rule="one case per (operation, shapes, operand contents over a 3-valued domain, receiver storage x prior content "
             "class, storage/explicit-zero pattern of each operand, element type); TLC prints the content the contract "
             "demands and the driver compares every element of the real result exactly; plus model walks of the joint "
             "iterators compared with the real iterators and recorded random operation sequences accepted by the trace "
             "specification; a case is distinct by that tuple",
        evaluations=ncases + nev + ws["walks"], distinct_nontrivial=ncases, exhaustive=True)


def replay(ctx, path):
    with open(path) as f:
        v = json.load(f)
    d = v["detail"]
    _REPLAYING[0] = True
    binary = ctx.go_build("containers")
    mode = d.get("mode")
    if mode == "replay":
        cases = ctx.path("case.ndjson")
        with open(cases, "w") as f:
            f.write(json.dumps(d["record"]) + "\n")
        env = None
        if "ak" in d:
            env = {"VERIF_ONLY": "%s,%s,%s,%s" % (d["type"], d["ak"], d["bk"], "1" if d.get("const_operands") else "0")}
        run_replay(ctx, binary, cases, d.get("replay_mode", "c03"), "replay", env=env)
    elif mode == "walk":
        walks = ctx.path("walk.ndjson")
        with open(walks, "w") as f:
            f.write(json.dumps(d["walk_case"]) + "\n")
        run_walks(ctx, binary, walks, "replay")
    elif mode == "record":
        record_and_validate(ctx, binary, d["nops"], d["ntraces"], d["seed"], "replay", concrete=d.get("concrete", False),
                            selftest=False)
    else:
        raise vlib.Infra("unknown violation file")
    return ctx.finish(rule="replay of one recorded violation", evaluations=1, distinct_nontrivial=1)


MANIFEST = {
    "engine": "containers",
    "spec": "spec/Containers.tla",
    "engine_text": "Containers.tla (contract: vectors/matrices as total functions, result content from operand contents only), "
                   "ContainersCases.tla (enumeration of operation x storage x prior content x contents, prints the oracle), "
                   "JointIter.tla (mechanism: generic joint iterators), ContainersTrace.tla (trace validation); "
                   "Go driver harness/cmd/containers",
    "technique": "TLA+ contract enumerated by TLC into cases with expected contents, replayed exactly on the real library for "
                 "all element types; mechanism model of the joint iterators checked by TLC (pre-repair variant refuted) and "
                 "compared walk by walk with the real iterators; recorded random operation sequences validated by a TLC trace "
                 "specification",
    "text": "TLC enumerates every operation (element-wise, scalar broadcast, dot, matrix-vector, vector-matrix, matrix-matrix, "
            "outer product, Set/Equals/SetIdentity/Reset, As-conversions, New from index/value lists) x receiver storage and "
            "prior content class x operand storage and explicit-zero pattern x all contents over {0,1,-2} (plus zero-valued "
            "variables of the magic types) for vectors of length 0..3 (thorough 0..4) and matrices up to 2x2 (thorough 2x3/3x2), "
            "and prints the content the contract demands; the driver executes each case for the nine element types through the "
            "generic interface methods and compares values and derivatives element-wise with ==. Bounded exhaustive conformance "
            "plus simulation and trace validation; not a proof for unbounded dimensions.",
    "note": "Trusted: TLC, CommunityModules Json, the Go driver's construction/projection through the public API "
            "(At, ConstAt, Float64At, GetDerivative), Go runtime. Bounds are echoed in evidence (coverage.bounds).",
    "design_ref": "DESIGN.md section 5 (C03), section 4 (Containers/JointIter), section 7 (V1-V3, M1, M2)",
}
