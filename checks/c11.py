"""C11 - sparse containers stay coherent under any history of operations.

model -> code : spec/SparseVector.tla is the PRODUCT of the dense contract
                (SparseVecContract.tla: a sparse vector is a total function
                0..n-1 -> Val, iteration = the ascending non-zero positions,
                Next of a live iterator = the next non-zero position of the
                current content, the length changes only in Append) and the
                transcribed mechanism of vector_sparse_template.in (value map
                with stored zeros, index key set that may over-approximate,
                skip() deleting null entries, AT, Reset, Swap, Permute, Sort,
                ReverseOrder, SLICE sharing cells, APPEND, joint iteration and
                in-place arithmetic).  TLC checks exhaustively that the
                mechanism refines the contract and prints ONE REPLAY CASE PER
                TRANSITION of the state graph (history of calls, each with the
                dense content / lengths / result the contract demands after it);
                deeper and larger histories come from `-simulate`.  The Go
                driver harness/cmd/sparsevec executes every case on the real
                sparse vector of EVERY element type (9) and on sparse matrices of
                matching size and compares after every call.
code -> model : seeded random histories (300 operations, length 16, three
                partially consumed iterators, every element type, vectors and
                4x4 matrices) are recorded from the real code and must be
                accepted by SparseVectorTrace.tla, which reuses the contract.
"""
import json
import os

import vlib

LEVEL = "model_checking"

ALL = ["write", "reset", "swap", "reverse", "permute", "sort", "slice", "append", "iter", "from", "next", "walk",
       "jwalk", "vaddv", "vsubv", "vmulv", "set", "vmuls", "vadds", "vsubs", "vdivs", "vsubself", "vmulself"]
CORE = ["write", "reset", "swap", "reverse", "permute", "sort", "slice", "append", "iter", "from", "next", "walk"]
ITER = ["write", "reset", "swap", "reverse", "permute", "sort", "iter", "from", "next", "walk"]
SHARE = ["write", "reset", "swap", "reverse", "permute", "sort", "slice", "iter", "next", "walk", "vmuls", "vsubself",
         "vaddv"]
NOSLICE = [o for o in ALL if o not in ("slice", "append")]
VECOPS = ["vaddv", "vsubv", "vmulv", "set"]
# histories of a matrix (row-major storage, Cols columns) observed through column/row-sliced views
VIEW = ["write", "reset", "swap", "iter", "next", "walk", "vwalk", "vmuls"]
# a second vector with its own history is appended (sparse of the same / another element type, or dense)
APPEND2 = ["write", "swap", "permute", "reverse", "sort", "reset", "walk", "new2", "appendo"]
APPEND2L = ["write", "swap", "permute", "walk", "new2", "appendo"]
# nested views (slice of slice, transposed ...): reads, iteration, writes through the inner view
NEST = ["write", "swap", "vwalk", "vwrite"]
# whole-view operations with a slice view as receiver (Reset, SetIdentity, Set, MdotM, MmulS, MaddM, Map): the
# elements of the matrix outside the view must keep their values
BULK = ["write", "vbulk"]
BULK_EVENTS = ["w_reset", "w_identity", "w_set", "w_mdotm", "w_muls", "w_addm", "w_map"]
# Real element types: elements with value 0 and a non-zero derivative are non-zero elements
DERIV = ["write", "setvar", "reset", "swap", "reverse", "slice", "append", "iter", "next", "walk"]
DERIVM = ["write", "setvar", "reset", "swap", "walk", "vwalk", "iter", "next"]
# vectors of length 0 and matrices with zero rows / zero columns
EMPTY = ["reset", "walk", "iter", "jwalk", "vmuls", "vadds", "vsubself", "sort", "reverse", "permute", "vaddv", "set"]


def opset(ops):
    return "{" + ", ".join('"%s"' % o for o in ops) + "}"


def K(N0, MaxN, NIter, MaxObj, WMax, ops, Cols=0, ViewDepth=1, ViewT=0, BMode=0):
    return dict(N0=N0, MaxN=MaxN, NIter=NIter, MaxObj=MaxObj, WMax=WMax, ops=ops, Cols=Cols, ViewDepth=ViewDepth,
                ViewT=ViewT, BMode=BMode)


PLAN = {
    "quick": dict(
        # exhaustive, one replay case per transition
        emit=[("all1", K(3, 3, 1, 1, 1, ALL)), ("it2", K(3, 3, 2, 1, 1, [o for o in ITER if o not in ("sort", "from")])),
              ("share2", K(2, 2, 1, 2, 1, [o for o in SHARE if o not in ("permute", "vaddv", "vsubself")])),
              ("view4", K(4, 4, 1, 1, 1, ["write", "reset", "swap", "walk", "vwalk"], Cols=2)),
              ("nest4", K(4, 4, 1, 1, 1, [o for o in NEST if o != "swap"], Cols=2, ViewDepth=2, ViewT=1)),
              ("empty0", K(0, 0, 1, 1, 1, EMPTY)), ("bulk4", K(4, 4, 1, 1, 1, BULK, Cols=2, BMode=2)),
              ("deriv3", K(3, 3, 1, 1, 1, [o for o in DERIV if o not in ("append", "reverse", "slice")])),
              ("derivm2", K(2, 2, 1, 1, 1, DERIVM, Cols=2)),
              ("app2a", K(1, 3, 1, 2, 1, APPEND2)), ("app2d", K(2, 3, 1, 2, 1, APPEND2L))],
        dense=["all1"],
        # exhaustive refinement check only
        check=[],
        # (label, constants, num, depth)
        sim=[("sim", K(4, 5, 2, 2, 2, ALL), 60, 30), ("simit", K(4, 4, 2, 1, 2, NOSLICE), 60, 40),
             ("simshare", K(3, 3, 2, 2, 2, [o for o in ALL if o != "append"]), 60, 25)],
        record=(2, 300, 16), workers=8),
    "thorough": dict(
        emit=[("all1", K(3, 3, 1, 1, 3, ALL)), ("it2", K(3, 3, 2, 1, 1, CORE)), ("grow", K(2, 4, 1, 1, 1, CORE)),
              ("share2", K(2, 2, 1, 2, 1, SHARE)), ("four2", K(4, 4, 2, 1, 1, ITER)),
              ("view3", K(3, 3, 1, 1, 1, VIEW, Cols=3)), ("view4", K(4, 4, 1, 1, 1, VIEW, Cols=2)),
              ("view3n", K(3, 3, 1, 1, 1, NEST, Cols=3, ViewDepth=2, ViewT=1)),
              ("nest4", K(4, 4, 1, 1, 1, NEST, Cols=2, ViewDepth=3, ViewT=1)), ("empty0", K(0, 0, 1, 1, 1, EMPTY)),
              ("bulk4", K(4, 4, 1, 1, 1, BULK, Cols=2, ViewDepth=2, BMode=1)),
              ("deriv3", K(3, 3, 1, 1, 1, DERIV + ["permute", "from"])), ("derivm2", K(2, 2, 1, 1, 1, DERIVM, Cols=2)),
              ("derivm4", K(4, 4, 1, 1, 1, ["write", "setvar", "swap", "vwalk"], Cols=2)),
              ("app2c", K(2, 4, 1, 2, 1, APPEND2L)), ("app2", K(2, 4, 1, 2, 1, APPEND2 + ["iter", "next"]))],
        dense=["all1"],
        check=[("it2grow", K(3, 4, 2, 1, 1, CORE)), ("share3", K(3, 3, 1, 2, 1, SHARE)),
               ("view6", K(6, 6, 1, 1, 1, NEST, Cols=3, ViewDepth=1, ViewT=1))],
        sim=[("sim", K(4, 6, 2, 2, 2, ALL), 400, 40), ("simit", K(5, 5, 2, 1, 2, NOSLICE), 400, 50),
             ("simshare", K(4, 4, 2, 2, 2, [o for o in ALL if o != "append"]), 400, 40)],
        record=(12, 300, 16), workers=8),
}

# what every emitting configuration must have produced at least once, as last call of a case
OP_EVENTS = {"append": ["appends", "appendv"], "slice": ["slice"], "vbulk": BULK_EVENTS}


def consts_of(k, emit, emit_at=0):
    return {"N0": str(k["N0"]), "MaxN": str(k["MaxN"]), "NIter": str(k["NIter"]), "MaxObj": str(k["MaxObj"]),
            "WMax": str(k["WMax"]), "Cols": str(k.get("Cols", 0)), "ViewDepth": str(k.get("ViewDepth", 1)),
            "ViewT": str(k.get("ViewT", 0)), "BMode": str(k.get("BMode", 0)), "Ops": opset(k["ops"]), "Emit": "TRUE" if emit else "FALSE",
            "EmitAt": str(emit_at), "SwapBug": "FALSE", "StaleBug": "FALSE", "SliceBug": "FALSE"}


def bounds_of(k):
    return {a: k[a] for a in ("N0", "MaxN", "NIter", "MaxObj", "WMax", "Cols", "ViewDepth", "ViewT", "BMode")}


def tlc(ctx, *a, **kw):
    """ctx.tlc, repeated once when the JVM was terminated from outside (SIGTERM/SIGKILL of a concurrent job)."""
    try:
        return ctx.tlc(*a, **kw)
    except vlib.Infra as e:
        if not any(x in str(e) for x in ("rc=143", "rc=137", "rc=-15", "rc=-9", "rc=130")) or "timeout" in str(e):
            raise
        ctx.log("TLC was terminated from outside (%s); running it again" % str(e)[:60])
        if kw.get("label"):
            kw["label"] = kw["label"] + "-again"
        return ctx.tlc(*a, **kw)


def validate(ctx, *a, **kw):
    """vlib.validate_trace, repeated once when the JVM was terminated from outside."""
    try:
        return vlib.validate_trace(ctx, *a, **kw)
    except vlib.Infra as e:
        if "without a verdict" not in str(e):
            raise
        ctx.log("trace validation ended without a verdict; running it again")
        if kw.get("label"):
            kw["label"] = kw["label"] + "-again"
        return vlib.validate_trace(ctx, *a, **kw)


def run_replay(ctx, binary, cases, tag, operand="sparse", info=None, env=None):
    results = ctx.path("results-%s.ndjson" % tag)
    args = [binary, "replay", cases, results]
    if operand != "sparse":
        args.append(operand)
    ctx.run(args, timeout=3000, env=env)
    summary = None
    for r in vlib.iter_ndjson(results):
        if r["kind"] == "summary":
            summary = r
        elif r["kind"] == "mismatch":
            d = r["detail"]
            d["mode"] = "replay"
            d["config"] = info or {}
            ctx.violation(r["sig"], d)
    if summary is None:
        raise vlib.Infra("sparsevec replay wrote no summary (driver died?) for " + tag)
    # (a watchdog abort has already been reported as a "timeout" mismatch of the case that hung)
    return summary


def model_sensitivity(ctx):
    """Design findings as TLC counterexamples: with the pre-fix behaviour switched on the model must break the
    contract (else the invariants are vacuous)."""
    want = {"SwapBug": ("ReadsOK", "NoNil"), "SliceBug": ("ReadsOK", "NoNil"), "StaleBug": ("IterRefines",)}
    found = {}
    for flag, invs in want.items():
        c = consts_of(K(3, 3, 1, 1, 1, CORE), False)
        c[flag] = "TRUE"
        for attempt in (1, 2):
            res = tlc(ctx, "SparseVector", "SparseVector.cfg", workers=4, timeout=600, label="dev-%s-%d" % (flag, attempt),
                      consts=c, allow_violation=True, count_stats=False)
            if res.rc not in (143, 137, 130):      # else: terminated from outside, once more
                break
        if not any(v in res.violated for v in invs):
            raise vlib.Infra("model sensitivity: %s=TRUE did not violate %s (violated=%s errors=%s)" % (
                flag, invs, res.violated, res.errors[:2]))
        found[flag] = res.violated
    ctx.extra["model_sensitivity"] = {k: "TLC counterexample: " + ",".join(v) for k, v in found.items()}


def check_trace(ctx, binary, ntr, nops, n, seed, tag):
    trace = ctx.path("sparsevec_trace-%s.ndjson" % tag)
    ctx.run([binary, "record", trace, str(ntr), str(nops), str(n)], env={"VERIF_SEED": str(seed)}, timeout=1200)
    clean = trace + ".clean"
    nev = 0
    with open(clean, "w") as out:
        for line in open(trace):
            if line.startswith('{"kind":') or '"kind":"mismatch"' in line[:60] or '"kind":"summary"' in line[:60]:
                r = json.loads(line)
                if r.get("kind") == "mismatch":     # watchdog: a call of the library did not return
                    ctx.violation(r["sig"], dict(r["detail"], mode="record", seed=seed, ntraces=ntr, nops=nops, n=n))
                continue
            out.write(line)
            nev += 1
    ok, bad, why = validate(ctx, "SparseVectorTrace", "SparseVectorTrace.cfg", "sparsevec_trace.ndjson",
                                       clean, timeout=2400, label="trace-" + tag)
    return clean, nev, ok, bad, why


def report_rejected(ctx, trace, bad, why, seed, ntr, nops, n):
    events = vlib.read_ndjson(trace)
    e = events[bad - 1] if bad and 0 < bad <= len(events) else None
    start = (bad or 1) - 1
    while start > 0 and events[start].get("e") != "new":
        start -= 1
    sig = {"engine": "sparsevec", "mode": "record", "what": "rejected", "op": e["e"] if e else "?",
           "kind": (e["t"].split(":")[1] if e and ":" in e.get("t", "") else "?")}
    if e and e.get("bad"):
        sig["what"] = e["bad"].split(" ")[0].rstrip(":")
    pre = events[max(start, (bad or 1) - 9):(bad or 1) - 1]
    ctx.violation(sig, {"mode": "record", "seed": seed, "ntraces": ntr, "nops": nops, "n": n, "rejected_at": bad,
                        "reason": why, "event": e, "preceding": pre,
                        "history_since_new": [{k: v for k, v in x.items() if k in ("e", "j", "i", "k", "x", "p", "w")}
                                              for x in events[start:(bad or 1)]][-120:]})


def selftest(ctx, trace):
    """Binding: a corrupted copy of an accepted trace must be rejected at the corrupted event."""
    events = vlib.read_ndjson(trace, limit=600)

    def run(mut, pick, name):
        ev = json.loads(json.dumps(events))
        idx = next((i for i, e in enumerate(ev) if i > 40 and pick(e)), None)
        if idx is None:
            raise vlib.Infra("self-test %s: no suitable event" % name)
        mut(ev[idx])
        p = ctx.path("sparsevec_trace-corrupt.ndjson")
        with open(p, "w") as f:
            for e in ev:
                f.write(json.dumps(e) + "\n")
        ok, bad, _ = validate(ctx, "SparseVectorTrace", "SparseVectorTrace.cfg", "sparsevec_trace.ndjson", p,
                                         label="selftest-" + name)
        if ok or bad != idx + 1:
            raise vlib.Infra("binding self-test %s failed: accepted=%s rejected_at=%s want=%s" % (name, ok, bad, idx + 1))
        return idx + 1

    def bump_c(e):
        e["c"][len(e["c"]) // 2] += 1

    def bump_r(e):
        e["r"][0][0] += 1

    def drop_walk(e):
        e["r"] = e["r"][:-1]

    a = run(bump_c, lambda e: len(e["c"]) > 2 and e["e"] == "write", "read")
    b = run(bump_r, lambda e: e["e"] == "next", "iterator")
    c = run(drop_walk, lambda e: e["e"] == "walk" and len(e["r"]) > 1, "iteration")
    d = run(lambda e: e.__setitem__("dim", e["dim"] + 1), lambda e: e["e"] == "swap", "dim")
    ctx.extra["binding_selftest"] = ("corrupted element read rejected at event %d, iterator position at %d, "
                                     "dropped iteration element at %d, Dim at %d" % (a, b, c, d))


def run(ctx):
    plan = PLAN[ctx.tier]
    W = plan["workers"]
    ctx.sany("SparseVectorTrace")
    binary = ctx.go_build("sparsevec")
    total_cases = total_runs = total_calls = 0
    bounds = {"exhaustive_replayed": [], "exhaustive_checked": [], "simulated": []}
    stored_zero = over = 0
    first_sample = True

    def account(summ):
        nonlocal total_cases, total_runs, total_calls, stored_zero, over
        total_cases += summ["cases"]
        total_runs += summ["runs"]
        total_calls += summ["calls"]
        stored_zero += summ.get("states_with_stored_zero", 0)
        over += summ.get("states_with_index_overapproximation", 0)

    # 1. mechanism refines contract, exhaustively; every transition becomes a replay case
    case_files = {}
    for label, k in plan["emit"]:
        out = ctx.path("cases-%s.ndjson" % label)
        res = tlc(ctx, "SparseVector", "SparseVector.cfg", workers=W, timeout=5400, label=label, json_out=out,
                      consts=consts_of(k, True))
        ctx.log("SparseVector %s: %d distinct states, %d transitions, %d cases, %.0fs" % (
            label, res.distinct, res.generated, res.json_count, res.wall))
        if res.json_count == 0:
            raise vlib.Infra("no cases generated for " + label)
        case_files[label] = out
        summ = run_replay(ctx, binary, out, label, info=dict(label=label, **bounds_of(k)))
        account(summ)
        ctx.log("  replayed %d cases as %d runs (%d calls) on %d element types: %d mismatch(es)" % (
            summ["cases"], summ["runs"], summ["calls"], len(summ["types"]), summ["mismatches"]))
        # vacuity: every enabled operation ends at least one case
        for op in k["ops"]:
            for evn in OP_EVENTS.get(op, [op]):
                if summ["last_ops"].get(evn, 0) == 0:
                    raise vlib.Infra("vacuous: no case of %s ends with %s" % (label, evn))
        if len(summ["types"]) < 9:
            raise vlib.Infra("expected 9 sparse element types, found %s" % summ["types"])
        if summ["per_kind"].get("matrix", 0) == 0 or summ["per_kind"].get("vector", 0) == 0:
            raise vlib.Infra("vacuous: no matrix or no vector runs in " + label)
        if k["MaxObj"] == 2 and "slice" in k["ops"] and summ.get("write_through_cases", 0) == 0:
            raise vlib.Infra("vacuous: no case of %s writes through a scalar shared by a vector and its slice" % label)
        if k["MaxObj"] == 2 and "slice" in k["ops"]:
            ctx.extra["write_through_cases_" + label] = summ["write_through_cases"]
        bounds["exhaustive_replayed"].append(dict(label=label, states=res.distinct, cases=res.json_count,
                                                  ops=k["ops"], **bounds_of(k)))
        if first_sample:
            with open(out) as f:
                lines = [next(f) for _ in range(400)]
            ctx.sample({"replayed_case": json.loads(lines[-1]), "instantiations": summ["types"]})
            first_sample = False
    # 1b. the same histories with DENSE operand vectors: exposes the joint-iterator defect owned by C03; only the
    #     modelled deviation (field d of the case) is accepted as that known finding
    for label in plan["dense"]:
        k = dict(plan["emit"])[label]
        summ = run_replay(ctx, binary, case_files[label], label + "-dense", operand="dense",
                          info=dict(label=label, operand="dense", **bounds_of(k)))
        account(summ)
        ctx.log("  dense operands: %d runs, %d deviation/mismatch record(s)" % (summ["runs"], summ["mismatches"]))
        ctx.extra["dense_operand_runs"] = summ["runs"]
        ctx.extra["dense_operand_deviations_observed"] = summ["mismatches"]
    # 2. larger configurations: refinement only
    for label, k in plan["check"]:
        res = tlc(ctx, "SparseVector", "SparseVector.cfg", workers=W, timeout=5400, label=label,
                      consts=consts_of(k, False))
        ctx.log("SparseVector %s (refinement only): %d distinct states, %d transitions, %.0fs" % (
            label, res.distinct, res.generated, res.wall))
        bounds["exhaustive_checked"].append(dict(label=label, states=res.distinct, transitions=res.generated,
                                                 ops=k["ops"], **bounds_of(k)))
    # 3. deeper histories by simulation
    for label, k, num, depth in plan["sim"]:
        out = ctx.path("cases-%s.ndjson" % label)
        res = tlc(ctx, "SparseVector", "SparseVector.cfg", workers=4, timeout=3000, label=label, json_out=out,
                      consts=consts_of(k, True, emit_at=depth), simulate="num=%d" % num, depth=depth + 1)
        if res.json_count == 0:
            raise vlib.Infra("simulation %s produced no case" % label)
        summ = run_replay(ctx, binary, out, label, info=dict(label=label, simulate=True, depth=depth, **bounds_of(k)))
        account(summ)
        ctx.log("simulation %s: %d histories of %d calls, %d runs: %d mismatch(es)" % (
            label, summ["cases"], depth, summ["runs"], summ["mismatches"]))
        bounds["simulated"].append(dict(label=label, histories=summ["cases"], depth=depth, ops=k["ops"], **bounds_of(k)))
    if stored_zero == 0 or over == 0:
        raise vlib.Infra("vacuous: no real state with a stored zero (%d) or an over-approximating index (%d)" % (
            stored_zero, over))
    # 4. the pre-fix behaviours are counterexamples of the model (design findings)
    model_sensitivity(ctx)
    # 5. recorded histories of the real code validated against the contract
    ntr, nops, n = plan["record"]
    trace, nev, ok, bad, why = check_trace(ctx, binary, ntr, nops, n, ctx.seed, "rec")
    ctx.log("recorded %d events: %s" % (nev, "accepted" if ok else "REJECTED at %s (%s)" % (bad, why)))
    ntraces = 0
    if ok:
        kinds = {}
        for e in vlib.iter_ndjson(trace):
            kinds[e["e"]] = kinds.get(e["e"], 0) + 1
        ntraces = kinds.get("new", 0)
        need = ["write", "swap", "permute", "sort", "reverse", "reset", "slice", "appends", "appendv", "iter", "from",
                "next", "walk", "jwalk", "vaddv", "vmuls", "set"]
        missing = [x for x in need if kinds.get(x, 0) == 0]
        if missing:
            raise vlib.Infra("vacuous recording: no event of kind %s" % missing)
        ctx.traces += ntraces
        ev = vlib.read_ndjson(trace, limit=3)
        ctx.sample({"recorded_trace_prefix": ev})
        ctx.extra["recorded_event_kinds"] = kinds
        selftest(ctx, trace)
    else:
        report_rejected(ctx, trace, bad, why, ctx.seed, ntr, nops, n)
    ctx.extra["replay_cases"] = total_cases
    ctx.extra["replay_runs_cases_x_instantiations"] = total_runs
    ctx.extra["replay_calls"] = total_calls
    ctx.extra["real_states_with_stored_zero"] = stored_zero
    ctx.extra["real_states_with_overapproximating_index"] = over
    ctx.extra["recorded_events"] = nev
    ctx.extra["recorded_traces"] = ntraces
    bounds["record"] = dict(traces_per_type=ntr, ops=nops, n=n, iterators=3, element_types=9,
                            containers=["vector", "4 x n/4 matrix"])
    bounds["values"] = [-1, 0, 1]
    ctx.extra["bounds"] = bounds
    ctx.traces += total_cases
    ctx.assumptions += [
        "the AVL index is modelled by its contract (an ordered key set whose iterators move to the least key above "
        "their position), which C19 checks against avl-tree.go",
        "Slice shares scalars with its parent wherever the implementation keeps one; which zero positions own a "
        "scalar is resolved by the mechanism layer (sort is taken to be stable for the < 12 elements explored)",
        "element values -1, 0, 1 (recorded histories: small integers), exact in every element type",
    ]
    return ctx.finish(
        rule="one replay case per transition of the SparseVector.tla state graph (contract x mechanism, canonical "
             "VIEW without the history) plus simulated histories, each executed on the real sparse vector of every "
             "element type and on sparse matrices of matching size with Dim/all reads/call result compared after "
             "every call and iterators, fresh iteration, private map and index after the last; plus seeded random "
             "histories recorded from the real code and accepted by SparseVectorTrace.tla; a case is distinct by its "
             "(source state, call) pair",
        evaluations=total_runs + nev, distinct_nontrivial=total_cases, exhaustive=True)


def replay(ctx, path):
    with open(path) as f:
        v = json.load(f)
    d = v["detail"]
    binary = ctx.go_build("sparsevec")
    if d.get("mode") == "replay":
        cases = ctx.path("case.ndjson")
        with open(cases, "w") as f:
            # the case number selects the API flavour: pad so that the case keeps its number's parity
            for _ in range(d.get("case_no", 0) % 2):
                f.write(json.dumps(d["case"]) + "\n")
            f.write(json.dumps(d["case"]) + "\n")
        summ = run_replay(ctx, binary, cases, "replay", operand=d.get("operand", "sparse"), info=d.get("config"),
                          env={"VERIF_ALLMAT": "1"})       # matrices with every element type
        ctx.log("replayed: %d mismatch(es)" % summ["mismatches"])
    else:
        trace, nev, ok, bad, why = check_trace(ctx, binary, d["ntraces"], d["nops"], d["n"], d["seed"], "replay")
        if not ok:
            report_rejected(ctx, trace, bad, why, d["seed"], d["ntraces"], d["nops"], d["n"])
    return ctx.finish(rule="replay of one recorded violation", evaluations=1, distinct_nontrivial=1)


MANIFEST = {
    "engine": "sparsevec",
    "spec": "spec/SparseVector.tla",
    "engine_text": "SparseMatrixView.tla (views of the matrix over the vector), SparseVecContract.tla (contract: dense model, iterator positions, must/taint sharing of a slice), "
                   "SparseVector.tla (mechanism transcribed from vector_sparse_template.in: value map, index key set, "
                   "skip(), AT, Swap, Permute, Sort, ReverseOrder, SLICE, APPEND, joint iteration, arithmetic; product "
                   "with the contract), SparseVectorTrace.tla (trace validation); Go driver harness/cmd/sparsevec",
    "technique": "TLA+ contract + mechanism model checked by TLC; one replay case per transition of the model's state "
                 "graph (plus simulated deeper histories) executed on the real sparse vectors of all nine element types "
                 "and on sparse matrices; recorded real histories validated by a TLC trace specification",
    "text": "TLC exhaustively checks that the transcribed sparse-vector mechanism refines the dense contract (all "
            "histories over length <= 3/4 with values -1,0,1, one or two live iterators, a slice living next to its "
            "parent), every transition of that state graph is replayed on the real SparseInt8/16/32/64/Int, "
            "SparseFloat32/64 and SparseReal32/64 vectors (generic and concrete upper-case methods alternate) and on "
            "sparse matrices of matching size, comparing after every call Dim(), every element read, the call's result "
            "(iterator position, iteration sequences) and the private map/index invariants (no nil placeholder, every "
            "non-zero cell indexed, keys in range), and after the last call all read accessors, live iterator "
            "positions and continuations, a fresh iteration and String(); longer histories over length 4-6 come from "
            "TLC simulation; a second vector with its own history (same type, another sparse element type, dense) is "
            "appended with AppendVector, and views of sparse matrices (words of Slice/T steps up to depth 3, empty "
            "ranges, 0-row/0-column matrices; SparseMatrixView.tla: index-map composition vs header arithmetic) are "
            "written through, used as receiver of whole-view operations (Reset, SetIdentity, Set, MdotM, MmulS, MaddM, "
            "Map; elements outside the view must keep their values) and iterated; Real elements with value 0 and a "
            "non-zero derivative are non-zero elements that every iteration must deliver; views are iterated "
            "(Iterator/IteratorFrom/ConstIterator) and read while the parent is mutated by zero writes, Swap and Reset; "
            "seeded random histories of 300 operations over length 16 for every element type (vectors "
            "and 4x4 matrices incl. SwapRows/SwapColumns) recorded from the real code are accepted by the contract's "
            "trace specification (binding self-test: four kinds of corruption are rejected). The pre-fix behaviours "
            "(Swap placeholder, Slice placeholder, stale iterators) are kept as switchable deviations and TLC must "
            "find their counterexamples. Bounded model checking plus conformance; not a proof for unbounded lengths.",
    "note": "Trusted: TLC, CommunityModules Json, the Go driver's projection (reflection on the private map and index), "
            "Go runtime, the AVL index contract checked by C19. Dense operand vectors expose a joint-iterator defect "
            "owned by C03: accepted only when the receiver equals the modelled deviation (known finding). "
            "Bounds are echoed in evidence (coverage.bounds).",
    "design_ref": "DESIGN.md section 5 (C11), section 4 (SparseVector.tla), appendix A.6",
}
