"""C14 - probability distributions are proper and consistent.

model -> code : spec/Dist.tla (contract: validity, support, textbook log-density
                and CDF as symbolic terms, exact masses of the discrete families
                with the invariant "the masses sum to one", life cycle New /
                SetParameters / Clone / Eval) is model-checked; every transition
                of its state graph is printed with the observation the contract
                demands and replayed on the real library (harness/cmd/dist) with
                Float64 and with Real64 parameters.
code -> model : the cumulative distribution functions of the real library are
                recorded on increasing grids and validated by spec/DistTrace.tla
                (monotone, inside [0,1], limits, d/dx Cdf = pdf, LogCdf = log Cdf).
"""
import json
import os

import vlib

LEVEL = "model_checking"

FAMILIES = ["normal", "laplace", "pareto", "gpareto", "gpareto0", "gev", "gev0", "gamma", "beta", "betalog",
            "cauchy", "chisq", "exponential", "gengamma", "powerlaw",
            "binomial", "negbinomial", "poisson", "geometric", "categorical", "delta",
            "logt_normal", "logt_gamma", "trans_exp", "mix_normal_exp", "mix_exp_pareto",
            "iid_normal", "iid_exp", "id_normal_exp",
            "vnormal", "vt", "skewnormal", "iwishart",
            # the vector / matrix families and the products at dimension 1 and 3
            "vnormal1", "vnormal3", "vt1", "vt3", "skewnormal1", "iid_normal1", "iid_normal3", "iid_exp3",
            "id_normal1", "id_nen3", "iwishart1", "iwishart3",
            # mixtures with 1 / 3 components, nested, vector and matrix valued (generic.Mixture wrappers)
            "mix1_normal", "mix3_nen", "mixnest", "vmix1_vnormal", "vmix2_vn1", "mmix1_iw1", "mmix2_iw1",
            # hidden Markov models (2 states, sequence of length 2), scalar and vector emissions
            "hmm2_nn", "mhmm2_vn1"]
CDF_FAMILIES = ["normal", "laplace", "pareto", "gpareto", "gpareto0", "gev", "gev0", "gamma", "chisq",
                "exponential", "powerlaw", "categorical"]
UNMODELLED = [
    "matrixDistribution.NormalIWishartDistribution (LogPdf takes (mu, sigma), not a MatrixPdf; its two factors "
    "InverseWishart and vector Normal are covered)",
    "vectorDistribution.LogisticRegression; HMMs beyond 2 states / sequence length 2, constrained, hierarchical and shape HMMs (C15); "
    "mixtures with more than 3 components",
    "vectorDistribution.VectorId / VectorIid, matrixDistribution.VectorId / VectorIid (products over rows)",
    "NormalDistribution.EllipticCdf, MagicLogCdf; Mean/Variance accessors",
    "dimension > 3 and full (non-tridiagonal) 3x3 matrices for the vector and matrix families; SkewNormal at d = 3; "
    "Categorical with K != 3",
    "ImportConfig / ExportConfig (C18)",
]
TIERS = {
    "quick": dict(deep=False, clonesets=2, tlc_timeout=900),
    "thorough": dict(deep=True, clonesets=4, tlc_timeout=3000),
}


def fam_set(fams):
    return "{" + ", ".join('"%s"' % f for f in fams) + "}"


def generate(ctx, fams, deep, clonesets, label, timeout=900):
    cases = ctx.path("cases-%s.ndjson" % label)
    res = ctx.tlc("Dist", "Dist.cfg", workers=4, timeout=timeout, label=label, json_out=cases,
                  consts={"Families": fam_set(fams), "CloneSets": str(clonesets), "Emit": "TRUE",
                          "Deep": "TRUE" if deep else "FALSE"})
    if res.json_count == 0:
        raise vlib.Infra("Dist.tla printed no case")
    return cases, res


def vacuity(ctx, cases, fams):
    """Every family must really exercise what the check claims to exercise."""
    per = {}
    for line in open(cases):
        r = json.loads(line)
        if r.get("k") != "t":
            continue
        d = per.setdefault(r["fam"], {})
        key = r["op"] + ":" + (r.get("exp") or r.get("cls") or "")
        d[key] = d.get(key, 0) + 1
    tot = {}
    for f in fams:
        d = per.get(f)
        if not d:
            raise vlib.Infra("vacuity: no case for family " + f)
        for need in ("new:ok", "set:ok", "clone:ok", "eval:finite"):
            if not d.get(need):
                raise vlib.Infra("vacuity: family %s has no %s case" % (f, need))
        if f != "delta" and not d.get("new:error"):
            raise vlib.Infra("vacuity: family %s has no invalid parameter tuple" % f)
        for k, v in d.items():
            tot[k] = tot.get(k, 0) + v
    for need in ("eval:neginf", "eval:boundary", "eval:nonint", "eval:reject", "set:error"):
        if not tot.get(need):
            raise vlib.Infra("vacuity: no %s case at all" % need)
    return tot, per


def probe_set(ctx, binary, cases, label):
    """Run constructor / GetParameters / SetParameters / Clone of every family once in a CHILD process: a fatal
    runtime error of the library (stack overflow) kills the child, not the driver; the family is reported and its
    SetParameters transitions are left out of the replay."""
    fams = ctx.path("fams-%s.ndjson" % label)
    names = []
    with open(fams, "w") as out:
        for line in open(cases):
            if '"fam"' in line[:400]:
                r = json.loads(line)
                if r.get("k") == "fam":
                    out.write(line)
                    names.append(r["fam"])
    progress = ctx.path("probe-%s.txt" % label)
    open(progress, "w").close()
    broken = []
    start = 0
    for _ in range(len(names) + 1):
        rc, _, err, _ = ctx.run([binary, "probe", fams, progress, str(start)], timeout=600, ok_codes=tuple(range(0, 256)))
        lines = open(progress).read().split("\n")
        if "done" in lines:
            break
        last = [l for l in lines if l.startswith("start ")][-1].split()
        idx, fam = int(last[1]), last[2]
        if ("ok %d %s" % (idx, fam)) in lines:
            raise vlib.Infra("dist probe died outside a family (rc=%s): %s" % (rc, (err or "")[-500:]))
        broken.append(fam)
        what = "set_fatal_stack_overflow" if "stack overflow" in (err or "") else "set_fatal_runtime_error"
        ctx.violation({"engine": "dist", "fam": fam, "op": "set", "what": what},
                      {"mode": "probe", "fam": fam, "exit_code": rc, "stderr_head": (err or "")[:600],
                       "calls": "New(first valid tuple); v = GetParameters(); SetParameters(v); Clone()"})
        start = idx + 1
    else:
        raise vlib.Infra("dist probe did not finish")
    return broken


def do_replay(ctx, binary, cases, label, extra=None, broken=()):
    results = ctx.path("results-%s.ndjson" % label)
    ctx.run([binary, "replay", cases, results], timeout=3000, env={"VERIF_DIST_SETBROKEN": ",".join(broken)})
    summary = None
    for r in vlib.iter_ndjson(results):
        if r["kind"] == "summary":
            summary = r
        elif r["kind"] == "mismatch":
            d = r["detail"]
            d["mode"] = "replay"
            if extra:
                d.update(extra)
            ctx.violation(r["sig"], d)
    if summary is None or summary.get("aborted"):
        raise vlib.Infra("dist replay wrote no summary (driver died or hung: %s)" % (summary,))
    return summary


def reason_of(ev, prev):
    """Label of a rejected trace event (the verdict itself is TLC's rejection)."""
    if ev.get("e") != "pt":
        return "limits_missing"
    if ev["nan"]:
        return "nan_or_error"
    if not (0 <= ev["cdf"] <= 1000000000):
        return "outside_unit_interval"
    if prev is not None and ev["cdf"] < prev:
        return "not_monotone"
    if not ev["dok"]:
        return "derivative_is_not_density"
    if not ev["lok"]:
        return "logcdf_is_not_log_cdf"
    if ev["pos"] == "lo":
        return "limit_below_not_0"
    if ev["pos"] == "hi":
        return "limit_above_not_1"
    return "rejected"


def split_groups(path):
    groups, cur = [], []
    for line in open(path):
        cur.append(line)
        if line.startswith('{"') and '"e":"end"' in line:
            groups.append(cur)
            cur = []
    if cur:
        groups.append(cur)
    return groups


def do_trace(ctx, binary, cases, label, extra=None, max_rounds=14):
    trace = ctx.path("dist_trace-%s.ndjson" % label)
    rres = ctx.path("rec-%s.ndjson" % label)
    ctx.run([binary, "record", cases, trace, rres], timeout=1200)
    summ = [r for r in vlib.iter_ndjson(rres) if r["kind"] == "summary"]
    if not summ:
        raise vlib.Infra("dist record wrote no summary")
    summ = summ[0]
    groups = split_groups(trace)
    accepted = 0
    rounds = 0
    cur = ctx.path("dist_trace-%s-cur.ndjson" % label)
    while groups:
        with open(cur, "w") as f:
            for g in groups:
                f.writelines(g)
        ok, bad, why = vlib.validate_trace(ctx, "DistTrace", "DistTrace.cfg", "dist_trace.ndjson", cur,
                                           timeout=900, label="trace-%s-%d" % (label, rounds))
        if ok:
            accepted += len(groups)
            break
        rounds += 1
        # locate the group holding the rejected event, report it, drop it, go on
        n = 0
        hit = None
        for gi, g in enumerate(groups):
            if bad is not None and n < bad <= n + len(g):
                hit = gi
                break
            n += len(g)
        if hit is None:
            raise vlib.Infra("trace rejected at %s outside every group (%s)" % (bad, why))
        g = [json.loads(x) for x in groups[hit]]
        ev = g[bad - n - 1]
        prev = g[bad - n - 2]["cdf"] if bad - n - 2 >= 1 and g[bad - n - 2].get("e") == "pt" else None
        fam = g[0].get("fam")
        d = {"mode": "trace", "fam": fam, "a": g[0].get("a"), "rejected_event": ev, "reason": why,
             "preceding": g[max(0, bad - n - 4):bad - n - 1], "seed": ctx.seed}
        if extra:
            d.update(extra)
        ctx.violation({"engine": "dist-trace", "fam": fam, "what": reason_of(ev, prev)}, d)
        accepted += hit
        groups = groups[hit + 1:]
        if rounds >= max_rounds:
            ctx.extra["trace_groups_not_validated"] = len(groups)
            break
    return trace, summ, accepted


def selftest(ctx, trace):
    """Binding self-test: corrupted copies of an accepted trace must be rejected at the corrupted event."""
    groups = split_groups(trace)
    if not groups:
        raise vlib.Infra("self-test: empty trace")
    base = None
    for g in groups:
        evs = [json.loads(x) for x in g]
        mids = [i for i, e in enumerate(evs) if e.get("e") == "pt" and e["pos"] == "in" and 10000 < e["cdf"] < 990000000]
        if len(mids) >= 3:
            base = evs
            break
    if base is None:
        raise vlib.Infra("self-test: no group with interior points")
    notes = []
    for kind in ("monotone", "dok", "limit"):
        evs = json.loads(json.dumps(base))
        if kind == "monotone":
            idx = mids[1]
            evs[idx]["cdf"] = evs[idx - 1]["cdf"] - 5
        elif kind == "dok":
            idx = mids[0]
            evs[idx]["dok"] = False
        else:
            idx = 1                       # the far-left point: Cdf must be <= 1e-6 there
            evs[idx]["cdf"] = 5000
        p = ctx.path("dist_trace-corrupt-%s.ndjson" % kind)
        with open(p, "w") as f:
            for e in evs:
                f.write(json.dumps(e) + "\n")
        ok, bad, _ = vlib.validate_trace(ctx, "DistTrace", "DistTrace.cfg", "dist_trace.ndjson", p,
                                         label="selftest-" + kind)
        if ok or bad != idx + 1:
            raise vlib.Infra("vacuous binding: corrupted trace (%s at event %d) accepted=%s rejected_at=%s"
                             % (kind, idx + 1, ok, bad))
        notes.append("%s corrupted at event %d: rejected at %d" % (kind, idx + 1, bad))
    return notes


def run(ctx):
    cfg = TIERS[ctx.tier]
    ctx.sany("DistTrace")
    cases, res = generate(ctx, FAMILIES, cfg["deep"], cfg["clonesets"], "all", timeout=cfg["tlc_timeout"])
    ctx.log("Dist.tla: %d distinct states, %d transitions, %d cases printed" % (res.distinct, res.generated, res.json_count))
    tot, per = vacuity(ctx, cases, FAMILIES)
    binary = ctx.go_build("dist")
    broken = probe_set(ctx, binary, cases, "all")
    if broken:
        ctx.log("SetParameters kills the process for: %s (their Set transitions are not replayed)" % broken)
        ctx.extra["set_transitions_not_replayed_fatal"] = broken
    summ = do_replay(ctx, binary, cases, "all", broken=broken)
    counts = summ["counts"]
    ctx.log("replayed %d transitions: %s" % (summ["cases"], {k: counts[k] for k in sorted(counts) if k.startswith("op_")}))
    for need in ("values_compared", "derivs_compared", "cdf_points", "pmf_points", "type_pairs", "get_checks",
                 "ctor_invalid", "set_invalid", "clones", "weight_sums", "config_imports",
                 "storage_sparse", "storage_sparse0", "storage_view", "special_points", "cdf_exact_points"):
        if not counts.get(need):
            raise vlib.Infra("vacuity: driver counter %s is zero" % need)
    trace, rsum, accepted = do_trace(ctx, binary, cases, "cdf")
    ctx.log("CDF traces: %d groups, %d points (%d with the library's derivative), %d groups accepted"
            % (rsum["groups"], rsum["points"], rsum["ad_points"], accepted))
    if rsum["groups"] < len(CDF_FAMILIES):
        raise vlib.Infra("vacuity: only %d CDF groups recorded" % rsum["groups"])
    if accepted == rsum["groups"]:
        if rsum["ad_points"] < rsum["points"] // 4:
            raise vlib.Infra("vacuity: the derivative of Cdf was available at %d of %d points only"
                             % (rsum["ad_points"], rsum["points"]))
        ctx.extra["binding_selftest"] = selftest(ctx, trace)
    ctx.traces += summ["cases"] + accepted
    with open(cases) as f:
        shown = 0
        for line in f:
            r = json.loads(line)
            if r.get("k") == "t" and r["op"] == "eval" and r["fam"] in ("gpareto", "binomial", "mix_exp_pareto") and r["b"] > 0:
                ctx.sample({"replayed_transition": r})
                shown += 1
                if shown >= 2:
                    break
    with open(trace) as f:
        ctx.sample({"cdf_trace_prefix": [json.loads(next(f)) for _ in range(3)]})
    ctx.extra["families"] = FAMILIES
    ctx.extra["unmodelled_families"] = UNMODELLED
    ctx.extra["case_classes"] = tot
    ctx.extra["driver_counts"] = counts
    ctx.extra["cdf_trace"] = rsum
    ctx.extra["bounds"] = {"deep_grids": cfg["deep"], "clone_sets": cfg["clonesets"],
                           "scalar_types": ["Float64", "Real64"], "dimension_vector_matrix": [1, 2, 3],
                           "tolerance": "LogPdf: 1e-10*(1+|v|) + 32*E(term); derivative: 1e-8*(1+|v|) + 64*E; "
                                        "CDF 1e-9 + 32*E; exact masses 1e-12 relative"}
    nontrivial = tot.get("eval:finite", 0) + tot.get("eval:neginf", 0) + tot.get("eval:boundary", 0)
    return ctx.finish(
        rule="one replay case per transition of the Dist.tla state graph (family x parameter tuple of the object x "
             "parameter tuple of its clone x action New/SetParameters/Clone/Eval(x)); each executed on the real "
             "library with Float64 and Real64 parameters after rebuilding the source state through constructor, "
             "Clone and SetParameters; a case is distinct by (family, a, b, action, argument); plus one CDF trace "
             "per (family, valid tuple) validated by DistTrace.tla",
        evaluations=summ["cases"] * 2 + rsum["points"], distinct_nontrivial=nontrivial, exhaustive=True)


def replay(ctx, path):
    with open(path) as f:
        v = json.load(f)
    d = v["detail"]
    fam = d.get("fam") or d.get("case", {}).get("fam") or v["signature"].get("fam")
    if fam not in FAMILIES:
        raise vlib.Infra("replay: unknown family in " + path)
    cfg = TIERS[v.get("tier", "quick")]
    cases, _ = generate(ctx, [fam], cfg["deep"], cfg["clonesets"], "replay", timeout=cfg["tlc_timeout"])
    binary = ctx.go_build("dist")
    if d.get("mode") == "trace":
        ctx.seed = d.get("seed", ctx.seed)
        do_trace(ctx, binary, cases, "replay")
    else:
        # the transition stored in the violation file first, then every transition of the family
        one = ctx.path("one.ndjson")
        with open(one, "w") as out:
            for line in open(cases):
                if json.loads(line).get("k") == "fam":
                    out.write(line)
            out.write(json.dumps(d["case"]) + "\n")
        broken = probe_set(ctx, binary, cases, "replay")
        if d.get("mode") != "probe":
            do_replay(ctx, binary, one, "one", broken=broken)
        do_replay(ctx, binary, cases, "fam", broken=broken)
    return ctx.finish(rule="replay of one recorded violation (its transition, then all transitions of the family)",
                      evaluations=1, distinct_nontrivial=1)


MANIFEST = {
    "engine": "dist",
    "spec": "spec/Dist.tla",
    "engine_text": "Dist.tla (contract of 54 distribution families (vector/matrix families and products at dimension 1, 2, 3; scalar, vector, matrix and nested mixtures with 1-3 components) over Expr.tla terms and Rat.tla rationals, life cycle "
                   "New/SetParameters/Clone/Eval), DistTrace.tla (trace validation of recorded CDFs); Go driver "
                   "harness/cmd/dist, term evaluator harness/exprlib",
    "technique": "TLA+ contract model checked by TLC (validity, exact support classification, symbolic textbook log-density "
                 "and CDF with Expr!D derivatives, exact rational masses with the invariant 'masses sum to one'); one replay "
                 "case per transition of the model's state graph executed on the real library with Float64 and Real64 "
                 "parameters; recorded CDF grids validated by a TLC trace specification",
    "text": "TLC enumerates family x parameter tuple of the object x parameter tuple of its clone x action (constructor with "
            "valid and invalid tuples, SetParameters, Clone, evaluation at points inside, on the boundary of and outside the "
            "support) and prints the observation the contract demands: the class (finite with a symbolic term, -Inf, "
            "boundary, inadmissible, constructor error), the term variant, the parameter-vector layout and, for the discrete "
            "families, the exact rational mass at every support point (TLC proves Binomial/Categorical/Geometric/Negative "
            "Binomial masses sum to one). The driver rebuilds each source state through constructor, Clone and "
            "SetParameters, compares LogPdf (and Cdf/LogCdf) with the evaluated term, demands exactly -Inf outside the "
            "support, compares the library's derivative w.r.t. every parameter with Expr!D of the term, requires agreement "
            "of Float64 and Real64, and checks get/set/clone round trips. CDFs recorded on increasing grids must be accepted "
            "by DistTrace.tla (monotone, in [0,1], limits 0 and 1, d/dx Cdf = pdf by the library's own AD, LogCdf = log Cdf). "
            "Bounded: small rational grids, dimension 1-3 for vector/matrix families (3x3 tridiagonal); normalisation of continuous families "
            "is implied by matching the normalised textbook formula, not integrated.",
    "note": "Trusted: TLC, CommunityModules Json, Expr.tla differentiation table, Go math (leaf functions of the term "
            "evaluator), the driver's binding of family names to constructors. Known finding C14-iwishart-trace is "
            "modelled as KnownDeviation_IWishartTrace. Unmodelled families are listed in evidence (unmodelled_families).",
    "design_ref": "DESIGN.md section 5 (C14), section 4 (Dist.tla), docs/C14.md",
}
