"""C09 - generic and concrete-typed (capital-letter) methods are interchangeable.

The case sets are those of C03 (spec/ContainersCases.tla, Mode = "c09": operands of the
receiver's storage class, because a concrete method takes the receiver's own type) plus the
scalar cases of the same module (ring operations with the value the contract demands,
transcendental operations with their meaning as a symbolic term).  The driver
harness/cmd/containers discovers the pairs by reflection (a method named
strings.ToUpper(name) whose parameters are exactly the concrete operand types), runs the
generic and the concrete method on freshly built equal operands and requires
  * the concrete result to equal the content the specification printed, and
  * generic and concrete results to be identical (every element, value and derivative;
    for scalars value, order, N and every gradient / Hessian slot).
The typed joint iterators (JOINT_ITERATOR_, JOINT3_ITERATOR_) are the generic ones restricted
to sparse streams: the mechanism model spec/JointIter.tla is checked for Kinds = {"sparse"}.
Recorded random operation sequences call the concrete variant at random where one exists and
are validated by spec/ContainersTrace.tla.

SPECIAL OPERANDS (Special = TRUE): the same pairing is run over +-Inf, NaN, -0 in scalars and in
float / magic containers (a zero meeting an Inf/NaN in products), -Inf in LogAdd/LogSub, the
bounds MinIntN/MaxIntN of the integer types (two's complement wrap-around computed by TLC
symbolically) and base 0 of Pow with constant / active exponents 0, 1, 2 at derivative orders 1
and 2.  TLC prints the IEEE class of every result (class algebra in Containers.tla) or the
meaning as a term; a divergence of the two variants (class, or any derivative / Hessian slot,
NaN = NaN) is a violation; a class that BOTH variants miss is reported as information
(coverage.special_both_deviate: C02's business, interchangeability holds).
"""
import json
import os

import vlib
import c03 as base

LEVEL = "model_checking"

TIERS = {
    "quick": dict(
        parts=[dict(Part='"all"', MaxN=3, Big=0, Rich=0, Cap=1000)],
        zerovar=[dict(Part='"all"', MaxN=2, Big=0, Rich=0, Cap=300)],
        special=[dict(Part='"all"', MaxN=2, Big=0, Rich=0, Cap=1000)],
        sim=None, ji=[(2, 4), (3, 3)], ji_bug=[], walk_every=1, record=(200, 1)),
    "thorough": dict(
        parts=[dict(Part='"vec"', MaxN=4, Big=1, Rich=1, Cap=8000),
               dict(Part='"mat"', MaxN=4, Big=1, Rich=1, Cap=8000),
               dict(Part='"prod"', MaxN=4, Big=1, Rich=1, Cap=8000)],
        zerovar=[dict(Part='"all"', MaxN=3, Big=1, Rich=0, Cap=1000)],
        special=[dict(Part='"all"', MaxN=2, Big=0, Rich=0, Cap=1000)],
        sim=dict(num=6000, SimN=8), ji=[(2, 5), (3, 4)], ji_bug=[], walk_every=1, record=(400, 6)),
}

# pairs that must have been discovered and exercised (vacuity control); the full list is in evidence
MUST_PAIRS = ["*autodiff.SparseFloat64Vector.VaddV/VADDV", "*autodiff.SparseInt16Vector.VmulS/VMULS",
              "*autodiff.SparseReal64Vector.Equals/EQUALS", "*autodiff.SparseReal32Vector.Set/SET",
              "autodiff.DenseFloat64Vector.VdivV/VDIVV", "autodiff.DenseInt8Vector.MdotV/MDOTV",
              "autodiff.DenseReal64Vector.VdotM/VDOTM", "*autodiff.DenseFloat32Matrix.MdotM/MDOTM",
              "*autodiff.DenseReal64Matrix.Outer/OUTER", "*autodiff.DenseIntMatrix.MaddM/MADDM",
              "Float64.Add/ADD", "Real64.Abs/ABS", "Int8.Mul/MUL", "Real32.LogAdd/LOGADD", "Float32.Pow/POW",
              "Int64.Equals/EQUALS", "Real64.Sign/SIGN", "Int16.Min/MIN"]


def run(ctx):
    conf = TIERS[ctx.tier]
    for m in ("Containers", "ContainersCases", "ContainersTrace", "JointIter"):
        ctx.sany(m)
    binary = ctx.go_build("containers")
    # mechanism of the concrete methods: the typed joint iterators = sparse streams only
    base.mechanism(ctx, conf, kinds='{"sparse"}', tag="typed")
    total = {}
    runs = [("c09-" + str(i), p, False, False) for i, p in enumerate(conf["parts"])] + \
           [("c09-zerovar-" + str(i), p, True, False) for i, p in enumerate(conf["zerovar"])] + \
           [("c09-special-" + str(i), p, False, True) for i, p in enumerate(conf["special"])]
    sampled = False
    for label, consts, zv, sp in runs:
        cases, res = base.gen_cases(ctx, "c09", consts, label, zerovar=zv, special=sp)
        if sp:
            with open(cases) as f:
                for line in f:
                    if '"ib"' in line and '"Abs"' in line:
                        ctx.sample({"special_integer_bound_record": json.loads(line)})
                        break
        if not sampled:
            with open(cases) as f:
                for line in f:
                    if '"sexp"' in line:
                        ctx.sample({"scalar_case_record": json.loads(line)})
                        break
            sampled = True
        s = base.run_replay(ctx, binary, cases, "c09", label)
        ctx.log("%s: %d records -> %d generic cases, %d generic/concrete pairs run, %d scalar pairs, mismatches=%d"
                % (label, s["records"], s["cases"], s["concrete_cases"], s["scalar_cases"], s["mismatches"]))
        base.merge_summary(total, s)
        if sp:
            need = ["S:LogSub", "S:Pow", "S:Abs", "S:Sqrt", "MdotM", "VmulV", "MdotV", "VdotM", "Outer", "VdotV"]
            miss = [o for o in need if s.get("by_op", {}).get(o, 0) == 0]
            if miss:
                raise vlib.Infra("vacuous special-operand run: no case for %s" % miss)
            ctx.extra["special_operand_cases"] = {"container_pairs": s["concrete_cases"], "scalar_pairs": s["scalar_cases"],
                                                  "records": s["records"]}
        os.remove(cases)
    if conf["sim"]:
        cases, res = base.gen_cases(ctx, "c09", dict(Part='"all"', MaxN=conf["parts"][0]["MaxN"], Big=0, Rich=1, Cap=1000,
                                                     SimN=conf["sim"]["SimN"]), "c09-simulate", simulate=conf["sim"]["num"])
        s = base.run_replay(ctx, binary, cases, "c09", "c09-simulate")
        ctx.log("simulation: %d records -> %d generic/concrete pairs, mismatches=%d" % (s["records"], s["concrete_cases"], s["mismatches"]))
        base.merge_summary(total, s)
        os.remove(cases)
    need = ["ratio:VdivS", "view:Equals", "view:MaddM", "S:alias:ra", "S:alias:rb", "S:alias:rab", "big:MdotV"]
    miss = [k for k in need if total.get("by_op", {}).get(k, 0) == 0]
    if miss:
        raise vlib.Infra("vacuous enumeration: case sets never replayed: %s" % miss)
    if total.get("by_op", {}).get("Equals:eps", 0) == 0:
        raise vlib.Infra("vacuous enumeration: no Equals/EQUALS case with the epsilon dimension")
    pairs = sorted(total.get("pairs", []))
    missing = [p for p in MUST_PAIRS if p not in pairs]
    if missing or total.get("concrete_cases", 0) == 0 or total.get("scalar_cases", 0) == 0:
        raise vlib.Infra("vacuous pairing: pairs never exercised: %s (concrete=%s scalar=%s)"
                         % (missing, total.get("concrete_cases"), total.get("scalar_cases")))
    nops, ntr = conf["record"]
    nev, ok = base.record_and_validate(ctx, binary, nops, ntr, ctx.seed, "rec9", concrete=True)
    ctx.log("recorded %d events with concrete methods mixed in: %s" % (nev, "accepted" if ok else "REJECTED"))
    if ok:
        ctx.traces += ntr * 9
    npairs = total["concrete_cases"] + total["scalar_cases"]
    ctx.traces += npairs
    ctx.extra["pairs_discovered"] = len(pairs)
    ctx.extra["pairs"] = pairs
    ctx.extra["generic_concrete_container_cases"] = total["concrete_cases"]
    ctx.extra["generic_concrete_scalar_cases"] = total["scalar_cases"]
    ctx.extra["cases_by_operation"] = total.get("by_op", {})
    ctx.extra["recorded_events"] = nev
    # special operands on which BOTH variants miss the IEEE class TLC printed (information, not a verdict)
    ctx.extra["special_both_deviate"] = total.get("both_deviate", {})
    ex = total.get("both_deviate_examples", {})
    ctx.extra["special_both_deviate_examples"] = {k: ex[k] for k in sorted(ex)[:6]}
    ctx.extra["bounds"] = {"tier": ctx.tier, "case_runs": conf["parts"], "zero_valued_variable_runs": conf["zerovar"],
                           "simulate": conf["sim"], "scalar_grid": "-2..2 (Div: exact quotients and zero divisors)",
                           "record": {"ops": nops, "traces_per_type": ntr}}
    return ctx.finish(
        rule="one case per (paired operation discovered by reflection, element type, operand contents / scalar grid point, "
             "receiver prior content, explicit-zero pattern); the concrete method's post-state must equal the content TLC "
             "printed and the generic method's post-state on equal operands",
        evaluations=npairs + nev, distinct_nontrivial=npairs, exhaustive=True)


def replay(ctx, path):
    return base.replay(ctx, path)


MANIFEST = {
    "engine": "containers",
    "spec": "spec/Containers.tla",
    "engine_text": "Containers.tla / ContainersCases.tla (Mode = c09: uniform storage + scalar cases), JointIter.tla "
                   "(typed iterators = sparse streams), ContainersTrace.tla; Go driver harness/cmd/containers",
    "technique": "TLC-enumerated cases with the demanded post-state, executed through the generic AND the reflection-discovered "
                 "capital-letter method on equal operands for all element types; recorded mixed generic/concrete operation "
                 "sequences validated by a TLC trace specification",
    "text": "For every (generic, CAPITAL) method pair found by reflection on scalars, dense and sparse vectors and matrices of "
            "all nine element types, the cases of the C03 enumeration with operands of the receiver's own concrete type and a "
            "scalar grid (-2..2, both operands active variables of order 2 for the magic types) are run through both variants; "
            "the concrete result must equal the specification's post-state (ring operations: exact value from TLC; "
            "transcendental operations: the symbolic meaning evaluated with Go math) and must be identical to the generic "
            "result in every element / value, derivative and Hessian slot. Bounded exhaustive conformance.",
    "note": "Trusted: TLC, CommunityModules Json, Go reflection, the driver's projection. Integer element types: the meaning of "
            "exp/log/pow is C02's business, only generic = concrete is required there.",
    "design_ref": "DESIGN.md section 5 (C09, C03), section 4 (Containers)",
}
