"""C12 - copies are independent and read-only inputs are left unchanged.

Part A (copies)
  model -> code : spec/CopySemantics.tla, a heap model (objects own or reference
                  cells; every constructor-like call is classified copy /
                  reference / probe from the documentation).  TLC explores the
                  call histories in transition mode (canonical VIEW) and prints
                  each transition with the content of EVERY live object after
                  the last call; harness/cmd/copysem `replay` executes them on
                  the real scalars / vectors / matrices / iterators for dense
                  and sparse storage and all nine mutable element types and
                  compares values, derivative state, dimensions, iteration
                  sequence and iterator positions.
  code -> model : `record`: seeded random longer histories (larger objects,
                  nested views, up to 8 live objects) validated by
                  spec/CopySemanticsTrace.tla.
Part B (frame conditions)
  model -> code : spec/FrameConditions.tla, the table MayModify(entry, mode)
                  written from signatures and doc comments; TLC prints entry
                  point x option combination x in-situ mode x element type x
                  dimension class with the roles that must stay unchanged; the
                  driver digests every argument before / after the call.
  code -> model : the logged digests are validated by spec/FrameTrace.tla.
"""
import json
import os

import vlib

LEVEL = "model_checking"
WORKERS = 4

# family, pattern, mode, MaxObj, MaxMut
#   mode "heap": derivations (clones, conversions, views, iterators, snapshots), then mutations
#   mode "iter": iterator protocol - iterators / joint iterators / safe iterators and their clones made at any
#                time, Next() on any of them in any order
CONFIGS = {
    "quick": [("sca", "z", "heap", 3, 2), ("vec", "z", "heap", 3, 1), ("vec", "f", "heap", 3, 1),
              ("mat", "z", "heap", 3, 1), ("mat", "f", "heap", 3, 1), ("avl", "f", "heap", 3, 3),
              ("vec", "f", "iter", 4, 5), ("mat", "f", "iter", 4, 4), ("avl", "f", "iter", 4, 4)],
    "thorough": [("sca", "z", "heap", 4, 3), ("vec", "z", "heap", 3, 2), ("vec", "f", "heap", 3, 2),
                 ("mat", "z", "heap", 3, 2), ("mat", "f", "heap", 3, 2), ("avl", "f", "heap", 4, 4),
                 ("vec", "f", "iter", 5, 6), ("mat", "f", "iter", 4, 6), ("avl", "f", "iter", 5, 6)],
}
RECORD = {"quick": (150, 40), "thorough": (1200, 60)}      # histories, calls
SIZES = {"quick": "{2}", "thorough": "{2, 3}"}

EXPECTED_OPS = {"clone", "asSame", "asFlip", "asType", "row", "col", "slice", "mslice", "T", "elem", "iter", "itclone",
                "set", "assign", "der", "vars", "fill", "reset", "swap", "reverse", "sort", "swaprows", "append",
                "itnext", "itset", "asmatrix", "asvector", "constrow", "constcol", "diag",
                "jiter", "tclone", "titer", "safeiter", "safefrom", "tins", "tdel", "asConst", "grad"}
EXPECTED_ENTRIES = 50


def dedupe(path):
    """TLC evaluates some PrintT twice; keep each case once."""
    seen = set()
    out = path + ".u"
    n = 0
    with open(out, "w") as o:
        for line in open(path):
            h = hash(line)
            if h in seen:
                continue
            seen.add(h)
            o.write(line)
            n += 1
    os.replace(out, path)
    return n


def report(ctx, results, extra):
    summary = None
    for r in vlib.iter_ndjson(results):
        if r["kind"] == "summary":
            summary = r
        elif r["kind"] == "mismatch":
            d = r["detail"]
            d.update(extra)
            ctx.violation(r["sig"], d)
    if summary is None:
        raise vlib.Infra("copysem wrote no summary (driver died?) for %s" % results)
    if summary.get("aborted"):
        ctx.log("driver aborted: %s" % summary["aborted"])
    return summary


def part_a_replay(ctx, binary, cases, tag):
    results = ctx.path("results-%s.ndjson" % tag)
    ctx.run([binary, "replay", cases, results], timeout=3000, env={"VERIF_WORKERS": str(WORKERS)})
    return report(ctx, results, {})


def record_and_validate(ctx, binary, ntr, nops, seed, tag):
    trace = ctx.path("copysem_trace-%s.ndjson" % tag)
    ctx.run([binary, "record", trace, str(ntr), str(nops)], env={"VERIF_SEED": str(seed)}, timeout=1200)
    clean = trace + ".clean"
    n = 0
    with open(clean, "w") as out:
        for line in open(trace):
            if '"kind":"mismatch"' in line[:60] or '"kind":"summary"' in line[:80]:
                r = json.loads(line)
                if r.get("kind") == "mismatch":
                    ctx.violation(r["sig"], dict(r["detail"], mode="record", seed=seed, ntraces=ntr, nops=nops))
                continue
            out.write(line)
            n += 1
    ok, bad, why = vlib.validate_trace(ctx, "CopySemanticsTrace", "CopySemanticsTrace.cfg", "copysem_trace.ndjson",
                                       clean, timeout=3000, label="trace-" + tag)
    return clean, n, ok, bad, why


def run(ctx):
    tier = ctx.tier
    ctx.sany("CopySemanticsTrace")
    ctx.sany("FrameTrace")
    binary = ctx.go_build("copysem")

    # ------------------------------------------------------------------ part A
    total_cases = total_runs = total_steps = 0
    ops_seen = {}
    skipped = {}
    for fam, pat, mode, mo, mm in CONFIGS[tier]:
        label = "%s-%s-%s" % (fam, pat, mode)
        cases = ctx.path("cases-%s.ndjson" % label)
        res = ctx.tlc("CopySemantics", "CopySemantics.cfg", workers=WORKERS, timeout=6000, label=label, json_out=cases,
                      consts={"Fam": '"%s"' % fam, "Pat": '"%s"' % pat, "Mode": '"%s"' % mode, "MaxObj": str(mo), "MaxMut": str(mm), "Emit": "TRUE"})
        n = dedupe(cases)
        ctx.log("CopySemantics %s: %d distinct states, %d transitions, %d cases" % (label, res.distinct, res.generated, n))
        if n == 0:
            raise vlib.Infra("no cases generated for " + label)
        summ = part_a_replay(ctx, binary, cases, label)
        total_cases += summ["cases"]
        total_runs += summ["runs"]
        total_steps += summ["steps"]
        for k, v in summ["last_ops"].items():
            ops_seen[k] = ops_seen.get(k, 0) + v
        for k, v in summ["skipped"].items():
            skipped[k] = skipped.get(k, 0) + v
        if label == "mat-z-heap":
            with open(cases) as f:
                for _ in range(300):
                    line = f.readline()
                c = json.loads(line)
                c.pop("prev", None)
                ctx.sample({"replayed_case": c})
            # binding self-test of the replay: one corrupted expectation must be reported
            with open(cases) as f:
                c = json.loads(f.readline())
            c["exp"][0]["v"][0] += 1
            bad = ctx.path("case-corrupt.ndjson")
            with open(bad, "w") as f:
                f.write(json.dumps(c) + "\n")
            r2 = ctx.path("results-corrupt.ndjson")
            ctx.run([binary, "replay", bad, r2])
            if not any(r["kind"] == "mismatch" for r in vlib.iter_ndjson(r2)):
                raise vlib.Infra("binding self-test failed: corrupted expected content accepted by the replay driver")
        os.remove(cases)
    missing = EXPECTED_OPS - set(ops_seen)
    if missing:
        raise vlib.Infra("vacuity: calls never generated: %s" % sorted(missing))
    if total_runs < total_cases:
        raise vlib.Infra("vacuity: only %d instantiations executed for %d cases" % (total_runs, total_cases))
    ctx.log("part A: %d cases, %d instantiations executed (%d calls), not compared: %s" % (total_cases, total_runs, total_steps, skipped))

    ntr, nops = RECORD[tier]
    try:
        trace, nev, ok, bad, why = record_and_validate(ctx, binary, ntr, nops, ctx.seed, "rec")
    except vlib.Infra as e:
        # a library that already broke the contract in the replay can drive the recorder's bookkeeping off the
        # constrained calls (Legal assertion of the trace specification): the replay verdicts stand
        if not ctx.violations:
            raise
        ctx.log("recorded histories not validated: %s" % str(e)[:200])
        trace, nev, ok, bad, why = None, 0, None, None, None
    ctx.log("recorded %d events in %d histories: %s" % (nev, ntr, "accepted" if ok else "REJECTED at %s (%s)" % (bad, why)))
    if ok is None:
        pass
    elif ok:
        ctx.traces += ntr
        events = vlib.read_ndjson(trace, limit=400)
        ctx.sample({"recorded_event": {k: events[3][k] for k in ("e", "st", "inst", "res")}})
        idx = next((i for i, e in enumerate(events) if i > 20 and e["e"] == "call" and e["obs"][0]["v"]), None)
        if idx is None:
            raise vlib.Infra("self-test: no call event")
        events[idx]["obs"][0]["v"][0] += 1
        badf = ctx.path("copysem_trace-corrupt.ndjson")
        with open(badf, "w") as f:
            for e in events:
                f.write(json.dumps(e) + "\n")
        ok2, bad2, _ = vlib.validate_trace(ctx, "CopySemanticsTrace", "CopySemanticsTrace.cfg", "copysem_trace.ndjson", badf,
                                           label="selftest-A")
        if ok2 or bad2 != idx + 1:
            raise vlib.Infra("binding self-test failed (part A trace): accepted=%s at=%s want=%s" % (ok2, bad2, idx + 1))
        ctx.extra["binding_selftest_A"] = "corrupted observation rejected at event %d; corrupted expectation rejected by the replay driver" % (idx + 1)
    else:
        events = vlib.read_ndjson(trace)
        e = events[bad - 1] if bad and bad <= len(events) else None
        st = (e or {}).get("st", {})
        ctx.violation({"engine": "copysem", "part": "A", "mode": "trace", "what": "rejected", "op": st.get("op", "?"),
                       "inst": (e or {}).get("inst", "?")},
                      {"mode": "record", "seed": ctx.seed, "ntraces": ntr, "nops": nops, "rejected_at": bad, "reason": why,
                       "event": e, "preceding": [x.get("st") for x in events[max(0, (bad or 1) - 6):(bad or 1) - 1]]})

    # ------------------------------------------------------------------ part B
    fcases = ctx.path("frame-cases.ndjson")
    res = ctx.tlc("FrameConditions", "FrameConditions.cfg", workers=2, timeout=900, label="frame", json_out=fcases,
                  consts={"Sizes": SIZES[tier], "Emit": "TRUE"})
    nf = dedupe(fcases)
    ctx.log("FrameConditions: %d cases" % nf)
    fres = ctx.path("frame-results.ndjson")
    ftrace = ctx.path("frame_trace.ndjson")
    ctx.run([binary, "frame", fcases, fres, ftrace], timeout=1800)
    fsum = report(ctx, fres, {})
    if fsum["executed"] < 0.95 * nf or len(fsum["entries"]) < EXPECTED_ENTRIES:
        raise vlib.Infra("vacuity: %d of %d frame cases executed, %d entry points" % (fsum["executed"], nf, len(fsum["entries"])))
    if fsum["panics"] > 0.05 * nf:
        raise vlib.Infra("too many calls panicked (%d of %d): %s" % (fsum["panics"], nf, list(fsum["panic_names"].items())[:5]))
    ctx.log("part B: %d cases executed (%d entry points), %d roles compared, %d panics, %d errors returned" % (
        fsum["executed"], len(fsum["entries"]), fsum["roles_checked"], fsum["panics"], fsum["errors"]))
    okf, badf, whyf = vlib.validate_trace(ctx, "FrameTrace", "FrameTrace.cfg", "frame_trace.ndjson", ftrace, label="frame-trace")
    fevents = vlib.read_ndjson(ftrace)
    if okf:
        ctx.traces += 1
        ctx.sample({"frame_event": fevents[len(fevents) // 3]})
        idx = next(i for i, e in enumerate(fevents) if e["entry"] == "svd.Run" and e["outcome"] == "ok")
        for r in fevents[idx]["roles"]:
            if r["role"] == "a":
                r["changed"] = True
        badt = ctx.path("frame_trace-corrupt.ndjson")
        with open(badt, "w") as f:
            for e in fevents:
                f.write(json.dumps(e) + "\n")
        ok2, bad2, _ = vlib.validate_trace(ctx, "FrameTrace", "FrameTrace.cfg", "frame_trace.ndjson", badt, label="selftest-B")
        if ok2 or bad2 != idx + 1:
            raise vlib.Infra("binding self-test failed (part B trace): accepted=%s at=%s want=%s" % (ok2, bad2, idx + 1))
        ctx.extra["binding_selftest_B"] = "a changed input digest is rejected at event %d" % (idx + 1)
    else:
        e = fevents[badf - 1] if badf and badf <= len(fevents) else {}
        ctx.violation({"engine": "copysem", "part": "B", "mode": "trace", "what": "rejected", "entry": e.get("entry", "?"),
                       "op": e.get("op", "")},
                      {"mode": "frame-trace", "rejected_at": badf, "reason": whyf, "event": e})

    ctx.traces += total_cases
    ctx.extra["replay_cases"] = total_cases
    ctx.extra["replay_instantiations"] = total_runs
    ctx.extra["replay_calls"] = total_steps
    ctx.extra["not_compared"] = skipped
    ctx.extra["calls_generated"] = ops_seen
    ctx.extra["recorded_events"] = nev
    ctx.extra["frame_cases"] = fsum["executed"]
    ctx.extra["frame_entry_points"] = sorted(fsum["entries"])
    ctx.extra["frame_roles_compared"] = fsum["roles_checked"]
    ctx.extra["frame_calls_panicked"] = fsum["panic_names"]
    ctx.extra["information_undocumented_sharing"] = {k: sorted(set(v)) for k, v in fsum.get("information", {}).items()}
    ctx.extra["bounds"] = {"configs": [dict(family=f, pattern=p, mode=md, max_objects=o, mutations=m)
                                       for f, p, md, o, m in CONFIGS[tier]],
                           "instantiations": "dense/sparse x int8..int, float32/64, real32/64",
                           "record": dict(histories=ntr, calls=nops, max_live_objects=8),
                           "frame_sizes": SIZES[tier]}
    return ctx.finish(
        rule="part A: one replay case per transition of the CopySemantics.tla state graph (canonical VIEW: object headers x "
             "cell contents x phase), each a call history executed for 18 storage/element-type instantiations with the content "
             "of every live object compared after the last call; seeded random histories of the real containers accepted by "
             "CopySemanticsTrace.tla. part B: one case per (entry point, valid option combination, in-situ mode, element type, "
             "dimension class) of FrameConditions.tla, every argument digested before/after; digests accepted by FrameTrace.tla",
        evaluations=total_runs + nev + fsum["executed"], distinct_nontrivial=total_cases + nf, exhaustive=True)


def replay(ctx, path):
    with open(path) as f:
        v = json.load(f)
    d = v["detail"]
    binary = ctx.go_build("copysem")
    mode = d.get("mode")
    if mode == "replay":
        cases = ctx.path("case.ndjson")
        with open(cases, "w") as f:
            f.write(json.dumps(d["case"]) + "\n")
        part_a_replay(ctx, binary, cases, "replay")
    elif mode == "record":
        trace, nev, ok, bad, why = record_and_validate(ctx, binary, d["ntraces"], d["nops"], d["seed"], "replay")
        if not ok:
            ctx.violation({"engine": "copysem", "part": "A", "mode": "trace", "what": "rejected"}, dict(d, rejected_at=bad, reason=why))
    else:
        cases = ctx.path("case.ndjson")
        with open(cases, "w") as f:
            f.write(json.dumps(d["case"]) + "\n")
        fres = ctx.path("r.ndjson")
        ctx.run([binary, "frame", cases, fres, ctx.path("t.ndjson")])
        report(ctx, fres, {})
    return ctx.finish(rule="replay of one recorded violation", evaluations=1, distinct_nontrivial=1)


MANIFEST = {
    "engine": "copysem",
    "spec": "spec/CopySemantics.tla",
    "engine_text": "CopySemantics.tla (heap model of scalars, vectors, matrices, views, iterators, joint iterators and the ordered "
                   "integer index with its snapshot iterators; copy / reference / probe classification from the documentation; "
                   "share sets = storage two live objects may have in common, projected from the real objects by a reflect walk), CopySemanticsTrace.tla, FrameConditions.tla (table "
                   "MayModify(entry, mode) over all algorithm entry points, container operations, distributions and estimators), "
                   "FrameTrace.tla; Go driver harness/cmd/copysem",
    "technique": "TLA+ contract checked by TLC; one replay case per transition of the heap model's state graph executed on the real "
                 "containers for dense/sparse storage and nine element types; frame-condition cases enumerated by TLC with argument "
                 "digests before/after the call; recorded real histories and digests validated by TLC trace specifications",
    "text": "TLC explores all call histories of the heap model within the bounds (up to 3 live objects of at most 6 cells, one "
            "pre-mutation, derivation chains of clones, As-conversions, slices, transposes, rows, element references and iterators, "
            "then one or two mutations through any of them) and prints every transition with the content of every live object; the "
            "histories are executed on the real types and values, derivative state, dimensions, iteration sequence and iterator "
            "positions of all objects are compared, so a mutation that becomes visible through a copy, or a copy that differs from "
            "its source, is reported. For every algorithm entry point, container operation, distribution and estimator entry with "
            "every valid option combination and in-situ mode, all arguments are digested bitwise before and after the call and "
            "compared with the frame condition printed by TLC. Seeded random longer histories and the logged digests are accepted "
            "by the trace specifications. Bounded model checking plus conformance, not a proof.",
    "note": "Trusted: TLC, CommunityModules Json, the Go driver's projection through the public read API (ConstAt, Get*, Dims, "
            "iterators). Sparse views are compared only where C10/C11 constrain them; calls that panic are not compared. Bounds are "
            "echoed in evidence (coverage.bounds).",
    "design_ref": "DESIGN.md section 5 (C12), section 4 (CopySemantics.tla), section 3.6",
}
