"""C04 - linear solves, inverses and determinants satisfy their defining equations.

model -> code : spec/LinSolve.tla is the contract over exact rationals (Det by
                Leibniz, Inv = Adj/Det, Solve by Cramer, the condition proxy
                kappa, structural singularity).  TLC verifies the defining
                equations on every enumerated matrix and prints each case with
                the results the contract demands; harness/cmd/linalg runs the
                REAL matrixInverse / gaussJordan / backSubstitution /
                determinant on it for Float64/Float32/Real64/Real32 and every
                option combination and compares with the rationals.
                spec/GaussJordanPerm.tla is the mechanism model of the pivot
                book-keeping against the interchange semantics of PermuteRows;
                every terminal state (every pivot order, every Submatrix mask)
                is printed as a replay case as well; its pre-fix variant
                (Buggy = TRUE) must be refuted by TLC (vacuity control).
code -> model : seeded random matrices of size 5..8 through the real routines,
                validated by spec/LinSolveTrace.tla (which re-derives the input
                class and the exact determinant itself), with a binding
                self-test.
"""
import json
import os
import re
import subprocess

import vlib

LEVEL = "model_checking"

# Mod3: one of Mod3 members of the 262144 3x3 matrices; Mod4: slices of the 4x4 triangular / SPD families
TIERS = {
    "quick": dict(Full="FALSE", Mod3="24", Mod4="64", NB="64", gjp_n=4, record=400, procs=4),
    "thorough": dict(Full="TRUE", Mod3="1", Mod4="8", NB="256", gjp_n=5, record=3000, procs=6),
}


def gen_consts(ctx, t):
    return {"Seed": str(ctx.seed), "Full": t["Full"], "Mod3": t["Mod3"], "Mod4": t["Mod4"], "NB": t["NB"]}


def run_driver(ctx, binary, prop, cases, tag, procs=4, timeout=3000):
    """Replay a case file with `procs` driver processes in parallel; returns
    (summary totals, list of mismatch records)."""
    n = sum(1 for _ in open(cases))
    procs = max(1, min(procs, (n + 199) // 200))
    parts = [ctx.path("%s-part%d.ndjson" % (tag, i)) for i in range(procs)]
    outs = [ctx.path("%s-res%d.ndjson" % (tag, i)) for i in range(procs)]
    fhs = [open(p, "w") for p in parts]
    with open(cases) as f:
        for i, line in enumerate(f):
            fhs[i % procs].write(line)
    for fh in fhs:
        fh.close()
    env = dict(os.environ)
    env.update(vlib.GOENV)
    env["VERIF_SEED"] = str(ctx.seed)
    ps = [subprocess.Popen([binary, "replay", prop, parts[i], outs[i]], env=env,
                           stdout=subprocess.PIPE, stderr=subprocess.PIPE, text=True) for i in range(procs)]
    for p in ps:
        try:
            _, err = p.communicate(timeout=timeout)
        except subprocess.TimeoutExpired:
            for q in ps:
                q.kill()
            raise vlib.Infra("linalg driver timeout (%ss) on %s" % (timeout, tag))
        if p.returncode != 0:
            raise vlib.Infra("linalg driver failed rc=%s: %s" % (p.returncode, (err or "")[-2000:]))
    total = {"cases": 0, "checks": 0, "mismatches": 0, "counts": {}, "kinds": {}}
    mism = []
    for o in outs:
        summ = None
        for r in vlib.iter_ndjson(o):
            if r["kind"] == "summary":
                summ = r
            elif r["kind"] == "mismatch":
                mism.append(r)
        if summ is None:
            raise vlib.Infra("linalg replay wrote no summary (driver died?) for " + o)
        if "aborted" in summ:
            continue
        for k in ("cases", "checks", "mismatches"):
            total[k] += summ.get(k, 0)
        for k in ("counts", "kinds"):
            for a, b in summ.get(k, {}).items():
                total[k][a] = total[k].get(a, 0) + b
    return total, mism


def report(ctx, mism, mode):
    for r in mism:
        d = dict(r["detail"])
        d["mode"] = mode
        ctx.violation(r["sig"], d)


def case_stats(path):
    fam, sing, masks4, ntri, nspd, nonprefix = {}, {}, set(), 0, 0, 0
    sample = None
    for c in vlib.iter_ndjson(path):
        key = "%s%d" % (c["fam"], c["n"])
        fam[key] = fam.get(key, 0) + 1
        if c["k"] == "smat":
            sing["scaled:sexp=%d" % c["sexp"]] = sing.get("scaled:sexp=%d" % c["sexp"], 0) + 1
            continue
        if c["k"] == "gmat":
            # pivot-search patterns of the graded column (first column, physical row order): a tiny diagonal
            # candidate, then either a LARGER TINY entry after the big one ("last exceeding the diagonal" would
            # take it) or before the big one ("first exceeding" would take it)
            if c["g"] == 1:
                col = [(abs(c["m"][i][0]) * 2.0 ** c["e"][i][0], c["e"][i][0] != 0) for i in range(c["n"])]
                if col[0][1]:
                    big = next(i for i, v in enumerate(col) if not v[1])
                    if any(v[1] and v[0] > col[0][0] for v in col[big + 1:]):
                        sing["graded:last_exceeding"] = sing.get("graded:last_exceeding", 0) + 1
                    if any(v[1] and v[0] > col[0][0] for v in col[1:big]):
                        sing["graded:first_exceeding"] = sing.get("graded:first_exceeding", 0) + 1
            else:
                sing["graded:later_column"] = sing.get("graded:later_column", 0) + 1
            continue
        sing[c["sing"]] = sing.get(c["sing"], 0) + 1
        ntri += c["tri"]
        nspd += c["spd"]
        for s in c["subs"]:
            if c["n"] == 4:
                masks4.add("".join("1" if b else "0" for b in s["m"]))
            if s["devinv"]:
                nonprefix += 1
            sing["sub:" + s["sing"]] = sing.get("sub:" + s["sing"], 0) + 1
        if sample is None and c["fam"] == "q4":
            sample = c
    return fam, sing, masks4, ntri, nspd, nonprefix, sample


def mechanism(ctx, t):
    """GaussJordanPerm: the fixed variant must satisfy Unpermuted for every pivot
    sequence and mask (and prints the pivot cases); the pre-fix variant must be
    refuted with the pivot order of the wrong inverse."""
    out = ctx.path("gjp-cases.ndjson")
    res = ctx.tlc("GaussJordanPerm", "GaussJordanPerm.cfg", workers=4, timeout=900, label="gjperm", json_out=out,
                  consts={"N": str(t["gjp_n"]), "Buggy": "FALSE", "AllMasks": "TRUE", "EmitCases": "TRUE"})
    if res.json_count == 0:
        raise vlib.Infra("GaussJordanPerm printed no pivot case")
    bug = ctx.tlc("GaussJordanPerm", "GaussJordanPerm.cfg", workers=1, timeout=300, label="gjperm-buggy",
                  allow_violation=True, count_stats=False,
                  consts={"N": "3", "Buggy": "TRUE", "AllMasks": "FALSE", "EmitCases": "FALSE"})
    log = open(bug.log).read()
    if "Unpermuted" not in bug.violated or not re.search(r"p = <<3, 1, 2>>", log):
        raise vlib.Infra("vacuity: TLC did not refute the pre-fix un-permutation (violated=%s)" % bug.violated)
    ctx.extra["mechanism"] = {"fixed_variant_states": res.distinct, "pivot_cases": res.json_count,
                              "prefix_variant_refuted_with": "p = <<3,1,2>> (0-based (2,0,1)), N = 3"}
    return out, res.json_count


def record_and_validate(ctx, binary, nrec, seed, tag):
    trace = ctx.path("linsolve_trace-%s.ndjson" % tag)
    ctx.run([binary, "record", trace, str(nrec)], env={"VERIF_SEED": str(seed)}, timeout=1200)
    events = vlib.read_ndjson(trace)
    if any(e.get("kind") == "mismatch" for e in events):
        for e in events:
            if e.get("kind") == "mismatch":
                ctx.violation(e["sig"], dict(e["detail"], mode="record", seed=seed, nrec=nrec))
        events = [e for e in events if "kind" not in e]
        with open(trace, "w") as f:
            for e in events:
                f.write(json.dumps(e) + "\n")
    ok, bad, why = vlib.validate_trace(ctx, "LinSolveTrace", "LinSolveTrace.cfg", "linsolve_trace.ndjson", trace,
                                       timeout=1800, label="trace-" + tag)
    return trace, events, ok, bad, why


def reentrancy_model(ctx):
    """spec/Reentrancy.tla: 'a routine is a function of its arguments and its caller-supplied work space only'.
    TLC proves it for call-owned temporaries under every interleaving and must refute the variant with a hidden
    shared accumulator (vacuity control); sequential schedules alone do not expose that variant."""
    ctx.sany("Reentrancy")
    ctx.tlc("Reentrancy", "Reentrancy.cfg", workers=1, timeout=120, label="reentrancy",
            consts={"Shared": "FALSE", "Sequential": "FALSE"})
    bad = ctx.tlc("Reentrancy", "Reentrancy.cfg", workers=1, timeout=120, label="reentrancy-shared", allow_violation=True,
                  count_stats=False, consts={"Shared": "TRUE", "Sequential": "FALSE"})
    seq = ctx.tlc("Reentrancy", "Reentrancy.cfg", workers=1, timeout=120, label="reentrancy-shared-seq", count_stats=False,
                  consts={"Shared": "TRUE", "Sequential": "TRUE"})
    if "FunctionOfArguments" not in bad.violated or not seq.ok:
        raise vlib.Infra("vacuity: Reentrancy.tla did not separate the shared-accumulator variant (violated=%s)" % bad.violated)
    ctx.extra["reentrancy_model"] = "call-owned temporaries: holds under every interleaving; hidden shared accumulator: refuted " \
                                    "by TLC, invisible under sequential schedules"


def reentrant(ctx, t):
    """The equations of the property hold for every call, whatever else the process is doing: run the recorder
    from 8 goroutines concurrently (every goroutine on its own random inputs, DenseFloat64 paths) with a -race
    build.  A data-race report or a wrong result (trace rejected) is a violation what=not_reentrant."""
    reentrancy_model(ctx)
    race = ctx.go_build("linalg", race=True)
    trace = ctx.path("linsolve_trace-conc.ndjson")
    per = t["record"] // 4
    rc, _, err, _ = ctx.run([race, "record", trace, str(per), "8"], timeout=1200, ok_codes=(0, 66),
                            env={"GORACE": "halt_on_error=0 exitcode=66"})
    sig = {"engine": "linalg", "op": "record", "type": "f64", "opts": "concurrent", "what": "not_reentrant"}
    nrace = (err or "").count("WARNING: DATA RACE")
    if rc == 66 or nrace:
        rep = (err or "")
        i = rep.find("WARNING: DATA RACE")
        ctx.violation(dict(sig, how="race_detector"), {"mode": "concurrent", "goroutines": 8, "calls_per_goroutine": per,
                                                      "reports": nrace, "first_report": rep[i:i + 2500]})
    events = [e for e in vlib.read_ndjson(trace) if "kind" not in e]
    with open(trace, "w") as f:
        for e in events:
            f.write(json.dumps(e) + "\n")
    if len(events) != 8 * per:
        raise vlib.Infra("concurrent recorder wrote %d of %d events" % (len(events), 8 * per))
    ok, bad, why = vlib.validate_trace(ctx, "LinSolveTrace", "LinSolveTrace.cfg", "linsolve_trace.ndjson", trace,
                                       timeout=1800, label="trace-concurrent")
    if not ok:
        e = events[bad - 1] if bad and bad <= len(events) else None
        ctx.violation(dict(sig, how="wrong_result"), {"mode": "concurrent", "goroutines": 8, "rejected_at": bad, "reason": why, "event": e})
    else:
        ctx.traces += len(events)
    ctx.extra["reentrancy_probe"] = {"goroutines": 8, "calls": len(events), "race_reports": nrace, "trace_accepted": ok}


def run(ctx):
    t = TIERS[ctx.tier]
    for m in ("LinSolve", "GaussJordanPerm", "LinSolveTrace"):
        ctx.sany(m)
    # 1. mechanism layer
    gjp_cases, ngjp = mechanism(ctx, t)
    # 2. contract layer: enumerate, verify the defining equations, print the oracle
    cases = ctx.path("cases.ndjson")
    res = ctx.tlc("LinSolve", "LinSolve.cfg", workers=8, timeout=3000, label="cases", json_out=cases,
                  consts=gen_consts(ctx, t), heap="4g")
    fam, sing, masks4, ntri, nspd, nonprefix, sample = case_stats(cases)
    ctx.log("LinSolve: %d cases %s" % (res.json_count, json.dumps(fam, sort_keys=True)))
    # vacuity: the interesting classes really occur
    need = ["g1", "g2", "g3", "pd3", "p44", "q44", "tr3", "tr4", "sym3", "sym4", "gr3", "gr4", "st5", "st12", "st40", "sd12", "sd40", "spd1", "spd2", "spd3", "spd4"]
    missing = [k for k in need if fam.get(k, 0) == 0]
    if missing or fam.get("p44") != 24 * 81 or fam.get("pd3") != 48 or fam.get("g2") != 625:
        raise vlib.Infra("vacuity: families missing or incomplete: %s %s" % (missing, fam))
    for cls in ("none", "zero_row", "zero_col", "equal_rows", "other", "sub:zero_row", "sub:none",
                "graded:last_exceeding", "graded:first_exceeding", "graded:later_column",
                "scaled:sexp=-70", "scaled:sexp=70", "scaled:sexp=-27"):
        if sing.get(cls, 0) == 0:
            raise vlib.Infra("vacuity: no case of singularity class " + cls)
    if len(masks4) != 14 or nonprefix == 0 or ntri == 0 or nspd == 0:
        raise vlib.Infra("vacuity: masks4=%d nonprefix=%d tri=%d spd=%d" % (len(masks4), nonprefix, ntri, nspd))
    # 3. the real routines on every case
    binary = ctx.go_build("linalg")
    total, mism = run_driver(ctx, binary, "c04", cases, "c04", procs=t["procs"])
    report(ctx, mism, "replay")
    total2, mism2 = run_driver(ctx, binary, "c04", gjp_cases, "gjp", procs=2)
    report(ctx, mism2, "replay")
    ctx.log("replayed %d + %d cases, %d checks, %d mismatch records" % (
        total["cases"], total2["cases"], total["checks"] + total2["checks"], len(mism) + len(mism2)))
    if total["cases"] != res.json_count or total2["cases"] != ngjp:
        if not any(r["sig"].get("what") == "timeout" for r in mism + mism2):
            raise vlib.Infra("driver replayed %d of %d cases" % (total["cases"], res.json_count))
    if sample is not None:
        s = dict(sample)
        s["subs"] = s["subs"][:1]
        ctx.sample({"replayed_case": s})
    # 4. recorded calls on larger random matrices validated by the trace specification
    trace, events, ok, bad, why = record_and_validate(ctx, binary, t["record"], ctx.seed, "rec")
    ctx.log("recorded %d events: %s" % (len(events), "accepted" if ok else "REJECTED at %s (%s)" % (bad, why)))
    if ok:
        ctx.traces += len(events)
        e = dict(events[0])
        ctx.sample({"recorded_event": e})
    else:
        e = events[bad - 1] if bad and bad <= len(events) else None
        ctx.violation({"engine": "linalg", "op": e["e"] if e else "?", "type": e["ty"] if e else "?",
                       "opts": "record", "what": "trace_rejected", "cls": e["cls"] if e else "?"},
                      {"mode": "record", "seed": ctx.seed, "nrec": t["record"], "rejected_at": bad, "reason": why, "event": e})
    # 5. binding self-test: corrupted observations must be rejected
    if ok:
        def corrupt(pred, mut, label):
            evs = [dict(x) for x in events[:200]]
            idx = next((i for i, x in enumerate(evs) if pred(x) and i > 3), None)
            if idx is None:
                raise vlib.Infra("self-test: no event for " + label)
            mut(evs[idx])
            p = ctx.path("linsolve_trace-corrupt.ndjson")
            with open(p, "w") as f:
                for x in evs:
                    f.write(json.dumps(x) + "\n")
            ok2, bad2, _ = vlib.validate_trace(ctx, "LinSolveTrace", "LinSolveTrace.cfg", "linsolve_trace.ndjson", p,
                                               label="selftest-" + label)
            if ok2 or bad2 != idx + 1:
                raise vlib.Infra("vacuous binding: corrupted trace (%s) accepted=%s at=%s want=%s" % (label, ok2, bad2, idx + 1))
            return idx + 1
        a = corrupt(lambda x: x["e"] == "inv" and x["cls"] == "dominant", lambda x: x.update(resid=False), "resid")
        b = corrupt(lambda x: x["e"] == "det", lambda x: x.update(val=x["val"] + 1), "det")
        c = corrupt(lambda x: x["e"] in ("inv", "solve") and x["cls"] == "singular",
                    lambda x: x.update(err=False, panic=False, hasres=True, shape=True, finite=True), "singular")
        ctx.extra["binding_selftest"] = ("flipped residual rejected at event %d, determinant off by one rejected at event %d, "
                                        "finite result on structurally singular input rejected at event %d" % (a, b, c))
    # 6. re-entrancy probe: the recorded direction from 8 goroutines at once on independent inputs, race detector on
    reentrant(ctx, t)
    ctx.extra["replay"] = {"cases": total["cases"] + total2["cases"], "checks": total["checks"] + total2["checks"],
                           "families": fam, "singularity_classes": sing, "outcomes_on_singular": total["counts"]}
    ctx.extra["bounds"] = {"tier_constants": t, "element_types": ["Float64", "Float32", "Real64", "Real32"],
                           "entries": "n<=2: -2..2; n=3: {-1,0,1,2}; n=4: permutation x {1,2,-1} diagonal (+ dense perturbation), "
                                      "triangular, SPD from integer L",
                           "graded": "A = B0 + E, B0 integer, E = mant * 2^-(40+3t) in one column, all row orders (gr3 all, gr4 slice); "
                                     "oracle Inv(B0) + slack 2||B0^-1||^2||E|| (perturbation lemma, hypothesis delta <= 2^-20 checked by TLC) "
                                     "and the residuals |A X - I|, |A x - b|",
                           "rhs": "e_k, (1,..,1), (1,2,..,n)", "masks": "all for n<=3, all 14 across cases for n=4",
                           "tolerance": "|x - p/q| <= 1e-9 (1+|p/q|) kappa (64 bit), 1e-4 (32 bit); buffers: 16 u kappa",
                           "record": {"events": len(events), "n": "5..8", "entries": "-3..3 (+ dominant pivots)"}}
    ctx.traces += total["cases"] + total2["cases"]
    return ctx.finish(
        rule="one case per matrix printed by TLC from LinSolve.tla (families g/pd/p4/q4/tr/spd, complete or a seeded slice) and "
             "per terminal state of GaussJordanPerm.tla; each case is run through matrixInverse, gaussJordan, backSubstitution "
             "and determinant for 4 element types and every applicable option combination and compared with the exact "
             "rationals; plus recorded calls on random 5..8 matrices accepted by LinSolveTrace.tla; a case is distinct by "
             "(family, n, index)",
        evaluations=total["checks"] + total2["checks"] + len(events),
        distinct_nontrivial=total["cases"] + total2["cases"], exhaustive=(t["Full"] == "TRUE"))


def replay(ctx, path):
    with open(path) as f:
        v = json.load(f)
    d = v["detail"]
    binary = ctx.go_build("linalg")
    if d.get("mode") == "record":
        trace, events, ok, bad, why = record_and_validate(ctx, binary, d["nrec"], d["seed"], "replay")
        if not ok:
            e = events[bad - 1] if bad and bad <= len(events) else None
            ctx.violation(v["signature"], dict(d, rejected_at=bad, reason=why, event=e))
    else:
        cases = ctx.path("case.ndjson")
        with open(cases, "w") as f:
            f.write(json.dumps(d["case"]) + "\n")
        total, mism = run_driver(ctx, binary, "c04", cases, "replay", procs=1)
        report(ctx, mism, "replay")
    return ctx.finish(rule="replay of one recorded violation", evaluations=1, distinct_nontrivial=1)


MANIFEST = {
    "engine": "linalg",
    "spec": "spec/LinSolve.tla",
    "engine_text": "LinSolve.tla (contract over exact rationals: Det, Adj, Inv, Cramer, kappa, structural singularity; case "
                   "generator), GaussJordanPerm.tla (mechanism: pivot book-keeping of gaussJordan against the interchange "
                   "semantics of PermuteRows, pre-fix variant kept behind Buggy = TRUE), LinSolveTrace.tla (trace validation); "
                   "Go driver harness/cmd/linalg",
    "technique": "TLA+ contract evaluated exactly by TLC on exhaustively enumerated small integer matrices, every printed case "
                 "replayed on the real routines for all element types and option combinations; mechanism model of the pivoting "
                 "checked by TLC and bound to the code through its terminal states; recorded calls validated by a trace spec",
    "text": "TLC enumerates all integer matrices with entries -2..2 up to 2x2, all (thorough) or a seeded slice (quick) of the "
            "262144 3x3 matrices over {-1,0,1,2}, every 4x4 permutation x {1,2,-1}-diagonal matrix with and without a dense "
            "perturbation (every pivot order), triangular, symmetric indefinite and SPD families, and a graded family (one column "
            "holding entries of size 2^-40..2^-46 next to one ordinary entry, in every row order, printed as mantissa and exponent; "
            "expected inverse = exact inverse of the ungraded matrix up to a slack justified by a perturbation bound whose "
            "hypothesis TLC checks, plus the residual equations), verifies A adj(A) = det(A) I and Cramer's rule on "
            "each, and prints determinant, inverse, solutions, condition proxy and singularity class as exact rationals. The "
            "driver runs matrixInverse (default, PositiveDefinite, UpperTriangular, every Submatrix mask, fresh/dirty/re-used "
            "InSitu buffers), gaussJordan (generic and DenseFloat64 variants, masks, triangular, right-hand sides e_k, ones, "
            "ramp), backSubstitution and determinant (+ PositiveDefinite, LogScale) on Float64/Float32/Real64/Real32 and "
            "compares with |x - p/q| <= 1e-9 (1+|p/q|) kappa; structurally singular input must give error, panic or non-finite "
            "output; buffer options must not change results. Bounded model checking plus conformance, not a proof for larger n.",
    "level_note": "The re-entrancy probe (8 goroutines, -race build) and the residual booleans of the recorded direction and of the "
                  "graded family are computed by the Go driver (projection); everything else is compared with values printed by TLC.",
    "note": "Trusted: TLC, CommunityModules Json, Rat.tla, the Go driver's comparison code, Go's math.Log for the log-determinant "
            "term. The PositiveDefinite + non-prefix Submatrix combination is a known finding with a deviation model (devinv).",
    "design_ref": "DESIGN.md section 5 (C04), section 4 (LinSolve, GaussJordanPerm), appendix A.8",
}
