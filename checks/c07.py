"""C07 - optimisers and root finders return points that meet their stopping condition.

contract      : spec/OptimizerSkeleton.tla - an iterative routine as an abstract machine over opaque
                identities, seen only through the callbacks its caller supplies (objective, hook,
                constraints) and its return: hook arguments = latest evaluation at the hook's point; a
                return without error is feasible, leaves the start alone and is justified by a hook
                stop, the iteration cap, or the stopping condition holding at the returned point (then
                near the exactly known minimiser on strongly convex objectives).  TLC model-checks the
                contract over all environment choices (OptimizerSkeleton_MC).
model -> code : spec/Quadratics.tla - objective families with exact optima (SPD quadratics with
                x* = adj(A) b / det A as rationals, separable convex, symmetric logistic losses,
                Rosenbrock, polynomial systems with planted roots, symmetric channels); TLC checks the
                optimality certificates and prints every case with start points, constraint sets and
                option combinations.
code -> model : harness/cmd/optim runs the real routines (bfgs, newton root/crit/min x Hessian
                modification, rprop, rprop gradient, gradient descent, adam, adam gradient, saga x 4
                objective interfaces, line search, blahut, blahut naive) on the printed cases with
                recording closures; spec/OptimizerTrace.tla validates every run against the contract
                and prints one record per run that is not a behaviour of it.
"""
import collections
import json
import os

import vlib

LEVEL = "model_checking"
TIERS = {
    "quick": dict(cases="Quadratics.cfg", target=200, skeleton={"MaxEvents": "4"}, chunk=120000),
    "thorough": dict(cases="Quadratics_thorough.cfg", target=1500, skeleton={"MaxEvents": "9"}, chunk=150000),
}
# routines that must show a return justified by their stopping condition alone (vacuity)
MUST_STOP = ["bfgs", "newton.root", "newton.crit", "newton.min", "rprop", "rprop.gradient", "gradientDescent",
             "adam", "saga", "lineSearch"]
ALL_ROUTINES = MUST_STOP + ["adam.gradient", "blahut", "blahut.naive"]


# mechanism layer (spec/OptimizerMech.tla): transcription -> (cfg, invariant expected to be violated or None)
MECH = [("rprop", "OptimizerMech.cfg", None), ("rpropg_fixed", "OptimizerMech.cfg", None), ("adam_fixed", "OptimizerMech.cfg", None),
        ("newton", "OptimizerMech.cfg", None),
        ("bfgs", "OptimizerMech_feasible.cfg", "FeasibleReturnMech"),
        ("rpropg_orig", "OptimizerMech_hook.cfg", "HookFaithfulMech"),
        ("adam_orig", "OptimizerMech_feasible.cfg", "FeasibleReturnMech")]
MECH_THOROUGH = [("bfgs", "OptimizerMech_justified.cfg", None), ("bfgs", "OptimizerMech_hook.cfg", None),
                 ("rpropg_orig", "OptimizerMech_justified.cfg", "JustifiedReturnMech"),
                 ("adam_orig", "OptimizerMech_hook.cfg", None), ("adam_orig", "OptimizerMech_justified.cfg", None)]


def mechanism_layer(ctx):
    """TLC checks that the transcribed control flow of the routines refines the contract; the transcriptions of
    the code before the fixes and of BFGS must be rejected in exactly the clause the real code violates."""
    table = MECH + (MECH_THOROUGH if ctx.tier == "thorough" else [])
    consts = {"MaxPoints": "5", "Cap": "3"} if ctx.tier == "thorough" else {}
    out = {}
    for routine, cfg, expect in table:
        c = dict(consts)
        c["Routine"] = '"%s"' % routine
        r = ctx.tlc("OptimizerMech", cfg, workers=2, timeout=600, consts=c, label="mech-%s-%s" % (routine, cfg[14:-4] or "all"),
                    allow_violation=True)
        got = r.violated[0] if r.violated else None
        if (not r.ok and not r.violated) or got != expect:
            raise vlib.Infra("mechanism layer: %s with %s: expected %s, TLC says %s %s" % (routine, cfg, expect, got, r.errors[:2]))
        out["%s/%s" % (routine, cfg[14:-4] or "refines")] = "refines the contract" if expect is None else "counterexample: " + expect
    ctx.extra["mechanism_layer"] = out


def gen_cases(ctx, tier):
    cases = ctx.path("optim-cases-%s.ndjson" % tier)
    res = ctx.tlc("Quadratics", TIERS[tier]["cases"], workers=4, timeout=1500, json_out=cases, label="cases")
    if res.json_count < 50:
        raise vlib.Infra("too few cases printed by Quadratics.tla")
    # the line-search family on both sides of every acceptance boundary of the strong Wolfe conditions
    wolfe = ctx.path("optim-wolfe-%s.ndjson" % tier)
    res2 = ctx.tlc("WolfeCases", "WolfeCases.cfg", workers=2, timeout=600, json_out=wolfe, label="wolfe-cases")
    routes = collections.Counter()
    hermite = collections.Counter()
    with open(cases, "a") as f, open(wolfe) as g:
        for line in g:
            c = json.loads(line)
            routes[(c["form"], tuple(c["classes"][:2]))] += 1
            if c["form"] == "hermite":
                hermite[(c["wolfe_at_trial"], c["wrong_ref_accepts"])] += 1
            f.write(line)
    # vacuity: the boundary situations the family exists for are really among the printed cases
    need = [("mono", ("weakonly",)), ("mono", ("short", "weakonly")), ("mono", ("short", "wolfe")), ("mono", ("noarmijo",)),
            ("mono", ("wolfe",)), ("window", ("noarmijo", "noarmijo")), ("window", ("noarmijo", "wolfe"))]
    for form, prefix in need:
        if not any(k[0] == form and k[1][:len(prefix)] == prefix for k in routes):
            raise vlib.Infra("WolfeCases: no %s case whose trial steps start with %s" % (form, prefix))
    # non-convex Hermite cases: the zoom trial step must come out on every side of the two reference slopes
    for k in ((True, True), (False, True), (False, False)):
        if hermite[k] == 0:
            raise vlib.Infra("WolfeCases: no hermite case with (strong Wolfe at the zoom trial, accepted against the wrong reference) = %s" % (k,))
    if not any(k[0] == "nonconvex" for k in routes):
        raise vlib.Infra("WolfeCases: no nonconvex case")
    ctx.extra["wolfe_cases"] = {"%s:%s" % (k[0], ">".join(k[1])): v for k, v in sorted(routes.items())}
    return cases, res.json_count + res2.json_count


def drive(ctx, binary, cases, tag, env=None):
    """Run the driver; restart after a watchdog abort / fatal crash.  Returns (records, trace path)."""
    trace = ctx.path("optim_trace-%s.ndjson" % tag)
    open(trace, "w").close()
    records = []
    start, run_off, restarts = 0, 0, 0
    while True:
        part = ctx.path("optim-res-%s-%d.ndjson" % (tag, start))
        tpart = ctx.path("optim-tr-%s-%d.ndjson" % (tag, start))
        e = {"OPTIM_START": str(start), "OPTIM_RUN_OFFSET": str(run_off)}
        if env:
            e.update(env)
        rc, out, err, _ = ctx.run([binary, "run", cases, tpart, part], timeout=3000, env=e, ok_codes=tuple(range(256)))
        recs = []
        if os.path.exists(part):
            with open(part) as f:
                for line in f:
                    try:
                        recs.append(json.loads(line))
                    except ValueError:
                        pass            # a dying driver may leave a truncated last line
        records += recs
        runs_done = [r for r in recs if r.get("kind") == "run"]
        if os.path.exists(tpart):
            # keep complete runs only
            n_ev = sum(r["events"] for r in runs_done)
            with open(tpart) as f, open(trace, "a") as g:
                for i, line in enumerate(f):
                    if i >= n_ev:
                        break
                    g.write(line)
        summ = [r for r in recs if r.get("kind") == "summary"]
        if rc == 0 and summ and "aborted" not in summ[-1]:
            break
        restarts += 1
        if restarts > 25:
            raise vlib.Infra("optim driver: more than 25 restarts")
        if summ and "aborted" in summ[-1]:
            start, run_off = summ[-1]["next_index"], summ[-1]["next_run_offset"]
            continue
        j = [r for r in recs if r.get("kind") == "journal"]
        if not j:
            raise vlib.Infra("optim driver died before the first run (rc=%s): %s" % (rc, (err or "")[-1500:]))
        last = j[-1]
        routine = last["key"].split("|")[0]
        ctx.violation({"engine": "optim", "routine": routine, "what": "fatal_crash"},
                      {"mode": "run", "key": last["key"], "seed": ctx.seed, "tier": ctx.tier, "stderr_tail": (err or "")[-1500:]})
        start, run_off = last["index"] + 1, last["run"]
    return records, trace


def validate(ctx, trace, label, chunk):
    """TLC trace validation in chunks cut at run boundaries.  Returns the rejection records."""
    rejections = []
    n_events = 0
    buf, size, parts = [], 0, []

    def flush():
        nonlocal buf, size
        if not buf:
            return
        p = ctx.path("optim_trace-%s-chunk%d.ndjson" % (label, len(parts)))
        with open(p, "w") as f:
            f.writelines(buf)
        parts.append((p, size))
        buf, size = [], 0

    with open(trace) as f:
        for line in f:
            if line.startswith('{"e":"begin"') and size >= chunk:
                flush()
            buf.append(line)
            size += 1
    flush()
    for i, (p, n) in enumerate(parts):
        jout = ctx.path("optim-rej-%s-%d.ndjson" % (label, i))
        res = ctx.tlc("OptimizerTrace", "OptimizerTrace.cfg", workers=1, timeout=3000, files={"optim_trace.ndjson": p},
                      json_out=jout, label="%s-%d" % (label, i), allow_violation=True, count_stats=False, heap="8g")
        ctx.states += res.distinct
        ctx.transitions += res.generated
        if not res.ok:
            raise vlib.Infra("OptimizerTrace did not consume the trace (%s): %s\n%s" % (p, res.errors[:3], vlib.tail_of(res.log, 25)))
        if res.distinct > n + 1 or res.distinct < 2:
            raise vlib.Infra("OptimizerTrace: %d states for %d events" % (res.distinct, n))
        rejections += vlib.read_ndjson(jout)
        n_events += n
    return rejections, n_events


def run_events(trace, first, n, limit=60):
    out = []
    with open(trace) as f:
        for i, line in enumerate(f, 1):
            if i >= first + n:
                break
            if i >= first and len(out) < limit:
                out.append(json.loads(line))
    return out


def report(ctx, rejections, runs, trace, mode="run"):
    by_run = {r["run"]: r for r in runs}
    # locate the events of the rejected runs in one pass
    want = {}
    for rj in rejections:
        r = by_run.get(rj["run"])
        if r is None:
            raise vlib.Infra("rejection for unknown run %s" % rj)
        want[rj["run"]] = []
    if want:
        with open(trace) as f:
            for line in f:
                # cheap pre-filter on the run id
                k = line.find('"run":')
                rid = int(line[k + 6:line.find(",", k)])
                if rid in want and len(want[rid]) < 40:
                    want[rid].append(json.loads(line))
    for rj in rejections:
        r = by_run[rj["run"]]
        sig = {"engine": "optim", "routine": r["routine"], "what": rj["why"], "cons": r["cons"], "family": r["family"]}
        if "optclass" in r:
            sig["optclass"] = r["optclass"]
        info = {k: v for k, v in r.items() if k not in ("kind",)}
        ctx.violation(sig, {"mode": mode, "key": r["key"], "seed": ctx.seed, "tier": ctx.tier, "rejected_event": rj["e"],
                            "why": rj["why"], "run_info": info, "events_prefix": want[rj["run"]]})


def selftest(ctx, trace, runs, rejected_ids):
    """Binding self-test: corrupt recorded fields of accepted runs; every corruption must be rejected
    with the expected clause, an untouched control run must be accepted."""
    good = [r for r in runs if r["run"] not in rejected_ids and r["outcome"] not in ("timeout", "abandoned")]

    def pick(pred):
        for r in good:
            if pred(r):
                return r
        return None

    hooked = pick(lambda r: r["routine"] in ("bfgs", "rprop", "adam", "gradientDescent", "newton.min") and r["nhooks"] >= 2 and r["events"] < 400)
    stop_only = pick(lambda r: r["outcome"] == "stop" and r["routine"] in MUST_STOP and r["routine"] != "lineSearch" and r["family"] in ("quad", "sepconv", "logistic")
                     and (r["maxit"] < 0 or r["nevals"] < r["maxit"]) and r["events"] < 400)
    cons_run = pick(lambda r: r["outcome"] in ("stop", "cap", "hook") and r["cons"] == "box" and r["routine"] in ("rprop", "rprop.gradient", "adam", "adam.gradient")
                    and r["ncons"] >= 4 and r["events"] < 400)
    control = pick(lambda r: r["outcome"] == "stop" and r["events"] < 200)
    if not (hooked and stop_only and cons_run and control):
        raise vlib.Infra("self-test: no suitable recorded run (hooked=%s stop_only=%s cons=%s)" % (bool(hooked), bool(stop_only), bool(cons_run)))
    need = {r["run"] for r in (hooked, stop_only, cons_run, control)}
    evs = collections.defaultdict(list)
    with open(trace) as f:
        for line in f:
            k = line.find('"run":')
            rid = int(line[k + 6:line.find(",", k)])
            if rid in need:
                evs[rid].append(json.loads(line))

    def variant(r, mutate):
        e = json.loads(json.dumps(evs[r["run"]]))
        mutate(e)
        return e

    def hook_grad(e):
        hs = [x for x in e if x["e"] == "hook"]
        hs[1]["g"] += 1000

    def stale_value(e):
        hs = [x for x in e if x["e"] == "hook"]
        hs[-1]["y"] += 1000

    def set_ret(field, value):
        def m(e):
            e[-1][field] = value
        return m

    def to_timeout(e):
        e[-1]["e"] = "timeout"

    def event_after_return(e):
        extra = dict(e[1])
        e.append(extra)

    tests = [("control", control, lambda e: None, None),
             ("hook gradient identity changed", hooked, hook_grad, "hook_args"),
             ("hook value identity changed", hooked, stale_value, "hook_args"),
             ("stopOK of a stop-justified return set to false", stop_only, set_ret("stopok", False), "stop_condition_fails"),
             ("nearMin of a stop-justified return set to false", stop_only, set_ret("nearmin", False), "stop_ok_but_far_from_minimiser"),
             ("start vector reported modified", stop_only, set_ret("startok", False), "start_modified"),
             ("returned point reported infeasible", cons_run, set_ret("consok", False), "return_violates_constraint"),
             ("return replaced by a timeout", control, to_timeout, "timeout"),
             ("callback after the return", control, event_after_return, "event_after_return")]
    path = ctx.path("optim_trace-selftest.ndjson")
    expect = {}
    with open(path, "w") as f:
        for i, (name, r, mut, why) in enumerate(tests, 1):
            e = variant(r, mut)
            for k, x in enumerate(e):
                x["run"] = i
                x["skip"] = len(e) - k
                f.write(json.dumps(x) + "\n")
            expect[i] = (name, why)
    rej, _ = validate(ctx, path, "selftest", 10 ** 9)
    got = {r["run"]: r["why"] for r in rej}
    for i, (name, why) in expect.items():
        if got.get(i) != why:
            raise vlib.Infra("vacuous binding: self-test '%s' expected %s, trace spec said %s" % (name, why, got.get(i)))
    return [name for name, _ in expect.values()][1:]


def run(ctx):
    t = TIERS[ctx.tier]
    ctx.sany("OptimizerTrace")
    # 1. the contract itself: every environment choice within the bounds
    res = ctx.tlc("OptimizerSkeleton_MC", "OptimizerSkeleton.cfg", workers=4, timeout=3000, consts=t["skeleton"], label="skeleton")
    ctx.log("contract model: %d distinct states, %d transitions, depth %d" % (res.distinct, res.generated, res.depth))
    mechanism_layer(ctx)
    # 2. the objective families with exact optima
    cases, ncases = gen_cases(ctx, ctx.tier)
    # 3. the real routines
    binary = ctx.go_build("optim")
    records, trace = drive(ctx, binary, cases, "main", env={"OPTIM_TARGET": str(t["target"])})
    runs = [r for r in records if r.get("kind") == "run"]
    summ = [r for r in records if r.get("kind") == "summary"][-1]
    abandoned = [r for r in runs if r["outcome"] == "abandoned"]
    if len(abandoned) > max(3, len(runs) // 50):
        raise vlib.Infra("%d of %d runs abandoned after 12000 callbacks (e.g. %s)" % (len(abandoned), len(runs), abandoned[0]["key"]))
    ctx.extra["abandoned_slow_runs"] = sorted(collections.Counter("%s/%s/%s" % (r["routine"], r["family"], r["cons"]) for r in abandoned).items())
    # 4. every run must be a behaviour of the contract
    rejections, nev = validate(ctx, trace, "trace", t["chunk"])
    ctx.log("%d cases, %d runs (universe %d), %d events; %d runs rejected" % (ncases, len(runs), summ["universe"], nev, len(rejections)))
    report(ctx, rejections, runs, trace)
    rejected_ids = {r["run"] for r in rejections}
    ctx.traces += len(runs) - len(rejected_ids) - len(abandoned)
    # 5. binding self-test
    ctx.extra["binding_selftest"] = selftest(ctx, trace, runs, rejected_ids)
    # 6. vacuity: the interesting outcomes really occur
    outcomes = collections.Counter((r["routine"], r["outcome"]) for r in runs)
    hooks = collections.Counter()
    cons = collections.Counter()
    for r in runs:
        hooks[r["routine"]] += r.get("nhooks", 0)
        cons[r["routine"]] += r.get("ncons", 0)
    for name in ALL_ROUTINES:
        n = sum(v for (rt, _), v in outcomes.items() if rt == name)
        if n == 0:
            raise vlib.Infra("vacuity: routine %s was never run" % name)
        if hooks[name] == 0:
            raise vlib.Infra("vacuity: no hook call recorded for %s" % name)
    for name in MUST_STOP:
        if outcomes[(name, "stop")] == 0:
            raise vlib.Infra("vacuity: no return of %s justified by its stopping condition" % name)
    for name in ("bfgs", "newton.crit", "newton.min", "newton.root", "rprop", "rprop.gradient", "adam", "adam.gradient", "lineSearch"):
        if cons[name] == 0:
            raise vlib.Infra("vacuity: the constraint callback of %s was never invoked" % name)
    per = collections.defaultdict(dict)
    for (rt, oc), v in sorted(outcomes.items()):
        per[rt][oc] = v
    ctx.extra["outcomes_per_routine"] = per
    ctx.extra["events"] = nev
    ctx.extra["runs"] = len(runs)
    ctx.extra["run_universe"] = summ["universe"]
    ctx.extra["cases"] = ncases
    ctx.extra["bounds"] = {"cases_cfg": t["cases"], "runs_per_routine_target": t["target"], "skeleton": t["skeleton"],
                           "epsilon": ["1e-6", "1e-10", "adam: 10^-(e/3)"], "maxit": ["3", "routine specific large cap"],
                           "hook": ["none", "never stops", "stops at call 1", "stops at call 3"],
                           "constraints": ["none", "box containing optimum", "half-space excluding optimum"],
                           "event_cap_per_run": 12000, "watchdog_s": 15}
    for r in runs:
        if r["outcome"] == "stop" and r["routine"] == "bfgs":
            ctx.sample({"run": {k: r[k] for k in ("key", "routine", "family", "outcome", "nevals", "nhooks", "dist", "eps") if k in r}})
            break
    with open(cases) as f:
        ctx.sample({"case": json.loads(f.readline())})
    ctx.assumptions += [
        "objectives are sampled from the printed families (all members within the bounds); 'all smooth objectives' is not reachable",
        "the iteration cap justifies a return as soon as the number of objective evaluations reaches it (sound, never a false alarm; weaker than the routine's own counter)",
        "Blahut has a fixed number of steps: its returns are checked against the Arimoto rate bound I(p_N) >= C - D(p*||p0)/N instead of a stopping condition",
        "Newton with HessianModification Eigenvalue panics in every run that needs a step (qrAlgorithm called without ComputeU); a panic is an error outcome, so the option is effectively unexplored",
        "a run that exceeds 12000 callbacks while repeating the same two points, or 15 s wall time, is reported with what=timeout; a run that "
        "exceeds 12000 callbacks while still visiting new points is abandoned without verdict (slow convergence; non-termination is property C20)",
    ]
    return ctx.finish(
        rule="TLC prints every member of the objective families within the bounds (exhaustive); a run = (case, start point, routine, variant, "
             "option combination), the quick tier takes a seeded sample of about %d runs per routine from the full product; each run is one "
             "trace validated against the contract" % t["target"],
        evaluations=len(runs), distinct_nontrivial=len(runs), exhaustive=False)


def replay(ctx, path):
    with open(path) as f:
        v = json.load(f)
    d = v["detail"]
    tier = d.get("tier") or v.get("tier") or "quick"
    ctx.sany("OptimizerTrace")
    cases, _ = gen_cases(ctx, tier)
    binary = ctx.go_build("optim")
    records, trace = drive(ctx, binary, cases, "replay", env={"OPTIM_ONLY": d["key"], "VERIF_SEED": str(d.get("seed", ctx.seed))})
    runs = [r for r in records if r.get("kind") == "run"]
    rejections, nev = validate(ctx, trace, "replay", 10 ** 9)
    report(ctx, rejections, runs, trace)
    ctx.traces += len(runs)
    return ctx.finish(rule="replay of one recorded run", evaluations=len(runs), distinct_nontrivial=max(2, nev))


MANIFEST = {
    "engine": "optim",
    "spec": "spec/OptimizerSkeleton.tla",
    "engine_text": "OptimizerSkeleton.tla (contract of an iterative routine over opaque identities) + OptimizerSkeleton_MC.tla (all "
                   "environment choices), OptimizerTrace.tla (trace validation, one rejection record per run that is not a behaviour), "
                   "Quadratics.tla (objective families with exact rational optima and certificates); Go driver harness/cmd/optim",
    "technique": "TLA+ contract model-checked by TLC; TLC-enumerated objective families with exact optima replayed on the real optimisers; "
                 "every run recorded through the user-supplied callbacks and validated by a TLC trace specification",
    "text": "Every run of bfgs, newton (root/crit/min), rprop (both interfaces), gradient descent, adam (both interfaces), saga (four "
            "objective interfaces), line search and Blahut-Arimoto (both variants) on TLC-printed objectives with exactly known optima must "
            "be a behaviour of the contract: hook arguments are the latest evaluation at the hook's point, no event follows a hook stop or "
            "the return, a return without error is feasible, leaves the start vector unmodified and is justified by a hook stop, the "
            "iteration cap, or the documented stopping condition re-evaluated at the returned point (plus distance to the exact minimiser "
            "on strongly convex objectives). Objectives and options are sampled from bounded families.",
    "note": "Trusted: TLC, Json module, Rat.tla, the driver's projection (re-evaluation of the original objective, float64 identity maps). "
            "The cap rule uses the number of objective evaluations as the iteration counter.",
    "design_ref": "DESIGN.md section 5 (C07), section 4 (OptimizerSkeleton)",
}
