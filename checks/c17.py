"""C17 - parallel estimation is schedule independent and race free.

model        : spec/ParallelEM.tla - the EM / Baum-Welch step on the thread pool
               (bounded channel, inline execution when the buffer is full, main thread
               working inside Wait, per-thread accumulator slots with lazy reset, merge of
               the used slots); TLC checks every interleaving of a family of pool shapes:
               exactly-once, merge-after-jobs, no stale contribution, termination under
               weak fairness; three vacuity witnesses must be reachable.
code -> model: the real estimators run on real pools with the verif hooks of
               statistics/generic recording start/end/merge events (seeded delays in the
               hook diversify schedules); spec/ParallelEMTrace.tla must explain every
               recorded schedule as a behaviour of ParallelEM (silent pool actions composed
               between events) and balance the likelihood ledger.
differential : every scenario on pools of 2..8 threads vs the sequential run; binary built
               with -race, race reports and deadlocks are observations the model never allows.
"""
import glob
import json
import os
import re

import vlib

LEVEL = "model_checking"
RUNS = {"quick": (96, 380), "thorough": (2400, 11400)}


def drive(ctx, binary, ntrace, ndiff, tag, extra_env=None):
    results = ctx.path("pool-results-%s.ndjson" % tag)
    trace = ctx.path("pool_trace-%s.ndjson" % tag)
    racelog = ctx.path("race-%s" % tag)
    all_records = []
    start = 0
    crashes = 0
    while True:
        env = {"GORACE": "log_path=%s halt_on_error=0 exitcode=0" % racelog, "POOL_START": str(start)}
        if extra_env:
            env.update(extra_env)
        part = ctx.path("pool-part-%s-%d.ndjson" % (tag, start))
        tpart = ctx.path("pool-tpart-%s-%d.ndjson" % (tag, start))
        rc, out, err, _ = ctx.run([binary, "run", part, tpart, str(ntrace), str(ndiff)], timeout=3000,
                                  env=env, ok_codes=tuple(range(0, 256)))
        recs = vlib.read_ndjson(part) if os.path.exists(part) else []
        # a dying driver leaves a possibly truncated last line: read_ndjson would have raised; be lenient
        all_records += recs
        if os.path.exists(tpart):
            with open(trace, "a") as f:
                # keep only complete runs: events after the last 'finish' of a crashed process are dropped
                lines = open(tpart).read().splitlines()
                if rc != 0:
                    last = max([i for i, l in enumerate(lines) if '"e":"finish"' in l] + [-1])
                    lines = lines[:last + 1]
                for l in lines:
                    f.write(l + "\n")
        if rc == 0 and any(r.get("kind") == "summary" for r in recs):
            break
        # the process died: attribute to the journalled run
        j = [r for r in recs if r.get("kind") == "journal"]
        if not j:
            raise vlib.Infra("pool driver died before the first run (rc=%s): %s" % (rc, (err or "")[-1500:]))
        lastj = j[-1]
        if lastj["stage"] == "seq":
            raise vlib.Infra("pool driver died in a SEQUENTIAL run %s (rc=%s): %s" % (lastj["config"], rc, (err or "")[-1500:]))
        crashes += 1
        ctx.violation({"engine": "pool", "what": "crash_in_parallel_run", "scenario": lastj["config"]["scenario"]},
                      {"mode": "config", "config": lastj["config"], "stderr_tail": (err or "")[-1500:]})
        start = lastj["index"]
        if crashes > 5:
            break
    return all_records, trace, racelog


def run(ctx):
    tier = ctx.tier
    ctx.sany("ParallelEMTrace")
    # 1. the model: all interleavings of a family of pool shapes
    cfg = "ParallelEM.cfg" if tier == "quick" else "ParallelEM_thorough.cfg"
    res = ctx.tlc("ParallelEM_MC", cfg, workers=8, timeout=3400, label="model")
    ctx.log("ParallelEM model: %d distinct states, %d transitions" % (res.distinct, res.generated))
    for v in ("NeverInline", "NeverMainWorks", "NeverStaleUnused"):
        r = ctx.tlc("ParallelEM_MC", "ParallelEM_vac_%s.cfg" % v, workers=4, timeout=300, label="vac-" + v,
                    allow_violation=True, count_stats=False)
        if v not in r.violated:
            raise vlib.Infra("vacuity: %s is not reachable in ParallelEM" % v)
    # nested job groups (Emissions -> Estimate on the same pool from a worker thread)
    rn = ctx.tlc("PoolNested", "PoolNested.cfg", workers=4, timeout=900, label="nested")
    ctx.log("PoolNested model: %d distinct states" % rn.distinct)
    rv = ctx.tlc("PoolNested", "PoolNested_vac.cfg", workers=4, timeout=300, label="nested-vac", allow_violation=True, count_stats=False)
    if "NoReentrancy" not in rv.violated:
        raise vlib.Infra("vacuity: re-entrant outer frames are not reachable in PoolNested")
    ctx.extra["vacuity"] = "inline execution by main, main working inside Wait and stale slots of unused threads are all reachable in the model"
    # 2. the real code
    binary = ctx.go_build("pool", race=True)
    ntrace, ndiff = RUNS[tier]
    records, trace, racelog = drive(ctx, binary, ntrace, ndiff, "main")
    summary = [r for r in records if r.get("kind") == "summary"]
    for r in records:
        if r.get("kind") == "mismatch":
            r["detail"]["mode"] = "config"
            ctx.violation(r["sig"], r["detail"])
    races = report_races(ctx, racelog)
    # 3. every recorded schedule must be a behaviour of the model
    truns = [r for r in records if r.get("kind") == "trace_run"]
    nev = sum(1 for _ in open(trace)) if os.path.exists(trace) else 0
    if nev == 0:
        raise vlib.Infra("no hook events recorded (hooks not compiled in?)")
    ok, bad, why = vlib.validate_trace(ctx, "ParallelEMTrace", "ParallelEMTrace.cfg", "pool_trace.ndjson", trace,
                                       timeout=3000, label="trace", dfs=True)
    ctx.log("recorded %d events of %d runs: %s" % (nev, len(truns), "accepted" if ok else "REJECTED at %s (%s)" % (bad, why)))
    if ok:
        ctx.traces += len(truns)
    else:
        events = vlib.read_ndjson(trace)
        # which run does the rejected event belong to?
        begins = [i for i, e in enumerate(events, 1) if e["e"] == "begin" and e["first"]]
        b0 = max([b for b in begins if b <= (bad or 1)] + [1])
        b1 = min([b for b in begins if b > (bad or 1)] + [len(events) + 1])
        idx = begins.index(b0) if b0 in begins else 0
        cfgrec = truns[idx]["config"] if idx < len(truns) else None
        ctx.violation({"engine": "pool", "what": "schedule_rejected",
                       "scenario": cfgrec["scenario"] if cfgrec else "?"},
                      {"mode": "config", "config": cfgrec, "reason": why, "rejected_event_index_in_run": (bad or 0) - b0 + 1,
                       "run_events": events[b0 - 1:b1 - 1][:400]})
    # 4. binding self-test
    if ok:
        events = vlib.read_ndjson(trace, limit=600)
        ends = [i for i, e in enumerate(events) if e["e"] == "end"]
        merges = [i for i, e in enumerate(events) if e["e"] == "merge" and e["t"] >= 1]
        if len(ends) < 6 or len(merges) < 2:
            raise vlib.Infra("self-test: too few events")
        for name, mutate in (("likelihood of one contribution changed", lambda ev: ev[ends[5]].__setitem__("lik", ev[ends[5]]["lik"] + 40)),
                             ("one merge event dropped", lambda ev: ev.pop(merges[1]))):
            ev2 = json.loads(json.dumps(events))
            mutate(ev2)
            # cut at a run boundary so that the truncated trace ends with a complete run
            lastfin = max(i for i, e in enumerate(ev2) if e["e"] == "finish")
            nxt = [i for i, e in enumerate(ev2) if e["e"] == "begin" and e["first"] and i > lastfin]
            ev2 = ev2[:lastfin + 1] if not nxt else ev2[:lastfin + 1]
            bt = ctx.path("pool_trace-corrupt.ndjson")
            with open(bt, "w") as f:
                for e in ev2:
                    f.write(json.dumps(e) + "\n")
            ok2, _, _ = vlib.validate_trace(ctx, "ParallelEMTrace", "ParallelEMTrace.cfg", "pool_trace.ndjson", bt,
                                            label="selftest", dfs=True)
            if ok2:
                raise vlib.Infra("vacuous binding: corrupted trace accepted (%s)" % name)
        ctx.extra["binding_selftest"] = "trace with one changed contribution rejected; trace with one dropped merge event rejected"
        with open(trace) as f:
            ctx.sample({"recorded_schedule_prefix": [json.loads(next(f)) for _ in range(8)]})
    if summary:
        s = summary[-1]
        ctx.extra["schedule_diversity"] = {k: s.get(k) for k in ("trace_runs", "diff_runs", "runs_main_worked", "runs_with_unused_thread", "events")}
        if ok and (s.get("runs_main_worked", 0) == 0 or s.get("runs_with_unused_thread", 0) == 0):
            raise vlib.Infra("vacuity: no recorded run in which main processed jobs / a thread stayed unused")
    diff = sum(1 for r in records if r.get("kind") == "journal" and r.get("stage") == "par")
    ctx.traces += diff
    ctx.sample({"differential_run": next((r["config"] for r in records if r.get("kind") == "journal"), None)})
    ctx.extra["bounds"] = {"model": cfg, "trace_runs": ntrace, "differential_runs": ndiff,
                           "pool_sizes_trace": [2, 3, 4], "pool_sizes_diff": [2, 3, 5, 8], "buffers": [1, 2, 3, 100],
                           "gomaxprocs": [1, 2, 16], "race_detector": True}
    ctx.extra["race_reports"] = races
    ctx.assumptions += ["the Go scheduler is sampled (seeded delays, GOMAXPROCS 1/2/16), not enumerated; exhaustiveness is on the model",
                        "hooks observe EmStep and BaumWelchStep; the other per-thread accumulator sites are covered by the differential runs and the race detector"]
    return ctx.finish(
        rule="model: every interleaving of ParallelEM for the listed pool shapes; code: one recorded schedule per trace run "
             "(scenario x pool size x buffer x GOMAXPROCS x seed) accepted by ParallelEMTrace, plus differential runs of 20 "
             "estimator scenarios against the sequential result under the race detector; runs are distinct by configuration and seed",
        evaluations=diff, distinct_nontrivial=diff)


def report_races(ctx, racelog):
    n = 0
    for p in glob.glob(racelog + ".*"):
        txt = open(p, errors="replace").read()
        if "DATA RACE" not in txt:
            continue
        n += txt.count("WARNING: DATA RACE")
        # signature: the first library frame of the report
        m = re.search(r"(statistics/[\w/]+\.go|algorithm/[\w/]+\.go|/repo/[\w_]+\.go|autodiff/[\w_/]+\.go):(\d+)", txt)
        where = m.group(1) if m else "unknown"
        ctx.violation({"engine": "pool", "what": "data_race", "where": where},
                      {"mode": "race", "report": txt[:6000]})
    return n


def replay(ctx, path):
    with open(path) as f:
        v = json.load(f)
    d = v["detail"]
    binary = ctx.go_build("pool", race=True)
    c = d.get("config")
    if not c:
        raise vlib.Infra("violation file carries no configuration to replay")
    only = "%s,%d,%d,%d,%d,%d" % (c["scenario"], c["w"], c["b"], c["size"], c["procs"], c["seed"])
    records, trace, racelog = drive(ctx, binary, 0, 0, "replay", extra_env={"POOL_ONLY": only})
    for r in records:
        if r.get("kind") == "mismatch":
            ctx.violation(r["sig"], r["detail"])
    report_races(ctx, racelog)
    if os.path.exists(trace) and os.path.getsize(trace) > 0:
        ok, bad, why = vlib.validate_trace(ctx, "ParallelEMTrace", "ParallelEMTrace.cfg", "pool_trace.ndjson", trace,
                                           label="trace", dfs=True)
        if not ok:
            ctx.violation({"engine": "pool", "what": "schedule_rejected", "scenario": c["scenario"]}, dict(d, reason=why))
    return ctx.finish(rule="20 repetitions of the recorded configuration", evaluations=20, distinct_nontrivial=2)


MANIFEST = {
    "engine": "pool",
    "spec": "spec/ParallelEM.tla",
    "engine_text": "ParallelEM.tla (mechanism of an EM/Baum-Welch step on pbenner/threadpool + contract invariants), "
                   "ParallelEM_MC.tla (configuration families), ParallelEMTrace.tla (trace validation with silent pool actions); "
                   "Go driver harness/cmd/pool built with -race; hooks statistics/generic/verif_hook.go",
    "technique": "TLA+ model of the pool/accumulator protocol model-checked by TLC over all interleavings; schedules recorded from the "
                 "real estimators through verif hooks validated by a TLC trace specification; differential runs vs sequential under the race detector",
    "text": "TLC checks exactly-once, merge-after-jobs, no-stale-contribution and termination under fairness for every interleaving of a "
            "family of pool shapes (threads 2-4, buffer 1/2/100, AddJob and AddRangeJob chunking, two consecutive steps); every schedule "
            "recorded from the real mixture/HMM estimators is explained by the model and its likelihood ledger balances; 14 estimator "
            "scenarios agree with their sequential run on pools of 2-8 threads with the race detector silent. The Go scheduler is sampled, "
            "not enumerated.",
    "note": "Trusted: TLC, Json module, Go race detector, the 14 add-only hook lines (commit 'verif: observation hooks...'). "
            "Estimator sites other than EmStep/BaumWelchStep are observed only differentially.",
    "design_ref": "DESIGN.md section 5 (C17), section 4 (ParallelEM)",
}
