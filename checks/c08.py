"""C08 - results do not depend on the receiver aliasing an operand.

contract   : spec/Aliasing.tla + spec/AliasingViews.tla - SIMULTANEOUS-ASSIGNMENT semantics: the
             post-state of the receiver is a function of the PRE-state contents of the operands,
             whatever objects coincide or share storage.  Scalars: symbolic value / gradient /
             Hessian terms (Expr.tla: Meaning, D, D2) of the operation applied to the pre-state
             terms; containers: Containers.tla Result applied to the contents read through the views
             of the pre-state parents, written back through the receiver's view.
model->code: TLC enumerates (a) every scalar operation x every partition of {receiver, operand a,
             operand b, scratch scalar t} into objects x object kinds (variable / nonlinear result of
             order 1|2, linear order 1, order-0 magic, plain Float, ConstFloat64) x n x points, and
             (b) element-wise vector/matrix operations, MdotM, MdotV, VdotM, Outer on the same object,
             on distinct headers of one window, on overlapping slices, on transposes and on row views
             of one parent.  harness/cmd/alias runs every case on the real library TWICE - aliased as
             prescribed and with a fresh receiver and separately built operands - for Real64/Real32
             (generic and CAPITAL methods) resp. all nine element types, dense and sparse; the aliased
             receiver must meet the TLC expectation; a result that is wrong in the same way without
             aliasing is another property's defect (counted as foreign, never a verdict here).
mechanism  : spec/HessianUpdate.tla - the monadic/dyadic derivative loops with AllocForOne/AllocForTwo
             as explicit reads and writes, checked against simultaneous assignment for c=a, c=b,
             c=a=b, N<=2, orders 0..2; the pre-fix AllocForTwo (Buggy = TRUE) must be refuted.
code->model: seeded random programs with random alias patterns over a pool of scalars (exact integer
             jets) and of container parents with views are recorded and validated by
             spec/AliasingTrace.tla (binding self-tests included).
"""
import json
import os

import vlib

LEVEL = "model_checking"
ENGINE = "alias"

TIERS = {
    "quick": dict(scalar=dict(NSet="{1, 2}", Rich=0), cont=dict(NSet="{2}", Rich=0), record=(24, 40)),
    "thorough": dict(scalar=dict(NSet="{1, 2}", Rich=1), cont=dict(NSet="{2}", Rich=1), record=(2400, 80)),
}

UNARY = ["Neg", "Abs", "Sqrt", "Sin", "Sinh", "Cos", "Cosh", "Tan", "Tanh", "Exp", "Log", "Log1p", "Log1pExp",
         "Logistic", "Sigmoid", "Erf", "Erfc", "LogErfc", "Gamma", "Lgamma"]
BINARY = ["Add", "Sub", "Mul", "Div", "Pow", "Min", "Max", "LogAdd", "LogSub"]
PARAM = ["Mlgamma", "GammaP", "BesselI", "LogBesselI"]
CONT_OPS = ["VaddV", "VsubV", "VmulV", "VdivV", "VaddS", "VsubS", "VmulS", "VdivS",
            "MaddM", "MsubM", "MmulM", "MdivM", "MaddS", "MsubS", "MmulS", "MdivS", "MdotM", "MdotV", "VdotM", "Outer"]
SCALAR_PATTERNS = ["r=a", "r|a", "r=a|b", "r=b|a", "r=a=b", "r|a=b", "r|a|b",
                   "r=a|b|t", "r=b|a|t", "r=a=b|t", "r|a|b|t", "r=a|t"]
INFO_PATTERNS = ["r=t|a|b", "r=a=t|b", "r|a=t|b", "r=t|a", "r=a=t"]

# branch regions of the piecewise operations that must be entered with a magic AND with a plain receiver
BRANCHES = ["%s %s %s" % (op, k, b) for k in ("real", "plain") for op, bs in (
    ("Log1pExp", ["x<=-37", "-37<x<=18", "18<x<=33.3", "x>33.3"]),
    ("Sigmoid", ["x>=0", "x<0"]), ("Logistic", ["x>=0", "x<0"]), ("Abs", ["x>=0", "x<0"]),
    ("LogAdd", ["a<b", "a>b", "b=-Inf"]), ("LogSub", ["a>b", "b=-Inf"]), ("Min", ["a<b", "a>b"]), ("Max", ["a<b", "a>b"]),
    ("Pow", ["base=0", "integer exponent", "fractional exponent"])) for b in bs]

_REPLAYING = [False]


def _report(ctx, sig, detail):
    if _REPLAYING[0]:
        n = len(ctx.violations) + 1
        return ctx.violation(sig, detail, name="replayed-%s-%d-%02d.json" % (ctx.tier, os.getpid(), n))
    return ctx.violation(sig, detail)


# ------------------------------------------------------------------ model -> code
def gen_cases(ctx, part, consts, label):
    out = ctx.path("cases-%s.ndjson" % label)
    c = dict(Part='"%s"' % part, Emit="TRUE")
    c.update({k: str(v) for k, v in consts.items()})
    res = ctx.tlc("Aliasing", "Aliasing.cfg", workers=4, timeout=1800, json_out=out, consts=c, label=label, heap="4g")
    if res.json_count == 0:
        raise vlib.Infra("no cases generated for " + label)
    return out, res


def run_replay(ctx, binary, cases, label, timeout=2400):
    results = ctx.path("results-%s.ndjson" % label)
    for attempt in (1, 2):
        ctx.run([binary, "replay", cases, results], timeout=timeout)
        recs = list(vlib.iter_ndjson(results))
        # the driver's watchdog (300 s for one case) turns a hang of the library into a record; on a
        # loaded machine a stall can trip it: a genuine hang is deterministic and trips it again
        if attempt == 1 and any(r["kind"] == "summary" and r.get("aborted") for r in recs):
            ctx.log("replay %s: watchdog fired, running once more" % label)
            continue
        break
    summary = None
    for r in recs:
        if r["kind"] == "summary":
            summary = r
        elif r["kind"] == "mismatch":
            d = r["detail"]
            d["mode"] = "replay"
            _report(ctx, r["sig"], d)
    if summary is None or "scalar_cases" not in summary:
        raise vlib.Infra("alias replay wrote no summary for %s (driver died or watchdog fired): %s" % (label, summary))
    return summary


def vacuity_scalar(s):
    missing = [op for op in UNARY + BINARY + PARAM if s["by_op"].get(op, 0) == 0]
    if missing:
        raise vlib.Infra("vacuous: scalar operations never executed: %s" % missing)
    missing = [p for p in SCALAR_PATTERNS + INFO_PATTERNS if s["by_pattern"].get(p, 0) == 0]
    if missing:
        raise vlib.Infra("vacuous: alias patterns never executed: %s" % missing)
    for k in ("Real64/generic", "Real32/generic", "Real64/concrete", "Real32/concrete"):
        if s["instantiations"].get(k, 0) == 0:
            raise vlib.Infra("vacuous: instantiation %s never executed" % k)
    if s["mixed_order_executions"] == 0:
        raise vlib.Infra("vacuous: no execution with operands of differing derivative order")
    ints = [k for k in ("Int/generic", "Int8/generic", "Int16/generic", "Int32/generic", "Int64/generic") if s["instantiations"].get(k, 0) == 0]
    if ints:
        raise vlib.Infra("vacuous: integer scalar types never executed: %s" % ints)
    missing = [op for op in UNARY + BINARY + PARAM if s["plain_receiver_by_op"].get(op, 0) == 0]
    if missing:
        raise vlib.Infra("vacuous: operations never executed with a plain (Float / Int) receiver: %s" % missing)
    missing = [b for b in BRANCHES if s["branches"].get(b, 0) == 0]
    if missing:
        raise vlib.Infra("vacuous: branch regions of piecewise operations never entered: %s" % missing)
    if s["reduce_cases"] == 0:
        raise vlib.Infra("vacuous: no reduction case executed")
    if s["comparisons"] < 10 * s["scalar_cases"]:
        raise vlib.Infra("vacuous: too few slot comparisons (%d)" % s["comparisons"])


def vacuity_cont(s):
    missing = [op for op in CONT_OPS if s["by_op"].get(op, 0) == 0]
    if missing:
        raise vlib.Infra("vacuous: container operations never executed: %s" % missing)
    groups = set(k.split(" ")[0] for k in s["by_pattern"])
    if not {"id", "hdr", "ovl", "tr", "row"} <= groups:
        raise vlib.Infra("vacuous: container groups executed: %s" % sorted(groups))
    for k in ("MdotV id", "VdotM id"):
        if s["rejected_by_panic"].get(k, 0) == 0:
            raise vlib.Infra("vacuous: the explicit rejection %s was never observed" % k)
    if not any("s" in k for k in s["storage"]) or not any("d" in k for k in s["storage"]):
        raise vlib.Infra("vacuous: storage kinds executed: %s" % sorted(s["storage"]))
    if s["special_cases"] == 0 or not all(any(k.startswith(p + " ") and k.endswith(" s") and v > 0 for k, v in s["special_patterns"].items())
                                          for p in ("r=a", "r=b", "r=a=b")):
        raise vlib.Infra("vacuous: special operand values (Inf, NaN, -0) under aliasing with a sparse receiver: %s" % s["special_patterns"])
    if len(s["instantiations"]) < 18:
        raise vlib.Infra("vacuous: element type x method family instantiations: %s" % sorted(s["instantiations"]))


# ------------------------------------------------------------------ mechanism
def mechanism(ctx):
    res = ctx.tlc("HessianUpdate", "HessianUpdate.cfg", workers=2, timeout=600, label="hessian-fixed", heap="2g",
                  consts=dict(Buggy="FALSE", NMax=2))
    ctx.log("HessianUpdate (transcription of the repaired loops): %d states, simultaneous assignment holds" % res.distinct)
    bug = ctx.tlc("HessianUpdate", "HessianUpdate.cfg", workers=2, timeout=600, label="hessian-buggy", heap="2g",
                  consts=dict(Buggy="TRUE", NMax=2), allow_violation=True, count_stats=False)
    if "SimultaneousAssignment" not in bug.violated:
        raise vlib.Infra("vacuity control failed: the pre-fix AllocForTwo was not refuted by TLC (%s)" % bug.errors[:2])
    ctx.extra["mechanism"] = {"fixed_states": res.distinct,
                              "prefix_alloc_refuted": "TLC counterexample: c = a of order 1, b of order 2 loses a's gradient"}


# ------------------------------------------------------------------ code -> model
def split_trace(ctx, raw, seed, ntr, nops):
    clean = raw + ".clean"
    n = 0
    summary = None
    with open(clean, "w") as out:
        for line in open(raw):
            if '"kind"' in line[:200] or '"kind":"summary"' in line or '"kind":"mismatch"' in line:
                r = json.loads(line)
                if r.get("kind") == "mismatch":
                    _report(ctx, r["sig"], dict(r["detail"], mode="record", seed=seed, ntraces=ntr, nops=nops))
                    continue
                if r.get("kind") == "summary":
                    summary = r
                    continue
            out.write(line)
            n += 1
    if summary is None:
        raise vlib.Infra("alias record wrote no summary (driver died?)")
    return clean, n, summary


def check_trace(ctx, binary, ntr, nops, seed, tag):
    raw = ctx.path("alias_trace-%s.ndjson" % tag)
    ctx.run([binary, "record", raw, str(ntr), str(nops)], env={"VERIF_SEED": str(seed)}, timeout=1200)
    trace, nev, summary = split_trace(ctx, raw, seed, ntr, nops)
    ok, bad, why = vlib.validate_trace(ctx, "AliasingTrace", "AliasingTrace.cfg", "alias_trace.ndjson", trace,
                                       timeout=2400, label="trace-" + tag)
    return trace, nev, summary, ok, bad, why


def selftest(ctx, trace):
    """Binding: corrupted copies of the accepted trace must be rejected at the corrupted event."""
    events = vlib.read_ndjson(trace, limit=600)

    def run(evs, label):
        p = ctx.path("alias_trace-%s.ndjson" % label)
        with open(p, "w") as f:
            for e in evs:
                f.write(json.dumps(e) + "\n")
        return vlib.validate_trace(ctx, "AliasingTrace", "AliasingTrace.cfg", "alias_trace.ndjson", p, label=label)

    # 1. a gradient slot of an aliased scalar call
    idx = next((i for i, e in enumerate(events) if e["e"] == "sop" and e["r"] in (e["a"], e["b"]) and i > 10), None)
    if idx is None:
        raise vlib.Infra("self-test: no aliased scalar call in the trace prefix")
    evs = json.loads(json.dumps(events))
    evs[idx]["post"]["g"][0] += 1
    ok, bad, _ = run(evs, "selftest1")
    if ok or bad != idx + 1:
        raise vlib.Infra("binding self-test failed: corrupted gradient accepted=%s at=%s want=%s" % (ok, bad, idx + 1))
    # 2. the operand of an aliased scalar call replaced by another pool member
    evs = json.loads(json.dumps(events))
    idx2 = next((i for i, e in enumerate(events) if e["e"] == "sop" and e["op"] == "Mul" and e["r"] == e["a"] != e["b"]
                 and e["post"]["v"] != 0 and i > 10), None)
    note2 = "no suitable event"
    if idx2 is not None:
        evs[idx2]["a"] = evs[idx2]["b"]
        ok, bad, _ = run(evs, "selftest2")
        if ok:
            # the replaced operand may hold the same jet by coincidence: only an accepted trace with a
            # DIFFERENT operand value would be a binding failure; checked through the first self-test
            note2 = "operand swap not distinguishable on this trace"
        else:
            note2 = "swapped operand rejected at event %d" % bad
    # 3. a cell of a container call
    idx3 = next((i for i, e in enumerate(events) if e["e"] == "cop" and i > 10), None)
    if idx3 is None:
        raise vlib.Infra("self-test: no container call in the trace prefix")
    evs = json.loads(json.dumps(events))
    p = evs[idx3]["r"]["p"] - 1
    evs[idx3]["post"][p][0] += 1
    ok, bad, _ = run(evs, "selftest3")
    if ok or bad != idx3 + 1:
        raise vlib.Infra("binding self-test failed: corrupted container cell accepted=%s at=%s want=%s" % (ok, bad, idx3 + 1))
    ctx.extra["binding_selftest"] = ("corrupted gradient slot rejected at event %d; %s; corrupted container cell rejected at event %d"
                                     % (idx + 1, note2, idx3 + 1))


# ------------------------------------------------------------------ the check
def run(ctx):
    conf = TIERS[ctx.tier]
    for m in ("Aliasing", "AliasingTrace", "HessianUpdate"):
        ctx.sany(m)
    mechanism(ctx)
    scases, sres = gen_cases(ctx, "scalar", conf["scalar"], "scalar")
    ccases, cres = gen_cases(ctx, "cont", conf["cont"], "cont")
    ctx.log("Aliasing.tla: %d scalar cases, %d container cases" % (sres.json_count, cres.json_count))
    binary = ctx.go_build("alias")
    ssum = run_replay(ctx, binary, scases, "scalar")
    vacuity_scalar(ssum)
    csum = run_replay(ctx, binary, ccases, "cont")
    vacuity_cont(csum)
    ctx.log("replayed %d scalar cases (%d executions, %d slot comparisons), %d container cases (%d executions)" % (
        ssum["scalar_cases"], ssum["scalar_executions"], ssum["comparisons"], csum["container_cases"], csum["container_executions"]))
    for path, key in ((scases, "scalar_case"), (ccases, "container_case")):
        with open(path) as f:
            c = json.loads(f.readline())
        c.pop("pts", None)
        ctx.sample({key: c})
    # code -> model
    ntr, nops = conf["record"]
    trace, nev, rsum, ok, bad, why = check_trace(ctx, binary, ntr, nops, ctx.seed, "rec")
    ctx.log("recorded %d events in %d traces: %s" % (nev, ntr, "accepted" if ok else "REJECTED at %s (%s)" % (bad, why)))
    if ok:
        ctx.traces += ntr
        selftest(ctx, trace)
        ctx.sample({"recorded_trace_prefix": vlib.read_ndjson(trace, limit=8)[5:8]})
    else:
        events = vlib.read_ndjson(trace)
        e = events[bad - 1] if bad and bad <= len(events) else None
        fam = "scalar" if e and e["e"].startswith("s") else "cont"
        _report(ctx, {"engine": "alias", "fam": "trace-" + fam, "what": "rejected", "op": e.get("op", e["e"]) if e else "?"},
                {"mode": "record", "seed": ctx.seed, "ntraces": ntr, "nops": nops, "rejected_at": bad, "reason": why,
                 "event": e, "preceding": events[max(0, (bad or 1) - 6):(bad or 1) - 1]})
    total_cases = ssum["scalar_cases"] + csum["container_cases"]
    total_exec = ssum["scalar_executions"] + csum["container_executions"]
    ctx.traces += total_cases
    ctx.extra["replay"] = {
        "scalar_cases": ssum["scalar_cases"], "scalar_executions": ssum["scalar_executions"],
        "scalar_slot_comparisons": ssum["comparisons"], "scalar_skipped_undefined": ssum["skipped_undefined"],
        "scalar_patterns": ssum["by_pattern"], "scalar_instantiations": ssum["instantiations"],
        "mixed_order_executions": ssum["mixed_order_executions"], "not_bit_exact": ssum["not_bit_exact"],
        "container_cases": csum["container_cases"], "container_executions": csum["container_executions"],
        "container_patterns": csum["by_pattern"], "container_instantiations": csum["instantiations"],
        "container_storage": csum["storage"], "rejected_by_panic": csum["rejected_by_panic"],
        "reject_or_correct_accepted_correct": csum["accepted_correct"],
        "branch_regions_entered": ssum["branches"], "plain_receiver_executions_by_op": ssum["plain_receiver_by_op"],
        "integer_type_executions_not_judged": ssum["int_unjudged"],
        "special_value_cases": csum["special_cases"], "special_value_executions": csum["special_executions"],
        "special_value_patterns": csum["special_patterns"]}
    ctx.extra["information_only"] = {
        "temporary_shared_with_another_role_cases": ssum["scalar_info_cases"],
        "temporary_shared_disagreements": ssum["info_disagree"],
        "undefined_expectation_aliased_differs_from_fresh": ssum["undefined_differs"],
        "reductions_receiver_is_element_of_operand": {
            "cases": ssum["reduce_cases"], "executions": ssum["reduce_executions"],
            "agrees_with_contract": ssum["reduce_elem_receiver_agrees"],
            "disagrees_with_contract": ssum["reduce_elem_receiver_disagrees"]},
        "foreign_defects_same_result_without_aliasing": dict(ssum["foreign_defects"], **csum["foreign_defects"])}
    ctx.extra["recorded"] = {"events": nev, "traces": ntr, "patterns": rsum.get("patterns", {})}
    ctx.extra["bounds"] = {"scalar": conf["scalar"], "containers": conf["cont"],
                           "record": dict(traces=ntr, ops_per_family=nops, scalars=5, parents=4),
                           "mechanism": dict(NMax=2, orders="0..2", patterns="c|a|b, c=a, c=b, c=a=b, a=b")}
    return ctx.finish(
        rule="one case per (operation, partition of receiver/operands/scratch scalar into objects, kind of every object, n) "
             "resp. (container operation, view configuration, content menu) enumerated by TLC from Aliasing.tla, executed "
             "aliased and non-aliased for every scalar type / element type, storage and method family at every evaluation "
             "point; plus recorded random programs accepted by AliasingTrace.tla; a case is distinct by its TLC state",
        evaluations=total_exec + nev, distinct_nontrivial=total_cases, exhaustive=True)


def replay(ctx, path):
    _REPLAYING[0] = True
    with open(path) as f:
        v = json.load(f)
    d = v["detail"]
    binary = ctx.go_build("alias")
    if d.get("mode") == "replay":
        case = dict(d["case"])
        case["only"] = d["only"]
        cases = ctx.path("case.ndjson")
        with open(cases, "w") as f:
            f.write(json.dumps(case) + "\n")
        run_replay(ctx, binary, cases, "replay")
    else:
        trace, nev, rsum, ok, bad, why = check_trace(ctx, binary, d["ntraces"], d["nops"], d["seed"], "replay")
        if not ok:
            _report(ctx, v["signature"], dict(d, rejected_at=bad, reason=why))
    return ctx.finish(rule="replay of one recorded violation", evaluations=1, distinct_nontrivial=1)


MANIFEST = {
    "engine": "alias",
    "spec": "spec/Aliasing.tla",
    "engine_text": "Aliasing.tla + AliasingViews.tla (contract: simultaneous assignment; scalar alias patterns over Expr.tla terms, "
                   "container operations on views over Containers.tla), HessianUpdate.tla (mechanism: derivative update loops with "
                   "AllocForOne/AllocForTwo), AliasingTrace.tla (trace validation); Go driver harness/cmd/alias",
    "technique": "TLA+ contract enumerated by TLC into replay cases (every operation x every partition of receiver/operands/scratch "
                 "into objects x object kinds; container operations on shared views), each executed aliased and non-aliased on the "
                 "real library and compared with the TLC expectation; mechanism model checked against the contract (pre-fix variant "
                 "refuted); recorded random aliased programs validated by a TLC trace specification",
    "text": "TLC enumerates all alias patterns of every scalar operation (unary, binary, with scratch scalar, parametrised) over variable, "
            "nonlinear, linear, order-0, plain and constant objects of orders 1 and 2 (differing orders included) and prints the symbolic "
            "value/gradient/Hessian the simultaneous-assignment contract demands; likewise element-wise vector/matrix operations, MdotM, "
            "MdotV, VdotM and Outer on the same object, distinct headers, overlapping slices, transposes and row views of shared parents. "
            "The driver runs every case aliased and with a fresh receiver and separately built operands for Real64/Real32 and plain "
            "floats (generic and CAPITAL methods) resp. all nine element types, dense and sparse; the aliased receiver (and every parent "
            "cell) must meet the TLC expectation (terms evaluated within a running error bound; containers exactly) unless the API "
            "rejects the aliasing by panic where the contract allows that. The transcribed monadic/dyadic loops are model-checked "
            "against simultaneous assignment for c=a, c=b, c=a=b with operands of differing order. Seeded random programs with random "
            "alias patterns over exact integer jets and over views of shared parents are recorded and accepted by the trace "
            "specification. Bounded enumeration plus conformance; not a proof for all operand values.",
    "note": "Trusted: TLC, CommunityModules Json, exprlib term evaluator, the Go driver's object construction and projection. "
            "Patterns with a shared scratch scalar and reductions whose receiver is an element of the operand are information only "
            "(docs/C08.md). Known findings carry a modelled deviation (sequential evaluation over shared cells).",
    "design_ref": "DESIGN.md section 5 (C08), section 4 (ScalarMachine / HessianUpdate / Containers)",
}
