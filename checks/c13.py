"""C13 - special functions: the discrete, exact part of "accurate over their whole domain".

model -> code : spec/SpecialDefs.tla owns (1) closed forms at special points (exact rationals over
                Rat.tla or symbolic terms in pi, Euler's constant, zeta(3), Catalan's constant, exp, log,
                sqrt, sinh/cosh, erf/erfc), (2) recurrences, reflections, complements and duplication
                formulas as equations between values returned by the library, (3) the table of poles /
                domain edges / overflow with the required result class, together with the scale
                (conditioning), the bound K of every family and certified remainders of truncated
                expansions.  spec/SpecialValues.tla enumerates the cases on point grids that straddle
                every algorithm-selection boundary of the implementation; the Go driver
                (harness/cmd/special) evaluates the printed terms in 1280-bit arithmetic, calls the
                real library where a term says so and compares: residual <= K * 2^-52 * scale.
code -> model : the identity schemas (variables, domain boxes, guards) are instantiated by the recorder
                at seeded random dyadic points; every instance is logged (family, arguments, class,
                residual in integer units) and spec/SpecialTrace.tla accepts the trace iff every event
                names a schema, lies in its domain, has finite library values and a residual <= K.

purity        : spec/SpecialPure.tla states "the value is a function of the arguments only" for a lazily extended table
                (TLC: holds with the guard, fails without); the pure families of SpecialDefs.tla are executed in fresh
                processes sequentially forward / backward and from several goroutines at once (race detector on):
                all results must have identical bits.

NOT decided: accuracy BETWEEN the enumerated / sampled points against a multi-precision reference
(a domain-wide sweep is outside what a TLA+ specification can own).
"""
import json
import re
import vlib

LEVEL = "model_checking"
BOUNDS = {
    "quick": dict(cfg="SpecialValues.cfg", grid1=0, grid2=0, events=6000, pure_runs=6, goroutines=8),
    "thorough": dict(cfg="SpecialValues_grid.cfg", grid1=400, grid2=24, events=400000, pure_runs=60, goroutines=8),
}

# (family | branch label) pairs the enumeration must reach (vacuity control): every algorithm branch
# named by the specification for the closed-form families
REQUIRED_BRANCHES = [
    "factorial.table|table", "factorial.gamma|gamma", "bernoulli.exact|even", "bernoulli.zero|odd", "bernoulli.rec|recurrence",
    "zeta.neg|bernoulli", "zeta.negzero|trivial zero", "zeta.even|even", "zeta.lin|linear", "zeta.lin|outside linear",
    "zeta.sum|odd table", "zeta.sum|rational 15-36", "zeta.sum|1+2^-s", "zeta.sum|one",
    "zeta.em|reflection", "zeta.em|rational s<1", "zeta.em|rational 1-2", "zeta.em|rational 2-4", "zeta.em|rational 4-7",
    "zeta.em|rational 7-15", "zeta.em|rational 15-36", "zeta.em|odd table",
    "digamma.int|asymptotic", "digamma.int|recurrence down", "digamma.int|rational 1-2", "digamma.half|recurrence up",
    "digamma.neghalf|reflection", "digamma.negquarter|reflection", "digamma.quarter|asymptotic",
    "trigamma.int|rational 1-2", "trigamma.int|rational 2-4", "trigamma.int|rational 4-inf", "trigamma.half|recurrence up",
    "trigamma.neghalf|reflection", "polygamma.int|x = 1", "polygamma.int|transition", "polygamma.int|asymptotic",
    "polygamma.half|x = 1/2", "polygamma.half|asymptotic", "polygamma.intz|asymptotic",
    "gammap.tiny|leading term", "gammalower.tiny|leading term", "gammap.edge|GammaPsecondDerivative",
    "logerfc.asym|x > 8", "besseli.gen|integer orders", "logadd.inf|infinite operand",
    "gammad1.tiny|normal", "gammad1.tiny|band", "gammad1.tiny|deep", "gammad2.tiny|deep", "gammad2.tiny|first derivative lost",
    "gammaupper.big|fraction in logs", "gammaupper.big|Q and lgamma", "gammalower.big|series in logs", "gammalower.big|P and lgamma",
    "gammad1.big|large a", "besseli.series|series", "besseli.series|series, log prefix", "besseli.series|CF1 + Wronskian",
    "logbesseli.series|series, log prefix", "logbesseli.series|CF1 + Wronskian",
    "polygamma.huge|logs", "polygamma.huge|asymptotic", "polygamma.highrec|reflection, generated row", "zeta.refl|lgamma form",
    "zeta.refl|gamma form",
    "gammaq.bigx|finite sum", "gammaq.bigx|x >= 709", "gammaupper.bigx|x >= 709", "gammaq.bigxhalf|x >= 709",
    "gammaupper.smalla|small a, tiny x", "gammaq.smalla|small a, tiny x", "besseli.tinyx|tiny x", "logbesseli.tinyx|tiny x",
    "besseli.negx|negative order", "besseli.negx|non-negative order", "polygamma.halfhigh|x = 1/2",
]
REQUIRED_FAMILIES = [
    "digamma.rec", "digamma.refl", "digamma.dup", "trigamma.rec", "trigamma.refl", "trigamma.dup",
    "polygamma.rec.2", "polygamma.rec.6", "polygamma.refl.3", "polygamma.dup.4", "polygamma.delegate.0",
    "gamma.rec", "gamma.refl", "gamma.dup", "lgamma.rec", "lgamma.log", "mlgamma.sum.2", "mlgamma.closed", "mgamma.closed",
    "gammap.int.1", "gammap.int.30", "gammaq.int.29", "gammalower.int.20", "gammaupper.int.31", "gammad1.int.40", "gammad2.int.5",
    "gammap.half.0", "gammaq.half.29", "gammad1.half.30", "gammap.pq", "gammap.lu", "gammap.lowerp", "gammap.upperq", "gammap.rec",
    "gammap.d1", "gammap.d2", "logerfc.small", "logerfc.erfc", "logerfc.asym",
    "besseli.half.0", "besseli.half.9", "logbesseli.half.4", "logbesseli.half.9", "besseli.rec", "logbesseli.log", "logbesseli.rec",
    "besseli.negint", "logadd.lin", "logsub.lin", "logadd.rat", "logsub.rat", "logbesseli.negseries", "logbesseli.rec2",
]
PURE_FAMILIES = ["pure.polygamma.reflection", "pure.polygamma.positive", "pure.zeta", "pure.bernoulli.factorial",
                 "pure.digamma.trigamma", "pure.gamma.incomplete", "pure.bessel", "pure.log"]


def base(fam):
    return re.sub(r"\.\d+$", "", fam)


def gen_cases(ctx, b, label="cases"):
    cases = ctx.path("special-cases.ndjson")
    consts = {"Grid1": str(b["grid1"]), "Grid2": str(b["grid2"])}
    res = ctx.tlc("SpecialValues", b["cfg"], workers=4, timeout=3000, json_out=cases, consts=consts, label=label)
    if res.json_count < 5000:
        raise vlib.Infra("too few special-function cases (%d)" % res.json_count)
    return cases, res


def run_replay(ctx, binary, cases, tag):
    results = ctx.path("special-results-%s.ndjson" % tag)
    ctx.run([binary, "replay", cases, results], timeout=3000)
    summ = None
    weak = []
    for r in vlib.iter_ndjson(results):
        if r["kind"] == "mismatch":
            ctx.violation(r["sig"], r["detail"])
        elif r["kind"] == "weak":
            weak.append(r)
        elif r["kind"] == "summary":
            summ = r
    if summ is None or "cases" not in summ:
        raise vlib.Infra("special replay wrote no summary: %s" % summ)
    return summ, weak


def family_table(stats):
    """largest residual (units of 2^-52 * scale) per base family, with its bound K"""
    agg = {}
    for fam, v in stats.items():
        a = agg.setdefault(base(fam), {"n": 0, "max_r": 0, "K": v["K"], "weak": 0})
        a["n"] += v["n"]
        a["weak"] += v["weak"]
        a["max_r"] = max(a["max_r"], v["max_r"])
    return agg


def record(ctx, binary, cases, n, tag, env=None):
    trace = ctx.path("special_trace-%s.ndjson" % tag)
    results = ctx.path("special-rec-%s.ndjson" % tag)
    ctx.run([binary, "record", cases, trace, results, str(n)], timeout=3000, env=env)
    events = [r for r in vlib.iter_ndjson(results) if r["kind"] == "event"]
    if not events:
        raise vlib.Infra("recorder logged no event")
    ok, bad, why = vlib.validate_trace(ctx, "SpecialTrace", "SpecialTrace.cfg", "special_trace.ndjson", trace, timeout=3000,
                                       label="trace-" + tag)
    return ok, bad, why, trace, events


def check_purity(ctx, cases, b, only=None):
    """SpecialPure.tla: the guarded table is pure for every interleaving, the unguarded one is not (the counterexample is the
    schedule the driver provokes); then the pure families on the real library, race detector on."""
    if only is None:
        ctx.tlc("SpecialPure", "SpecialPure_locked.cfg", workers=2, timeout=600, label="pure-locked")
        bad = ctx.tlc("SpecialPure", "SpecialPure_unlocked.cfg", workers=2, timeout=600, label="pure-unlocked", allow_violation=True)
        if not (set(bad.violated) & {"Pure", "TableSound"}):
            raise vlib.Infra("vacuity: the unguarded table model does not violate Pure (%s)" % bad.errors[:2])
    racebin = ctx.go_build("special", race=True)
    # the children re-read the family list: hand them the pure lines only (the thorough case file has 400 MB)
    src = ctx.path("pure-only.ndjson")
    with open(cases) as f, open(src, "w") as g:
        for ln in f:
            if '"kind":"pure"' in ln and (only is None or ('"fam":"%s"' % only) in ln):
                g.write(ln)
    results = ctx.path("special-pure.ndjson")
    ctx.run([racebin, "pure", src, results, str(b["pure_runs"]), str(b["goroutines"])], timeout=3000)
    summ, fams = None, []
    for r in vlib.iter_ndjson(results):
        if r["kind"] == "mismatch":
            ctx.violation(r["sig"], r["detail"])
        elif r["kind"] == "pure_family":
            fams.append(r)
        elif r["kind"] == "summary":
            summ = r
    if summ is None or "children" not in summ:
        raise vlib.Infra("purity driver wrote no summary")
    if only is None:
        missing = [f for f in PURE_FAMILIES if f not in [x["fam"] for x in fams]]
        if missing:
            raise vlib.Infra("vacuity: pure families not executed: %s" % missing)
        if not summ.get("race_detector"):
            raise vlib.Infra("purity driver was not built with the race detector")
    ctx.traces += summ["children"]
    ctx.log("purity: %d families, %d fresh processes, %d evaluations compared bit for bit, race detector on" % (
        summ["families"], summ["children"], summ["evaluations"]))
    if fams:
        ctx.sample({"pure_family": fams[0]})
    return summ


def report_rejected(ctx, events, bad, why):
    ev = events[bad - 1] if bad and bad <= len(events) else None
    what = "rejected"
    if ev is not None:
        what = "class" if ev["cls"] != "finite" else ("residual" if ev["r"] > ev["K"] else "rejected")
    at = ";".join("%d/%d" % (a[0], a[1]) if a[1] != 1 else str(a[0]) for a in ev["args"]) if ev else "?"
    ctx.violation({"engine": "special", "mode": "trace", "fam": ev["fam"] if ev else "?", "what": what},
                  {"mode": "trace", "at": at, "event": ev, "index": bad, "reason": why,
                   "only": "%s %s" % (ev["fam"], " ".join("%d/%d" % (a[0], a[1]) for a in ev["args"])) if ev else None})


def run(ctx):
    b = BOUNDS[ctx.tier]
    ctx.sany("SpecialTrace")
    cases, res = gen_cases(ctx, b)
    binary = ctx.go_build("special")
    summ, weak = run_replay(ctx, binary, cases, "main")
    ctx.traces += summ["cases"] + summ["class_cases"]
    # vacuity: every named algorithm branch and every identity family occurs
    missing = [k for k in REQUIRED_BRANCHES if summ["branches"].get(k, 0) == 0]
    missing += [f for f in REQUIRED_FAMILIES if f not in summ["families"]]
    if missing:
        raise vlib.Infra("vacuity: cases missing for %s" % missing[:8])
    if summ["class_cases"] < 90:
        raise vlib.Infra("vacuity: class table too small (%d)" % summ["class_cases"])
    fam = family_table(summ["families"])
    ctx.log("replay: %d equations, %d class cases, %d library calls, %d weak, %d grid points outside a guard" % (
        summ["cases"], summ["class_cases"], summ["lib_calls"], len(weak), summ.get("grid_points_outside_guard", 0)))
    with open(cases) as f:
        lines = f.readlines()
    for want in ('"fam":"digamma.half"', '"fam":"gammap.pq"', '"kind":"class"'):
        for ln in lines:
            if want in ln:
                ctx.sample({"case": json.loads(ln)})
                break
    # purity: no hidden state (model SpecialPure.tla; the driver runs the pure families in fresh processes)
    pure_summary = check_purity(ctx, cases, b)
    # code -> model
    ok, bad, why, trace, events = record(ctx, binary, cases, b["events"], "main")
    rmax = {}
    for e in events:
        k = base(e["fam"])
        if e["cls"] == "finite" and e["r"] <= e["K"]:
            rmax[k] = max(rmax.get(k, 0), e["r"])
    ctx.log("trace: %d events over %d schemas: %s" % (len(events), len(set(e["fam"] for e in events)), "accepted" if ok else "REJECTED"))
    if not ok:
        report_rejected(ctx, events, bad, why)
    else:
        ctx.traces += len(events)
        ctx.sample({"trace_event": {k: events[len(events) // 2][k] for k in ("fam", "args", "cls", "r", "K")}})
        # binding self-test: a corrupted residual, class, argument and family must each be rejected
        tev = vlib.read_ndjson(trace)
        pick = len(tev) // 3
        muts = (("residual beyond K", lambda e: e.__setitem__("r", events[pick]["K"] + 1)),
                ("non-finite class", lambda e: e.__setitem__("cls", "nan")),
                ("argument outside the domain", lambda e: e["args"].__setitem__(0, [-999983, 1])),
                ("unknown family", lambda e: e.__setitem__("fam", "digamma.recx")))
        for name, mut in muts:
            ev2 = json.loads(json.dumps(tev[:pick + 3]))
            mut(ev2[pick])
            bt = ctx.path("special_trace-corrupt.ndjson")
            with open(bt, "w") as f:
                for e in ev2:
                    f.write(json.dumps(e) + "\n")
            ok2, bad2, _ = vlib.validate_trace(ctx, "SpecialTrace", "SpecialTrace.cfg", "special_trace.ndjson", bt, label="selftest")
            if ok2 or bad2 != pick + 1:
                raise vlib.Infra("vacuous binding: corrupted trace (%s) accepted or rejected elsewhere (%s)" % (name, bad2))
        ctx.extra["binding_selftest"] = "corrupted residual / class / argument / family each rejected at the corrupted event"
    ctx.extra["bounds"] = {"tier": ctx.tier, "grid_points_per_box": [b["grid1"], b["grid2"]], "trace_events": b["events"],
                           "families": len(summ["families"]), "class_table": summ["class_cases"],
                           "bernoulli_exact_up_to": 16, "euler_maclaurin": "N=16, J=7", "erfc_asymptotic_terms": 8}
    ctx.extra["largest_residual_units"] = {k: {"replay": v["max_r"], "trace": rmax.get(k), "K": v["K"], "n": v["n"], "weak": v["weak"]}
                                           for k, v in sorted(fam.items())}
    ctx.extra["weak_points"] = {"count": len(weak), "meaning": "the evaluator's own error bound exceeds K*u*scale there "
                                "(cancellation in the closed form): compared, but insensitive",
                                "by_family": {k: sum(1 for w in weak if base(w["fam"]) == k) for k in sorted(set(base(w["fam"]) for w in weak))}}
    ctx.extra["library_calls"] = summ["lib_calls"]
    ctx.extra["purity"] = {"model": "SpecialPure.tla: Pure and TableSound hold with the guard (all interleavings of 2 evaluators, orders 2..3), "
                                    "violated without it (expected counterexample)",
                           "families": pure_summary["families"], "fresh_processes": pure_summary["children"],
                           "evaluations_compared": pure_summary["evaluations"], "goroutines": pure_summary["goroutines"],
                           "concurrent_runs_per_family": pure_summary["runs"], "race_detector": pure_summary["race_detector"]}
    ctx.assumptions += [
        "decides closed forms at enumerated special points, recurrences / complements at enumerated and sampled dyadic points "
        "and the pole / finiteness classes; does NOT decide accuracy between those points",
        "elementary functions of the oracle: exp, log, sin, cos, sqrt, powers in 1280-bit arithmetic (self-tested against Go's math "
        "on every start); erf/erfc from Go's math (2 ulp assumed)",
        "Gamma and log-gamma are reached through Mgamma(x, 1) / Mlgamma(x, 1) (Go's math.Gamma / math.Lgamma)",
    ]
    return ctx.finish(
        rule="one case per (family, point): closed-form families enumerate integers / half-integers / quarters / dyadic points "
             "listed in SpecialDefs.tla; identity schemas are instantiated at the listed boundary points (thorough: plus a regular "
             "grid over every domain box) and at seeded random dyadic points (trace); class table row by row",
        evaluations=summ["lib_calls"] + sum(len(e.get("calls", [])) for e in events),
        distinct_nontrivial=summ["cases"] + summ["class_cases"] + len(events), exhaustive=False,
        trusted_base=["TLC", "CommunityModules Json", "Rat.tla / Expr.tla", "math/big (Go)", "Go math.Erf/Erfc",
                      "the 600-line term evaluator harness/cmd/special/eval.go (self-tested)"])


def replay(ctx, path):
    with open(path) as f:
        v = json.load(f)
    d = v["detail"]
    binary = ctx.go_build("special")
    if d.get("mode") == "pure":
        b = dict(BOUNDS["quick"], pure_runs=20)
        cases, _ = gen_cases(ctx, b)
        check_purity(ctx, cases, b, only=d["fam"])
    elif d.get("mode") == "trace":
        b = BOUNDS["quick"]
        cases, _ = gen_cases(ctx, b)
        ok, bad, why, trace, events = record(ctx, binary, cases, 1, "replay", env={"SPECIAL_ONLY": d["only"]})
        if not ok:
            report_rejected(ctx, events, bad, why)
    else:
        cases = ctx.path("case.ndjson")
        with open(cases, "w") as f:
            f.write(json.dumps(d["case"]) + "\n")
        run_replay(ctx, binary, cases, "replay")
    return ctx.finish(rule="replay of one recorded violation", evaluations=1, distinct_nontrivial=2)


MANIFEST = {
    "engine": "special",
    "spec": "spec/SpecialValues.tla",
    "engine_text": "SpecialDefs.tla (closed forms over Rat.tla / Expr.tla terms, identity schemas with scale and bound K, class table, "
                   "point grids around every algorithm-selection boundary), SpecialValues.tla (enumeration + model-level sanity of the "
                   "tables), SpecialTrace.tla (acceptance of recorded identity residuals); Go driver harness/cmd/special",
    "technique": "TLA+ contract of exact closed forms and functional equations enumerated by TLC and replayed on the real special "
                 "functions (terms evaluated in 1280-bit arithmetic, library values inserted where the term says so); residuals of "
                 "seeded random instances validated by a TLC trace specification",
    "text": "Decides the discrete, exact part of the property: (1) closed forms at spec-enumerated special points (Factorial, Bernoulli "
            "numbers, zeta at integers and by Euler-Maclaurin with the specification's Bernoulli numbers, Gamma / log-gamma / "
            "multivariate gamma, digamma / trigamma / polygamma at integers, half-integers and quarters, incomplete gamma P, Q, lower, "
            "upper and the derivatives of P for integer and half-integer a, LogErfc, BesselI / LogBesselI at half-integer orders, "
            "LogAdd / LogSub), (2) recurrences, reflections, complements and duplication formulas between library values at "
            "enumerated dyadic points on both sides of every algorithm-selection boundary and at seeded random points, each within "
            "K * 2^-52 * conditioning, (3) the required class (finite / +Inf / -Inf / NaN-or-error) at poles, domain edges and "
            "overflow, (4) purity: identical bits whatever was evaluated before or concurrently in the process (fresh processes, "
            "forward / backward / concurrent, race detector; model SpecialPure.tla). Points include extreme magnitudes where an "
            "intermediate quantity under- or overflows (tiny x, a >= 170, orders up to +-1000). It does NOT decide accuracy between "
            "those points: no domain-wide sweep against a multi-precision reference.",
    "note": "Not claimed: relative error over the continuum (only at the enumerated / sampled points; a perturbation of an "
            "approximation that vanishes at those points, e.g. far inside a branch with no identity crossing it, is missed). "
            "Gamma/Lgamma are Go's math functions reached through Mgamma/Mlgamma. Trusted: TLC, Json module, Rat/Expr, math/big, "
            "Go's erf/erfc, the term evaluator.",
    "design_ref": "docs/C13.md; DESIGN.md section 1 (exact rationals, symbolic terms), 3.4",
}
