"""C20 - every routine terminates and fails loudly on invalid use.

Part A (loud failure): spec/Shapes.tla states, for every public vector / matrix /
Real-scalar / algorithm entry point, the precondition on dimensions, indices,
derivative orders, and the required outcome class (ok with result shape s |
reject = error or panic | any).  TLC enumerates entry point x dimension tuples
x in/out-of-range arguments and prints every case; harness/cmd/shapes replays
each case on the real code for all nine element types, dense and sparse, on
plain objects and on views embedded in a sentinel-filled parent, classifies the
real outcome and compares.

Part B (termination): spec/Termination.tla enumerates the input classes (all
2x2 integer matrices over -2..2, 3x3 over {-1,0,1}, structured 4x4 classes,
non-finite entries, faulty objectives) with the routines to drive and their
budgets B(routine, n); the driver executes every call in a child process under a
journal + watchdog and logs call / return|error|panic|timeout events;
spec/TerminationTrace.tla accepts the trace iff every call is answered within
its budget.
"""
import json
import os

import vlib

LEVEL = "model_checking"

SHAPES = {
    "quick":    {"DMax": "3", "DMax6": "2", "DIdx": "3"},
    "thorough": {"DMax": "4", "DMax6": "3", "DIdx": "4"},
}
TERM = {
    "quick":    {"N3": "2000", "N4": "300", "BMin": "6000"},
    "thorough": {"N3": "0", "N4": "20000", "BMin": "6000"},
}
N_OPS = 196    # entry points bound in Shapes.tla (vacuity: every one must occur, accepted and rejected)


# ----------------------------------------------------------------------------- part A
def run_shapes(ctx, binary, cases, tag="shapes", only=None):
    results = ctx.path("results-%s.ndjson" % tag)
    args = [binary, "replay", cases, results]
    if only:
        args.append(only)
    ctx.run(args, timeout=1800)
    summary = None
    nviol = 0
    for r in vlib.iter_ndjson(results):
        if r["kind"] == "summary":
            summary = r
        elif r["kind"] == "mismatch":
            d = r["detail"]
            d["mode_"] = "shapes"
            if ctx.violation(r["sig"], d, name=getattr(ctx, "replay_name", None)) == "violation":
                nviol += 1
    if summary is None:
        raise vlib.Infra("shapes replay wrote no summary (driver died?)")
    return summary, nviol


def part_a(ctx, binary):
    consts = SHAPES[ctx.tier]
    cases = ctx.path("shape_cases.ndjson")
    res = ctx.tlc("Shapes", "Shapes.cfg", workers=2, timeout=1200, json_out=cases, consts=consts, label="shapes")
    if res.json_count == 0:
        raise vlib.Infra("Shapes.tla printed no cases")
    # vacuity: every entry point occurs, and (except for the total operations) in both classes
    per_op = {}
    for c in vlib.iter_ndjson(cases):
        per_op.setdefault(c["op"], set()).add(c["exp"])
    if len(per_op) != N_OPS:
        raise vlib.Infra("Shapes.tla printed %d entry points, expected %d" % (len(per_op), N_OPS))
    total_ops = {"AppendScalar", "AppendVector", "T", "Tip", "SetIdentity", "AsVector", "AsConstVector", "RAlloc",
                 "svd", "householderBidiagonalization", "gramSchmidt", "Jacobian", "Hessian"}
    for op, cl in per_op.items():
        if op.startswith("opt.newton.HessianModification.") or op.startswith("opt.NumericEstimator.Method."):
            continue        # one value per op; both classes are required over the family below
        if ".alias." in op:
            if cl != {"any"}:
                raise vlib.Infra("unexpected classes for %s: %s" % (op, sorted(cl)))
            continue
        if op.startswith("opt.InSitu."):
            if cl != {"ok", "any"}:
                raise vlib.Infra("unexpected classes for %s: %s" % (op, sorted(cl)))
            continue
        if op.startswith("opt.InSituByValue.") or op.startswith("opt.UnknownOption."):
            if cl != {"reject"}:
                raise vlib.Infra("unexpected classes for %s: %s" % (op, sorted(cl)))
            continue
        if "ok" not in cl or (op not in total_ops and "reject" not in cl):
            raise vlib.Infra("vacuous case set for %s: classes %s" % (op, sorted(cl)))
    for fam in ("opt.newton.HessianModification.", "opt.NumericEstimator.Method."):
        cls = set().union(*[cl for op, cl in per_op.items() if op.startswith(fam)])
        if cls != {"ok", "reject"}:
            raise vlib.Infra("vacuous option value family %s: %s" % (fam, sorted(cls)))
    ctx.log("Shapes: %d cases for %d entry points" % (res.json_count, len(per_op)))
    summary, nviol = run_shapes(ctx, binary, cases)
    cl = summary["classes"]
    if summary["cases"] + summary["timeouts"] < summary["cases_total"]:
        raise vlib.Infra("shapes replay executed %d of %d cases" % (summary["cases"], summary["cases_total"]))
    if cl.get("ok->ok", 0) == 0 or cl.get("reject->panic", 0) + cl.get("reject->error", 0) == 0:
        raise vlib.Infra("vacuous replay: outcome classes %s" % cl)
    ctx.log("replayed %d cases as %d calls: %s" % (summary["cases"], summary["calls"], json.dumps(cl, sort_keys=True)))
    ctx.extra["shapes"] = {"cases": summary["cases"], "calls": summary["calls"], "entry_points": len(per_op),
                           "outcome_classes_expected_to_observed": cl,
                           "information_not_verdict": summary["info"], "bounds": consts}
    for s in summary.get("sample", [])[:2]:
        ctx.sample({"shapes_case": s})
    return summary


# ----------------------------------------------------------------------------- part B
def run_term(ctx, binary, cases, tag="term"):
    trace = ctx.path("term_trace-%s.ndjson" % tag)
    results = ctx.path("term_results-%s.ndjson" % tag)
    ctx.run([binary, "term", cases, trace, results], timeout=3000)
    summary = None
    known_ids = set()
    bad_ids = set()
    for r in vlib.iter_ndjson(results):
        if r["kind"] == "summary":
            summary = r
        elif r["kind"] == "mismatch":
            d = r["detail"]
            d["mode_"] = "term"
            verdict = ctx.violation(r["sig"], d, name=getattr(ctx, "replay_name", None))
            (known_ids if verdict == "known" else bad_ids).add(d["id"])
    if summary is None:
        raise vlib.Infra("term driver wrote no summary")
    return trace, summary, known_ids, bad_ids


def validate_term(ctx, trace, known_ids, consts, label):
    """TLC validates the event log; call/timeout pairs that were matched by a known
    finding are taken out first (a timeout event is never accepted)."""
    clean = trace + ".clean"
    n = 0
    with open(clean, "w") as out:
        for line in open(trace):
            e = json.loads(line)
            if e["id"] in known_ids:
                continue
            out.write(line)
            n += 1
    if n == 0:
        raise vlib.Infra("empty termination trace")
    ok, bad, why = vlib.validate_trace(ctx, "TerminationTrace", "TerminationTrace.cfg", "term_trace.ndjson", clean,
                                       timeout=2400, label=label, consts={"BMin": consts["BMin"]})
    return clean, n, ok, bad, why


def part_b(ctx, binary):
    consts = TERM[ctx.tier]
    raw = ctx.path("term_cases.raw.ndjson")
    res = ctx.tlc("Termination", "Termination.cfg", workers=2, timeout=1200, json_out=raw, consts=consts, label="termination")
    if res.json_count == 0:
        raise vlib.Infra("Termination.tla printed no cases")
    lines = sorted(open(raw).read().splitlines())          # deterministic order for a given seed
    cases = ctx.path("term_cases.ndjson")
    classes = {}
    with open(cases, "w") as f:
        for line in lines:
            f.write(line + "\n")
            c = json.loads(line)
            classes[c["class"]] = classes.get(c["class"], 0) + 1
    need = {"int1x1", "int2x2", "int3x3", "int4x4", "zero", "identity", "nilpotent", "jordan", "rank1", "repeated", "complex",
            "companion", "nonfinite", "nan", "posinf", "error", "constraints_never", "constraints_only_start", "constraints_halfspace",
            "zero_gradient", "epsilon_unattainable", "newton_cycle", "domain_error", "domain_nan", "ls_le", "ls_lt", "ls_never", "ls_only_zero"}
    if not need <= set(classes):
        raise vlib.Infra("input classes missing: %s" % sorted(need - set(classes)))
    ctx.log("Termination: %d cases, classes %s" % (len(lines), json.dumps(classes, sort_keys=True)))
    trace, summary, known_ids, bad_ids = run_term(ctx, binary, cases)
    ctx.log("executed %d of %d calls in %d child processes: %d timeout(s), %d skipped after confirmed timeouts, "
            "%d retried" % (summary["executed"], summary["calls"], summary["children"], summary["timeouts"],
                            summary["skipped_known"], summary.get("retried_after_first_timeout", 0)))
    if summary["executed"] + summary["timeouts"] + summary["skipped_known"] != summary["calls"]:
        raise vlib.Infra("termination driver lost calls: %s" % {k: summary[k] for k in ("executed", "timeouts", "skipped_known", "calls")})
    for r in list(TERM_ROUTINES):
        if r not in summary["outcomes"]:
            raise vlib.Infra("routine never driven: " + r)
    clean, nev, ok, bad, why = validate_term(ctx, trace, known_ids, consts, "term-trace")
    events = None
    if not ok:
        events = vlib.read_ndjson(clean)
        e = events[bad - 1] if bad and bad <= len(events) else None
        if e is None or e["id"] not in bad_ids:
            # not a timeout that was reported already: an answer beyond its budget
            ctx.violation({"engine": "term", "routine": e["r"] if e else "?", "class": e["class"] if e else "?",
                           "what": "rejected_by_trace_spec"},
                          {"mode_": "term-trace", "rejected_at": bad, "reason": why, "event": e})
        ctx.log("termination trace REJECTED at event %s (%s)" % (bad, why))
    else:
        ctx.traces += 1
        ctx.log("termination trace of %d events accepted" % nev)
        # binding self-tests on a prefix of the accepted trace
        events = vlib.read_ndjson(clean, limit=4000)
        idx = next((i for i, e in enumerate(events) if e["e"] in ("return", "error") and i > len(events) // 2), None)
        if idx is None:
            raise vlib.Infra("self-test: no answer event")
        if len(events) % 2 == 1:
            events = events[:-1]
        def corrupted(mut):
            evs = [dict(e) for e in events]
            mut(evs[idx])
            p = ctx.path("term_trace-corrupt.ndjson")
            with open(p, "w") as f:
                for e in evs:
                    f.write(json.dumps(e) + "\n")
            return vlib.validate_trace(ctx, "TerminationTrace", "TerminationTrace.cfg", "term_trace.ndjson", p,
                                       label="selftest", consts={"BMin": consts["BMin"]})
        ok1, bad1, _ = corrupted(lambda e: e.update(e="timeout"))
        ok2, bad2, _ = corrupted(lambda e: e.update(ticks=10 ** 7))
        ok3, bad3, _ = corrupted(lambda e: e.update(id=e["id"] + 1))
        if ok1 or bad1 != idx + 1 or ok2 or bad2 != idx + 1 or ok3 or bad3 != idx + 1:
            raise vlib.Infra("vacuous binding: corrupted termination traces accepted=%s/%s/%s at=%s/%s/%s want=%s" % (
                ok1, ok2, ok3, bad1, bad2, bad3, idx + 1))
        ctx.extra["binding_selftest"] = ("answer replaced by timeout, answer beyond the budget and answer of another call "
                                         "each rejected at event %d" % (idx + 1))
        ctx.sample({"termination_trace_prefix": events[:4]})
    ctx.extra["termination"] = {"cases": len(lines), "classes": classes, "calls": summary["calls"],
                                "executed": summary["executed"], "timeouts": summary["timeouts"],
                                "skipped_known": summary["skipped_known"],
                                "retried_after_first_timeout": summary.get("retried_after_first_timeout", 0),
                                "outcomes": summary["outcomes"], "slowest_ticks": summary["slowest_ticks"],
                                "skipped_signatures": summary["skipped_signatures"], "bounds": consts,
                                "trace_events": nev}
    return summary, nev


TERM_ROUTINES = ["qrAlgorithm", "qrAlgorithmSymmetric", "eigensystem", "eigensystemSymmetric", "svd", "msqrt", "msqrtInv",
                 "hessenbergReduction", "householderBidiagonalization", "householderTridiagonalization", "gramSchmidt",
                 "lineSearch", "rprop", "gradientDescent", "newtonRoot", "newtonCrit", "newtonMin", "bfgs", "adam", "saga", "rpropGradient", "adamGradient"]


def run(ctx):
    ctx.sany("Shapes")
    ctx.sany("TerminationTrace")
    binary = ctx.go_build("shapes")
    sa = part_a(ctx, binary)
    sb, nev = part_b(ctx, binary)
    ctx.traces += sa["cases"]
    ctx.extra["bounds"] = {"shapes": SHAPES[ctx.tier], "termination": TERM[ctx.tier]}
    ctx.assumptions += [
        "termination is bounded-response testing on the input classes enumerated by Termination.tla, not a proof",
        "objectives whose only obstacle is slow convergence (unbounded default iteration options) are outside the quantifier",
        "defects of valid calls on views (sentinel dependence, rejected valid calls) are reported as information: owned by C10",
    ]
    return ctx.finish(
        rule="part A: one case per (entry point, dimension tuple in 0..DMax, in/out-of-range index or order argument) "
             "printed by Shapes.tla with its outcome class and result shape, each instantiated for 9 element types x "
             "dense/sparse (+ mixed storages) x plain/view; part B: one case per member of the input classes of "
             "Termination.tla x routine, executed under a child-process watchdog and validated as an event trace by "
             "TerminationTrace.tla; a case is distinct by (entry point, dimensions, arguments) resp. (routine, input)",
        evaluations=sa["calls"] + sb["executed"], distinct_nontrivial=sa["cases"] + sb["calls"], exhaustive=True)


def replay(ctx, path):
    with open(path) as f:
        v = json.load(f)
    d = v["detail"]
    binary = ctx.go_build("shapes")
    ctx.replay_name = "replayed-" + os.path.basename(path)      # do not overwrite the stored violation files
    if d.get("mode_") == "shapes":
        cases = ctx.path("case.ndjson")
        with open(cases, "w") as f:
            f.write(json.dumps(d["case"]) + "\n")
        run_shapes(ctx, binary, cases, tag="replay")
    elif d.get("mode_") == "term":
        c = dict(d["case"])
        c["calls"] = [x for x in c["calls"] if x["r"] == d["routine"]]
        cases = ctx.path("case.ndjson")
        with open(cases, "w") as f:
            f.write(json.dumps(c) + "\n")
        os.environ.setdefault("VERIF_TERM_PARTITIONS", "1")
        trace, summary, known_ids, bad_ids = run_term(ctx, binary, cases, tag="replay")
        clean, nev, ok, bad, why = validate_term(ctx, trace, set(), TERM["quick"], "replay-trace")
        if not ok and not bad_ids and not known_ids:
            ctx.violation({"engine": "term", "what": "rejected_by_trace_spec"}, dict(d, reason=why))
    else:
        raise vlib.Infra("cannot replay a violation of kind %s" % d.get("mode_"))
    return ctx.finish(rule="replay of one recorded violation", evaluations=1, distinct_nontrivial=1)


MANIFEST = {
    "engine": "shapes",
    "spec": "spec/Shapes.tla",
    "engine_text": "Shapes.tla (preconditions and outcome classes of 110 entry points), Termination.tla (input classes and "
                   "budgets of the bounded-response contract), TerminationTrace.tla (trace validation); Go driver "
                   "harness/cmd/shapes (replay on 9 element types x dense/sparse x plain/view; child-process watchdog)",
    "technique": "TLA+ contract checked and enumerated by TLC; every printed case replayed on the real code and the real "
                 "outcome class / result shape compared; watchdog event traces of the iterative routines validated by a "
                 "TLC trace specification",
    "text": "TLC enumerates every public vector/matrix/Real-scalar operation, the linear-algebra entry points and their "
            "documented option values over all dimension tuples in 0..3 (0..4 thorough), in- and out-of-range indices, "
            "permutation arguments and derivative orders 0..3, and prints each case with the outcome class the "
            "specification demands (ok with result shape | error-or-panic | undecided) - the driver executes each case "
            "for all nine element types, dense and sparse, on plain objects and on views inside a sentinel-filled parent "
            "(twice, with different sentinels: any difference is a read outside the view) and reports a silently "
            "accepted invalid call, a wrong result shape, a rejected valid call or a call that does not return. For "
            "termination TLC enumerates all 2x2 integer matrices over -2..2, 3x3 over {-1,0,1} (seeded 2000 / all "
            "19683), structured 4x4 classes, non-finite entries and faulty objectives (NaN, +Inf, error from the k-th "
            "evaluation, unsatisfiable constraints, zero gradient) with polynomial budgets; every call runs in a child "
            "process behind a journal, a call over budget is killed and logged as timeout, and TerminationTrace.tla "
            "accepts the log only if every call is answered within its budget. Bounded-response testing on the "
            "enumerated classes, not a termination proof.",
    "note": "Trusted: TLC, CommunityModules Json/Randomization, the Go driver's classification of outcomes, wall-clock "
            "budgets (6 s + polynomial; a call that exceeds its budget is retried once in a fresh process before it "
            "counts). Defects of valid calls on views are reported as information (owned by C10).",
    "design_ref": "DESIGN.md section 5 (C20), section 4 (Shapes.tla, Termination.tla), section 3.1 (crash containment)",
}
