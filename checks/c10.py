"""C10 - views and transposes address exactly the elements they denote.

model -> code : spec/MatrixView.tla (contract: denotation Den(w) of a word of
                Slice/T over an owner; mechanism: dense header arithmetic,
                iterator, ConstRow/ConstCol shortcuts, AsVector, Reset, JSON
                re-pack, Tip, sparse header with re-keying T() and clipped
                iterator) is model-checked exhaustively (mechanism = contract in
                every reachable state); TLC prints one case per (owner dims, word)
                with the tables the contract demands; harness/cmd/views builds the
                owner for dense/sparse storage and every element type, constructs
                the view with the real calls and compares, then runs every other
                public operation on the view and on an independent deep copy built
                from the printed denotation.
                spec/VectorView.tla does the same for vector slices / AsMatrix.
design findings: the mechanism as found at the base commit (Variant "orig") must
                violate DIterOK, SIterOK, ResetOK, VecOK, TipOK (vacuity control of
                the invariants and record of D1, D2, D3, Tip, S1).
"""
import json
import os

import vlib

LEVEL = "model_checking"

TIERS = {
    # main family (slices and T), T-only family on larger owners (Tip), vector family
    "quick": dict(main=dict(MaxR=3, MaxC=3, MaxDepth=2), tip=dict(MaxR=5, MaxC=5, MaxDepth=2),
                  vec=dict(MaxN=6, MaxDepth=2), export_every=4, minor_every=1, workers=8, record=(40, 9, 40)),
    "thorough": dict(main=dict(MaxR=4, MaxC=4, MaxDepth=3), tip=dict(MaxR=6, MaxC=6, MaxDepth=3),
                     vec=dict(MaxN=8, MaxDepth=3), export_every=16, minor_every=8, workers=12,
                     record=(250, 9, 60)),
}
MAJOR = "Float64,Real64,Int,Float32"
ALL = "Float64,Real64,Int,Float32,Real32,Int8,Int16,Int32,Int64"
ORIG = ["DIterOK", "SIterOK", "ResetOK", "VecOK", "TipOK"]
ESSENTIAL_OPS = ["Dims", "At", "ConstAt", "Row", "Col", "ConstRow", "ConstCol", "Diag", "AsVector", "AsConstVector",
                 "ConstIterator", "Iterator", "IteratorFrom", "WriteThrough", "ReadThrough", "CopyingAccessors", "Tip",
                 "String", "Table", "MarshalJSON", "Export", "Equals", "Clone", "Mnorm", "MaddM.a/same", "MaddM.b/other",
                 "MdotM.a/same", "MdotM.b/same", "MdotM.r/same", "MdotV/same", "VdotM/same", "Outer.r/same", "Reset",
                 "SetIdentity", "Set.r/same", "Set.from/other", "Map", "Reduce", "Swap", "PermuteRows", "JointIterator/same",
                 "Variables", "ResetDerivatives", "MagicWord", "ConstSlice", "Jacobian", "Hessian", "WriteZerosThenObserve",
                 "IteratorWriteThrough"]


def consts(d, emit, slices=True):
    c = {k: str(v) for k, v in d.items()}
    c["Emit"] = "TRUE" if emit else "FALSE"
    c["Slices"] = "TRUE" if slices else "FALSE"
    c["Variant"] = '"fixed"'
    return c


def run_driver(ctx, binary, sub, cases, tag, env=None, timeout=3000):
    results = ctx.path("results-%s.ndjson" % tag)
    args = [binary, sub, cases, results]
    if sub == "replay":
        args.append(ctx.path("scratch-" + tag))
    ctx.run(args, timeout=timeout, env=env or {})
    summary = None
    for r in vlib.iter_ndjson(results):
        if r["kind"] == "summary":
            summary = r
        elif r["kind"] == "mismatch":
            d = r["detail"]
            d["mode"] = sub
            ctx.violation(r["sig"], d)
    if summary is None:
        raise vlib.Infra("views %s wrote no summary (driver died?)" % sub)
    if summary.get("aborted"):
        # the watchdog fired: the mismatch record (what: timeout) was reported above
        raise vlib.Infra("views %s aborted by its watchdog: %s" % (sub, summary.get("aborted")))
    return summary


def check_trace(ctx, binary, ntr, maxd, maxops, seed, tag):
    trace = ctx.path("views_trace-%s.ndjson" % tag)
    ctx.run([binary, "record", trace, str(ntr), str(maxd), str(maxops)], env={"VERIF_SEED": str(seed), "VERIF_TYPES": ALL})
    clean = trace + ".clean"
    n = 0
    with open(clean, "w") as out:
        for line in open(trace):
            if '"kind":"mismatch"' in line[:40]:
                r = json.loads(line)
                ctx.violation(r["sig"], dict(r["detail"], seed=seed, record=[ntr, maxd, maxops]))
                continue
            out.write(line)
            n += 1
    ok, bad, why = vlib.validate_trace(ctx, "MatrixViewTrace", "MatrixViewTrace.cfg", "views_trace.ndjson", clean,
                                       timeout=1800, label="trace-" + tag)
    return clean, n, ok, bad, why


def run(ctx):
    tier = ctx.tier
    T = TIERS[tier]
    ctx.sany("MatrixView")
    ctx.sany("VectorView")
    ctx.sany("MatrixViewTrace")
    # 1. design findings: the mechanism as found violates the invariants (small bounds)
    found = []
    for inv in ORIG:
        res = ctx.tlc("MatrixView", "MatrixView_orig_%s.cfg" % inv, timeout=300, workers=2, allow_violation=True,
                      label="orig-" + inv, count_stats=False)
        if inv not in res.violated:
            raise vlib.Infra("vacuity: invariant %s is not violated by the mechanism as found (Variant orig): %s"
                             % (inv, res.errors[:2]))
        found.append(inv)
    ctx.extra["design_findings_reproduced_by_tlc"] = found
    # 2. mechanism = contract, cases printed
    cases_main = ctx.path("cases-main.ndjson")
    res = ctx.tlc("MatrixView", "MatrixView.cfg", timeout=3000, workers=8, label="main", json_out=cases_main,
                  consts=consts(T["main"], True))
    n_main = res.json_count
    ctx.log("MatrixView main: %d states, %d cases" % (res.distinct, n_main))
    cases_tip = ctx.path("cases-tip.ndjson")
    res = ctx.tlc("MatrixView", "MatrixView.cfg", timeout=1200, workers=4, label="tip", json_out=cases_tip,
                  consts=consts(T["tip"], True, slices=False))
    n_tip = res.json_count
    cases_vec = ctx.path("cases-vec.ndjson")
    res = ctx.tlc("VectorView", "VectorView.cfg", timeout=1200, workers=4, label="vec", json_out=cases_vec,
                  consts={"MaxN": str(T["vec"]["MaxN"]), "MaxDepth": str(T["vec"]["MaxDepth"]), "Emit": "TRUE"})
    n_vec = res.json_count
    if min(n_main, n_tip, n_vec) == 0:
        raise vlib.Infra("no cases generated (%d, %d, %d)" % (n_main, n_tip, n_vec))
    # 3. replay on the real code
    binary = ctx.go_build("views")
    env = {"VERIF_TYPES": ALL, "VERIF_EXPORT_EVERY": str(T["export_every"]), "VERIF_WORKERS": str(T["workers"]),
           "VERIF_MINOR_EVERY": str(T["minor_every"])}
    s_main = run_driver(ctx, binary, "replay", cases_main, "main", env=env)
    s_tip = run_driver(ctx, binary, "replay", cases_tip, "tip", env=env)
    s_vec = run_driver(ctx, binary, "vectors", cases_vec, "vec", env={"VERIF_TYPES": ALL})
    ctx.log("replayed %d+%d view cases (%d instances, %d differential operations), %d vector cases; %d mismatch records"
            % (s_main["cases"], s_tip["cases"], s_main["instances"] + s_tip["instances"],
               s_main["differential"] + s_tip["differential"], s_vec["vector_cases"],
               s_main["mismatches"] + s_tip["mismatches"] + s_vec["mismatches"]))
    # 4. vacuity
    if True:
        for k in ("cases_nonempty", "cases_with_T", "cases_owner"):
            if s_main.get(k, 0) == 0:
                raise vlib.Infra("vacuity: no case with " + k)
        ops = s_main.get("ops", {})
        missing = [o for o in ESSENTIAL_OPS if ops.get(o, 0) == 0]
        if missing:
            raise vlib.Infra("vacuity: operations never executed: %s" % missing)
        if s_main["cases"] != n_main or s_tip["cases"] != n_tip or s_vec["vector_cases"] != n_vec:
            raise vlib.Infra("driver did not replay every case")
    # 5. the driver really compares: a case with one corrupted table entry must be reported
    first = None
    for c in vlib.iter_ndjson(cases_main):
        if c["vr"] >= 2 and c["vc"] >= 2 and c["hasT"] and len(c["w"]) == 2:
            first = c
            break
    if first is None:
        raise vlib.Infra("self-test: no suitable case")
    first["val"]["f"][1][0] += 1
    bad_cases = ctx.path("cases-corrupt.ndjson")
    with open(bad_cases, "w") as f:
        f.write(json.dumps(first) + "\n")
    results = ctx.path("results-corrupt.ndjson")
    ctx.run([binary, "replay", bad_cases, results, ctx.path("scratch-corrupt")],
            env={"VERIF_TYPES": "Float64", "VERIF_ONLY_PAT": "f"})
    hit = [r for r in vlib.iter_ndjson(results) if r["kind"] == "mismatch" and r["sig"]["op"] in ("At", "ConstAt")]
    if not hit:
        raise vlib.Infra("binding self-test failed: a corrupted denotation table was accepted by the driver")
    ctx.extra["binding_selftest"] = "a case with one corrupted expected element is rejected by the driver (At/ConstAt)"
    # 5b. code -> model: recorded histories on larger owners validated by MatrixViewTrace.tla
    ntr, maxd, maxops = T["record"]
    trace, nev, ok, bad, why = check_trace(ctx, binary, ntr, maxd, maxops, ctx.seed, "rec")
    ctx.log("recorded %d events in %d histories: %s" % (nev, ntr, "accepted" if ok else "REJECTED at %s (%s)" % (bad, why)))
    if ok:
        ctx.traces += ntr
        events = vlib.read_ndjson(trace, limit=400)
        idx = next((i for i, e in enumerate(events) if i > 30 and e["e"] in ("T", "slice") and len(e["obs"]) > 1
                    and len(e["obs"][0]) > 1), None)
        if idx is None:
            raise vlib.Infra("self-test: no suitable event")
        events[idx]["obs"][1][0] += 1
        bad_trace = ctx.path("views_trace-corrupt.ndjson")
        with open(bad_trace, "w") as f:
            for e in events:
                f.write(json.dumps(e) + "\n")
        ok2, bad2, _ = vlib.validate_trace(ctx, "MatrixViewTrace", "MatrixViewTrace.cfg", "views_trace.ndjson", bad_trace,
                                           label="selftest-trace")
        if ok2 or bad2 != idx + 1:
            raise vlib.Infra("binding self-test failed: corrupted trace accepted=%s at=%s want=%s" % (ok2, bad2, idx + 1))
        ctx.extra["binding_selftest"] += "; a recorded trace with one corrupted observation is rejected at event %d" % (idx + 1)
        e0 = dict(events[1])
        e0["obs"] = "..."
        e0["par"] = "..."
        ctx.sample({"recorded_event": e0})
    else:
        events = vlib.read_ndjson(trace)
        e = events[bad - 1] if bad and bad <= len(events) else None
        ctx.violation({"engine": "views", "storage": (e or {}).get("inst", "?").split("/")[0], "op": "record." + (e or {}).get("e", "?"),
                       "what": "trace_rejected"},
                      {"mode": "record", "seed": ctx.seed, "record": [ntr, maxd, maxops], "rejected_at": bad, "reason": why,
                       "event": e, "preceding": events[max(0, (bad or 1) - 8):(bad or 1) - 1]})
    ctx.extra["recorded_events"] = nev
    # 6. API surface accounting (information only)
    surf = ctx.path("surface.json")
    ctx.run([binary, "surface", surf])
    with open(surf) as f:
        sj = json.load(f)
    ctx.extra["unmodelled_methods"] = sj["unmodelled_methods"]
    ctx.extra["bound_methods"] = len(sj["bound"])
    with open(cases_main) as f:
        for i, line in enumerate(f):
            if i == n_main // 2:
                c = json.loads(line)
                ctx.sample({"replayed_case": {k: c[k] for k in ("pr", "pc", "w", "vr", "vc", "den", "vec", "tip")}})
    ctx.extra["replay"] = {"view_cases": s_main["cases"] + s_tip["cases"], "nonempty_views": s_main["cases_nonempty"],
                           "instances": s_main["instances"] + s_tip["instances"],
                           "differential_operations": s_main["differential"] + s_tip["differential"],
                           "skipped_because_copy_panics": s_main.get("skipped_copy_panics", 0) + s_tip.get("skipped_copy_panics", 0),
                           "vector_cases": s_vec["vector_cases"], "vector_instances": s_vec["vector_instances"],
                           "operations": len([k for k in s_main.get("ops", {}) if not k.startswith("copy_panics")])}
    ctx.extra["bounds"] = {"main": T["main"], "tip_family": T["tip"], "vector_family": T["vec"],
                           "recorded": dict(histories=T["record"][0], max_dim=T["record"][1], max_calls=T["record"][2]),
                           "element_types": ALL.split(","), "storage": ["dense", "sparse"],
                           "value_patterns": ["f (all cells distinct, non-zero)", "z (cells 1,3,4,8,10,15,.. zero)",
                                              "s (sparse only: the values of z, zero elements explicitly stored - set to 0, cleared with Reset(), touched through At())"],
                           "export_every_nth_instance": T["export_every"],
                           "types_Real32_Int8_Int16_Int32_Int64_on_every_nth_case": T["minor_every"]}
    ctx.assumptions.append("AsVector/AsConstVector: compared as a multiset (matrix.go: 'the order is unspecified')")
    ctx.assumptions.append("iteration: zero elements may or may not be visited; the non-zero elements must come in row-major order of the view")
    ctx.assumptions.append("an operation that panics on the independent deep copy is not a legal operation and is skipped")
    ctx.traces += s_main["instances"] + s_tip["instances"] + s_vec["vector_instances"]
    n = s_main["differential"] + s_tip["differential"] + s_main["instances"] + s_tip["instances"] + s_vec["vector_instances"]
    return ctx.finish(
        rule="one case per reachable state (owner dims, word over Slice/T) of MatrixView.tla, printed by TLC with the "
             "denotation tables; each case is instantiated for dense and sparse storage, nine element types and two "
             "value patterns; direct comparisons with the tables plus one differential run (view vs independent deep "
             "copy built from the tables) per public operation; a case is distinct by (owner dims, word)",
        evaluations=n, distinct_nontrivial=s_main["cases_nonempty"] + s_tip["cases"], exhaustive=True)


def replay(ctx, path):
    with open(path) as f:
        v = json.load(f)
    d = v["detail"]
    binary = ctx.go_build("views")
    cases = ctx.path("case.ndjson")
    env = {"VERIF_TYPES": d.get("etype", "Float64"), "VERIF_EXPORT_EVERY": "1"}
    if d.get("mode") == "record":
        ntr, maxd, maxops = d["record"]
        trace, nev, ok, bad, why = check_trace(ctx, binary, ntr, maxd, maxops, d["seed"], "replay")
        if not ok:
            ctx.violation({"engine": "views", "op": "record", "what": "trace_rejected"}, dict(d, rejected_at=bad, reason=why))
    elif d.get("mode") == "vectors" or "vcase" in d:
        with open(cases, "w") as f:
            f.write(json.dumps(d["vcase"]) + "\n")
        env["VERIF_ONLY_OP"] = d["op"]
        run_driver(ctx, binary, "vectors", cases, "replay", env=env)
    else:
        with open(cases, "w") as f:
            f.write(json.dumps(d["case"]) + "\n")
        env.update({"VERIF_ONLY_STORAGE": d["storage"], "VERIF_ONLY_PAT": d["pat"], "VERIF_ONLY_OP": d["op"]})
        run_driver(ctx, binary, "replay", cases, "replay", env=env)
    return ctx.finish(rule="replay of one recorded violation", evaluations=1, distinct_nontrivial=1)


MANIFEST = {
    "engine": "views",
    "spec": "spec/MatrixView.tla",
    "engine_text": "MatrixView.tla (contract: denotation of a word over Slice/T; mechanism: dense and sparse header arithmetic, "
                   "iterators, row/column shortcuts, AsVector, Reset, JSON re-pack, Tip), VectorView.tla (vector slices, AsMatrix), "
                   "MatrixViewTrace.tla (trace validation); Go driver harness/cmd/views",
    "technique": "TLA+ contract + mechanism model checked by TLC; TLC prints one case per (owner dims, view word) with the "
                 "denotation tables, replayed on the real dense/sparse matrices of every element type (direct comparison plus "
                 "operation-on-view = operation-on-deep-copy for every public operation); recorded real histories on larger "
                 "owners validated by a TLC trace specification",
    "text": "TLC exhaustively checks that the transcribed header mechanism (index(), SLICE, T, Tip, iterator Ok/next, ConstRow/ConstCol "
            "shortcuts, AsVector, Reset, MarshalJSON re-pack; sparse variant with re-keying T() and window-clipped iterator) equals the "
            "denotation for all owners up to 3x3 / 4x4, all slice bounds and all words over Slice/T up to length 2 / 3, and reproduces the "
            "design findings of the original mechanism. Every reachable (owner, word) is printed with the expected view dimensions, the "
            "owner cell of every element, rows, columns, diagonal, AsVector elements, iteration sequences and the result of Tip, and is "
            "replayed on the real code for dense and sparse storage, nine element types and two value patterns: element access, "
            "Row/Col/Diag/ConstRow/ConstCol, AsVector, iterators, write-through in both directions, copying accessors, Tip, and for "
            "about 150 public operations (printing, Export/Import, JSON, Equals, Clone, iterators, element-wise and matrix products as "
            "receiver and operand, MdotV/VdotM, Outer, Set, Reset, SetIdentity, Map/Reduce, swaps and permutations, Jacobian/Hessian, "
            "Variables/ResetDerivatives, concrete-type twins) the result on the view is compared with the result on an independent "
            "deep copy built from the printed denotation, including the owner cells outside the view. Seeded random histories "
            "(Slice/T/writes) on owners up to 9x8 recorded from the real code are accepted by the trace specification. Bounded model "
            "checking plus conformance; not a proof for unbounded shapes.",
    "note": "Trusted: TLC, CommunityModules Json/SequencesExt, the Go driver (parent construction through At().SetFloat64, reading through "
            "ConstAt), Go runtime. AsVector is compared as a multiset, iteration modulo visited zeros. Bounds are echoed in evidence "
            "(coverage.bounds).",
    "design_ref": "DESIGN.md section 5 (C10), section 4 (MatrixView), appendix A.9",
}
