"""C05 - matrix factorizations reproduce their input with the promised structure.

model -> code : spec/Factorization.tla holds the CONTRACT of every decomposition routine (admissible input
                class, promised pattern of every factor, defining equation, option names) and enumerates the
                inputs from structure classes over small integers; every case is printed with what the
                construction makes known exactly (Cholesky/LDL factors, eigenvalues, singular values as
                rationals); TLC checks that knowledge against the definitions on every case (KnowledgeOK).
code -> model : harness/cmd/factor calls every real routine on every case, for every option combination of
                the contract, Float64 and Real64 elements, fresh and re-used in-situ buffers (child
                processes, journal, watchdog), and logs one event per call; spec/FactorizationTrace.tla
                re-derives the case from the logged generator, re-computes the defining equation, the
                patterns and the exact values in fixed point (coarse) and demands the fine observations of
                the harness projection.  A coarse failure never decides alone.
"""
import json
import os
import random
import re
import time

import vlib

LEVEL = "model_checking"
# quick: everything up to 3x3 on the quick grids + a seeded sample of the 4x4 / 4xn cases
BOUNDS = {"quick": dict(N=4, NP=6, Level=1, sample4=110, chunk=40000, limit_ms=500),
          "thorough": dict(N=4, NP=7, Level=2, sample4=None, chunk=50000, limit_ms=1000)}
TIMEOUT_OWNER = "C20"


# ------------------------------------------------------------------------------------------------ cases
def generate(ctx, b):
    raw = ctx.path("factor-cases-raw.ndjson")
    res = ctx.tlc("Factorization", "Factorization.cfg", workers=4, timeout=3000, json_out=raw,
                  consts={"N": str(b["N"]), "NP": str(b["NP"]), "Level": str(b["Level"])}, label="factorization")
    table, cases, seen = None, [], set()
    for line in open(raw):
        line = line.strip()
        if not line or line in seen:
            continue
        seen.add(line)
        d = json.loads(line)
        if d.get("kind") == "contracts":
            table = line
        elif d.get("kind") == "case":
            cases.append((line, d))
    if table is None or len(cases) < 100:
        raise vlib.Infra("Factorization.tla printed no contract table or too few cases (%d)" % len(cases))
    cases.sort(key=lambda x: x[0])
    total = len(cases)
    if b["sample4"] is not None:
        # the (few) ill-conditioned cases with an exact condition number are always kept
        keep = lambda c: c[1]["condk"] or c[1]["gen"]["cls"] == "partred"       # few, and each pattern matters
        small = [c for c in cases if max(c[1]["gen"]["m"], c[1]["gen"]["n"]) <= 3 or keep(c)]
        big = [c for c in cases if max(c[1]["gen"]["m"], c[1]["gen"]["n"]) > 3 and not keep(c)]
        rnd = random.Random(ctx.seed)
        # stratified by class so that every class contributes 4x4 members
        by = {}
        for c in big:
            by.setdefault(c[1]["gen"]["cls"], []).append(c)
        per = max(1, b["sample4"] // max(1, len(by)))
        pick = []
        for cls in sorted(by):
            pick += rnd.sample(by[cls], min(per, len(by[cls])))
        cases = small + sorted(pick, key=lambda x: x[0])
    return res, table, cases, total


def vacuity(cases, N):
    """the interesting structure classes really occur (counted from the generated cases)"""
    cnt = {}

    def inc(k):
        cnt[k] = cnt.get(k, 0) + 1
    for _, d in cases:
        g = d["gen"]
        inc("cls:" + g["cls"])
        inc("n:%d" % g["n"])
        if g["m"] > g["n"]:
            inc("tall")
        if d["cholk"]:
            inc("exact_cholesky")
        if d["cholk"] and g["k"] > 0:
            inc("graded_spd")
        if d["eigk"] and d["cre"]:
            inc("complex_pairs")
        if d["eigk"] and len({(e["n"], e["d"]) for e in d["eig"]}) < len(d["eig"]):
            inc("repeated_eigenvalues")
        if d["eigk"] and g["cls"] == "symrefl" and g["k"] >= 10:
            inc("clustered_eigenvalues")
        if d["svk"]:
            inc("exact_singular_values")
        if not d["fullrank"]:
            inc("rank_deficient")
        if g["cls"] == "dense" and (g["q"][0] > 0 or g["q"][1] > 0):
            inc("zero_row_or_column")
        if g["cls"] == "compan" and g["k"] > 0:
            inc("graded_similarity")
        if d["condk"]:
            inc("ill_conditioned_with_exact_condition_number")
        if d["rootk"]:
            inc("exact_square_root")
        if d["rootk"] and g["k"] >= 20:
            inc("spd_condition_1e6")
        if g["cls"] == "partred":
            inc("partred_n%d" % g["n"])
            if len(g["q"]) >= 3 and g["q"][0] == 1 and g["q"][1] == 1 and 0 in g["q"][2:]:
                inc("partred_two_leading_reduced_then_unreduced")
        if d["suffpd"]:
            inc("sufficiently_pd")
        if d["spd"] and not d["suffpd"] and d["cholk"]:
            inc("spd_not_sufficiently_pd")
        if d["sym"] and not d["spd"]:
            inc("symmetric_indefinite_or_unknown")
        for r in d["routines"]:
            inc("routine:" + r)
    need = ["cls:spd", "cls:symrefl", "cls:compan", "cls:triang", "cls:bidiag", "cls:tridiag", "cls:hess", "cls:dense",
            "cls:svdrefl", "cls:illcond", "cls:hilbert", "cls:lauchli", "cls:spdcond", "cls:partred", "exact_square_root", "spd_condition_1e6",
            "partred_two_leading_reduced_then_unreduced", "partred_n5", "partred_n6", "ill_conditioned_with_exact_condition_number", "tall", "exact_cholesky", "graded_spd", "complex_pairs", "repeated_eigenvalues",
            "clustered_eigenvalues", "exact_singular_values", "rank_deficient", "zero_row_or_column", "sufficiently_pd",
            "symmetric_indefinite_or_unknown"] + ["n:%d" % i for i in range(1, N + 1)] + \
           ["routine:" + r for r in ("cholesky", "ldl", "ldl_forcepd", "gramschmidt", "bidiag", "tridiag", "hessenberg",
                                     "qr", "qr_sym", "eigen", "eigen_sym", "svd", "msqrt", "msqrtinv")]
    missing = [k for k in need if cnt.get(k, 0) == 0]
    if missing:
        raise vlib.Infra("vacuity: structure classes never generated: %s" % missing)
    return cnt


# ------------------------------------------------------------------------------------------------ trace validation
def tlc_verdicts(ctx, events_path, b, label):
    """run FactorizationTrace over one trace file; returns {index(1-based): verdict}"""
    out = ctx.path("verdicts-%s.ndjson" % label)
    res = ctx.tlc("FactorizationTrace", "FactorizationTrace.cfg", workers=1, timeout=3000, json_out=out,
                  files={"factor_trace.ndjson": events_path},
                  consts={"N": str(b["N"]), "NP": str(b["NP"]), "Level": str(b["Level"])},
                  label=label, heap="8g")
    verdicts = {}
    for d in vlib.iter_ndjson(out):
        if d.get("kind") == "verdict":
            verdicts[d["i"]] = d
    return res, verdicts


def validate(ctx, trace, b, label):
    """chunked, streaming trace validation; returns (number of events, outcome counts, [(event, verdict)], head)"""
    bad, head, outcomes = [], [], {}
    state = {"n": 0, "c0": 0, "inputmod": {}}
    pat = re.compile(r'"outcome":"(\w+)"')
    prt = re.compile(r'"routine":"(\w+)"')

    def flush(lines):
        if not lines:
            return
        part = ctx.path("factor_trace-%s-%d.ndjson" % (label, state["c0"]))
        with open(part, "w") as f:
            f.writelines(lines)
        t0 = time.time()
        res, verdicts = tlc_verdicts(ctx, part, b, "%s-%d" % (label, state["c0"]))
        if res.distinct != len(lines) + 1:
            raise vlib.Infra("trace specification consumed %d of %d events" % (res.distinct - 1, len(lines)))
        for i, v in sorted(verdicts.items()):
            e = json.loads(lines[i - 1])
            if e["k"] != v["k"]:
                raise vlib.Infra("verdict/event mismatch at %d" % i)
            bad.append((e, v))
        ctx.log("  trace chunk at %d: %d events, %d verdicts, TLC %.0fs" % (state["c0"], len(lines), len(verdicts), time.time() - t0))
        os.remove(part)
        state["c0"] += len(lines)

    lines = []
    with open(trace) as f:
        for line in f:
            if len(line) < 3:
                continue
            state["n"] += 1
            m = pat.search(line)
            o = m.group(1) if m else "?"
            outcomes[o] = outcomes.get(o, 0) + 1
            if '"inputmod":true' in line:
                m = prt.search(line)
                if m:
                    state["inputmod"][m.group(1)] = state["inputmod"].get(m.group(1), 0) + 1
            if len(head) < 300:
                head.append(json.loads(line))
            elif not state.get("chol") and '"routine":"cholesky"' in line:
                e = json.loads(line)
                if e["outcome"] == "ok" and e["fxok"] and e["gen"]["cls"] == "spd" and e["gen"]["n"] == 3 and e["gen"]["k"] == 0:
                    state["chol"] = True
                    head.append(e)
            lines.append(line)
            if len(lines) >= b["chunk"]:
                flush(lines)
                lines = []
    flush(lines)
    # information for C12 (read-only inputs): calls after which the caller's matrix differs from what was passed
    ctx.extra["caller_matrix_modified_per_routine"] = state["inputmod"]
    return state["n"], outcomes, bad, head


def classify(ctx, table, cases, bad):
    """turn the verdicts of TLC into violations / known findings; disagreements are infrastructure errors"""
    n_timeout = 0
    for e, v in bad:
        if v["malformed"]:
            raise vlib.Infra("malformed event (harness does not follow the case): %s %s" % (v["malformed"], json.dumps(e)[:600]))
        if v["coarseonly"]:
            raise vlib.Infra("coarse re-computation by TLC fails where the fine observation passes: %s %s" % (
                v["coarseonly"], json.dumps(e)[:900]))
        for what in v["fine"]:
            sig = {"engine": "factor", "routine": e["routine"], "what": what, "input": v["inclass"]}
            if what == "err":
                # an error on an admissible input: classify by the reason the routine gives
                sig["errclass"] = "no_convergence" if "did not converge" in (e.get("msg") or "") else "other"
            if what == "timeout":
                n_timeout += 1
            detail = {"case": cases[e["case"]][1] if e["case"] < len(cases) else None, "contracts": json.loads(table),
                      "event": e, "verdict": v, "coarse_confirms": what in v["coarse"],
                      "options": {k: e[k] for k in ("typ", "buf", "cu", "cv", "vec", "setzero", "eps")}}
            ctx.violation(sig, detail)
    return n_timeout


def rate_check(ctx, summ, bad):
    """the known non-termination concerns a narrow input class (2x2 blocks with equal diagonal, defective double
    eigenvalues); a routine that stops returning on a sizeable share of its calls is something else"""
    lost = {}
    for e, v in bad:
        if "timeout" in v["fine"] or ("err" in v["fine"] and "did not converge" in (e.get("msg") or "")):
            lost[e["routine"]] = lost.get(e["routine"], 0) + 1
    rates = {}
    for rt, n in summ["per_routine"].items():
        skipped = summ.get("skipped_per_routine", {}).get(rt, 0)
        rate = (lost.get(rt, 0) + skipped) / float(max(1, n))
        rates[rt] = round(rate, 4)
        if rate > 0.15:
            ctx.violation({"engine": "factor", "routine": rt, "what": "timeout_rate", "input": "any"},
                          {"routine": rt, "calls": n, "timeouts": lost.get(rt, 0), "skipped_after_timeout": skipped,
                           "note": "more than 15% of the calls of this routine did not return"})
    ctx.extra["not_returned_rate_per_routine"] = rates


def selftest(ctx, events, b):
    """binding: a flipped fine boolean, a perturbed factor entry and a foreign input must all be noticed"""
    base = None
    for e in events:
        if e["routine"] == "cholesky" and e["outcome"] == "ok" and e["fxok"] and e["gen"]["cls"] == "spd" and e["gen"]["n"] == 3 and e["gen"]["k"] == 0:
            base = e
            break
    if base is None:
        raise vlib.Infra("self-test: no 3x3 Cholesky event recorded")
    flip = json.loads(json.dumps(base))
    flip["recon"] = False
    pert = json.loads(json.dumps(base))
    pert["f1"][2][0] += 3 * 1024
    pat = json.loads(json.dumps(base))
    pat["f1"][0][2] += 512                                   # an entry above the diagonal of L
    forged = json.loads(json.dumps(base))
    forged["gen"]["p"][0] += 1                               # results of another matrix
    tf = ctx.path("factor_trace-selftest.ndjson")
    with open(tf, "w") as f:
        for e in (base, flip, pert, pat, forged):
            f.write(json.dumps(e) + "\n")
    _, v = tlc_verdicts(ctx, tf, b, "selftest")
    ok = (1 not in v
          and 2 in v and "recon" in v[2]["fine"]
          and 3 in v and "recon" in v[3]["coarseonly"] and "factorexact" in v[3]["coarseonly"]
          and 4 in v and "pat1.lower" in v[4]["coarseonly"]
          and 5 in v and "binding" in v[5]["malformed"])
    if not ok:
        raise vlib.Infra("vacuous binding: corrupted events were not rejected: %s" % json.dumps(v)[:800])
    return "unchanged event accepted; flipped fine boolean -> fine failure; factor entry +3.0 -> coarse reconstruction and " \
           "exact-factor mismatch; entry above the diagonal -> coarse pattern mismatch; foreign generator -> binding"


# ------------------------------------------------------------------------------------------------ run
def execute(ctx, table, cases, b, label):
    cf = ctx.path("factor-cases-%s.ndjson" % label)
    with open(cf, "w") as f:
        f.write(table + "\n")
        for line, _ in cases:
            f.write(line + "\n")
    binary = ctx.go_build("factor")
    trace = ctx.path("factor-trace-%s.ndjson" % label)
    results = ctx.path("factor-results-%s.ndjson" % label)
    ctx.run([binary, "run", cf, trace, results, "6"], timeout=7200, env={"FACTOR_LIMIT_MS": str(b["limit_ms"])})
    summ = None
    for r in vlib.iter_ndjson(results):
        if r["kind"] == "summary":
            summ = r
    if summ is None:
        raise vlib.Infra("factor driver wrote no summary")
    if summ["fatals"]:
        ctx.log("driver children died in %d calls (logged as outcome fatal)" % summ["fatals"])
    return trace, summ


def run(ctx):
    b = BOUNDS[ctx.tier]
    ctx.sany("FactorizationTrace")
    res, table, cases, total = generate(ctx, b)
    cnt = vacuity(cases, b["N"])
    ctx.log("cases: %d generated, %d used (%s)" % (total, len(cases), "seeded 4x4 sample" if b["sample4"] else "all"))
    trace, summ = execute(ctx, table, cases, b, "main")
    nev, per_outcome, bad, head = validate(ctx, trace, b, "main")
    n_timeout = classify(ctx, table, cases, bad)
    rate_check(ctx, summ, bad)
    ctx.traces += nev
    ctx.log("calls: %d events (%d timeouts, %d calls skipped after a timeout of the same iteration), %d with a verdict" % (
        nev, summ["timeouts"], summ["skipped_after_timeout"], len(bad)))
    ctx.extra["binding_selftest"] = selftest(ctx, head, b)
    # evidence
    okev = [e for e in head if e["outcome"] == "ok"]
    ctx.sample({"case": cases[len(cases) // 3][1]})
    if okev:
        e = okev[len(okev) // 2]
        ctx.sample({"event": {k: e[k] for k in ("gen", "routine", "typ", "buf", "cu", "cv", "eps", "outcome", "f2", "vals", "recon", "resid")}})
    ctx.extra["bounds"] = {"N": b["N"], "Level": b["Level"], "cases_generated": total, "cases_used": len(cases),
                           "sample_of_4x4_cases": b["sample4"], "element_types": ["Float64", "Real64"],
                           "buffers": ["fresh", "reuse"], "watchdog_ms": b["limit_ms"], "fixed_point_scale": 1024}
    ctx.extra["structure_classes"] = cnt
    ctx.extra["calls_per_routine"] = summ["per_routine"]
    ctx.extra["outcomes"] = per_outcome
    ctx.extra["timeouts"] = {"count": n_timeout, "owner": TIMEOUT_OWNER, "skipped_after_timeout": summ["skipped_after_timeout"]}
    ctx.extra["events_with_verdict"] = len(bad)
    ctx.assumptions += [
        "numeric accuracy beyond about 1e-2 is decided by the harness residual evaluation (float64 loops in harness/cmd/factor/proj.go), "
        "TLC re-computes every equation only in fixed point (scale 2^10)",
        "non-termination of the QR / SVD / Denman-Beavers iterations is recorded as outcome timeout and owned by " + TIMEOUT_OWNER,
        "eigenvectors are demanded only for real eigenvalues; the real eigenvalues of a non-symmetric input are identified from the exact spectrum of the construction",
        "re-used buffers are InSitu objects left by a previous call of the same routine on another matrix of the same shape (with InitializeH set for the QR algorithm, as algorithm/newton does)"]
    return ctx.finish(
        rule="one case per generator record of Factorization.tla (14 structure classes, sizes 1..N, exhaustive over the parameter grids of the tier; "
             "quick: all cases up to 3x3, all ill-conditioned cases, plus a seeded class-stratified sample of the other 4x4 / 4xn cases); one evaluation per "
             "(case, routine, option combination, element type, buffer mode); distinct = distinct generator records",
        evaluations=nev, distinct_nontrivial=len(cases), exhaustive=b["sample4"] is None,
        trusted_base=["TLC", "CommunityModules Json", "Rat.tla", "harness residual evaluation (float64, harness/cmd/factor/proj.go)"])


def replay(ctx, path):
    with open(path) as f:
        v = json.load(f)
    d = v["detail"]
    b = dict(BOUNDS[ctx.tier])
    g = d["case"]["gen"]
    b["N"] = max(4, g["m"], g["n"]) if g["cls"] != "partred" else 4
    b["NP"] = max(b["NP"], g["m"], g["n"])
    b["Level"] = 2
    table = json.dumps(d["contracts"])
    case = dict(d["case"])
    case["routines"] = [d["event"]["routine"]]
    cases = [(json.dumps(case), case)]
    trace, summ = execute(ctx, table, cases, b, "replay")
    nev, _, bad, _ = validate(ctx, trace, b, "replay")
    classify(ctx, table, cases, bad)
    ctx.traces += nev
    return ctx.finish(rule="replay of the case and routine of one recorded violation (all option combinations)",
                      evaluations=nev, distinct_nontrivial=2)


MANIFEST = {
    "engine": "factor",
    "spec": "spec/Factorization.tla",
    "engine_text": "Factorization.tla (contract table of the 14 decomposition entry points, structure-class generator with exact "
                   "rational knowledge, model-level sanity invariant), FactorizationTrace.tla (decides every recorded call: "
                   "structure / ordering / sign contract, fixed-point re-computation of the defining equation, fine observations); "
                   "Go driver harness/cmd/factor (child processes, journal, watchdog)",
    "technique": "TLA+ contract + case enumeration by TLC with exact rationals; every real call recorded and validated by a TLC trace "
                 "specification that re-derives the case from the logged generator (two-stage oracle: coarse fixed point in TLC, fine "
                 "residuals in the harness projection)",
    "text": "TLC enumerates SPD / symmetric-with-known-spectrum / companion / triangular / banded / dense / rank-deficient / graded / "
            "ill-conditioned (graded singular values, Hilbert, Laeuchli; exact condition number, orthogonality tolerance u*cond) / "
            "SPD with prescribed condition number and exact square root / partially reduced (every pattern, n <= 7) inputs "
            "up to 4x4 and prints the exact Cholesky and LDL factors, eigenvalues and singular values where the construction yields them; "
            "the real Cholesky, LDL, forced-PD LDL, Gram-Schmidt, Householder bi-/tridiagonalisation, Hessenberg reduction, QR algorithm, "
            "eigensystem, SVD, matrix square root and inverse square root are called for every option combination, Float64 and Real64, "
            "fresh and re-used in-situ buffers; every call must reproduce its input with the promised factor structure, ordering and signs.",
    "note": "Trusted: TLC, Json module, Rat.tla, harness residual evaluation (plain float64 loops). Accuracy finer than the fixed-point "
            "re-computation (about 1e-2) rests on the harness projection; non-termination is reported as timeout and owned by C20.",
    "design_ref": "DESIGN.md section 5 (C05)",
}
