"""C16 - estimators return likelihood maximisers; EM never decreases the likelihood.

model -> code : spec/Estimators.tla states the weighted maximum-likelihood estimate of each
                closed-form family as exact rationals and model-checks the score equations on every
                data multiset within the bounds; every multiset is printed as a case and the real
                estimators (plain / weighted / batch interface, bounds active and inactive) must
                return those parameters; local optimality is re-checked by perturbation through
                the distributions' own LogPdf (projection).
code -> model : EM / Baum-Welch trajectories of the real mixture and HMM estimators, observed through
                the public hooks, are validated by spec/EMTrace.tla (monotone, hook likelihood =
                independently recomputed likelihood of the model entering the iteration, epsilon
                argument, stop rule, final model).
"""
import json
import vlib

LEVEL = "model_checking"
BOUNDS = {"quick": dict(MaxN=4, VecN=3, runs=500), "thorough": dict(MaxN=6, VecN=4, runs=40000)}


def replay_cases(ctx, binary, cases, tag, sub="replay"):
    results = ctx.path("estim-results-%s.ndjson" % tag)
    ctx.run([binary, sub, cases, results], timeout=1800)
    summ = None
    for r in vlib.iter_ndjson(results):
        if r["kind"] == "mismatch":
            r["detail"].setdefault("mode", "closed-form")
            ctx.violation(r["sig"], r["detail"])
        elif r["kind"] == "summary":
            summ = r
    if summ is None:
        raise vlib.Infra("estim replay wrote no summary")
    return summ


def record(ctx, binary, nruns, tag, env=None):
    trace = ctx.path("em_trace-%s.ndjson" % tag)
    results = ctx.path("em-results-%s.ndjson" % tag)
    ctx.run([binary, "record", trace, results, str(nruns)], timeout=3000, env=env)
    recs = vlib.read_ndjson(results)
    for r in recs:
        if r["kind"] == "mismatch":
            ctx.violation(r["sig"], r["detail"])
    runs = [r for r in recs if r["kind"] == "em_run"]
    events = vlib.read_ndjson(trace)
    # validate; after a rejection the offending unit (one EM run, or one numeric event) is reported, taken out and
    # the REST of the trace is validated again, so that one finding does not leave thousands of events unexamined
    alive = list(range(len(events)))          # indices into events still in the trace
    all_ok = True
    for attempt in range(12):
        cur = ctx.path("em_trace-%s-%d.ndjson" % (tag, attempt))
        with open(cur, "w") as f:
            for i in alive:
                f.write(json.dumps(events[i]) + "\n")
        ok, bad, why = vlib.validate_trace(ctx, "EMTrace", "EMTrace.cfg", "em_trace.ndjson", cur, timeout=1800,
                                           label="emtrace-%s-%d" % (tag, attempt))
        # numeric runs that break the contract are consumed by the named deviation action and printed
        devs = sorted(set(int(x) for x in __import__("re").findall(r'"NUMERIC_DEVIATION", (\d+)', open(ctx.last_trace_log).read())))
        for pos in devs:
            if pos - 1 < len(alive):
                ev = events[alive[pos - 1]]
                what = "error_on_well_posed_problem" if ev.get("err") else ("start_returned_without_error" if ev.get("unmoved") else "not_stationary")
                fam = ev.get("family", "?")
                ctx.violation({"engine": "estim", "what": what, "scenario": fam, "start": ev.get("start", ""),
                               "method": fam.rsplit("-", 1)[-1] if fam.startswith("numeric-") else ""},
                              {"mode": "numeric", "rejected_event": ev, "reason": "NumericDeviation (EMTrace.tla)",
                               "replay_note": "ESTIM_NUMDEBUG=1 estim record prints parameters and gradient of every numeric run"})
        if ok:
            break
        all_ok = False
        if not bad or bad > len(alive):
            raise vlib.Infra("EM trace rejected without a position: %s" % why)
        gi = alive[bad - 1]                    # index of the rejected event in the full trace (0-based)
        ev = events[gi]
        run = None
        for r in runs:
            if r["first_event"] - 1 <= gi < r["first_event"] - 1 + r["events"]:
                run = r
        if run is not None:
            first = run["first_event"] - 1
            ctx.violation({"engine": "estim", "what": "trajectory_rejected", "scenario": run["scenario"]},
                          {"mode": "em", "scenario": run["scenario"], "seed": run["seed"],
                           "eps_index": run["eps_index"], "maxsteps": run["maxsteps"],
                           "rejected_event": ev, "index_in_run": gi - first + 1, "reason": why,
                           "run_events": events[first:first + run["events"]][:60]})
            drop = set(range(first, first + run["events"]))
        else:
            what = "error_on_well_posed_problem" if ev.get("err") else ("start_returned_without_error" if ev.get("unmoved") else "not_stationary")
            ctx.violation({"engine": "estim", "what": what, "scenario": ev.get("family", "?"), "start": ev.get("start", ""),
                           "method": ev.get("family", "").rsplit("-", 1)[-1] if ev.get("family", "").startswith("numeric-") else ""},
                          {"mode": "numeric", "rejected_event": ev, "reason": why,
                           "replay_note": "ESTIM_NUMDEBUG=1 estim record prints parameters and gradient of every numeric run"})
            drop = {gi}
        alive = [i for i in alive if i not in drop]
    else:
        raise vlib.Infra("EM trace still rejected after 12 reported units")
    return all_ok, trace, runs


def run(ctx):
    b = BOUNDS[ctx.tier]
    ctx.sany("EMTrace")
    cases = ctx.path("estim-cases.ndjson")
    res = ctx.tlc("Estimators", "Estimators.cfg", workers=4, timeout=3000, json_out=cases,
                  consts={"MaxN": str(b["MaxN"])}, label="estimators")
    if res.json_count < 100:
        raise vlib.Infra("too few estimator cases")
    binary = ctx.go_build("estim")
    summ = replay_cases(ctx, binary, cases, "main")
    ctx.traces += summ["cases"]
    # multivariate normal (EstimatorsVec.tla)
    vcases = ctx.path("estimvec-cases.ndjson")
    vres = ctx.tlc("EstimatorsVec", "EstimatorsVec.cfg", workers=4, timeout=3000, json_out=vcases,
                   consts={"MaxN": str(b["VecN"])}, label="estimators-vec")
    if vres.json_count < 100:
        raise vlib.Infra("too few vector estimator cases")
    vsumm = replay_cases(ctx, binary, vcases, "vec", sub="replayvec")
    ctx.traces += vsumm["cases"]
    summ["cases"] += vsumm["cases"]
    summ["estimator_runs"] += vsumm["estimator_runs"]
    with open(cases) as f:
        lines = f.readlines()
    ctx.sample({"closed_form_case": json.loads(lines[len(lines) // 2])})
    ok, trace, runs = record(ctx, binary, b["runs"], "main")
    nev = sum(r["events"] for r in runs)
    ctx.log("closed-form: %d cases, %d estimator runs; EM: %d trajectories, %d events: %s" % (
        summ["cases"], summ["estimator_runs"], len(runs), nev, "accepted" if ok else "REJECTED"))
    if ok:
        ctx.traces += len(runs)
        events = vlib.read_ndjson(trace, limit=400)
        ctx.sample({"em_trajectory_prefix": events[:6]})
        # binding self-test: a decreasing likelihood and a hook that lies must both be rejected
        hooks = [i for i, e in enumerate(events) if e["e"] == "hook" and e["i"] >= 2]
        if len(hooks) < 3:
            raise vlib.Infra("self-test: too few iterations recorded")
        for name, mut in (("likelihood decreased", lambda ev: ev[hooks[1]].__setitem__("lik", ev[hooks[1] - 1]["lik"] - 5000)),
                          ("hook likelihood differs from the recomputed one", lambda ev: ev[hooks[1] - 1].__setitem__("recomp", ev[hooks[1] - 1]["recomp"] + 900))):
            ev2 = json.loads(json.dumps(events))
            mut(ev2)
            last = max(i for i, e in enumerate(ev2) if e["e"] == "return")
            bt = ctx.path("em_trace-corrupt.ndjson")
            with open(bt, "w") as f:
                for e in ev2[:last + 1]:
                    f.write(json.dumps(e) + "\n")
            ok2, _, _ = vlib.validate_trace(ctx, "EMTrace", "EMTrace.cfg", "em_trace.ndjson", bt, label="selftest")
            if ok2:
                raise vlib.Infra("vacuous binding: corrupted trajectory accepted (%s)" % name)
        # the named deviation action must fire on a non-stationary numeric event and on an error of a well-posed run
        import re as _re
        for name, evn in (("non-stationary result", {"gnorm": 2000000000, "err": False}), ("error on a well-posed problem", {"gnorm": 0, "err": True})):
            bt = ctx.path("em_trace-numeric-selftest.ndjson")
            e0 = {"e": "numeric", "family": "numeric-normal-rprop", "sparse": False, "cw": 0, "n": 10, "seed": 0,
                  "wellposed": True, "unmoved": False, "start": "near"}
            e0.update(evn)
            with open(bt, "w") as f:
                f.write(json.dumps(e0) + "\n")
            vlib.validate_trace(ctx, "EMTrace", "EMTrace.cfg", "em_trace.ndjson", bt, label="selftest-numeric")
            if not _re.search(r'"NUMERIC_DEVIATION", 1', open(ctx.last_trace_log).read()):
                raise vlib.Infra("vacuous binding: numeric deviation not reported (%s)" % name)
        ctx.extra["binding_selftest"] = "decreasing likelihood rejected; lying hook rejected; non-stationary numeric result and error on a well-posed numeric problem reported as deviations"
        # vacuity: every scenario completed at least once without error, every twin relation was observed
        per = {}
        for r in runs:
            e = per.setdefault(r["scenario"], [0, 0])
            e[0] += 1
            e[1] += 0 if r["error"] else 1
        dead = sorted(k for k, v in per.items() if v[1] == 0)
        if dead and len(runs) >= 100:
            raise vlib.Infra("vacuity: scenarios that never completed without an error: %s" % dead)
        twins = {}
        for e in vlib.iter_ndjson(trace):
            if e.get("e") == "twin":
                twins[e["what"]] = twins.get(e["what"], 0) + 1
        if len(runs) >= 100 and len(twins) < 4:
            raise vlib.Infra("vacuity: twin relations observed: %s" % sorted(twins))
        ctx.extra["scenarios"] = {k: {"runs": v[0], "without_error": v[1]} for k, v in sorted(per.items())}
        ctx.extra["twin_relations_observed"] = twins
        iters = [r["events"] - 3 for r in runs]
        ctx.extra["iterations_per_trajectory"] = {"min": min(iters), "max": max(iters), "total": sum(iters)}
        if max(iters) < 5:
            raise vlib.Infra("vacuity: no trajectory with more than 4 iterations")
    ctx.extra["bounds"] = {"closed_form": {"MaxN": b["MaxN"], "Xs": [0, 1, 2, 5], "Ws": [1, 2, 3],
                                           "families": ["normal", "exponential", "poisson", "geometric", "categorical", "negative binomial (r = 1, 7/2, 2/5)",
                                                        "translation wrapper around normal", "vector-normal (2-d, grid 3x3)"],
                                           "modes": ["weighted", "unweighted", "batch", "clone", "all log-weights shifted by -800 / +800 / -5000 (weighted), -800 (batch)"], "bounds": "sigmaMin 1e-3 / 1.5, lambdaMax 100 / 0.5"},
                           "em": {"trajectories": b["runs"], "scenarios": 28, "epsilon": [1e-8, 1e-4, 1e-2], "maxSteps": [-1, 1, 3, 8]}}
    ctx.extra["estimator_runs"] = summ["estimator_runs"]
    ctx.assumptions += ["NumericEstimator is not covered by the closed-form contract; logistic regression is covered by the stationarity events of EMTrace",
                        "the recomputed likelihood uses the distributions' own LogPdf (decided by C14/C15)"]
    return ctx.finish(
        rule="closed form: every data multiset of size <= MaxN over {0,1,2,5} x weights {1,2,3} (exhaustive), one case each, "
             "x 7 families x up to 9 modes x bound settings; EM: one trajectory per (scenario, seed, epsilon, maxSteps)",
        evaluations=summ["estimator_runs"] + len(runs), distinct_nontrivial=summ["cases"] + len(runs), exhaustive=True)


def replay(ctx, path):
    with open(path) as f:
        v = json.load(f)
    d = v["detail"]
    binary = ctx.go_build("estim")
    if d.get("mode") == "closed-form":
        cases = ctx.path("case.ndjson")
        with open(cases, "w") as f:
            f.write(json.dumps(d["case"]) + "\n")
        replay_cases(ctx, binary, cases, "replay")
    elif d.get("mode") == "closed-form-vec":
        cases = ctx.path("case.ndjson")
        with open(cases, "w") as f:
            f.write(json.dumps(d["case"]) + "\n")
        replay_cases(ctx, binary, cases, "replay", sub="replayvec")
    else:
        only = "%s %d %d %d" % (d["scenario"], d["seed"], d["eps_index"], d["maxsteps"])
        record(ctx, binary, 1, "replay", env={"ESTIM_ONLY": only})
    return ctx.finish(rule="replay of one recorded violation", evaluations=1, distinct_nontrivial=2)


MANIFEST = {
    "engine": "estim",
    "spec": "spec/Estimators.tla",
    "engine_text": "Estimators.tla (exact rational weighted MLE of the closed-form families + score equations), EMTrace.tla "
                   "(trajectory contract of EM / Baum-Welch observed through the public hooks); Go driver harness/cmd/estim",
    "technique": "TLA+ contract with exact rationals enumerated by TLC and replayed on the real estimators; EM/Baum-Welch "
                 "trajectories recorded through the public hooks validated by a TLC trace specification",
    "text": "TLC enumerates every small weighted data multiset, checks the score equations on the model and prints the exact MLE; the "
            "real estimators must return it in every calling mode and bound setting (plus a perturbation re-check); recorded EM and "
            "Baum-Welch trajectories must be monotone, report the likelihood of the entering model, pass the documented epsilon and "
            "obey the stop rule. Bounded data grid; numeric estimators (logistic regression, NumericEstimator) are held to stationarity of the recomputed gradient.",
    "note": "Trusted: TLC, Json module, Rat.tla, the distributions' LogPdf used for the recomputed likelihood and the perturbation test.",
    "design_ref": "DESIGN.md section 5 (C16)",
}
