"""C16 - estimators return likelihood maximisers; EM never decreases the likelihood.

model -> code : spec/Estimators.tla states the weighted maximum-likelihood estimate of each
                closed-form family as exact rationals and model-checks the score equations on every
                data multiset within the bounds; every multiset is printed as a case and the real
                estimators (plain / weighted / batch interface, bounds active and inactive) must
                return those parameters; local optimality is re-checked by perturbation through
                the distributions' own LogPdf (projection).
code -> model : EM / Baum-Welch trajectories of the real mixture and HMM estimators, observed through
                the public hooks, are validated by spec/EMTrace.tla (monotone, hook likelihood =
                independently recomputed likelihood of the model entering the iteration, epsilon
                argument, stop rule, final model).
"""
import json
import vlib

LEVEL = "model_checking"
BOUNDS = {"quick": dict(MaxN=4, VecN=3, runs=500), "thorough": dict(MaxN=6, VecN=4, runs=40000)}


def replay_cases(ctx, binary, cases, tag, sub="replay"):
    results = ctx.path("estim-results-%s.ndjson" % tag)
    ctx.run([binary, sub, cases, results], timeout=1800)
    summ = None
    for r in vlib.iter_ndjson(results):
        if r["kind"] == "mismatch":
            r["detail"].setdefault("mode", "closed-form")
            ctx.violation(r["sig"], r["detail"])
        elif r["kind"] == "summary":
            summ = r
    if summ is None:
        raise vlib.Infra("estim replay wrote no summary")
    return summ


def record(ctx, binary, nruns, tag, env=None):
    trace = ctx.path("em_trace-%s.ndjson" % tag)
    results = ctx.path("em-results-%s.ndjson" % tag)
    ctx.run([binary, "record", trace, results, str(nruns)], timeout=3000, env=env)
    recs = vlib.read_ndjson(results)
    for r in recs:
        if r["kind"] == "mismatch":
            ctx.violation(r["sig"], r["detail"])
    ok, bad, why = vlib.validate_trace(ctx, "EMTrace", "EMTrace.cfg", "em_trace.ndjson", trace, timeout=1800,
                                       label="emtrace-" + tag)
    runs = [r for r in recs if r["kind"] == "em_run"]
    if not ok:
        events = vlib.read_ndjson(trace)
        run = None
        for r in runs:
            if r["first_event"] <= (bad or 1) < r["first_event"] + r["events"]:
                run = r
        ev = events[(bad or 1) - 1] if bad and bad <= len(events) else None
        first = run["first_event"] if run else 1
        ctx.violation({"engine": "estim", "what": "trajectory_rejected", "scenario": run["scenario"] if run else "?"},
                      {"mode": "em", "scenario": run and run["scenario"], "seed": run and run["seed"],
                       "eps_index": run and run["eps_index"], "maxsteps": run and run["maxsteps"],
                       "rejected_event": ev, "index_in_run": (bad or 0) - first + 1, "reason": why,
                       "run_events": events[first - 1:first - 1 + (run["events"] if run else 30)][:60]})
    return ok, trace, runs


def run(ctx):
    b = BOUNDS[ctx.tier]
    ctx.sany("EMTrace")
    cases = ctx.path("estim-cases.ndjson")
    res = ctx.tlc("Estimators", "Estimators.cfg", workers=4, timeout=3000, json_out=cases,
                  consts={"MaxN": str(b["MaxN"])}, label="estimators")
    if res.json_count < 100:
        raise vlib.Infra("too few estimator cases")
    binary = ctx.go_build("estim")
    summ = replay_cases(ctx, binary, cases, "main")
    ctx.traces += summ["cases"]
    # multivariate normal (EstimatorsVec.tla)
    vcases = ctx.path("estimvec-cases.ndjson")
    vres = ctx.tlc("EstimatorsVec", "EstimatorsVec.cfg", workers=4, timeout=3000, json_out=vcases,
                   consts={"MaxN": str(b["VecN"])}, label="estimators-vec")
    if vres.json_count < 100:
        raise vlib.Infra("too few vector estimator cases")
    vsumm = replay_cases(ctx, binary, vcases, "vec", sub="replayvec")
    ctx.traces += vsumm["cases"]
    summ["cases"] += vsumm["cases"]
    summ["estimator_runs"] += vsumm["estimator_runs"]
    with open(cases) as f:
        lines = f.readlines()
    ctx.sample({"closed_form_case": json.loads(lines[len(lines) // 2])})
    ok, trace, runs = record(ctx, binary, b["runs"], "main")
    nev = sum(r["events"] for r in runs)
    ctx.log("closed-form: %d cases, %d estimator runs; EM: %d trajectories, %d events: %s" % (
        summ["cases"], summ["estimator_runs"], len(runs), nev, "accepted" if ok else "REJECTED"))
    if ok:
        ctx.traces += len(runs)
        events = vlib.read_ndjson(trace, limit=400)
        ctx.sample({"em_trajectory_prefix": events[:6]})
        # binding self-test: a decreasing likelihood and a hook that lies must both be rejected
        hooks = [i for i, e in enumerate(events) if e["e"] == "hook" and e["i"] >= 2]
        if len(hooks) < 3:
            raise vlib.Infra("self-test: too few iterations recorded")
        for name, mut in (("likelihood decreased", lambda ev: ev[hooks[1]].__setitem__("lik", ev[hooks[1] - 1]["lik"] - 5000)),
                          ("hook likelihood differs from the recomputed one", lambda ev: ev[hooks[1] - 1].__setitem__("recomp", ev[hooks[1] - 1]["recomp"] + 900))):
            ev2 = json.loads(json.dumps(events))
            mut(ev2)
            last = max(i for i, e in enumerate(ev2) if e["e"] == "return")
            bt = ctx.path("em_trace-corrupt.ndjson")
            with open(bt, "w") as f:
                for e in ev2[:last + 1]:
                    f.write(json.dumps(e) + "\n")
            ok2, _, _ = vlib.validate_trace(ctx, "EMTrace", "EMTrace.cfg", "em_trace.ndjson", bt, label="selftest")
            if ok2:
                raise vlib.Infra("vacuous binding: corrupted trajectory accepted (%s)" % name)
        ctx.extra["binding_selftest"] = "decreasing likelihood rejected; lying hook rejected"
        # vacuity: every scenario completed at least once without error, every twin relation was observed
        per = {}
        for r in runs:
            e = per.setdefault(r["scenario"], [0, 0])
            e[0] += 1
            e[1] += 0 if r["error"] else 1
        dead = sorted(k for k, v in per.items() if v[1] == 0)
        if dead and len(runs) >= 100:
            raise vlib.Infra("vacuity: scenarios that never completed without an error: %s" % dead)
        twins = {}
        for e in vlib.iter_ndjson(trace):
            if e.get("e") == "twin":
                twins[e["what"]] = twins.get(e["what"], 0) + 1
        if len(runs) >= 100 and len(twins) < 3:
            raise vlib.Infra("vacuity: twin relations observed: %s" % sorted(twins))
        ctx.extra["scenarios"] = {k: {"runs": v[0], "without_error": v[1]} for k, v in sorted(per.items())}
        ctx.extra["twin_relations_observed"] = twins
        iters = [r["events"] - 3 for r in runs]
        ctx.extra["iterations_per_trajectory"] = {"min": min(iters), "max": max(iters), "total": sum(iters)}
        if max(iters) < 5:
            raise vlib.Infra("vacuity: no trajectory with more than 4 iterations")
    ctx.extra["bounds"] = {"closed_form": {"MaxN": b["MaxN"], "Xs": [0, 1, 2, 5], "Ws": [1, 2, 3],
                                           "families": ["normal", "exponential", "poisson", "geometric", "categorical", "negative binomial (r = 1, 7/2, 2/5)",
                                                        "translation wrapper around normal", "vector-normal (2-d, grid 3x3)"],
                                           "modes": ["weighted", "unweighted", "batch", "clone", "all log-weights shifted by -800 / +800 / -5000 (weighted), -800 (batch)"], "bounds": "sigmaMin 1e-3 / 1.5, lambdaMax 100 / 0.5"},
                           "em": {"trajectories": b["runs"], "scenarios": 23, "epsilon": [1e-8, 1e-4, 1e-2], "maxSteps": [-1, 1, 3, 8]}}
    ctx.extra["estimator_runs"] = summ["estimator_runs"]
    ctx.assumptions += ["NumericEstimator is not covered by the closed-form contract; logistic regression is covered by the stationarity events of EMTrace",
                        "the recomputed likelihood uses the distributions' own LogPdf (decided by C14/C15)"]
    return ctx.finish(
        rule="closed form: every data multiset of size <= MaxN over {0,1,2,5} x weights {1,2,3} (exhaustive), one case each, "
             "x 7 families x up to 9 modes x bound settings; EM: one trajectory per (scenario, seed, epsilon, maxSteps)",
        evaluations=summ["estimator_runs"] + len(runs), distinct_nontrivial=summ["cases"] + len(runs), exhaustive=True)


def replay(ctx, path):
    with open(path) as f:
        v = json.load(f)
    d = v["detail"]
    binary = ctx.go_build("estim")
    if d.get("mode") == "closed-form":
        cases = ctx.path("case.ndjson")
        with open(cases, "w") as f:
            f.write(json.dumps(d["case"]) + "\n")
        replay_cases(ctx, binary, cases, "replay")
    elif d.get("mode") == "closed-form-vec":
        cases = ctx.path("case.ndjson")
        with open(cases, "w") as f:
            f.write(json.dumps(d["case"]) + "\n")
        replay_cases(ctx, binary, cases, "replay", sub="replayvec")
    else:
        only = "%s %d %d %d" % (d["scenario"], d["seed"], d["eps_index"], d["maxsteps"])
        record(ctx, binary, 1, "replay", env={"ESTIM_ONLY": only})
    return ctx.finish(rule="replay of one recorded violation", evaluations=1, distinct_nontrivial=2)


MANIFEST = {
    "engine": "estim",
    "spec": "spec/Estimators.tla",
    "engine_text": "Estimators.tla (exact rational weighted MLE of the closed-form families + score equations), EMTrace.tla "
                   "(trajectory contract of EM / Baum-Welch observed through the public hooks); Go driver harness/cmd/estim",
    "technique": "TLA+ contract with exact rationals enumerated by TLC and replayed on the real estimators; EM/Baum-Welch "
                 "trajectories recorded through the public hooks validated by a TLC trace specification",
    "text": "TLC enumerates every small weighted data multiset, checks the score equations on the model and prints the exact MLE; the "
            "real estimators must return it in every calling mode and bound setting (plus a perturbation re-check); recorded EM and "
            "Baum-Welch trajectories must be monotone, report the likelihood of the entering model, pass the documented epsilon and "
            "obey the stop rule. Bounded data grid; numeric estimators are outside the contract.",
    "note": "Trusted: TLC, Json module, Rat.tla, the distributions' LogPdf used for the recomputed likelihood and the perturbation test.",
    "design_ref": "DESIGN.md section 5 (C16)",
}
