"""C06 - derivatives propagate through linear algebra; fast paths equal generic paths.

model -> code : spec/MatrixCalculus.tla (on top of the contract LinSolve.tla)
                states the exact matrix-calculus derivatives over rationals and
                TLC verifies each table against its differentiated defining
                equation (A dX + E X = 0, dL L' + L dL' = S, affine differences
                of det, bilinear differences of the product, ...), then prints
                the tables per case; harness/cmd/linalg activates the listed
                entries on Real64/Real32 matrices (order 1, order 2 for
                products, determinant and 2x2 inverses), runs the REAL
                routines and compares values and derivatives.  Polynomial maps
                differentiated term-wise by TLC are the oracle of the
                Jacobian/Hessian helpers, for evaluation points in every
                derivative state named by the contract (PointStates).  On the
                LinSolve cases the hand-specialised float paths
                (gaussJordan_optimized, cholesky_float64/32 in every option
                combination, on definite and indefinite symmetric input) are
                compared with the generic scalar-interface path on equal input.
"""
import json

import vlib
import c04 as base

LEVEL = "model_checking"

TIERS = {
    # ModD3: one of ModD3 of the 3x3 matrices; ModD4: slices of q4 / spd4; ModP: polynomial maps;
    # Mod3/Mod4: LinSolve slices used for the fast-vs-generic comparison
    "quick": dict(Full="FALSE", Mod3="48", Mod4="64", NB="64", ModD3="96", ModD4="8", ModP="24", procs=4),
    "thorough": dict(Full="FALSE", Mod3="2", Mod4="8", NB="256", ModD3="4", ModD4="1", ModP="1", procs=6),
}


def concurrent_family(ctx, cases, t):
    base.reentrancy_model(ctx)
    race = ctx.go_build("linalg", race=True)
    res = ctx.path("concurrent.ndjson")
    rounds = "2" if ctx.tier == "quick" else "4"
    rc, _, err, _ = ctx.run([race, "concurrent", cases, res, "8", rounds], timeout=2400, ok_codes=(0, 66),
                            env={"GORACE": "halt_on_error=0 exitcode=66"})
    nrace = (err or "").count("WARNING: DATA RACE")
    if rc == 66 or nrace:
        rep = err or ""
        i = rep.find("WARNING: DATA RACE")
        ctx.violation({"engine": "linalg", "op": "concurrent", "type": "any", "opts": "concurrent", "what": "not_reentrant",
                       "how": "race_detector"},
                      {"mode": "concurrent", "goroutines": 8, "rounds": rounds, "reports": nrace, "first_report": rep[i:i + 2500]})
    summ = None
    for r in vlib.iter_ndjson(res):
        if r["kind"] == "summary":
            summ = r
        elif r["kind"] == "mismatch":
            ctx.violation(r["sig"], dict(r["detail"], mode="concurrent"))
    if summ is None or summ.get("jobs", 0) == 0:
        raise vlib.Infra("concurrent run wrote no summary / no jobs")
    ctx.extra["concurrent_family"] = {"jobs": summ["jobs"], "matrices": summ["cases"], "goroutines": 8, "rounds": int(rounds),
                                      "bitwise_mismatches": summ["mismatches"], "race_reports": nrace}
    return summ


def run(ctx):
    t = TIERS[ctx.tier]
    for m in ("LinSolve", "MatrixCalculus"):
        ctx.sany(m)
    consts = base.gen_consts(ctx, t)
    dconsts = dict(consts, ModD3=t["ModD3"], ModD4=t["ModD4"], ModP=t["ModP"])
    # 1. derivative tables, each verified against its defining equation by TLC
    dcases = ctx.path("dcases.ndjson")
    res = ctx.tlc("MatrixCalculus", "MatrixCalculus.cfg", workers=8, timeout=3000, label="tables", json_out=dcases,
                  consts=dconsts, heap="4g")
    kinds, fams = {}, {}
    o2inv = ntri = zero_j = zero_h = 0
    samples = {}
    for c in vlib.iter_ndjson(dcases):
        kinds[c["k"]] = kinds.get(c["k"], 0) + 1
        key = "%s%d" % (c["fam"], c["n"])
        fams[key] = fams.get(key, 0) + 1
        if c["k"] == "poly":
            zero_j += 1 if c["zj"] > 0 else 0
            zero_h += 1 if c["zh"] > 0 else 0
        if c["k"] == "dmat":
            o2inv += 1 if c["d2inv"] else 0
            ntri += 1 if c["tri"] else 0
        if c["k"] not in samples and c["n"] >= 2:
            samples[c["k"]] = c
    ctx.log("MatrixCalculus: %d cases %s %s" % (res.json_count, json.dumps(kinds, sort_keys=True), json.dumps(fams, sort_keys=True)))
    for k in ("dmat", "dspd", "poly"):
        if kinds.get(k, 0) == 0:
            raise vlib.Infra("vacuity: no case of kind " + k)
    for k in ("g2", "g3", "pd3", "q44", "spd2", "spd3", "spd4"):
        if fams.get(k, 0) == 0:
            raise vlib.Infra("vacuity: no derivative case of family " + k)
    if zero_j == 0 or zero_h == 0:
        raise vlib.Infra("vacuity: no polynomial case with an exactly-zero partial derivative (jac %d, hess %d)" % (zero_j, zero_h))
    if o2inv == 0 or ntri == 0:
        raise vlib.Infra("vacuity: order-2 inverse cases=%d triangular cases=%d" % (o2inv, ntri))
    # 2. matrices for the fast-vs-generic comparison
    cases = ctx.path("cases.ndjson")
    res2 = ctx.tlc("LinSolve", "LinSolve.cfg", workers=8, timeout=3000, label="cases", json_out=cases,
                   consts=consts, heap="4g")
    fam, sing, masks4, ntri2, nspd, nonprefix, _ = base.case_stats(cases)
    if nspd == 0 or ntri2 == 0 or fam.get("p44", 0) == 0:
        raise vlib.Infra("vacuity: LinSolve slice lacks spd/tri/p4 members: %s" % fam)
    # 3. the real routines
    binary = ctx.go_build("linalg")
    total, mism = base.run_driver(ctx, binary, "c06", dcases, "c06d", procs=t["procs"])
    base.report(ctx, mism, "replay")
    total2, mism2 = base.run_driver(ctx, binary, "c06", cases, "c06m", procs=t["procs"])
    base.report(ctx, mism2, "replay")
    # vacuity: every evaluation-point state of the contract was built and handed to the helpers, and the
    # Cholesky option variants ran on definite AND indefinite symmetric input (failing alike / modified factor)
    cnt, cnt2 = total["counts"], total2["counts"]
    for st in ("fresh", "slice_o1", "slice_o2", "computed_o1", "computed_o2", "sameN_o1", "sameN_o2"):
        if cnt.get("point_state:" + st, 0) == 0:
            raise vlib.Infra("vacuity: evaluation-point state %s never reached the Jacobian/Hessian helpers" % st)
    for ty in ("f64", "f32", "r64", "r32", "int", "i64", "i32", "i16"):
        for ms in ("fresh", "junk", "reused"):
            if cnt.get("result_matrix:%s:%s" % (ty, ms), 0) == 0:
                raise vlib.Infra("vacuity: no Jacobian/Hessian call with a %s result matrix of type %s" % (ms, ty))
    for k in ("agree:cholesky/default:ok", "agree:cholesky/default:error", "agree:cholesky/ldl:ok", "agree:cholesky/ldl:error",
              "agree:cholesky/ldl+forcepd:ok", "agree:cholesky/ldl+forcepd+insitu_dirty/D:ok", "agree:cholesky/forcepd:ok"):
        if cnt2.get(k, 0) == 0:
            raise vlib.Infra("vacuity: no fast-vs-generic comparison of kind " + k)
    if fam.get("sym3", 0) == 0 or fam.get("sym4", 0) == 0:
        raise vlib.Infra("vacuity: no symmetric indefinite inputs: %s" % fam)
    # 4. concurrent family (contract Reentrancy.tla): the fast-path routines from 8 goroutines on different
    #    TLC-generated matrices, -race build; results must equal the sequential ones bit for bit
    conc = concurrent_family(ctx, cases, t)
    ctx.log("replayed %d derivative cases (%d checks) and %d matrices fast-vs-generic (%d checks), %d mismatch records" % (
        total["cases"], total["checks"], total2["cases"], total2["checks"], len(mism) + len(mism2)))
    if total["cases"] != res.json_count or total2["cases"] != res2.json_count:
        if not any(r["sig"].get("what") == "timeout" for r in mism + mism2):
            raise vlib.Infra("driver replayed %d/%d of %d/%d cases" % (total["cases"], total2["cases"], res.json_count, res2.json_count))
    for k in ("dmat", "dspd", "poly"):
        s = dict(samples[k])
        for big in ("d2inv", "d2c", "dinv", "dca", "dcb", "dL", "d2det"):
            if big in s:
                s[big] = "..."
        ctx.sample({"replayed_case": s})
    ctx.extra["replay"] = {"derivative_cases": kinds, "derivative_families": fams, "order2_inverse_cases": o2inv,
                           "triangular_derivative_cases": ntri, "fast_vs_generic_matrices": total2["cases"],
                           "point_states": {k: v for k, v in cnt.items() if k.startswith("point_state")},
                           "result_matrix_states": {k[14:]: v for k, v in cnt.items() if k.startswith("result_matrix:")},
                           "poly_cases_with_exactly_zero_partials": {"jacobian": zero_j, "hessian": zero_h},
                           "info_only_lower_triangle_input": {k[25:]: v for k, v in cnt2.items()
                                                              if k.startswith("info:lower_triangle_only:")},
                           "cholesky_option_runs": {k[6:]: v for k, v in cnt2.items() if k.startswith("agree:cholesky")},
                           "checks": total["checks"] + total2["checks"]}
    ctx.extra["bounds"] = {"tier_constants": t, "element_types": {"derivatives": ["Real64", "Real32"],
                                                                  "fast_vs_generic": ["Float64 vs Real64", "Float32 vs Real32"],
                                                                  "jacobian_hessian": ["Float64", "Float32", "Real64", "Real32", "Int", "Int64", "Int32", "Int16", "Int8"]},
                           "activated": "all entries for n<=2, 4 entries (rotating with the case index) for n=3,4; symmetric pairs for SPD",
                           "orders": "1 everywhere; 2 for MdotM, determinant, inverse of n<=2, Hessian helper",
                           "tolerance": "values 1e-9 (1+|x|) kappa; derivatives 1e-9 (1+|d|) kappa^2 (order 2: kappa^3); "
                                        "32 bit: 1e-4; fast vs generic 16 u kappa (1+|x|)",
                           "polynomials": "maps R^3->R^3, three terms each, exponents 0..2, coefficients {-2,-1,1,2,3}, points in halves; "
                                          "each point in 7 derivative states (fresh, slice of an activated vector order 1/2, computed from "
                                          "other variables order 1/2, same N reversed layout order 1, same N computed order 2); coordinates "
                                          "include 0 (exactly-zero partials); result matrix fresh / pre-filled / filled by a previous call; "
                                          "integer result types hold the table truncated towards zero (printed by TLC)",
                           "cholesky_options": "plain, ForcePD, LDL, LDL+ForcePD x default/fresh/dirty buffers on every symmetric case "
                                               "(SPD family and the indefinite family sym n=3,4), Float64 vs generic and Float32 vs generic"}
    ctx.traces += total["cases"] + total2["cases"]
    return ctx.finish(
        rule="one case per (matrix, activated entries) printed by TLC from MatrixCalculus.tla with its exact derivative tables "
             "(families g/pd/q4/spd, polynomial maps), replayed on Real64/Real32 matrices through matrixInverse, gaussJordan, "
             "backSubstitution, determinant, cholesky, MdotM and the Jacobian/Hessian helpers; plus every LinSolve.tla case run "
             "through the specialised and the generic path; a case is distinct by (kind, family, n, index)",
        evaluations=total["checks"] + total2["checks"], distinct_nontrivial=total["cases"] + total2["cases"],
        exhaustive=False)


def replay(ctx, path):
    with open(path) as f:
        v = json.load(f)
    d = v["detail"]
    binary = ctx.go_build("linalg")
    cases = ctx.path("case.ndjson")
    with open(cases, "w") as f:
        if "case" in d:
            f.write(json.dumps(d["case"]) + "\n")
    if d.get("mode") == "concurrent":
        # a schedule cannot be replayed exactly: re-run the concurrent family on a fresh set of cases
        res2 = ctx.tlc("LinSolve", "LinSolve.cfg", workers=8, timeout=3000, label="cases", json_out=cases,
                       consts=base.gen_consts(ctx, TIERS["quick"]), heap="4g")
        concurrent_family(ctx, cases, TIERS["quick"])
        return ctx.finish(rule="re-run of the concurrent family", evaluations=1, distinct_nontrivial=1)
    total, mism = base.run_driver(ctx, binary, "c06", cases, "replay", procs=1)
    base.report(ctx, mism, "replay")
    return ctx.finish(rule="replay of one recorded violation", evaluations=1, distinct_nontrivial=1)


MANIFEST = {
    "engine": "linalg",
    "spec": "spec/MatrixCalculus.tla",
    "engine_text": "MatrixCalculus.tla (exact matrix-calculus derivative tables over rationals, each verified by TLC against its "
                   "differentiated defining equation; polynomial maps for the Jacobian/Hessian helpers) on top of LinSolve.tla "
                   "(contract for the values); Go driver harness/cmd/linalg",
    "technique": "TLA+ contract evaluated exactly by TLC on enumerated small integer matrices with spec-chosen activated entries; "
                 "every printed case replayed on the real routines with magic-scalar matrices; specialised and generic code paths "
                 "driven on equal TLC-generated input",
    "text": "TLC prints, for integer matrices up to 4x4 (all 2x2 over -2..2, slices of the 3x3 and 4x4 families, the SPD family "
            "A = L L' from integer L) the exact derivatives of determinant, log-determinant, inverse, solve, matrix product "
            "(first and second order where stated) and of the Cholesky factor in symmetric directions, after checking each table "
            "against its defining equation (A dX + E X = 0, dL L' + L dL' = S, exact differences of the multi-affine determinant "
            "and the bilinear product). The driver activates those entries on Real64/Real32 matrices, runs matrixInverse "
            "(Gauss-Jordan and Cholesky paths, re-used buffers), gaussJordan (entries of A and b as variables), "
            "backSubstitution, determinant (+PositiveDefinite, LogScale), cholesky, MdotM and compares values with the exact "
            "ones (hence with the float run) and GetDerivative/GetHessian with the tables. Jacobian/Hessian helpers of all four "
            "dense matrix types are run on polynomial maps differentiated by TLC, with the evaluation point in seven derivative "
            "states (fresh, slice of a larger activated vector, computed from other variables, same number of variables in "
            "another layout; orders 1 and 2) and the result matrix (of every element type the helpers exist for, plain float, "
            "integer and Real) fresh, pre-filled with junk or filled by a previous call at another point, at points with "
            "exactly-zero partial derivatives: the helpers must return the derivatives with respect to their argument whatever it "
            "carries, and the result matrix must hold exactly the printed table whatever it held before. On every LinSolve case the DenseFloat64 Gauss-Jordan and, on every symmetric case (SPD and indefinite "
            "families), the float32/float64 Cholesky paths in every option combination (plain, ForcePD, LDL, LDL+ForcePD; "
            "default, fresh and dirty buffers) must agree with the generic path in outcome and to 16 u kappa. QR algorithm / eigensystem / SVD / Gram-Schmidt / Hessenberg derivative propagation is not covered here.",
    "level_note": "The concurrent family (8 goroutines, -race build, bit-wise comparison with the sequential run) is a probe of "
                  "schedules chosen by the Go runtime, not an enumeration; its contract is model-checked in Reentrancy.tla.",
    "note": "Trusted: TLC, CommunityModules Json, Rat.tla, the Go driver's comparison code. Partial with respect to the property's "
            "quantifier: the iterative factorisations are outside this check.",
    "design_ref": "DESIGN.md section 5 (C06), section 4 (MatrixCalculus)",
}
