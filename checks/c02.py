"""C02 - every scalar type computes the mathematical function its method names.

model -> code : spec/ScalarTypes.tla is the contract of the sixteen scalar types
                (type table, exact integers as two's-complement byte vectors,
                Embed / Convert by Go's conversion rules, the integer ring modulo
                2^w, order / sign / min / max in the receiver's representation, the
                IEEE result class of every operation on special operands);
                spec/ScalarTypesCases.tla enumerates operation x receiver type x
                operand types x value grid and prints every case with the result the
                specification demands: an exact value, a boolean, "panic allowed",
                "implementation-defined", or - for real-valued results - the MEANING
                TERM of spec/Expr.tla over the operands.  harness/cmd/scalartypes
                executes each case on the real types through the generic interfaces
                (and the type-specific CAPITAL methods where the operand types allow),
                magic operands as constants and as order-1/2 variables, and compares.
code -> model : seeded random operation sequences over a pool of scalars of all types
                (slots change type through conversions) are recorded and must be
                accepted by spec/ScalarTypesTrace.tla, which keeps its own pool and
                recomputes every integer / conversion / comparison result exactly.
"""
import json
import os

import vlib

LEVEL = "model_checking"

# K: one K-th of the non-core binary cases; record: traces, operations per trace
TIERS = {
    "quick": dict(K=100, rich=0, record=(20, 300), workers=4, timeout=900),
    "thorough": dict(K=2, rich=1, record=(150, 1000), workers=4, timeout=5400),
}

ALL_OPS = ["Set", "Reset", "Neg", "Abs", "Sqrt", "Sin", "Sinh", "Cos", "Cosh", "Tan", "Tanh", "Exp", "Log", "Log1p", "Log1pExp",
           "Logistic", "Sigmoid", "Erf", "Erfc", "LogErfc", "Gamma", "Lgamma", "Add", "Sub", "Mul", "Div", "Pow",
           "Min", "Max", "LogAdd", "LogSub", "Mlgamma", "GammaP", "BesselI", "LogBesselI", "Vmean", "VdotV", "Vnorm",
           "SmoothMax", "LogSmoothMax", "Mtrace", "Mnorm", "Sign", "Greater", "Smaller", "Equals",
           "GetInt8", "GetInt16", "GetInt32", "GetInt64", "GetInt", "GetFloat32", "GetFloat64",
           "SetInt8", "SetInt16", "SetInt32", "SetInt64", "SetInt", "SetFloat32", "SetFloat64",
           "CloneConstScalar", "CloneScalar", "CloneMagicScalar",
           "ConvertConstScalar", "ConvertScalar", "ConvertMagicScalar",
           "NewScalar", "NewConstScalar", "NewMagicScalar", "NullScalar", "NullConstScalar", "NullMagicScalar",
           "pkg.LogAdd", "pkg.LogSub", "pkg.LogErfc"]
MUST_COUNT = ["exact_ok", "agree_ok", "term_float_ok", "term_int_ok", "cross_ok", "panic_allowed_taken", "implementation_defined",
              "concrete_calls"]
TRACE_NAME = "scalartypes_trace.ndjson"


def generate(ctx, cfgt, tag="cases"):
    cases = ctx.path(tag + ".ndjson")
    res = ctx.tlc("ScalarTypesCases", "ScalarTypesCases.cfg", workers=cfgt["workers"], timeout=cfgt["timeout"],
                  json_out=cases, label=tag,
                  consts={"Seed": str(ctx.seed % 100000), "K": str(cfgt["K"]), "Rich": str(cfgt["rich"]),
                          "Part": '"all"'})
    if res.json_count < 1000:
        raise vlib.Infra("ScalarTypesCases printed only %d cases" % res.json_count)
    return cases, res


def run_replay(ctx, binary, cases, tag, extra=None):
    results = ctx.path("results-%s.ndjson" % tag)
    ctx.run([binary, "replay", cases, results], timeout=3000)
    summary = None
    for r in vlib.iter_ndjson(results):
        if r["kind"] == "summary":
            summary = r
        elif r["kind"] == "mismatch":
            d = r["detail"]
            d["mode"] = "replay"
            if extra:
                d.update(extra)
            ctx.violation(r["sig"], d)
    if summary is None:
        raise vlib.Infra("scalartypes replay wrote no summary (driver died?)")
    return summary


def record_and_validate(ctx, binary, ntr, nops, seed, tag):
    trace = ctx.path("trace-%s.ndjson" % tag)
    ctx.run([binary, "record", trace, str(ntr), str(nops)], env={"VERIF_SEED": str(seed)}, timeout=1200)
    nev = sum(1 for _ in open(trace))
    ok, bad, why = vlib.validate_trace(ctx, "ScalarTypesTrace", "ScalarTypesTrace.cfg", TRACE_NAME, trace,
                                       timeout=3000, label="trace-" + tag)
    info = {"mode": "record", "seed": seed, "ntraces": ntr, "nops": nops}
    if not ok:
        evs = vlib.read_ndjson(trace)
        e = evs[bad - 1] if bad and bad <= len(evs) else None
        # the slots involved, as the recorder logged them last
        hist = []
        if e:
            want = {e.get("r"), e.get("a"), e.get("b")}
            for x in evs[:bad - 1]:
                if x.get("e") == "init":
                    hist = [x]
                elif x.get("r") in want and x.get("e") not in ("Get", "Greater", "Smaller", "Sign"):
                    hist.append(x)
            hist = hist[:1] + hist[-8:]
        rt = "?"
        ctx.violation({"engine": "scalartypes", "g": "trace", "op": (e or {}).get("e", "?"), "what": "trace_rejected",
                       "impl": "generic"},
                      dict(info, rejected_at=bad, reason=why, event=e, history_of_slots=hist))
    return trace, nev, ok


def self_test(ctx, trace):
    """Binding: a corrupted copy of the accepted trace must be rejected where it was corrupted."""
    events = vlib.read_ndjson(trace, limit=1500)
    done = []
    for what in ("int_ring", "conversion_type", "comparison"):
        evs = json.loads(json.dumps(events))
        idx = None
        for i, e in enumerate(evs):
            if i < 30:
                continue
            if what == "int_ring" and e["e"] in ("Add", "Sub", "Mul") and e["out"]["k"] == "int" \
                    and evs_type_is_int(evs, i):
                e["out"]["b"][0] = (e["out"]["b"][0] + 1) % 256
                idx = i
                break
            if what == "conversion_type" and e["e"] in ("ConvertScalar", "ConvertConstScalar") and e["ty"] == e["tt"] \
                    and e["tt"] != "Real64" and e["out"]["k"] == "int":
                e["ty"] = "Real64"
                idx = i
                break
            if what == "comparison" and e["e"] in ("Greater", "Smaller") and e["out"]["k"] == "bool":
                e["out"]["n"] = 1 - e["out"]["n"]
                idx = i
                break
        if idx is None:
            raise vlib.Infra("self-test: no event to corrupt for " + what)
        bad_trace = ctx.path("trace-corrupt.ndjson")
        with open(bad_trace, "w") as f:
            for e in evs:
                f.write(json.dumps(e) + "\n")
        ok2, bad2, _ = vlib.validate_trace(ctx, "ScalarTypesTrace", "ScalarTypesTrace.cfg", TRACE_NAME, bad_trace,
                                           label="selftest-" + what)
        if ok2 or bad2 != idx + 1:
            raise vlib.Infra("vacuous binding: corrupted %s at event %d accepted=%s rejected_at=%s"
                             % (what, idx + 1, ok2, bad2))
        done.append("%s corrupted at event %d: rejected there" % (what, idx + 1))
    return done


def evs_type_is_int(evs, i):
    """Is the receiver slot of event i an integer type (follow the slot's type through the trace)?"""
    r = evs[i]["r"]
    ty = None
    for x in evs[:i]:
        if x["e"] == "init":
            ty = x["pool"][r - 1]["t"]
        elif x.get("r") == r and x.get("ty"):
            ty = x["ty"]
    return ty is not None and "Int" in ty


def run(ctx):
    cfgt = TIERS[ctx.tier]
    ctx.sany("ScalarTypesTrace")
    # 1. the specification enumerates the cases (and checks the contract on itself)
    cases, res = generate(ctx, cfgt)
    ctx.log("ScalarTypesCases: %d cases in %.0fs" % (res.json_count, res.wall))
    # 2. replay
    binary = ctx.go_build("scalartypes")
    summ = run_replay(ctx, binary, cases, "cases")
    counts = summ["counts"]
    ctx.log("replayed %d cases, %d executions, %d judged, %d mismatching executions"
            % (counts.get("cases", 0), summ["executions"], summ["judged"], counts.get("mismatches", 0)))
    # vacuity
    missing = [o for o in ALL_OPS if o not in summ["ops"]]
    if missing:
        raise vlib.Infra("operations never exercised: %s" % missing)
    if len(summ["receivers"]) != 9 or summ["operand_type_pairs"] != 256:
        raise vlib.Infra("type coverage incomplete: receivers=%s operand type pairs=%s"
                         % (summ["receivers"], summ["operand_type_pairs"]))
    zero = [k for k in MUST_COUNT if counts.get(k, 0) == 0]
    if zero:
        raise vlib.Infra("vacuity: no case of kind %s" % zero)
    with open(cases) as f:
        f.readline()
        for _ in range(3):
            line = f.readline()
        ctx.sample({"replayed_case": json.loads(line)})
    # 3. recorded sequences validated by the trace specification
    ntr, nops = cfgt["record"]
    trace, nev, ok = record_and_validate(ctx, binary, ntr, nops, ctx.seed, "rec")
    ctx.log("recorded %d events in %d traces: %s" % (nev, ntr, "accepted" if ok else "REJECTED"))
    if ok:
        ctx.traces += ntr
        evs = vlib.read_ndjson(trace, limit=6)
        ctx.sample({"recorded_events": evs[1:5]})
        ctx.extra["binding_selftest"] = self_test(ctx, trace)
    ctx.traces += counts.get("cases", 0)
    ctx.extra["replay_counts"] = counts
    ctx.extra["replay_executions"] = summ["executions"]
    ctx.extra["recorded_events"] = nev
    ctx.extra["bounds"] = {"K": cfgt["K"], "rich_grid": cfgt["rich"], "seed_slice": ctx.seed % 100000,
                           "record": {"traces": ntr, "ops_per_trace": nops, "pool": 20},
                           "op_receiver_pairs": summ["op_receiver_pairs"], "operand_type_pairs": 256,
                           "derivative_orders_of_magic_operands": [0, 1, 2]}
    return ctx.finish(
        rule="one case per (operation, receiver type, operand types, operand values) printed by ScalarTypesCases.tla "
             "with the demanded result; unary / read-only / setter / parametrised / reduction / conversion / constructor "
             "cases completely, binary cases = core (own-type operands completely, same-type or receiver-type operands "
             "on a diagonal family of value pairs) plus one K-th of the rest selected by a seed-shifted hash; every case "
             "is executed for derivative orders 0,1,2 of magic operands and through the CAPITAL method where one fits; "
             "plus recorded pool histories accepted by ScalarTypesTrace.tla",
        evaluations=summ["executions"] + nev, distinct_nontrivial=summ["judged"], exhaustive=False)


def replay(ctx, path):
    with open(path) as f:
        v = json.load(f)
    d = v["detail"]
    binary = ctx.go_build("scalartypes")
    if d.get("mode") == "record":
        record_and_validate(ctx, binary, d["ntraces"], d["nops"], d["seed"], "replay")
    else:
        cases = ctx.path("case.ndjson")
        with open(cases, "w") as f:
            f.write(json.dumps(d["case"]) + "\n")
        run_replay(ctx, binary, cases, "replay")
    return ctx.finish(rule="replay of one recorded violation", evaluations=1, distinct_nontrivial=1)


MANIFEST = {
    "engine": "scalartypes",
    "spec": "spec/ScalarTypes.tla",
    "engine_text": "ScalarTypes.tla (contract: type table, 64-bit two's-complement integers as byte vectors, Embed/Convert by "
                   "Go's conversion rules with exact round-to-nearest-even, integer ring modulo 2^w, order/sign/min/max in the "
                   "receiver's representation, IEEE result classes), Expr.tla (meaning terms), ScalarTypesCases.tla (case "
                   "enumeration), ScalarTypesTrace.tla (trace validation); Go driver harness/cmd/scalartypes, term evaluator "
                   "harness/exprlib",
    "technique": "TLA+ contract evaluated by TLC: every (operation, receiver type, operand types, operand values) case is printed "
                 "with the demanded result (exact value, meaning term, IEEE token, panic-allowed, implementation-defined) and "
                 "executed on the real scalar types; recorded random pool histories of the real types are validated by a TLC "
                 "trace specification that recomputes every integer / conversion / comparison result exactly",
    "text": "TLC enumerates 75 operations x 9 receiver types x 16 operand types (all 256 ordered operand type pairs for the binary "
            "operations: a deterministic core plus a seed-dependent covering sample) x a 60-value grid (small integers, the bounds "
            "of every integer width and their neighbours, 2^24+1, 2^53+1, halves and quarters, -0, +-Inf, NaN, powers of two "
            "beyond int64) and prints each case with the result the contract demands. The driver executes the case through the "
            "ConstScalar/Scalar/MagicScalar interfaces and the type-specific CAPITAL methods, with magic operands as constants "
            "and as order-1/2 variables, and compares integers and exact values exactly, real-valued results against the "
            "evaluated meaning term within the precision of the receiver's storage type (integer receivers: one unit), "
            "results of the same operands through different types against each other, conversions by value and reflect type, "
            "panics against panic-allowed. Seeded random histories over a pool of scalars whose slots change type through "
            "conversions are accepted by ScalarTypesTrace.tla. Bounded, point-wise conformance; not a proof.",
    "note": "Trusted: TLC, CommunityModules Json, Go's math package as evaluator of the term leaves, the driver's projection "
            "(GetInt64/GetFloat64, reflect type). Int is assumed 64 bits wide. Known findings: Mnorm (sum of squares, modelled "
            "deviation) and the Real32/Real64 twins of three defects repaired on branch agent/c01.",
    "design_ref": "DESIGN.md section 5 (C02), section 4 (ScalarTypes.tla, Expr.tla), section 3.4 (tolerances)",
}
