------------------------------- MODULE HMMCore -------------------------------
(***************************************************************************)
(* C15 - hidden Markov models and mixtures: the CONTRACT (explicit         *)
(* enumeration of all hidden paths) and the MECHANISM (forward / backward  *)
(* recursions, Viterbi with back-pointers, restricted forward pass for     *)
(* posteriors of state-set sequences) as pure operators.  The module has   *)
(* neither constants nor variables; HMM.tla (case generation, model ->     *)
(* code), HMMTrace.tla (code -> model) and Mixture.tla build on it.        *)
(*                                                                         *)
(* A model M is a record                                                   *)
(*   m      number of hidden states, states are 1..m                       *)
(*   pi     <<w_1..w_m>>    integer weights of the initial distribution    *)
(*   tr     <<row_1..row_m>> integer weights of the transition matrix      *)
(*   smap   <<c_1..c_m>>    state -> emission class (1..K)                 *)
(*   em     <<e_1..e_K>>    e_c = <<w(symbol 0), w(symbol 1), ..>> integer *)
(*          emission weights; the emission probability is w / eden         *)
(*   eden   common denominator of the emission weights                     *)
(*   start  set of admissible first states ({} = no restriction)           *)
(*   final  set of admissible last states  ({} = no restriction)           *)
(*                                                                         *)
(* Reading of the library's parameterisation (statistics/generic/hmm.go,   *)
(* NewHmm / normalize / SetStartStates / SetFinalStates and the comment    *)
(* "transition matrix for last transition" on the field Tf):               *)
(*   Pi  = the weights restricted to the start set, normalised to sum 1    *)
(*   Tr  = every row of the weights normalised to sum 1                    *)
(*   Tf  = every row of the weights restricted to the columns of the final *)
(*         set and normalised to sum 1 AGAIN; Tf replaces Tr in the LAST   *)
(*         transition only (position n-1 -> n).  A sequence of length one  *)
(*         has no transition, hence is not affected by the final set.      *)
(* The probability of a hidden path y_1..y_n with observations x_1..x_n is *)
(*   Pi(y_1) e(y_1,x_1) * PROD_{t=2..n} T_t(y_{t-1},y_t) e(y_t,x_t),       *)
(*   T_t = Tf for t = n and Tr otherwise.                                  *)
(* (The test TestHmm1 of statistics/vectorDistribution pins this reading:  *)
(* 0.0486 for start = final = {2}, x = 1,1,1.)                             *)
(* Models with an all-zero row (of Tr or of the restricted Tf) or an       *)
(* all-zero restricted initial vector are outside the contract             *)
(* (ValidModel): nothing promises what normalisation does with them.       *)
(*                                                                         *)
(* Arithmetic.  All path weights of one (model, sequence) share the common *)
(* denominator Den = PiDen * eden^n * TrDen^(n-2) * TfDen (TrDen, TfDen =  *)
(* least common multiples of the row sums), so the contract is evaluated   *)
(* with exact INTEGER numerators (no rounding, no gcd per addition) and    *)
(* only the reported ratios are normalised with Rat.tla.  Den stays below  *)
(* 2^31 for the bounds used (TLC reports an overflow loudly otherwise).    *)
(***************************************************************************)
EXTENDS Integers, Sequences, FiniteSets, TLC, Rat

(* TLC represents a function constructor [i \in S |-> e] as an unevaluated  *)
(* closure: every application f[i] evaluates e again, and closures nested   *)
(* in recursions multiply that cost.  Tup(f, n) = SubSeq(f, 1, n) is the    *)
(* identity on sequences of length n; TLC implements it by evaluating every *)
(* element once and storing a tuple.  All tables below are built with it -  *)
(* it changes no value, only the cost of the evaluation (about 15x).        *)
Tup(f, n) == SubSeq(f, 1, n)
Push(s, e)    == LET k == Len(s) IN Tup([r \in 1..(k + 1) |-> IF r <= k THEN s[r] ELSE e], k + 1)
Unshift(e, s) == LET k == Len(s) IN Tup([r \in 1..(k + 1) |-> IF r = 1 THEN e ELSE s[r - 1]], k + 1)

RECURSIVE SumInts(_, _, _)
SumInts(f, lo, hi) == IF lo > hi THEN 0 ELSE f[lo] + SumInts(f, lo + 1, hi)

RECURSIVE IPow(_, _)
IPow(a, k) == IF k <= 0 THEN 1 ELSE a * IPow(a, k - 1)

Lcm(a, b) == (a \div Gcd(a, b)) * b
RECURSIVE LcmOf(_, _, _)
LcmOf(f, lo, hi) == IF lo > hi THEN 1 ELSE Lcm(f[lo], LcmOf(f, lo + 1, hi))

RECURSIVE MaxInts(_, _, _)
MaxInts(f, lo, hi) == IF lo = hi THEN f[lo]
                      ELSE LET r == MaxInts(f, lo + 1, hi) IN IF f[lo] >= r THEN f[lo] ELSE r

(* first index attaining the maximum (the code scans i = 0..m-1 with a strict >) *)
RECURSIVE FirstArgMax(_, _, _, _)
FirstArgMax(f, lo, hi, mx) == IF lo >= hi \/ f[lo] = mx THEN lo ELSE FirstArgMax(f, lo + 1, hi, mx)

StartSet(M) == IF M.start = {} THEN 1..M.m ELSE M.start
FinalSet(M) == IF M.final = {} THEN 1..M.m ELSE M.final

PiRaw(M) == Tup([i \in 1..M.m |-> IF i \in StartSet(M) THEN M.pi[i] ELSE 0], M.m)
TfRaw(M) == Tup([i \in 1..M.m |-> Tup([j \in 1..M.m |-> IF j \in FinalSet(M) THEN M.tr[i][j] ELSE 0], M.m)], M.m)

ValidModel(M) ==
  /\ SumInts(PiRaw(M), 1, M.m) > 0
  /\ \A i \in 1..M.m : SumInts(M.tr[i], 1, M.m) > 0
  /\ LET f == TfRaw(M) IN \A i \in 1..M.m : SumInts(f[i], 1, M.m) > 0

(* rows of integer weights -> integer matrix over the common denominator den *)
ScaleRows(raw, m) ==
  LET rs == Tup([i \in 1..m |-> SumInts(raw[i], 1, m)], m)
      L  == LcmOf(rs, 1, m)
  IN [den |-> L, mat |-> Tup([i \in 1..m |-> Tup([j \in 1..m |-> raw[i][j] * (L \div rs[i])], m)], m)]

(* prepared model: everything integer, denominators explicit *)
Prep(M) ==
  LET pr == PiRaw(M)
      a  == ScaleRows(M.tr, M.m)
      f  == ScaleRows(TfRaw(M), M.m)
  IN [m |-> M.m, pi |-> pr, piden |-> SumInts(pr, 1, M.m),
      tr |-> a.mat, trden |-> a.den, tf |-> f.mat, tfden |-> f.den,
      smap |-> M.smap, em |-> M.em, eden |-> M.eden]

TMat(P, n, t) == IF t = n THEN P.tf ELSE P.tr          \* transition INTO position t (t >= 2)
Emit1(P, i, s) == P.em[P.smap[i]][s + 1]               \* state i emits symbol s (symbols 0,1,..)
Den(P, n) == P.piden * IPow(P.eden, n) * (IF n = 1 THEN 1 ELSE IPow(P.trden, n - 2) * P.tfden)

(* ------------------------------------------------------------------ CONTRACT *)
(* hidden paths are numbered 1 .. m^n; the state at position t of path k is *)
(* the t-th base-m digit (least significant first) of k-1, plus one         *)
NPaths(m, n) == IPow(m, n)
StateAt(k, t, m) == (((k - 1) \div IPow(m, t - 1)) % m) + 1
PathOf(k, n, m) == Tup([t \in 1..n |-> StateAt(k, t, m)], n)

(* Index tables of the path space, independent of any weights (evaluated   *)
(* once per (m, n) as constant definitions of the using module; built      *)
(* without deep recursion because TLC evaluates constants on a small stack):*)
(*   paths[k]       the k-th path as a sequence of states                  *)
(*   sel[t][i]      the numbers of the paths with state i at position t    *)
(*   pair[t][i][j]  the numbers of the paths with states i, j at t, t+1    *)
(* With s = m^(t-1): the paths with digit i at position t are the numbers  *)
(* lo + (i-1) s + hi s m + 1, lo in 0..s-1, hi >= 0 (and likewise for two  *)
(* adjacent digits).                                                       *)
Tables(m, n) ==
  LET np == NPaths(m, n)
  IN [paths |-> Tup([k \in 1..np |-> PathOf(k, n, m)], np),
      sel   |-> Tup([t \in 1..n |-> LET s == IPow(m, t - 1) IN Tup([i \in 1..m |->
                  Tup([r \in 1..(np \div m) |->
                         ((r - 1) % s) + (i - 1) * s + ((r - 1) \div s) * s * m + 1], np \div m)], m)], n),
      pair  |-> Tup([t \in 1..(n - 1) |-> LET s == IPow(m, t - 1) IN Tup([i \in 1..m |-> Tup([j \in 1..m |->
                  Tup([r \in 1..(np \div (m * m)) |->
                         ((r - 1) % s) + (i - 1) * s + (j - 1) * s * m + ((r - 1) \div s) * s * m * m + 1],
                      np \div (m * m))], m)], m)], n - 1)]

(* the tables are what their names say (checked once by the using modules) *)
TablesOK(T, m, n) ==
  /\ \A t \in 1..n : \A i \in 1..m :
       {T.sel[t][i][r] : r \in 1..Len(T.sel[t][i])} = {k \in 1..NPaths(m, n) : T.paths[k][t] = i}
  /\ \A t \in 1..(n - 1) : \A i \in 1..m : \A j \in 1..m :
       {T.pair[t][i][j][r] : r \in 1..Len(T.pair[t][i][j])} =
         {k \in 1..NPaths(m, n) : T.paths[k][t] = i /\ T.paths[k][t + 1] = j}

(* weight (numerator over Den) of every path: the product of its factors *)
RECURSIVE ProdPath(_, _, _)
ProdPath(G, p, t) == IF t > Len(p) THEN 1 ELSE G[t][p[t - 1]][p[t]] * ProdPath(G, p, t + 1)
PathWeights(P, x, T) ==
  LET n  == Len(x)
      m  == P.m
      g1 == Tup([i \in 1..m |-> P.pi[i] * Emit1(P, i, x[1])], m)
      G  == Tup([t \in 1..n |-> IF t = 1 THEN <<>>
                 ELSE LET Tm == TMat(P, n, t)
                      IN Tup([i \in 1..m |-> Tup([j \in 1..m |-> Tm[i][j] * Emit1(P, j, x[t])], m)], m)], n)
      np == NPaths(m, n)
  IN Tup([k \in 1..np |-> LET p == T.paths[k] IN g1[p[1]] * ProdPath(G, p, 2)], np)

RECURSIVE SumAt(_, _, _)
SumAt(pw, idx, r) == IF r > Len(idx) THEN 0 ELSE pw[idx[r]] + SumAt(pw, idx, r + 1)

(* numerator of P(y_1 \in q[1], .., y_n \in q[n], x): all paths of q[1] x .. x q[n] *)
RECURSIVE SetSeqNum(_, _, _, _, _, _)
SetSeqNum(pw, q, m, t, idx, mul) ==
  IF t > Len(q) THEN pw[idx]
  ELSE SumInts([i \in 1..m |-> IF i \in q[t] THEN SetSeqNum(pw, q, m, t + 1, idx + (i - 1) * mul, mul * m)
                                              ELSE 0], 1, m)

(* ----------------------------------------------------------------- MECHANISM *)
(* forward: alpha[t][j] = e(j,x_t) SUM_i T_t(i,j) alpha[t-1][i], alpha[1][i] = Pi(i) e(i,x_1) *)
RECURSIVE AlphaRec(_, _, _, _)
AlphaRec(P, x, t, acc) ==
  IF t > Len(x) THEN acc
  ELSE LET prev == acc[t - 1]
           T    == TMat(P, Len(x), t)
           row  == Tup([j \in 1..P.m |->
                      Emit1(P, j, x[t]) * SumInts([i \in 1..P.m |-> T[i][j] * prev[i]], 1, P.m)], P.m)
       IN AlphaRec(P, x, t + 1, Push(acc, row))
Alpha(P, x) == AlphaRec(P, x, 2, << Tup([i \in 1..P.m |-> P.pi[i] * Emit1(P, i, x[1])], P.m) >>)

(* backward: beta[n][i] = 1, beta[t][i] = SUM_j T_{t+1}(i,j) e(j,x_{t+1}) beta[t+1][j];  *)
(* acc holds the rows t+1..n                                                             *)
RECURSIVE BetaRec(_, _, _, _)
BetaRec(P, x, t, acc) ==
  IF t < 1 THEN acc
  ELSE LET next == acc[1]
           T    == TMat(P, Len(x), t + 1)
           row  == Tup([i \in 1..P.m |->
                      SumInts([j \in 1..P.m |-> T[i][j] * Emit1(P, j, x[t + 1]) * next[j]], 1, P.m)], P.m)
       IN BetaRec(P, x, t - 1, Unshift(row, acc))
Beta(P, x) == BetaRec(P, x, Len(x) - 1, << Tup([i \in 1..P.m |-> 1], P.m) >>)

(* forward pass restricted to the state sets q[1..n] (statistics/generic/hmm.go Posterior) *)
RECURSIVE AlphaQRec(_, _, _, _, _)
AlphaQRec(P, x, q, t, acc) ==
  IF t > Len(x) THEN acc
  ELSE LET prev == acc[t - 1]
           T    == TMat(P, Len(x), t)
           row  == Tup([j \in 1..P.m |->
                      IF j \in q[t]
                      THEN Emit1(P, j, x[t]) *
                           SumInts([i \in 1..P.m |-> IF i \in q[t - 1] THEN T[i][j] * prev[i] ELSE 0], 1, P.m)
                      ELSE 0], P.m)
       IN AlphaQRec(P, x, q, t + 1, Push(acc, row))
AlphaQ(P, x, q) ==
  AlphaQRec(P, x, q, 2, << Tup([i \in 1..P.m |-> IF i \in q[1] THEN P.pi[i] * Emit1(P, i, x[1]) ELSE 0], P.m) >>)

(* Viterbi: delta[t][j] = e(j,x_t) max_i T_t(i,j) delta[t-1][i], psi[t][j] = first arg max *)
RECURSIVE ViterbiRec(_, _, _, _, _)
ViterbiRec(P, x, t, delta, psi) ==
  IF t > Len(x) THEN [delta |-> delta, psi |-> psi]
  ELSE LET prev == delta[t - 1]
           m    == P.m
           T    == TMat(P, Len(x), t)
           cand == Tup([j \in 1..m |-> Tup([i \in 1..m |-> T[i][j] * prev[i]], m)], m)
           best == Tup([j \in 1..m |-> MaxInts(cand[j], 1, m)], m)
           drow == Tup([j \in 1..m |-> Emit1(P, j, x[t]) * best[j]], m)
           prow == Tup([j \in 1..m |-> FirstArgMax(cand[j], 1, m, best[j])], m)
       IN ViterbiRec(P, x, t + 1, Push(delta, drow), Push(psi, prow))
RECURSIVE BackTrack(_, _, _)
BackTrack(psi, t, path) ==     \* path holds the states of positions t..n
  IF t = 1 THEN path ELSE BackTrack(psi, t - 1, Unshift(psi[t][path[1]], path))
ViterbiMech(P, x) ==
  LET n  == Len(x)
      v  == ViterbiRec(P, x, 2, << Tup([i \in 1..P.m |-> P.pi[i] * Emit1(P, i, x[1])], P.m) >>,
                                << Tup([i \in 1..P.m |-> 1], P.m) >>)
      mx == MaxInts(v.delta[n], 1, P.m)
      e  == FirstArgMax(v.delta[n], 1, P.m, mx)
  IN [w |-> mx, path |-> BackTrack(v.psi, n, <<e>>)]

(* number of a path given as a sequence of states *)
RECURSIVE PathIndexRec(_, _, _)
PathIndexRec(p, t, m) == IF t > Len(p) THEN 0 ELSE (p[t] - 1) + m * PathIndexRec(p, t + 1, m)
PathIndex(p, m) == PathIndexRec(p, 1, m) + 1

(* ------------------------------------------------- the solved sequence record *)
(* exact floor(num * 2^bits / den) for 0 <= num, 0 < den < 2^30 without overflow *)
RECURSIVE FloorScaledRec(_, _, _, _)
FloorScaledRec(q, r, den, bits) ==
  IF bits = 0 THEN q
  ELSE LET r2 == 2 * r IN
       IF r2 >= den THEN FloorScaledRec(2 * q + 1, r2 - den, den, bits - 1)
                    ELSE FloorScaledRec(2 * q, r2, den, bits - 1)
FloorScaled(num, den, bits) == FloorScaledRec(num \div den, num % den, den, bits)

(* a rational is printed as the pair [n, d]; likelihood and Viterbi weight   *)
(* are normalised (Rat.tla); the many ratios that share the denominator L   *)
(* (the integer numerator of the likelihood) are printed as numerators only *)
RatPair(num, den) == LET r == Rat(num, den) IN <<r.n, r.d>>

(* the state-set sequences whose posterior is reported: built from two sets A, B *)
QAlt(A, B, n)  == Tup([t \in 1..n |-> IF t % 2 = 1 THEN A ELSE B], n)       \* A,B,A,B,..
QLast(A, B, n) == Tup([t \in 1..n |-> IF t = n THEN A ELSE B], n)           \* B,..,B,A
QEnds(A, B, n, m) == Tup([t \in 1..n |-> IF t = 1 THEN A ELSE IF t = n THEN B ELSE 1..m], n)
QList(A, B, n, m) == << QAlt(A, B, n), QLast(A, B, n), QEnds(A, B, n, m) >>

(* Everything the contract says about one observation sequence, and the    *)
(* verdict "mechanism = contract" (mech).                                  *)
Solve(P, x, A, B, finalSet, T) ==
  LET m    == P.m
      n    == Len(x)
      np   == NPaths(m, n)
      pw   == PathWeights(P, x, T)
      den  == Den(P, n)
      lik  == SumInts(pw, 1, np)
      mnum == Tup([t \in 1..n |-> Tup([i \in 1..m |-> SumAt(pw, T.sel[t][i], 1)], m)], n)   \* P(y_t = i, x)
      al   == Alpha(P, x)
      be   == Beta(P, x)
      mx   == MaxInts(pw, 1, np)
      vset == {k \in 1..np : pw[k] = mx}
      vm   == ViterbiMech(P, x)
      qs   == QList(A, B, n, m)
      qnum == Tup([r \in 1..Len(qs) |-> SetSeqNum(pw, qs[r], m, 1, 1, 1)], Len(qs))
      aq   == Tup([r \in 1..Len(qs) |-> AlphaQ(P, x, qs[r])], Len(qs))
      (* expected transition counts SUM_t P(y_t = i, y_{t+1} = j, x); the   *)
      (* Baum-Welch step of the library leaves out the last transition when *)
      (* a final set is given                                               *)
      tmax == IF finalSet = {} THEN n - 1 ELSE n - 2
      xnum == Tup([i \in 1..m |-> Tup([j \in 1..m |->
                 SumInts([t \in 1..tmax |-> SumAt(pw, T.pair[t][i][j], 1)], 1, tmax)], m)], m)
      mech == /\ SumInts(al[n], 1, m) = lik
              /\ \A t \in 1..n : \A i \in 1..m : al[t][i] * be[t][i] = mnum[t][i]
              /\ \A t \in 1..n : SumInts(mnum[t], 1, m) = lik          \* marginals sum to one
              /\ vm.w = mx
              /\ PathIndex(vm.path, m) \in vset
              /\ \A r \in 1..Len(qs) : SumInts(aq[r][n], 1, m) = qnum[r]
  IN IF lik = 0
     THEN [x |-> x, zero |-> TRUE, mech |-> mech]
     ELSE [x |-> x, zero |-> FALSE, mech |-> mech,
           lik  |-> RatPair(lik, den),          \* P(x), normalised
           L    |-> lik,                        \* its numerator over Den: the common denominator of all ratios below
           marg |-> mnum,                                               \* P(y_t = i | x) = marg[t][i] / L
           qs   |-> Tup([r \in 1..Len(qs) |-> [q |-> qs[r], p |-> qnum[r]]], Len(qs)),  \* P(y \in q | x) = p / L
           vit  |-> [w |-> RatPair(mx, den), set |-> vset, mech |-> vm.path],
           cls  |-> [s |-> A, p |-> Tup([t \in 1..n |-> SumInts([i \in 1..m |-> IF i \in A THEN mnum[t][i] ELSE 0], 1, m)], n)],
           xi   |-> xnum]                                               \* E[#(i -> j) | x] = xi[i][j] / L

(* ------------------------------------------------------------------ MIXTURE *)
(* weights w_1..w_k (integers, normalised by the library), component j has  *)
(* the emission table em[j]; an observation is a vector x of symbols whose  *)
(* coordinates are independent given the component.                         *)
RECURSIVE ProdEm(_, _, _)
ProdEm(e, x, t) == IF t > Len(x) THEN 1 ELSE e[x[t] + 1] * ProdEm(e, x, t + 1)

MixSolve(k, w, em, eden, x) ==
  LET joint == [j \in 1..k |-> w[j] * ProdEm(em[j], x, 1)]       \* over Sum(w) * eden^d
      wsum  == SumInts(w, 1, k)
      ed    == IPow(eden, Len(x))
      tot   == SumInts(joint, 1, k)
      subs  == SUBSET (1..k) \ {{}}
      jS(S) == SumInts([j \in 1..k |-> IF j \in S THEN joint[j] ELSE 0], 1, k)
      wS(S) == SumInts([j \in 1..k |-> IF j \in S THEN w[j] ELSE 0], 1, k)
      one(S) == [s |-> S,
                 postdef |-> tot > 0,
                 post |-> IF tot > 0 THEN RatPair(jS(S), tot) ELSE <<0, 1>>,
                 likdef |-> wS(S) > 0,
                 lik  |-> IF wS(S) > 0 THEN RatPair(jS(S), wS(S) * ed) ELSE <<0, 1>>]
      mech  == \A S \in subs : jS(S) + jS((1..k) \ S) = tot          \* complementary posteriors sum to one
  IN [x |-> x, zero |-> tot = 0, mech |-> mech,
      lik |-> RatPair(tot, wsum * ed),
      subsets |-> {one(S) : S \in subs}]

(* ------------------------------------------- PARAMETER CHANGES ON ONE OBJECT *)
(* An inference call has no memory: its result is the enumeration for the   *)
(* parameters CURRENT at the moment of the call, whatever was called before.*)
(* Parameters of an HMM object: cur = [pi, tr, start, final] (integer       *)
(* weights as above).  Reading of the mutators (statistics/generic/hmm.go): *)
(*  SetStartStates(S)  Pi := the current Pi restricted to S, renormalised   *)
(*                     (cumulative: a state excluded earlier stays          *)
(*                     excluded), the start set becomes S;                  *)
(*  SetFinalStates(F)  Tf := Tr restricted to F, renormalised row by row    *)
(*                     (always from the full Tr, not cumulative);           *)
(*  SetParameters(p)   Pi, Tr := the given (normalised, log) values; the    *)
(*                     start/final sets stay, Tf is re-derived from the new *)
(*                     Tr.  Only parameter vectors whose Pi has no mass     *)
(*                     outside the current start set are generated: what    *)
(*                     happens to such mass is not promised;                *)
(*  Clone()            a copy with the same parameters and restrictions.    *)
(* A mixture object: cur = [w, em]; SetParameters replaces the normalised   *)
(* log-weights (and, for the wrappers, the emission parameters).            *)
HmmModel(m, smap, em, eden, cur) ==
  [m |-> m, pi |-> cur.pi, tr |-> cur.tr, smap |-> smap, em |-> em, eden |-> eden,
   start |-> cur.start, final |-> cur.final]

ApplyStart(m, cur, S) ==
  LET old == IF cur.start = {} THEN 1..m ELSE cur.start
  IN [cur EXCEPT !.pi = Tup([i \in 1..m |-> IF i \in S /\ i \in old THEN cur.pi[i] ELSE 0], m), !.start = S]
ApplyFinal(cur, F) == [cur EXCEPT !.final = F]
ApplySet(cur, pi2, tr2) == [cur EXCEPT !.pi = pi2, !.tr = tr2]
(* SetParameters is generated only with an initial vector supported inside the start set *)
SetAdmissible(m, cur, pi2) == \A i \in 1..m : (cur.start # {} /\ i \notin cur.start) => pi2[i] = 0
ValidCur(m, cur) ==
  ValidModel([m |-> m, pi |-> cur.pi, tr |-> cur.tr, start |-> cur.start, final |-> cur.final])

(* result of the three mixture calls for the observation x and the component list S *)
MixCall(k, w, em, eden, x, S) ==
  LET r == MixSolve(k, w, em, eden, x)
      e == CHOOSE y \in r.subsets : y.s = S
  IN [x |-> x, s |-> S, zero |-> r.zero, lik |-> r.lik, postdef |-> e.postdef, post |-> e.post,
      likdef |-> e.likdef, slik |-> e.lik, mech |-> r.mech]
=============================================================================
