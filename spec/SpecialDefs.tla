----------------------------- MODULE SpecialDefs -----------------------------
(***************************************************************************)
(* C13 - special functions: the DISCRETE, EXACT part of the property.      *)
(*                                                                         *)
(* CONTRACT LAYER, written from the textbook (Abramowitz-Stegun / DLMF      *)
(* identities), not from the code.  The module owns                        *)
(*   (1) closed forms at special points: exact rationals (Rat.tla) or       *)
(*       symbolic terms (Expr.tla) in pi, Euler's constant, zeta(3),        *)
(*       Catalan's constant, log, exp, sqrt, sinh/cosh, erf/erfc;           *)
(*   (2) recurrences, reflections, complements and duplication formulas as  *)
(*       equations between VALUES RETURNED BY THE LIBRARY (term constructor  *)
(*       Lib(f, args));                                                     *)
(*   (3) the table of poles / domain edges with the required result class;  *)
(*   (4) for every equation the SCALE the tolerance refers to (the          *)
(*       conditioning: sum of the magnitudes an error of one unit roundoff  *)
(*       in each library value or rounded argument is multiplied by), the   *)
(*       bound K of the family (tolerance = K * 2^-52 * scale) and, where   *)
(*       the closed form is a truncated expansion, the certified remainder  *)
(*       (slack);                                                           *)
(*   (5) the point grids: integers, half-integers and small dyadic          *)
(*       rationals on both sides of every algorithm-selection boundary of   *)
(*       the implementation (listed in docs/C13.md).  Library arguments are *)
(*       dyadic, hence exactly representable: no argument rounding.         *)
(* The specification never evaluates a transcendental function; the Go     *)
(* driver evaluates the printed terms (320-bit arithmetic) and calls the    *)
(* library where a term says Lib.                                           *)
(*                                                                         *)
(* Terms extend Expr.tla:  <<"c", name>> (egamma, zeta3, catalan),          *)
(* <<"pinf">>, <<"lib", f, <<args>>>>; unary functions sqrt, cot, erfc.     *)
(* Identity families are SCHEMAS over variables x_1, x_2 (Expr X(i)); a     *)
(* case is a schema instantiated at a point; the same schemas, printed with *)
(* their domains, drive the code -> model direction (SpecialTrace.tla).     *)
(***************************************************************************)
EXTENDS Expr, Json

(* ------------------------------------------------------------------ terms *)
Lib(f, args) == <<"lib", f, args>>
Cst(name)    == <<"c", name>>
EGamma   == Cst("egamma")
Zeta3    == Cst("zeta3")
Catalan  == Cst("catalan")
PInf     == <<"pinf">>
NaNTok   == Cst("nan")
Abs(a)   == <<"u", "abs", a>>
Sqrt(a)  == <<"u", "sqrt", a>>
Sin(a)   == <<"u", "sin", a>>
Cos(a)   == <<"u", "cos", a>>
Cot(a)   == <<"u", "cot", a>>
Sinh(a)  == <<"u", "sinh", a>>
Cosh(a)  == <<"u", "cosh", a>>
Erf(a)   == <<"u", "erf", a>>
Erfc(a)  == <<"u", "erfc", a>>
X1 == X(1)
X2 == X(2)
R(n, d)  == Rat(n, d)
Dy(k, m) == Rat(k, 2^m)            \* dyadic rational k / 2^m
PtOf(r)  == <<r.n, r.d>>
(* raw (non-folding) constructors: the driver's arithmetic is exact anyway *)
AddR(a, b) == <<"b", "add", a, b>>
SubR(a, b) == <<"b", "sub", a, b>>
MulR(a, b) == <<"b", "mul", a, b>>
DivR(a, b) == <<"b", "div", a, b>>
PowR(a, b) == <<"b", "pow", a, b>>
Mag2(a, b)    == AddR(Abs(a), Abs(b))
Mag3(a, b, c) == AddR(Mag2(a, b), Abs(c))

RECURSIVE SumR(_)
SumR(s) == IF Len(s) = 0 THEN Zero ELSE IF Len(s) = 1 THEN s[1]
           ELSE AddR(SumR(SubSeq(s, 1, Len(s) - 1)), s[Len(s)])
RECURSIVE MagSum(_)
MagSum(s) == IF Len(s) = 0 THEN Zero ELSE IF Len(s) = 1 THEN Abs(s[1])
             ELSE AddR(MagSum(SubSeq(s, 1, Len(s) - 1)), Abs(s[Len(s)]))

(* instantiate the variables of a schema term at a point (sequence of rationals) *)
RECURSIVE Inst(_, _)
RECURSIVE InstSeq(_, _)
InstSeq(s, p) == IF Len(s) = 0 THEN <<>> ELSE <<Inst(s[1], p)>> \o InstSeq(Tail(s), p)
Inst(e, p) ==
  CASE e[1] = "x"   -> Q(p[e[2]])
    [] e[1] = "u"   -> <<"u", e[2], Inst(e[3], p)>>
    [] e[1] = "b"   -> <<"b", e[2], Inst(e[3], p), Inst(e[4], p)>>
    [] e[1] = "lib" -> <<"lib", e[2], InstSeq(e[3], p)>>
    [] OTHER        -> e

(* ------------------------------------------------------- exact arithmetic *)
RECURSIVE FactI(_)
FactI(n) == IF n <= 1 THEN 1 ELSE n * FactI(n - 1)          \* n <= 12
(* n! as a term: exact integer up to 12!, a product chain above *)
RECURSIVE FactT(_)
FactT(n) == IF n <= 12 THEN QI(FactI(n)) ELSE MulR(FactT(n - 1), QI(n))

(* Pascal's triangle by rows (additions only: no 32-bit overflow for n <= 33) *)
RECURSIVE BinomRow(_)
BinomRow(n) == IF n = 0 THEN <<1>>
               ELSE LET r == BinomRow(n - 1)
                    IN [k \in 1..(n + 1) |-> (IF k = 1 THEN 0 ELSE r[k - 1]) + (IF k = n + 1 THEN 0 ELSE r[k])]
BinomTab == [n \in 0..33 |-> BinomRow(n)]
Binom(n, k) == IF k < 0 \/ k > n THEN 0 ELSE BinomTab[n][k + 1]

(* Bernoulli numbers B_0..B_n (convention B_1 = -1/2) by the defining recurrence  *)
(* sum_{k=0}^{m} C(m+1, k) B_k = 0; exact rationals, inside Rat's bound for n <= 16 *)
RECURSIVE BernSeq(_)
BernSeq(n) ==
  IF n = 0 THEN <<ROne>>
  ELSE LET prev == BernSeq(n - 1)
           s == RSumSeq([k \in 1..n |-> RMul(RInt(Binom(n + 1, k - 1)), prev[k])])
       IN Append(prev, RNeg(RDiv(s, RInt(n + 1))))
BMax == 16
BernTab == BernSeq(BMax)
Bern(n) == BernTab[n + 1]

RECURSIVE Harm(_)
Harm(n) == IF n = 0 THEN RZero ELSE RAdd(Harm(n - 1), Rat(1, n))       \* n <= 20
(* sum_{k=1}^{n} 1/k^p as a term: exact rational while small, unfolded beyond *)
RECURSIVE PowI(_, _)
PowI(b, e) == IF e = 0 THEN 1 ELSE b * PowI(b, e - 1)
RECURSIVE InvPowSum(_, _, _, _)
(* sum_{k=1}^{n} 1/(a k + b)^p *)
InvPowSum(n, a, b, p) ==
  IF n = 0 THEN Zero
  ELSE AddR(InvPowSum(n - 1, a, b, p), PowR(QI(a * n + b), QI(-p)))
(* harmonic-type sums as exact rationals where Rat allows (n <= 20, p = 1) *)
HarmT(n) == IF n <= 20 THEN Q(Harm(n)) ELSE AddR(Q(Harm(20)), SumR([k \in 1..(n - 20) |-> QF(1, 20 + k)]))
RECURSIVE OddHarm(_)
OddHarm(n) == IF n = 0 THEN RZero ELSE RAdd(OddHarm(n - 1), Rat(1, 2 * n - 1))   \* sum 1/(2k-1), n <= 12
OddHarmT(n) == IF n <= 12 THEN Q(OddHarm(n)) ELSE AddR(Q(OddHarm(12)), SumR([k \in 1..(n - 12) |-> QF(1, 2 * (12 + k) - 1)]))

(* polynomials with integer coefficients: sequence c, value sum c[i] t^(i-1) *)
PolyDer(c) == IF Len(c) <= 1 THEN <<0>> ELSE [i \in 1..(Len(c) - 1) |-> i * c[i + 1]]
PolyAt(c, i) == IF i >= 1 /\ i <= Len(c) THEN c[i] ELSE 0
(* -(1 + t^2) * c *)
PolyCotStep(c) == LET d == PolyDer(c) IN [i \in 1..(Len(d) + 2) |-> 0 - (PolyAt(d, i) + PolyAt(d, i - 2))]
(* d^n/dx^n cot(pi x) = pi^n P_n(cot(pi x)),  P_0 = t,  P_{k+1} = -(1+t^2) P_k' *)
RECURSIVE CotPoly(_)
CotPoly(n) == IF n = 0 THEN <<0, 1>> ELSE PolyCotStep(CotPoly(n - 1))
RECURSIVE HornerT(_, _, _)
HornerT(c, t, i) == IF i = Len(c) THEN QI(c[i]) ELSE AddR(QI(c[i]), MulR(t, HornerT(c, t, i + 1)))

(* --------------------------------------------------------- case records *)
EqRec(fam, K, pt, lhs, rhs, scale, slack, br) ==
  [kind |-> "eq", fam |-> fam, pt |-> [i \in 1..Len(pt) |-> PtOf(pt[i])], lhs |-> lhs, rhs |-> rhs,
   scale |-> scale, slack |-> slack, K |-> K, br |-> br]
ClassRec(fam, pt, fn, args, want) ==
  [kind |-> "class", fam |-> fam, pt |-> [i \in 1..Len(pt) |-> PtOf(pt[i])], fn |-> fn, args |-> args, want |-> want]
Rg(lo, hi, bits) == [lo |-> PtOf(lo), hi |-> PtOf(hi), bits |-> bits]

(* ======================================================================= *)
(* FAMILIES.  Every family has a name, a bound K (units of 2^-52 * scale),  *)
(* a number of cases Count and a case constructor.                          *)
(* ======================================================================= *)
KOf(fam) ==
  CASE fam \in {"factorial.table", "bernoulli.zero", "zeta.negzero"} -> 0
    [] fam \in {"bernoulli.exact"} -> 1
    [] OTHER -> 64

(* ---------------------------------------------------------------- Factorial *)
(* implementation: table for n <= 20, floor(Gamma(n+1) + 1/2) above, overflow at 171 *)
FactTableN == <<0, 1, 2, 3, 4, 5, 6, 7, 8, 9, 10, 11, 12, 13, 14, 15, 16, 17, 18, 19, 20>>
FactGammaN == <<21, 22, 23, 24, 25, 30, 50, 100, 150, 169, 170>>
FactorialCase(fam, n) ==
  EqRec(fam, KOf(fam), <<RInt(n)>>, Lib("Factorial", <<QI(n)>>), FactT(n), FactT(n), Zero,
        IF n <= 20 THEN "table" ELSE "gamma")

(* ---------------------------------------------------------- BernoulliNumber *)
(* B_1 = +1/2 or -1/2 are both in use: the contract fixes |B_1| only *)
BernoulliExact(n) ==
  LET b == Bern(n)
      l == Lib("BernoulliNumber", <<QI(n)>>)
  IN IF RIsZero(b) THEN EqRec("bernoulli.zero", 0, <<RInt(n)>>, l, Zero, One, Zero, "odd")
     ELSE IF n = 1 THEN EqRec("bernoulli.exact", KOf("bernoulli.exact"), <<RInt(n)>>, Abs(l), Half, Half, Zero, "b1")
     ELSE EqRec("bernoulli.exact", KOf("bernoulli.exact"), <<RInt(n)>>, l, Q(b), Q(b), Zero, "even")
BernOddN == <<17, 19, 21, 25, 31, 51, 101>>
BernoulliOdd(n) == EqRec("bernoulli.zero", 0, <<RInt(n)>>, Lib("BernoulliNumber", <<QI(n)>>), Zero, One, Zero, "odd")
(* defining recurrence beyond the exact table: sum_{k=0,k#1}^{m} C(m+1,k) B_k = (m+1)/2 *)
BernRecM == <<18, 20, 22, 24, 26, 28, 30, 32>>
BernRecTerms(m) == [j \in 1..m |-> LET k == IF j = 1 THEN 0 ELSE j
                                   IN MulR(QI(Binom(m + 1, k)), Lib("BernoulliNumber", <<QI(k)>>))]
BernoulliRec(m) == EqRec("bernoulli.rec", KOf("bernoulli.rec"), <<RInt(m)>>, SumR(BernRecTerms(m)), QF(m + 1, 2),
                         MagSum(BernRecTerms(m)), Zero, "recurrence")

(* --------------------------------------------------------------------- Zeta *)
(* implementation: s = 1 pole; s > 53 -> 1; integers: negative via Bernoulli numbers, even via        *)
(* Bernoulli numbers and pi^s, odd via a tabulated polynomial series (3..101); |s| < 1.49e-8 linear;  *)
(* s < 0 reflection (lgamma form above 21); rational approximations on s < 1, (1,2], (2,4], (4,7],    *)
(* (7,15), [15,36), 1 + 2^-s on [36,56)                                                               *)
ZetaL(s) == Lib("Zeta", <<Q(s)>>)
ZetaNeg(n) ==
  LET v == RNeg(RDiv(Bern(n + 1), RInt(n + 1)))
  IN IF RIsZero(v) THEN EqRec("zeta.negzero", 0, <<RInt(0 - n)>>, ZetaL(RInt(0 - n)), Zero, One, Zero, "trivial zero")
     ELSE EqRec("zeta.neg", KOf("zeta.neg"), <<RInt(0 - n)>>, ZetaL(RInt(0 - n)), Q(v), Q(v), Zero, "bernoulli")
(* zeta(2m) = |B_2m| 2^(2m-1) pi^(2m) / (2m)! *)
ZetaEvenT(m2) == MulR(DivR(MulR(Q([n |-> RAbs(Bern(m2).n), d |-> Bern(m2).d]), PowR(Two, QI(m2 - 1))), FactT(m2)),
                      PowR(Pi, QI(m2)))
ZetaEven(m) == EqRec("zeta.even", KOf("zeta.even"), <<RInt(2 * m)>>, ZetaL(RInt(2 * m)), ZetaEvenT(2 * m), ZetaEvenT(2 * m), Zero, "even")
(* direct sum with the integral bound of the tail: sum_{k>N} k^-s < N^(1-s)/(s-1) *)
ZetaSumN == 24
ZetaSumS == <<RInt(15), R(31, 2), RInt(16), RInt(17), RInt(20), RInt(21), RInt(22), RInt(35), R(71, 2), RInt(36), R(73, 2),
              RInt(37), R(161, 4), RInt(51), RInt(52), RInt(53), RInt(54), RInt(55), R(111, 2), RInt(56), R(113, 2),
              RInt(57), RInt(100), RInt(101), RInt(103), RInt(1000)>>
ZetaSumT(s) == SumR([k \in 1..ZetaSumN |-> PowR(QI(k), Q(RNeg(s)))])
ZetaSum(s) == EqRec("zeta.sum", KOf("zeta.sum"), <<s>>, ZetaL(s), ZetaSumT(s), ZetaSumT(s),
                    DivR(PowR(QI(ZetaSumN), Q(RSub(ROne, s))), Q(RSub(s, ROne))),
                    IF RLt(RInt(53), s) THEN "one" ELSE IF s.d = 1 /\ s.n % 2 = 1 THEN "odd table"
                    ELSE IF s.d = 1 THEN "even" ELSE IF RLt(s, RInt(36)) THEN "rational 15-36" ELSE "1+2^-s")
(* Euler-Maclaurin with the specification's own Bernoulli numbers:                                  *)
(*  zeta(s) = sum_{k<N} k^-s + N^(1-s)/(s-1) + N^-s/2 + sum_{j=1}^{J} B_2j/(2j)! (s)_(2j-1) N^(-s-2j+1) *)
(*  + R,  |R| <= |term J+1|  (real s > -2J-1)                                                       *)
EMN == 16
EMJ == 7
RECURSIVE Rising(_, _)
Rising(s, m) == IF m = 0 THEN One ELSE MulR(Rising(s, m - 1), Q(RAdd(s, RInt(m - 1))))
EMTerm(s, j) == MulR(DivR(Q(Bern(2 * j)), FactT(2 * j)),
                     MulR(Rising(s, 2 * j - 1), PowR(QI(EMN), Q(RSub(RNeg(s), RInt(2 * j - 1))))))
ZetaEMT(s) == AddR(AddR(AddR(SumR([k \in 1..(EMN - 1) |-> PowR(QI(k), Q(RNeg(s)))]),
                             DivR(PowR(QI(EMN), Q(RSub(ROne, s))), Q(RSub(s, ROne)))),
                        DivR(PowR(QI(EMN), Q(RNeg(s))), Two)),
                   SumR([j \in 1..EMJ |-> EMTerm(s, j)]))
ZetaEMS == <<R(-3, 4), R(-1, 2), R(-1, 4), R(1, 4), R(1, 2), R(3, 4), R(7, 8), R(15, 16), R(17, 16), R(9, 8), R(5, 4), R(3, 2),
             R(7, 4), R(15, 8), RInt(2), R(17, 8), R(5, 2), RInt(3), R(7, 2), R(31, 8), RInt(4), R(33, 8), RInt(5), RInt(6),
             R(13, 2), R(55, 8), RInt(7), R(57, 8), RInt(9), R(21, 2), RInt(11), RInt(13), RInt(14), R(29, 2), R(119, 8),
             RInt(15), R(121, 8), R(41, 2), R(141, 4)>>
ZetaEMBranch(s) == IF RLt(s, RZero) THEN "reflection" ELSE IF s.d = 1 /\ s.n % 2 = 0 THEN "even"
                   ELSE IF s.d = 1 THEN "odd table" ELSE IF RLt(s, ROne) THEN "rational s<1"
                   ELSE IF RLe(s, RInt(2)) THEN "rational 1-2" ELSE IF RLe(s, RInt(4)) THEN "rational 2-4"
                   ELSE IF RLe(s, RInt(7)) THEN "rational 4-7" ELSE IF RLt(s, RInt(15)) THEN "rational 7-15"
                   ELSE "rational 15-36"
ZetaEM(s) == EqRec("zeta.em", KOf("zeta.em"), <<s>>, ZetaL(s), ZetaEMT(s), ZetaEMT(s), Abs(EMTerm(s, EMJ + 1)), ZetaEMBranch(s))
(* zeta(s) = -1/2 - s log(2 pi)/2 + O(s^2), |remainder| <= 1.1 s^2 for |s| <= 2^-20 *)
ZetaLinS == <<Dy(1, 30), Dy(-1, 30), Dy(1, 27), Dy(-1, 27), Dy(1, 26), Dy(-1, 26), Dy(1, 25), Dy(-1, 25), Dy(1, 24), Dy(-1, 24)>>
ZetaLinT(s) == SubR(QF(-1, 2), MulR(Q(s), DivR(Log(MulR(Two, Pi)), Two)))
ZetaLin(s) == EqRec("zeta.lin", KOf("zeta.lin"), <<s>>, ZetaL(s), ZetaLinT(s), ZetaLinT(s), MulR(QF(11, 10), PowR(Q(s), Two)),
                    IF 2^26 <= s.d THEN "linear" ELSE "outside linear")
=============================================================================
