----------------------------- MODULE SpecialDefs -----------------------------
(***************************************************************************)
(* C13 - special functions: the DISCRETE, EXACT part of the property.      *)
(*                                                                         *)
(* CONTRACT LAYER, written from the textbook (Abramowitz-Stegun / DLMF      *)
(* identities), not from the code.  The module owns                        *)
(*   (1) closed forms at special points: exact rationals (Rat.tla) or       *)
(*       symbolic terms (Expr.tla) in pi, Euler's constant, zeta(3),        *)
(*       Catalan's constant, log, exp, sqrt, sinh/cosh, erf/erfc;           *)
(*   (2) recurrences, reflections, complements and duplication formulas as  *)
(*       equations between VALUES RETURNED BY THE LIBRARY (term constructor  *)
(*       Lib(f, args));                                                     *)
(*   (3) the table of poles / domain edges with the required result class;  *)
(*   (4) for every equation the SCALE the tolerance refers to (the          *)
(*       conditioning: sum of the magnitudes an error of one unit roundoff  *)
(*       in each library value or rounded argument is multiplied by), the   *)
(*       bound K of the family (tolerance = K * 2^-52 * scale) and, where   *)
(*       the closed form is a truncated expansion, the certified remainder  *)
(*       (slack);                                                           *)
(*   (5) the point grids: integers, half-integers and small dyadic          *)
(*       rationals on both sides of every algorithm-selection boundary of   *)
(*       the implementation (listed in docs/C13.md).  Library arguments are *)
(*       dyadic, hence exactly representable: no argument rounding.         *)
(* The specification never evaluates a transcendental function; the Go     *)
(* driver evaluates the printed terms (320-bit arithmetic) and calls the    *)
(* library where a term says Lib.                                           *)
(*                                                                         *)
(* Terms extend Expr.tla:  <<"c", name>> (egamma, zeta3, catalan),          *)
(* <<"pinf">>, <<"lib", f, <<args>>>>; unary functions sqrt, cot, erfc.     *)
(* Identity families are SCHEMAS over variables x_1, x_2 (Expr X(i)); a     *)
(* case is a schema instantiated at a point; the same schemas, printed with *)
(* their domains, drive the code -> model direction (SpecialTrace.tla).     *)
(***************************************************************************)
EXTENDS Expr, Json

(* ------------------------------------------------------------------ terms *)
Lib(f, args) == <<"lib", f, args>>
Cst(name)    == <<"c", name>>
EGamma   == Cst("egamma")
Zeta3    == Cst("zeta3")
Catalan  == Cst("catalan")
PInf     == <<"pinf">>
NaNTok   == Cst("nan")
Abs(a)   == <<"u", "abs", a>>
Sqrt(a)  == <<"u", "sqrt", a>>
Sin(a)   == <<"u", "sin", a>>
Cos(a)   == <<"u", "cos", a>>
Cot(a)   == <<"u", "cot", a>>
Sinh(a)  == <<"u", "sinh", a>>
Cosh(a)  == <<"u", "cosh", a>>
Erf(a)   == <<"u", "erf", a>>
Erfc(a)  == <<"u", "erfc", a>>
X1 == X(1)
X2 == X(2)
R(n, d)  == Rat(n, d)
Dy(k, m) == Rat(k, 2^m)            \* dyadic rational k / 2^m
PtOf(r)  == <<r.n, r.d>>
RAbs2(r) == [n |-> RAbs(r.n), d |-> r.d]
(* raw (non-folding) constructors: the driver's arithmetic is exact anyway *)
AddR(a, b) == <<"b", "add", a, b>>
SubR(a, b) == <<"b", "sub", a, b>>
MulR(a, b) == <<"b", "mul", a, b>>
DivR(a, b) == <<"b", "div", a, b>>
PowR(a, b) == <<"b", "pow", a, b>>
P2(k) == PowR(Two, QI(k))
Mag2(a, b)    == AddR(Abs(a), Abs(b))
Mag3(a, b, c) == AddR(Mag2(a, b), Abs(c))

(* sums and products as balanced trees (bounded recursion depth) *)
RECURSIVE SumRange(_, _, _)
SumRange(s, a, b) == IF a > b THEN Zero ELSE IF a = b THEN s[a]
                     ELSE LET m == (a + b) \div 2 IN AddR(SumRange(s, a, m), SumRange(s, m + 1, b))
SumR(s) == SumRange(s, 1, Len(s))
RECURSIVE MagRange(_, _, _)
MagRange(s, a, b) == IF a > b THEN Zero ELSE IF a = b THEN Abs(s[a])
                     ELSE LET m == (a + b) \div 2 IN AddR(MagRange(s, a, m), MagRange(s, m + 1, b))
MagSum(s) == MagRange(s, 1, Len(s))
RECURSIVE ProdRange(_, _, _)
ProdRange(s, a, b) == IF a > b THEN One ELSE IF a = b THEN s[a]
                      ELSE LET m == (a + b) \div 2 IN MulR(ProdRange(s, a, m), ProdRange(s, m + 1, b))
ProdR(s) == ProdRange(s, 1, Len(s))
RECURSIVE IntProd(_, _)
IntProd(a, b) == IF a > b THEN One ELSE IF a = b THEN QI(a)
                 ELSE LET m == (a + b) \div 2 IN MulR(IntProd(a, m), IntProd(m + 1, b))

(* 1 + sum_{k=1}^{M} prod_{j=1}^{k} r_j for a sequence of ratio terms r, as a balanced tree:                 *)
(* Seg(lo, hi) = <<prod_{j=lo}^{hi} r_j, sum_{k=lo}^{hi} prod_{j=lo}^{k} r_j>>                                   *)
RECURSIVE RatioSeg(_, _, _)
RatioSeg(rs, lo, hi) == IF lo = hi THEN <<rs[lo], rs[lo]>>
                        ELSE LET m == (lo + hi) \div 2
                                 a == RatioSeg(rs, lo, m)
                                 b == RatioSeg(rs, m + 1, hi)
                             IN <<MulR(a[1], b[1]), AddR(a[2], MulR(a[1], b[2]))>>
RatioSeries(rs) == IF Len(rs) = 0 THEN One ELSE AddR(One, RatioSeg(rs, 1, Len(rs))[2])

(* instantiate the variables of a schema term at a point (sequence of rationals) *)
RECURSIVE Inst(_, _)
RECURSIVE InstSeq(_, _)
InstSeq(s, p) == IF Len(s) = 0 THEN <<>> ELSE <<Inst(s[1], p)>> \o InstSeq(Tail(s), p)
Inst(e, p) ==
  CASE e[1] = "x"   -> Q(p[e[2]])
    [] e[1] = "u"   -> <<"u", e[2], Inst(e[3], p)>>
    [] e[1] = "b"   -> <<"b", e[2], Inst(e[3], p), Inst(e[4], p)>>
    [] e[1] = "lib" -> <<"lib", e[2], InstSeq(e[3], p)>>
    [] OTHER        -> e

(* ------------------------------------------------------- exact arithmetic *)
RECURSIVE FactI(_)
FactI(n) == IF n <= 1 THEN 1 ELSE n * FactI(n - 1)          \* n <= 12
(* n! as a term: exact integer up to 12!, a product chain above *)
FactT(n) == IF n <= 12 THEN QI(FactI(n)) ELSE MulR(QI(FactI(12)), IntProd(13, n))

(* Pascal's triangle by rows (additions only: no 32-bit overflow for n <= 33) *)
RECURSIVE BinomRow(_)
BinomRow(n) == IF n = 0 THEN <<1>>
               ELSE LET r == BinomRow(n - 1)
                    IN TLCEval([k \in 1..(n + 1) |-> (IF k = 1 THEN 0 ELSE r[k - 1]) + (IF k = n + 1 THEN 0 ELSE r[k])])
BinomTab == TLCEval([n \in 0..33 |-> BinomRow(n)])
Binom(n, k) == IF k < 0 \/ k > n THEN 0 ELSE BinomTab[n][k + 1]

(* Bernoulli numbers B_0..B_n (convention B_1 = -1/2) by the defining recurrence  *)
(* sum_{k=0}^{m} C(m+1, k) B_k = 0; exact rationals, inside Rat's bound for n <= 16 *)
RECURSIVE BernSeq(_)
BernSeq(n) ==
  IF n = 0 THEN <<ROne>>
  ELSE LET prev == TLCEval(BernSeq(n - 1))
           s == RSumSeq(TLCEval([k \in 1..n |-> RMul(RInt(Binom(n + 1, k - 1)), prev[k])]))
       IN TLCEval(Append(prev, RNeg(RDiv(s, RInt(n + 1)))))
BMax == 16
BernTab == BernSeq(BMax)
Bern(n) == BernTab[n + 1]

RECURSIVE Harm(_)
Harm(n) == IF n = 0 THEN RZero ELSE RAdd(Harm(n - 1), Rat(1, n))       \* n <= 20
(* sum_{k=1}^{n} 1/k^p as a term: exact rational while small, unfolded beyond *)
RECURSIVE PowI(_, _)
PowI(b, e) == IF e = 0 THEN 1 ELSE b * PowI(b, e - 1)
(* sum_{k=1}^{n} 1/(a k + b)^p *)
InvPowSum(n, a, b, p) == IF n = 0 THEN Zero ELSE SumR([k \in 1..n |-> PowR(QI(a * k + b), QI(0 - p))])
(* harmonic-type sums as exact rationals where Rat allows (n <= 20, p = 1) *)
HarmT(n) == IF n <= 20 THEN Q(Harm(n)) ELSE AddR(Q(Harm(20)), SumR([k \in 1..(n - 20) |-> QF(1, 20 + k)]))
RECURSIVE OddHarm(_)
OddHarm(n) == IF n = 0 THEN RZero ELSE RAdd(OddHarm(n - 1), Rat(1, 2 * n - 1))   \* sum 1/(2k-1), n <= 12
OddHarmT(n) == IF n <= 12 THEN Q(OddHarm(n)) ELSE AddR(Q(OddHarm(12)), SumR([k \in 1..(n - 12) |-> QF(1, 2 * (12 + k) - 1)]))

(* polynomials with integer coefficients: sequence c, value sum c[i] t^(i-1) *)
PolyDer(c) == IF Len(c) <= 1 THEN <<0>> ELSE TLCEval([i \in 1..(Len(c) - 1) |-> i * c[i + 1]])
PolyAt(c, i) == IF i >= 1 /\ i <= Len(c) THEN c[i] ELSE 0
(* -(1 + t^2) * c *)
PolyCotStep(c) == LET d == PolyDer(c) IN TLCEval([i \in 1..(Len(d) + 2) |-> 0 - (PolyAt(d, i) + PolyAt(d, i - 2))])
(* d^n/dx^n cot(pi x) = pi^n P_n(cot(pi x)),  P_0 = t,  P_{k+1} = -(1+t^2) P_k' *)
RECURSIVE CotPoly(_)
CotPoly(n) == IF n = 0 THEN <<0, 1>> ELSE PolyCotStep(CotPoly(n - 1))
RECURSIVE HornerT(_, _, _)
HornerT(c, t, i) == IF i = Len(c) THEN QI(c[i]) ELSE AddR(QI(c[i]), MulR(t, HornerT(c, t, i + 1)))

(* --------------------------------------------------------- case records *)
EqRec(fam, K, pt, lhs, rhs, scale, slack, br) ==
  [kind |-> "eq", fam |-> fam, pt |-> [i \in 1..Len(pt) |-> PtOf(pt[i])], lhs |-> lhs, rhs |-> rhs,
   scale |-> scale, slack |-> slack, K |-> K, br |-> br]
ClassRec(fam, pt, fn, args, want) ==
  [kind |-> "class", fam |-> fam, pt |-> [i \in 1..Len(pt) |-> PtOf(pt[i])], fn |-> fn, args |-> args, want |-> want]
Rg(lo, hi, bits) == [lo |-> PtOf(lo), hi |-> PtOf(hi), bits |-> bits]

(* ======================================================================= *)
(* FAMILIES.  Every family has a name, a bound K (units of 2^-52 * scale),  *)
(* a number of cases Count and a case constructor.                          *)
(* ======================================================================= *)
(* K: measured on the repaired library (docs/C13.md lists the largest residual of every family; K is at   *)
(* least ten times that)                                                                                 *)
KOf(fam) ==
  CASE fam \in {"factorial.table", "bernoulli.zero", "zeta.negzero"} -> 0
    [] fam \in {"bernoulli.exact"} -> 1
    [] fam \in {"besseli.half", "zeta.sum", "gammap.rec", "logbesseli.rec", "gammad1.int", "gammap.int", "lgamma.log",
                "digamma.rec", "gammad1.half", "besseli.bigx"} -> 128
    [] fam \in {"logbesseli.half", "logbesseli.log", "gamma.rec", "gamma.refl", "gamma.dup", "lgamma.rec"} -> 256
    [] fam \in {"gammap.d1", "gammap.lowerp", "gammap.upperq"} -> 1024
    [] fam \in {"polygamma.highrec", "polygamma.halfhigh"} -> 512
    [] fam \in {"logbesseli.negseries", "logbesseli.rec2", "logbesseli.series", "besseli.series"} -> 256
    [] OTHER -> 64

(* ---------------------------------------------------------------- Factorial *)
(* implementation: table for n <= 20, floor(Gamma(n+1) + 1/2) above, overflow at 171 *)
FactTableN == <<0, 1, 2, 3, 4, 5, 6, 7, 8, 9, 10, 11, 12, 13, 14, 15, 16, 17, 18, 19, 20>>
FactGammaN == <<21, 22, 23, 24, 25, 30, 50, 100, 150, 169, 170>>
FactorialCase(fam, n) ==
  EqRec(fam, KOf(fam), <<RInt(n)>>, Lib("Factorial", <<QI(n)>>), FactT(n), FactT(n), Zero,
        IF n <= 20 THEN "table" ELSE "gamma")

(* ---------------------------------------------------------- BernoulliNumber *)
(* B_1 = +1/2 or -1/2 are both in use: the contract fixes |B_1| only *)
BernoulliExact(n) ==
  LET b == Bern(n)
      l == Lib("BernoulliNumber", <<QI(n)>>)
  IN IF RIsZero(b) THEN EqRec("bernoulli.zero", 0, <<RInt(n)>>, l, Zero, One, Zero, "odd")
     ELSE IF n = 1 THEN EqRec("bernoulli.exact", KOf("bernoulli.exact"), <<RInt(n)>>, Abs(l), Half, Half, Zero, "b1")
     ELSE EqRec("bernoulli.exact", KOf("bernoulli.exact"), <<RInt(n)>>, l, Q(b), Q(b), Zero, "even")
BernOddN == <<17, 19, 21, 25, 31, 51, 101>>
BernoulliOdd(n) == EqRec("bernoulli.zero", 0, <<RInt(n)>>, Lib("BernoulliNumber", <<QI(n)>>), Zero, One, Zero, "odd")
(* defining recurrence beyond the exact table: sum_{k=0,k#1}^{m} C(m+1,k) B_k = (m+1)/2 *)
BernRecM == <<18, 20, 22, 24, 26, 28, 30, 32>>
BernRecTerms(m) == [j \in 1..m |-> LET k == IF j = 1 THEN 0 ELSE j
                                   IN MulR(QI(Binom(m + 1, k)), Lib("BernoulliNumber", <<QI(k)>>))]
BernoulliRec(m) == EqRec("bernoulli.rec", KOf("bernoulli.rec"), <<RInt(m)>>, SumR(BernRecTerms(m)), QF(m + 1, 2),
                         MagSum(BernRecTerms(m)), Zero, "recurrence")

(* --------------------------------------------------------------------- Zeta *)
(* implementation: s = 1 pole; s > 53 -> 1; integers: negative via Bernoulli numbers, even via        *)
(* Bernoulli numbers and pi^s, odd via a tabulated polynomial series (3..101); |s| < 1.49e-8 linear;  *)
(* s < 0 reflection (lgamma form above 21); rational approximations on s < 1, (1,2], (2,4], (4,7],    *)
(* (7,15), [15,36), 1 + 2^-s on [36,56)                                                               *)
ZetaL(s) == Lib("Zeta", <<Q(s)>>)
ZetaNeg(n) ==
  LET v == RNeg(RDiv(Bern(n + 1), RInt(n + 1)))
  IN IF RIsZero(v) THEN EqRec("zeta.negzero", 0, <<RInt(0 - n)>>, ZetaL(RInt(0 - n)), Zero, One, Zero, "trivial zero")
     ELSE EqRec("zeta.neg", KOf("zeta.neg"), <<RInt(0 - n)>>, ZetaL(RInt(0 - n)), Q(v), Q(v), Zero, "bernoulli")
(* zeta(2m) = |B_2m| 2^(2m-1) pi^(2m) / (2m)! *)
ZetaEvenT(m2) == MulR(DivR(MulR(Q([n |-> RAbs(Bern(m2).n), d |-> Bern(m2).d]), PowR(Two, QI(m2 - 1))), FactT(m2)),
                      PowR(Pi, QI(m2)))
ZetaEven(m) == EqRec("zeta.even", KOf("zeta.even"), <<RInt(2 * m)>>, ZetaL(RInt(2 * m)), ZetaEvenT(2 * m), ZetaEvenT(2 * m), Zero, "even")
(* direct sum with the integral bound of the tail: sum_{k>N} k^-s < N^(1-s)/(s-1) *)
ZetaSumN == 24
ZetaSumS == <<RInt(15), R(31, 2), RInt(16), RInt(17), RInt(20), RInt(21), RInt(22), RInt(35), R(71, 2), RInt(36), R(73, 2),
              RInt(37), R(161, 4), RInt(51), RInt(52), RInt(53), RInt(54), RInt(55), R(111, 2), RInt(56), R(113, 2),
              RInt(57), RInt(100), RInt(101), RInt(103), RInt(1000)>>
ZetaSumT(s) == SumR([k \in 1..ZetaSumN |-> PowR(QI(k), Q(RNeg(s)))])
ZetaSum(s) == EqRec("zeta.sum", KOf("zeta.sum"), <<s>>, ZetaL(s), ZetaSumT(s), ZetaSumT(s),
                    DivR(PowR(QI(ZetaSumN), Q(RSub(ROne, s))), Q(RSub(s, ROne))),
                    IF RLt(RInt(53), s) THEN "one" ELSE IF s.d = 1 /\ s.n % 2 = 1 THEN "odd table"
                    ELSE IF s.d = 1 THEN "even" ELSE IF RLt(s, RInt(36)) THEN "rational 15-36" ELSE "1+2^-s")
(* Euler-Maclaurin with the specification's own Bernoulli numbers:                                  *)
(*  zeta(s) = sum_{k<N} k^-s + N^(1-s)/(s-1) + N^-s/2 + sum_{j=1}^{J} B_2j/(2j)! (s)_(2j-1) N^(-s-2j+1) *)
(*  + R,  |R| <= |term J+1|  (real s > -2J-1)                                                       *)
EMN == 16
EMJ == 7
RECURSIVE Rising(_, _)
Rising(s, m) == IF m = 0 THEN One ELSE MulR(Rising(s, m - 1), Q(RAdd(s, RInt(m - 1))))
EMTerm(s, j) == MulR(DivR(Q(Bern(2 * j)), FactT(2 * j)),
                     MulR(Rising(s, 2 * j - 1), PowR(QI(EMN), Q(RSub(RNeg(s), RInt(2 * j - 1))))))
ZetaEMT(s) == AddR(AddR(AddR(SumR([k \in 1..(EMN - 1) |-> PowR(QI(k), Q(RNeg(s)))]),
                             DivR(PowR(QI(EMN), Q(RSub(ROne, s))), Q(RSub(s, ROne)))),
                        DivR(PowR(QI(EMN), Q(RNeg(s))), Two)),
                   SumR([j \in 1..EMJ |-> EMTerm(s, j)]))
ZetaEMS == <<R(-3, 4), R(-1, 2), R(-1, 4), R(1, 4), R(1, 2), R(3, 4), R(7, 8), R(15, 16), R(17, 16), R(9, 8), R(5, 4), R(3, 2),
             R(7, 4), R(15, 8), RInt(2), R(17, 8), R(5, 2), RInt(3), R(7, 2), R(31, 8), RInt(4), R(33, 8), RInt(5), RInt(6),
             R(13, 2), R(55, 8), RInt(7), R(57, 8), RInt(9), R(21, 2), RInt(11), RInt(13), RInt(14), R(29, 2), R(119, 8),
             RInt(15), R(121, 8), R(41, 2), R(141, 4)>>
ZetaEMBranch(s) == IF RLt(s, RZero) THEN "reflection" ELSE IF s.d = 1 /\ s.n % 2 = 0 THEN "even"
                   ELSE IF s.d = 1 THEN "odd table" ELSE IF RLt(s, ROne) THEN "rational s<1"
                   ELSE IF RLe(s, RInt(2)) THEN "rational 1-2" ELSE IF RLe(s, RInt(4)) THEN "rational 2-4"
                   ELSE IF RLe(s, RInt(7)) THEN "rational 4-7" ELSE IF RLt(s, RInt(15)) THEN "rational 7-15"
                   ELSE "rational 15-36"
ZetaEM(s) == EqRec("zeta.em", KOf("zeta.em"), <<s>>, ZetaL(s), ZetaEMT(s), ZetaEMT(s), Abs(EMTerm(s, EMJ + 1)), ZetaEMBranch(s))
(* zeta(s) = -1/2 - s log(2 pi)/2 + O(s^2), |remainder| <= 1.1 s^2 for |s| <= 2^-20 *)
ZetaLinS == <<Dy(1, 29), Dy(-1, 29), Dy(1, 27), Dy(-1, 27), Dy(1, 26), Dy(-1, 26), Dy(1, 25), Dy(-1, 25), Dy(1, 24), Dy(-1, 24)>>
ZetaLinT(s) == SubR(QF(-1, 2), MulR(Q(s), DivR(Log(MulR(Two, Pi)), Two)))
ZetaLin(s) == EqRec("zeta.lin", KOf("zeta.lin"), <<s>>, ZetaL(s), ZetaLinT(s), ZetaLinT(s), MulR(QF(11, 10), PowR(Q(s), Two)),
                    IF 2^26 <= s.d THEN "linear" ELSE "outside linear")

(* ======================================================================= *)
(* Identity schemas: equations over the variables x_1, x_2 with a domain    *)
(* (list of boxes; a box gives lo, hi and the dyadic resolution per         *)
(* variable) and guards (terms that must be positive: distance from poles). *)
(* ======================================================================= *)
SchemaRec(fam, K, nvars, lhs, rhs, scale, slack, dom, guard) ==
  [kind |-> "schema", fam |-> fam, K |-> K, nvars |-> nvars, lhs |-> lhs, rhs |-> rhs, scale |-> scale,
   slack |-> slack, dom |-> dom, guard |-> guard]
InstCase(S, pt, br) == EqRec(S.fam, S.K, pt, Inst(S.lhs, pt), Inst(S.rhs, pt), Inst(S.scale, pt), Inst(S.slack, pt), br)
(* a point of the regular grid: the driver skips it when a guard of the schema is not positive there *)
GridCase(S, pt) == InstCase(S, pt, "grid") @@ [guard |-> InstSeq(S.guard, pt)]
(* the t-th of n equidistant points of a range, rounded down to the range's dyadic resolution *)
GridCoord(rg, t, n) == LET lo == Rat(rg.lo[1], rg.lo[2])
                           hi == Rat(rg.hi[1], rg.hi[2])
                           w  == RMul(RMul(RSub(hi, lo), RInt(2^rg.bits)), Rat(t, n))
                       IN RAdd(lo, Dy(w.n \div w.d, rg.bits))
(* 1 variable: n points per box; 2 variables: m x m points per box (t runs over the half-open grid t + 1/2) *)
GridCount(S, n, m) == IF S.nvars = 1 THEN Len(S.dom) * n ELSE Len(S.dom) * m * m
GridPoint(S, j, n, m) ==
  IF S.nvars = 1
  THEN LET box == S.dom[((j - 1) \div n) + 1]  t == (j - 1) % n IN <<GridCoord(box[1], 2 * t + 1, 2 * n)>>
  ELSE LET box == S.dom[((j - 1) \div (m * m)) + 1]
           t   == (j - 1) % (m * m)
       IN <<GridCoord(box[1], 2 * (t \div m) + 1, 2 * m), GridCoord(box[2], 2 * (t % m) + 1, 2 * m)>>
(* distance from the integers: sin^2(pi x) - 1/1000 > 0 *)
AwayFromIntegers(x) == SubR(PowR(Sin(MulR(Pi, x)), Two), QF(1, 1000))
XP1   == AddR(X1, One)
XPH   == AddR(X1, Half)
OneMX == SubR(One, X1)
TwoX  == MulR(Two, X1)
(* sequences of dyadic points k / 2^m *)
DySeq(ks, m) == TLCEval([j \in 1..Len(ks) |-> <<Dy(ks[j], m)>>])

(* ------------------------------------------------------------------ Digamma *)
(* implementation: x <= -1 reflection (pi / tan); poles at 0, -1, -2, ...; x >= 10 asymptotic series;   *)
(* 2 < x < 10 downward recurrence; x < 1 upward recurrence; [1,2] rational approximation about the root *)
DigL(x) == Lib("Digamma", <<x>>)
DigammaIntN  == <<1, 2, 3, 4, 5, 6, 7, 8, 9, 10, 11, 12, 13, 16, 20, 21, 24, 33, 64, 128>>
DigammaInt(n) == LET h == HarmT(n - 1) IN
  EqRec("digamma.int", KOf("digamma.int"), <<RInt(n)>>, DigL(QI(n)), SubR(h, EGamma), AddR(h, EGamma), Zero,
        IF n >= 10 THEN "asymptotic" ELSE IF n > 2 THEN "recurrence down" ELSE "rational 1-2")
(* psi(n + 1/2) = -gamma - 2 log 2 + 2 sum_{k=1}^{n} 1/(2k-1) *)
DigHalfT(n)  == AddR(SubR(Neg(EGamma), MulR(Two, Log(Two))), MulR(Two, OddHarmT(n)))
DigHalfS(n)  == AddR(AddR(EGamma, MulR(Two, Log(Two))), MulR(Two, OddHarmT(n)))
DigammaHalfN == <<0, 1, 2, 3, 4, 5, 8, 9, 10, 11, 12, 16, 24, 40>>
DigammaHalf(n) == EqRec("digamma.half", KOf("digamma.half"), <<R(2 * n + 1, 2)>>, DigL(QF(2 * n + 1, 2)), DigHalfT(n), DigHalfS(n), Zero,
                        IF 2 * n + 1 >= 20 THEN "asymptotic" ELSE IF n >= 2 THEN "recurrence down" ELSE IF n = 1 THEN "rational 1-2" ELSE "recurrence up")
(* reflection at the half-integers, where cot vanishes: psi(1/2 - n) = psi(1/2 + n) *)
DigammaNegHalf(n) == EqRec("digamma.neghalf", KOf("digamma.neghalf"), <<R(1 - 2 * n, 2)>>, DigL(QF(1 - 2 * n, 2)), DigHalfT(n), DigHalfS(n), Zero,
                           IF n = 1 THEN "recurrence up" ELSE "reflection")
(* Gauss: psi(1/4) = -gamma - pi/2 - 3 log 2, psi(3/4) = -gamma + pi/2 - 3 log 2, then the recurrence *)
DigQuarterBase(q) == IF q = 1 THEN SubR(SubR(Neg(EGamma), DivR(Pi, Two)), MulR(QI(3), Log(Two)))
                     ELSE SubR(AddR(Neg(EGamma), DivR(Pi, Two)), MulR(QI(3), Log(Two)))
DigQuarterMag == AddR(AddR(EGamma, DivR(Pi, Two)), MulR(QI(3), Log(Two)))
DigQuarterT(n, q) == AddR(DigQuarterBase(q), MulR(QI(4), InvPowSum(n, 4, q - 4, 1)))     \* psi(n + q/4), q = 1, 3
DigQuarterS(n, q) == AddR(DigQuarterMag, MulR(QI(4), InvPowSum(n, 4, q - 4, 1)))
DigammaQuarterN == <<0, 1, 2, 3, 5, 8, 9, 10, 11, 20>>
DigammaQuarter(n, q) == EqRec("digamma.quarter", KOf("digamma.quarter"), <<R(4 * n + q, 4)>>, DigL(QF(4 * n + q, 4)),
                               DigQuarterT(n, q), DigQuarterS(n, q), Zero, IF 4 * n + q >= 40 THEN "asymptotic" ELSE "recurrence")
(* psi(1/4 - n) = psi(n + 3/4) - pi,  psi(3/4 - n) = psi(n + 1/4) + pi *)
DigammaNegQuarter(n, q) ==
  EqRec("digamma.negquarter", KOf("digamma.negquarter"), <<R(q - 4 * n, 4)>>, DigL(QF(q - 4 * n, 4)),
        IF q = 1 THEN SubR(DigQuarterT(n, 3), Pi) ELSE AddR(DigQuarterT(n, 1), Pi),
        AddR(DigQuarterS(n, 4 - q), Pi), Zero, IF q - 4 * n <= -4 THEN "reflection" ELSE "recurrence up")
DigammaRecS == SchemaRec("digamma.rec", KOf("digamma.rec"), 1, DigL(XP1), AddR(DigL(X1), DivR(One, X1)),
                         Mag3(DigL(XP1), DigL(X1), DivR(One, X1)), Zero,
                         << <<Rg(Dy(1, 10), RInt(12), 10)>>, <<Rg(RInt(-12), Dy(-1, 10), 10)>>, <<Rg(RInt(12), RInt(2000), 4)>> >>,
                         <<AwayFromIntegers(X1)>>)
DigammaRecP == DySeq(<<1, 64, 256, 512, 768, 1023, 1024, 1025, 1280, 1408, 1536, 1792, 2048, 2049, 2560, 4608, 8704, 9215,
                       9216, 9217, 9728, 10240, 10752, 20480, 102400, 1024000,
                       -256, -512, -768, -1023, -1025, -1280, -1536, -2304, -7680, -20736, -102912>>, 10)
DigammaReflS == SchemaRec("digamma.refl", KOf("digamma.refl"), 1, SubR(DigL(OneMX), DigL(X1)), MulR(Pi, Cot(MulR(Pi, X1))),
                          Mag3(DigL(OneMX), DigL(X1), MulR(Pi, Cot(MulR(Pi, X1)))), Zero,
                          << <<Rg(Dy(1, 10), RInt(12), 10)>>, <<Rg(RInt(12), RInt(300), 6)>> >>, <<AwayFromIntegers(X1)>>)
DigammaReflP == DySeq(<<1, 128, 256, 384, 512, 768, 1023, 1025, 1280, 1536, 2047, 2049, 2304, 5376, 9728, 10496, 11263, 11265, 20608, 102656>>, 10)
DigammaDupS == SchemaRec("digamma.dup", KOf("digamma.dup"), 1, DigL(TwoX), AddR(MulR(Half, AddR(DigL(X1), DigL(XPH))), Log(Two)),
                         AddR(Mag3(DigL(TwoX), DigL(X1), DigL(XPH)), Log(Two)), Zero,
                         << <<Rg(Dy(1, 10), RInt(12), 10)>>, <<Rg(RInt(-6), Dy(-1, 10), 10)>>, <<Rg(RInt(12), RInt(1000), 4)>> >>,
                         <<AwayFromIntegers(TwoX)>>)
DigammaDupP == DySeq(<<1, 128, 256, 512, 768, 1024, 1280, 2560, 4864, 5120, 5376, 9984, 10240, 30720, 1024000, -256, -768, -2304, -5376>>, 10)

(* ----------------------------------------------------------------- Trigamma *)
(* implementation: x <= 0 reflection (poles at the non-positive integers); x < 1 one recurrence step;  *)
(* rational approximations on [1,2], (2,4], (4,inf)                                                     *)
TriL(x) == Lib("Trigamma", <<x>>)
PiSq == PowR(Pi, Two)
TriBr(x4) == IF x4 <= 0 THEN "reflection" ELSE IF x4 < 4 THEN "recurrence up" ELSE IF x4 <= 8 THEN "rational 1-2"
             ELSE IF x4 <= 16 THEN "rational 2-4" ELSE "rational 4-inf"         \* x4 = 4 x
TrigammaIntN == <<1, 2, 3, 4, 5, 6, 8, 12, 20, 50>>
TrigammaInt(n) == LET t == SubR(DivR(PiSq, QI(6)), InvPowSum(n - 1, 1, 0, 2)) IN
  EqRec("trigamma.int", KOf("trigamma.int"), <<RInt(n)>>, TriL(QI(n)), t, t, Zero, TriBr(4 * n))
TriHalfT(n) == SubR(DivR(PiSq, Two), MulR(QI(4), InvPowSum(n, 2, -1, 2)))
TrigammaHalfN == <<0, 1, 2, 3, 4, 5, 8, 12, 20>>
TrigammaHalf(n) == EqRec("trigamma.half", KOf("trigamma.half"), <<R(2 * n + 1, 2)>>, TriL(QF(2 * n + 1, 2)), TriHalfT(n), TriHalfT(n), Zero, TriBr(4 * n + 2))
(* psi1(1/2 - n) = pi^2 - psi1(1/2 + n) *)
TrigammaNegHalf(n) == LET t == AddR(DivR(PiSq, Two), MulR(QI(4), InvPowSum(n, 2, -1, 2))) IN
  EqRec("trigamma.neghalf", KOf("trigamma.neghalf"), <<R(1 - 2 * n, 2)>>, TriL(QF(1 - 2 * n, 2)), t, t, Zero, "reflection")
(* psi1(1/4) = pi^2 + 8 G, psi1(3/4) = pi^2 - 8 G (G Catalan's constant), then the recurrence *)
TriQuarterT(n, q) == SubR(IF q = 1 THEN AddR(PiSq, MulR(QI(8), Catalan)) ELSE SubR(PiSq, MulR(QI(8), Catalan)),
                          MulR(QI(16), InvPowSum(n, 4, q - 4, 2)))
TrigammaQuarterN == <<0, 1, 2, 3, 4, 8>>
TrigammaQuarter(n, q) == EqRec("trigamma.quarter", KOf("trigamma.quarter"), <<R(4 * n + q, 4)>>, TriL(QF(4 * n + q, 4)),
                                TriQuarterT(n, q), TriQuarterT(n, q), Zero, TriBr(4 * n + q))
(* psi1(q/4 - n) = 2 pi^2 - psi1(n + (4-q)/4) *)
TrigammaNegQuarter(n, q) == LET t == SubR(MulR(Two, PiSq), TriQuarterT(n, 4 - q)) IN
  EqRec("trigamma.negquarter", KOf("trigamma.negquarter"), <<R(q - 4 * n, 4)>>, TriL(QF(q - 4 * n, 4)), t, t, Zero, "reflection")
TrigammaRecS == SchemaRec("trigamma.rec", KOf("trigamma.rec"), 1, TriL(XP1), SubR(TriL(X1), PowR(X1, QI(-2))),
                          Mag3(TriL(XP1), TriL(X1), PowR(X1, QI(-2))), Zero,
                          << <<Rg(Dy(1, 10), RInt(8), 10)>>, <<Rg(RInt(-8), Dy(-1, 10), 10)>>, <<Rg(RInt(8), RInt(2000), 4)>> >>,
                          <<AwayFromIntegers(X1)>>)
TrigammaRecP == DySeq(<<1, 256, 512, 1023, 1024, 1025, 1536, 2047, 2048, 2049, 3072, 3073, 4095, 4096, 4097, 5120, 10240, 102400,
                        -256, -512, -1023, -1025, -1536, -4608>>, 10)
TrigammaReflS == SchemaRec("trigamma.refl", KOf("trigamma.refl"), 1, AddR(TriL(OneMX), TriL(X1)), DivR(PiSq, PowR(Sin(MulR(Pi, X1)), Two)),
                           DivR(PiSq, PowR(Sin(MulR(Pi, X1)), Two)), Zero,
                           << <<Rg(Dy(1, 10), RInt(8), 10)>>, <<Rg(RInt(8), RInt(300), 6)>> >>, <<AwayFromIntegers(X1)>>)
TrigammaReflP == DySeq(<<1, 128, 256, 512, 768, 1023, 1025, 1536, 2049, 2560, 4097, 4608, 10496, 102656>>, 10)
TrigammaDupS == SchemaRec("trigamma.dup", KOf("trigamma.dup"), 1, MulR(QI(4), TriL(TwoX)), AddR(TriL(X1), TriL(XPH)),
                          MulR(QI(4), Abs(TriL(TwoX))), Zero,
                          << <<Rg(Dy(1, 10), RInt(8), 10)>>, <<Rg(RInt(8), RInt(1000), 4)>> >>, <<>>)
TrigammaDupP == DySeq(<<1, 256, 512, 768, 1024, 1536, 2048, 2560, 4096, 4608, 10240, 1024000>>, 10)

(* ---------------------------------------------------------------- Polygamma *)
(* implementation (n >= 2): x < 0 reflection with the tabulated derivatives of cot; x < min(5/n, 1/4)   *)
(* series in zeta values about 0; x > 6 + 4n asymptotic (Bernoulli) series; x = 1 and x = 1/2 closed     *)
(* forms; otherwise upward recurrence to beyond 6 + 4n and the asymptotic series there                  *)
PolyL(n, x) == Lib("Polygamma", <<QI(n), x>>)
PolyNs == <<2, 3, 4, 5, 6>>
SgnP(n) == IF n % 2 = 1 THEN 1 ELSE -1                      \* (-1)^(n+1)
ZetaConstExact(m) == m = 3 \/ (m % 2 = 0 /\ m <= BMax)
ZetaConstT(m) == IF m % 2 = 0 /\ m <= BMax THEN ZetaEvenT(m) ELSE IF m = 3 THEN Zeta3 ELSE Lib("Zeta", <<QI(m)>>)
PolyBr(n, x2) == IF x2 = 2 THEN "x = 1" ELSE IF x2 = 1 THEN "x = 1/2" ELSE IF x2 > 2 * (6 + 4 * n) THEN "asymptotic" ELSE "transition"   \* x2 = 2x
(* psi_n(m) = (-1)^(n+1) n! (zeta(n+1) - sum_{k<m} k^-(n+1)) *)
PolyIntM(n) == <<1, 2, 3, 5, 4 * n + 5, 4 * n + 6, 4 * n + 7, 4 * n + 8, 60>>
PolyIntT(n, m) == MulR(QI(SgnP(n)), MulR(FactT(n), SubR(ZetaConstT(n + 1), InvPowSum(m - 1, 1, 0, n + 1))))
PolyIntS(n, m) == MulR(FactT(n), AddR(Abs(ZetaConstT(n + 1)), InvPowSum(m - 1, 1, 0, n + 1)))
PolygammaInt(n, m) ==
  IF ZetaConstExact(n + 1)
  THEN EqRec("polygamma.int", KOf("polygamma.int"), <<RInt(n), RInt(m)>>, PolyL(n, QI(m)), PolyIntT(n, m), PolyIntT(n, m), Zero, PolyBr(n, 2 * m))
  ELSE EqRec("polygamma.intz", KOf("polygamma.intz"), <<RInt(n), RInt(m)>>, PolyL(n, QI(m)), PolyIntT(n, m), PolyIntS(n, m), Zero, PolyBr(n, 2 * m))
(* psi_n(m + 1/2) = (-1)^(n+1) n! ((2^(n+1) - 1) zeta(n+1) - 2^(n+1) sum_{k=1}^{m} (2k-1)^-(n+1)) *)
PolyHalfM(n) == <<0, 1, 2, 4 * n + 5, 4 * n + 6, 50>>
PolyHalfT(n, m) == MulR(QI(SgnP(n)), MulR(FactT(n), SubR(MulR(QI(2^(n + 1) - 1), ZetaConstT(n + 1)),
                                                           MulR(QI(2^(n + 1)), InvPowSum(m, 2, -1, n + 1)))))
PolyHalfS(n, m) == MulR(FactT(n), AddR(MulR(QI(2^(n + 1) - 1), Abs(ZetaConstT(n + 1))), MulR(QI(2^(n + 1)), InvPowSum(m, 2, -1, n + 1))))
PolygammaHalf(n, m) ==
  IF ZetaConstExact(n + 1)
  THEN EqRec("polygamma.half", KOf("polygamma.half"), <<RInt(n), R(2 * m + 1, 2)>>, PolyL(n, QF(2 * m + 1, 2)), PolyHalfT(n, m), PolyHalfT(n, m), Zero, PolyBr(n, 2 * m + 1))
  ELSE EqRec("polygamma.halfz", KOf("polygamma.halfz"), <<RInt(n), R(2 * m + 1, 2)>>, PolyL(n, QF(2 * m + 1, 2)), PolyHalfT(n, m), PolyHalfS(n, m), Zero, PolyBr(n, 2 * m + 1))
NameN(base, n) == base \o "." \o ToString(n)
PolyRecS(n) == LET c == MulR(QI((0 - SgnP(n)) * FactI(n)), PowR(X1, QI(0 - n - 1))) IN
  SchemaRec(NameN("polygamma.rec", n), KOf("polygamma.rec"), 1, PolyL(n, XP1), AddR(PolyL(n, X1), c), Mag3(PolyL(n, XP1), PolyL(n, X1), c), Zero,
            << <<Rg(Dy(1, 10), RInt(4 * n + 10), 10)>>, <<Rg(RInt(-8), Dy(-1, 10), 10)>>, <<Rg(RInt(4 * n + 10), RInt(500), 4)>> >>,
            <<AwayFromIntegers(X1)>>)
PolyRecP(n) == LET b == (6 + 4 * n) * 1024 IN
  DySeq(<<1, 128, 255, 256, 257, 511, 512, 513, 1023, 1024, 1025, 2560, b - 1024 + 512, b - 1025, b - 1024, b - 1023, b - 1, b, b + 1, b + 512,
          102400, 409600, -256, -512, -1536, -2304, -7936>>, 10)
(* (-1)^n psi_n(1-x) - psi_n(x) = pi^(n+1) P_n(cot(pi x)) *)
AbsPoly(c) == [j \in 1..Len(c) |-> RAbs(c[j])]
PolyReflS(n) == LET ct == Cot(MulR(Pi, X1))
                    a  == MulR(QI(0 - SgnP(n)), PolyL(n, OneMX))
                    b  == PolyL(n, X1) IN
  SchemaRec(NameN("polygamma.refl", n), KOf("polygamma.refl"), 1, SubR(a, b), MulR(PowR(Pi, QI(n + 1)), HornerT(CotPoly(n), ct, 1)),
            AddR(Mag2(a, b), MulR(PowR(Pi, QI(n + 1)), HornerT(AbsPoly(CotPoly(n)), Abs(ct), 1))), Zero,
            << <<Rg(Dy(1, 10), RInt(12), 10)>>, <<Rg(RInt(12), RInt(100), 6)>> >>, <<AwayFromIntegers(X1)>>)
PolyReflP(n) == DySeq(<<1, 128, 256, 384, 512, 768, 1023, 1025, 1280, 1536, 2304, 5376, (6 + 4 * n) * 1024 - 256, (6 + 4 * n) * 1024 + 256, 51456>>, 10)
PolyDupS(n) == LET a == MulR(QI(2^(n + 1)), PolyL(n, TwoX)) IN
  SchemaRec(NameN("polygamma.dup", n), KOf("polygamma.dup"), 1, a, AddR(PolyL(n, X1), PolyL(n, XPH)), Mag3(a, PolyL(n, X1), PolyL(n, XPH)), Zero,
            << <<Rg(Dy(1, 10), RInt(2 * n + 6), 10)>>, <<Rg(RInt(2 * n + 6), RInt(300), 4)>> >>, <<>>)
PolyDupP(n) == LET b == (3 + 2 * n) * 1024 IN
  DySeq(<<1, 64, 127, 128, 129, 256, 512, 768, 1024, 2560, b - 512, b - 1, b, b + 1, b + 512, 51200>>, 10)
(* orders 0 and 1 are the digamma and trigamma functions *)
PolyDelegateS(n) == SchemaRec(NameN("polygamma.delegate", n), 0, 1, PolyL(n, X1), IF n = 0 THEN DigL(X1) ELSE TriL(X1),
                              Abs(IF n = 0 THEN DigL(X1) ELSE TriL(X1)), Zero,
                              << <<Rg(Dy(1, 10), RInt(30), 10)>>, <<Rg(RInt(-10), Dy(-1, 10), 10)>> >>, <<AwayFromIntegers(X1)>>)
PolyDelegateP == DySeq(<<1, 512, 1024, 1536, 5120, 10240, 20480, -512, -2560>>, 10)

(* -------------------------------------------- Gamma, log-gamma, multivariate *)
(* Mgamma(x, 1) = Gamma(x), Mlgamma(x, 1) = log |Gamma(x)|; Mgamma(x, k) = pi^(k(k-1)/4) prod_{j=1}^{k} Gamma(x + (1-j)/2) *)
GamL(x)  == Lib("Mgamma", <<x, One>>)
LgamL(x) == Lib("Mlgamma", <<x, One>>)
GammaHalfT(n)    == MulR(DivR(FactT(2 * n), MulR(PowR(QI(4), QI(n)), FactT(n))), Sqrt(Pi))            \* Gamma(n + 1/2)
GammaNegHalfT(n) == MulR(DivR(MulR(PowR(QI(-4), QI(n)), FactT(n)), FactT(2 * n)), Sqrt(Pi))            \* Gamma(1/2 - n)
GammaAtT(x2) == IF x2 % 2 = 0 THEN FactT(x2 \div 2 - 1) ELSE GammaHalfT((x2 - 1) \div 2)               \* Gamma(x2 / 2), x2 > 0
GammaIntN  == <<1, 2, 3, 4, 5, 6, 10, 13, 20, 21, 22, 23, 30, 100, 170, 171>>
GammaHalfN == <<0, 1, 2, 3, 4, 5, 10, 20, 50, 85>>
GammaNegHalfN == <<1, 2, 3, 4, 5, 10, 20, 50, 85>>
GammaValue(kind, n) ==
  LET x == IF kind = "int" THEN RInt(n) ELSE IF kind = "half" THEN R(2 * n + 1, 2) ELSE R(1 - 2 * n, 2)
      t == IF kind = "int" THEN FactT(n - 1) ELSE IF kind = "half" THEN GammaHalfT(n) ELSE GammaNegHalfT(n)
  IN EqRec("gamma." \o kind, KOf("gamma.value"), <<x>>, GamL(Q(x)), t, t, Zero, kind)
LgammaValue(kind, n) ==
  LET x == IF kind = "int" THEN RInt(n) ELSE IF kind = "half" THEN R(2 * n + 1, 2) ELSE R(1 - 2 * n, 2)
      t == Log(Abs(IF kind = "int" THEN FactT(n - 1) ELSE IF kind = "half" THEN GammaHalfT(n) ELSE GammaNegHalfT(n)))
  IN EqRec("lgamma." \o kind, KOf("lgamma.value"), <<x>>, LgamL(Q(x)), t, t, Zero, kind)
MlgKs  == <<1, 2, 3, 4, 5>>
MlgX2(k) == <<k, k + 1, k + 2, 2 * k + 3, 20, 41, 100>>                     \* 2x; the domain is 2x > k - 1
MlgTerms(x2, k) == [j \in 1..k |-> Log(GammaAtT(x2 + 1 - j))]
MlgammaClosed(x2, k) == LET c == MulR(QF(k * (k - 1), 4), Log(Pi)) IN
  EqRec("mlgamma.closed", KOf("mlgamma.closed"), <<R(x2, 2), RInt(k)>>, Lib("Mlgamma", <<QF(x2, 2), QI(k)>>),
        AddR(c, SumR(MlgTerms(x2, k))), AddR(c, MagSum(MlgTerms(x2, k))), Zero, "closed")
MgammaClosed(x2, k) == LET t == MulR(PowR(Pi, QF(k * (k - 1), 4)), ProdR([j \in 1..k |-> GammaAtT(x2 + 1 - j)])) IN
  EqRec("mgamma.closed", KOf("mgamma.closed"), <<R(x2, 2), RInt(k)>>, Lib("Mgamma", <<QF(x2, 2), QI(k)>>), t, t, Zero, "closed")
GammaRecS == SchemaRec("gamma.rec", KOf("gamma.rec"), 1, GamL(XP1), MulR(X1, GamL(X1)), Abs(GamL(XP1)), Zero,
                       << <<Rg(Dy(1, 10), RInt(20), 10)>>, <<Rg(RInt(-20), Dy(-1, 10), 10)>>, <<Rg(RInt(20), RInt(170), 6)>> >>, <<AwayFromIntegers(X1)>>)
GammaRecP == DySeq(<<1, 256, 512, 1023, 1024, 1025, 1536, 2560, 10240, 20992, 102400, 173568, -256, -512, -1536, -7424, -20224>>, 10)
GammaReflS == SchemaRec("gamma.refl", KOf("gamma.refl"), 1, MulR(GamL(X1), GamL(OneMX)), DivR(Pi, Sin(MulR(Pi, X1))),
                        Abs(DivR(Pi, Sin(MulR(Pi, X1)))), Zero, << <<Rg(Dy(1, 10), RInt(20), 10)>>, <<Rg(RInt(20), RInt(150), 6)>> >>, <<AwayFromIntegers(X1)>>)
GammaReflP == DySeq(<<1, 128, 256, 512, 768, 1023, 1025, 1536, 2304, 10496, 51456, 153856>>, 10)
GammaDupS == SchemaRec("gamma.dup", KOf("gamma.dup"), 1, MulR(GamL(X1), GamL(XPH)),
                       MulR(MulR(PowR(Two, SubR(One, TwoX)), Sqrt(Pi)), GamL(TwoX)), Abs(MulR(GamL(X1), GamL(XPH))), Zero,
                       << <<Rg(Dy(1, 10), RInt(20), 10)>>, <<Rg(RInt(20), RInt(85), 6)>> >>, <<>>)
GammaDupP == DySeq(<<1, 128, 256, 512, 768, 1024, 1536, 2560, 10240, 51200, 86528>>, 10)
LgammaRecS == SchemaRec("lgamma.rec", KOf("lgamma.rec"), 1, LgamL(XP1), AddR(LgamL(X1), Log(Abs(X1))), Mag3(LgamL(XP1), LgamL(X1), Log(Abs(X1))), Zero,
                        << <<Rg(Dy(1, 10), RInt(20), 10)>>, <<Rg(RInt(-20), Dy(-1, 10), 10)>>, <<Rg(RInt(20), RInt(100000), 2)>> >>, <<AwayFromIntegers(X1)>>)
LgammaRecP == DySeq(<<1, 256, 512, 1023, 1024, 1025, 1536, 2047, 2049, 2560, 10240, 102400, 174080, 1024000, -256, -512, -1536, -7424>>, 10)
LgammaLogS == SchemaRec("lgamma.log", KOf("lgamma.log"), 1, LgamL(X1), Log(Abs(GamL(X1))), AddR(Abs(LgamL(X1)), One), Zero,
                        << <<Rg(Dy(1, 10), RInt(20), 10)>>, <<Rg(RInt(-20), Dy(-1, 10), 10)>>, <<Rg(RInt(20), RInt(170), 6)>> >>, <<AwayFromIntegers(X1)>>)
LgammaLogP == DySeq(<<1, 512, 1024, 1536, 2048, 2560, 10240, 102400, 174080, -512, -1536, -7424>>, 10)
MlgSumTerms(k) == [j \in 1..k |-> LgamL(AddR(X1, QF(1 - j, 2)))]
MlgammaSumS(k) == LET c == MulR(QF(k * (k - 1), 4), Log(Pi)) IN
  SchemaRec(NameN("mlgamma.sum", k), KOf("mlgamma.sum"), 1, Lib("Mlgamma", <<X1, QI(k)>>), AddR(c, SumR(MlgSumTerms(k))), AddR(c, MagSum(MlgSumTerms(k))), Zero,
            << <<Rg(RAdd(R(k - 1, 2), Dy(1, 6)), RInt(50), 6)>>, <<Rg(RInt(50), RInt(5000), 2)>> >>, <<>>)
MlgammaSumP(k) == [j \in 1..6 |-> <<RAdd(R(k - 1, 2), <<Dy(1, 6), Dy(1, 1), RInt(1), Dy(13, 2), RInt(20), RInt(1000)>>[j])>>]
MgammaLogS(k) == SchemaRec(NameN("mgamma.log", k), KOf("mgamma.log"), 1, Lib("Mlgamma", <<X1, QI(k)>>), Log(Lib("Mgamma", <<X1, QI(k)>>)),
                           AddR(Abs(Lib("Mlgamma", <<X1, QI(k)>>)), QI(k)), Zero,
                           << <<Rg(RAdd(R(k - 1, 2), Dy(1, 6)), RInt(40), 6)>> >>, <<>>)
MgammaLogP(k) == [j \in 1..4 |-> <<RAdd(R(k - 1, 2), <<Dy(1, 6), Dy(1, 1), Dy(13, 2), RInt(20)>>[j])>>]

(* ---------------------------------------------------------- incomplete gamma *)
(* implementation (gamma_incomplete_imp): a >= 170 and not normalised -> logarithmic forms; integer a < 30,   *)
(* a <= x+1, x > 0.6: finite sum for Q; half-integer a < 30, a <= x+1, x > 0.2: erfc + finite sum; x < 2.2e-16   *)
(* and a > 1: leading term; x < 0.5: series for P if -0.4/log x < a else small-a series for Q; x < 1.1: series  *)
(* if 0.75 x < a; otherwise Temme's uniform expansion (a > 20, |x-a|/a < 0.4; a > 200: (x-a)^2/a^2 < 20/a),     *)
(* series for P if x - 1/(3x) < a, continued fraction for Q else; x >= 709 leaves the finite-sum branches       *)
GPL(a, x) == Lib("GammaP", <<a, x>>)
GQL(a, x) == Lib("GammaQ", <<a, x>>)
GLL(a, x) == Lib("GammaLower", <<a, x>>)
GUL(a, x) == Lib("GammaUpper", <<a, x>>)
GD1(a, x) == Lib("GammaPfirstDerivative", <<a, x>>)
GD2(a, x) == Lib("GammaPsecondDerivative", <<a, x>>)
(* sum_{k=0}^{n-1} x^k / k!  in Horner form *)
RECURSIVE ExpHorner(_, _, _)
ExpHorner(x, k, n) == IF k >= n THEN One ELSE AddR(One, MulR(DivR(x, QI(k)), ExpHorner(x, k + 1, n)))
ExpSumT(n, x) == IF n <= 40 THEN ExpHorner(x, 1, n) ELSE RatioSeries(TLCEval([j \in 1..(n - 1) |-> DivR(x, QI(j))]))
EmX == Exp(Neg(X1))
GIntAs == <<1, 2, 3, 5, 10, 20, 21, 29, 30, 31, 40>>
(* P, Q, lower, upper, P', P'' for integer a as schemas in x *)
GIntS(what, a) ==
  LET S  == ExpSumT(a, X1)
      q  == MulR(EmX, S)
      pp == SubR(One, q)
      d  == DivR(MulR(PowR(X1, QI(a - 1)), EmX), FactT(a - 1))
      dom == << <<Rg(Dy(1, 4), RInt(3 * a + 10), 6)>>, <<Rg(RInt(3 * a + 10), RInt(600), 2)>> >>
      mk(l, r, sc) == SchemaRec(NameN("gamma" \o what \o ".int", a), KOf("gamma" \o what \o ".int"), 1, l, r, sc, Zero, dom, <<>>)
      cx == MulR(X1, d)                                            \* x dP/dx: sensitivity to a relative change of x
      cd == AddR(AddR(One, Abs(SubR(QI(a - 1), X1))), MulR(QI(a), Abs(Log(DivR(X1, QI(a))))))   \* conditioning of P' in x and a
  IN CASE what = "p"  -> mk(GPL(QI(a), X1), pp, AddR(Abs(pp), cx))
       [] what = "q"  -> mk(GQL(QI(a), X1), q, AddR(q, cx))
       [] what = "lower" -> mk(GLL(QI(a), X1), MulR(FactT(a - 1), pp), MulR(FactT(a - 1), AddR(Abs(pp), cx)))
       [] what = "upper" -> mk(GUL(QI(a), X1), MulR(FactT(a - 1), q), MulR(FactT(a - 1), AddR(q, cx)))
       [] what = "d1" -> mk(GD1(QI(a), X1), d, MulR(d, cd))
       [] what = "d2" -> mk(GD2(QI(a), X1), MulR(d, SubR(DivR(QI(a - 1), X1), One)), MulR(MulR(d, AddR(DivR(QI(a - 1), X1), One)), cd))
PosOnly(ks) == SelectSeq(ks, LAMBDA k : k > 0)
GIntP(a) == DySeq(PosOnly(<<2, 8, 14, 16, 19, 20, 32, 35, 36, 64, 32 * a - 36, 32 * a - 32, 32 * a - 28, 32 * a, 32 * a + 32, 19 * a, 45 * a, 64 * a,
                            128 * a + 32, 3200, 19200>>), 5)
(* half-integer a = m + 1/2: P = erf(sqrt x) - e^-x sum_{k<m} x^(k+1/2)/Gamma(k+3/2), Q = erfc(sqrt x) + the same sum *)
GHalfMs == <<0, 1, 2, 5, 10, 20, 29, 30>>
HalfSumT(m) == IF m = 0 THEN Zero ELSE SumR([k \in 1..m |-> DivR(PowR(X1, QF(2 * k - 1, 2)), GammaHalfT(k))])
GHalfS(what, m) ==
  LET a  == QF(2 * m + 1, 2)
      hs == MulR(EmX, HalfSumT(m))
      pp == SubR(Erf(Sqrt(X1)), hs)
      q  == AddR(Erfc(Sqrt(X1)), hs)
      d  == DivR(MulR(PowR(X1, QF(2 * m - 1, 2)), EmX), GammaHalfT(m))
      dom == << <<Rg(Dy(1, 4), RInt(3 * m + 10), 6)>>, <<Rg(RInt(3 * m + 10), RInt(600), 2)>> >>
      mk(l, r, sc) == SchemaRec(NameN("gamma" \o what \o ".half", m), KOf("gamma" \o what \o ".half"), 1, l, r, sc, Zero, dom, <<>>)
      cx == MulR(X1, d)
      cd == AddR(AddR(One, Abs(SubR(QF(2 * m - 1, 2), X1))), MulR(a, Abs(Log(DivR(X1, a)))))
  IN CASE what = "p"  -> mk(GPL(a, X1), pp, AddR(Abs(pp), cx))
       [] what = "q"  -> mk(GQL(a, X1), q, AddR(q, cx))
       [] what = "d1" -> mk(GD1(a, X1), d, MulR(d, cd))
GHalfP(m) == DySeq(PosOnly(<<2, 5, 6, 7, 8, 16, 32, 35, 36, 64, 32 * m - 20, 32 * m - 16, 32 * m - 12, 32 * m + 16, 32 * m + 48, 19 * m + 9, 45 * m + 22,
                             64 * m + 32, 128 * m + 96, 3200, 19200>>), 5)
(* general (a, x): complements and recurrences between library values *)
GA == X1
GX == X2
GDom == << <<Rg(Dy(1, 4), RInt(40), 4), Rg(Dy(1, 4), RInt(80), 4)>>, <<Rg(RInt(40), RInt(160), 2), Rg(RInt(20), RInt(400), 2)>> >>
GDomBig == GDom \o << <<Rg(RInt(160), RInt(300), 2), Rg(RInt(100), RInt(600), 2)>> >>
GammaRawT == DivR(MulR(PowR(GX, SubR(GA, One)), Exp(Neg(GX))), GamL(GA))      \* x^(a-1) e^-x / Gamma(a), Gamma from the library
GammaCond == AddR(AddR(One, Abs(SubR(SubR(GA, One), GX))), MulR(GA, Abs(Log(DivR(GX, GA)))))    \* conditioning of x^(a-1) e^-x / Gamma(a) in x and a
GammaPQS  == SchemaRec("gammap.pq", KOf("gammap.pq"), 2, AddR(GPL(GA, GX), GQL(GA, GX)), One, One, Zero, GDomBig, <<>>)
GammaLUS  == SchemaRec("gammap.lu", KOf("gammap.lu"), 2, AddR(GLL(GA, GX), GUL(GA, GX)), GamL(GA), Abs(GamL(GA)), Zero, GDom, <<>>)
(* lower = P Gamma(a), upper = Q Gamma(a): conditioning of the prefix x^a e^-x in x and a; P may be subnormal where lower is not *)
GammaLPS  == SchemaRec("gammap.lowerp", KOf("gammap.lowerp"), 2, GLL(GA, GX), MulR(GPL(GA, GX), GamL(GA)),
                       AddR(MulR(Abs(GLL(GA, GX)), GammaCond), MulR(Abs(GamL(GA)), P2(-1022))), Zero, GDom, <<>>)
GammaUQS  == SchemaRec("gammap.upperq", KOf("gammap.upperq"), 2, GUL(GA, GX), MulR(GQL(GA, GX), GamL(GA)),
                       AddR(MulR(Abs(GUL(GA, GX)), GammaCond), MulR(Abs(GamL(GA)), P2(-1022))), Zero, GDom, <<>>)
GammaRecPS == LET a1 == AddR(GA, One) IN
  SchemaRec("gammap.rec", KOf("gammap.rec"), 2, SubR(GPL(GA, GX), GPL(a1, GX)), GD1(a1, GX),
            AddR(Mag2(GPL(GA, GX), GPL(a1, GX)), MulR(Abs(GD1(a1, GX)), GammaCond)), Zero, GDomBig, <<>>)
GammaD1S  == SchemaRec("gammap.d1", KOf("gammap.d1"), 2, GD1(GA, GX), GammaRawT, MulR(Abs(GammaRawT), GammaCond), Zero, GDom, <<>>)
GammaD2S  == SchemaRec("gammap.d2", KOf("gammap.d2"), 2, GD2(GA, GX), MulR(GammaRawT, SubR(DivR(SubR(GA, One), GX), One)),
                       MulR(MulR(AddR(Abs(GammaRawT), P2(-1022)), AddR(Abs(DivR(SubR(GA, One), GX)), One)), GammaCond), Zero, GDom, <<>>)
GAsSmall == <<Dy(1, 3), Dy(1, 2), Dy(1, 1), Dy(3, 2), RInt(1), Dy(5, 2), Dy(3, 1), RInt(2), Dy(5, 1), Dy(13, 2), RInt(5), Dy(39, 2), RInt(10),
              Dy(41, 2), Dy(39, 1), RInt(20), Dy(41, 1), RInt(25), Dy(59, 1), RInt(30), Dy(61, 1), RInt(50), RInt(100), RInt(150), Dy(339, 1)>>
GAsBig   == <<RInt(171), RInt(199), RInt(201), RInt(250)>>
(* x grid for a given a: fixed small points and multiples / shifts of a on both sides of every changeover *)
GXMul == <<Dy(1, 1), Dy(19, 5), Dy(39, 6), Dy(11, 4), Dy(3, 2), RInt(1), Dy(5, 2), Dy(21, 4), Dy(89, 6), Dy(45, 5), RInt(2), RInt(4), Dy(7, 3), Dy(9, 3)>>
GXFix == <<Dy(1, 4), Dy(7, 4), Dy(1, 1), Dy(9, 4), RInt(1), Dy(17, 4), Dy(9, 3)>>
GNX == 25
GXAt(a, j) == IF j <= 7 THEN GXFix[j]
              ELSE IF j <= 21 THEN RMul(a, GXMul[j - 7])
              ELSE IF j = 22 THEN RAdd(a, ROne)
              ELSE IF j = 23 THEN RAdd(a, Dy(1, 3))
              ELSE IF j = 24 THEN RAdd(RMul(RInt(4), a), ROne)
              ELSE IF RLt(ROne, a) THEN RSub(a, ROne) ELSE RMul(a, Dy(1, 2))
GAsAll == GAsSmall \o GAsBig
GPointAt(k) == LET a == GAsAll[((k - 1) \div GNX) + 1] IN <<a, GXAt(a, ((k - 1) % GNX) + 1)>>
GCountSmall == Len(GAsSmall) * GNX
GCountAll   == Len(GAsAll) * GNX
(* x below the unit roundoff: P(a, x) = x^a/Gamma(a+1) (1 - a x/(a+1) + O(x^2)) *)
GammaTiny(a) == LET x == PowR(Two, QI(-60))
                    t == MulR(DivR(PowR(x, QI(a)), FactT(a)), SubR(One, DivR(MulR(QI(a), x), QI(a + 1))))
  IN EqRec("gammap.tiny", KOf("gammap.tiny"), <<RInt(a)>>, GPL(QI(a), x), t, t, MulR(t, PowR(x, Two)), IF a > 1 THEN "leading term" ELSE "series")
GammaLowerTiny(a) == LET x == PowR(Two, QI(-60))
                         t == MulR(DivR(PowR(x, QI(a)), QI(a)), SubR(One, DivR(MulR(QI(a), x), QI(a + 1))))
  IN EqRec("gammalower.tiny", KOf("gammap.tiny"), <<RInt(a)>>, GLL(QI(a), x), t, t, MulR(t, PowR(x, Two)), IF a > 1 THEN "leading term" ELSE "series")
(* edges x = 0 *)
GammaEdgeList == <<
  [fn |-> "GammaP", a |-> Dy(1, 1), v |-> 0], [fn |-> "GammaP", a |-> RInt(1), v |-> 0], [fn |-> "GammaP", a |-> Dy(5, 1), v |-> 0],
  [fn |-> "GammaQ", a |-> Dy(1, 1), v |-> 1], [fn |-> "GammaQ", a |-> RInt(2), v |-> 1],
  [fn |-> "GammaPfirstDerivative", a |-> RInt(1), v |-> 1], [fn |-> "GammaPfirstDerivative", a |-> RInt(2), v |-> 0],
  [fn |-> "GammaPfirstDerivative", a |-> Dy(5, 1), v |-> 0],
  [fn |-> "GammaPsecondDerivative", a |-> RInt(1), v |-> -1], [fn |-> "GammaPsecondDerivative", a |-> RInt(2), v |-> 1],
  [fn |-> "GammaPsecondDerivative", a |-> RInt(3), v |-> 0], [fn |-> "GammaPsecondDerivative", a |-> Dy(5, 1), v |-> 0] >>
GammaEdge(e) == EqRec("gammap.edge", 0, <<e.a, RZero>>, Lib(e.fn, <<Q(e.a), Zero>>), QI(e.v), One, Zero, e.fn)

(* ------------------------------------------------------------------ LogErfc *)
(* implementation: x^2 < 0.0246 (|x| < 0.15687) series about 0; x > 8 rational approximation of x e^(x^2) erfc x; *)
(* +Inf -> -Inf; otherwise log(erfc(x))                                                                           *)
LEL(x) == Lib("LogErfc", <<x>>)
LogErfcSmallS == LET t == Log(SubR(One, Erf(X1))) IN
  SchemaRec("logerfc.small", KOf("logerfc.small"), 1, LEL(X1), t, Abs(t), Zero, << <<Rg(Dy(-1, 1), Dy(1, 1), 12)>> >>, <<>>)
LogErfcSmallP == DySeq(<<0, 1, -1, 512, -512, 1048576, -1048576, 8388608, -8388608, 16777216, -16777216, 20971520, -20971520,
                         21004288, -21004288, 21069824, -21069824, 22020096, -22020096, 33554432, -33554432, 50331648, -50331648, 58720256, -58720256,
                         66060288, -66060288, 67108864, -67108864>>, 27)
LogErfcMidS == LET t == Log(Erfc(X1)) IN
  SchemaRec("logerfc.erfc", KOf("logerfc.erfc"), 1, LEL(X1), t, Abs(t), Zero, << <<Rg(RInt(-6), RInt(26), 10)>> >>, <<>>)
LogErfcMidP == DySeq(<<-6144, -5120, -2048, -1024, -512, 512, 1024, 2048, 4096, 6144, 7168, 7680, 8191, 8192, 8193, 8704, 9216, 10240, 16384,
                       20480, 26624>>, 10)
(* erfc(x) = e^(-x^2) / (x sqrt pi) * sum_{j>=0} (-1)^j (2j-1)!! / (2 x^2)^j, alternating: |remainder| < first omitted term *)
RECURSIVE DFact(_)
DFact(j) == IF j <= 0 THEN 1 ELSE (2 * j - 1) * DFact(j - 1)                      \* (2j-1)!!
AsymJ == 8
AsymCoef(j) == Rat(IF j % 2 = 0 THEN DFact(j) ELSE 0 - DFact(j), 2^j)
AsymSum(x) == SumR([jj \in 1..(AsymJ + 1) |-> MulR(Q(AsymCoef(jj - 1)), PowR(x, QI(0 - 2 * (jj - 1))))])
LogErfcAsymT(x) == AddR(SubR(Neg(PowR(x, Two)), Log(MulR(x, Sqrt(Pi)))), Log(AsymSum(x)))
(* arguments: rationals and powers of two (beyond the range of Rat) *)
LogErfcAsymX == <<QI(9), QI(16), QI(26), QI(27), QI(28), QI(30), QI(100), QI(1000), QI(1000000), PowR(Two, QI(40)), PowR(Two, QI(100)),
                  PowR(Two, QI(170)), PowR(Two, QI(180)), PowR(Two, QI(300)), PowR(Two, QI(500))>>
LogErfcAsym(k) == LET x == LogErfcAsymX[k] IN
  EqRec("logerfc.asym", KOf("logerfc.asym"), <<RInt(k)>>, LEL(x), LogErfcAsymT(x), Abs(LogErfcAsymT(x)),
        MulR(QF(11, 10), MulR(Q(Rat(DFact(AsymJ + 1), 2^(AsymJ + 1))), PowR(x, QI(0 - 2 * (AsymJ + 1))))), "x > 8")

(* ------------------------------------------------------ BesselI, LogBesselI *)
(* implementation: x < 0 only for integer order; x = 0; v = 1/2 closed form (exp(x/2)^2 form from x >= 709);     *)
(* v = 0, v = 1 polynomial / rational approximations on x < 7.75, x < 500, x >= 500; v > 0 and x/v < 1/4 power   *)
(* series; otherwise Temme's method: v < 0 reflection through K_v, order split n = round(v), Temme series for    *)
(* x <= 2 / continued fraction CF2 for x > 2, forward recurrence for K, then the asymptotic expansion (x > 100   *)
(* and ((4v^2+10)/(8x))^4/24 < 10 eps) or CF1 + Wronskian.  LogBesselI mirrors every branch in the log domain.    *)
BIL(v, x)  == Lib("BesselI", <<v, x>>)
LBIL(v, x) == Lib("LogBesselI", <<v, x>>)
(* I_{n+1/2}(x) = sqrt(2/(pi x)) (A_n sinh x + B_n cosh x); A, B polynomials in 1/x by the recurrence *)
RECURSIVE BesAB(_)
BesAB(n) == IF n = 0 THEN <<One, Zero>> ELSE IF n = -1 THEN <<Zero, One>>
            ELSE IF n > 0 THEN LET p == BesAB(n - 1)  pp == BesAB(n - 2)  c == DivV(QI(2 * n - 1), X1)
                               IN <<Sub(pp[1], Mul(c, p[1])), Sub(pp[2], Mul(c, p[2]))>>
            ELSE LET p == BesAB(n + 1)  pp == BesAB(n + 2)  c == DivV(QI(2 * n + 3), X1)
                 IN <<Add(pp[1], Mul(c, p[1])), Add(pp[2], Mul(c, p[2]))>>
BesHalfT(n) == MulR(Sqrt(DivR(Two, MulR(Pi, X1))), AddR(MulR(BesAB(n)[1], Sinh(X1)), MulR(BesAB(n)[2], Cosh(X1))))
BesHalfNs == <<-5, -4, -3, -2, -1, 0, 1, 2, 3, 4>>
(* orders below -1/2 have zeros (I_v = I_-v + (2/pi) sin(-v pi) K_-v changes sign): the scale is the sum of the magnitudes *)
BesHalfScale(n) == IF n >= -1 THEN Abs(BesHalfT(n)) ELSE AddR(Abs(BesHalfT(n)), MulR(Two, Abs(BesHalfT(0 - n - 1))))
BesHalfS(n) == SchemaRec(NameN("besseli.half", n + 5), KOf("besseli.half"), 1, BIL(QF(2 * n + 1, 2), X1), BesHalfT(n), BesHalfScale(n), Zero,
                         << <<Rg(Dy(1, 4), RInt(20), 6)>>, <<Rg(RInt(20), RInt(700), 2)>> >>, <<>>)
LogBesHalfS(n) == SchemaRec(NameN("logbesseli.half", n + 5), KOf("logbesseli.half"), 1, LBIL(QF(2 * n + 1, 2), X1), Log(Abs(BesHalfT(n))),
                            AddR(Abs(Log(Abs(BesHalfT(n)))), One), Zero,
                            << <<Rg(Dy(1, 4), RInt(20), 6)>>, <<Rg(RInt(20), RInt(700), 2)>>, <<Rg(RInt(700), RInt(100000), 0)>> >>, <<>>)
BesHalfXs(n) ==                                   \* units of 1/64; the power series is used below x = v/4 = 8 (2n+1) / 64
  <<4, 16, 32, 64, 127, 128, 129, 320, 496, 1280, 6400, 6464, 32000, 44800, 45120>> \o
  (IF n >= 0 THEN <<8 * (2 * n + 1) - 1, 8 * (2 * n + 1), 8 * (2 * n + 1) + 1>> ELSE <<>>)
BesHalfP(n) == DySeq(BesHalfXs(n), 6)
(* 709 <= x < 714: I_v(x) is still finite but K_v(x) ~ sqrt(pi/(2x)) e^-x, which the implementation divides by (Wronskian), is a *)
(* subnormal number with absolute error 2^-1075.  KNOWN DEVIATION besseli-subnormal-K (known_findings.d/C13.json): the result is   *)
(* allowed the relative error 8 * 2^-1074 / K_v(x) on top of K; anything beyond that is still a violation.  v = 1/2 is exempt    *)
(* (closed form in the code).                                                                                                  *)
BesBigXs == <<RInt(709), RInt(710), RInt(711), RInt(712), RInt(713)>>
BesBigNs == <<-3, -2, -1, 1, 2, 3, 4>>
BesBig(n, x) == LET S == BesHalfS(n)
                    c == InstCase(S, <<x>>, "x >= 709")
                    kv == MulR(Sqrt(DivR(Pi, MulR(Two, Q(x)))), Exp(Neg(Q(x))))
                IN [c EXCEPT !.fam = "besseli.bigx"] @@ [devid |-> "subnormal-K", dev |-> MulR(Abs(c.rhs), DivR(P2(-1071), kv))]
LogBesHalfP(n) == DySeq(BesHalfXs(n) \o <<46080, 64000, 448000, 640000, 1280000, 64000000>>, 6)
(* I is positive for order >= -1/2 ... the logarithm is the log of |I| only where I > 0: orders -1/2 and above here *)
BV == X1
BX == X2
BesRecS == LET c == MulR(DivR(MulR(Two, BV), BX), BIL(BV, BX)) IN
  SchemaRec("besseli.rec", KOf("besseli.rec"), 2, SubR(BIL(SubR(BV, One), BX), BIL(AddR(BV, One), BX)), c,
            Mag3(BIL(SubR(BV, One), BX), BIL(AddR(BV, One), BX), c), Zero,
            << <<Rg(RInt(-6), RInt(12), 4), Rg(Dy(1, 4), RInt(40), 4)>>, <<Rg(RInt(0), RInt(60), 2), Rg(RInt(1), RInt(600), 2)>> >>, <<>>)
BesVs == <<Dy(-5, 1), RInt(-1), Dy(-1, 2), Dy(1, 2), Dy(1, 1), Dy(3, 2), RInt(1), Dy(5, 2), Dy(3, 1), RInt(2), Dy(5, 1), RInt(3), Dy(15, 2), Dy(9, 1),
           RInt(8), Dy(41, 2), Dy(41, 1), RInt(50)>>
BesXs == <<Dy(1, 4), Dy(1, 2), Dy(1, 1), RInt(1), Dy(127, 6), RInt(2), Dy(129, 6), RInt(4), Dy(31, 2), RInt(8), RInt(20), RInt(100), RInt(101), RInt(300), RInt(600)>>
BesNX == Len(BesXs) + 2
(* the power series is used below x = v/4: both sides of the changeover of the order v + 1 *)
BesXAt(v, j, big) == IF j <= Len(BesXs) THEN BesXs[j]
                     ELSE IF j = Len(BesXs) + 1 THEN RSub(RDiv(RAdd(RAbs2(v), ROne), RInt(4)), Dy(1, 6))
                     ELSE IF j = Len(BesXs) + 2 THEN RAdd(RDiv(RAdd(RAbs2(v), ROne), RInt(4)), Dy(1, 6))
                     ELSE big[j - BesNX]
BesPointAt(vs, big, k) == LET nx == BesNX + Len(big)
                              v  == vs[((k - 1) \div nx) + 1]
                          IN <<v, BesXAt(v, ((k - 1) % nx) + 1, big)>>
BesCount(vs, big) == Len(vs) * (BesNX + Len(big))
LogBesLogS == SchemaRec("logbesseli.log", KOf("logbesseli.log"), 2, LBIL(BV, BX), Log(BIL(BV, BX)), AddR(Abs(LBIL(BV, BX)), One), Zero,
                        << <<Rg(RInt(0), RInt(12), 4), Rg(Dy(1, 4), RInt(40), 4)>>, <<Rg(RInt(0), RInt(60), 2), Rg(RInt(1), RInt(600), 2)>> >>, <<>>)
BesVsPos == <<RInt(0), Dy(1, 2), Dy(1, 1), Dy(3, 2), RInt(1), Dy(5, 2), Dy(3, 1), RInt(2), Dy(5, 1), RInt(3), Dy(15, 2), Dy(9, 1), RInt(8), Dy(41, 2), Dy(41, 1), RInt(50)>>
LogBesRecS == LET lm == LBIL(SubR(BV, One), BX)  l0 == LBIL(BV, BX)  lp == LBIL(AddR(BV, One), BX)
                  e1 == Exp(SubR(lm, l0))  e2 == Exp(SubR(lp, l0)) IN
  SchemaRec("logbesseli.rec", KOf("logbesseli.rec"), 2, SubR(e1, e2), DivR(MulR(Two, BV), BX),
            AddR(MulR(e1, AddR(One, Mag2(lm, l0))), MulR(e2, AddR(One, Mag2(lp, l0)))), Zero,
            << <<Rg(RInt(1), RInt(12), 4), Rg(Dy(1, 4), RInt(40), 4)>>, <<Rg(RInt(1), RInt(60), 2), Rg(RInt(1), RInt(600), 2)>>,
               <<Rg(RInt(1), RInt(60), 2), Rg(RInt(600), RInt(100000), 0)>> >>, <<>>)
BesVsGe1 == <<RInt(1), Dy(5, 2), Dy(3, 1), RInt(2), Dy(5, 1), RInt(3), Dy(15, 2), Dy(9, 1), RInt(8), Dy(41, 2), Dy(41, 1), RInt(50)>>
LogBesRecBig == <<RInt(705), RInt(720), RInt(1000), RInt(7000), RInt(20000), RInt(1000000)>>
(* generating function e^x = I_0(x) + 2 sum_{k>=1} I_k(x); the tail beyond M is below 4 (x/2)^(M+1) e^x/(M+1)! *)
BesGenM == 80
BesGenXs == <<Dy(1, 2), RInt(1), RInt(2), RInt(5), Dy(15, 1), RInt(8), RInt(20), RInt(30)>>
BesGen(x) == LET ts == [k \in 1..BesGenM |-> MulR(Two, BIL(QI(k), Q(x)))] IN
  EqRec("besseli.gen", KOf("besseli.gen"), <<x>>, AddR(BIL(Zero, Q(x)), SumR(ts)), Exp(Q(x)), Exp(Q(x)),
        MulR(QI(4), MulR(Exp(Q(x)), DivR(PowR(Q(RDiv(x, RInt(2))), QI(BesGenM + 1)), FactT(BesGenM + 1)))), "integer orders")
BesNegIntS == SchemaRec("besseli.negint", KOf("besseli.negint"), 2, BIL(Neg(BV), BX), BIL(BV, BX), Abs(BIL(BV, BX)), Zero,
                        << <<Rg(RInt(1), RInt(20), 0), Rg(Dy(1, 4), RInt(100), 4)>> >>, <<>>)
BesNegIntP == << <<RInt(1), RInt(2)>>, <<RInt(2), Dy(1, 2)>>, <<RInt(3), RInt(10)>>, <<RInt(10), RInt(1)>>, <<RInt(7), RInt(300)>> >>
(* edges x = 0 *)
BesEdgeList == << [fn |-> "BesselI", v |-> RInt(0), t |-> One], [fn |-> "BesselI", v |-> RInt(1), t |-> Zero], [fn |-> "BesselI", v |-> Dy(5, 1), t |-> Zero],
                  [fn |-> "LogBesselI", v |-> RInt(0), t |-> Zero] >>
BesEdge(e) == EqRec("besseli.edge", 0, <<e.v, RZero>>, Lib(e.fn, <<Q(e.v), Zero>>), e.t, One, Zero, e.fn)

(* ----------------------------------------------------------- LogAdd, LogSub *)
(* implementation: LogAdd swaps to a <= b, returns b if a is infinite, else b + log1p(exp(a-b));          *)
(* LogSub returns a if b = -Inf, else a + log1p(-exp(b-a))                                                 *)
LAL(a, b) == Lib("LogAdd", <<a, b>>)
LSL(a, b) == Lib("LogSub", <<a, b>>)
(* exact arguments: LogAdd(x, y) = log(e^x + e^y); an error of one unit roundoff in the larger operand and in log1p *)
LogAddLinS == LET t == Log(AddR(Exp(X1), Exp(X2))) IN
  SchemaRec("logadd.lin", KOf("logadd.lin"), 2, LAL(X1, X2), t, AddR(Abs(t), Log(AddR(One, Exp(Neg(Abs(SubR(X1, X2))))))), Zero,
            << <<Rg(RInt(-40), RInt(40), 6), Rg(RInt(-40), RInt(40), 6)>>, <<Rg(RInt(-800), RInt(800), 2), Rg(RInt(-800), RInt(800), 2)>> >>, <<>>)
LinPairs == << <<0, 0>>, <<64, 64>>, <<0, 64>>, <<64, 0>>, <<-64, 29>>, <<29, -64>>, <<1, 0>>, <<0, 1>>, <<640, 0>>, <<0, 640>>, <<2368, 0>>, <<0, 2432>>,
               <<0, -47680>>, <<-47680, 0>>, <<45376, 45312>>, <<-45376, -45312>>, <<51200, -51200>>, <<64000, 63936>>, <<-64000, -64064>>, <<-128, -64>>,
               <<-2560, 0>>, <<0, -2560>>, <<-6400, 0>>, <<-44800, 0>>, <<0, -2432>>, <<-2560, 1>> >>
LogAddLinP == [j \in 1..Len(LinPairs) |-> <<Dy(LinPairs[j][1], 6), Dy(LinPairs[j][2], 6)>>]
(* LogSub(x, y) = log(e^x - e^y), x > y; conditioning (|x| e^x + |y| e^y)/(e^x - e^y) *)
LogSubLinS == LET t == Log(SubR(Exp(X1), Exp(X2))) IN
  SchemaRec("logsub.lin", KOf("logsub.lin"), 2, LSL(X1, X2), t,
            AddR(Abs(t), DivR(AddR(MulR(Abs(X1), Exp(X1)), MulR(Abs(X2), Exp(X2))), SubR(Exp(X1), Exp(X2)))), Zero,
            << <<Rg(RInt(-40), RInt(40), 6), Rg(RInt(-40), RInt(40), 6)>>, <<Rg(RInt(-800), RInt(800), 2), Rg(RInt(-800), RInt(800), 2)>> >>,
            <<SubR(SubR(X1, X2), QF(1, 128))>>)
SubPairs == << <<64, 0>>, <<64, 63>>, <<65, 64>>, <<128, 64>>, <<0, -64>>, <<29, -64>>, <<640, 0>>, <<2368, 0>>, <<2432, 0>>, <<0, -47680>>,
               <<45376, 45312>>, <<-45312, -45376>>, <<51200, -51200>>, <<64000, 63936>>, <<-64000, -64064>>, <<-64, -128>>, <<44, 0>>, <<45, 0>>, <<0, -2560>>, <<0, -6400>> >>
LogSubLinP == [j \in 1..Len(SubPairs) |-> <<Dy(SubPairs[j][1], 6), Dy(SubPairs[j][2], 6)>>]
(* arguments that are logarithms of rationals a, b: LogAdd(log a, log b) = log(a + b); the rounding of the  *)
(* two logarithms contributes |log a| a/(a+b) + |log b| b/(a+b)                                             *)
LogAddRatS == LET t == Log(AddR(X1, X2)) IN
  SchemaRec("logadd.rat", KOf("logadd.rat"), 2, LAL(Log(X1), Log(X2)), t,
            AddR(AddR(Abs(t), Log(Two)), DivR(AddR(MulR(Abs(Log(X1)), X1), MulR(Abs(Log(X2)), X2)), AddR(X1, X2))), Zero,
            << <<Rg(Dy(1, 6), RInt(100), 6), Rg(Dy(1, 6), RInt(100), 6)>>, <<Rg(RInt(1), RInt(1000000), 0), Rg(RInt(1), RInt(1000000), 0)>> >>, <<>>)
LogSubRatS == LET t == Log(SubR(X1, X2)) IN
  SchemaRec("logsub.rat", KOf("logsub.rat"), 2, LSL(Log(X1), Log(X2)), t,
            AddR(Abs(t), DivR(AddR(MulR(Abs(Log(X1)), X1), MulR(Abs(Log(X2)), X2)), SubR(X1, X2))), Zero,
            << <<Rg(Dy(1, 6), RInt(100), 6), Rg(Dy(1, 6), RInt(100), 6)>>, <<Rg(RInt(1), RInt(1000000), 0), Rg(RInt(1), RInt(1000000), 0)>> >>,
            <<SubR(X1, MulR(X2, QF(65, 64)))>>)
RatPairs == << <<R(2, 1), R(3, 1)>>, <<R(3, 1), R(2, 1)>>, <<R(1, 3), R(1, 7)>>, <<R(1, 1000), R(1000, 1)>>, <<R(1000, 1), R(1, 1000)>>, <<R(5, 1), R(5, 1)>>,
              <<R(1, 1), R(1, 1)>>, <<R(1000000, 1), R(1, 1)>>, <<R(7, 3), R(2, 9)>>, <<R(1, 1000000), R(1, 999983)>> >>
RatSubPairs == << <<R(3, 1), R(2, 1)>>, <<R(1, 3), R(1, 7)>>, <<R(1000, 1), R(1, 1000)>>, <<R(5, 1), R(4, 1)>>, <<R(2, 1), R(1, 1)>>, <<R(1000000, 1), R(1, 1)>>,
                 <<R(7, 3), R(2, 9)>>, <<R(1, 999983), R(1, 1000000)>>, <<R(11, 10), R(1, 1)>> >>
(* infinite operands *)
LogInfList == << [l |-> LAL(QF(3, 2), NInf), r |-> QF(3, 2)], [l |-> LAL(NInf, QF(3, 2)), r |-> QF(3, 2)], [l |-> LAL(QI(-700), NInf), r |-> QI(-700)],
                 [l |-> LSL(QF(3, 2), NInf), r |-> QF(3, 2)], [l |-> LSL(QI(-5), NInf), r |-> QI(-5)] >>
LogInf(e) == EqRec("logadd.inf", 0, <<>>, e.l, e.r, Abs(e.r), Zero, "infinite operand")

(* ================================================================= classes *)
(* poles, domain edges and overflow: the class the result must have.          *)
(*   nonfinite  a pole: NaN, an infinity or an error                          *)
(*   undefined  outside the domain: NaN or an error, never a number           *)
(*   finite / pinf / ninf                                                     *)
ClassList == <<
  [fam |-> "class.gamma", fn |-> "Mgamma", args |-> <<Zero, One>>, want |-> "nonfinite"],
  [fam |-> "class.gamma", fn |-> "Mgamma", args |-> <<QI(-1), One>>, want |-> "nonfinite"],
  [fam |-> "class.gamma", fn |-> "Mgamma", args |-> <<QI(-2), One>>, want |-> "nonfinite"],
  [fam |-> "class.gamma", fn |-> "Mgamma", args |-> <<QI(-10), One>>, want |-> "nonfinite"],
  [fam |-> "class.gamma", fn |-> "Mgamma", args |-> <<QI(171), One>>, want |-> "finite"],
  [fam |-> "class.gamma", fn |-> "Mgamma", args |-> <<QI(172), One>>, want |-> "pinf"],
  [fam |-> "class.gamma", fn |-> "Mlgamma", args |-> <<Zero, One>>, want |-> "nonfinite"],
  [fam |-> "class.gamma", fn |-> "Mlgamma", args |-> <<QI(-3), One>>, want |-> "nonfinite"],
  [fam |-> "class.gamma", fn |-> "Mlgamma", args |-> <<QI(1000000), One>>, want |-> "finite"],
  [fam |-> "class.gamma", fn |-> "Mlgamma", args |-> <<P2(200), One>>, want |-> "finite"],
  [fam |-> "class.gamma", fn |-> "Mlgamma", args |-> <<Half, Two>>, want |-> "nonfinite"],
  [fam |-> "class.factorial", fn |-> "Factorial", args |-> <<QI(170)>>, want |-> "finite"],
  [fam |-> "class.factorial", fn |-> "Factorial", args |-> <<QI(171)>>, want |-> "pinf"],
  [fam |-> "class.digamma", fn |-> "Digamma", args |-> <<Zero>>, want |-> "nonfinite"],
  [fam |-> "class.digamma", fn |-> "Digamma", args |-> <<QI(-1)>>, want |-> "nonfinite"],
  [fam |-> "class.digamma", fn |-> "Digamma", args |-> <<QI(-2)>>, want |-> "nonfinite"],
  [fam |-> "class.digamma", fn |-> "Digamma", args |-> <<QI(-100)>>, want |-> "nonfinite"],
  [fam |-> "class.digamma", fn |-> "Digamma", args |-> <<P2(1000)>>, want |-> "finite"],
  [fam |-> "class.digamma", fn |-> "Digamma", args |-> <<P2(-1000)>>, want |-> "finite"],
  [fam |-> "class.trigamma", fn |-> "Trigamma", args |-> <<Zero>>, want |-> "nonfinite"],
  [fam |-> "class.trigamma", fn |-> "Trigamma", args |-> <<QI(-1)>>, want |-> "nonfinite"],
  [fam |-> "class.trigamma", fn |-> "Trigamma", args |-> <<QI(-7)>>, want |-> "nonfinite"],
  [fam |-> "class.trigamma", fn |-> "Trigamma", args |-> <<P2(1000)>>, want |-> "finite"],
  [fam |-> "class.trigamma", fn |-> "Trigamma", args |-> <<P2(-400)>>, want |-> "finite"],
  [fam |-> "class.trigamma", fn |-> "Trigamma", args |-> <<P2(-600)>>, want |-> "pinf"],
  [fam |-> "class.polygamma", fn |-> "Polygamma", args |-> <<Two, Zero>>, want |-> "nonfinite"],
  [fam |-> "class.polygamma", fn |-> "Polygamma", args |-> <<QI(3), Zero>>, want |-> "nonfinite"],
  [fam |-> "class.polygamma", fn |-> "Polygamma", args |-> <<Two, QI(-1)>>, want |-> "nonfinite"],
  [fam |-> "class.polygamma", fn |-> "Polygamma", args |-> <<QI(3), QI(-2)>>, want |-> "nonfinite"],
  [fam |-> "class.polygamma", fn |-> "Polygamma", args |-> <<Two, P2(100)>>, want |-> "finite"],
  [fam |-> "class.polygamma", fn |-> "Polygamma", args |-> <<QI(3), P2(-60)>>, want |-> "finite"],
  [fam |-> "class.zeta", fn |-> "Zeta", args |-> <<One>>, want |-> "nonfinite"],
  [fam |-> "class.zeta", fn |-> "Zeta", args |-> <<QI(-170)>>, want |-> "finite"],
  [fam |-> "class.zeta", fn |-> "Zeta", args |-> <<QI(-171)>>, want |-> "finite"],
  [fam |-> "class.zeta", fn |-> "Zeta", args |-> <<QI(-257)>>, want |-> "finite"],
  [fam |-> "class.zeta", fn |-> "Zeta", args |-> <<QI(-259)>>, want |-> "finite"],
  [fam |-> "class.zeta", fn |-> "Zeta", args |-> <<QF(-201, 2)>>, want |-> "finite"],
  [fam |-> "class.zeta", fn |-> "Zeta", args |-> <<P2(100)>>, want |-> "finite"],
  [fam |-> "class.zeta", fn |-> "Zeta", args |-> <<PInf>>, want |-> "finite"],
  [fam |-> "class.gammap", fn |-> "GammaP", args |-> <<Zero, One>>, want |-> "undefined"],
  [fam |-> "class.gammap", fn |-> "GammaP", args |-> <<QI(-1), One>>, want |-> "undefined"],
  [fam |-> "class.gammap", fn |-> "GammaP", args |-> <<QF(-1, 2), One>>, want |-> "undefined"],
  [fam |-> "class.gammap", fn |-> "GammaQ", args |-> <<Zero, One>>, want |-> "undefined"],
  [fam |-> "class.gammap", fn |-> "GammaQ", args |-> <<QI(-2), QI(3)>>, want |-> "undefined"],
  [fam |-> "class.gammap", fn |-> "GammaLower", args |-> <<Zero, One>>, want |-> "undefined"],
  [fam |-> "class.gammap", fn |-> "GammaLower", args |-> <<QI(-1), Two>>, want |-> "undefined"],
  [fam |-> "class.gammap", fn |-> "GammaUpper", args |-> <<QI(-1), Two>>, want |-> "undefined"],
  [fam |-> "class.gammap", fn |-> "GammaP", args |-> <<One, QI(-1)>>, want |-> "undefined"],
  [fam |-> "class.gammap", fn |-> "GammaQ", args |-> <<Two, QI(-1)>>, want |-> "undefined"],
  [fam |-> "class.gammap", fn |-> "GammaP", args |-> <<Half, QI(-1)>>, want |-> "undefined"],
  [fam |-> "class.gammap", fn |-> "GammaPfirstDerivative", args |-> <<Zero, One>>, want |-> "undefined"],
  [fam |-> "class.gammap", fn |-> "GammaPfirstDerivative", args |-> <<One, QI(-1)>>, want |-> "undefined"],
  [fam |-> "class.gammap", fn |-> "GammaPfirstDerivative", args |-> <<Half, Zero>>, want |-> "pinf"],
  [fam |-> "class.gammap", fn |-> "GammaPsecondDerivative", args |-> <<Half, Zero>>, want |-> "ninf"],
  [fam |-> "class.gammap", fn |-> "GammaPsecondDerivative", args |-> <<QF(3, 2), Zero>>, want |-> "pinf"],
  [fam |-> "class.gammap", fn |-> "GammaP", args |-> <<Two, QI(100000)>>, want |-> "finite"],
  [fam |-> "class.gammap", fn |-> "GammaQ", args |-> <<QF(9, 4), QI(100000)>>, want |-> "finite"],
  [fam |-> "class.gammap", fn |-> "GammaP", args |-> <<QI(100000), QI(10)>>, want |-> "finite"],
  [fam |-> "class.gammap", fn |-> "GammaUpper", args |-> <<QI(172), One>>, want |-> "pinf"],
  [fam |-> "class.logerfc", fn |-> "LogErfc", args |-> <<QI(-30)>>, want |-> "finite"],
  [fam |-> "class.logerfc", fn |-> "LogErfc", args |-> <<Neg(P2(1000))>>, want |-> "finite"],
  [fam |-> "class.logerfc", fn |-> "LogErfc", args |-> <<NInf>>, want |-> "finite"],
  [fam |-> "class.logerfc", fn |-> "LogErfc", args |-> <<QI(30)>>, want |-> "finite"],
  [fam |-> "class.logerfc", fn |-> "LogErfc", args |-> <<P2(100)>>, want |-> "finite"],
  [fam |-> "class.logerfc", fn |-> "LogErfc", args |-> <<P2(170)>>, want |-> "finite"],
  [fam |-> "class.logerfc", fn |-> "LogErfc", args |-> <<P2(180)>>, want |-> "finite"],
  [fam |-> "class.logerfc", fn |-> "LogErfc", args |-> <<P2(400)>>, want |-> "finite"],
  [fam |-> "class.logerfc", fn |-> "LogErfc", args |-> <<P2(511)>>, want |-> "finite"],
  [fam |-> "class.logerfc", fn |-> "LogErfc", args |-> <<P2(600)>>, want |-> "ninf"],
  [fam |-> "class.logerfc", fn |-> "LogErfc", args |-> <<PInf>>, want |-> "ninf"],
  [fam |-> "class.besseli", fn |-> "BesselI", args |-> <<Two, QI(700)>>, want |-> "finite"],
  [fam |-> "class.besseli", fn |-> "BesselI", args |-> <<Two, QI(800)>>, want |-> "pinf"],
  [fam |-> "class.besseli", fn |-> "BesselI", args |-> <<Half, QI(800)>>, want |-> "pinf"],
  [fam |-> "class.besseli", fn |-> "BesselI", args |-> <<QF(-1, 2), Zero>>, want |-> "nonfinite"],
  [fam |-> "class.besseli", fn |-> "BesselI", args |-> <<QF(-5, 2), Zero>>, want |-> "nonfinite"],
  [fam |-> "class.besseli", fn |-> "BesselI", args |-> <<QF(3, 2), QI(-2)>>, want |-> "undefined"],
  [fam |-> "class.logbesseli", fn |-> "LogBesselI", args |-> <<Zero, QI(800)>>, want |-> "finite"],
  [fam |-> "class.logbesseli", fn |-> "LogBesselI", args |-> <<One, QI(800)>>, want |-> "finite"],
  [fam |-> "class.logbesseli", fn |-> "LogBesselI", args |-> <<Half, QI(800)>>, want |-> "finite"],
  [fam |-> "class.logbesseli", fn |-> "LogBesselI", args |-> <<Two, QI(800)>>, want |-> "finite"],
  [fam |-> "class.logbesseli", fn |-> "LogBesselI", args |-> <<QF(5, 2), QI(800)>>, want |-> "finite"],
  [fam |-> "class.logbesseli", fn |-> "LogBesselI", args |-> <<Two, QI(7000)>>, want |-> "finite"],
  [fam |-> "class.logbesseli", fn |-> "LogBesselI", args |-> <<QF(3, 2), QI(20000)>>, want |-> "finite"],
  [fam |-> "class.logbesseli", fn |-> "LogBesselI", args |-> <<QI(10), QI(100000)>>, want |-> "finite"],
  [fam |-> "class.logbesseli", fn |-> "LogBesselI", args |-> <<Two, QI(1000000)>>, want |-> "finite"],
  [fam |-> "class.logbesseli", fn |-> "LogBesselI", args |-> <<Zero, P2(100)>>, want |-> "finite"],
  [fam |-> "class.logbesseli", fn |-> "LogBesselI", args |-> <<One, Zero>>, want |-> "ninf"],
  [fam |-> "class.logbesseli", fn |-> "LogBesselI", args |-> <<QF(5, 2), Zero>>, want |-> "ninf"],
  [fam |-> "class.logbesseli", fn |-> "LogBesselI", args |-> <<QF(-1, 2), Zero>>, want |-> "pinf"],
  [fam |-> "class.logbesseli", fn |-> "LogBesselI", args |-> <<One, QI(-2)>>, want |-> "undefined"],
  [fam |-> "class.logbesseli", fn |-> "LogBesselI", args |-> <<Two, QI(-2)>>, want |-> "finite"],
  [fam |-> "class.logbesseli", fn |-> "LogBesselI", args |-> <<QI(-3), QI(-2)>>, want |-> "undefined"],
  [fam |-> "class.logadd", fn |-> "LogAdd", args |-> <<NInf, NInf>>, want |-> "ninf"],
  [fam |-> "class.logadd", fn |-> "LogAdd", args |-> <<PInf, One>>, want |-> "pinf"],
  [fam |-> "class.logadd", fn |-> "LogAdd", args |-> <<One, PInf>>, want |-> "pinf"],
  [fam |-> "class.logadd", fn |-> "LogAdd", args |-> <<NInf, PInf>>, want |-> "pinf"],
  [fam |-> "class.logadd", fn |-> "LogAdd", args |-> <<QI(700), QI(705)>>, want |-> "finite"],
  [fam |-> "class.logadd", fn |-> "LogAdd", args |-> <<P2(1000), P2(1000)>>, want |-> "finite"],
  [fam |-> "class.logsub", fn |-> "LogSub", args |-> <<One, One>>, want |-> "ninf"],
  [fam |-> "class.logsub", fn |-> "LogSub", args |-> <<QI(-700), QI(-700)>>, want |-> "ninf"],
  [fam |-> "class.logsub", fn |-> "LogSub", args |-> <<P2(100), P2(100)>>, want |-> "ninf"],
  [fam |-> "class.logsub", fn |-> "LogSub", args |-> <<NInf, NInf>>, want |-> "ninf"],
  [fam |-> "class.logsub", fn |-> "LogSub", args |-> <<One, Two>>, want |-> "undefined"],
  [fam |-> "class.logsub", fn |-> "LogSub", args |-> <<NInf, One>>, want |-> "undefined"],
  [fam |-> "class.logsub", fn |-> "LogSub", args |-> <<PInf, One>>, want |-> "pinf"]
>>
ClassCase(k) == LET c == ClassList[k] IN ClassRec(c.fam, <<>>, c.fn, c.args, c.want)

(* ======================================================================= *)
(* EXTREME MAGNITUDES: points where an INTERMEDIATE quantity of the          *)
(* implementation under- or overflows although the result is an ordinary     *)
(* number (every log-domain fallback of the code has points on both sides).  *)
(* ======================================================================= *)

(* ---- derivatives of P at tiny x = 2^-k: P'(a, x) = x^(a-1) e^-x / Gamma(a), a > 1 integer or half-integer.       *)
(* implementation: prefix x^a e^-x / Gamma(a) divided by x; if the prefix underflows to 0 the quotient is formed in  *)
(* logarithms.  zone of a point (2 a k is the binary exponent of 1 / x^(2a), exact):                                 *)
(*   "normal"  prefix >= 2^-990 : ordinary path        "deep"  prefix < 2^-1140 : logarithmic fallback              *)
(*   "band"    2^-1075 .. 2^-1022: the prefix is a SUBNORMAL number.  KNOWN DEVIATION denormal-prefix: the result is *)
(*             allowed the absolute error 2^-1050 / x there (docs/C13-extra-fix-1.diff repairs it).                  *)
GammaAny2T(a2) == IF a2 % 2 = 0 THEN FactT(a2 \div 2 - 1) ELSE GammaHalfT((a2 - 1) \div 2)      \* Gamma(a2 / 2)
TinyList == << <<3, 640>>, <<3, 700>>, <<3, 800>>, <<3, 1000>>, <<4, 480>>, <<4, 520>>, <<4, 600>>, <<4, 1000>>,
               <<5, 390>>, <<5, 420>>, <<5, 480>>, <<5, 680>>, <<6, 320>>, <<6, 350>>, <<6, 400>>, <<6, 500>>,
               <<10, 190>>, <<10, 210>>, <<10, 240>>, <<21, 92>>, <<21, 100>>, <<21, 112>> >>        \* <<2a, k>>
TinyZone(a2, k) == IF a2 * k <= 2 * 990 THEN "normal" ELSE IF a2 * k >= 2 * 1140 THEN "deep" ELSE "band"
TinyD1T(a2, k) == DivR(MulR(PowR(P2(0 - k), QF(a2 - 2, 2)), Exp(Neg(P2(0 - k)))), GammaAny2T(a2))
(* conditioning of x^(a-1) e^-x / Gamma(a) in a: a |log x| *)
TinyCond(a2, k) == AddR(One, MulR(QF(a2 * k, 2), Log(Two)))
GammaD1Tiny(a2, k) ==
  LET c == EqRec("gammad1.tiny", KOf("gammad1.tiny"), <<R(a2, 2), RInt(0 - k)>>, GD1(QF(a2, 2), P2(0 - k)), TinyD1T(a2, k),
                 MulR(TinyD1T(a2, k), TinyCond(a2, k)), Zero, TinyZone(a2, k))
  IN IF TinyZone(a2, k) = "band" THEN c @@ [devid |-> "denormal-prefix", dev |-> P2(k - 1050)] ELSE c
(* P''(a, x) = P'(a, x) ((a-1)/x - 1).  implementation: (a-1) t / x - t from the first derivative t.                  *)
(* KNOWN DEVIATION d2-from-lost-d1: where t itself is below 2^-1022 (or in the band above) the second derivative is  *)
(* allowed the absolute error (a-1) 2^-1050 / x^2 (docs/C13-extra-fix-1.diff repairs it).                              *)
TinyList2 == TinyList \o << <<6, 540>>, <<10, 270>> >>
TinyD2T(a2, k) == MulR(TinyD1T(a2, k), SubR(MulR(QF(a2 - 2, 2), P2(k)), One))
D1Lost(a2, k) == TinyZone(a2, k) = "band" \/ (a2 - 2) * k >= 2 * 1022
GammaD2Tiny(a2, k) ==
  LET c == EqRec("gammad2.tiny", KOf("gammad2.tiny"), <<R(a2, 2), RInt(0 - k)>>, GD2(QF(a2, 2), P2(0 - k)), TinyD2T(a2, k),
                 MulR(TinyD2T(a2, k), TinyCond(a2, k)), Zero, IF D1Lost(a2, k) THEN "first derivative lost" ELSE TinyZone(a2, k))
  IN IF D1Lost(a2, k) THEN c @@ [devid |-> "d2-from-lost-d1", dev |-> MulR(QF(a2 - 2, 2), P2(2 * k - 1050))] ELSE c

(* ---- full incomplete gamma for a >= 170 (Gamma(a) overflows or nearly): logarithmic forms of the implementation   *)
(* upper: Gamma(a, x) = (a-1)! e^-x sum_{k<a} x^k/k!;  branches: 4a < x continued fraction in logs / regularised Q + lgamma *)
UpperBigList == << <<170, 1>>, <<171, 1>>, <<170, 100>>, <<171, 700>>, <<172, 700>>, <<172, 400>>, <<180, 730>>, <<200, 900>> >>
GammaUpperBig(a, x) == LET t == MulR(FactT(a - 1), MulR(Exp(Neg(QI(x))), ExpSumT(a, QI(x)))) IN
  EqRec("gammaupper.big", KOf("gammaupper.big"), <<RInt(a), RInt(x)>>, GUL(QI(a), QI(x)), t,
        MulR(t, AddR(AddR(One, QI(RAbs(a - 1 - x))), MulR(QI(a), Abs(Log(QF(x, a)))))), Zero, IF 4 * a < x THEN "fraction in logs" ELSE "Q and lgamma")
(* lower: gamma(a, x) = x^a e^-x / a * sum_{k>=0} x^k / ((a+1)...(a+k)), tail after M terms below t_M x/(a+M+1) / (1 - x/(a+M+1)) *)
LowerM == 80
LowerSeries(a, x) == RatioSeries(TLCEval([j \in 1..LowerM |-> QF(x, a + j)]))
LowerBigList == << <<170, 1>>, <<171, 1>>, <<170, 10>>, <<171, 40>>, <<200, 1>>, <<200, 40>>, <<400, 1>>, <<170, 100>> >>
GammaLowerBig(a, x) == LET pre == DivR(MulR(PowR(QI(x), QI(a)), Exp(Neg(QI(x)))), QI(a))
                           t   == MulR(pre, LowerSeries(a, x)) IN
  EqRec("gammalower.big", KOf("gammalower.big"), <<RInt(a), RInt(x)>>, GLL(QI(a), QI(x)), t,
        MulR(t, AddR(AddR(One, QI(RAbs(a - 1 - x))), MulR(QI(a), Abs(Log(QF(x, a)))))),
        MulR(MulR(pre, Two), PowR(QF(x, a + LowerM), QI(LowerM))), IF a > 4 * x THEN "series in logs" ELSE "P and lgamma")
(* P'(a, x) for large integer a: a log(x/a) or a - x beyond the exponent range of exp *)
D1BigList == << <<400, 100>>, <<1000, 500>>, <<1000, 1200>>, <<2000, 1000>>, <<2000, 1500>> >>
GammaD1Big(a, x) == LET t == DivR(MulR(PowR(QI(x), QI(a - 1)), Exp(Neg(QI(x)))), FactT(a - 1)) IN
  EqRec("gammad1.big", KOf("gammad1.big"), <<RInt(a), RInt(x)>>, GD1(QI(a), QI(x)), t,
        MulR(t, AddR(AddR(One, QI(RAbs(a - 1 - x))), MulR(QI(a), Abs(Log(QF(x, a)))))), Zero, "large a")

(* ---- BesselI / LogBesselI at large half-integer order v = n + 1/2 by the power series                            *)
(*   I_v(x) = (x/2)^v / Gamma(v+1) sum_k (x^2/4)^k / (k! (v+1)_k); the terms decrease by more than 1/2 beyond M    *)
(* implementation: v >= 170 prefix in logarithms; x/v < 1/4 series, otherwise CF1 + Wronskian with rescaled K        *)
SerM == 100
SerSeries(y, n) == RatioSeries(TLCEval([j \in 1..SerM |-> DivR(y, MulR(QI(j), QF(2 * n + 1 + 2 * j, 2)))]))
BesSerT(n, x) == LET y == Q(RDiv(RMul(x, x), RInt(4))) IN
  MulR(DivR(PowR(Q(RDiv(x, RInt(2))), QF(2 * n + 1, 2)), GammaHalfT(n + 1)), SerSeries(y, n))
(* relative tail bound: 2 (y^(M+1) / ((M+1)! (v+1)_(M+1))) <= 2 (y / ((M+1)(v+M+1)))^(M+1) * ... : use the crude y^M/(M!)^2 bound *)
BesSerTail(n, x) == LET y == Q(RDiv(RMul(x, x), RInt(4))) IN MulR(Two, DivR(PowR(y, QI(SerM + 1)), MulR(FactT(SerM + 1), PowR(QI(n), QI(SerM + 1)))))
BesSerList == << <<100, RInt(1)>>, <<100, RInt(20)>>, <<168, RInt(10)>>, <<169, RInt(10)>>, <<170, RInt(40)>>, <<200, RInt(10)>>, <<200, RInt(49)>>,
                 <<200, RInt(51)>>, <<300, RInt(60)>> >>
LogBesSerList == BesSerList \o << <<1000, RInt(100)>>, <<1000, RInt(240)>>, <<1000, RInt(260)>>, <<1000, Dy(1, 4)>> >>
BesSerBr(n, x) == IF RLt(RMul(x, RInt(4)), R(2 * n + 1, 2)) THEN (IF n >= 170 THEN "series, log prefix" ELSE "series") ELSE "CF1 + Wronskian"
BesSer(n, x) == EqRec("besseli.series", KOf("besseli.series"), <<R(2 * n + 1, 2), x>>, BIL(QF(2 * n + 1, 2), Q(x)), BesSerT(n, x),
                      MulR(BesSerT(n, x), AddR(One, MulR(QF(2 * n + 1, 2), Abs(Log(DivR(Q(x), QI(2 * n + 1))))))), MulR(BesSerT(n, x), BesSerTail(n, x)), BesSerBr(n, x))
LogBesSer(n, x) == EqRec("logbesseli.series", KOf("logbesseli.series"), <<R(2 * n + 1, 2), x>>, LBIL(QF(2 * n + 1, 2), Q(x)), Log(BesSerT(n, x)),
                         AddR(Abs(Log(BesSerT(n, x))), One), BesSerTail(n, x), BesSerBr(n, x))

(* ---- LogBesselI at negative non-integer order of large magnitude and small x (where BesselI overflows):           *)
(*   I_{-m}(x) = (x/2)^-m / Gamma(1-m) sum_k (x^2/4)^k / (k! (1-m)_k),   1/Gamma(1-m) = Gamma(m) sin(pi m) / pi          *)
(* for x <= 1, m >= 20, distance of m to the integers >= 1/16 every term ratio is below 1/4: tail <= 2 |t_(M+1)|       *)
(* implementation: reflection I_v + (2/pi) sin(pi v) K_v with K_v from the forward recurrence, RESCALED whenever it   *)
(* would exceed e^709 (the rescaling must be undone in the reflection term).  Gamma(m) through the library (Mlgamma).  *)
NegM == 12
RECURSIVE NegTerm(_, _, _)
NegTerm(m, y, k) == IF k = 0 THEN One ELSE MulR(NegTerm(m, y, k - 1), DivR(y, MulR(QI(k), SubR(QI(k), m))))
NegSum(m, y) == SumR([kk \in 1..(NegM + 1) |-> NegTerm(m, y, kk - 1)])
LogBesNegS == LET m == X1  x == X2  y == DivR(MulR(x, x), QI(4))
                  t == AddR(AddR(AddR(Neg(MulR(m, Log(DivR(x, Two)))), LgamL(m)), Log(DivR(Sin(MulR(Pi, m)), Pi))), Log(NegSum(m, y)))
              IN SchemaRec("logbesseli.negseries", KOf("logbesseli.negseries"), 2, LBIL(Neg(m), x), t,
                           AddR(AddR(Abs(MulR(m, Log(DivR(x, Two)))), Abs(LgamL(m))), One),
                           DivR(MulR(Two, Abs(NegTerm(m, y, NegM + 1))), Abs(NegSum(m, y))),
                           << <<Rg(RInt(20), RInt(400), 4), Rg(Dy(1, 6), RInt(1), 8)>> >>,
                           <<SubR(Sin(MulR(Pi, m)), QF(1, 5))>>)
NegMus == <<Dy(41, 1), Dy(81, 2), Dy(83, 2), Dy(101, 1), Dy(201, 1), Dy(403, 2), Dy(807, 3), Dy(321, 1), Dy(641, 2), Dy(601, 1), Dy(1603, 2), Dy(2001, 1)>>
NegXs  == <<Dy(1, 6), Dy(3, 6), Dy(1, 4), Dy(5, 6), Dy(1, 3), Dy(1, 1), RInt(1)>>
NegPointAt(k) == <<NegMus[((k - 1) \div Len(NegXs)) + 1], NegXs[((k - 1) % Len(NegXs)) + 1]>>
NegCount == Len(NegMus) * Len(NegXs)
(* recurrence over two steps, so that the three orders have the same sign of sin(pi v):                              *)
(*   x/(2(v-1)) (I_{v-2} - I_v) - x/(2(v+1)) (I_v - I_{v+2}) = (2v/x) I_v,  divided by I_v, v = -m                      *)
LogBesRec2S == LET v == Neg(X1)  x == X2
                   lm == LBIL(SubR(v, Two), x)  l0 == LBIL(v, x)  lp == LBIL(AddR(v, Two), x)
                   rm == Exp(SubR(lm, l0))  rp == Exp(SubR(lp, l0))
                   cm == DivR(x, MulR(Two, SubR(v, One)))  cp == DivR(x, MulR(Two, AddR(v, One)))
               IN SchemaRec("logbesseli.rec2", KOf("logbesseli.rec2"), 2,
                            SubR(MulR(cm, SubR(rm, One)), MulR(cp, SubR(One, rp))), DivR(MulR(Two, v), x),
                            AddR(MulR(Abs(MulR(cm, rm)), AddR(One, Mag2(lm, l0))), AddR(MulR(Abs(MulR(cp, rp)), AddR(One, Mag2(lp, l0))), Mag2(cm, cp))), Zero,
                            << <<Rg(RInt(22), RInt(400), 4), Rg(Dy(1, 6), RInt(1), 8)>> >>,
                            <<SubR(Sin(MulR(Pi, X1)), QF(1, 5))>>)

(* ---- polygamma at extreme arguments: asymptotic expansion with the specification's Bernoulli numbers               *)
(*   psi_n(x) = (-1)^(n+1) [ (n-1)!/x^n + n!/(2 x^(n+1)) + sum_{k>=1} B_2k (2k+n-1)! / ((2k)! x^(2k+n)) ],  remainder <= first omitted term *)
(* implementation: n + x == x leading term only (in logs when n log x > 709); n > 21 and n^2 > 709 leading terms in logs *)
PolyAsymJ == 3
PolyAsymTerm(n, x, k) == DivR(MulR(Q(Bern(2 * k)), FactT(2 * k + n - 1)), MulR(FactT(2 * k), PowR(x, QI(2 * k + n))))
PolyAsymT(n, x) == MulR(QI(SgnP(n)), AddR(AddR(DivR(FactT(n - 1), PowR(x, QI(n))), DivR(FactT(n), MulR(Two, PowR(x, QI(n + 1))))),
                                            SumR([k \in 1..PolyAsymJ |-> PolyAsymTerm(n, x, k)])))
PolyHugeList == << <<2, P2(60)>>, <<3, P2(100)>>, <<2, P2(400)>>, <<4, P2(200)>>, <<6, P2(150)>>, <<30, P2(30)>>, <<30, QI(4096)>>,
                   <<25, QI(500)>>, <<21, QI(200)>>, <<2, QI(1000000)>>, <<5, QI(4096)>> >>
PolygammaHuge(k) == LET n == PolyHugeList[k][1]  x == PolyHugeList[k][2] IN
  EqRec("polygamma.huge", KOf("polygamma.huge"), <<RInt(n), RInt(k)>>, PolyL(n, x), PolyAsymT(n, x), MulR(QI(n + 1), Abs(PolyAsymT(n, x))),      \* conditioning in x: n + 1
        Abs(PolyAsymTerm(n, x, PolyAsymJ + 1)), IF n > 21 THEN "logs" ELSE "asymptotic")
(* recurrence at orders beyond the tabulated derivatives of cot (n > 20: coefficient rows generated at run time, powers in logs) *)
PolyHighNs == <<21, 25, 43>>
PolyHighXs == <<R(-5, 16), R(-5, 4), R(-11, 4), R(1, 8), RInt(3)>>
PolygammaHighRec(n, x) == LET c == MulR(QI(0 - SgnP(n)), MulR(FactT(n), PowR(Q(x), QI(0 - n - 1)))) IN
  EqRec("polygamma.highrec", KOf("polygamma.highrec"), <<RInt(n), x>>, PolyL(n, Q(RAdd(x, ROne))), AddR(PolyL(n, Q(x)), c),
        Mag3(PolyL(n, Q(RAdd(x, ROne))), PolyL(n, Q(x)), c), Zero, IF RLt(x, RZero) THEN "reflection, generated row" ELSE "positive")

(* ---- zeta reflection zeta(s) = 2^s pi^(s-1) sin(pi s/2) Gamma(1-s) zeta(1-s) at negative half-integers (Gamma from the library) *)
(* implementation: 1 - s > 21: exp(lgamma(1-s) - (1-s) log(2 pi)) with overflow checks, below: pow * Gamma                         *)
ZetaReflS == <<R(-5, 2), R(-21, 2), R(-39, 2), R(-41, 2), R(-61, 2), R(-201, 2), R(-301, 2), R(-339, 2)>>
ZetaRefl(s) == LET sc == RSub(ROne, s)
                   t  == MulR(MulR(MulR(PowR(Two, Q(s)), PowR(Pi, Q(RNeg(sc)))), Sin(MulR(Pi, Q(RDiv(s, RInt(2)))))), MulR(GamL(Q(sc)), ZetaL(sc))) IN
  EqRec("zeta.refl", KOf("zeta.refl"), <<s>>, ZetaL(s), t, MulR(Abs(t), AddR(One, MulR(Q(sc), Log(MulR(Two, Pi))))), Zero,
        IF RLt(RInt(21), sc) THEN "lgamma form" ELSE "gamma form")

(* ---- fourth seeding wave: further edges of the algorithm selection ------------------------------------------------- *)
(* Q(a, x), Gamma(a, x) for integer a < 30 and 700 <= x < 745: the finite-sum formula must end at x < 709 (beyond, e^-x is *)
(* subnormal while Q is still an ordinary number); closed form e^-x sum x^k/k!                                            *)
QBigXAs == <<10, 20, 25, 29>>
QBigXXs == <<700, 708, 709, 710, 720, 740, 744>>
QBigCond(a, x) == AddR(AddR(One, QI(RAbs(a - 1 - x))), MulR(QI(a), Abs(Log(QF(x, a)))))
GammaQBigX(a, x) == LET q == MulR(Exp(Neg(QI(x))), ExpSumT(a, QI(x))) IN
  EqRec("gammaq.bigx", KOf("gammaq.bigx"), <<RInt(a), RInt(x)>>, GQL(QI(a), QI(x)), q, MulR(q, QBigCond(a, x)), Zero, IF x < 709 THEN "finite sum" ELSE "x >= 709")
GammaUpperBigX(a, x) == LET q == MulR(FactT(a - 1), MulR(Exp(Neg(QI(x))), ExpSumT(a, QI(x)))) IN
  EqRec("gammaupper.bigx", KOf("gammaq.bigx"), <<RInt(a), RInt(x)>>, GUL(QI(a), QI(x)), q, MulR(q, QBigCond(a, x)), Zero, IF x < 709 THEN "finite sum" ELSE "x >= 709")
(* half-integer a: recurrence Q(a+1, x) = Q(a, x) + x^a e^-x / Gamma(a+1) between library values (erfc underflows in the oracle there) *)
QBigXHalfMs == <<12, 24, 28>>                          \* a = m + 1/2
GammaQBigXHalf(m, x) == LET a == QF(2 * m + 1, 2)  a1 == QF(2 * m + 3, 2)
                            c == DivR(MulR(PowR(QI(x), a), Exp(Neg(QI(x)))), GammaHalfT(m + 1)) IN
  EqRec("gammaq.bigxhalf", KOf("gammaq.bigx"), <<R(2 * m + 1, 2), RInt(x)>>, GQL(a1, QI(x)), AddR(GQL(a, QI(x)), c),
        MulR(Abs(GQL(a1, QI(x))), QBigCond(m + 1, x)), Zero, IF x < 709 THEN "finite sum" ELSE "x >= 709")

(* small a, tiny x: Gamma(a, x) = (Gamma(1+a) - x^a)/a + x^(a+1)/(a+1) - ..., Q = a Gamma(a, x)/Gamma(1+a);                      *)
(* log Gamma(1+a) = -gamma a + sum_{k=2}^{6} (-1)^k zeta(k) a^k/k + R, |R| <= 1.2 a^7/7 (zeta(5) through the library)            *)
(* implementation: x < 2.2e-16 leading term ONLY for a > 1 (for small a, P ~ 1 and Q = 1 - P would cancel); small-a series for Q  *)
LgSmallT(a) == AddR(Neg(MulR(EGamma, a)), SumR([kk \in 1..5 |-> MulR(QF(IF kk % 2 = 1 THEN 1 ELSE -1, kk + 1), MulR(ZetaConstT(kk + 1), PowR(a, QI(kk + 1))))]))
SmallAEs == <<10, 20, 29, 34>>                            \* a = 2^-e
SmallXEs == <<53, 60, 100, 200>>                          \* x = 2^-e
UpperSmallT(a, x) == AddR(DivR(SubR(Exp(LgSmallT(a)), PowR(x, a)), a), DivR(PowR(x, AddR(a, One)), AddR(a, One)))
UpperSmallSlack(a, x) == AddR(MulR(QF(12, 70), PowR(a, QI(6))), PowR(x, Two))
GammaUpperSmall(ae, xe) == LET a == P2(0 - ae)  x == P2(0 - xe) IN
  EqRec("gammaupper.smalla", KOf("gammaupper.smalla"), <<RInt(0 - ae), RInt(0 - xe)>>, GUL(a, x), UpperSmallT(a, x), Abs(UpperSmallT(a, x)),
        UpperSmallSlack(a, x), "small a, tiny x")
GammaQSmall(ae, xe) == LET a == P2(0 - ae)  x == P2(0 - xe)
                           t == DivR(MulR(a, UpperSmallT(a, x)), Exp(LgSmallT(a))) IN
  EqRec("gammaq.smalla", KOf("gammaupper.smalla"), <<RInt(0 - ae), RInt(0 - xe)>>, GQL(a, x), t, Abs(t),
        MulR(a, MulR(Two, UpperSmallSlack(a, x))), "small a, tiny x")

(* BesselI / LogBesselI at tiny x: leading terms of the power series, relative accuracy (log I_0(x) ~ x^2/4 is itself tiny)     *)
TinyBesV2s == <<0, 1, 2, 4>>                              \* 2 v
TinyBesXEs == <<20, 27, 30, 40>>
TinyBesT(v2, xe) == LET x == P2(0 - xe)  y == DivR(MulR(x, x), QI(4))
                        ser == AddR(One, AddR(DivR(y, QF(v2 + 2, 2)), DivR(MulR(y, y), MulR(Two, MulR(QF(v2 + 2, 2), QF(v2 + 4, 2))))))
                    IN MulR(DivR(PowR(DivR(x, Two), QF(v2, 2)), GammaAny2T(v2 + 2)), ser)
TinyBesSlack(xe) == PowR(P2(0 - xe), QI(6))
BesselTinyX(v2, xe) == EqRec("besseli.tinyx", KOf("besseli.tinyx"), <<R(v2, 2), RInt(0 - xe)>>, BIL(QF(v2, 2), P2(0 - xe)), TinyBesT(v2, xe),
                             TinyBesT(v2, xe), MulR(TinyBesT(v2, xe), TinyBesSlack(xe)), "tiny x")
LogBesselTinyX(v2, xe) == EqRec("logbesseli.tinyx", KOf("logbesseli.tinyx"), <<R(v2, 2), RInt(0 - xe)>>, LBIL(QF(v2, 2), P2(0 - xe)), Log(TinyBesT(v2, xe)),
                                \* log I_0(x) ~ x^2/4 is obtained as exp(log(x^2/4)): conditioning |log(x^2/4)|
                                IF v2 = 0 THEN MulR(Abs(Log(TinyBesT(v2, xe))), AddR(One, QI(2 * xe))) ELSE Abs(Log(TinyBesT(v2, xe))),
                                TinyBesSlack(xe), "tiny x")

(* negative argument, integer order of both signs and parities: I_n(-x) = (-1)^n I_n(x) (bit-exact: the code negates) *)
NegXNs == <<-4, -3, -2, -1, 0, 1, 2, 3, 5, 8>>
NegXXs == <<R(1, 2), RInt(2), RInt(10)>>
BesselNegX(n, x) == LET t == MulR(QI(IF n % 2 = 0 THEN 1 ELSE -1), BIL(QI(n), Q(x))) IN
  EqRec("besseli.negx", 0, <<RInt(n), RNeg(x)>>, BIL(QI(n), Q(RNeg(x))), t, Abs(t), Zero, IF n < 0 THEN "negative order" ELSE "non-negative order")

(* psi_n(1/2) = (-1)^(n+1) n! (2^(n+1) - 1) zeta(n+1) for high orders (zeta by its direct sum) and the recurrence to x = 3/2 *)
HalfHighNs == <<60, 61, 62, 63, 64, 65, 70, 100, 140>>
PolyHalfHighT(n) == MulR(QI(SgnP(n)), MulR(FactT(n), MulR(SubR(PowR(Two, QI(n + 1)), One), ZetaSumT(RInt(n + 1)))))
PolygammaHalfHigh(n) == EqRec("polygamma.halfhigh", KOf("polygamma.halfhigh"), <<RInt(n), R(1, 2)>>, PolyL(n, Half), PolyHalfHighT(n), Abs(PolyHalfHighT(n)),
                              MulR(Abs(PolyHalfHighT(n)), PowR(QI(ZetaSumN), QI(0 - n))), "x = 1/2")

(* ======================================================================= *)
(* PURITY: the value of a special function is a function of its arguments    *)
(* only - no hidden state (lazily built tables), no dependence on the order  *)
(* of first use, no data race (model: SpecialPure.tla).  A pure family is a  *)
(* list of calls; the driver evaluates it in fresh processes sequentially    *)
(* (forward and backward) and concurrently and requires identical bits.      *)
(* ======================================================================= *)
Call(fn, args) == [fn |-> fn, args |-> args]
CrossCalls(fn, firsts, seconds) ==
  [j \in 1..(Len(firsts) * Len(seconds)) |-> Call(fn, <<firsts[((j - 1) \div Len(seconds)) + 1], seconds[((j - 1) % Len(seconds)) + 1]>>)]
UnaryCalls(fn, xs) == [j \in 1..Len(xs) |-> Call(fn, <<xs[j]>>)]
QIs(ns) == [j \in 1..Len(ns) |-> QI(ns[j])]
PureFamilies == <<
  [fam |-> "pure.polygamma.reflection",
   calls |-> CrossCalls("Polygamma", QIs(<<2, 5, 20, 21, 22, 25, 30, 43, 50, 64, 23, 10>>), <<QF(-5, 16), QF(-5, 4), QF(-11, 4)>>)],
  [fam |-> "pure.polygamma.positive",
   calls |-> CrossCalls("Polygamma", QIs(<<0, 1, 2, 3, 6, 21, 30>>), <<QF(1, 8), One, QF(5, 2), QI(40), QI(200)>>)],
  [fam |-> "pure.zeta",
   calls |-> UnaryCalls("Zeta", <<QI(3), QI(5), QI(51), QI(101), QI(103), QI(105), QI(-3), QI(-31), Half, QF(5, 2), QI(20), QF(-5, 2), QI(4)>>)],
  [fam |-> "pure.bernoulli.factorial",
   calls |-> UnaryCalls("BernoulliNumber", QIs(<<0, 1, 2, 3, 10, 20, 30, 60>>)) \o UnaryCalls("Factorial", QIs(<<0, 5, 20, 21, 25, 170>>))],
  [fam |-> "pure.digamma.trigamma",
   calls |-> UnaryCalls("Digamma", <<QF(1, 8), One, QF(3, 2), QI(12), QF(-5, 2)>>) \o UnaryCalls("Trigamma", <<QF(1, 8), One, QF(5, 2), QI(12), QF(-5, 2)>>)],
  [fam |-> "pure.gamma.incomplete",
   calls |-> CrossCalls("GammaP", <<Half, Two, QI(25), QF(61, 2), QI(250)>>, <<QF(1, 4), QI(3), QI(24), QI(260)>>) \o
             CrossCalls("GammaUpper", <<Half, QI(30), QI(171)>>, <<One, QI(40)>>) \o
             CrossCalls("GammaPsecondDerivative", <<QF(3, 2), QI(5)>>, <<One, QI(7)>>)],
  [fam |-> "pure.bessel",
   calls |-> CrossCalls("BesselI", <<Zero, One, Half, QF(5, 2), QF(-5, 2), QI(8), QI(50)>>, <<QF(1, 4), Two, QI(8), QI(100)>>) \o
             CrossCalls("LogBesselI", <<Zero, QF(5, 2), QF(-201, 2), QI(8)>>, <<QF(1, 16), QI(8), QI(7000)>>)],
  [fam |-> "pure.log",
   calls |-> UnaryCalls("LogErfc", <<QF(1, 16), One, QI(9), QI(-3)>>) \o
             CrossCalls("LogAdd", <<Zero, QI(-700)>>, <<One, NInf>>) \o CrossCalls("LogSub", <<Two>>, <<One, NInf>>) \o
             CrossCalls("Mlgamma", <<QF(5, 2), QI(30)>>, <<One, QI(3)>>)]
>>
PureCase(k) == [kind |-> "pure", fam |-> PureFamilies[k].fam, calls |-> PureFamilies[k].calls]

(* ================================================================ catalogue *)
(* identity families: blocks of (tag, number of parameter values); everything is looked up lazily *)
Blocks == << <<"fixed", 32>>, <<"polyrec", Len(PolyNs)>>, <<"polyrefl", Len(PolyNs)>>, <<"polydup", Len(PolyNs)>>,
             <<"mlgsum", 3>>, <<"mgammalog", 3>>,
             <<"gint.p", Len(GIntAs)>>, <<"gint.q", Len(GIntAs)>>, <<"gint.lower", Len(GIntAs)>>, <<"gint.upper", Len(GIntAs)>>,
             <<"gint.d1", Len(GIntAs)>>, <<"gint.d2", Len(GIntAs)>>,
             <<"ghalf.p", Len(GHalfMs)>>, <<"ghalf.q", Len(GHalfMs)>>, <<"ghalf.d1", Len(GHalfMs)>>,
             <<"beshalf", Len(BesHalfNs)>>, <<"logbeshalf", 6>> >>
RECURSIVE BlockSum(_)
BlockSum(b) == IF b = 0 THEN 0 ELSE BlockSum(b - 1) + Blocks[b][2]
NIdFam == BlockSum(Len(Blocks))
RECURSIVE Locate(_, _)
Locate(ff, b) == IF ff <= Blocks[b][2] THEN <<Blocks[b][1], ff>> ELSE Locate(ff - Blocks[b][2], b + 1)

FixedSchema(a) ==
  CASE a = 1 -> DigammaRecS   [] a = 2 -> DigammaReflS  [] a = 3 -> DigammaDupS
    [] a = 4 -> TrigammaRecS  [] a = 5 -> TrigammaReflS [] a = 6 -> TrigammaDupS
    [] a = 7 -> GammaRecS     [] a = 8 -> GammaReflS    [] a = 9 -> GammaDupS
    [] a = 10 -> LgammaRecS   [] a = 11 -> LgammaLogS
    [] a = 12 -> PolyDelegateS(0) [] a = 13 -> PolyDelegateS(1)
    [] a = 14 -> GammaPQS     [] a = 15 -> GammaRecPS   [] a = 16 -> GammaLUS  [] a = 17 -> GammaLPS
    [] a = 18 -> GammaUQS     [] a = 19 -> GammaD1S     [] a = 20 -> GammaD2S
    [] a = 21 -> LogErfcSmallS [] a = 22 -> LogErfcMidS
    [] a = 23 -> BesRecS      [] a = 24 -> LogBesLogS   [] a = 25 -> LogBesRecS [] a = 26 -> BesNegIntS
    [] a = 27 -> LogAddLinS   [] a = 28 -> LogSubLinS   [] a = 29 -> LogAddRatS [] a = 30 -> LogSubRatS
    [] a = 31 -> LogBesNegS   [] a = 32 -> LogBesRec2S
FixedPoints(a) ==
  CASE a = 1 -> DigammaRecP   [] a = 2 -> DigammaReflP  [] a = 3 -> DigammaDupP
    [] a = 4 -> TrigammaRecP  [] a = 5 -> TrigammaReflP [] a = 6 -> TrigammaDupP
    [] a = 7 -> GammaRecP     [] a = 8 -> GammaReflP    [] a = 9 -> GammaDupP
    [] a = 10 -> LgammaRecP   [] a = 11 -> LgammaLogP
    [] a = 12 -> PolyDelegateP [] a = 13 -> PolyDelegateP
    [] a = 21 -> LogErfcSmallP [] a = 22 -> LogErfcMidP
    [] a = 26 -> BesNegIntP
    [] a = 27 -> LogAddLinP   [] a = 28 -> LogSubLinP   [] a = 29 -> RatPairs [] a = 30 -> RatSubPairs
SchemaOf(tag, a) ==
  CASE tag = "fixed"    -> FixedSchema(a)
    [] tag = "polyrec"  -> PolyRecS(PolyNs[a])
    [] tag = "polyrefl" -> PolyReflS(PolyNs[a])
    [] tag = "polydup"  -> PolyDupS(PolyNs[a])
    [] tag = "mlgsum"   -> MlgammaSumS(a + 1)
    [] tag = "mgammalog" -> MgammaLogS(a + 1)
    [] tag = "gint.p"   -> GIntS("p", GIntAs[a])
    [] tag = "gint.q"   -> GIntS("q", GIntAs[a])
    [] tag = "gint.lower" -> GIntS("lower", GIntAs[a])
    [] tag = "gint.upper" -> GIntS("upper", GIntAs[a])
    [] tag = "gint.d1"  -> GIntS("d1", GIntAs[a])
    [] tag = "gint.d2"  -> GIntS("d2", GIntAs[a])
    [] tag = "ghalf.p"  -> GHalfS("p", GHalfMs[a])
    [] tag = "ghalf.q"  -> GHalfS("q", GHalfMs[a])
    [] tag = "ghalf.d1" -> GHalfS("d1", GHalfMs[a])
    [] tag = "beshalf"  -> BesHalfS(BesHalfNs[a])
    [] tag = "logbeshalf" -> LogBesHalfS(a - 2)
IsGAll(tag, a)   == tag = "fixed" /\ a \in {14, 15}
IsGSmall(tag, a) == tag = "fixed" /\ a \in 16..20
PointList(tag, a) ==
  CASE tag = "fixed"    -> FixedPoints(a)
    [] tag = "polyrec"  -> PolyRecP(PolyNs[a])
    [] tag = "polyrefl" -> PolyReflP(PolyNs[a])
    [] tag = "polydup"  -> PolyDupP(PolyNs[a])
    [] tag = "mlgsum"   -> MlgammaSumP(a + 1)
    [] tag = "mgammalog" -> MgammaLogP(a + 1)
    [] tag \in {"gint.p", "gint.q", "gint.lower", "gint.upper", "gint.d1", "gint.d2"} -> GIntP(GIntAs[a])
    [] tag \in {"ghalf.p", "ghalf.q", "ghalf.d1"} -> GHalfP(GHalfMs[a])
    [] tag = "beshalf"  -> BesHalfP(BesHalfNs[a])
    [] tag = "logbeshalf" -> LogBesHalfP(a - 2)
PointCount(tag, a) ==
  IF IsGAll(tag, a) THEN GCountAll ELSE IF IsGSmall(tag, a) THEN GCountSmall
  ELSE IF tag = "fixed" /\ a = 23 THEN BesCount(BesVs, <<>>)
  ELSE IF tag = "fixed" /\ a = 24 THEN BesCount(BesVsPos, <<>>)
  ELSE IF tag = "fixed" /\ a = 25 THEN BesCount(BesVsGe1, LogBesRecBig)
  ELSE IF tag = "fixed" /\ a \in {31, 32} THEN NegCount
  ELSE Len(PointList(tag, a))
PointAt(tag, a, k) ==
  IF IsGAll(tag, a) \/ IsGSmall(tag, a) THEN GPointAt(k)
  ELSE IF tag = "fixed" /\ a = 23 THEN BesPointAt(BesVs, <<>>, k)
  ELSE IF tag = "fixed" /\ a = 24 THEN BesPointAt(BesVsPos, <<>>, k)
  ELSE IF tag = "fixed" /\ a = 25 THEN BesPointAt(BesVsGe1, LogBesRecBig, k)
  ELSE IF tag = "fixed" /\ a \in {31, 32} THEN NegPointAt(k)
  ELSE PointList(tag, a)[k]

=============================================================================
