------------------------------ MODULE SparseVector ------------------------------
(***************************************************************************)
(* C11: sparse containers stay coherent under any history of operations.   *)
(*                                                                         *)
(* PRODUCT of the contract SparseVecContract (dense model, contract        *)
(* iterator positions) with the MECHANISM of vector_sparse_template.in:    *)
(*                                                                         *)
(*   vals[o]   the map `values`: a function on a SUBSET of 0..n-1; a key   *)
(*             may hold a stored zero, or (known deviations only) NilPtr,  *)
(*             the placeholder cell Float64{nil} / a nil Real64 pointer    *)
(*   index[o]  the key set of the AVL index (contract of C19: a set whose  *)
(*             iterators move to the least key above their position); it   *)
(*             may over-approximate DOMAIN vals (Permute, Swap, stored     *)
(*             zeros): skip() heals that                                   *)
(*   sh        which cells are shared between a vector and its slice       *)
(*             (SLICE copies the scalar handles, not the scalars)          *)
(*   mit[j]    iterators: position + (deviation StaleBug) a frozen key set *)
(*                                                                         *)
(* transcribed operations: AT (creates entry), Reset, Swap, ReverseOrder,  *)
(* Permute, Sort, SLICE, AppendScalar/APPEND, ITERATOR/ITERATOR_FROM/Next  *)
(* with skip() deleting null entries, complete ConstIterator loops, the    *)
(* joint iterator, and element-wise arithmetic on the receiver (joint      *)
(* iterators = a complete walk of the receiver + creation of missing       *)
(* entries).                                                               *)
(*                                                                         *)
(* Invariants: ReadsOK, NoNil, IterOK, IterRefines, LiveIndexed, InRange,  *)
(* ShareOK (the cells really shared contain the contract's `must` pairs    *)
(* and otherwise only tainted zero positions), ResultOK; action property   *)
(* DimFrame.                                                               *)
(*                                                                         *)
(* Case generation: with Emit every transition prints the history of calls *)
(* (each call with the dense content, the lengths and the result the       *)
(* CONTRACT demands after it) plus the contract's iterator positions; hist *)
(* is outside the VIEW, all other variables are canonical already.         *)
(*                                                                         *)
(* SwapBug / StaleBug / SliceBug = TRUE model the code before the fix:     *)
(* commits (design findings reproduced on the real code, see docs/C11.md). *)
(***************************************************************************)
EXTENDS SparseMatrixView, Json

CONSTANTS N0,        \* length of the initial vector
          MaxN,      \* largest length reachable through Append
          NIter,     \* live iterators (>= 1)
          MaxObj,    \* 1: Slice replaces the vector; 2: a slice lives next to its parent
          Emit,      \* print one replay case per transition
          EmitAt,    \* 0, or (simulation) print only histories of exactly this length
          Ops,       \* enabled operations
          WMax,      \* operand vectors of arithmetic have at most WMax non-zero entries
          Cols,      \* > 0: the vector is the row-major storage of a matrix with Cols columns (views: "vwalk")
          ViewDepth, \* views are words of at most ViewDepth Slice / T steps (SparseMatrixView.tla)
          ViewT,     \* ... with at most ViewT transpositions
          BMode,     \* operand matrices of whole-view operations: 0 = constant matrices, 1 = all of WSeqs, 2 = all ones
          SwapBug, StaleBug, SliceBug

Val == {-1, 0, 1}
(* Real element types: an element whose derivative (gradient or Hessian) is not zero is NOT a zero element even  *)
(* when its value is 0 (nullScalar()).  Such an element is written v + Tag in both layers: Tag is "value 0 with a *)
(* non-zero derivative", so that it is a non-zero element of the dense model: it is stored, visited by every      *)
(* iteration and survives skip().  It arises from "setvar" (At(i).SetVariable / SetDerivative / SetHessian) only;  *)
(* SetX(value) and Reset clear the derivatives again.  Sort, arithmetic and the joint iterator are not driven     *)
(* while such an element exists (their derivative rules are another property's business).                         *)
ValX == IF "setvar" \in Ops THEN Val \cup {v + Tag : v \in Val} ELSE Val
NilPtr == 99
Objs == 1..MaxObj
Iters == 1..NIter

VARIABLES vals, index, sh, mit, ok, hist
vars == <<n, content, cit, must, taint, vals, index, sh, mit, ok, hist>>
View == <<n, content, cit, must, taint, vals, index, sh, mit, ok>>

(* ------------------------------------------------------- map semantics *)
Has(vs, i) == i \in DOMAIN vs
Rd(vs, i) == IF Has(vs, i) THEN vs[i] ELSE 0            \* Float64At / ConstAt / AT_
IsNullAt(vs, i) == ~Has(vs, i) \/ vs[i] = NilPtr \/ vs[i] = 0    \* GET().nullScalar()
Put(f, i, v) == TLCEval([k \in (DOMAIN f) \cup {i} |-> IF k = i THEN v ELSE f[k]])
Drop(f, D) == TLCEval([k \in (DOMAIN f) \ D |-> f[k]])
HasNil(vs) == \E k \in DOMAIN vs : vs[k] = NilPtr

NoSnap == [stale |-> FALSE, keys |-> {}]
(* skip(): while the entry under the index iterator is null: advance the   *)
(* index iterator, delete the entry from the map and from the index        *)
RECURSIVE Skip(_, _, _, _)
Skip(vs, ix, snap, p) ==
  IF p = Done THEN [vals |-> vs, index |-> ix, pos |-> Done]
  ELSE IF IsNullAt(vs, p)
       THEN Skip(Drop(vs, {p}), ix \ {p}, snap, MinGT(IF snap.stale THEN snap.keys ELSE ix, p))
       ELSE [vals |-> vs, index |-> ix, pos |-> p]
(* for it := v.ITERATOR(); it.Ok(); it.Next() {}  *)
RECURSIVE Walk(_, _, _, _)
Walk(vs, ix, p, acc) ==
  LET s == Skip(vs, ix, NoSnap, p) IN
  IF s.pos = Done THEN [vals |-> s.vals, index |-> s.index, seq |-> acc]
  ELSE Walk(s.vals, s.index, MinGT(s.index, s.pos), Append(acc, <<s.pos, s.vals[s.pos]>>))
FullWalk(vs, ix) == Walk(vs, ix, MinGE(ix, 0), <<>>)
KeysOfSeq(s) == {s[t][1] : t \in 1..Len(s)}

(* ------------------------------------------------------------- sharing *)
Prune(S, o, D) == {pr \in S : pr[o] \in D}
Rename(S, o, f, D) == {IF o = 1 THEN <<f[pr[1]], pr[2]>> ELSE <<pr[1], f[pr[2]]>> : pr \in Prune(S, o, D)}

CommitM(o, nv, ni, S) ==
  /\ vals' = [oo \in Objs |-> IF oo = o THEN nv
                              ELSE IF n[oo] < 0 THEN <<>>
                              ELSE Through(S, o, nv, vals[oo])]
  /\ index' = [index EXCEPT ![o] = ni]
  /\ sh' = S
(* contract half + mechanism half of a step on object o *)
ValueStep(o, nc, nv, ni, S)         == ValueStepC(Objs, o, nc) /\ CommitM(o, nv, ni, S)
StructStep(o, nc, f, srt, nv, ni, S) == StructStepC(Objs, o, nc, f, srt) /\ CommitM(o, nv, ni, S)
ObsStep(o, nv, ni, S)               == UNCHANGED <<n, content, must, taint>> /\ CommitM(o, nv, ni, S)
ReplaceStep(o, nn, nc, nv, ni)      == ReplaceStepC(Objs, o, nn, nc) /\ CommitM(o, nv, ni, {})

MitDead == [live |-> FALSE, o |-> 1, pos |-> Done, stale |-> FALSE, keys |-> {}]
KillMits(its, objs) == [j \in DOMAIN its |-> IF its[j].live /\ its[j].o \in objs THEN MitDead ELSE its[j]]
(* deviation: obj.vectorSparseIndex = vectorSparseIndex{} leaves live iterators on the nodes of the OLD tree *)
MarkStale(o, oldkeys) ==
  [j \in Iters |-> IF StaleBug /\ mit[j].live /\ mit[j].o = o /\ ~mit[j].stale
                   THEN [mit[j] EXCEPT !.stale = TRUE, !.keys = oldkeys] ELSE mit[j]]

(* ------------------------------------------------------ case recording *)
Ev(a, o) == [a |-> a, o |-> o, j |-> 0, i |-> 0, k |-> 0, x |-> 0, p |-> <<>>, w |-> <<>>, r |-> <<>>,
             c |-> <<>>, n |-> <<>>, d |-> <<>>]
ItObs(j) == [live |-> cit'[j].live, o |-> cit'[j].o, pos |-> cit'[j].pos,
             rest |-> IF cit'[j].live THEN CRest(content'[cit'[j].o], cit'[j].pos) ELSE <<>>]
Record(e) ==
  /\ hist' = Append(hist, [e EXCEPT !.c = [oo \in Objs |-> SeqOf(content'[oo], n'[oo])],
                                    !.n = [oo \in Objs |-> n'[oo]]])
  /\ (Emit /\ (EmitAt = 0 \/ Len(hist') = EmitAt) =>
        PrintT(ToJson([h |-> hist', n0 |-> N0, cols |-> Cols, its |-> [j \in Iters |-> ItObs(j)],
                       wk |-> [oo \in Objs |-> IF n'[oo] >= 0 THEN CWalk(content'[oo]) ELSE <<>>]])))

(* -------------------------------------------------------------- Init *)
Init ==
  /\ n = [o \in Objs |-> IF o = 1 THEN N0 ELSE -1]
  /\ content = [o \in Objs |-> IF o = 1 THEN [i \in Idx(N0) |-> 0] ELSE <<>>]
  /\ cit = [j \in Iters |-> IterDead]
  /\ must = {} /\ taint = [o \in Objs |-> {}]
  /\ vals = [o \in Objs |-> <<>>]
  /\ index = [o \in Objs |-> {}]
  /\ sh = {}
  /\ mit = [j \in Iters |-> MitDead]
  /\ ok = TRUE
  /\ hist = <<>>

Alive(o) == n[o] >= 0

(* v.At(i).SetX(x): AT creates the cell and the index entry together *)
Write(o, i, x) ==
  /\ "write" \in Ops /\ Alive(o) /\ i \in Idx(n[o]) /\ Rd(vals[o], i) # NilPtr
  /\ ValueStep(o, CWrite(content[o], i, x), Put(vals[o], i, x),
               IF Has(vals[o], i) THEN index[o] ELSE index[o] \cup {i}, sh)
  /\ UNCHANGED <<cit, mit>> /\ ok' = TRUE
  /\ Record([Ev("write", o) EXCEPT !.i = i, !.x = x])

NoTag(o) == \A i \in DOMAIN content[o] : ~Tagged(content[o][i])
(* v.At(i).SetVariable(..) (Real types): the element keeps its value and gets a non-zero derivative *)
SetVar(o, i) ==
  /\ "setvar" \in Ops /\ Alive(o) /\ i \in Idx(n[o]) /\ ~Tagged(content[o][i]) /\ Rd(vals[o], i) # NilPtr
  /\ ValueStep(o, [content[o] EXCEPT ![i] = content[o][i] + Tag], Put(vals[o], i, Rd(vals[o], i) + Tag),
               IF Has(vals[o], i) THEN index[o] ELSE index[o] \cup {i}, sh)
  /\ UNCHANGED <<cit, mit>> /\ ok' = TRUE
  /\ Record([Ev("setvar", o) EXCEPT !.i = i])

(* v.Reset(): every stored cell is zeroed, nothing is removed *)
Reset(o) ==
  /\ "reset" \in Ops /\ Alive(o) /\ ~HasNil(vals[o])
  /\ ValueStep(o, CReset(content[o]), [k \in DOMAIN vals[o] |-> 0], index[o], sh)
  /\ UNCHANGED <<cit, mit>> /\ ok' = TRUE
  /\ Record(Ev("reset", o))

(* v.Swap(i, j) *)
Swap(o, i, j) ==
  /\ "swap" \in Ops /\ Alive(o) /\ i \in Idx(n[o]) /\ j \in Idx(n[o]) /\ i <= j
  /\ LET vs == vals[o]
         f  == [k \in Idx(n[o]) |-> IF k = i THEN j ELSE IF k = j THEN i ELSE k]
         D  == IF SwapBug THEN DOMAIN vs \cup {i, j}
               ELSE (DOMAIN vs \ {i, j}) \cup (IF Has(vs, j) THEN {i} ELSE {}) \cup (IF Has(vs, i) THEN {j} ELSE {})
         nv == TLCEval([k \in D |-> IF k = i THEN (IF Has(vs, j) THEN vs[j] ELSE NilPtr)
                                    ELSE IF k = j THEN (IF Has(vs, i) THEN vs[i] ELSE NilPtr)
                                    ELSE vs[k]])
         ni == IF SwapBug THEN index[o]
               ELSE index[o] \cup (IF Has(vs, j) THEN {i} ELSE {}) \cup (IF Has(vs, i) THEN {j} ELSE {})
     IN StructStep(o, CSwap(content[o], i, j), f, FALSE, nv, ni, Rename(sh, o, f, DOMAIN vs))
  /\ UNCHANGED <<cit, mit>> /\ ok' = TRUE
  /\ Record([Ev("swap", o) EXCEPT !.i = i, !.k = j])

(* v.ReverseOrder(): new map and new index built from the map's keys *)
Reverse(o) ==
  /\ "reverse" \in Ops /\ Alive(o)
  /\ LET m  == n[o]
         vs == vals[o]
         nv == TLCEval([k \in {m - 1 - i : i \in DOMAIN vs} |-> vs[m - 1 - k]])
         f  == [k \in Idx(m) |-> m - 1 - k]
     IN StructStep(o, CReverse(content[o], m), f, FALSE, nv, DOMAIN nv, Rename(sh, o, f, DOMAIN vs))
  /\ mit' = MarkStale(o, index[o])
  /\ UNCHANGED cit /\ ok' = TRUE
  /\ Record(Ev("reverse", o))

(* v.Permute(pi): the coded case analysis on (ok1, ok2); the index is rebuilt from ALL positions *)
PermSeqs(m) == {p \in [1..m -> Idx(m)] : \A a, b \in 1..m : a # b => p[a] # p[b]}
RECURSIVE PermVals(_, _, _, _)
PermVals(vs, pi, i, m) ==
  IF i >= m THEN vs
  ELSE IF pi[i+1] > i THEN
         LET j   == pi[i+1]
             ok1 == Has(vs, i)
             ok2 == Has(vs, j)
             v1  == IF ok1 /\ ok2 THEN Put(Put(vs, j, vs[i]), i, vs[j])
                    ELSE IF ok1 THEN Drop(Put(vs, j, vs[i]), {i})
                    ELSE IF ok2 THEN Drop(Put(vs, i, vs[j]), {j})
                    ELSE vs
         IN PermVals(v1, pi, i + 1, m)
       ELSE PermVals(vs, pi, i + 1, m)
RECURSIVE PermMap(_, _, _, _)           \* where does the cell of old position k end up
PermMap(f, pi, i, m) ==
  IF i >= m THEN f
  ELSE IF pi[i+1] > i
       THEN PermMap(TLCEval([k \in DOMAIN f |-> IF f[k] = i THEN pi[i+1] ELSE IF f[k] = pi[i+1] THEN i ELSE f[k]]), pi, i + 1, m)
       ELSE PermMap(f, pi, i + 1, m)
Permute(o, pi) ==
  /\ "permute" \in Ops /\ Alive(o)
  /\ LET m == n[o]
         f == PermMap(TLCEval([k \in Idx(m) |-> k]), pi, 0, m)
     IN StructStep(o, CPermute(content[o], pi, m), CPermuteMap(pi, m), FALSE, PermVals(vals[o], pi, 0, m), Idx(m),
                   Rename(sh, o, f, DOMAIN vals[o]))
  /\ mit' = MarkStale(o, index[o])
  /\ UNCHANGED cit /\ ok' = TRUE
  /\ Record([Ev("permute", o) EXCEPT !.p = pi])

(* v.Sort(reverse): collect the cells by a complete iteration, sort them, re-key them *)
Sort(o, rev) ==
  /\ "sort" \in Ops /\ Alive(o) /\ NoTag(o)
  /\ LET m    == n[o]
         wk   == FullWalk(vals[o], index[o])
         len  == Cardinality(DOMAIN wk.vals)           \* len(obj.values) after the loop
         ip   == IF rev THEN 0 ELSE m - len
         inn  == IF rev THEN m - len ELSE 0
         srt  == StableSortPairs(<<>>, wk.seq, rev)    \* <<old key, value>>
         L    == Len(srt)
         keyOf(t) == IF srt[t][2] > 0 THEN (t - 1) + ip ELSE (t - 1) + inn
         nk   == {keyOf(t) : t \in 1..L}
         last(key) == CHOOSE t \in 1..L : keyOf(t) = key /\ \A t2 \in 1..L : keyOf(t2) = key => t2 <= t
         nv   == TLCEval([key \in nk |-> srt[last(key)][2]])
         ren  == TLCEval([k \in KeysOfSeq(srt) |-> keyOf(CHOOSE t \in 1..L : srt[t][1] = k)])
     IN /\ StructStep(o, CSort(content[o], m, rev), CSortMap(content[o], m, rev), TRUE, nv, nk,
                      Rename(sh, o, ren, DOMAIN ren))
        /\ mit' = MarkStale(o, wk.index)
  /\ UNCHANGED cit /\ ok' = TRUE
  /\ Record([Ev("sort", o) EXCEPT !.x = IF rev THEN 1 ELSE 0])

(* SLICE(a, b): walks the INDEX keys in [a, b) and copies the scalar handles *)
SliceOf(a, b) ==
  LET K  == {k \in index[1] : a <= k /\ k < b}
      KK == IF SliceBug THEN K ELSE K \cap DOMAIN vals[1]
  IN [vals  |-> [k \in {kk - a : kk \in KK} |-> IF Has(vals[1], k + a) THEN vals[1][k + a] ELSE NilPtr],
      index |-> {kk - a : kk \in KK},
      sh    |-> {<<kk, kk - a>> : kk \in K \cap DOMAIN vals[1]}]
(* s := v.Slice(a, b), the parent stays alive *)
Slice2(a, b) ==
  /\ "slice" \in Ops /\ MaxObj = 2 /\ Alive(1) /\ a \in 0..n[1] /\ b \in a..n[1]
  /\ LET s == SliceOf(a, b)
         W == {k \in Idx(n[1]) : a <= k /\ k < b}
     IN
       /\ n' = [n EXCEPT ![2] = b - a]
       /\ content' = [content EXCEPT ![2] = CSlice(content[1], a, b)]
       /\ must' = {<<k, k - a>> : k \in {kk \in W : content[1][kk] # 0}}
       /\ taint' = [o \in Objs |-> IF o = 1 THEN {k \in W : content[1][k] = 0}
                                   ELSE {k - a : k \in {kk \in W : content[1][kk] = 0}}]
       /\ vals' = [vals EXCEPT ![2] = s.vals]
       /\ index' = [index EXCEPT ![2] = s.index]
       /\ sh' = s.sh
  /\ cit' = KillIters(cit, {2}) /\ mit' = KillMits(mit, {2}) /\ ok' = TRUE
  /\ Record([Ev("slice", 2) EXCEPT !.i = a, !.k = b])
(* v = v.Slice(a, b), the parent is dropped *)
Slice1(a, b) ==
  /\ "slice" \in Ops /\ MaxObj = 1 /\ Alive(1) /\ a \in 0..n[1] /\ b \in a..n[1]
  /\ LET s == SliceOf(a, b) IN
       /\ ReplaceStepC(Objs, 1, b - a, CSlice(content[1], a, b))
       /\ vals' = [vals EXCEPT ![1] = s.vals]
       /\ index' = [index EXCEPT ![1] = s.index]
       /\ sh' = {}
  /\ cit' = KillIters(cit, {1}) /\ mit' = KillMits(mit, {1}) /\ ok' = TRUE
  /\ Record([Ev("slice", 1) EXCEPT !.i = a, !.k = b])
(* bookkeeping of the driver only: forget the parent, continue with the slice as vector 1 *)
Promote ==
  /\ "slice" \in Ops /\ MaxObj = 2 /\ Alive(2)
  /\ n' = [o \in Objs |-> IF o = 1 THEN n[2] ELSE -1]
  /\ content' = [o \in Objs |-> IF o = 1 THEN content[2] ELSE <<>>]
  /\ must' = {} /\ taint' = [o \in Objs |-> {}]
  /\ vals' = [o \in Objs |-> IF o = 1 THEN vals[2] ELSE <<>>]
  /\ index' = [o \in Objs |-> IF o = 1 THEN index[2] ELSE {}]
  /\ sh' = {}
  /\ cit' = [j \in Iters |-> IF cit[j].live /\ cit[j].o = 2 THEN [cit[j] EXCEPT !.o = 1] ELSE IterDead]
  /\ mit' = [j \in Iters |-> IF mit[j].live /\ mit[j].o = 2 THEN [mit[j] EXCEPT !.o = 1] ELSE MitDead]
  /\ ok' = TRUE
  /\ Record(Ev("promote", 1))

(* v = v.AppendScalar(x): Clone (cells copied, index tree copied as it is) + one more entry *)
AppendScalar(x) ==
  /\ "append" \in Ops /\ Alive(1) /\ n[1] < MaxN /\ ~HasNil(vals[1])
  /\ ReplaceStep(1, n[1] + 1, CAppend(content[1], n[1], <<x>>), Put(vals[1], n[1], x), index[1] \cup {n[1]})
  /\ cit' = KillIters(cit, {1}) /\ mit' = KillMits(mit, {1}) /\ ok' = TRUE
  /\ Record([Ev("appends", 1) EXCEPT !.x = x])
(* v = v.AppendVector(w), w a fresh sparse vector of the same type: only w's non-null entries arrive *)
AppendVector(w) ==
  /\ "append" \in Ops /\ Alive(1) /\ n[1] + Len(w) <= MaxN /\ ~HasNil(vals[1])
  /\ LET m  == n[1]
         K  == {m + t - 1 : t \in {tt \in 1..Len(w) : w[tt] # 0}}
         nv == TLCEval([k \in DOMAIN vals[1] \cup K |-> IF k \in K THEN w[k - m + 1] ELSE vals[1][k]])
     IN ReplaceStep(1, m + Len(w), CAppend(content[1], m, w), nv, index[1] \cup K)
  /\ cit' = KillIters(cit, {1}) /\ mit' = KillMits(mit, {1}) /\ ok' = TRUE
  /\ Record([Ev("appendv", 1) EXCEPT !.w = w])

(* KNOWN DEVIATION (another property's finding, kept out of the model proper): when the operand is a DENSE *)
(* vector the generic joint iterator reports Ok() = false at the first position where receiver and operand *)
(* are both zero, so the loop stops there and the remaining positions keep their old values.  The replay   *)
(* with dense operands accepts exactly this content (field d) as the known finding, anything else is a      *)
(* violation.                                                                                              *)
KnownDeviation_DenseOperandStop(name, c, w, m) ==
  LET Z == {i \in Idx(m) : c[i] = 0 /\ w[i] = 0}
      stop == IF Z = {} THEN m ELSE Min(Z)
  IN TLCEval([i \in Idx(m) |-> IF i < stop THEN AOp(name, c[i], w[i]) ELSE c[i]])
(* element-wise arithmetic, receiver = first operand.  Joint iterators walk the receiver completely  *)
(* (deleting null entries on the way) merged with the operand's non-zero positions; AT creates what  *)
(* is missing; VmulV / VmulS `continue` where the receiver has no entry; V{add,sub}S touch every i.   *)
Arith(name, o, wseq, x) ==
  /\ name \in Ops /\ Alive(o) /\ ~HasNil(vals[o]) /\ NoTag(o)
  /\ LET m  == n[o]
         w  == IF name \in VecOps THEN FunOf(wseq) ELSE ConstFun(m, x)
         nc == CArith(name, content[o], w)
         wk == FullWalk(vals[o], index[o])
         K  == KeysOfSeq(wk.seq)
         T  == IF name \in {"vaddv", "vsubv", "set"} THEN K \cup NZ(w) ELSE K
         nv == IF name \in {"vadds", "vsubs"}
               THEN TLCEval([k \in Idx(m) |-> AOp(name, Rd(vals[o], k), x)])
               ELSE TLCEval([k \in DOMAIN wk.vals \cup T |-> IF k \in T THEN AOp(name, Rd(wk.vals, k), w[k]) ELSE wk.vals[k]])
         ni == IF name \in {"vadds", "vsubs"} THEN index[o] \cup (Idx(m) \ DOMAIN vals[o])
               ELSE wk.index \cup (T \ DOMAIN wk.vals)
         S  == IF name \in {"vadds", "vsubs"} THEN sh ELSE Prune(sh, o, DOMAIN wk.vals)
     IN /\ \A i \in Idx(m) : nc[i] \in Val
        /\ ValueStep(o, nc, nv, ni, S)
  /\ UNCHANGED <<cit, mit>> /\ ok' = TRUE
  /\ Record([Ev(name, o) EXCEPT !.w = IF name \in VecOps THEN wseq ELSE <<>>, !.x = x,
                                !.d = IF name \in VecOps
                                      THEN SeqOf(KnownDeviation_DenseOperandStop(name, content[o], FunOf(wseq), n[o]), n[o])
                                      ELSE <<>>])
BSeqs(m) == IF BMode = 2 THEN {[t \in 1..m |-> 1]} ELSE IF BMode = 0 THEN {[t \in 1..m |-> v] : v \in Val} ELSE {w \in [1..m -> Val] : Cardinality({t \in 1..m : w[t] # 0}) <= WMax}
WSeqs(m) == {w \in [1..m -> Val] : Cardinality({t \in 1..m : w[t] # 0}) <= WMax}

(* it := v.ConstIterator() / v.Iterator() / v.ConstIteratorFrom(i) *)
IterFrom(j, o, from, name) ==
  /\ name \in Ops /\ Alive(o) /\ from \in Idx(n[o]) \cup {0}
  /\ LET s == Skip(vals[o], index[o], NoSnap, MinGE(index[o], from)) IN
       /\ ObsStep(o, s.vals, s.index, Prune(sh, o, DOMAIN s.vals))
       /\ mit' = [mit EXCEPT ![j] = [live |-> TRUE, o |-> o, pos |-> s.pos, stale |-> FALSE, keys |-> {}]]
  /\ CIterNew(j, o, from) /\ ok' = TRUE
  /\ Record([Ev(name, o) EXCEPT !.j = j, !.i = from, !.r = <<<<cit'[j].pos>>>>])
(* it.Next() *)
IterNext(j) ==
  /\ "next" \in Ops /\ mit[j].live /\ cit[j].live /\ mit[j].pos # Done /\ cit[j].pos # Done
  /\ LET o  == mit[j].o
         sn == [stale |-> mit[j].stale, keys |-> mit[j].keys]
         s  == Skip(vals[o], index[o], sn, MinGT(IF sn.stale THEN sn.keys ELSE index[o], mit[j].pos))
     IN /\ ObsStep(o, s.vals, s.index, Prune(sh, o, DOMAIN s.vals))
        /\ mit' = [mit EXCEPT ![j].pos = s.pos]
  /\ CIterAdvance(j) /\ ok' = TRUE
  /\ Record([Ev("next", mit[j].o) EXCEPT !.j = j, !.r = <<<<cit'[j].pos>>>>])

(* a complete loop over a fresh ConstIterator; the sequence of (index, value) is the result *)
WalkAll(o) ==
  /\ "walk" \in Ops /\ Alive(o)
  /\ LET wk == FullWalk(vals[o], index[o]) IN
       /\ ObsStep(o, wk.vals, wk.index, Prune(sh, o, DOMAIN wk.vals))
       /\ ok' = (wk.seq = CWalk(content[o]))
  /\ UNCHANGED <<cit, mit>>
  /\ Record([Ev("walk", o) EXCEPT !.r = CWalk(content[o])])
(* the view denoted by a word, mechanism side: fold the steps over (storage map, index, header) *)
RECURSIVE MechView(_, _, _, _, _)
MechView(vs, ix, h, word, t) ==
  IF t > Len(word) THEN [vals |-> vs, index |-> ix, h |-> h]
  ELSE IF IsT(word[t]) THEN LET v2 == TKeys(vs, h) IN MechView(v2, DOMAIN v2, HT(h), word, t + 1)
  ELSE MechView(vs, ix, HSlice(h, word[t]), word, t + 1)
(* for it := view.ITERATOR() / ITERATOR_FROM(fi, fj); it.Ok(); it.Next(): vector-iterator steps with skip(), *)
(* clip() passes over keys outside the view's columns, Ok() ends the loop below the view's last row         *)
RECURSIVE VWalk(_, _, _, _, _)
VWalk(vs, ix, h, p, acc) ==
  LET s == Skip(vs, ix, NoSnap, p) IN
  IF s.pos = Done \/ (s.pos \div h.cmax) - h.ro >= h.rows THEN [vals |-> s.vals, index |-> s.index, seq |-> acc]
  ELSE LET j == (s.pos % h.cmax) - h.co IN
       VWalk(s.vals, s.index, h, MinGT(s.index, s.pos),
             IF j >= 0 /\ j < h.cols THEN Append(acc, <<(s.pos \div h.cmax) - h.ro, j, s.vals[s.pos]>>) ELSE acc)
ViewWalk(o, word, fi, fj) ==
  /\ "vwalk" \in Ops /\ Cols > 0 /\ Alive(o) /\ n[o] > 0 /\ n[o] % Cols = 0
  /\ LET rows == n[o] \div Cols
         cv   == DenView(word, rows, Cols)
         mv   == MechView(vals[o], index[o], WholeHdr(rows, Cols), word, 1)
         k0   == IF fi < 0 THEN mv.h.ro * mv.h.cmax + mv.h.co ELSE HIndex(mv.h, fi, fj)
         wk   == VWalk(mv.vals, mv.index, mv.h, MinGE(mv.index, k0), <<>>)
         exp  == CViewIter(content[o], cv, fi, fj)
         rds  == IF cv.vr * cv.vc <= 0 THEN <<>>
                 ELSE [t \in 1..(cv.vr * cv.vc) |-> Rd(wk.vals, HIndex(mv.h, (t - 1) \div cv.vc, (t - 1) % cv.vc))]
     IN /\ (fi >= 0 => fi < cv.vr /\ fj >= 0 /\ fj < cv.vc)
        /\ (fi < 0 => fj = 0)
        \* a view with a transposition is a re-keyed COPY of the storage: iterating it leaves the matrix alone
        /\ IF HasT(word) THEN ObsStep(o, vals[o], index[o], sh)
                         ELSE ObsStep(o, wk.vals, wk.index, Prune(sh, o, DOMAIN wk.vals))
        /\ ok' = (wk.seq = exp /\ mv.h.rows = cv.vr /\ mv.h.cols = cv.vc /\ rds = CViewSeq(content[o], cv))
        /\ UNCHANGED <<cit, mit>>
        /\ Record([Ev("vwalk", o) EXCEPT !.i = cv.vr, !.k = cv.vc, !.w = FlatWord(word), !.p = <<fi, fj>>, !.r = exp,
                                        !.d = CViewSeq(content[o], cv)])
(* view.At(i, j).SetX(x) through a view made of slices only (header arithmetic; the storage is the matrix's own) *)
ViewWrite(o, word, i, j, x) ==
  /\ "vwrite" \in Ops /\ Cols > 0 /\ MaxObj = 1 /\ Alive(o) /\ n[o] > 0 /\ n[o] % Cols = 0 /\ ~HasT(word)
  /\ LET rows == n[o] \div Cols
         cv   == DenView(word, rows, Cols)
         mv   == MechView(vals[o], index[o], WholeHdr(rows, Cols), word, 1)
     IN /\ i < cv.vr /\ j < cv.vc
        /\ LET kc == cv.map[<<i, j>>]           \* where the CONTRACT says the element lives
               km == HIndex(mv.h, i, j)         \* where the header arithmetic puts it
           IN /\ Rd(vals[o], km) # NilPtr
              /\ n' = n /\ content' = [content EXCEPT ![o] = CWrite(content[o], kc, x)]
              /\ UNCHANGED <<must, taint>>
              /\ CommitM(o, Put(vals[o], km, x), IF Has(vals[o], km) THEN index[o] ELSE index[o] \cup {km}, sh)
              /\ ok' = (kc = km)
        /\ UNCHANGED <<cit, mit>>
        /\ Record([Ev("vwrite", o) EXCEPT !.i = i, !.k = j, !.x = x, !.w = FlatWord(word)])

(* a WHOLE-VIEW operation with the view (slices only) as receiver: Reset / SetIdentity / Set / MdotM / MmulS /  *)
(* MaddM / Map.  Effect-level transcription: the clipping iterator walks the view (null entries it passes are   *)
(* purged), stored in-view cells are overwritten, missing ones created where the operation needs them; Map      *)
(* touches every cell of the view through At (creating all of them).  Nothing outside the view is written.     *)
ViewBulk(o, word, name, bseq, x) ==
  /\ "vbulk" \in Ops /\ Cols > 0 /\ MaxObj = 1 /\ Alive(o) /\ n[o] > 0 /\ n[o] % Cols = 0 /\ ~HasT(word)
  /\ ~HasNil(vals[o]) /\ NoTag(o)
  /\ LET rows == n[o] \div Cols
         cv   == DenView(word, rows, Cols)
         mv   == MechView(vals[o], index[o], WholeHdr(rows, Cols), word, 1)
         b    == IF name \in BulkOperandOps THEN FunOf(bseq) ELSE ConstFun(n[o], 0)
         nc   == CViewBulk(content[o], cv, name, b, x)
         wk   == VWalk(mv.vals, mv.index, mv.h, MinGE(mv.index, mv.h.ro * mv.h.cmax + mv.h.co), <<>>)
         cells == (0..(mv.h.rows-1)) \X (0..(mv.h.cols-1))
         pos(ij) == HIndex(mv.h, ij[1], ij[2])
         K    == {pos(ij) : ij \in {c \in cells : Has(wk.vals, pos(c))}}      \* stored in-view cells after the walk
         NB   == {pos(ij) : ij \in {c \in cells : b[pos(c)] # 0}}
         T    == CASE name \in {"w_reset", "w_muls"} -> K
                   [] name = "w_identity" -> K \cup {pos(ij) : ij \in {c \in cells : c[1] = c[2]}}
                   [] name = "w_map"      -> {pos(ij) : ij \in cells}
                   [] OTHER               -> K \cup NB
         at(k) == CHOOSE ij \in cells : pos(ij) = k
         base == IF name = "w_map" THEN vals[o] ELSE wk.vals
         nv   == TLCEval([k \in DOMAIN base \cup T |->
                    IF k \in T THEN BulkElem(name, at(k)[1], at(k)[2], Rd(base, k), b[k], x) ELSE base[k]])
         ni   == (IF name = "w_map" THEN index[o] ELSE wk.index) \cup (T \ DOMAIN base)
     IN /\ (name = "w_mdotm" => mv.h.rows > 0 /\ mv.h.cols > 0)
        /\ \A k \in DOMAIN nc : nc[k] \in Val
        /\ ValueStep(o, nc, nv, ni, sh)
        /\ ok' = (mv.h.rows = cv.vr /\ mv.h.cols = cv.vc /\ \A ij \in cells : pos(ij) = cv.map[ij])
        /\ UNCHANGED <<cit, mit>>
        /\ Record([Ev(name, o) EXCEPT !.w = FlatWord(word), !.p = IF name \in BulkOperandOps THEN bseq ELSE <<>>, !.x = x])

(* w := a fresh zero vector of length m as vector 2 (it gets its own history before it is appended) *)
New2(m) ==
  /\ "new2" \in Ops /\ MaxObj = 2 /\ Alive(1) /\ n[1] + m <= MaxN
  /\ n' = [n EXCEPT ![2] = m]
  /\ content' = [content EXCEPT ![2] = [i \in Idx(m) |-> 0]]
  /\ must' = {} /\ taint' = [o \in Objs |-> {}]
  /\ vals' = [vals EXCEPT ![2] = <<>>]
  /\ index' = [index EXCEPT ![2] = {}]
  /\ sh' = {}
  /\ cit' = KillIters(cit, {2}) /\ mit' = KillMits(mit, {2}) /\ ok' = TRUE
  /\ Record([Ev("new2", 2) EXCEPT !.i = m])
(* v = v.AppendVector(w) with w = vector 2 in whatever state its history left it (stored zeros, index keys  *)
(* without entry): APPEND iterates w (skip() purges w's null entries) and takes over w's non-null scalars.  *)
(* w is dropped afterwards (whether the result shares scalars with it is not promised).                     *)
AppendObj ==
  /\ "appendo" \in Ops /\ MaxObj = 2 /\ Alive(1) /\ Alive(2) /\ n[1] + n[2] <= MaxN
  /\ ~HasNil(vals[1]) /\ ~HasNil(vals[2])
  /\ LET m  == n[1]
         wk == FullWalk(vals[2], index[2])
         K  == {m + k : k \in KeysOfSeq(wk.seq)}
         nv == TLCEval([k \in DOMAIN vals[1] \cup K |-> IF k \in K THEN wk.vals[k - m] ELSE vals[1][k]])
     IN /\ n' = [o \in Objs |-> IF o = 1 THEN m + n[2] ELSE -1]
        /\ content' = [o \in Objs |-> IF o = 1 THEN CAppend(content[1], m, SeqOf(content[2], n[2])) ELSE <<>>]
        /\ must' = {} /\ taint' = [o \in Objs |-> {}]
        /\ vals' = [o \in Objs |-> IF o = 1 THEN nv ELSE <<>>]
        /\ index' = [o \in Objs |-> IF o = 1 THEN index[1] \cup K ELSE {}]
        /\ sh' = {}
  /\ cit' = KillIters(cit, {1, 2}) /\ mit' = KillMits(mit, {1, 2}) /\ ok' = TRUE
  /\ Record(Ev("appendo", 1))

(* a complete loop over v.JointIterator(w) *)
JointWalk(o, wseq) ==
  /\ "jwalk" \in Ops /\ Alive(o) /\ NoTag(o)
  /\ LET w  == FunOf(wseq)
         wk == FullWalk(vals[o], index[o])
         a  == Asc(KeysOfSeq(wk.seq) \cup NZ(w))
         got == IF a = <<>> THEN <<>> ELSE [t \in 1..Len(a) |-> <<a[t], Rd(wk.vals, a[t]), w[a[t]]>>]
     IN /\ ObsStep(o, wk.vals, wk.index, Prune(sh, o, DOMAIN wk.vals))
        /\ ok' = (got = CJointWalk(content[o], w))
  /\ UNCHANGED <<cit, mit>>
  /\ Record([Ev("jwalk", o) EXCEPT !.w = wseq, !.r = CJointWalk(content[o], FunOf(wseq))])

Next ==
  \/ \E o \in Objs :
       \/ \E i \in Idx(MaxN), x \in Val : Write(o, i, x)
       \/ Reset(o)
       \/ \E i, j \in Idx(MaxN) : Swap(o, i, j)
       \/ Reverse(o)
       \/ (Alive(o) /\ \E pi \in PermSeqs(n[o]) : Permute(o, pi))
       \/ \E rev \in BOOLEAN : Sort(o, rev)
       \/ (Alive(o) /\ \E w \in WSeqs(n[o]) : \E nm \in VecOps : Arith(nm, o, w, 0))
       \/ \E x \in Val : \E nm \in {"vmuls", "vadds", "vsubs"} : Arith(nm, o, <<>>, x)
       \/ \E x \in {-1, 1} : Arith("vdivs", o, <<>>, x)
       \/ \E nm \in SelfOps : Arith(nm, o, <<>>, 0)
       \/ \E j \in Iters : IterFrom(j, o, 0, "iter")
       \/ \E j \in Iters, i \in 1..(MaxN - 1) : i < n[o] /\ IterFrom(j, o, i, "from")
       \/ WalkAll(o)
       \/ (Alive(o) /\ \E w \in WSeqs(n[o]) : JointWalk(o, w))
  \/ \E j \in Iters : IterNext(j)
  \/ \E o \in Objs, i \in Idx(MaxN) : SetVar(o, i)
  \/ (Cols > 0 /\ \E o \in Objs : Alive(o) /\ n[o] > 0 /\
        \E word \in Words(ViewDepth, ViewT, n[o] \div Cols, Cols) :
           \/ ViewWalk(o, word, -1, 0)
           \/ (Len(word) <= 1 /\ \E fi \in 0..(MaxN - 1), fj \in 0..(Cols - 1) : ViewWalk(o, word, fi, fj))
           \/ (Len(word) >= 1 /\ \E i \in 0..(MaxN - 1), j \in 0..(MaxN - 1), x \in Val : ViewWrite(o, word, i, j, x))
           \/ (Len(word) >= 1 /\ \E nm \in {"w_reset", "w_identity", "w_map"} : ViewBulk(o, word, nm, <<>>, 0))
           \/ (Len(word) >= 1 /\ \E x \in Val : ViewBulk(o, word, "w_muls", <<>>, x))
           \/ (Len(word) >= 1 /\ \E nm \in BulkOperandOps : \E bseq \in BSeqs(n[o]) : ViewBulk(o, word, nm, bseq, 0)))
  \/ \E m \in 0..MaxN : New2(m)
  \/ AppendObj
  \/ \E a, b \in 0..MaxN : Slice1(a, b) \/ Slice2(a, b)
  \/ Promote
  \/ \E x \in Val : AppendScalar(x)
  \/ \E m \in 1..MaxN : \E w \in [1..m -> Val] : AppendVector(w)

Spec == Init /\ [][Next]_vars

(* ---------------------------------------------------------- invariants *)
TypeOK   == \A o \in Objs : Alive(o) => content[o] \in [Idx(n[o]) -> ValX]
(* every in-range read succeeds (no placeholder cell) and equals the dense model *)
ReadsOK  == \A o \in Objs : Alive(o) => \A i \in Idx(n[o]) : Rd(vals[o], i) = content[o][i]
NoNil    == \A o \in Objs : ~HasNil(vals[o])
(* a fresh complete iteration visits exactly the non-zero positions, ascending, once *)
IterOK   == \A o \in Objs : Alive(o) => FullWalk(vals[o], index[o]).seq = CWalk(content[o])
(* a live iterator stands where the contract says: Next lands on the next non-zero position *)
IterRefines == \A j \in Iters : /\ mit[j].live = cit[j].live
                                /\ mit[j].live => (mit[j].o = cit[j].o /\ mit[j].pos = cit[j].pos)
(* mechanism level: every cell holding a non-zero value is reachable through the index *)
LiveIndexed == \A o \in Objs : \A k \in DOMAIN vals[o] : vals[o][k] \notin {0, NilPtr} => k \in index[o]
InRange  == \A o \in Objs : IF Alive(o) THEN DOMAIN vals[o] \subseteq Idx(n[o]) /\ index[o] \subseteq Idx(n[o])
                            ELSE vals[o] = <<>> /\ index[o] = {}
(* the cells really shared: all the contract's must-pairs, beyond them only tainted zero positions *)
ShareOK  == /\ must \subseteq sh
            /\ \A pr \in sh : /\ MaxObj = 2 /\ Alive(1) /\ Alive(2)
                              /\ pr[1] \in DOMAIN vals[1] /\ pr[2] \in DOMAIN vals[2]
                              /\ vals[1][pr[1]] = vals[2][pr[2]]
                              /\ content[1][pr[1]] = content[2][pr[2]]
                              /\ \A pr2 \in sh : (pr2[1] = pr[1]) = (pr2[2] = pr[2])
                              /\ (pr \notin must => pr[1] \in taint[1] /\ pr[2] \in taint[2])
            /\ \A pr \in must : content[1][pr[1]] # 0
            /\ \A o \in Objs : \A i \in taint[o] : Alive(o) /\ i \in Idx(n[o]) /\ content[o][i] = 0
ResultOK == ok

(* ---------------------------------------------------- action properties *)
LastEv == hist'[Len(hist')]
Replacing == {"appends", "appendv", "appendo", "new2", "slice", "promote"}
(* the length changes only through Append (Slice creates a new vector) *)
DimFrame == [][\A o \in Objs : n'[o] = n[o] \/ LastEv.a \in Replacing]_vars
=============================================================================
