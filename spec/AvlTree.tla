------------------------------- MODULE AvlTree -------------------------------
(***************************************************************************)
(* MECHANISM layer for the ordered integer index (avl-tree.go), run as a   *)
(* product with the contract AvlSet.  The tree is a heap of nodes          *)
(* [val, bal, del, l, r, p]; insert/delete/deleteRec/replace/balance1/     *)
(* balance2 and the four VALUE-SWAPPING rotations are transcribed from the *)
(* code, as is the iterator {node, value} with its re-find rule (Next()    *)
(* re-locates through FindNodeLE(value+1) when its node was deleted or its *)
(* node's value changed under a rotation).                                 *)
(*                                                                         *)
(* Invariants: IsAvl (BST order, stored balance factor = height            *)
(* difference in -1..1, parent links, no tombstone reachable), Refines     *)
(* (key set = S, iterator position = contract position), return values.    *)
(*                                                                         *)
(* Case generation ("one implementation test per transition"): when Emit   *)
(* is TRUE every transition prints its history of calls and the contract   *)
(* observation after the last call as JSON; hist is excluded from the VIEW *)
(* and node identities are canonicalised away by it.                       *)
(***************************************************************************)
EXTENDS AvlSet, Sequences, TLC, Json

CONSTANTS Emit          \* print one replay case per transition

ASSUME NT = 1

MaxNodes == Cardinality(Keys) + NI + 1
Nil == 0
Ids == 1..MaxNodes

VARIABLES h, root,      \* node heap and root id
          mit,          \* mit[j] = [node, val] : mechanism state of iterator j
          hist          \* sequence of calls (excluded from VIEW)

mvars == <<h, root, mit, S, it, hist>>

Blank   == [val |-> 0, bal |-> 0, del |-> FALSE, l |-> Nil, r |-> Nil, p |-> Nil, used |-> FALSE]
Node(v) == [val |-> v, bal |-> 0, del |-> FALSE, l |-> Nil, r |-> Nil, p |-> Nil, used |-> TRUE]

SetL(hh, n, c) == LET h1 == [hh EXCEPT ![n].l = c] IN IF c # Nil THEN [h1 EXCEPT ![c].p = n] ELSE h1
SetR(hh, n, c) == LET h1 == [hh EXCEPT ![n].r = c] IN IF c # Nil THEN [h1 EXCEPT ![c].p = n] ELSE h1
SwapV(hh, a, b) == [hh EXCEPT ![a].val = hh[b].val, ![b].val = hh[a].val]
Alloc(hh) == CHOOSE i \in Ids : ~hh[i].used /\ \A j \in Ids : j < i => hh[j].used

(* ---- rotations (values are swapped so that the subtree root keeps its node) *)
RotLL(hh, o) ==
  LET a1 == hh[o].l  a2 == hh[o].r
      h1 == SetL(hh, o, hh[a1].l)
      h2 == SetR(h1, o, a1)
      h3 == SetL(h2, a1, h2[a1].r)
      h4 == SetR(h3, a1, a2)
      h5 == SwapV(h4, o, a1)
  IN [h5 EXCEPT ![h5[o].r].bal = 0, ![o].bal = 0]
RotRR(hh, o) ==
  LET a1 == hh[o].r  a2 == hh[o].l
      h1 == SetR(hh, o, hh[a1].r)
      h2 == SetL(h1, o, a1)
      h3 == SetR(h2, a1, h2[a1].l)
      h4 == SetL(h3, a1, a2)
      h5 == SwapV(h4, o, a1)
  IN [h5 EXCEPT ![h5[o].l].bal = 0, ![o].bal = 0]
RotLR(hh, o) ==
  LET a1 == hh[o].l  a2 == hh[a1].r
      h1 == SetR(hh, a1, hh[a2].l)
      h2 == SetL(h1, a2, h1[a2].r)
      h3 == SetR(h2, a2, h2[o].r)
      h4 == SetR(h3, o, a2)
      h5 == SwapV(h4, o, a2)
      b2 == h5[a2].bal
      h6 == [h5 EXCEPT ![h5[o].l].bal = IF b2 = 1 THEN -1 ELSE 0]
      h7 == [h6 EXCEPT ![h6[o].r].bal = IF b2 = -1 THEN 1 ELSE 0]
  IN [h7 EXCEPT ![o].bal = 0]
RotRL(hh, o) ==
  LET a1 == hh[o].r  a2 == hh[a1].l
      h1 == SetL(hh, a1, hh[a2].r)
      h2 == SetR(h1, a2, h1[a2].l)
      h3 == SetL(h2, a2, h2[o].l)
      h4 == SetL(h3, o, a2)
      h5 == SwapV(h4, o, a2)
      b2 == h5[a2].bal
      h6 == [h5 EXCEPT ![h5[o].r].bal = IF b2 = -1 THEN 1 ELSE 0]
      h7 == [h6 EXCEPT ![h6[o].l].bal = IF b2 = 1 THEN -1 ELSE 0]
  IN [h7 EXCEPT ![o].bal = 0]

(* ---- insert: returns [h, ok, bal] *)
RECURSIVE Ins(_, _, _, _)
Ins(hh, o, i, parent) ==
  IF o = Nil THEN
    IF i = hh[parent].val THEN [h |-> hh, ok |-> FALSE, bal |-> TRUE]
    ELSE LET n == Alloc(hh)
             h1 == [hh EXCEPT ![n] = Node(i)]
         IN [h |-> IF i < hh[parent].val THEN SetL(h1, parent, n) ELSE SetR(h1, parent, n),
             ok |-> TRUE, bal |-> FALSE]
  ELSE IF i < hh[o].val THEN
    LET r == Ins(hh, hh[o].l, i, o) IN
    IF ~r.ok THEN r
    ELSE IF r.bal THEN [h |-> r.h, ok |-> TRUE, bal |-> TRUE]
    ELSE CASE r.h[o].bal = 1  -> [h |-> [r.h EXCEPT ![o].bal = 0], ok |-> TRUE, bal |-> TRUE]
           [] r.h[o].bal = 0  -> [h |-> [r.h EXCEPT ![o].bal = -1], ok |-> TRUE, bal |-> FALSE]
           [] r.h[o].bal = -1 -> [h |-> IF r.h[r.h[o].l].bal = -1 THEN RotLL(r.h, o) ELSE RotLR(r.h, o),
                                  ok |-> TRUE, bal |-> TRUE]
  ELSE IF i > hh[o].val THEN
    LET r == Ins(hh, hh[o].r, i, o) IN
    IF ~r.ok THEN r
    ELSE IF r.bal THEN [h |-> r.h, ok |-> TRUE, bal |-> TRUE]
    ELSE CASE r.h[o].bal = -1 -> [h |-> [r.h EXCEPT ![o].bal = 0], ok |-> TRUE, bal |-> TRUE]
           [] r.h[o].bal = 0  -> [h |-> [r.h EXCEPT ![o].bal = 1], ok |-> TRUE, bal |-> FALSE]
           [] r.h[o].bal = 1  -> [h |-> IF r.h[r.h[o].r].bal = 1 THEN RotRR(r.h, o) ELSE RotRL(r.h, o),
                                  ok |-> TRUE, bal |-> TRUE]
  ELSE [h |-> hh, ok |-> FALSE, bal |-> TRUE]

(* ---- balance1/balance2 after a deletion: return [h, bal] *)
Balance1(hh, o, balanced) ==
  CASE hh[o].bal = -1 -> [h |-> [hh EXCEPT ![o].bal = 0], bal |-> balanced]
    [] hh[o].bal = 0  -> [h |-> [hh EXCEPT ![o].bal = 1], bal |-> TRUE]
    [] hh[o].bal = 1  ->
        LET b == hh[hh[o].r].bal IN
        IF b >= 0 THEN LET h1 == RotRR(hh, o) IN
             IF b = 0 THEN [h |-> [h1 EXCEPT ![o].bal = -1, ![h1[o].l].bal = 1], bal |-> TRUE]
             ELSE [h |-> h1, bal |-> balanced]
        ELSE [h |-> RotRL(hh, o), bal |-> balanced]
Balance2(hh, o, balanced) ==
  CASE hh[o].bal = 1  -> [h |-> [hh EXCEPT ![o].bal = 0], bal |-> balanced]
    [] hh[o].bal = 0  -> [h |-> [hh EXCEPT ![o].bal = -1], bal |-> TRUE]
    [] hh[o].bal = -1 ->
        LET b == hh[hh[o].l].bal IN
        IF b <= 0 THEN LET h1 == RotLL(hh, o) IN
             IF b = 0 THEN [h |-> [h1 EXCEPT ![o].bal = 1, ![h1[o].r].bal = -1], bal |-> TRUE]
             ELSE [h |-> h1, bal |-> balanced]
        ELSE [h |-> RotLR(hh, o), bal |-> balanced]

(* ---- deleteRec: detach the right-most node below o; returns [h, node, bal] *)
RECURSIVE DelRec(_, _, _)
DelRec(hh, o, parent) ==
  IF hh[o].r # Nil THEN
    LET r == DelRec(hh, hh[o].r, o) IN
    IF ~r.bal THEN LET b == Balance2(r.h, o, r.bal) IN [h |-> b.h, node |-> r.node, bal |-> b.bal]
    ELSE r
  ELSE
    [h |-> IF hh[o].val > hh[parent].val THEN SetR(hh, parent, hh[o].l) ELSE SetL(hh, parent, hh[o].l),
     node |-> o, bal |-> FALSE]

Replace(hh, o, n) ==
  LET h1 == [hh EXCEPT ![n].p = hh[o].p, ![n].bal = hh[o].bal]
      h2 == SetR(h1, n, h1[o].r)
      h3 == SetL(h2, n, h2[o].l)
  IN [h3 EXCEPT ![o].p = Nil, ![o].r = Nil, ![o].l = Nil]

(* ---- delete: returns [h, node, ok, bal] *)
RECURSIVE Del(_, _, _)
Del(hh, o, i) ==
  IF o = Nil THEN [h |-> hh, node |-> Nil, ok |-> FALSE, bal |-> TRUE]
  ELSE IF i < hh[o].val THEN
    LET r  == Del(hh, hh[o].l, i)
        h1 == IF r.ok THEN SetL(r.h, o, r.node) ELSE r.h
        b  == IF ~r.bal THEN Balance1(h1, o, r.bal) ELSE [h |-> h1, bal |-> r.bal]
    IN [h |-> b.h, node |-> o, ok |-> r.ok, bal |-> b.bal]
  ELSE IF i > hh[o].val THEN
    LET r  == Del(hh, hh[o].r, i)
        h1 == IF r.ok THEN SetR(r.h, o, r.node) ELSE r.h
        b  == IF ~r.bal THEN Balance2(h1, o, r.bal) ELSE [h |-> h1, bal |-> r.bal]
    IN [h |-> b.h, node |-> o, ok |-> r.ok, bal |-> b.bal]
  ELSE
    LET h0 == [hh EXCEPT ![o].del = TRUE] IN
    IF h0[o].r = Nil /\ h0[o].l = Nil THEN [h |-> h0, node |-> Nil, ok |-> TRUE, bal |-> FALSE]
    ELSE IF h0[o].r = Nil THEN [h |-> [h0 EXCEPT ![h0[o].l].p = Nil], node |-> h0[o].l, ok |-> TRUE, bal |-> FALSE]
    ELSE IF h0[o].l = Nil THEN [h |-> [h0 EXCEPT ![h0[o].r].p = Nil], node |-> h0[o].r, ok |-> TRUE, bal |-> FALSE]
    ELSE LET r  == DelRec(h0, h0[o].l, o)
             h1 == Replace(r.h, o, r.node)
             b  == IF ~r.bal THEN Balance1(h1, r.node, r.bal) ELSE [h |-> h1, bal |-> r.bal]
         IN [h |-> b.h, node |-> r.node, ok |-> TRUE, bal |-> b.bal]

(* FindNodeLE(i): despite its name, the node with the smallest value >= i *)
RECURSIVE FindLE(_, _, _, _)
FindLE(hh, n, i, best) ==
  IF n = Nil THEN best
  ELSE IF i < hh[n].val THEN FindLE(hh, hh[n].l, i, n)
  ELSE IF i > hh[n].val THEN FindLE(hh, hh[n].r, i, best)
  ELSE n
RECURSIVE Leftmost(_, _)
Leftmost(hh, n) == IF n = Nil THEN Nil ELSE IF hh[n].l = Nil THEN n ELSE Leftmost(hh, hh[n].l)
RECURSIVE Up(_, _)
Up(hh, n) == IF hh[n].p # Nil /\ hh[hh[n].p].r # Nil /\ hh[hh[n].p].r = n THEN Up(hh, hh[n].p) ELSE n

(* ---- structural predicates *)
RECURSIVE KeysOf(_, _)
KeysOf(hh, n) == IF n = Nil THEN {} ELSE KeysOf(hh, hh[n].l) \cup {hh[n].val} \cup KeysOf(hh, hh[n].r)
RECURSIVE Reach(_, _)
Reach(hh, n) == IF n = Nil THEN {} ELSE Reach(hh, hh[n].l) \cup {n} \cup Reach(hh, hh[n].r)
RECURSIVE Height(_, _)
Height(hh, n) == IF n = Nil THEN 0 ELSE 1 + Max({Height(hh, hh[n].l), Height(hh, hh[n].r)})

IsAvl == \A n \in Reach(h, root) :
           /\ h[n].bal = Height(h, h[n].r) - Height(h, h[n].l)
           /\ h[n].bal \in -1..1
           /\ \A k \in KeysOf(h, h[n].l) : k < h[n].val
           /\ \A k \in KeysOf(h, h[n].r) : k > h[n].val
           /\ (h[n].l # Nil => h[h[n].l].p = n)
           /\ (h[n].r # Nil => h[h[n].r].p = n)
           /\ ~h[n].del
RootOk == root # Nil => h[root].p = Nil
Refines == /\ KeysOf(h, root) = S[1]
           /\ Cardinality(Reach(h, root)) = Cardinality(S[1])
           /\ \A j \in Iters : it[j].live =>
                 (IF mit[j].node = Nil THEN it[j].cur = Done ELSE it[j].cur = mit[j].val)

(* garbage collection: free nodes neither reachable nor referenced by an iterator;
   a detached node keeps only val/del (the code reads nothing else once Deleted is set) *)
GC(hh, rt, mi) ==
  LET live == Reach(hh, rt)
      refd == {mi[j].node : j \in Iters}
  IN [n \in Ids |-> IF n \in live THEN hh[n]
                    ELSE IF n \in refd THEN [Blank EXCEPT !.val = hh[n].val, !.del = hh[n].del, !.used = TRUE]
                    ELSE Blank]

(* ---- canonical view: node identities do not matter *)
RECURSIVE Shape(_, _)
Shape(hh, n) == IF n = Nil THEN <<>> ELSE <<Shape(hh, hh[n].l), hh[n].val, hh[n].bal, Shape(hh, hh[n].r)>>
RECURSIVE PathTo(_, _, _)
PathTo(hh, n, rt) == IF n = rt THEN <<>> ELSE Append(PathTo(hh, hh[n].p, rt), IF hh[hh[n].p].l = n THEN 0 ELSE 1)
ItView(j) == IF ~it[j].live THEN <<"off">>
             ELSE IF mit[j].node = Nil THEN <<"nil">>
             ELSE IF mit[j].node \in Reach(h, root) THEN <<"in", PathTo(h, mit[j].node, root), mit[j].val>>
             ELSE <<"det", mit[j].val, h[mit[j].node].del>>
View == <<Shape(h, root), [j \in Iters |-> ItView(j)], S, it>>

(* ---- what the driver compares after the last call of a case *)
Obs(ret, SS, ii) == [ret |-> ret, S |-> SS[1],
                     its |-> [j \in Iters |-> [live |-> ii[j].live, cur |-> ii[j].cur]]]
Call(a, j, k) == [a |-> a, j |-> j, k |-> k]
Record(c, ret) == /\ hist' = Append(hist, c)
                  /\ (Emit => PrintT(ToJson([hist |-> hist', obs |-> Obs(ret, S', it')])))

Init == /\ h = [n \in Ids |-> Blank] /\ root = Nil
        /\ mit = [j \in Iters |-> [node |-> Nil, val |-> 0]]
        /\ SetInit /\ hist = <<>>

Insert(k) ==
  /\ IF root = Nil
     THEN /\ h' = [h EXCEPT ![Alloc(h)] = Node(k)] /\ root' = Alloc(h)
          /\ Assert(InsertRet(1, k), "insert into the empty tree returns true")
     ELSE LET r == Ins(h, root, k, Nil) IN
          /\ Assert(r.ok = InsertRet(1, k), <<"insert return value", k, S>>)
          /\ h' = r.h /\ root' = root
  /\ SetInsert(1, k)
  /\ UNCHANGED mit
  /\ Record(Call("ins", 0, k), InsertRet(1, k))

Delete(k) ==
  /\ IF root = Nil THEN UNCHANGED <<h, root>>
     ELSE LET r == Del(h, root, k) IN
          /\ Assert(r.ok = DeleteRet(1, k), <<"delete return value", k, S>>)
          /\ root' = IF r.ok THEN r.node ELSE root
          /\ h' = GC(r.h, root', mit)
  /\ SetDelete(1, k)
  /\ UNCHANGED mit
  /\ Record(Call("del", 0, k), DeleteRet(1, k))

NewIter(j) ==
  /\ LET n == Leftmost(h, root) IN
       /\ mit' = [mit EXCEPT ![j] = [node |-> n, val |-> IF n # Nil THEN h[n].val ELSE 0]]
       /\ h' = GC(h, root, mit')
  /\ SetIter(j, 1)
  /\ UNCHANGED root
  /\ Record(Call("iter", j, 0), TRUE)

IterFrom(j, k) ==
  /\ LET n == FindLE(h, root, k, Nil) IN
       /\ mit' = [mit EXCEPT ![j] = [node |-> n, val |-> IF n # Nil THEN h[n].val ELSE 0]]
       /\ h' = GC(h, root, mit')
  /\ SetIterFrom(j, 1, k)
  /\ UNCHANGED root
  /\ Record(Call("from", j, k), TRUE)

IterNext(j) ==
  /\ it[j].live
  /\ LET nd == mit[j].node
         n2 == IF nd = Nil THEN Nil
               ELSE IF h[nd].del \/ mit[j].val # h[nd].val THEN FindLE(h, root, mit[j].val + 1, Nil)
               ELSE IF h[nd].r # Nil THEN Leftmost(h, h[nd].r)
               ELSE LET u == Up(h, nd) IN IF h[u].p = Nil THEN Nil ELSE h[u].p
     IN /\ mit' = [mit EXCEPT ![j] = [node |-> n2, val |-> IF n2 # Nil THEN h[n2].val ELSE mit[j].val]]
        /\ h' = GC(h, root, mit')
  /\ SetNext(j)
  /\ UNCHANGED root
  /\ Record(Call("next", j, 0), TRUE)

(* AvlIterator.Clone(): the struct {tree, node, value} is copied *)
IterClone(j, j2) ==
  /\ j # j2 /\ it[j].live
  /\ mit' = [mit EXCEPT ![j2] = mit[j]]
  /\ h' = GC(h, root, mit')
  /\ SetIterClone(j, j2)
  /\ UNCHANGED root
  /\ Record(Call("iclone", j, j2), TRUE)

Next == \/ \E k \in Keys : Insert(k) \/ Delete(k)
        \/ \E j \in Iters : NewIter(j) \/ IterNext(j)
        \/ \E j \in Iters, k \in Keys : IterFrom(j, k)
        \/ \E j, j2 \in Iters : IterClone(j, j2)

Spec == Init /\ [][Next]_mvars
=============================================================================
