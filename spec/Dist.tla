-------------------------------- MODULE Dist --------------------------------
(***************************************************************************)
(* C14 - probability distributions are proper and consistent.             *)
(*                                                                         *)
(* CONTRACT LAYER, written from the textbook definition of every family    *)
(* under the parametrisation named by the constructor's doc comment, not   *)
(* from the LogPdf bodies.  For every family the module owns               *)
(*   - the VALIDITY predicate of a parameter tuple (exact rationals),      *)
(*   - the SUPPORT classification of an evaluation point (exact),          *)
(*   - the textbook LOG-DENSITY as a symbolic term (Expr.tla) over the     *)
(*     parameter variables x_1..x_np and the point x_np+1.., together with *)
(*     its derivative w.r.t. every differentiable parameter (Expr!D),      *)
(*   - the CDF term where the library offers Cdf/LogCdf,                   *)
(*   - the layout of the parameter vector (GetParameters/SetParameters),   *)
(*   - for discrete families the exact rational probability mass at every  *)
(*     support point up to a bound, and the model invariant Normalised     *)
(*     (sum of the masses = 1, proved by TLC over rationals).              *)
(*                                                                         *)
(* The state machine is the LIFE CYCLE of a distribution object:           *)
(*   New(f, p)  - constructor, rejects invalid parameter tuples            *)
(*   Set(w, q)  - SetParameters on the object (w=1) or on its clone (w=2)  *)
(*   Clone      - object 2 becomes an independent copy of object 1         *)
(*   Eval(w, x) - LogPdf (and Cdf/LogCdf) at x: observation only           *)
(* The abstract state is (family, index of the current parameter tuple of  *)
(* the object, index of the clone's tuple or 0).  Every transition of the  *)
(* state graph is printed as one replay case with the observation the      *)
(* contract demands; the Go driver rebuilds the source state through the   *)
(* public API (constructor, Clone, SetParameters), performs the call on    *)
(* the real object with Float64 and with Real64 parameters and compares.   *)
(***************************************************************************)
EXTENDS Expr, FiniteSets, Json

CONSTANTS Families,     \* the family names explored in this configuration
          CloneSets,    \* how many leading parameter tuples SetParameters may give to the CLONE
          Emit,         \* print replay cases
          Deep          \* thorough tier: larger parameter and evaluation grids

VARIABLES fam, a, b
vars == <<fam, a, b>>

(* ------------------------------------------------------------ rationals *)
I(n)     == RInt(n)
R(n, d)  == Rat(n, d)
Pos(r)   == r.n > 0
NonNeg(r) == r.n >= 0
IsInt(r) == r.d = 1
Cross2(A, B)    == {<<x, y>> : x \in A, y \in B}
Cross3(A, B, C) == {<<x, y, z>> : x \in A, y \in B, z \in C}

RECURSIVE SetSeq(_)
SetSeq(S) == IF S = {} THEN <<>>
             ELSE LET e == CHOOSE e \in S : TRUE IN <<e>> \o SetSeq(S \ {e})

(* ------------------------------------------------------ family catalogue *)
Continuous == {"normal", "laplace", "pareto", "gpareto", "gpareto0", "gev", "gev0", "gamma", "beta",
               "betalog", "cauchy", "chisq", "exponential", "gengamma", "powerlaw"}
Discrete   == {"binomial", "negbinomial", "poisson", "geometric", "categorical", "delta"}
Wrapped    == {"logt_normal", "logt_gamma", "trans_exp", "mix_normal_exp", "mix_exp_pareto",
               "iid_normal", "iid_exp", "id_normal_exp"}
Multi      == {"vnormal", "vt", "skewnormal", "iwishart"}
(* the same vector / matrix families and products at dimension 1 and 3 (3x3 matrices are *)
(* tridiagonal: entries a11 a12 a22 a23 a33, a13 = 0; InverseWishart 3x3: S diagonal)     *)
OddDim     == {"vnormal1", "vnormal3", "vt1", "vt3", "skewnormal1", "iid_normal1", "iid_normal3", "iid_exp3",
               "id_normal1", "id_nen3", "iwishart1", "iwishart3"}
(* mixtures (statistics/generic.Mixture behind the scalar, vector and matrix wrappers) with 1, 2 *)
(* and 3 components, un-normalised, very small and zero input weights, and a nested mixture     *)
(* hidden Markov models with 2 states over a sequence of length 2: scalar emissions (vector   *)
(* HMM, x = (x_1, x_2)) and 1-d vector emissions (matrix HMM, x = 2x1 matrix)                   *)
MixFams    == {"mix1_normal", "mix3_nen", "mixnest", "vmix1_vnormal", "vmix2_vn1", "mmix1_iw1", "mmix2_iw1",
               "hmm2_nn", "mhmm2_vn1"}
AllFamilies == Continuous \cup Discrete \cup Wrapped \cup Multi \cup OddDim \cup MixFams

(* number of scalar parameters (term variables x_1 .. x_NP) *)
NP(f) ==
  CASE f \in {"normal", "laplace", "pareto", "gpareto0", "gev0", "gamma", "beta", "betalog", "cauchy",
              "binomial", "negbinomial", "powerlaw", "trans_exp", "iid_normal"} -> 2
    [] f \in {"gpareto", "gev", "gengamma", "categorical", "logt_normal", "logt_gamma", "id_normal_exp"} -> 3
    [] f \in {"chisq", "exponential", "poisson", "geometric", "delta", "iid_exp"} -> 1
    [] f \in {"mix_normal_exp", "mix_exp_pareto", "vnormal"} -> 5
    [] f = "vt" -> 6
    [] f = "iwishart" -> 4
    [] f = "skewnormal" -> 9
    [] f \in {"vnormal1", "iid_normal1", "iid_normal3", "id_normal1", "iwishart1"} -> 2
    [] f = "vt1" -> 3
    [] f \in {"skewnormal1", "iwishart3"} -> 4
    [] f = "id_nen3" -> 5
    [] f = "vnormal3" -> 8
    [] f = "vt3" -> 9
    [] f = "iid_exp3" -> 1
    [] f \in {"mix1_normal", "mmix1_iw1"} -> 3
    [] f \in {"vmix1_vnormal", "vmix2_vn1", "mmix2_iw1"} -> 6
    [] f = "mix3_nen" -> 8
    [] f \in {"hmm2_nn", "mhmm2_vn1"} -> 10
    [] f = "mixnest" -> 9

(* dimension of the evaluation point *)
XDim(f) == CASE f \in {"iid_normal", "iid_exp", "id_normal_exp", "vnormal", "vt", "skewnormal"} -> 2
             [] f = "iwishart" -> 3        \* x11, x12 (= x21), x22
             [] f \in {"vnormal3", "vt3", "iid_normal3", "iid_exp3", "id_nen3"} -> 3
             [] f = "iwishart3" -> 5       \* x11, x12, x22, x23, x33 (x13 = 0)
             [] f \in {"vmix1_vnormal", "hmm2_nn", "mhmm2_vn1"} -> 2
             [] OTHER -> 1

P(i)      == X(i)
XV(f, j)  == X(NP(f) + j)

(* ------------------------------------------------------------- validity *)
(* Degenerate boundary values (p in {0,1} for                             *)
(* the Negative Binomial, zero mixture weights, a zero                     *)
(* probability in the Categorical) are neither required to be accepted nor *)
(* to be rejected: they do not occur in the grids.                         *)
SPD2(s11, s12, s22) == Pos(s11) /\ Pos(RSub(RMul(s11, s22), RMul(s12, s12)))
(* symmetric tridiagonal 3x3: leading principal minors *)
RDet3T(a11, a12, a22, a23, a33) == RSub(RMul(a11, RSub(RMul(a22, a33), RMul(a23, a23))), RMul(RMul(a12, a12), a33))
SPD3T(a11, a12, a22, a23, a33) == SPD2(a11, a12, a22) /\ Pos(RDet3T(a11, a12, a22, a23, a33))

Valid(f, p) ==
  CASE f \in {"normal", "laplace", "cauchy", "gpareto0", "gev0"} -> Pos(p[2])
    [] f \in {"gpareto", "gev"}   -> Pos(p[2]) /\ p[3].n # 0
    [] f \in {"pareto", "gamma", "beta", "betalog"} -> Pos(p[1]) /\ Pos(p[2])
    [] f = "gengamma"             -> Pos(p[1]) /\ Pos(p[2]) /\ Pos(p[3])
    [] f \in {"chisq", "exponential", "poisson"} -> Pos(p[1])
    [] f = "powerlaw"             -> RLt(I(1), p[1]) /\ Pos(p[2])
    [] f = "binomial"             -> NonNeg(p[1]) /\ RLe(p[1], I(1)) /\ IsInt(p[2]) /\ NonNeg(p[2])   \* theta in {0,1}: one atom
    [] f = "negbinomial"          -> Pos(p[1]) /\ Pos(p[2]) /\ RLt(p[2], I(1))
    [] f = "geometric"            -> Pos(p[1]) /\ RLe(p[1], I(1))     \* p = 1: all mass at 0
    [] f = "categorical"          -> Pos(p[1]) /\ Pos(p[2]) /\ Pos(p[3]) /\ REq(RAdd(p[1], RAdd(p[2], p[3])), I(1))
    [] f = "delta"                -> TRUE
    [] f = "logt_normal"          -> Pos(p[2]) /\ NonNeg(p[3])
    [] f = "logt_gamma"           -> Pos(p[1]) /\ Pos(p[2]) /\ NonNeg(p[3])
    [] f = "trans_exp"            -> Pos(p[1])
    [] f = "mix_normal_exp"       -> Pos(p[1]) /\ Pos(p[2]) /\ Pos(p[4]) /\ Pos(p[5])
    [] f = "mix_exp_pareto"       -> Pos(p[1]) /\ Pos(p[2]) /\ Pos(p[3]) /\ Pos(p[4]) /\ Pos(p[5])
    [] f = "iid_normal"           -> Pos(p[2])
    [] f = "iid_exp"              -> Pos(p[1])
    [] f = "id_normal_exp"        -> Pos(p[2]) /\ Pos(p[3])
    [] f = "vnormal"              -> SPD2(p[3], p[4], p[5])
    [] f = "vt"                   -> Pos(p[1]) /\ SPD2(p[4], p[5], p[6])
    [] f = "iwishart"             -> RLt(I(1), p[1]) /\ SPD2(p[2], p[3], p[4])
    [] f = "skewnormal"           -> SPD2(p[3], p[4], p[5]) /\ Pos(p[8]) /\ Pos(p[9])
    [] f \in {"vnormal1", "iid_normal1", "iid_normal3", "id_normal1"} -> Pos(p[2])
    [] f = "vt1"                  -> Pos(p[1]) /\ Pos(p[3])
    [] f = "skewnormal1"          -> Pos(p[2]) /\ Pos(p[4])
    [] f = "iid_exp3"             -> Pos(p[1])
    [] f = "id_nen3"              -> Pos(p[2]) /\ Pos(p[3]) /\ Pos(p[5])
    [] f = "vnormal3"             -> SPD3T(p[4], p[5], p[6], p[7], p[8])
    [] f = "vt3"                  -> Pos(p[1]) /\ SPD3T(p[5], p[6], p[7], p[8], p[9])
    [] f = "iwishart1"            -> Pos(p[1]) /\ Pos(p[2])                 \* nu > d-1 = 0
    [] f = "iwishart3"            -> RLt(I(2), p[1]) /\ Pos(p[2]) /\ Pos(p[3]) /\ Pos(p[4])
    (* mixtures: weights are non-negative, not all zero (a single zero weight is not used) *)
    [] f = "mix1_normal"          -> Pos(p[1]) /\ Pos(p[3])
    [] f = "mix3_nen"             -> NonNeg(p[1]) /\ NonNeg(p[2]) /\ NonNeg(p[3]) /\ Pos(RAdd(p[1], RAdd(p[2], p[3])))
                                     /\ Pos(p[5]) /\ Pos(p[6]) /\ Pos(p[8])
    [] f = "mixnest"              -> Pos(p[1]) /\ Pos(p[2]) /\ Pos(p[3]) /\ Pos(p[4]) /\ Pos(p[6]) /\ Pos(p[7]) /\ Pos(p[9])
    [] f = "vmix1_vnormal"        -> Pos(p[1]) /\ SPD2(p[4], p[5], p[6])
    [] f = "vmix2_vn1"            -> Pos(p[1]) /\ Pos(p[2]) /\ Pos(p[4]) /\ Pos(p[6])
    [] f = "mmix1_iw1"            -> Pos(p[1]) /\ Pos(p[2]) /\ Pos(p[3])
    [] f = "mmix2_iw1"            -> Pos(p[1]) /\ Pos(p[2]) /\ Pos(p[3]) /\ Pos(p[4]) /\ Pos(p[5]) /\ Pos(p[6])
    (* pi_1 pi_2 | t_11 t_12 t_21 t_22 (un-normalised, positive) | emission parameters *)
    [] f \in {"hmm2_nn", "mhmm2_vn1"} -> (\A i \in 1..6 : Pos(p[i])) /\ Pos(p[8]) /\ Pos(p[10])

(* why a tuple is invalid, where the reason matters for a known finding: a   *)
(* positive SEMI-definite (singular) scale matrix is not a valid parameter     *)
InvalidWhy(f, p) ==
  IF f = "iwishart3" /\ RLt(I(2), p[1]) /\ NonNeg(p[2]) /\ NonNeg(p[3]) /\ NonNeg(p[4])
  THEN "singular_scale" ELSE "invalid"

(* ------------------------------------------------------ parameter grids *)
(* small rationals including boundary-near shapes (shape < 1, = 1, > 1)   *)
(* and a few tuples the constructor has to reject                         *)
Locs   == {I(-1), I(0), R(1, 2)} \cup (IF Deep THEN {I(-2), R(3, 2)} ELSE {})
Scales == {R(1, 2), I(1), I(2)} \cup (IF Deep THEN {R(1, 4), I(3)} ELSE {})
BadScales == {I(0), I(-1)}
Shapes == {R(1, 2), I(1), I(2), I(5)} \cup (IF Deep THEN {R(1, 4), R(3, 2), I(10)} ELSE {})

(* additional tuples of the thorough tier *)
DeepExtra(f) ==
  CASE f = "pareto"      -> Cross2({R(1, 4), I(3)}, {R(1, 4), I(2), I(5)})
    [] f = "gpareto"     -> Cross3({I(-1)}, {I(1)}, {R(1, 4), I(2), R(-3, 4), I(-1), I(-2)})
    [] f = "gev"         -> Cross3({I(-1)}, {I(1)}, {R(1, 4), I(2), R(-3, 4), I(-1), I(-2)})
    [] f = "exponential" -> {<<R(1, 8)>>, <<I(10)>>}
    [] f = "gengamma"    -> Cross3({R(1, 2)}, {I(2), I(5)}, {I(1), I(3)})
    [] f = "powerlaw"    -> Cross2({R(11, 10), I(5)}, {R(1, 4), I(3)})
    [] f = "binomial"    -> Cross2({R(1, 3), R(2, 3)}, {I(2), I(3), I(5)})
    [] f = "negbinomial" -> Cross2({I(4), R(3, 2)}, {R(1, 3), R(2, 3)})
    [] f = "geometric"   -> {<<R(1, 3)>>, <<R(2, 3)>>, <<R(1, 8)>>}
    [] f = "chisq"       -> {<<I(5)>>, <<I(10)>>, <<R(3, 2)>>}
    [] f = "cauchy"      -> {}
    [] f = "vnormal"     -> {<<I(1), I(-1), I(3), I(1), I(1)>>, <<R(1, 2), I(0), I(1), R(1, 2), I(1)>>, <<I(0), I(0), I(5), I(-3), I(2)>>}
    [] f = "vt"          -> {<<I(2), I(1), I(-1), I(3), I(1), I(1)>>, <<I(5), I(0), I(0), I(1), R(1, 2), I(1)>>, <<R(3, 2), I(0), I(0), I(5), I(-3), I(2)>>}
    [] f = "iwishart"    -> {<<I(4), I(3), I(1), I(1)>>, <<R(5, 2), I(1), R(1, 2), I(1)>>, <<I(7), I(5), I(-3), I(2)>>}
    [] OTHER -> {}

ParamSet0(f) ==
  CASE f \in {"normal", "laplace", "cauchy"} -> Cross2(Locs, Scales) \cup Cross2({I(0)}, BadScales)
    [] f = "pareto"      -> Cross2({R(1, 2), I(1), I(2)}, {R(1, 2), I(1), I(3)}) \cup {<<I(0), I(1)>>, <<I(1), I(0)>>, <<I(-1), I(2)>>, <<I(1), R(-1, 2)>>}
    [] f = "gpareto"     -> Cross3({I(0), I(1)}, {R(1, 2), I(2)}, {R(1, 2), I(1), R(-1, 2), R(-1, 4)}) \cup {<<I(0), I(0), I(1)>>, <<I(0), I(-1), R(-1, 2)>>}
    [] f = "gpareto0"    -> Cross2({I(0), I(1), I(-1)}, Scales) \cup Cross2({I(0)}, BadScales)
    [] f = "gev"         -> Cross3({I(0), I(1)}, {R(1, 2), I(2)}, {R(1, 2), I(1), R(-1, 2), R(-1, 4)}) \cup {<<I(0), I(0), I(1)>>, <<I(0), I(-1), R(-1, 2)>>}
    [] f = "gev0"        -> Cross2({I(0), I(1), I(-1)}, Scales) \cup Cross2({I(0)}, BadScales)
    [] f = "gamma"       -> Cross2(Shapes, {R(1, 2), I(1), I(3)}) \cup {<<I(0), I(1)>>, <<I(1), I(0)>>, <<I(-1), I(1)>>, <<I(2), I(-1)>>}
    [] f \in {"beta", "betalog"} -> Cross2({R(1, 2), I(1), I(2), I(3)}, {R(1, 2), I(1), I(3)}) \cup {<<I(0), I(1)>>, <<I(1), I(0)>>, <<I(-1), I(2)>>, <<I(2), I(-1)>>}
    [] f = "chisq"       -> {<<I(1)>>, <<I(2)>>, <<I(3)>>, <<I(4)>>, <<R(1, 2)>>, <<I(7)>>, <<I(0)>>, <<I(-1)>>, <<I(-2)>>}
    [] f = "exponential" -> {<<R(1, 4)>>, <<R(1, 2)>>, <<I(1)>>, <<I(2)>>, <<I(5)>>, <<I(0)>>, <<I(-1)>>}
    [] f = "gengamma"    -> Cross3({I(1), I(2)}, {R(1, 2), I(1), I(3)}, {R(1, 2), I(2)}) \cup {<<I(0), I(1), I(1)>>, <<I(1), I(0), I(1)>>, <<I(1), I(1), I(0)>>, <<I(1), I(-1), I(2)>>}
    [] f = "powerlaw"    -> Cross2({R(3, 2), I(2), I(3), R(5, 4)}, {R(1, 2), I(1), I(2)}) \cup {<<I(1), I(1)>>, <<R(1, 2), I(1)>>, <<I(0), I(1)>>, <<I(-1), I(1)>>, <<I(2), I(0)>>, <<I(2), I(-1)>>}
    [] f = "binomial"    -> Cross2({R(1, 4), R(1, 2), R(3, 4), R(1, 10)}, {I(0), I(1), I(4), I(6)}) \cup Cross2({I(0), I(1)}, {I(0), I(3)})
                            \cup {<<R(-1, 4), I(3)>>, <<R(5, 4), I(3)>>, <<R(1, 2), I(-1)>>}
    [] f = "negbinomial" -> Cross2({I(1), I(2), I(3), R(1, 2), R(5, 2)}, {R(1, 4), R(1, 2), R(3, 4)}) \cup {<<I(0), R(1, 2)>>, <<I(-1), R(1, 2)>>, <<I(2), R(-1, 4)>>, <<I(2), R(5, 4)>>}
    [] f = "poisson"     -> {<<R(1, 2)>>, <<I(1)>>, <<I(2)>>, <<I(3)>>, <<I(5)>>, <<I(0)>>, <<I(-1)>>}
    [] f = "geometric"   -> {<<R(1, 10)>>, <<R(1, 4)>>, <<R(1, 2)>>, <<R(3, 4)>>, <<R(9, 10)>>, <<I(1)>>, <<I(0)>>, <<R(-1, 4)>>, <<R(5, 4)>>}
    [] f = "categorical" -> {<<R(1, 4), R(1, 4), R(1, 2)>>, <<R(1, 3), R(1, 3), R(1, 3)>>, <<R(1, 10), R(1, 5), R(7, 10)>>, <<R(1, 2), R(3, 8), R(1, 8)>>,
                             <<R(-1, 4), R(3, 4), R(1, 2)>>, <<R(1, 2), R(-1, 2), I(1)>>}
    [] f = "delta"       -> {<<I(0)>>, <<I(1)>>, <<R(-1, 2)>>}
    [] f = "logt_normal" -> Cross3({I(0), I(1)}, {R(1, 2), I(1)}, {I(0), I(1)}) \cup {<<I(0), I(0), I(1)>>, <<I(0), I(-1), I(0)>>}
    [] f = "logt_gamma"  -> Cross3({R(1, 2), I(2)}, {I(1), I(2)}, {I(0), I(1)}) \cup {<<I(0), I(1), I(1)>>, <<I(1), I(-1), I(0)>>}
    [] f = "trans_exp"   -> Cross2({R(1, 2), I(1), I(3)}, {I(-1), I(0), R(1, 2)}) \cup {<<I(0), I(1)>>, <<I(-1), I(0)>>}
    [] f = "mix_normal_exp" -> {<<w1, w2, I(0), s, l>> : w1 \in {R(1, 4), I(1)}, w2 \in {R(3, 4), I(3)}, s \in {R(1, 2), I(1)}, l \in {I(2)}}
                               \cup {<<R(1, 2), R(1, 2), I(1), I(2), R(1, 2)>>, <<R(-1, 2), R(3, 2), I(0), I(1), I(1)>>, <<R(1, 2), R(1, 2), I(0), I(-1), I(1)>>, <<R(1, 2), R(1, 2), I(0), I(1), I(0)>>}
    [] f = "mix_exp_pareto" -> {<<w1, w2, l, I(1), k>> : w1 \in {R(1, 4), I(2)}, w2 \in {R(3, 4), I(1)}, l \in {R(1, 2), I(2)}, k \in {I(2)}}
                               \cup {<<R(1, 2), R(1, 2), I(1), I(2), R(1, 2)>>, <<R(1, 2), R(-1, 2), I(1), I(1), I(1)>>, <<R(1, 2), R(1, 2), I(1), I(0), I(1)>>}
    [] f = "iid_normal"  -> Cross2({I(0), I(1)}, Scales) \cup {<<I(0), I(0)>>, <<I(0), I(-1)>>}
    [] f = "iid_exp"     -> {<<R(1, 2)>>, <<I(1)>>, <<I(3)>>, <<I(0)>>, <<I(-2)>>}
    [] f = "id_normal_exp" -> Cross3({I(0), I(1)}, {R(1, 2), I(2)}, {R(1, 2), I(3)}) \cup {<<I(0), I(0), I(1)>>, <<I(0), I(1), I(-1)>>}
    [] f = "vnormal"     -> {<<m1, I(1), s[1], s[2], s[3]>> : m1 \in {I(0), I(-1)}, s \in {<<I(1), I(0), I(1)>>, <<I(2), I(1), I(1)>>, <<I(2), I(-1), I(3)>>, <<I(4), I(2), I(2)>>}}
                            \cup {<<I(0), I(0), I(1), I(2), I(1)>>, <<I(0), I(0), I(1), I(1), I(1)>>, <<I(0), I(0), I(-1), I(0), I(1)>>}
    [] f = "vt"          -> {<<nu, I(0), I(1), s[1], s[2], s[3]>> : nu \in {R(1, 2), I(1), I(3)}, s \in {<<I(1), I(0), I(1)>>, <<I(2), I(1), I(1)>>, <<I(2), I(-1), I(3)>>}}
                            \cup {<<I(1), I(0), I(0), I(1), I(2), I(1)>>, <<I(0), I(0), I(0), I(1), I(0), I(1)>>, <<I(-1), I(0), I(0), I(1), I(0), I(1)>>}
    [] f = "iwishart"    -> {<<nu, s[1], s[2], s[3]>> : nu \in {R(3, 2), I(2), I(3), I(5)}, s \in {<<I(1), I(0), I(1)>>, <<I(2), I(1), I(1)>>, <<I(2), I(-1), I(3)>>}}
                            \cup {<<I(3), I(1), I(2), I(1)>>, <<I(1), I(1), I(0), I(1)>>, <<R(1, 2), I(1), I(0), I(1)>>}
    [] f = "skewnormal"  -> {<<I(0), m2, o[1], o[2], o[3], al[1], al[2], I(1), sc>> :
                                m2 \in {I(1)}, o \in {<<I(1), I(0), I(1)>>, <<I(2), I(1), I(1)>>}, al \in {<<I(0), I(0)>>, <<I(1), I(-2)>>, <<I(3), I(1)>>}, sc \in {I(1), I(2)}}
                            \cup {<<I(0), I(0), I(1), I(2), I(1), I(1), I(1), I(1), I(1)>>}


Tri3 == {<<I(1), I(0), I(1), I(0), I(1)>>, <<I(2), I(1), I(2), I(-1), I(3)>>, <<I(4), I(-1), I(1), R(1, 2), I(2)>>}
ParamSetOdd(f) ==
  CASE f = "vnormal1"    -> Cross2({I(0), R(-1, 2)}, {R(1, 2), I(1), I(3)}) \cup {<<I(0), I(0)>>, <<I(0), I(-1)>>}
    [] f = "vnormal3"    -> {<<m1, I(1), R(-1, 2)>> \o t : m1 \in {I(0), I(2)}, t \in Tri3}
                            \cup {<<I(0), I(0), I(0), I(1), I(2), I(1), I(0), I(1)>>, <<I(0), I(0), I(0), I(1), I(0), I(1), I(1), I(1)>>}
    [] f = "vt1"         -> Cross3({R(1, 2), I(1), I(4)}, {I(0)}, {R(1, 2), I(2)}) \cup {<<I(1), I(1), I(1)>>, <<I(0), I(0), I(1)>>, <<I(-1), I(0), I(1)>>, <<I(1), I(0), I(-1)>>}
    [] f = "vt3"         -> {<<nu, I(0), I(1), R(-1, 2)>> \o t : nu \in {R(1, 2), I(3)}, t \in Tri3}
                            \cup {<<I(0), I(0), I(0), I(0), I(1), I(0), I(1), I(0), I(1)>>, <<I(1), I(0), I(0), I(0), I(1), I(2), I(1), I(0), I(1)>>}
    [] f = "skewnormal1" -> {<<I(0), o, al, sc>> : o \in {I(1), I(2)}, al \in {I(0), I(-2), I(3)}, sc \in {I(1), R(1, 2)}}
                            \cup {<<I(0), I(-1), I(1), I(1)>>, <<I(0), I(0), I(1), I(1)>>}
    [] f \in {"iid_normal1", "iid_normal3", "id_normal1"} -> Cross2({I(0), I(1)}, {R(1, 2), I(2)}) \cup {<<I(0), I(0)>>, <<I(0), I(-1)>>}
    [] f = "iid_exp3"    -> {<<R(1, 2)>>, <<I(1)>>, <<I(3)>>, <<I(0)>>, <<I(-2)>>}
    [] f = "id_nen3"     -> {<<I(0), s, l, I(1), I(2)>> : s \in {R(1, 2), I(1)}, l \in {R(1, 2), I(3)}}
                            \cup {<<I(0), I(0), I(1), I(0), I(1)>>, <<I(0), I(1), I(-1), I(0), I(1)>>, <<I(0), I(1), I(1), I(0), I(0)>>}
    [] f = "iwishart1"   -> Cross2({R(1, 2), I(1), I(3)}, {R(1, 2), I(2)}) \cup {<<I(0), I(1)>>, <<I(-1), I(1)>>, <<I(2), I(-1)>>}
    [] f = "iwishart3"   -> {<<nu, d[1], d[2], d[3]>> : nu \in {R(5, 2), I(3), I(5)}, d \in {<<I(1), I(1), I(1)>>, <<I(2), I(1), I(3)>>}}
                            \cup {<<I(2), I(1), I(1), I(1)>>, <<I(1), I(1), I(1), I(1)>>, <<I(3), I(1), I(0), I(1)>>, <<I(3), I(-1), I(1), I(1)>>}
    [] OTHER -> {}

Tiny == R(1, 1000000)
ParamSetMix(f) ==
  CASE f = "mix1_normal"   -> Cross3({I(1), R(1, 2), I(3), Tiny}, {I(0), I(1)}, {I(1), I(2)}) \cup {<<I(-1), I(0), I(1)>>, <<R(1, 2), I(0), I(0)>>}
    [] f = "mix3_nen"      -> {<<w[1], w[2], w[3], I(0), s, I(2), I(1), I(2)>> :
                                 w \in {<<R(1, 4), R(1, 4), R(1, 2)>>, <<I(1), I(2), I(3)>>, <<I(2), I(0), I(1)>>, <<Tiny, I(1), I(1)>>, <<I(0), I(0), I(5)>>},
                                 s \in {R(1, 2), I(1)}}
                              \cup {<<I(1), I(-1), I(1), I(0), I(1), I(1), I(0), I(1)>>, <<I(1), I(1), I(1), I(0), I(-1), I(1), I(0), I(1)>>,
                                    <<I(1), I(1), I(1), I(0), I(1), I(0), I(0), I(1)>>}
    [] f = "mixnest"       -> {<<v[1], v[2], w[1], w[2], I(0), I(1), l, I(1), R(1, 2)>> :
                                 v \in {<<R(1, 2), R(1, 2)>>, <<I(3), I(1)>>}, w \in {<<R(1, 4), R(3, 4)>>, <<I(2), I(1)>>}, l \in {I(1), I(3)}}
                              \cup {<<I(1), I(1), I(-1), I(1), I(0), I(1), I(1), I(1), I(1)>>, <<I(-1), I(1), I(1), I(1), I(0), I(1), I(1), I(1), I(1)>>,
                                    <<I(1), I(1), I(1), I(1), I(0), I(1), I(1), I(1), I(0)>>}
    [] f = "vmix1_vnormal" -> {<<w, I(0), I(1), c[1], c[2], c[3]>> : w \in {I(1), R(1, 2), I(3), Tiny}, c \in {<<I(1), I(0), I(1)>>, <<I(2), I(1), I(1)>>}}
                              \cup {<<I(-1), I(0), I(0), I(1), I(0), I(1)>>, <<I(1), I(0), I(0), I(1), I(2), I(1)>>}
    [] f = "vmix2_vn1"     -> {<<w[1], w[2], I(0), s, I(1), I(2)>> : w \in {<<R(1, 4), R(3, 4)>>, <<I(3), I(1)>>, <<Tiny, I(1)>>}, s \in {R(1, 2), I(1)}}
                              \cup {<<I(1), I(-1), I(0), I(1), I(1), I(2)>>, <<I(1), I(1), I(0), I(0), I(1), I(2)>>}
    [] f = "mmix1_iw1"     -> Cross3({I(1), R(1, 2), I(3)}, {I(1), I(3)}, {R(1, 2), I(2)}) \cup {<<I(-1), I(1), I(1)>>, <<I(1), I(0), I(1)>>}
    [] f = "mmix2_iw1"     -> {<<w[1], w[2], I(1), s, I(3), I(2)>> : w \in {<<R(1, 4), R(3, 4)>>, <<I(3), I(1)>>, <<Tiny, I(1)>>}, s \in {R(1, 2), I(1)}}
                              \cup {<<I(1), I(-1), I(1), I(1), I(3), I(2)>>, <<I(1), I(1), I(0), I(1), I(3), I(2)>>}

HmmW == {<<R(1, 2), R(1, 2), R(1, 2), R(1, 2), R(1, 4), R(3, 4)>>, <<I(1), I(3), I(2), I(1), I(1), I(1)>>, <<I(1), Tiny, R(9, 10), R(1, 10), I(3), I(1)>>}
ParamSetHmm(f) == {w \o <<I(0), s, I(1), I(2)>> : w \in HmmW, s \in {R(1, 2), I(1)}}
                  \cup {<<I(1), I(1), I(1), I(1), I(1), I(1), I(0), I(0), I(1), I(1)>>, <<I(1), I(1), I(1), I(1), I(1), I(1), I(0), I(1), I(1), I(-1)>>}

ParamSet(f) == IF f \in {"hmm2_nn", "mhmm2_vn1"} THEN ParamSetHmm(f) ELSE IF f \in MixFams THEN ParamSetMix(f) ELSE IF f \in OddDim THEN ParamSetOdd(f) ELSE ParamSet0(f) \cup (IF Deep THEN DeepExtra(f) ELSE {})

(* valid tuples first (the driver and the Set/Clone actions address them by index) *)
ParamList(f) == SetSeq({p \in ParamSet(f) : Valid(f, p)}) \o SetSeq({p \in ParamSet(f) : ~Valid(f, p)})
PL      == [f \in AllFamilies |-> ParamList(f)]
NValid  == [f \in AllFamilies |-> Cardinality({p \in ParamSet(f) : Valid(f, p)})]

(* --------------------------------------------------------------- support *)
(* "in": inside the support (finite log-density equal to the term);         *)
(* "out": outside (exactly -Inf); "bd": boundary point of the support where *)
(* the textbooks differ or the density has a pole/zero (-Inf, +Inf or the   *)
(* value of the term, never NaN); "nonint": non-integer argument of a       *)
(* discrete family (-Inf or an error, never a finite value); "reject": not  *)
(* an admissible argument at all (non positive definite matrix)             *)
GevT(p, x) == RAdd(I(1), RDiv(RMul(p[3], RSub(x, p[1])), p[2]))

Supp(f, p, xs) ==
  LET x == xs[1] IN
  CASE f \in {"normal", "laplace", "cauchy", "gev0", "iid_normal", "vnormal", "vt", "skewnormal", "mix_normal_exp"} -> "in"
    [] f = "pareto"      -> IF RLt(x, p[1]) THEN "out" ELSE "in"
    [] f = "gpareto"     -> IF RLt(x, p[1]) THEN "out"
                            ELSE IF p[3].n > 0 THEN "in"
                            ELSE LET ub == RSub(p[1], RDiv(p[2], p[3])) IN
                                 IF RLt(ub, x) THEN "out" ELSE IF REq(ub, x) THEN "bd" ELSE "in"
    [] f = "gpareto0"    -> IF RLt(x, p[1]) THEN "out" ELSE "in"
    [] f = "gev"         -> LET t == GevT(p, x) IN IF t.n < 0 THEN "out" ELSE IF t.n = 0 THEN "bd" ELSE "in"
    [] f \in {"gamma", "gengamma", "chisq"} -> IF x.n < 0 THEN "out" ELSE IF x.n = 0 THEN "bd" ELSE "in"
    [] f = "beta"        -> IF x.n < 0 \/ RLt(I(1), x) THEN "out" ELSE IF x.n = 0 \/ REq(x, I(1)) THEN "bd" ELSE "in"
    [] f = "betalog"     -> IF x.n > 0 THEN "out" ELSE IF x.n = 0 THEN "bd" ELSE "in"
    [] f = "exponential" -> IF x.n < 0 THEN "out" ELSE "in"
    [] f = "powerlaw"    -> IF RLt(x, p[2]) THEN "out" ELSE "in"
    [] f = "binomial"    -> IF ~IsInt(x) THEN "nonint" ELSE IF x.n < 0 \/ RLt(p[2], x) THEN "out"
                            ELSE IF p[1].n = 0 /\ x.n > 0 THEN "out"               \* theta = 0: all mass at 0
                            ELSE IF REq(p[1], I(1)) /\ RLt(x, p[2]) THEN "out"     \* theta = 1: all mass at n
                            ELSE "in"
    [] f \in {"negbinomial", "poisson"} -> IF ~IsInt(x) THEN "nonint" ELSE IF x.n < 0 THEN "out" ELSE "in"
    [] f = "geometric"   -> IF ~IsInt(x) THEN "nonint" ELSE IF x.n < 0 THEN "out"
                            ELSE IF REq(p[1], I(1)) /\ x.n > 0 THEN "out" ELSE "in"
    [] f = "categorical" -> IF ~IsInt(x) THEN "nonint" ELSE IF x.n < 0 \/ x.n > 2 THEN "out" ELSE "in"
    [] f = "delta"       -> IF REq(x, p[1]) THEN "in" ELSE "out"
    [] f = "logt_normal" -> IF x.n < 0 THEN "out" ELSE IF RAdd(x, p[3]).n = 0 THEN "out" ELSE "in"
    [] f = "logt_gamma"  -> IF x.n < 0 THEN "out"
                            ELSE IF RLt(RAdd(x, p[3]), I(1)) THEN "out"
                            ELSE IF REq(RAdd(x, p[3]), I(1)) THEN "bd" ELSE "in"
    [] f = "trans_exp"   -> IF RAdd(x, p[2]).n < 0 THEN "out" ELSE "in"
    [] f = "mix_exp_pareto" -> IF x.n < 0 THEN "out" ELSE "in"
    [] f = "iid_exp"     -> IF xs[1].n < 0 \/ xs[2].n < 0 THEN "out" ELSE "in"
    [] f = "id_normal_exp" -> IF xs[2].n < 0 THEN "out" ELSE "in"
    [] f = "iwishart"    -> IF SPD2(xs[1], xs[2], xs[3]) THEN "in" ELSE "reject"
    [] f \in {"vnormal1", "vnormal3", "vt1", "vt3", "skewnormal1", "iid_normal1", "iid_normal3", "id_normal1"} -> "in"
    [] f = "iid_exp3"    -> IF xs[1].n < 0 \/ xs[2].n < 0 \/ xs[3].n < 0 THEN "out" ELSE "in"
    [] f = "id_nen3"     -> IF xs[2].n < 0 THEN "out" ELSE "in"
    [] f = "iwishart1"   -> IF Pos(x) THEN "in" ELSE "reject"
    [] f \in {"mix1_normal", "mix3_nen", "mixnest", "vmix1_vnormal", "vmix2_vn1", "hmm2_nn", "mhmm2_vn1"} -> "in"
    [] f \in {"mmix1_iw1", "mmix2_iw1"} -> IF Pos(x) THEN "in" ELSE "reject"
    [] f = "iwishart3"   -> IF SPD3T(xs[1], xs[2], xs[3], xs[4], xs[5]) THEN "in" ELSE "reject"

Class(s) == CASE s = "in" -> "finite" [] s = "out" -> "neginf" [] s = "bd" -> "boundary"
              [] s = "nonint" -> "nonint" [] s = "reject" -> "reject"

(* formula variant that applies at the point (mixtures: which components    *)
(* contain x in their support; categorical: which probability)              *)
Variants(f) == CASE f = "categorical"    -> <<"k0", "k1", "k2">>
                 [] f = "geometric"      -> <<"std", "p1">>
                 [] f = "binomial"       -> <<"std", "t0", "t1">>
                 [] f = "mix_normal_exp" -> <<"a", "ab">>
                 [] f = "mix_exp_pareto" -> <<"a", "ab">>
                 [] f = "mix3_nen"       -> <<"ac", "abc">>
                 [] f = "mixnest"        -> <<"a", "ab">>
                 [] OTHER -> <<"std">>
Variant(f, p, xs) ==
  CASE f = "categorical"    -> IF IsInt(xs[1]) /\ xs[1].n \in 0..2 THEN <<"k0", "k1", "k2">>[xs[1].n + 1] ELSE "k0"
    [] f = "mix_normal_exp" -> IF xs[1].n < 0 THEN "a" ELSE "ab"
    [] f = "mix_exp_pareto" -> IF RLt(xs[1], p[4]) THEN "a" ELSE "ab"
    [] f = "mix3_nen"       -> IF xs[1].n < 0 THEN "ac" ELSE "abc"
    [] f = "mixnest"        -> IF xs[1].n < 0 THEN "a" ELSE "ab"
    [] f = "geometric"      -> IF REq(p[1], I(1)) THEN "p1" ELSE "std"
    [] f = "binomial"       -> IF p[1].n = 0 THEN "t0" ELSE IF REq(p[1], I(1)) THEN "t1" ELSE "std"
    [] OTHER -> "std"

(* ------------------------------------------------------ evaluation points *)
RealX == {I(-3), I(-1), R(-1, 2), I(0), R(1, 4), R(1, 2), R(3, 4), I(1), R(3, 2), I(2), I(3), I(5)}
         \cup (IF Deep THEN {I(-10), I(-2), R(1, 8), R(5, 4), R(5, 2), I(4), I(7), I(10), I(20)} ELSE {})
(* every support point up to 8, points below the support, and NON-INTEGER points between consecutive *)
(* support points including just below the smallest one (-1/2, -1e-6, -1+1e-6) and around 2          *)
CountX == {I(-2), I(-1), I(0), I(1), I(2), I(3), I(4), I(5), I(6), I(7), I(8), R(1, 2), R(3, 2), R(5, 2), R(-1, 2),
           R(-1, 1000000), R(-999999, 1000000), R(1999999, 1000000), R(2000001, 1000000), R(7, 2)}
Around(S) == S \cup {RAdd(s, R(1, 8)) : s \in S} \cup {RSub(s, R(1, 8)) : s \in S}

(* boundary points of the support (exactly representable) *)
BPts(f, p) ==
  CASE f = "pareto"   -> {p[1]}
    [] f = "gpareto"  -> {p[1]} \cup (IF p[3].n < 0 THEN {RSub(p[1], RDiv(p[2], p[3]))} ELSE {})
    [] f = "gpareto0" -> {p[1]}
    [] f = "gev"      -> {RSub(p[1], RDiv(p[2], p[3]))}
    [] f = "powerlaw" -> {p[2]}
    [] f = "trans_exp" -> {RNeg(p[2])}
    [] f = "logt_gamma" -> {RSub(I(1), p[3])}
    [] f = "mix_exp_pareto" -> {p[4]}
    [] f \in {"beta"} -> {I(0), I(1)}
    [] f = "delta"    -> {p[1]}
    [] OTHER -> {}

VecX == {<<I(0), I(0)>>, <<I(1), I(1)>>, <<I(-1), R(1, 2)>>, <<R(1, 2), I(-2)>>, <<I(2), R(1, 4)>>, <<I(0), I(-1)>>, <<R(3, 2), I(3)>>, <<I(-2), I(0)>>}
MatX == {<<I(1), I(0), I(1)>>, <<I(2), I(1), I(1)>>, <<I(1), R(1, 2), I(2)>>, <<I(3), I(-1), R(1, 2)>>, <<R(1, 2), I(0), R(1, 4)>>,
         <<I(1), I(2), I(1)>>, <<I(1), I(1), I(1)>>, <<I(-1), I(0), I(1)>>, <<I(0), I(0), I(0)>>}

Vec3X == {<<I(0), I(0), I(0)>>, <<I(1), I(1), I(1)>>, <<I(-1), R(1, 2), I(2)>>, <<R(1, 2), I(-2), I(0)>>, <<I(2), R(1, 4), I(-1)>>,
          <<I(0), I(1), I(-3)>>, <<R(3, 2), I(3), R(1, 2)>>}
Mat3X == {<<I(1), I(0), I(1), I(0), I(1)>>, <<I(2), I(1), I(2), I(-1), I(3)>>, <<I(1), R(1, 2), I(2), R(1, 2), I(1)>>, <<I(3), I(-1), I(1), I(0), R(1, 2)>>,
          <<I(1), I(2), I(1), I(0), I(1)>>, <<I(1), I(0), I(1), I(1), I(1)>>, <<I(-1), I(0), I(1), I(0), I(1)>>, <<I(0), I(0), I(0), I(0), I(0)>>}

XGrid(f, p) ==
  IF XDim(f) = 2 THEN VecX
  ELSE IF f = "iwishart" THEN MatX
  ELSE IF f = "iwishart3" THEN Mat3X
  ELSE IF XDim(f) = 3 THEN Vec3X
  ELSE IF f \in Discrete \ {"delta"} THEN {<<x>> : x \in CountX}
  ELSE IF f = "betalog" THEN {<<x>> : x \in {I(-5), I(-3), I(-1), R(-1, 2), R(-1, 8), I(0), R(1, 8), I(1)}}
  ELSE {<<x>> : x \in RealX \cup Around(BPts(f, p))}

(* ----------------------------------------------------- textbook densities *)
Lg(e)    == U("lgamma", e)
Sqrt(e)  == Pow(e, Half)
Log2Pi   == Log(Mul(Two, Pi))

LPNormal(mu, s, x)  == Sub(Sub(Mul(QF(-1, 2), Log2Pi), Log(s)), Div(Sq(Sub(x, mu)), Mul(Two, Sq(s))))
LPLaplace(mu, s, x) == Sub(Neg(Log(Mul(Two, s))), Div(U("abs", Sub(x, mu)), s))
LPPareto(l, k, x)   == Sub(Add(Log(k), Mul(k, Log(l))), Mul(Add(k, One), Log(x)))
GpT(mu, s, xi, x)   == Add(One, Div(Mul(xi, Sub(x, mu)), s))
LPGPareto(mu, s, xi, x) == Sub(Neg(Log(s)), Mul(Add(Div(One, xi), One), Log(GpT(mu, s, xi, x))))
LPGPareto0(mu, s, x)    == Sub(Neg(Log(s)), Div(Sub(x, mu), s))
LPGev(mu, s, xi, x) == LET t == GpT(mu, s, xi, x) IN
                       Sub(Sub(Neg(Log(s)), Mul(Add(One, Div(One, xi)), Log(t))), Pow(t, Neg(Div(One, xi))))
LPGev0(mu, s, x)    == LET z == Div(Sub(x, mu), s) IN Sub(Sub(Neg(Log(s)), z), Exp(Neg(z)))
LPGamma(al, be, x)  == Sub(Add(Sub(Mul(al, Log(be)), Lg(al)), Mul(Sub(al, One), Log(x))), Mul(be, x))
LPBeta(al, be, x)   == Add(Add(Sub(Sub(Lg(Add(al, be)), Lg(al)), Lg(be)), Mul(Sub(al, One), Log(x))),
                           Mul(Sub(be, One), Log(Sub(One, x))))
LPCauchy(mu, s, x)  == Sub(Log(Div(s, Pi)), Log(Add(Sq(Sub(x, mu)), Sq(s))))
LPChi2(k, x)        == Sub(Sub(Sub(Mul(Sub(Div(k, Two), One), Log(x)), Div(x, Two)), Mul(Div(k, Two), Log(Two))), Lg(Div(k, Two)))
LPExp(l, x)         == Sub(Log(l), Mul(l, x))
LPGenGamma(sa, d, q, x) == Sub(Add(Sub(Sub(Log(q), Mul(d, Log(sa))), Lg(Div(d, q))), Mul(Sub(d, One), Log(x))), Pow(Div(x, sa), q))
LPPowerLaw(al, xm, x)   == Sub(Log(Div(Sub(al, One), xm)), Mul(al, Log(Div(x, xm))))
LPBinomial(th, n, k) == Add(Add(Sub(Sub(Lg(Add(n, One)), Lg(Add(k, One))), Lg(Add(Sub(n, k), One))), Mul(k, Log(th))),
                            Mul(Sub(n, k), Log(Sub(One, th))))
(* Gamma(r+k)/(Gamma(k+1) Gamma(r)) p^k (1-p)^r : k successes before the r-th failure *)
LPNegBin(r, q, k)    == Add(Add(Sub(Sub(Lg(Add(r, k)), Lg(Add(k, One))), Lg(r)), Mul(k, Log(q))), Mul(r, Log(Sub(One, q))))
LPPoisson(l, k)      == Sub(Sub(Mul(k, Log(l)), l), Lg(Add(k, One)))
(* p (1-p)^k : k failures before the first success *)
LPGeometric(q, k)    == Add(Log(q), Mul(k, Log(Sub(One, q))))

(* 2x2 symmetric matrices: determinant and quadratic form of the inverse *)
Det2(s11, s12, s22) == Sub(Mul(s11, s22), Sq(s12))
Quad2(s11, s12, s22, y1, y2) ==
  Div(Add(Sub(Mul(s22, Sq(y1)), Mul(Two, Mul(s12, Mul(y1, y2)))), Mul(s11, Sq(y2))), Det2(s11, s12, s22))
LPVNormal(m1, m2, s11, s12, s22, x1, x2) ==
  Sub(Sub(Neg(Log2Pi), Mul(Half, Log(Det2(s11, s12, s22)))), Mul(Half, Quad2(s11, s12, s22, Sub(x1, m1), Sub(x2, m2))))
LPVT(nu, m1, m2, s11, s12, s22, x1, x2) ==
  LET h == Div(Add(nu, Two), Two) IN
  Sub(Sub(Sub(Sub(Lg(h), Lg(Div(nu, Two))), Mul(Half, Log(Det2(s11, s12, s22)))), Log(Mul(nu, Pi))),
      Mul(h, Log(Add(One, Div(Quad2(s11, s12, s22, Sub(x1, m1), Sub(x2, m2)), nu)))))
(* dimension 1 and 3 (tridiagonal 3x3: a13 = 0); d is the dimension *)
Det3T(a11, a12, a22, a23, a33) == Sub(Mul(a11, Sub(Mul(a22, a33), Sq(a23))), Mul(Sq(a12), a33))
(* y' A^-1 y through the adjugate of the symmetric tridiagonal matrix *)
Quad3T(a11, a12, a22, a23, a33, y1, y2, y3) ==
  LET c11 == Sub(Mul(a22, a33), Sq(a23))   c12 == Neg(Mul(a12, a33))   c13 == Mul(a12, a23)
      c22 == Mul(a11, a33)                 c23 == Neg(Mul(a11, a23))   c33 == Sub(Mul(a11, a22), Sq(a12))
  IN Div(Add(Add(Add(Mul(c11, Sq(y1)), Mul(c22, Sq(y2))), Mul(c33, Sq(y3))),
             Mul(Two, Add(Add(Mul(c12, Mul(y1, y2)), Mul(c13, Mul(y1, y3))), Mul(c23, Mul(y2, y3))))),
         Det3T(a11, a12, a22, a23, a33))
(* N_d(x; mu, Sigma) from log det and the quadratic form *)
LPVNormalGen(d, logdet, quad) == Sub(Sub(Mul(QF(-d, 2), Log2Pi), Mul(Half, logdet)), Mul(Half, quad))
LPVTGen(d, nu, logdet, quad) ==
  LET h == Div(Add(nu, QI(d)), Two) IN
  Sub(Sub(Sub(Sub(Lg(h), Lg(Div(nu, Two))), Mul(Half, logdet)), Mul(QF(d, 2), Log(Mul(nu, Pi)))),
      Mul(h, Log(Add(One, Div(quad, nu)))))
(* inverse Wishart of dimension d from log det S, log det X and tr(S X^-1) *)
LPIWishartGen(d, nu, logdetS, logdetX, tr) ==
  Sub(Sub(Sub(Sub(Mul(Div(nu, Two), logdetS), Mul(Mul(nu, QF(d, 2)), Log(Two))), MeaningP("Mlgamma", I(d), Div(nu, Two))),
          Mul(Div(Add(nu, QI(d + 1)), Two), logdetX)), Mul(Half, tr))

(* log Phi(t) = log(erfc(-t/sqrt 2)) - log 2 *)
LogPhi(t) == Sub(Log(Sub(One, U("erf", Neg(Div(t, Sqrt(Two)))))), Log(Two))
LPSkewNormal(x1, x2) ==
  LET k11 == Mul(Sq(P(8)), P(3))  k12 == Mul(Mul(P(8), P(9)), P(4))  k22 == Mul(Sq(P(9)), P(5))
      t   == Add(Mul(P(6), Div(Sub(x1, P(1)), P(8))), Mul(P(7), Div(Sub(x2, P(2)), P(9))))
  IN Add(Add(Log(Two), LPVNormal(P(1), P(2), k11, k12, k22, x1, x2)), LogPhi(t))
(* inverse Wishart, d = 2 *)
LPIWishart(nu, s11, s12, s22, x11, x12, x22) ==
  LET tr == Div(Add(Sub(Mul(s11, x22), Mul(Two, Mul(s12, x12))), Mul(s22, x11)), Det2(x11, x12, x22)) IN
  Sub(Sub(Sub(Sub(Mul(Div(nu, Two), Log(Det2(s11, s12, s22))), Mul(nu, Log(Two))), MeaningP("Mlgamma", I(2), Div(nu, Two))),
          Mul(Div(Add(nu, QI(3)), Two), Log(Det2(x11, x12, x22)))), Mul(Half, tr))

(* KNOWN DEVIATION (finding C14-iwishart-trace): the code multiplies S and   *)
(* X^-1 element-wise before taking the trace, i.e. it uses                  *)
(* sum_i S_ii (X^-1)_ii instead of tr(S X^-1).  The repository's own test   *)
(* pins the deviating value, so the defect is listed, not repaired.  An     *)
(* observation that differs from the contract must equal this term to be    *)
(* classified as the known finding.                                          *)
KnownDeviation_IWishartTrace(nu, s11, s12, s22, x11, x12, x22) ==
  LET tr == Div(Add(Mul(s11, x22), Mul(s22, x11)), Det2(x11, x12, x22)) IN
  Sub(Sub(Sub(Sub(Mul(Div(nu, Two), Log(Det2(s11, s12, s22))), Mul(nu, Log(Two))), MeaningP("Mlgamma", I(2), Div(nu, Two))),
          Mul(Div(Add(nu, QI(3)), Two), Log(Det2(x11, x12, x22)))), Mul(Half, tr))
Deviations(f, v) ==
  IF f = "iwishart"
  THEN <<[name |-> "hadamard_trace",
          lp |-> KnownDeviation_IWishartTrace(P(1), P(2), P(3), P(4), XV(f, 1), XV(f, 2), XV(f, 3))]>>
  ELSE <<>>

(* log(w1/(w1+w2) exp(l1) + w2/(w1+w2) exp(l2)) *)
Mix2(w1, w2, l1, l2) == Log(Add(Mul(Div(w1, Add(w1, w2)), Exp(l1)), Mul(Div(w2, Add(w1, w2)), Exp(l2))))
Mix1(w1, w2, l1)     == Add(Log(Div(w1, Add(w1, w2))), l1)
(* general contract: LogPdf(x) = log sum_k (w_k / sum w) exp(LogPdf_k(x)) over the components whose support holds x *)
WSum3(w1, w2, w3)    == Add(Add(w1, w2), w3)
Mix3(w1, w2, w3, l1, l2, l3) ==
  Log(Add(Add(Mul(Div(w1, WSum3(w1, w2, w3)), Exp(l1)), Mul(Div(w2, WSum3(w1, w2, w3)), Exp(l2))), Mul(Div(w3, WSum3(w1, w2, w3)), Exp(l3))))
Mix3ac(w1, w2, w3, l1, l3) ==
  Log(Add(Mul(Div(w1, WSum3(w1, w2, w3)), Exp(l1)), Mul(Div(w3, WSum3(w1, w2, w3)), Exp(l3))))
(* HMM, 2 states, sequence of length 2: sum over the 4 hidden paths of pi_i e_i(x1) T_ij e_j(x2), *)
(* pi and the rows of T normalised; eik = log emission density of state i at x_k                 *)
HmmLP(pi1, pi2, t11, t12, t21, t22, e11, e12, e21, e22) ==
  LET sp == Add(pi1, pi2)  r1 == Add(t11, t12)  r2 == Add(t21, t22)
      path(pi, t, r, ea, eb) == Mul(Mul(Div(pi, sp), Div(t, r)), Exp(Add(ea, eb)))
  IN Log(Add(Add(path(pi1, t11, r1, e11, e12), path(pi1, t12, r1, e11, e22)),
             Add(path(pi2, t21, r2, e21, e12), path(pi2, t22, r2, e21, e22))))
(* a single component: its weight is normalised to w/w = 1 *)
MixOne(w, l1)        == Add(Log(Div(w, w)), l1)

LP(f, v) ==
  LET x == XV(f, 1)  x2 == XV(f, 2)  x3 == XV(f, 3) IN
  CASE f = "normal"      -> LPNormal(P(1), P(2), x)
    [] f = "laplace"     -> LPLaplace(P(1), P(2), x)
    [] f = "pareto"      -> LPPareto(P(1), P(2), x)
    [] f = "gpareto"     -> LPGPareto(P(1), P(2), P(3), x)
    [] f = "gpareto0"    -> LPGPareto0(P(1), P(2), x)
    [] f = "gev"         -> LPGev(P(1), P(2), P(3), x)
    [] f = "gev0"        -> LPGev0(P(1), P(2), x)
    [] f = "gamma"       -> LPGamma(P(1), P(2), x)
    [] f = "beta"        -> LPBeta(P(1), P(2), x)
    (* LogScale = true: the ARGUMENT is log(theta); the value is the Beta log-density at theta *)
    [] f = "betalog"     -> LPBeta(P(1), P(2), Exp(x))
    [] f = "cauchy"      -> LPCauchy(P(1), P(2), x)
    [] f = "chisq"       -> LPChi2(P(1), x)
    [] f = "exponential" -> LPExp(P(1), x)
    [] f = "gengamma"    -> LPGenGamma(P(1), P(2), P(3), x)
    [] f = "powerlaw"    -> LPPowerLaw(P(1), P(2), x)
    (* theta = 0: mass (1-theta)^n at k = 0; theta = 1: mass theta^n at k = n *)
    [] f = "binomial"    -> IF v = "t0" THEN Mul(P(2), Log(Sub(One, P(1))))
                            ELSE IF v = "t1" THEN Mul(P(2), Log(P(1)))
                            ELSE LPBinomial(P(1), P(2), x)
    [] f = "negbinomial" -> LPNegBin(P(1), P(2), x)
    [] f = "poisson"     -> LPPoisson(P(1), x)
    (* p = 1: the whole mass sits at k = 0 and (1-p)^0 = 1 *)
    [] f = "geometric"   -> IF v = "p1" THEN Log(P(1)) ELSE LPGeometric(P(1), x)
    [] f = "categorical" -> Log(P(CASE v = "k0" -> 1 [] v = "k1" -> 2 [] v = "k2" -> 3))
    [] f = "delta"       -> Zero
    (* density of Y = exp(Z) - c for Z ~ base:  f(log(x+c)) / (x+c) *)
    [] f = "logt_normal" -> Sub(LPNormal(P(1), P(2), Log(Add(x, P(3)))), Log(Add(x, P(3))))
    [] f = "logt_gamma"  -> Sub(LPGamma(P(1), P(2), Log(Add(x, P(3)))), Log(Add(x, P(3))))
    (* density of Y = Z - c *)
    [] f = "trans_exp"   -> LPExp(P(1), Add(x, P(2)))
    [] f = "mix_normal_exp" -> IF v = "ab" THEN Mix2(P(1), P(2), LPNormal(P(3), P(4), x), LPExp(P(5), x))
                               ELSE Mix1(P(1), P(2), LPNormal(P(3), P(4), x))
    [] f = "mix_exp_pareto" -> IF v = "ab" THEN Mix2(P(1), P(2), LPExp(P(3), x), LPPareto(P(4), P(5), x))
                               ELSE Mix1(P(1), P(2), LPExp(P(3), x))
    [] f = "iid_normal"  -> Add(LPNormal(P(1), P(2), x), LPNormal(P(1), P(2), x2))
    [] f = "iid_exp"     -> Add(LPExp(P(1), x), LPExp(P(1), x2))
    [] f = "id_normal_exp" -> Add(LPNormal(P(1), P(2), x), LPExp(P(3), x2))
    [] f = "vnormal"     -> LPVNormal(P(1), P(2), P(3), P(4), P(5), x, x2)
    [] f = "vt"          -> LPVT(P(1), P(2), P(3), P(4), P(5), P(6), x, x2)
    [] f = "skewnormal"  -> LPSkewNormal(x, x2)
    [] f = "iwishart"    -> LPIWishart(P(1), P(2), P(3), P(4), x, x2, x3)
    (* ---- mixtures with 1, 3 components, nested, vector and matrix valued *)
    [] f = "mix1_normal" -> MixOne(P(1), LPNormal(P(2), P(3), x))
    [] f = "mix3_nen"    -> IF v = "abc" THEN Mix3(P(1), P(2), P(3), LPNormal(P(4), P(5), x), LPExp(P(6), x), LPNormal(P(7), P(8), x))
                            ELSE Mix3ac(P(1), P(2), P(3), LPNormal(P(4), P(5), x), LPNormal(P(7), P(8), x))
    [] f = "mixnest"     -> LET inner == IF v = "ab" THEN Mix2(P(3), P(4), LPNormal(P(5), P(6), x), LPExp(P(7), x))
                                         ELSE Mix1(P(3), P(4), LPNormal(P(5), P(6), x))
                            IN Mix2(P(1), P(2), inner, LPNormal(P(8), P(9), x))
    [] f = "vmix1_vnormal" -> MixOne(P(1), LPVNormal(P(2), P(3), P(4), P(5), P(6), x, x2))
    [] f = "vmix2_vn1"   -> Mix2(P(1), P(2), LPVNormalGen(1, Log(P(4)), Div(Sq(Sub(x, P(3))), P(4))),
                                             LPVNormalGen(1, Log(P(6)), Div(Sq(Sub(x, P(5))), P(6))))
    [] f = "mmix1_iw1"   -> MixOne(P(1), LPIWishartGen(1, P(2), Log(P(3)), Log(x), Div(P(3), x)))
    [] f = "mmix2_iw1"   -> Mix2(P(1), P(2), LPIWishartGen(1, P(3), Log(P(4)), Log(x), Div(P(4), x)),
                                             LPIWishartGen(1, P(5), Log(P(6)), Log(x), Div(P(6), x)))
    [] f = "hmm2_nn"     -> HmmLP(P(1), P(2), P(3), P(4), P(5), P(6), LPNormal(P(7), P(8), x), LPNormal(P(7), P(8), x2),
                                  LPNormal(P(9), P(10), x), LPNormal(P(9), P(10), x2))
    [] f = "mhmm2_vn1"   -> LET e(m, vv, y) == LPVNormalGen(1, Log(vv), Div(Sq(Sub(y, m)), vv)) IN
                            HmmLP(P(1), P(2), P(3), P(4), P(5), P(6), e(P(7), P(8), x), e(P(7), P(8), x2),
                                  e(P(9), P(10), x), e(P(9), P(10), x2))
    (* ---- dimension 1 and 3 *)
    [] f = "vnormal1"    -> LPVNormalGen(1, Log(P(2)), Div(Sq(Sub(x, P(1))), P(2)))
    [] f = "vnormal3"    -> LPVNormalGen(3, Log(Det3T(P(4), P(5), P(6), P(7), P(8))),
                                         Quad3T(P(4), P(5), P(6), P(7), P(8), Sub(x, P(1)), Sub(x2, P(2)), Sub(x3, P(3))))
    [] f = "vt1"         -> LPVTGen(1, P(1), Log(P(3)), Div(Sq(Sub(x, P(2))), P(3)))
    [] f = "vt3"         -> LPVTGen(3, P(1), Log(Det3T(P(5), P(6), P(7), P(8), P(9))),
                                    Quad3T(P(5), P(6), P(7), P(8), P(9), Sub(x, P(2)), Sub(x2, P(3)), Sub(x3, P(4))))
    (* xi, omega, alpha, scale: 2 N(x; xi, scale^2 omega) Phi(alpha (x-xi)/scale) *)
    [] f = "skewnormal1" -> LET k == Mul(Sq(P(4)), P(2)) IN
                            Add(Add(Log(Two), LPVNormalGen(1, Log(k), Div(Sq(Sub(x, P(1))), k))),
                                LogPhi(Mul(P(3), Div(Sub(x, P(1)), P(4)))))
    [] f = "iid_normal1" -> LPNormal(P(1), P(2), x)
    [] f = "id_normal1"  -> LPNormal(P(1), P(2), x)
    [] f = "iid_normal3" -> Add(Add(LPNormal(P(1), P(2), x), LPNormal(P(1), P(2), x2)), LPNormal(P(1), P(2), x3))
    [] f = "iid_exp3"    -> Add(Add(LPExp(P(1), x), LPExp(P(1), x2)), LPExp(P(1), x3))
    [] f = "id_nen3"     -> Add(Add(LPNormal(P(1), P(2), x), LPExp(P(3), x2)), LPNormal(P(4), P(5), x3))
    [] f = "iwishart1"   -> LPIWishartGen(1, P(1), Log(P(2)), Log(x), Div(P(2), x))
    (* S diagonal, X tridiagonal: tr(S X^-1) = sum_i S_ii adj(X)_ii / det X *)
    [] f = "iwishart3"   -> LET x4 == XV(f, 4)  x5 == XV(f, 5) IN
                            LPIWishartGen(3, P(1), Log(Mul(Mul(P(2), P(3)), P(4))), Log(Det3T(x, x2, x3, x4, x5)),
                                          Div(Add(Add(Mul(P(2), Sub(Mul(x3, x5), Sq(x4))), Mul(P(3), Mul(x, x5))),
                                                  Mul(P(4), Sub(Mul(x, x3), Sq(x2)))), Det3T(x, x2, x3, x4, x5)))

(* parameters w.r.t. which the library can differentiate LogPdf (Real64     *)
(* parameters activated as variables); integer / plain float64 constructor *)
(* arguments and matrix entries that occur twice are left out              *)
DiffVars(f) ==
  CASE f \in {"chisq", "delta", "categorical"} -> <<>>
    [] f = "binomial"    -> <<1>>
    [] f \in {"logt_normal", "logt_gamma"} -> <<1, 2>>
    [] f = "trans_exp"   -> <<1>>
    [] f = "vnormal"     -> <<1, 2>>
    [] f = "vt"          -> <<1, 2, 3>>
    [] f = "skewnormal"  -> <<1, 2, 6, 7>>
    [] f = "iwishart"    -> <<1>>
    [] f = "vnormal3"    -> <<1, 2, 3>>
    [] f = "vt3"         -> <<1, 2, 3, 4>>
    [] f = "iwishart3"   -> <<1>>
    [] f = "vmix1_vnormal" -> <<1, 2, 3>>
    [] f \in {"hmm2_nn", "mhmm2_vn1"} -> <<1, 3, 7, 8>>
    [] OTHER -> [i \in 1..NP(f) |-> i]

(* ------------------------------------------------------------------ CDFs *)
HasCdf(f) == f \in {"normal", "laplace", "pareto", "gpareto", "gpareto0", "gev", "gev0", "gamma", "chisq",
                    "exponential", "powerlaw", "categorical"}
NoneT == <<"none">>
CDF(f, v) ==
  LET x == XV(f, 1) IN
  CASE f = "normal"      -> Mul(Half, Sub(One, U("erf", Neg(Div(Sub(x, P(1)), Mul(P(2), Sqrt(Two)))))))
    [] f = "laplace"     -> Ite(x, P(1), Mul(Half, Exp(Div(Sub(x, P(1)), P(2)))),
                                         Sub(One, Mul(Half, Exp(Neg(Div(Sub(x, P(1)), P(2)))))))
    [] f = "pareto"      -> Sub(One, Pow(Div(P(1), x), P(2)))
    [] f = "gpareto"     -> Sub(One, Pow(GpT(P(1), P(2), P(3), x), Neg(Div(One, P(3)))))
    [] f = "gpareto0"    -> Sub(One, Exp(Neg(Div(Sub(x, P(1)), P(2)))))
    [] f = "gev"         -> Exp(Neg(Pow(GpT(P(1), P(2), P(3), x), Neg(Div(One, P(3))))))
    [] f = "gev0"        -> Exp(Neg(Exp(Neg(Div(Sub(x, P(1)), P(2))))))
    [] f = "gamma"       -> <<"b", "gammap", P(1), Mul(P(2), x)>>
    [] f = "chisq"       -> <<"b", "gammap", Div(P(1), Two), Div(x, Two)>>
    [] f = "exponential" -> Sub(One, Exp(Neg(Mul(P(1), x))))
    [] f = "powerlaw"    -> Sub(One, Pow(Div(x, P(2)), Sub(One, P(1))))
    [] f = "categorical" -> (CASE v = "k0" -> P(1) [] v = "k1" -> Add(P(1), P(2)) [] v = "k2" -> Add(Add(P(1), P(2)), P(3)))
    [] OTHER -> NoneT

(* the CDF below / above the support is 0 / 1; sides of an "out" point *)
Side(f, p, xs) ==
  LET x == xs[1] IN
  CASE f \in {"pareto", "gpareto0"} -> "below"
    [] f = "powerlaw"    -> "below"
    [] f = "gpareto"     -> IF RLt(x, p[1]) THEN "below" ELSE "above"
    [] f = "gev"         -> IF (p[3].n > 0) THEN "below" ELSE "above"
    [] f \in {"gamma", "chisq", "exponential"} -> "below"
    [] f = "categorical" -> IF x.n < 0 THEN "below" ELSE "above"
    [] OTHER -> "below"

(* points where density / distribution function are not differentiable (the   *)
(* derivative of |.| at 0 is a tie, DESIGN 3.6)                               *)
Kink(f, p, xs) == f = "laplace" /\ REq(xs[1], p[1])

(* storage of the evaluation point of a vector / matrix valued family: LogPdf must not depend  *)
(* on how x is stored (dense, sparse with only the non-zero coordinates stored, sparse with     *)
(* every coordinate stored, a window onto a larger dense container)                             *)
VectorFams == {"iid_normal", "iid_exp", "id_normal_exp", "vnormal", "vt", "skewnormal", "vnormal1", "vnormal3", "vt1", "vt3",
               "skewnormal1", "iid_normal1", "iid_normal3", "iid_exp3", "id_normal1", "id_nen3", "vmix1_vnormal", "vmix2_vn1", "hmm2_nn"}
MatrixFams == {"iwishart", "iwishart1", "iwishart3", "mmix1_iw1", "mmix2_iw1", "mhmm2_vn1"}
Kind(f) == IF f \in VectorFams THEN "vector" ELSE IF f \in MatrixFams THEN "matrix" ELSE "scalar"
Storages(f) == IF f \in VectorFams THEN {"dense", "sparse", "sparse0", "view"}
               ELSE IF f \in MatrixFams THEN {"dense", "sparse", "view"} ELSE {"dense"}

(* special arguments of a discrete distribution function: +-Infinity, +-2^63, NaN *)
SpecialToks == {"pinf", "ninf", "p2_63", "m2_63", "nan"}
SpecialSide(tok) == CASE tok \in {"pinf", "p2_63"} -> "above" [] tok \in {"ninf", "m2_63"} -> "below" [] OTHER -> "any"

(* ------------------------------------------- layout of the parameter vector *)
(* normalised log-weight of a single component: log w - log w (not representable for w <= 0) *)
LogW1 == Sub(Log(P(1)), Log(P(1)))
PVec(f) ==
  CASE f = "binomial"    -> <<Log(P(1)), P(2)>>
    [] f = "categorical" -> <<Log(P(1)), Log(P(2)), Log(P(3))>>
    [] f = "gpareto0"    -> <<P(1), P(2), Zero>>
    [] f = "gev0"        -> <<P(1), P(2), Zero>>
    [] f = "beta"        -> <<P(1), P(2), Zero>>
    [] f = "betalog"     -> <<P(1), P(2), One>>
    [] f \in {"logt_normal", "logt_gamma"} -> <<P(1), P(2)>>
    [] f = "trans_exp"   -> <<P(1)>>
    [] f \in {"mix_normal_exp", "mix_exp_pareto"} ->
         <<Log(Div(P(1), Add(P(1), P(2)))), Log(Div(P(2), Add(P(1), P(2)))), P(3), P(4), P(5)>>
    [] f = "vnormal"     -> <<P(1), P(2), P(3), P(4), P(4), P(5)>>
    [] f = "vt"          -> <<P(1), P(2), P(3), P(4), P(5), P(5), P(6)>>
    [] f = "iwishart"    -> <<P(2), P(3), P(3), P(4), P(1)>>
    [] f = "skewnormal"  -> <<P(1), P(2), P(3), P(4), P(4), P(5), P(6), P(7), P(8), P(9)>>
    [] f = "vnormal3"    -> <<P(1), P(2), P(3), P(4), P(5), Zero, P(5), P(6), P(7), Zero, P(7), P(8)>>
    [] f = "vt3"         -> <<P(1), P(2), P(3), P(4), P(5), P(6), Zero, P(6), P(7), P(8), Zero, P(8), P(9)>>
    [] f = "iwishart1"   -> <<P(2), P(1)>>
    [] f = "mix1_normal" -> <<LogW1, P(2), P(3)>>
    [] f = "mix3_nen"    -> <<Log(Div(P(1), WSum3(P(1), P(2), P(3)))), Log(Div(P(2), WSum3(P(1), P(2), P(3)))),
                              Log(Div(P(3), WSum3(P(1), P(2), P(3)))), P(4), P(5), P(6), P(7), P(8)>>
    [] f = "mixnest"     -> <<Log(Div(P(1), Add(P(1), P(2)))), Log(Div(P(2), Add(P(1), P(2)))),
                              Log(Div(P(3), Add(P(3), P(4)))), Log(Div(P(4), Add(P(3), P(4)))), P(5), P(6), P(7), P(8), P(9)>>
    [] f = "vmix1_vnormal" -> <<LogW1, P(2), P(3), P(4), P(5), P(5), P(6)>>
    [] f = "vmix2_vn1"   -> <<Log(Div(P(1), Add(P(1), P(2)))), Log(Div(P(2), Add(P(1), P(2)))), P(3), P(4), P(5), P(6)>>
    [] f \in {"hmm2_nn", "mhmm2_vn1"} ->
         <<Log(Div(P(1), Add(P(1), P(2)))), Log(Div(P(2), Add(P(1), P(2)))),
           Log(Div(P(3), Add(P(3), P(4)))), Log(Div(P(4), Add(P(3), P(4)))),
           Log(Div(P(5), Add(P(5), P(6)))), Log(Div(P(6), Add(P(5), P(6)))), P(7), P(8), P(9), P(10)>>
    [] f = "mmix1_iw1"   -> <<LogW1, P(3), P(2)>>
    [] f = "mmix2_iw1"   -> <<Log(Div(P(1), Add(P(1), P(2)))), Log(Div(P(2), Add(P(1), P(2)))), P(4), P(3), P(6), P(5)>>
    [] f = "iwishart3"   -> <<P(2), Zero, Zero, Zero, P(3), Zero, Zero, Zero, P(4), P(1)>>
    [] OTHER -> [i \in 1..NP(f) |-> P(i)]

(* ------------------------------------------- exact masses, discrete families *)
RECURSIVE Choose(_, _)
Choose(n, k) == IF k = 0 THEN 1 ELSE IF k > n THEN 0 ELSE (Choose(n - 1, k - 1) * n) \div k
RECURSIVE Fact(_)
Fact(n) == IF n <= 0 THEN 1 ELSE n * Fact(n - 1)
(* prod_{i<k} (r+i)/(i+1) = Gamma(r+k)/(Gamma(r) k!) *)
RECURSIVE Rising(_, _)
Rising(r, k) == IF k = 0 THEN ROne ELSE RMul(Rising(r, k - 1), RDiv(RAdd(r, I(k - 1)), I(k)))

KMax == 8
NBN == 6     \* bound for the Negative Binomial (32-bit rationals)
ExactPmf(f) == f \in {"binomial", "negbinomial", "poisson", "geometric", "categorical"}
(* mass = Q(k) * value of the scale term (1 unless the mass is irrational) *)
PmfQ(f, p, k) ==
  CASE f = "binomial"    -> IF k > p[2].n THEN RZero
                            ELSE RMul(I(Choose(p[2].n, k)), RMul(RPow(p[1], k), RPow(RSub(I(1), p[1]), p[2].n - k)))
    [] f = "geometric"   -> RMul(p[1], RPow(RSub(I(1), p[1]), k))
    [] f = "categorical" -> IF k > 2 THEN RZero ELSE p[k + 1]
    [] f = "negbinomial" -> LET c == RMul(Rising(p[1], k), RPow(p[2], k)) IN
                            IF IsInt(p[1]) THEN RMul(c, RPow(RSub(I(1), p[2]), p[1].n)) ELSE c
    [] f = "poisson"     -> RDiv(RPow(p[1], k), I(Fact(k)))
PmfScale(f, p) ==
  CASE f = "negbinomial" -> IF IsInt(p[1]) THEN One ELSE Pow(Q(RSub(I(1), p[2])), Q(p[1]))
    [] f = "poisson"     -> Exp(Neg(Q(p[1])))
    [] OTHER -> One
PmfTop(f, p) == IF f = "binomial" THEN p[2].n ELSE IF f = "categorical" THEN 2 ELSE IF f = "negbinomial" THEN NBN ELSE KMax
PmfTable(f, p) == [k \in 1..(PmfTop(f, p) + 1) |-> PmfQ(f, p, k - 1)]
PartialSum(f, p, n) == RSumSeq([k \in 1..(n + 1) |-> PmfQ(f, p, k - 1)])

(* exact distribution function of a discrete family that offers Cdf: the sum of the exact     *)
(* masses over the support points <= x (x any rational, integer or not); complete for a finite *)
(* support (Categorical)                                                                       *)
CdfQ(f, p, x) == RSumSeq([k \in 1..(PmfTop(f, p) + 1) |-> IF RLe(I(k - 1), x) THEN PmfQ(f, p, k - 1) ELSE RZero])


(* The masses of a valid discrete distribution sum to one:                   *)
(*  Binomial, Categorical : the finite sum is exactly 1;                     *)
(*  Geometric             : partial sum + closed-form tail (1-p)^(N+1) = 1;  *)
(*  Negative Binomial, integer r : the partial sum equals the upper tail of  *)
(*     a Binomial(N+r, 1-p) at r (an independent closed form), and the rest  *)
(*     is bounded by the geometric majorant of the ratio test;               *)
(*  Poisson               : exp(lambda) * mass is the exponential series,    *)
(*     its remainder after N terms is bounded by the ratio test; the bound   *)
(*     is handed to the driver (the value of exp(-lambda) is transcendental) *)
NBTailIdentity(p, n) ==
  LET r == p[1].n  q == p[2]  m == n + r IN
  REq(PartialSum("negbinomial", p, n),
      RSumSeq([j \in 1..(n + 1) |-> RMul(I(Choose(m, r + j - 1)), RMul(RPow(RSub(I(1), q), r + j - 1), RPow(q, m - (r + j - 1))))]))
RatioBound(f, p, n) ==
  (* tail after n <= mass(n) * rho/(1-rho) with rho >= mass(k+1)/mass(k) for all k >= n *)
  (* Negative Binomial: mass(k+1)/mass(k) = q (k+r)/(k+1), decreasing in k for r >= 1, increasing to q for r < 1 *)
  LET rho == IF f = "poisson" THEN RDiv(p[1], I(n + 1))
             ELSE IF RLt(p[1], I(1)) THEN p[2]
             ELSE RMul(p[2], RDiv(RAdd(p[1], I(n)), I(n + 1))) IN
  IF RLt(rho, I(1)) THEN RMul(PmfQ(f, p, n), RDiv(rho, RSub(I(1), rho))) ELSE I(1000000)
NormalisedAt(f, p) ==
  CASE f = "binomial"    -> REq(PartialSum(f, p, p[2].n), I(1))
    [] f = "categorical" -> REq(PartialSum(f, p, 2), I(1))
    [] f = "geometric"   -> REq(RAdd(PartialSum(f, p, KMax), RPow(RSub(I(1), p[1]), KMax + 1)), I(1))
    [] f = "negbinomial" -> IsInt(p[1]) => /\ NBTailIdentity(p, NBN)
                                            /\ RLe(PartialSum(f, p, NBN), I(1))
                                            /\ RLe(I(1), RAdd(PartialSum(f, p, NBN), RatioBound(f, p, NBN)))
    [] OTHER -> TRUE

(* ---------------------------------------------------- far points for CDFs *)
(* the driver evaluates the CDF at -10^FarExp / +10^FarExp (or just outside  *)
(* a bounded support) and demands <= 1e-6 / >= 1 - 1e-6                       *)
FarExp(f, p) == CASE f \in {"pareto", "gpareto", "gev"} -> 30
                  [] f = "powerlaw" -> IF RLt(p[1], R(5, 4)) THEN 100 ELSE 30   \* (10^e)^(1-alpha) <= 1e-6
                  [] f = "laplace" -> 3
                  [] OTHER -> 3

(* ------------------------------------------------------------ printing *)
VarRec(f, v) == [v |-> v, lp |-> LP(f, v),
                 dlp |-> [i \in 1..Len(DiffVars(f)) |-> D(LP(f, v), DiffVars(f)[i])],
                 cdf |-> CDF(f, v), dev |-> Deviations(f, v)]
(* mixtures: groups of entries of the parameter vector that are log-weights (each group must *)
(* sum to one after exp), and the parameters that are the raw weights of the OUTER mixture    *)
(* (the driver writes them into an exported configuration and imports it again)                *)
WGroups(f) == CASE f \in {"mix1_normal", "vmix1_vnormal", "mmix1_iw1"} -> <<<<1, 1>>>>
                [] f \in {"mix_normal_exp", "mix_exp_pareto", "vmix2_vn1", "mmix2_iw1"} -> <<<<1, 2>>>>
                [] f = "mix3_nen" -> <<<<1, 3>>>>
                [] f = "mixnest"  -> <<<<1, 2>>, <<3, 4>>>>
                [] f \in {"hmm2_nn", "mhmm2_vn1"} -> <<<<1, 2>>, <<3, 4>>, <<5, 6>>>>
                [] OTHER -> <<>>
RawWeights(f) == IF WGroups(f) = <<>> \/ f \in {"hmm2_nn", "mhmm2_vn1"} THEN <<>> ELSE [i \in 1..(WGroups(f)[1][2]) |-> i]

FamRec(f) == [k |-> "fam", kind |-> Kind(f), wgroups |-> WGroups(f), rawweights |-> RawWeights(f), fam |-> f, np |-> NP(f), xdim |-> XDim(f), params |-> PL[f], nvalid |-> NValid[f],
              variants |-> [i \in 1..Len(Variants(f)) |-> VarRec(f, Variants(f)[i])],
              pvec |-> PVec(f), dv |-> DiffVars(f), hascdf |-> HasCdf(f),
              disc |-> (f \in Discrete), exactpmf |-> ExactPmf(f)]

ASSUME Families \subseteq AllFamilies
ASSUME Emit => \A f \in Families : PrintT(ToJson(FamRec(f)))

Out(rec) == Emit => PrintT(ToJson(rec))

(* --------------------------------------------------------- the life cycle *)
Init == fam = "none" /\ a = 0 /\ b = 0

Cur(w) == PL[fam][IF w = 1 THEN a ELSE b]

New(f, i) ==
  /\ fam = "none"
  /\ LET p == PL[f][i] IN
     IF Valid(f, p)
     THEN /\ fam' = f /\ a' = i /\ b' = 0
          /\ Out([k |-> "t", op |-> "new", fam |-> f, a |-> 0, b |-> 0, w |-> 1, j |-> i, exp |-> "ok",
                  pmf |-> IF ExactPmf(f) THEN PmfTable(f, p) ELSE <<>>,
                  scale |-> IF ExactPmf(f) THEN PmfScale(f, p) ELSE One,
                  tail |-> IF f \in {"poisson", "negbinomial"} THEN RatioBound(f, p, PmfTop(f, p))
                           ELSE IF f = "geometric" THEN RPow(RSub(I(1), p[1]), KMax + 1) ELSE RZero,
                  far |-> FarExp(f, p)])
     ELSE /\ UNCHANGED vars
          /\ Out([k |-> "t", op |-> "new", fam |-> f, a |-> 0, b |-> 0, w |-> 1, j |-> i, exp |-> "error", why |-> InvalidWhy(f, p)])

(* constructor arguments that are not part of the parameter vector cannot be *)
(* changed by SetParameters (pseudo count of the wrappers)                   *)
Settable(f, p, q) == CASE f \in {"logt_normal", "logt_gamma"} -> p[3] = q[3]
                       [] f = "trans_exp" -> p[2] = q[2]
                       [] OTHER -> TRUE

SetP(w, j) ==
  /\ fam # "none"
  /\ w = 2 => b # 0
  /\ Settable(fam, Cur(w), PL[fam][j])
  /\ LET q == PL[fam][j] IN
     IF Valid(fam, q)
     THEN /\ (w = 2 => j <= CloneSets)
          /\ IF w = 1 THEN a' = j /\ b' = b ELSE b' = j /\ a' = a
          /\ fam' = fam
          /\ Out([k |-> "t", op |-> "set", fam |-> fam, a |-> a, b |-> b, w |-> w, j |-> j, exp |-> "ok"])
     ELSE (* rejected: the call fails loudly; what is left in the receiver is not specified (DESIGN 3.6) *)
          /\ UNCHANGED vars
          /\ Out([k |-> "t", op |-> "set", fam |-> fam, a |-> a, b |-> b, w |-> w, j |-> j, exp |-> "error", why |-> InvalidWhy(fam, q)])

CloneA ==
  /\ fam # "none" /\ b = 0
  /\ b' = a /\ UNCHANGED <<fam, a>>
  /\ Out([k |-> "t", op |-> "clone", fam |-> fam, a |-> a, b |-> 0, w |-> 1, j |-> a, exp |-> "ok"])

Eval(w, xs, st) ==
  /\ fam # "none"
  /\ w = 2 => b # 0
  /\ LET p == Cur(w)  s == Supp(fam, p, xs) IN
     Out([k |-> "t", op |-> "eval", fam |-> fam, a |-> a, b |-> b, w |-> w, j |-> 0, x |-> xs, st |-> st,
          cls |-> Class(s), v |-> Variant(fam, p, xs), kink |-> Kink(fam, p, xs),
          side |-> IF s = "out" THEN Side(fam, p, xs) ELSE "in",
          cdfq |-> IF fam \in Discrete /\ HasCdf(fam) THEN CdfQ(fam, p, xs[1]) ELSE RZero])
  /\ UNCHANGED vars

(* discrete distribution functions at +-Inf, +-2^63 and NaN: 0 below, 1 above, LogPdf = -Inf; *)
(* for NaN only "no panic" is demanded                                                        *)
EvalSp(w, tok) ==
  /\ fam \in Discrete /\ HasCdf(fam)
  /\ w = 2 => b # 0
  /\ Out([k |-> "t", op |-> "evalsp", fam |-> fam, a |-> a, b |-> b, w |-> w, j |-> 0, tok |-> tok, side |-> SpecialSide(tok)])
  /\ UNCHANGED vars

Next ==
  \/ \E f \in Families : \E i \in 1..Len(PL[f]) : New(f, i)
  \/ fam # "none" /\ \E w \in {1, 2} : \E j \in 1..Len(PL[fam]) : SetP(w, j)
  \/ CloneA
  \/ fam # "none" /\ \E w \in {1, 2} : (w = 2 => b # 0) /\ \E xs \in XGrid(fam, Cur(w)) :
                            \E st \in (IF b = 0 THEN Storages(fam) ELSE {"dense"}) : Eval(w, xs, st)
  \/ fam # "none" /\ \E w \in {1, 2} : \E tok \in SpecialToks : EvalSp(w, tok)

Spec == Init /\ [][Next]_vars

(* ------------------------------------------------------------ invariants *)
TypeOK == /\ fam \in Families \cup {"none"}
          /\ fam # "none" => a \in 1..NValid[fam] /\ b \in 0..NValid[fam]

(* every object the model ever holds is a PROPER discrete distribution *)
Normalised ==
  fam \in Families /\ ExactPmf(fam) =>
     /\ NormalisedAt(fam, PL[fam][a])
     /\ \A k \in 0..PmfTop(fam, PL[fam][a]) : NonNeg(PmfQ(fam, PL[fam][a], k))

(* the classification is consistent: a boundary point is a limit of support *)
(* points, the exact mass is positive exactly on the support                *)
SupportConsistent ==
  fam \in Families /\ ExactPmf(fam) =>
     \A k \in 0..PmfTop(fam, PL[fam][a]) :
        (Supp(fam, PL[fam][a], <<I(k)>>) = "in") <=> Pos(PmfQ(fam, PL[fam][a], k))
=============================================================================
