--------------------------- MODULE ContainersTrace ---------------------------
(***************************************************************************)
(* Trace validation (code -> model) for C03 / C09.                         *)
(*                                                                         *)
(* The recorder (harness/cmd/containers record) drives the REAL library    *)
(* with seeded random operation sequences over a pool of dense and sparse  *)
(* vectors and matrices of one element type and logs one event per call:   *)
(* operation, pool ids of receiver and operands, scalar operand, and the   *)
(* content of the receiver projected from the real object after the call   *)
(* (`post`), resp. the returned value (`ret`).  The specification keeps    *)
(* the abstract content of every pool object and applies the CONTRACT      *)
(* operators of Containers.tla; every logged observation must equal the    *)
(* content the contract demands -- whatever the storage of the objects     *)
(* involved and whatever history they went through.  All arguments are     *)
(* logged, so the search is linear.                                        *)
(*                                                                         *)
(* Events (every field present in every event, integers only):             *)
(*   reset                       a new trace starts, the pool is emptied   *)
(*   new   r rows cols c         pool[r] := a fresh object with content c  *)
(*   op    op r a b s            r.op(a, b | s)                            *)
(***************************************************************************)
EXTENDS Containers, Json

CONSTANT MaxId

Trace == ndJsonDeserialize("containers_trace.ndjson")

VARIABLES l, pool
tvars == <<l, pool>>

Ids   == 1..MaxId
NoObj == [rows |-> 0, cols |-> -1, c |-> <<>>]
Ev    == Trace[l]

Lift(cc)   == SeqOf(Len(cc), LAMBDA i : <<cc[i], 0>>)
ValsOf(tt) == SeqOf(Len(tt), LAMBDA i : tt[i][1])
AllFinite(tt) == \A i \in 1..Len(tt) : tt[i][3] = 0
Cells(o)   == IF o.cols < 0 THEN o.rows ELSE o.rows * o.cols
IsVec(o)   == o.cols < 0
SameShape(x, y) == x.rows = y.rows /\ x.cols = y.cols

\* shapes the operation is defined for (receiver R, operands A, B)
ShapesOK(op, R, A, B) ==
  CASE op \in {"VaddV", "VsubV", "VmulV", "VdivV"} -> IsVec(R) /\ SameShape(R, A) /\ SameShape(R, B)
    [] op \in {"MaddM", "MsubM", "MmulM", "MdivM"} -> ~IsVec(R) /\ SameShape(R, A) /\ SameShape(R, B)
    [] op \in {"VaddS", "VsubS", "VmulS", "VdivS"} -> IsVec(R) /\ SameShape(R, A)
    [] op \in {"MaddS", "MsubS", "MmulS", "MdivS"} -> ~IsVec(R) /\ SameShape(R, A)
    [] op = "Set"         -> SameShape(R, A)
    [] op = "Reset"       -> TRUE
    [] op = "SetIdentity" -> ~IsVec(R)
    [] op = "MdotV"       -> IsVec(R) /\ ~IsVec(A) /\ IsVec(B) /\ A.rows = R.rows /\ A.cols = B.rows /\ A.cols > 0
    [] op = "VdotM"       -> IsVec(R) /\ IsVec(A) /\ ~IsVec(B) /\ B.cols = R.rows /\ B.rows = A.rows /\ B.rows > 0
    [] op = "MdotM"       -> ~IsVec(R) /\ ~IsVec(A) /\ ~IsVec(B) /\ A.rows = R.rows /\ B.cols = R.cols /\ A.cols = B.rows
    [] op = "Outer"       -> ~IsVec(R) /\ IsVec(A) /\ IsVec(B) /\ A.rows = R.rows /\ B.rows = R.cols
    [] OTHER -> FALSE
InnerOf(op, A, B) == CASE op = "MdotV" -> A.cols [] op = "VdotM" -> B.rows [] op = "MdotM" -> A.cols [] OTHER -> 0

Operand(id) == IF id = 0 THEN NoObj ELSE pool[id]

TReset == /\ Ev.e = "reset"
          /\ pool' = [i \in Ids |-> NoObj]
TNew   == /\ Ev.e = "new" /\ Ev.r \in Ids
          /\ Len(Ev.c) = (IF Ev.cols < 0 THEN Ev.rows ELSE Ev.rows * Ev.cols)
          /\ pool' = [pool EXCEPT ![Ev.r] = [rows |-> Ev.rows, cols |-> Ev.cols, c |-> Ev.c]]
\* operations that write the receiver
TOp    == /\ Ev.e = "op" /\ Ev.op \notin {"Equals", "VdotV"} /\ Ev.r \in Ids
          /\ LET R == pool[Ev.r]
                 A == Operand(Ev.a)
                 B == Operand(Ev.b)
             IN /\ ShapesOK(Ev.op, R, A, B)
                /\ LET res == Result(Ev.op, Lift(A.c), Lift(B.c), <<Ev.s, 0>>, <<R.rows, R.cols, InnerOf(Ev.op, A, B)>>)
                   IN /\ AllFinite(res)          \* the recorder never divides by zero
                      /\ pool' = [pool EXCEPT ![Ev.r].c = ValsOf(res)]
\* read-only operations: the returned value is an observation
TRead  == /\ Ev.e = "op" /\ Ev.op \in {"Equals", "VdotV"}
          /\ (Ev.op = "Equals" => SameShape(pool[Ev.r], pool[Ev.a]))
          /\ (Ev.op = "VdotV" => IsVec(pool[Ev.a]) /\ SameShape(pool[Ev.a], pool[Ev.b]))
          /\ UNCHANGED pool

TraceInit == l = 1 /\ pool = [i \in Ids |-> NoObj]
TraceNext == l <= Len(Trace) /\ l' = l + 1 /\ (TReset \/ TNew \/ TOp \/ TRead)
TraceSpec == TraceInit /\ [][TraceNext]_tvars

(* the observation logged with the event that produced the current state *)
ObsOK ==
  l > 1 =>
    LET e == Trace[l - 1] IN
    CASE e.e = "reset" -> TRUE
      [] e.e = "new"   -> e.post = pool[e.r].c
      [] e.e = "op" /\ e.op = "Equals" ->
            e.ret = (IF SameValues(Lift(pool[e.r].c), Lift(pool[e.a].c)) THEN 1 ELSE 0)
      [] e.e = "op" /\ e.op = "VdotV" -> e.ret = Dot(Lift(pool[e.a].c), Lift(pool[e.b].c))[1]
      [] OTHER -> e.post = pool[e.r].c

TraceAccepted ==
  IF TLCGet("stats").diameter - 1 = Len(Trace) THEN TRUE
  ELSE Print(<<"TRACE_REJECTED_AT", TLCGet("stats").diameter, "OF", Len(Trace)>>, FALSE)
=============================================================================
