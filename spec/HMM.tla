--------------------------------- MODULE HMM ---------------------------------
(***************************************************************************)
(* C15, model -> code.  Case generator for hidden Markov models: a case is *)
(* built step by step (number of states, initial weights, transition rows, *)
(* state -> emission map, emission tables, start set, final set, data set  *)
(* of 1..MaxSeqs observation sequences, two state sets A and B from which  *)
(* the queried state-set sequences are formed) and then SOLVED: the        *)
(* contract of HMMCore (explicit enumeration of all m^n hidden paths) is   *)
(* evaluated, the mechanism (forward/backward, restricted forward pass,    *)
(* Viterbi with back-pointers) is evaluated next to it, `ok` records       *)
(* "mechanism = contract" (INVARIANT MechRefinesContract), and the case    *)
(* with everything the contract demands is printed as one JSON line for    *)
(* the Go driver (harness/cmd/hmm replay).                                 *)
(*                                                                         *)
(* Breadth-first search enumerates the whole tree of cases for the         *)
(* constants of the cfg (exhaustive families); `-simulate` walks random    *)
(* branches of a much larger tree (one solved case per trace).             *)
(***************************************************************************)
EXTENDS HMMCore, Json

CONSTANTS
  MinM, MaxM,      \* number of states
  MinN, MaxN,      \* sequence lengths
  MaxSeqs,         \* sequences per data set
  WVals,           \* integer weights of Pi and of the rows of Tr
  RowSum,          \* 0: any non-zero row; s > 0: only rows (and Pi) with sum s
  EVals, EDen,     \* emission weights and their common denominator
  NSym,            \* alphabet size
  SmapMode,        \* "all" | "canon" (restricted growth strings) | "id"
  RestrMode,       \* "all" subsets | "single" (none + singletons) | "none"
  QMode,           \* "all" pairs of subsets | "few" (three pairs) | "one"
  Emit             \* print the cases

VARIABLES st, ok
vars == <<st, ok>>

(* index tables of the path spaces, constant definitions (evaluated once) *)
TAB == Tup([m \in 1..MaxM |-> Tup([n \in 1..MaxN |-> Tables(m, n)], MaxN)], MaxM)
(* evaluated at start-up: forces the tables to be computed once and checks them *)
ASSUME \A m \in 1..MaxM : \A n \in 1..MaxN : (NPaths(m, n) <= 300) => TablesOK(TAB[m][n], m, n)

Rows(m) == {r \in [1..m -> WVals] : LET s == SumInts(r, 1, m) IN s > 0 /\ (RowSum = 0 \/ s = RowSum)}

Smaps(m) ==
  IF SmapMode = "id" THEN {[i \in 1..m |-> i]}
  ELSE IF SmapMode = "canon"
       THEN {f \in [1..m -> 1..m] : f[1] = 1 /\ \A i \in 2..m : \E j \in 1..(i-1) : f[i] <= f[j] + 1}
       ELSE [1..m -> 1..m]
NClasses(smap, m) == MaxInts(smap, 1, m)

Restrictions(m) ==
  IF RestrMode = "none" THEN {{}}
  ELSE IF RestrMode = "single" THEN {{}} \cup {{i} : i \in 1..m}
       ELSE SUBSET (1..m)                       \* {} = no restriction

QPairs(m) ==
  IF QMode = "all" THEN (SUBSET (1..m)) \X (SUBSET (1..m))
  ELSE IF QMode = "few" THEN {<<{1}, 1..m>>, <<1..m, {m}>>, <<{1}, {m}>>}
       ELSE {<<{1}, {m}>>}

Lens == {<<a>> : a \in MinN..MaxN} \cup
        (IF MaxSeqs >= 2 THEN {<<a, b>> : a \in MinN..MaxN, b \in MinN..MaxN} ELSE {})

Blank(mm) == [stage |-> "pi", m |-> mm, pi |-> <<>>, tr |-> <<>>, smap |-> <<>>, em |-> <<>>,
              start |-> {}, final |-> {}, lens |-> <<>>, xs |-> <<>>, A |-> {}, B |-> {}]

Model(s) == [m |-> s.m, pi |-> s.pi, tr |-> s.tr, smap |-> s.smap, em |-> s.em, eden |-> EDen,
             start |-> s.start, final |-> s.final]

Init == /\ st \in {Blank(mm) : mm \in MinM..MaxM}
        /\ ok = TRUE

ChoosePi ==
  /\ st.stage = "pi"
  /\ \E p \in Rows(st.m) : st' = [st EXCEPT !.pi = p, !.stage = "tr"]
  /\ UNCHANGED ok

ChooseTrRow ==
  /\ st.stage = "tr"
  /\ \E r \in Rows(st.m) :
       st' = [st EXCEPT !.tr = Append(@, r),
                        !.stage = IF Len(st.tr) + 1 = st.m THEN "smap" ELSE "tr"]
  /\ UNCHANGED ok

ChooseSmap ==
  /\ st.stage = "smap"
  /\ \E f \in Smaps(st.m) : st' = [st EXCEPT !.smap = f, !.stage = "em"]
  /\ UNCHANGED ok

ChooseEmRow ==
  /\ st.stage = "em"
  /\ \E e \in [1..NSym -> EVals] :
       st' = [st EXCEPT !.em = Append(@, e),
                        !.stage = IF Len(st.em) + 1 = NClasses(st.smap, st.m) THEN "start" ELSE "em"]
  /\ UNCHANGED ok

ChooseStart ==
  /\ st.stage = "start"
  /\ \E S \in Restrictions(st.m) :
       /\ SumInts(PiRaw([m |-> st.m, pi |-> st.pi, start |-> S]), 1, st.m) > 0
       /\ st' = [st EXCEPT !.start = S, !.stage = "final"]
  /\ UNCHANGED ok

ChooseFinal ==
  /\ st.stage = "final"
  /\ \E F \in Restrictions(st.m) :
       /\ ValidModel(Model([st EXCEPT !.final = F]))
       /\ st' = [st EXCEPT !.final = F, !.stage = "lens"]
  /\ UNCHANGED ok

ChooseLens ==
  /\ st.stage = "lens"
  /\ \E l \in Lens : st' = [st EXCEPT !.lens = l, !.stage = "xs"]
  /\ UNCHANGED ok

ChooseSeq ==
  /\ st.stage = "xs"
  /\ \E x \in [1..st.lens[Len(st.xs) + 1] -> 0..(NSym - 1)] :
       st' = [st EXCEPT !.xs = Append(@, x),
                        !.stage = IF Len(st.xs) + 1 = Len(st.lens) THEN "q" ELSE "xs"]
  /\ UNCHANGED ok

ChooseQ ==
  /\ st.stage = "q"
  /\ \E ab \in QPairs(st.m) : st' = [st EXCEPT !.A = ab[1], !.B = ab[2], !.stage = "solve"]
  /\ UNCHANGED ok

(* The whole evaluation happens inside ONE operator application: TLC caches *)
(* the (lazily evaluated) arguments and LET definitions of an operator that *)
(* is evaluated as a value, but not LET definitions at the action level.    *)
CaseOut(s) ==
  LET P    == Prep(Model(s))
      sols == Tup([r \in 1..Len(s.xs) |-> Solve(P, s.xs[r], s.A, s.B, s.final, TAB[s.m][Len(s.xs[r])])], Len(s.xs))
  IN [good |-> \A r \in 1..Len(s.xs) : sols[r].mech,
      out  |-> [m |-> s.m, pi |-> s.pi, tr |-> s.tr, smap |-> s.smap, em |-> s.em, eden |-> EDen,
                start |-> s.start, final |-> s.final, seqs |-> sols]]
Report(res) == IF res.good THEN (Emit => PrintT(ToJson(res.out))) ELSE FALSE

SolveCase ==
  /\ st.stage = "solve"
  /\ ok' = Report(CaseOut(st))
  /\ st' = [st EXCEPT !.stage = "done"]

Next == ChoosePi \/ ChooseTrRow \/ ChooseSmap \/ ChooseEmRow \/ ChooseStart \/ ChooseFinal
        \/ ChooseLens \/ ChooseSeq \/ ChooseQ \/ SolveCase

Spec == Init /\ [][Next]_vars

MechRefinesContract == ok
=============================================================================
