---------------------------- MODULE AliasingTrace ----------------------------
(***************************************************************************)
(* Trace validation (code -> model) for C08.                               *)
(*                                                                         *)
(* The recorder (harness/cmd/alias record) drives the REAL library with    *)
(* seeded random programs in which every call picks receiver and operands  *)
(* at random from a small pool, so that every alias pattern occurs:        *)
(*                                                                         *)
(*  scalars    a pool of magic scalars holding small INTEGER jets          *)
(*             (value, gradient, Hessian w.r.t. two variables); calls      *)
(*             r.Op(a, b) with Op in Add Sub Mul Neg, r, a, b any pool     *)
(*             members (r = a, r = b, r = a = b, a = b included),          *)
(*             operands of order 0, 1 and 2 mixed.  Integer jets are exact *)
(*             in float32/float64, so the logged observation must EQUAL    *)
(*             the jet the sum / product rule gives on the PRE-state.      *)
(*  containers a pool of dense parents (two 3x3 matrices, two vectors of   *)
(*             length 4); receiver and operands are random views (whole,   *)
(*             slice, transpose) of random parents; the logged contents of *)
(*             ALL parents after the call must equal the contract of       *)
(*             AliasingViews.tla (CResult on the pre-state, WriteBack).    *)
(*                                                                         *)
(* Events:                                                                 *)
(*   reset                          a new trace: both pools are emptied    *)
(*   svar   id k ord val            pool[id] := variable x_k (order ord)   *)
(*   sconst id val                  pool[id] := constant of order 0        *)
(*   sop    op r a b post           r.op(a, b); post = [v, g, h] read from *)
(*                                  the real receiver after the call       *)
(*   cnew   id rows cols c          parent[id] := content c (integers)     *)
(*   cop    op r a b s post         r.op(a, b | s) on views; post = the    *)
(*                                  contents of all parents after the call *)
(* All arguments are logged, the machine is deterministic: the search is   *)
(* linear.                                                                 *)
(***************************************************************************)
EXTENDS AliasingViews, Json

CONSTANTS NS,      \* size of the scalar pool
          NP       \* number of container parents

Trace == ndJsonDeserialize("alias_trace.ndjson")

VARIABLES l, sp, cp
tvars == <<l, sp, cp>>

Ev == Trace[l]

(* ---- integer jets (n = 2) --------------------------------------------------- *)
Zero2  == <<0, 0>>
Zero22 == <<Zero2, Zero2>>
Jet(v, g, h, ord) == [v |-> v, g |-> g, h |-> h, ord |-> ord]
NoJet == Jet(0, Zero2, Zero22, -1)
\* an order-1 scalar carries no second derivatives, an order-0 scalar none at all
G(x, i)    == IF x.ord >= 1 THEN x.g[i] ELSE 0
H(x, i, j) == IF x.ord >= 2 THEN x.h[i][j] ELSE 0
MaxOrd(x, y) == IF x.ord > y.ord THEN x.ord ELSE y.ord

\* sum and product rule on the PRE-state jets: the contract of r.Op(a, b)
JetOp(op, x, y) ==
  LET ord == IF op = "Neg" THEN x.ord ELSE MaxOrd(x, y)
      val == CASE op = "Add" -> x.v + y.v [] op = "Sub" -> x.v - y.v
               [] op = "Mul" -> x.v * y.v [] op = "Neg" -> -x.v
      gi(i) == CASE op = "Add" -> G(x, i) + G(y, i) [] op = "Sub" -> G(x, i) - G(y, i)
                 [] op = "Mul" -> G(x, i) * y.v + x.v * G(y, i) [] op = "Neg" -> -G(x, i)
      hij(i, j) == CASE op = "Add" -> H(x, i, j) + H(y, i, j) [] op = "Sub" -> H(x, i, j) - H(y, i, j)
                     [] op = "Mul" -> H(x, i, j) * y.v + x.v * H(y, i, j) + G(x, i) * G(y, j) + G(y, i) * G(x, j)
                     [] op = "Neg" -> -H(x, i, j)
  IN Jet(val,
         IF ord >= 1 THEN <<gi(1), gi(2)>> ELSE Zero2,
         IF ord >= 2 THEN << <<hij(1, 1), hij(1, 2)>>, <<hij(2, 1), hij(2, 2)>> >> ELSE Zero22,
         ord)

(* ---- containers --------------------------------------------------------------- *)
NoParent == [rows |-> 0, cols |-> -1, c |-> <<>>]
LiftC(cc) == SeqOf(Len(cc), LAMBDA i : <<cc[i], 0>>)
\* parents as AliasingViews wants them (duals)
Lifted == [q \in 1..NP |-> [rows |-> cp[q].rows, cols |-> cp[q].cols, c |-> LiftC(cp[q].c)]]
ValsOfP(P) == [q \in 1..Len(P) |-> SeqOf(Len(P[q].c), LAMBDA i : P[q].c[i][1])]
IsVecView(P, v) == VCols(P, v) < 0
InBounds(P, v) ==
  /\ v.p \in 1..NP /\ P[v.p].rows > 0
  /\ IF P[v.p].cols < 0 THEN v.t = 0 /\ 0 <= v.r0 /\ v.r0 < v.r1 /\ v.r1 <= P[v.p].rows
     ELSE /\ v.t \in {0, 1}
          /\ 0 <= v.r0 /\ v.r0 < v.r1 /\ v.r1 <= P[v.p].rows
          /\ 0 <= v.c0 /\ v.c0 < v.c1 /\ v.c1 <= P[v.p].cols
SameShapeV(P, x, y) == VRows(P, x) = VRows(P, y) /\ VCols(P, x) = VCols(P, y)
ShapesOK(op, P, r, a, b) ==
  CASE op \in {"VaddV", "VsubV", "VmulV"} -> IsVecView(P, r) /\ SameShapeV(P, r, a) /\ SameShapeV(P, r, b)
    [] op \in {"MaddM", "MsubM", "MmulM"} -> ~IsVecView(P, r) /\ SameShapeV(P, r, a) /\ SameShapeV(P, r, b)
    [] op \in {"VaddS", "VsubS", "VmulS"} -> IsVecView(P, r) /\ SameShapeV(P, r, a)
    [] op \in {"MaddS", "MsubS", "MmulS"} -> ~IsVecView(P, r) /\ SameShapeV(P, r, a)
    [] op = "MdotM" -> /\ ~IsVecView(P, r) /\ ~IsVecView(P, a) /\ ~IsVecView(P, b)
                       /\ VRows(P, a) = VRows(P, r) /\ VCols(P, b) = VCols(P, r) /\ VCols(P, a) = VRows(P, b)
    [] op = "MdotV" -> /\ IsVecView(P, r) /\ ~IsVecView(P, a) /\ IsVecView(P, b)
                       /\ VRows(P, a) = VRows(P, r) /\ VCols(P, a) = VRows(P, b)
    [] op = "VdotM" -> /\ IsVecView(P, r) /\ IsVecView(P, a) /\ ~IsVecView(P, b)
                       /\ VCols(P, b) = VRows(P, r) /\ VRows(P, b) = VRows(P, a)
    [] op = "Outer" -> /\ ~IsVecView(P, r) /\ IsVecView(P, a) /\ IsVecView(P, b)
                       /\ VRows(P, a) = VRows(P, r) /\ VRows(P, b) = VCols(P, r)
    [] OTHER -> FALSE
HasB(op) == op \in {"VaddV", "VsubV", "VmulV", "MaddM", "MsubM", "MmulM", "MdotM", "MdotV", "VdotM", "Outer"}

(* ---- actions --------------------------------------------------------------------- *)
TReset  == /\ Ev.e = "reset"
           /\ sp' = [i \in 1..NS |-> NoJet]
           /\ cp' = [q \in 1..NP |-> NoParent]
TSVar   == /\ Ev.e = "svar" /\ Ev.id \in 1..NS /\ Ev.k \in {1, 2} /\ Ev.ord \in {1, 2}
           /\ sp' = [sp EXCEPT ![Ev.id] = Jet(Ev.val, IF Ev.k = 1 THEN <<1, 0>> ELSE <<0, 1>>, Zero22, Ev.ord)]
           /\ UNCHANGED cp
TSConst == /\ Ev.e = "sconst" /\ Ev.id \in 1..NS
           /\ sp' = [sp EXCEPT ![Ev.id] = Jet(Ev.val, Zero2, Zero22, 0)]
           /\ UNCHANGED cp
\* r.op(a, b): the post-state of r from the PRE-state of a and b, whatever ids coincide
TSOp    == /\ Ev.e = "sop" /\ Ev.r \in 1..NS /\ Ev.a \in 1..NS
           /\ sp[Ev.a].ord >= 0
           /\ (Ev.op # "Neg" => Ev.b \in 1..NS /\ sp[Ev.b].ord >= 0)
           /\ Ev.op \in {"Add", "Sub", "Mul", "Neg"}
           /\ sp' = [sp EXCEPT ![Ev.r] = JetOp(Ev.op, sp[Ev.a], IF Ev.op = "Neg" THEN sp[Ev.a] ELSE sp[Ev.b])]
           /\ UNCHANGED cp
TCNew   == /\ Ev.e = "cnew" /\ Ev.id \in 1..NP
           /\ Len(Ev.c) = (IF Ev.cols < 0 THEN Ev.rows ELSE Ev.rows * Ev.cols)
           /\ cp' = [cp EXCEPT ![Ev.id] = [rows |-> Ev.rows, cols |-> Ev.cols, c |-> Ev.c]]
           /\ UNCHANGED sp
TCOp    == /\ Ev.e = "cop"
           /\ LET P == Lifted
                  b == IF HasB(Ev.op) THEN Ev.b ELSE NoView
              IN /\ InBounds(P, Ev.r) /\ InBounds(P, Ev.a) /\ (HasB(Ev.op) => InBounds(P, Ev.b))
                 /\ ShapesOK(Ev.op, P, Ev.r, Ev.a, b)
                 /\ LET res == CResult(Ev.op, P, Ev.r, Ev.a, b, <<Ev.s, 0>>)
                    IN /\ AllFin(res)
                       /\ cp' = [q \in 1..NP |-> [cp[q] EXCEPT !.c = ValsOfP(WriteBack(P, Ev.r, res))[q]]]
           /\ UNCHANGED sp

TraceInit == l = 1 /\ sp = [i \in 1..NS |-> NoJet] /\ cp = [q \in 1..NP |-> NoParent]
TraceNext == l <= Len(Trace) /\ l' = l + 1 /\ (TReset \/ TSVar \/ TSConst \/ TSOp \/ TCNew \/ TCOp)
TraceSpec == TraceInit /\ [][TraceNext]_tvars

(* the observation logged with the event that produced the current state *)
ObsOK ==
  l > 1 =>
    LET e == Trace[l - 1] IN
    CASE e.e \in {"svar", "sconst", "sop"} ->
           LET x == sp[IF e.e = "sop" THEN e.r ELSE e.id] IN
           /\ e.post.v = x.v
           /\ e.post.g = <<G(x, 1), G(x, 2)>>
           /\ e.post.h = << <<H(x, 1, 1), H(x, 1, 2)>>, <<H(x, 2, 1), H(x, 2, 2)>> >>
      [] e.e = "cnew" -> e.post = [q \in 1..NP |-> cp[q].c]
      [] e.e = "cop"  -> e.post = [q \in 1..NP |-> cp[q].c]
      [] OTHER -> TRUE

TraceAccepted ==
  IF TLCGet("stats").diameter - 1 = Len(Trace) THEN TRUE
  ELSE Print(<<"TRACE_REJECTED_AT", TLCGet("stats").diameter, "OF", Len(Trace)>>, FALSE)
=============================================================================
