------------------------------ MODULE JointIter ------------------------------
(***************************************************************************)
(* MECHANISM layer for C03/C09: the generic two- and three-way joint       *)
(* iterators of sparse vectors (vector_sparse_template.in: JOINT_ITERATOR, *)
(* JOINT3_ITERATOR; the matrix iterators have the same structure over      *)
(* row-major positions), transcribed statement by statement from the code  *)
(* AFTER the repair of root cause V1.  With Buggy = TRUE, Ok() is the      *)
(* pre-repair version that tests the VALUES of the current entries.        *)
(*                                                                         *)
(* Stream 1 is the receiver's own iterator (sparse: stored keys in         *)
(* ascending order, skip() passes -- and deletes -- entries that hold a    *)
(* zero).  Streams 2 and 3 are ConstVector iterators of the operands:      *)
(*   sparse: the same; dense: every index 0..N-1, zeros included.          *)
(* The consumer is an element-wise operation: at every visited position    *)
(* where the receiver delivered no entry it creates one (r.AT(idx)).       *)
(*                                                                         *)
(* Contract of the walk (what every sparse element-wise operation relies   *)
(* on):                                                                    *)
(*   Ascending     positions are visited in strictly ascending order;      *)
(*   Fidelity      at a visited position the values handed out are the     *)
(*                 operands' contents there (0 for an absent entry) and    *)
(*                 the receiver entry is handed out iff it is stored;      *)
(*   OnlyStored    only positions delivered by some stream are visited;    *)
(*   Complete      the walk does not stop while some operand still has a   *)
(*                 non-zero entry at an unvisited position.                *)
(***************************************************************************)
EXTENDS Integers, Sequences, FiniteSets, TLC, Json

CONSTANTS N,        \* positions 0..N-1
          Ways,     \* 2 or 3
          Buggy,    \* TRUE: Ok() as before the repair (value based)
          Kinds,    \* storage kinds of the operand streams 2, 3: subset of {"dense", "sparse"}
          Emit      \* print every finished walk (for the comparison with the real iterators)

Idx  == 0..(N - 1)
Done == N            \* iterator exhausted
Vals == {0, 1}

VARIABLES ops,      \* ops[i] = [kind, val : Idx -> Vals, stored : SUBSET Idx]; ops[1] is the receiver (sparse)
          ops0,     \* the operands before the walk
          it,       \* iterator state
          visited,  \* sequence of visits [idx, h1, v2, v3]
          phase     \* "walk" | "done"
vars == <<ops, ops0, it, visited, phase>>

(* ---- streams ---------------------------------------------------------- *)
Keys(o) == IF o.kind = "dense" THEN Idx ELSE {k \in o.stored : o.val[k] # 0}    \* skip() passes stored zeros
MinOf(S) == CHOOSE x \in S : \A y \in S : x <= y
\* position of stream o after Next() from position p (p = -1: a fresh iterator)
Adv(o, p) == LET C == {k \in Keys(o) : k > p} IN IF C = {} THEN Done ELSE MinOf(C)
Content(o, k) == IF k \in Keys(o) THEN o.val[k] ELSE 0

DenseReps  == {[kind |-> "dense", val |-> v, stored |-> Idx] : v \in [Idx -> Vals]}
SparseReps == UNION {{[kind |-> "sparse", val |-> v, stored |-> s] :
                        s \in {t \in SUBSET Idx : \A k \in Idx : v[k] # 0 => k \in t}} : v \in [Idx -> Vals]}
Reps(kinds) == (IF "dense" \in kinds THEN DenseReps ELSE {}) \cup (IF "sparse" \in kinds THEN SparseReps ELSE {})
Empty == [kind |-> "sparse", val |-> [k \in Idx |-> 0], stored |-> {}]

(* ---- Next() of the joint iterators, as coded ---------------------------- *)
\* st = [p1, p2, p3: stream positions; idx; h1, h2, h3: "s_i was delivered (non-nil)"; ok]
Next2(st) ==
  LET ok1 == st.p1 # Done
      ok2 == st.p2 # Done
      idxA == IF ok1 THEN st.p1 ELSE st.idx                 \* if ok1 { idx = it1.Index(); s1 = it1.GET() }
      take2 == ok2 /\ (idxA > st.p2 \/ ~ok1)                \* case idx > it2.Index() || !ok1
      both2 == ok2 /\ ~take2 /\ idxA = st.p2                \* case idx == it2.Index()
      idxB == IF take2 THEN st.p2 ELSE idxA
      h1 == IF take2 THEN FALSE ELSE ok1
      h2 == take2 \/ both2
  IN [p1 |-> IF h1 THEN Adv(ops[1], st.p1) ELSE st.p1,      \* if s1 != nil { it1.Next() }
      p2 |-> IF h2 THEN Adv(ops[2], st.p2) ELSE st.p2,      \* if s2 != nil { it2.Next() } else { s2 = 0 }
      p3 |-> st.p3, idx |-> idxB, h1 |-> h1, h2 |-> h2, h3 |-> FALSE,
      ok |-> h1 \/ h2]                                       \* obj.ok = s1 != nil || s2 != nil   (the repair)

Next3(st) ==
  LET ok1 == st.p1 # Done
      ok2 == st.p2 # Done
      ok3 == st.p3 # Done
      idxA == IF ok1 THEN st.p1 ELSE st.idx
      take2 == ok2 /\ (idxA > st.p2 \/ ~ok1)
      both2 == ok2 /\ ~take2 /\ idxA = st.p2
      idxB == IF take2 THEN st.p2 ELSE idxA
      h1B == IF take2 THEN FALSE ELSE ok1
      h2B == take2 \/ both2
      take3 == ok3 /\ (idxB > st.p3 \/ (~ok1 /\ ~ok2))      \* case idx > i || (!ok1 && !ok2)
      both3 == ok3 /\ ~take3 /\ idxB = st.p3
      idxC == IF take3 THEN st.p3 ELSE idxB
      h1 == IF take3 THEN FALSE ELSE h1B
      h2 == IF take3 THEN FALSE ELSE h2B
      h3 == take3 \/ both3
  IN [p1 |-> IF h1 THEN Adv(ops[1], st.p1) ELSE st.p1,
      p2 |-> IF h2 THEN Adv(ops[2], st.p2) ELSE st.p2,
      p3 |-> IF h3 THEN Adv(ops[3], st.p3) ELSE st.p3,
      idx |-> idxC, h1 |-> h1, h2 |-> h2, h3 |-> h3,
      ok |-> h1 \/ h2 \/ h3]

NextJ(st) == IF Ways = 2 THEN Next2(st) ELSE Next3(st)

\* values handed to the consumer at the current position
V1(st) == IF st.h1 THEN ops[1].val[st.idx] ELSE 0
V2(st) == IF st.h2 THEN ops[2].val[st.idx] ELSE 0           \* absent: CONST_SCALAR_TYPE(0.0)
V3(st) == IF st.h3 THEN ops[3].val[st.idx] ELSE 0

Ok(st) == IF Buggy
          THEN (st.h1 /\ V1(st) # 0) \/ (st.h2 /\ V2(st) # 0) \/ (st.h3 /\ V3(st) # 0)   \* pre-repair: value based
          ELSE st.ok

(* ---- the walk ------------------------------------------------------------ *)
Fresh == [p1 |-> Adv(ops[1], -1), p2 |-> Adv(ops[2], -1), p3 |-> IF Ways = 3 THEN Adv(ops[3], -1) ELSE Done,
          idx |-> -1, h1 |-> FALSE, h2 |-> FALSE, h3 |-> FALSE, ok |-> FALSE]

Init ==
  /\ ops \in {<<r, a, b>> : r \in Reps({"sparse"}), a \in Reps(Kinds), b \in (IF Ways = 3 THEN Reps(Kinds) ELSE {Empty})}
  /\ ops0 = ops
  /\ it = NextJ(Fresh)                 \* the constructor calls Next() once
  /\ visited = <<>>
  /\ phase = "walk"

Visit(st) == [idx |-> st.idx, h1 |-> st.h1, v2 |-> V2(st), v3 |-> V3(st)]
\* what the element-wise operation stores at the position (values in {0, 1}: no cancellation)
Written(st) == IF V1(st) + V2(st) + V3(st) > 0 THEN 1 ELSE 0

Required == {k \in Idx : \E i \in 1..3 : Content(ops0[i], k) # 0}     \* positions that must be visited
Allowed  == UNION {Keys(ops0[i]) : i \in 1..3}                         \* positions that may be visited

Step ==
  /\ phase = "walk"
  /\ IF Ok(it)
     THEN /\ visited' = Append(visited, Visit(it))
          \* consumer: if s_r == nil { s_r = r.AT(idx) }; s_r.Op(s_a, s_b)
          /\ ops' = [ops EXCEPT ![1].stored = @ \cup {it.idx}, ![1].val[it.idx] = Written(it)]
          /\ it' = NextJ(it)
          /\ phase' = "walk"
     ELSE /\ phase' = "done"
          /\ UNCHANGED <<ops, it, visited>>
  /\ UNCHANGED ops0

Spec == Init /\ [][Step]_vars

(* ---- contract of the walk ------------------------------------------------ *)
VisitedSet == {visited[k].idx : k \in 1..Len(visited)}
Ascending  == \A k \in 1..(Len(visited) - 1) : visited[k].idx < visited[k + 1].idx
\* Fidelity is stated on the CURRENT iterator state against the current operands (the
\* receiver is only ever modified at positions already visited)
Fidelity ==
  (phase = "walk" /\ Ok(it)) =>
     /\ it.idx \in Idx
     /\ V2(it) = Content(ops[2], it.idx)
     /\ V3(it) = Content(ops[3], it.idx)
     /\ it.h1 = (it.idx \in Keys(ops[1]))
OnlyStored == VisitedSet \subseteq Allowed
Complete   == phase = "done" => Required \subseteq VisitedSet
Terminates == Len(visited) <= N

(* finished walks, for the comparison with the real iterators *)
Printed ==
  (phase = "done" /\ Emit) =>
     PrintT(ToJson([ways |-> Ways, n |-> N,
                    ops |-> [i \in 1..3 |-> [kind |-> ops0[i].kind, val |-> [k \in 1..N |-> ops0[i].val[k - 1]],
                                             stored |-> ops0[i].stored]],
                    required |-> Required, allowed |-> Allowed,
                    walk |-> visited]))
=============================================================================
