----------------------------- MODULE PoolNested -----------------------------
(***************************************************************************)
(* C17, nested job groups.  The */mixture.go and */hmm.go estimators run    *)
(* one range job per component/emission whose body calls an estimator's    *)
(* Estimate, which itself submits jobs to the SAME pool and waits for them  *)
(* from a worker thread.  Model of pbenner/threadpool under that pattern:  *)
(* bounded channel, AddJob that enqueues or runs inline when the buffer is  *)
(* full, Wait in which the waiting thread acts as a worker and otherwise    *)
(* blocks, per-thread call STACKS (a thread suspended in a nested Wait      *)
(* executes further jobs), NO outer x NI inner jobs.  Checked: every job    *)
(* runs exactly once, no deadlock, termination under weak fairness.         *)
(* NoReentrancy is a vacuity witness that MUST be violated: a thread can    *)
(* hold two outer frames, so an outer job body must not keep per-thread     *)
(* scratch across its nested Wait (no current call site does: the outer    *)
(* bodies of Emissions own no per-thread scratch).                          *)
(***************************************************************************)
EXTENDS Integers, Sequences, FiniteSets, TLC
CONSTANTS W, NO, NI, B
Threads == 0..(W-1)
Outers == 1..NO
G0 == 0                       \* job group of the outer jobs; group o (>=1) holds the inner jobs of outer o
VARIABLES chan, wg, stack, outerDone, innerDone, finished
vars == <<chan, wg, stack, outerDone, innerDone, finished>>

\* frames: [k |-> "main"|"outer"|"inner", o, i, pc]
Main0 == [k |-> "main", o |-> 0, i |-> 1, pc |-> "adding"]
OuterF(o) == [k |-> "outer", o |-> o, i |-> 1, pc |-> "adding"]
InnerF(o, i) == [k |-> "inner", o |-> o, i |-> i, pc |-> "run"]
FrameOf(job) == IF job[1] = "O" THEN OuterF(job[2]) ELSE InnerF(job[2], job[3])

Top(t) == stack[t][Len(stack[t])]
SetTop(t, f) == [stack EXCEPT ![t] = [stack[t] EXCEPT ![Len(stack[t])] = f]]
Push(st, t, f) == [st EXCEPT ![t] = Append(st[t], f)]
Pop(t) == [stack EXCEPT ![t] = SubSeq(stack[t], 1, Len(stack[t]) - 1)]

Init == /\ chan = <<>> /\ wg = [g \in 0..NO |-> 0]
        /\ stack = [t \in Threads |-> IF t = 0 THEN <<Main0>> ELSE <<>>]
        /\ outerDone = [o \in Outers |-> 0]
        /\ innerDone = [o \in Outers |-> [i \in 1..NI |-> 0]]
        /\ finished = FALSE

\* AddJob by thread t whose top frame is in pc "adding": the job list depends on the frame kind
AddStep(t) ==
  /\ stack[t] # <<>> /\ Top(t).pc = "adding"
  /\ LET f == Top(t)
         limit == IF f.k = "main" THEN NO ELSE NI
         grp == IF f.k = "main" THEN G0 ELSE f.o
         job == IF f.k = "main" THEN <<"O", f.i>> ELSE <<"I", f.o, f.i>>
     IN IF f.i > limit
        THEN /\ stack' = SetTop(t, [f EXCEPT !.pc = "wait"]) /\ UNCHANGED <<chan, wg>>
        ELSE /\ wg' = [wg EXCEPT ![grp] = @ + 1]
             /\ IF Len(chan) < B
                THEN /\ chan' = Append(chan, job) /\ stack' = SetTop(t, [f EXCEPT !.i = f.i + 1])
                ELSE \* buffer full: execute here (inline), continue adding afterwards
                     /\ chan' = chan /\ stack' = Push(SetTop(t, [f EXCEPT !.i = f.i + 1]), t, FrameOf(job))
  /\ UNCHANGED <<outerDone, innerDone, finished>>

\* Wait(g) by thread t
WaitStep(t) ==
  /\ stack[t] # <<>> /\ Top(t).pc = "wait"
  /\ LET f == Top(t)  grp == IF f.k = "main" THEN G0 ELSE f.o IN
     IF wg[grp] = 0
     THEN /\ stack' = SetTop(t, [f EXCEPT !.pc = "fin"]) /\ UNCHANGED chan
     ELSE /\ chan # <<>>                                  \* otherwise blocked in wg.Wait()
          /\ chan' = Tail(chan) /\ stack' = Push(stack, t, FrameOf(Head(chan)))
  /\ UNCHANGED <<wg, outerDone, innerDone, finished>>

FinStep(t) ==
  /\ stack[t] # <<>> /\ Top(t).pc = "fin"
  /\ LET f == Top(t) IN
     IF f.k = "main"
     THEN /\ finished' = TRUE /\ stack' = Pop(t) /\ UNCHANGED <<wg, outerDone>>
     ELSE /\ outerDone' = [outerDone EXCEPT ![f.o] = @ + 1]
          /\ wg' = [wg EXCEPT ![G0] = @ - 1]
          /\ stack' = Pop(t) /\ UNCHANGED finished
  /\ UNCHANGED <<chan, innerDone>>

InnerRun(t) ==
  /\ stack[t] # <<>> /\ Top(t).pc = "run"
  /\ LET f == Top(t) IN
     /\ innerDone' = [innerDone EXCEPT ![f.o][f.i] = @ + 1]
     /\ wg' = [wg EXCEPT ![f.o] = @ - 1]
     /\ stack' = Pop(t)
  /\ UNCHANGED <<chan, outerDone, finished>>

WorkerTake(t) ==
  /\ t # 0 /\ stack[t] = <<>> /\ chan # <<>>
  /\ chan' = Tail(chan) /\ stack' = Push(stack, t, FrameOf(Head(chan)))
  /\ UNCHANGED <<wg, outerDone, innerDone, finished>>

Step(t) == AddStep(t) \/ WaitStep(t) \/ FinStep(t) \/ InnerRun(t) \/ WorkerTake(t)
Terminated == finished /\ \A t \in Threads : stack[t] = <<>>
Next == (\E t \in Threads : Step(t)) \/ (Terminated /\ UNCHANGED vars)
Spec == Init /\ [][Next]_vars /\ \A t \in Threads : WF_vars(Step(t))

ExactlyOnce == finished => /\ \A o \in Outers : outerDone[o] = 1 /\ \A i \in 1..NI : innerDone[o][i] = 1
                           /\ chan = <<>>
AtMostOnce == \A o \in Outers : outerDone[o] <= 1 /\ \A i \in 1..NI : innerDone[o][i] <= 1
\* re-entrancy: a thread has two outer frames on its stack (an outer job started while another is suspended in Wait)
Reentrant == \E t \in Threads : Cardinality({n \in 1..Len(stack[t]) : stack[t][n].k = "outer"}) >= 2
NoReentrancy == ~Reentrant
Live == <>Terminated
=============================================================================
