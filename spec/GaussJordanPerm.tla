--------------------------- MODULE GaussJordanPerm ---------------------------
(***************************************************************************)
(* Mechanism layer for C04: the row book-keeping of gaussJordan            *)
(* (algorithm/gaussJordan/gaussJordan.go and gaussJordan_optimized.go) and *)
(* the interchange semantics of PermuteRows / Permute as the matrix and    *)
(* vector code implements them (matrix_dense_*.go PermuteRows,             *)
(* vector_dense_*.go Permute):                                             *)
(*                                                                         *)
(*   for i := 0; i < n; i++ {                                              *)
(*     if pi[i] > i { swap rows i and pi[i] } }                            *)
(*                                                                         *)
(* i.e. pi is read as a SEQUENCE OF INTERCHANGES (LAPACK ipiv style), not  *)
(* as a permutation vector.                                                *)
(*                                                                         *)
(* gaussJordan never moves rows while it eliminates: it addresses logical  *)
(* row j as physical row p[j], where p starts as the identity and at step  *)
(* i (selected by the Submatrix mask) the positions i and maxrow are       *)
(* swapped, maxrow being ANY selected position >= i (the pivot search      *)
(* picks the largest magnitude; which one that is depends on the data, so  *)
(* the model takes every choice).  When elimination and back substitution  *)
(* are done, physical row p[j] holds row j of the result.  The final       *)
(* un-permutation must bring row j of the result to physical row j.        *)
(*                                                                         *)
(*   Buggy = TRUE   the code before the fix: PermuteRows(p)                *)
(*   Buggy = FALSE  the code after the fix:  PermuteRows(s), where s[i] is *)
(*                  the interchange partner (maxrow) recorded at step i    *)
(*                                                                         *)
(* Contract (invariant Unpermuted): at the end physical row r holds        *)
(* logical row r, for every pivot sequence and every mask.  TLC refutes it *)
(* for Buggy = TRUE with p = <<3,1,2>> (0-based (2,0,1)), N = 3.           *)
(*                                                                         *)
(* Model -> code: every terminal state is printed as a replay case: a      *)
(* matrix whose elimination takes exactly this pivot sequence (entry 2 at  *)
(* (p[c], c) for selected columns, 1 on the diagonal of unselected ones)   *)
(* with its exact inverse from LinSolve; the driver runs the real          *)
(* gaussJordan / matrixInverse on it.                                      *)
(***************************************************************************)
EXTENDS LinSolve

CONSTANTS N,          \* dimension
          Buggy,      \* TRUE: pre-fix variant (vacuity control)
          AllMasks,   \* TRUE: every non-empty Submatrix mask, FALSE: only the full one
          EmitCases   \* TRUE: print one replay case per terminal state

VARIABLES pc, i, p, s, mask, k, phys
pvars == <<pc, i, p, s, mask, k, phys, blk, cs>>

Rows == 1..N
Id == [j \in Rows |-> j]
Swap(f, x, y) == [f EXCEPT ![x] = f[y], ![y] = f[x]]
InverseOf(f) == [r \in Rows |-> CHOOSE j \in Rows : f[j] = r]
FullMask == [j \in Rows |-> TRUE]
Masks == IF AllMasks THEN {m \in [Rows -> BOOLEAN] : \E j \in Rows : m[j]} ELSE {FullMask}

PInit == /\ pc = "elim" /\ i = 1 /\ p = Id /\ s = Id /\ mask \in Masks /\ k = 1 /\ phys = Id
         /\ blk = -1 /\ cs = Root

(* one column of the elimination: pivot search + position swap *)
ElimStep ==
  /\ pc = "elim" /\ i <= N
  /\ IF ~mask[i]
     THEN UNCHANGED <<p, s>>
     ELSE \E m \in {j \in i..N : mask[j]} : p' = Swap(p, i, m) /\ s' = [s EXCEPT ![i] = m]
  /\ i' = i + 1
  /\ UNCHANGED <<pc, mask, k, phys, blk, cs>>

(* elimination and back substitution done: physical row p[j] holds logical row j *)
ElimDone ==
  /\ pc = "elim" /\ i > N
  /\ pc' = "unperm" /\ phys' = InverseOf(p) /\ k' = 1
  /\ UNCHANGED <<i, p, s, mask, blk, cs>>

(* PermuteRows(pi) as coded: one loop iteration *)
Pi == IF Buggy THEN p ELSE s
UnpermStep ==
  /\ pc = "unperm" /\ k <= N
  /\ phys' = IF Pi[k] # k /\ Pi[k] > k THEN Swap(phys, k, Pi[k]) ELSE phys
  /\ k' = k + 1
  /\ UNCHANGED <<pc, i, p, s, mask, blk, cs>>
UnpermDone ==
  /\ pc = "unperm" /\ k > N
  /\ pc' = "done"
  /\ UNCHANGED <<i, p, s, mask, k, phys, blk, cs>>

PNext == ElimStep \/ ElimDone \/ UnpermStep \/ UnpermDone
PSpec == PInit /\ [][PNext]_pvars

(* ---------------------------------------------------------------- properties *)
IsPerm(f) == {f[j] : j \in Rows} = Rows
TypeOK == /\ pc \in {"elim", "unperm", "done"} /\ i \in 1..(N + 1) /\ k \in 1..(N + 1)
          /\ IsPerm(p) /\ IsPerm(phys)
          /\ \A j \in Rows : s[j] \in j..N
(* rows outside the mask never take part *)
Frame == \A j \in Rows : ~mask[j] => (p[j] = j /\ s[j] = j)
(* positions below i are final *)
Unpermuted == pc = "done" => phys = Id
(* the interchange sequence reproduces p from the identity (why the fix works) *)
RECURSIVE ApplySwaps(_, _, _)
ApplySwaps(f, seq, j) == IF j > N THEN f ELSE ApplySwaps(Swap(f, j, seq[j]), seq, j + 1)
InterchangesGiveP == pc # "elim" => ApplySwaps(Id, s, 1) = p

(* ---------------------------------------------------------------- replay cases *)
PivotMatrix == [r \in Rows |-> [c \in Rows |-> IF r = p[c] THEN (IF mask[c] THEN 2 ELSE 1) ELSE 0]]
PivotCase ==
  LET A == TLCEval([r \in Rows |-> TLCEval([c \in Rows |-> PivotMatrix[r][c]])])
      det == Det(A)
      adj == Adj(A)
      code == SumInts([j \in Rows |-> IF mask[j] THEN Pow(2, j - 1) ELSE 0])
      idx == SumInts([j \in Rows |-> (p[j] - 1) * Pow(N, j - 1)]) * Pow(2, N) + code
  IN [k |-> "mat", fam |-> "gjp", n |-> N, idx |-> idx, a |-> A, det |-> det,
      sing |-> SingClass(A, det), tri |-> IsUpperTri(A), spd |-> FALSE, sym |-> IsSymmetric(A), L |-> <<>>,
      inv |-> RM2(InvFrom(adj, det)), kap |-> R2(KappaFrom(A, adj, det)),
      sol |-> <<RV2(SolveFrom(A, Ones(N), det)), RV2(SolveFrom(A, Ramp(N), det))>>,
      subs |-> IF mask = FullMask THEN <<>> ELSE <<SubRecord(A, <<>>, code)>>,
      piv |-> [j \in Rows |-> s[j]], perm |-> [j \in Rows |-> p[j]]]
EmitCase == (EmitCases /\ pc = "done") => PrintT(ToJson(PivotCase))
=============================================================================
