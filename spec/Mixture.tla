------------------------------- MODULE Mixture -------------------------------
(***************************************************************************)
(* C15, model -> code, mixtures.  A case = number of components k, integer *)
(* weights w (normalised by the library), one emission table per component *)
(* and an observation vector x of 1..MaxD symbols whose coordinates are    *)
(* independent given the component.  Contract (HMMCore!MixSolve):          *)
(*   P(x)                = SUM_j w_j e_j(x) / SUM_j w_j                    *)
(*   Posterior(S | x)    = SUM_{j in S} w_j e_j(x) / SUM_j w_j e_j(x)      *)
(*   Likelihood(x | S)   = SUM_{j in S} w_j e_j(x) / SUM_{j in S} w_j      *)
(* for EVERY non-empty subset S of components.  `ok` records that          *)
(* complementary posteriors sum to one exactly.                            *)
(***************************************************************************)
EXTENDS HMMCore, Json

CONSTANTS MinK, MaxK, WVals, EVals, EDen, NSym, MaxD, Emit

VARIABLES st, ok
vars == <<st, ok>>

Blank(kk) == [stage |-> "w", k |-> kk, w |-> <<>>, em |-> <<>>, x |-> <<>>]

Init == st \in {Blank(kk) : kk \in MinK..MaxK} /\ ok = TRUE

ChooseW ==
  /\ st.stage = "w"
  /\ \E w \in {v \in [1..st.k -> WVals] : SumInts(v, 1, st.k) > 0} :
       st' = [st EXCEPT !.w = w, !.stage = "em"]
  /\ UNCHANGED ok

ChooseEmRow ==
  /\ st.stage = "em"
  /\ \E e \in [1..NSym -> EVals] :
       st' = [st EXCEPT !.em = Append(@, e), !.stage = IF Len(st.em) + 1 = st.k THEN "x" ELSE "em"]
  /\ UNCHANGED ok

ChooseX ==
  /\ st.stage = "x"
  /\ \E d \in 1..MaxD : \E x \in [1..d -> 0..(NSym - 1)] :
       st' = [st EXCEPT !.x = x, !.stage = "solve"]
  /\ UNCHANGED ok

CaseOut(s) ==
  LET r == MixSolve(s.k, s.w, s.em, EDen, s.x)
  IN [good |-> r.mech,
      out  |-> [k |-> s.k, w |-> s.w, em |-> s.em, eden |-> EDen, x |-> s.x, zero |-> r.zero,
                lik |-> r.lik, subsets |-> r.subsets]]
Report(res) == IF res.good THEN (Emit => PrintT(ToJson(res.out))) ELSE FALSE

SolveCase ==
  /\ st.stage = "solve"
  /\ ok' = Report(CaseOut(st))
  /\ st' = [st EXCEPT !.stage = "done"]

Next == ChooseW \/ ChooseEmRow \/ ChooseX \/ SolveCase
Spec == Init /\ [][Next]_vars

MechRefinesContract == ok
=============================================================================
