------------------------------ MODULE HMMTrace ------------------------------
(***************************************************************************)
(* C15, code -> model.  The Go recorder (harness/cmd/hmm record) draws     *)
(* seeded random models (integer weights, zeros, state maps, start/final   *)
(* sets) and sequences, calls the REAL library (generic Hmm with Float64   *)
(* and Real64 parameters, the float64-specialised recursion behind the     *)
(* Baum-Welch step, generic Mixture) and logs one event per call with the  *)
(* model, the arguments and the library's results as fixed-point numbers   *)
(* v = round(p * 2^20).  Every event must satisfy the contract of HMMCore: *)
(* TLC enumerates all hidden paths of the logged model with exact integer  *)
(* arithmetic and requires |v - floor(p_exact * 2^20)| <= 2; a logged      *)
(* Viterbi path must have exactly the maximal weight.  The machine is      *)
(* stateless, one action consumes one event; an event the contract does    *)
(* not explain stops the trace (POSTCONDITION TraceAccepted fails).        *)
(*                                                                         *)
(* HISTORIES.  Part of the trials keep ONE object alive: "hnew"/"mnew"     *)
(* announce it, "hchg"/"mchg" are parameter changes (SetParameters,        *)
(* SetStartStates, SetFinalStates, Clone) and the calls logged with h = 1  *)
(* are made on that object.  The specification keeps the current           *)
(* parameters in the state variables `cur` (HMM) and `curm` (mixture),     *)
(* applies the changes with the operators of HMMCore (the same ones        *)
(* HMMHist.tla uses) and accepts a call with h = 1 only if the parameters  *)
(* logged with it ARE the current ones - the result is then checked        *)
(* against the enumeration for them like any other call.                   *)
(***************************************************************************)
EXTENDS HMMCore, Json

CONSTANTS MaxM, MaxN

Trace == ndJsonDeserialize("hmm_trace.ndjson")
TAB == Tup([m \in 1..MaxM |-> Tup([n \in 1..MaxN |-> Tables(m, n)], MaxN)], MaxM)
(* evaluated at start-up: forces the tables to be computed once and checks them *)
ASSUME \A m \in 1..MaxM : \A n \in 1..MaxN : (NPaths(m, n) <= 300) => TablesOK(TAB[m][n], m, n)

VARIABLE l
Ev == Trace[l]

ToSet(s) == {s[i] : i \in 1..Len(s)}
Bits == 20
Close(v, num, den) == LET f == FloorScaled(num, den, Bits) IN v - f <= 2 /\ f - v <= 2

ModelOf(e) == [m |-> e.m, pi |-> e.pi, tr |-> e.tr, smap |-> e.smap, em |-> e.em, eden |-> e.eden,
               start |-> ToSet(e.start), final |-> ToSet(e.final)]

(* e.op: "logpdf" (v), "marginals" (marg[t][i]), "posterior" (q, v), "viterbi" (path) *)
HmmOK(e) ==
  LET M   == ModelOf(e)
      n   == Len(e.x)
      P   == Prep(M)
      T   == TAB[e.m][n]
      np  == NPaths(e.m, n)
      pw  == PathWeights(P, e.x, T)
      den == Den(P, n)
      lik == SumInts(pw, 1, np)
  IN /\ e.m \in 1..MaxM /\ n \in 1..MaxN
     /\ ValidModel(M)
     /\ den < 1073741824
     /\ e.zero = (lik = 0)
     /\ lik > 0 =>
          CASE e.op = "logpdf"    -> Close(e.v, lik, den)
            [] e.op = "marginals" -> \A t \in 1..n : \A i \in 1..e.m :
                                        Close(e.marg[t][i], SumAt(pw, T.sel[t][i], 1), lik)
            [] e.op = "posterior" -> LET q == Tup([t \in 1..n |-> ToSet(e.q[t])], n)
                                     IN Close(e.v, SetSeqNum(pw, q, e.m, 1, 1, 1), lik)
            [] e.op = "viterbi"   -> /\ Len(e.path) = n
                                     /\ \A t \in 1..n : e.path[t] \in 1..e.m
                                     /\ pw[PathIndex(e.path, e.m)] = MaxInts(pw, 1, np)
            [] OTHER -> FALSE

(* e.op: "logpdf" (v), "posterior" (s, v), "likelihood" (s, v) *)
MixOK(e) ==
  LET k     == e.k
      joint == Tup([j \in 1..k |-> e.w[j] * ProdEm(e.em[j], e.x, 1)], k)
      wsum  == SumInts(e.w, 1, k)
      ed    == IPow(e.eden, Len(e.x))
      tot   == SumInts(joint, 1, k)
      S     == ToSet(e.s)
      jS    == SumInts([j \in 1..k |-> IF j \in S THEN joint[j] ELSE 0], 1, k)
      wS    == SumInts([j \in 1..k |-> IF j \in S THEN e.w[j] ELSE 0], 1, k)
  IN /\ wsum > 0
     /\ e.zero = (tot = 0)
     /\ CASE e.op = "logpdf"     -> Close(e.v, tot, wsum * ed)
          [] e.op = "posterior"  -> tot > 0 => Close(e.v, jS, tot)
          [] e.op = "likelihood" -> wS > 0 => Close(e.v, jS, wS * ed)
          [] OTHER -> FALSE

NoHmm == [m |-> 0, smap |-> <<>>, em |-> <<>>, eden |-> 0, p |-> [pi |-> <<>>, tr |-> <<>>, start |-> {}, final |-> {}]]
NoMix == [k |-> 0, w |-> <<>>, em |-> <<>>, eden |-> 0]

VARIABLE hs      \* [c |-> current HMM object, cm |-> current mixture object, ok |-> last event accepted]

(* parameter change of the traced HMM object; e.ck: "set" (pi, tr), "start" (s), "final" (s), "clone" *)
HmmChange(c, e) ==
  CASE e.ck = "clone" -> [ok |-> c.m > 0, c |-> c]
    [] e.ck = "start" -> LET p == ApplyStart(c.m, c.p, ToSet(e.s))
                         IN [ok |-> c.m > 0 /\ ToSet(e.s) # {} /\ ValidCur(c.m, p), c |-> [c EXCEPT !.p = p]]
    [] e.ck = "final" -> LET p == ApplyFinal(c.p, ToSet(e.s))
                         IN [ok |-> c.m > 0 /\ ToSet(e.s) # {} /\ ValidCur(c.m, p), c |-> [c EXCEPT !.p = p]]
    [] e.ck = "set"   -> LET p == ApplySet(c.p, e.pi, e.tr)
                         IN [ok |-> c.m > 0 /\ Len(e.pi) = c.m /\ Len(e.tr) = c.m
                                    /\ SetAdmissible(c.m, c.p, e.pi) /\ ValidCur(c.m, p),
                             c |-> [c EXCEPT !.p = p]]
    [] OTHER -> [ok |-> FALSE, c |-> c]

IsCurrentHmm(c, e) == c.m > 0 /\ ModelOf(e) = HmmModel(c.m, c.smap, c.em, c.eden, c.p)
IsCurrentMix(c, e) == c.k > 0 /\ e.k = c.k /\ e.w = c.w /\ e.em = c.em /\ e.eden = c.eden

(* one event: accepted?, and the current parameters afterwards *)
StepOK(e, c, cm) ==
  CASE e.e = "hmm"  -> [ok |-> (e.h = 1 => IsCurrentHmm(c, e)) /\ HmmOK(e), c |-> c, cm |-> cm]
    [] e.e = "mix"  -> [ok |-> (e.h = 1 => IsCurrentMix(cm, e)) /\ MixOK(e), c |-> c, cm |-> cm]
    [] e.e = "hnew" -> [ok |-> ValidModel(ModelOf(e)),
                        c  |-> [m |-> e.m, smap |-> e.smap, em |-> e.em, eden |-> e.eden,
                                p |-> [pi |-> PiRaw(ModelOf(e)), tr |-> e.tr, start |-> ToSet(e.start), final |-> ToSet(e.final)]],   \* pi: the effective weights (zero outside the start set)
                        cm |-> cm]
    [] e.e = "hchg" -> LET r == HmmChange(c, e) IN [ok |-> r.ok, c |-> r.c, cm |-> cm]
    [] e.e = "mnew" -> [ok |-> SumInts(e.w, 1, e.k) > 0, c |-> c, cm |-> [k |-> e.k, w |-> e.w, em |-> e.em, eden |-> e.eden]]
    [] e.e = "mchg" -> IF e.ck = "clone" THEN [ok |-> cm.k > 0, c |-> c, cm |-> cm]
                       ELSE [ok |-> cm.k > 0 /\ e.ck = "set" /\ Len(e.w) = cm.k /\ SumInts(e.w, 1, cm.k) > 0,
                             c |-> c, cm |-> [cm EXCEPT !.w = e.w]]
    [] OTHER -> [ok |-> FALSE, c |-> c, cm |-> cm]

TraceInit == l = 1 /\ hs = [ok |-> TRUE, c |-> NoHmm, cm |-> NoMix]
(* `hs' = StepOK(..)` makes TLC evaluate the predicate once and as a value (cached LET  *)
(* definitions) instead of expanding it as an action formula.                          *)
TraceNext == /\ l <= Len(Trace)
             /\ hs' = StepOK(Ev, hs.c, hs.cm)
             /\ hs'.ok = TRUE
             /\ l' = l + 1
TraceSpec == TraceInit /\ [][TraceNext]_<<l, hs>>

TraceAccepted ==
  IF TLCGet("stats").diameter - 1 = Len(Trace) THEN TRUE
  ELSE Print(<<"TRACE_REJECTED_AT", TLCGet("stats").diameter, "OF", Len(Trace)>>, FALSE)
=============================================================================
