------------------------------ MODULE HMMTrace ------------------------------
(***************************************************************************)
(* C15, code -> model.  The Go recorder (harness/cmd/hmm record) draws     *)
(* seeded random models (integer weights, zeros, state maps, start/final   *)
(* sets) and sequences, calls the REAL library (generic Hmm with Float64   *)
(* and Real64 parameters, the float64-specialised recursion behind the     *)
(* Baum-Welch step, generic Mixture) and logs one event per call with the  *)
(* model, the arguments and the library's results as fixed-point numbers   *)
(* v = round(p * 2^20).  Every event must satisfy the contract of HMMCore: *)
(* TLC enumerates all hidden paths of the logged model with exact integer  *)
(* arithmetic and requires |v - floor(p_exact * 2^20)| <= 2; a logged      *)
(* Viterbi path must have exactly the maximal weight.  The machine is      *)
(* stateless, one action consumes one event; an event the contract does    *)
(* not explain stops the trace (POSTCONDITION TraceAccepted fails).        *)
(***************************************************************************)
EXTENDS HMMCore, Json

CONSTANTS MaxM, MaxN

Trace == ndJsonDeserialize("hmm_trace.ndjson")
TAB == Tup([m \in 1..MaxM |-> Tup([n \in 1..MaxN |-> Tables(m, n)], MaxN)], MaxM)
(* evaluated at start-up: forces the tables to be computed once and checks them *)
ASSUME \A m \in 1..MaxM : \A n \in 1..MaxN : (NPaths(m, n) <= 300) => TablesOK(TAB[m][n], m, n)

VARIABLE l
Ev == Trace[l]

ToSet(s) == {s[i] : i \in 1..Len(s)}
Bits == 20
Close(v, num, den) == LET f == FloorScaled(num, den, Bits) IN v - f <= 2 /\ f - v <= 2

ModelOf(e) == [m |-> e.m, pi |-> e.pi, tr |-> e.tr, smap |-> e.smap, em |-> e.em, eden |-> e.eden,
               start |-> ToSet(e.start), final |-> ToSet(e.final)]

(* e.op: "logpdf" (v), "marginals" (marg[t][i]), "posterior" (q, v), "viterbi" (path) *)
HmmOK(e) ==
  LET M   == ModelOf(e)
      n   == Len(e.x)
      P   == Prep(M)
      T   == TAB[e.m][n]
      np  == NPaths(e.m, n)
      pw  == PathWeights(P, e.x, T)
      den == Den(P, n)
      lik == SumInts(pw, 1, np)
  IN /\ e.m \in 1..MaxM /\ n \in 1..MaxN
     /\ ValidModel(M)
     /\ den < 1073741824
     /\ e.zero = (lik = 0)
     /\ lik > 0 =>
          CASE e.op = "logpdf"    -> Close(e.v, lik, den)
            [] e.op = "marginals" -> \A t \in 1..n : \A i \in 1..e.m :
                                        Close(e.marg[t][i], SumAt(pw, T.sel[t][i], 1), lik)
            [] e.op = "posterior" -> LET q == Tup([t \in 1..n |-> ToSet(e.q[t])], n)
                                     IN Close(e.v, SetSeqNum(pw, q, e.m, 1, 1, 1), lik)
            [] e.op = "viterbi"   -> /\ Len(e.path) = n
                                     /\ \A t \in 1..n : e.path[t] \in 1..e.m
                                     /\ pw[PathIndex(e.path, e.m)] = MaxInts(pw, 1, np)
            [] OTHER -> FALSE

(* e.op: "logpdf" (v), "posterior" (s, v), "likelihood" (s, v) *)
MixOK(e) ==
  LET k     == e.k
      joint == Tup([j \in 1..k |-> e.w[j] * ProdEm(e.em[j], e.x, 1)], k)
      wsum  == SumInts(e.w, 1, k)
      ed    == IPow(e.eden, Len(e.x))
      tot   == SumInts(joint, 1, k)
      S     == ToSet(e.s)
      jS    == SumInts([j \in 1..k |-> IF j \in S THEN joint[j] ELSE 0], 1, k)
      wS    == SumInts([j \in 1..k |-> IF j \in S THEN e.w[j] ELSE 0], 1, k)
  IN /\ wsum > 0
     /\ e.zero = (tot = 0)
     /\ CASE e.op = "logpdf"     -> Close(e.v, tot, wsum * ed)
          [] e.op = "posterior"  -> tot > 0 => Close(e.v, jS, tot)
          [] e.op = "likelihood" -> wS > 0 => Close(e.v, jS, wS * ed)
          [] OTHER -> FALSE

EventOK(e) == CASE e.e = "hmm" -> HmmOK(e) [] e.e = "mix" -> MixOK(e) [] OTHER -> FALSE

TraceInit == l = 1
(* `EventOK(Ev) = TRUE` (not just `EventOK(Ev)`): TLC then evaluates the predicate as a *)
(* value, with cached LET definitions, instead of expanding it as an action formula.  *)
TraceNext == l <= Len(Trace) /\ (EventOK(Ev) = TRUE) /\ l' = l + 1
TraceSpec == TraceInit /\ [][TraceNext]_l

TraceAccepted ==
  IF TLCGet("stats").diameter - 1 = Len(Trace) THEN TRUE
  ELSE Print(<<"TRACE_REJECTED_AT", TLCGet("stats").diameter, "OF", Len(Trace)>>, FALSE)
=============================================================================
