---------------------------- MODULE HessianUpdate ----------------------------
(***************************************************************************)
(* MECHANISM layer for C08 (model-checked only): the derivative update     *)
(* loops of scalar_real_template_derivative.in (monadic / dyadic and their  *)
(* Lazy / real* twins, which are the same loops) together with             *)
(* AllocForOne / AllocForTwo / Alloc of scalar_real_template.in, transcribed*)
(* AFTER the fix "AllocForTwo keeps the derivatives of a receiver that is  *)
(* also an operand", as an explicit sequence of reads and writes on the     *)
(* cells  Value, Order, N, Derivative[i], Hessian[i][j]  of heap objects.   *)
(*                                                                         *)
(*   c.dyadic(a, b, v0, v10, v01, v11, v20, v02):                           *)
(*     AllocForTwo(a, b)                                                   *)
(*     if c.Order >= 1 { panic if a, b active with different N             *)
(*       if c.Order >= 2 { for i, for j >= i:                               *)
(*           c.H[i][j] = a.H(i,j) v10 + b.H(i,j) v01 + a.D(i) a.D(j) v20    *)
(*                     + b.D(i) b.D(j) v02 + a.D(i) b.D(j) v11 + b.D(i) a.D(j) v11 *)
(*           c.H[j][i] = c.H[i][j] }                                        *)
(*       for i: c.D[i] = a.D(i) v10 + b.D(i) v01 }                          *)
(*     c.Value = v0                                                        *)
(*                                                                         *)
(* Objects c, a, b may coincide (c = a, c = b, c = a = b, a = b).  Every   *)
(* micro step reads the CURRENT heap.  The invariant demands that the      *)
(* final cells of the receiver equal the SIMULTANEOUS-ASSIGNMENT result     *)
(* computed from the pre-state heap (the contract of Aliasing.tla on        *)
(* integer jets), and that no other object changed.                        *)
(*                                                                         *)
(* Buggy = TRUE selects the pre-fix AllocForTwo (plain Alloc, which clears  *)
(* the receiver even if it is an operand); the check asserts that TLC finds *)
(* the counterexample for it (vacuity control).                            *)
(***************************************************************************)
EXTENDS Integers, Sequences, TLC

CONSTANTS Buggy,      \* TRUE: AllocForTwo as before the fix
          NMax        \* number of independent variables of active scalars: 1..NMax

VARIABLES heap,       \* object id -> [val, ord, n, d, h]
          pre,        \* the heap before the call
          call,       \* [kind, c, a, b, co]  co = coefficients
          todo,       \* remaining micro steps <<kind, i, j>>
          pc          \* "alloc" | "run" | "done" | "rejected"

vars == <<heap, pre, call, todo, pc>>

Objs == 1..3
ZeroD(n) == [i \in 1..n |-> 0]
ZeroH(n) == [i \in 1..n |-> [j \in 1..n |-> 0]]

(* ---- read access (GetDerivative / GetHessian return 0 below the order) -- *)
GetD(o, i)    == IF o.ord >= 1 THEN o.d[i] ELSE 0
GetH(o, i, j) == IF o.ord >= 2 THEN o.h[i][j] ELSE 0

(* ---- Alloc(n, order): reallocates (and thereby clears) when n or order differ *)
Alloc(o, n, order) ==
  IF o.n # n \/ o.ord # order
  THEN [val |-> o.val, ord |-> order, n |-> n,
        d |-> IF order >= 1 THEN ZeroD(n) ELSE <<>>,
        h |-> IF order >= 2 THEN ZeroH(n) ELSE IF order >= 1 THEN <<>> ELSE o.h]
  ELSE o

Max2(x, y) == IF x > y THEN x ELSE y

\* AllocForTwo after the fix: a receiver that is also an operand keeps its derivatives
AllocForTwoFixed(o, isOperand, n, order) ==
  IF (o.n # n \/ o.ord # order) /\ isOperand
  THEN LET f == Alloc(o, n, order) IN
       [f EXCEPT !.d = [i \in 1..n |-> IF o.ord >= 1 /\ i <= o.n THEN o.d[i] ELSE 0],
                 !.h = IF order >= 2
                       THEN [i \in 1..n |-> [j \in 1..n |-> IF o.ord >= 2 /\ i <= o.n /\ j <= o.n THEN o.h[i][j] ELSE 0]]
                       ELSE f.h]
  ELSE Alloc(o, n, order)

(* ---- configurations --------------------------------------------------------- *)
\* contents per object id (distinct numbers, symmetric Hessians)
DVals(id) == CASE id = 1 -> <<5, 3>> [] id = 2 -> <<-2, 7>> [] id = 3 -> <<4, -6>>
HVals(id) == CASE id = 1 -> << <<1, 4>>, <<4, -3>> >>
               [] id = 2 -> << <<2, -1>>, <<-1, 6>> >>
               [] id = 3 -> << <<-5, 2>>, <<2, 3>> >>
Obj(id, order, n) ==
  [val |-> id + 1, ord |-> order, n |-> IF order = 0 THEN 0 ELSE n,
   d |-> IF order >= 1 THEN [i \in 1..n |-> DVals(id)[i]] ELSE <<>>,
   h |-> IF order >= 2 THEN [i \in 1..n |-> [j \in 1..n |-> HVals(id)[i][j]]] ELSE <<>>]

\* coefficient sets <<v0, v10, v01, v11, v20, v02>> (dyadic) / <<v0, v1, v2>> (monadic)
DyCoefs == { <<6, 3, 2, 1, 0, 0>>,        \* like Mul
             <<9, 2, 3, 5, 7, 11>> }      \* like Div / Pow: every coefficient matters
MoCoefs == { <<7, 2, 3>> }

Calls ==
     {[kind |-> "dyadic", c |-> p[1], a |-> p[2], b |-> p[3], co |-> co] :
         p \in {<<1, 2, 3>>, <<1, 1, 2>>, <<1, 2, 1>>, <<1, 1, 1>>, <<1, 2, 2>>}, co \in DyCoefs}
\cup {[kind |-> "monadic", c |-> p[1], a |-> p[2], b |-> p[2], co |-> co] :
         p \in {<<1, 2>>, <<1, 1>>}, co \in MoCoefs}

Init ==
  /\ \E n \in 1..NMax : \E o1 \in 0..2 : \E o2 \in 0..2 : \E o3 \in 0..2 :
        heap = [id \in Objs |-> Obj(id, CASE id = 1 -> o1 [] id = 2 -> o2 [] id = 3 -> o3, n)]
  /\ pre = heap
  /\ call \in Calls
  /\ todo = <<>>
  /\ pc = "alloc"

(* ---- the micro steps ---------------------------------------------------------- *)
RECURSIVE HessSteps(_, _, _)
HessSteps(n, i, j) ==      \* for i, for j >= i: set, mirror
  IF i > n THEN <<>>
  ELSE IF j > n THEN HessSteps(n, i + 1, i + 1)
  ELSE <<<<"hset", i, j>>, <<"hmirror", i, j>>>> \o HessSteps(n, i, j + 1)
GradSteps(n) == [i \in 1..n |-> <<"dset", i, 0>>]

Program(o) ==
  (IF o.ord >= 2 THEN HessSteps(o.n, 1, 1) ELSE <<>>)
  \o (IF o.ord >= 1 THEN GradSteps(o.n) ELSE <<>>)
  \o <<<<"vset", 0, 0>>>>

A == heap[call.a]
B == heap[call.b]
C == heap[call.c]

DoAlloc ==
  /\ pc = "alloc"
  /\ LET n     == IF call.kind = "monadic" THEN A.n ELSE Max2(A.n, B.n)
         order == IF call.kind = "monadic" THEN A.ord ELSE Max2(A.ord, B.ord)
         isOp  == call.c = call.a \/ call.c = call.b
         c2    == IF call.kind = "monadic" \/ Buggy THEN Alloc(C, n, order)
                  ELSE AllocForTwoFixed(C, isOp, n, order)
         h2    == [heap EXCEPT ![call.c] = c2]
     IN /\ heap' = h2
        \* the check of dyadic(): active operands must store the same number of derivatives
        /\ IF call.kind = "dyadic" /\ c2.ord >= 1 /\ h2[call.a].ord >= 1 /\ h2[call.b].ord >= 1 /\ h2[call.a].n # h2[call.b].n
           THEN pc' = "rejected" /\ todo' = <<>>
           ELSE pc' = "run" /\ todo' = Program(c2)
  /\ UNCHANGED <<pre, call>>

HessValue(i, j) ==
  IF call.kind = "monadic"
  THEN GetD(A, i) * GetD(A, j) * call.co[3] + GetH(A, i, j) * call.co[2]
  ELSE GetH(A, i, j) * call.co[2] + GetH(B, i, j) * call.co[3]
       + GetD(A, i) * GetD(A, j) * call.co[5] + GetD(B, i) * GetD(B, j) * call.co[6]
       + GetD(A, i) * GetD(B, j) * call.co[4] + GetD(B, i) * GetD(A, j) * call.co[4]
GradValue(i) ==
  IF call.kind = "monadic" THEN GetD(A, i) * call.co[2]
  ELSE GetD(A, i) * call.co[2] + GetD(B, i) * call.co[3]

Step ==
  /\ pc = "run" /\ todo # <<>>
  /\ LET s == Head(todo) IN
     heap' = CASE s[1] = "hset"    -> [heap EXCEPT ![call.c].h[s[2]][s[3]] = HessValue(s[2], s[3])]
               [] s[1] = "hmirror" -> [heap EXCEPT ![call.c].h[s[3]][s[2]] = C.h[s[2]][s[3]]]
               [] s[1] = "dset"    -> [heap EXCEPT ![call.c].d[s[2]] = GradValue(s[2])]
               [] s[1] = "vset"    -> [heap EXCEPT ![call.c].val = call.co[1]]
  /\ todo' = Tail(todo)
  /\ pc' = IF Len(todo) = 1 THEN "done" ELSE "run"
  /\ UNCHANGED <<pre, call>>

Next == DoAlloc \/ Step
Spec == Init /\ [][Next]_vars

(* ---- the contract: simultaneous assignment from the PRE-state -------------------- *)
PA == pre[call.a]
PB == pre[call.b]
\* the call is defined when active operands agree in N
Defined == call.kind = "monadic" \/ ~(PA.ord >= 1 /\ PB.ord >= 1 /\ PA.n # PB.n)
ExpN   == IF call.kind = "monadic" THEN PA.n ELSE Max2(PA.n, PB.n)
ExpOrd == IF call.kind = "monadic" THEN PA.ord ELSE Max2(PA.ord, PB.ord)
ExpD(i) ==
  IF call.kind = "monadic" THEN GetD(PA, i) * call.co[2]
  ELSE GetD(PA, i) * call.co[2] + GetD(PB, i) * call.co[3]
ExpH(i, j) ==
  IF call.kind = "monadic"
  THEN GetD(PA, i) * GetD(PA, j) * call.co[3] + GetH(PA, i, j) * call.co[2]
  ELSE GetH(PA, i, j) * call.co[2] + GetH(PB, i, j) * call.co[3]
       + GetD(PA, i) * GetD(PA, j) * call.co[5] + GetD(PB, i) * GetD(PB, j) * call.co[6]
       + GetD(PA, i) * GetD(PB, j) * call.co[4] + GetD(PB, i) * GetD(PA, j) * call.co[4]

SimultaneousAssignment ==
  (pc = "done" /\ Defined) =>
     /\ C.val = call.co[1]
     /\ C.ord = ExpOrd /\ C.n = ExpN
     /\ \A i \in 1..ExpN : GetD(C, i) = (IF ExpOrd >= 1 THEN ExpD(i) ELSE 0)
     /\ \A i, j \in 1..ExpN : GetH(C, i, j) = (IF ExpOrd >= 2 THEN ExpH(i, j) ELSE 0)

\* objects other than the receiver are never written
Frame == \A id \in Objs : id # call.c => heap[id] = pre[id]

\* a call the contract rejects is rejected by the mechanism only if the receiver is no operand
\* (with c = a the reallocation makes the N of both operands agree); nothing is demanded then
RejectedOnlyWhenUndefined == pc = "rejected" => ~Defined
=============================================================================
