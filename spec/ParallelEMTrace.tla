-------------------------- MODULE ParallelEMTrace --------------------------
(***************************************************************************)
(* Trace validation (code -> model) for C17.  The verif hooks in           *)
(* statistics/generic (EmStep, BaumWelchStep) log, from the thread that    *)
(* performs it:                                                            *)
(*   begin   (first, w, n, b, s, range)   start of a step, flags cleared   *)
(*   start   (t, j, init, lik)            observation j begins on thread t;*)
(*                                        init/lik = the slot BEFORE it    *)
(*   end     (t, lik)                     its contribution is in the slot  *)
(*   waitret                              Wait() returned on main          *)
(*   merge   (t, lik)                     slot t folded into the result    *)
(*   finish  (lik)                        the step's merged likelihood     *)
(* Queueing, dequeuing, inline execution and blocking happen inside the    *)
(* external thread pool and are not logged: they are the SILENT actions of *)
(* ParallelEM, composed nondeterministically between events.  A recorded   *)
(* schedule is accepted iff some interleaving of silent actions makes it a *)
(* behaviour of ParallelEM whose invariants hold in every state, and the   *)
(* logged likelihood ledger balances: each slot total equals the sum of    *)
(* the contributions processed on its thread in this step, the merged      *)
(* value equals the sum over the used slots and equals the sum of all      *)
(* per-observation contributions (scaled integers, tolerance = number of   *)
(* rounded addends).                                                       *)
(***************************************************************************)
EXTENDS ParallelEM, Json

Trace == ndJsonDeserialize("pool_trace.ndjson")

VARIABLES l,       \* next event
          led,     \* led[t]  : slot t's likelihood as last logged (scaled)
          total,   \* merged so far in this step
          dsum     \* sum of the per-observation contributions of this step

tvars == <<vars, l, led, total, dsum>>
Ev == Trace[l]
IsEv(name) == l <= Len(Trace) /\ Ev.e = name /\ l' = l + 1
Near(a, b, tol) == (a - b) \in (0 - tol)..tol
Dummy == [W |-> 1, N |-> 1, B |-> 1, S |-> 1, range |-> FALSE]

TraceInit == InitFor(Dummy) /\ l = 1 /\ led = [t \in 0..(MaxW-1) |-> 0] /\ total = 0 /\ dsum = 0
             /\ TLCSet(1, 0)

EvCfg == [W |-> Ev.w, N |-> Ev.n, B |-> Ev.b, S |-> Ev.s, range |-> Ev.range]

TBeginFirst ==
  /\ IsEv("begin") /\ Ev.first
  /\ Ev.w <= MaxW /\ Ev.w >= 2
  /\ LET c == EvCfg IN
       /\ cfg' = c /\ pc' = "adding" /\ step' = 1 /\ nextj' = 1 /\ chan' = <<>> /\ wg' = 0
       /\ run' = [t \in Threads(c) |-> 0] /\ pos' = [t \in Threads(c) |-> 0]
       /\ phase' = [t \in Threads(c) |-> "idle"]
       /\ tmp' = [t \in Threads(c) |-> [init |-> FALSE, acc |-> {}]]
       /\ mi' = 0
       /\ exec' = [s \in 1..c.S |-> [o \in 1..c.N |-> 0]]
       /\ result' = [s \in 1..c.S |-> {}]
  /\ led' = [t \in 0..(MaxW-1) |-> 0] /\ total' = 0 /\ dsum' = 0
TBeginNext ==
  /\ IsEv("begin") /\ ~Ev.first
  /\ MainReset
  /\ total' = 0 /\ dsum' = 0 /\ UNCHANGED led
(* the recorder logs the sentinel 2000000000 for a NaN, infinite or huge likelihood: no action explains such *)
(* an event (and no arithmetic is attempted on it)                                                            *)
Sane(x) == x > -1000000000 /\ x < 1000000000
TStart ==
  /\ IsEv("start") /\ Sane(Ev.lik)
  /\ LET t == Ev.t IN
       /\ t \in Threads(cfg) /\ run[t] # 0 /\ phase[t] = "new"
       /\ CurObs(t) = Ev.j + 1
       /\ Ev.init = tmp[t].init
       /\ (tmp[t].init => Near(Ev.lik, led[t], 1))
       /\ JobStart(t)
       /\ led' = [led EXCEPT ![t] = IF tmp[t].init THEN Ev.lik ELSE 0]
  /\ UNCHANGED <<total, dsum>>
TEnd ==
  /\ IsEv("end") /\ Sane(Ev.lik)
  /\ LET t == Ev.t IN
       /\ t \in Threads(cfg) /\ Ev.init
       /\ JobEnd(t)
       /\ dsum' = dsum + (Ev.lik - led[t])
       /\ led' = [led EXCEPT ![t] = Ev.lik]
  /\ UNCHANGED total
TWaitRet == IsEv("waitret") /\ MainWaitReturn /\ UNCHANGED <<led, total, dsum>>
TMerge ==
  /\ IsEv("merge") /\ Sane(Ev.lik) /\ pc = "merge" /\ Ev.t = mi
  /\ (mi = 0 \/ tmp[mi].init)
  /\ Near(Ev.lik, IF mi = 0 /\ ~tmp[0].init THEN 0 ELSE led[mi], 1)
  /\ MergeStep
  /\ total' = IF mi = 0 THEN Ev.lik ELSE total + Ev.lik
  /\ led' = IF mi = 0 /\ ~tmp[0].init THEN [led EXCEPT ![0] = 0] ELSE led
  /\ UNCHANGED dsum
TFinish ==
  /\ IsEv("finish") /\ Sane(Ev.lik)
  /\ MergeDone
  /\ Near(Ev.lik, total, cfg.W + 1)
  /\ Near(Ev.lik, dsum, cfg.N + cfg.W + 1)
  /\ UNCHANGED <<led, total, dsum>>

Silent ==
  /\ l <= Len(Trace)
  /\ \/ MainAddEnqueue \/ MainAddInline \/ MainAddDone \/ MainWaitBlock
     \/ \E t \in Threads(cfg) : Take(t)
     \/ (pc = "merge" /\ mi >= 1 /\ mi < cfg.W /\ ~tmp[mi].init /\ MergeStep)
  /\ UNCHANGED <<l, led, total, dsum>>

TraceNext == TBeginFirst \/ TBeginNext \/ TStart \/ TEnd \/ TWaitRet \/ TMerge \/ TFinish \/ Silent
TraceSpec == TraceInit /\ [][TraceNext]_tvars

(* the contract invariants of ParallelEM, evaluated in every state of the explanation *)
TraceInv == l > 1 => (MergeAfterJobs /\ AtMostOnce /\ ResultExact /\ NoStaleInInitialised /\ WgExact)

(* acceptance: the furthest event any explanation reaches (register 1), -workers 1 *)
HighWater == TLCSet(1, IF TLCGet(1) < l THEN l ELSE TLCGet(1))
TraceAccepted ==
  IF TLCGet(1) = Len(Trace) + 1 THEN TRUE
  ELSE Print(<<"TRACE_REJECTED_AT", TLCGet(1), "OF", Len(Trace)>>, FALSE)
=============================================================================
