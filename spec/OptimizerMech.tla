---------------------------- MODULE OptimizerMech ----------------------------
(***************************************************************************)
(* C07 - MECHANISM layer: the control flow of the routines (what is        *)
(* evaluated where, when the hook and the constraints are consulted, which *)
(* point is returned) transcribed from the code, with the ENVIRONMENT      *)
(* (does the stopping condition hold at a point, is a point feasible, does *)
(* the hook ask to stop) chosen nondeterministically.  Every observable    *)
(* step is offered to the CONTRACT of OptimizerSkeleton; TLC checks that   *)
(* the contract accepts it (refinement).  A rejected step is a DESIGN      *)
(* finding: it must be reproduced against the real code by the trace       *)
(* validation before it counts (DESIGN 6.3).  Transcribed:                 *)
(*   rprop         algorithm/rprop/rprop.go                                *)
(*   rpropg_orig   algorithm/rprop/rprop_dense.go before the fixes         *)
(*   rpropg_fixed  ... after 1f06c37, 0fef39d, 8979465                     *)
(*   bfgs          algorithm/bfgs/bfgs.go (line search evaluations are     *)
(*                 plain evaluations of trial points)                      *)
(*   adam_orig     algorithm/adam/adam.go before fab6826                   *)
(*   adam_fixed    ... after                                               *)
(*   newton        algorithm/newton/newton.go (root / crit, backtracking)  *)
(* Expected: bfgs violates (R) when constraints are present (known finding *)
(* C07-bfgs-constraints-start-only), rpropg_orig violates (H) and (R),     *)
(* adam_orig violates (R); the others refine the contract.                 *)
(*                                                                         *)
(* Points are fresh identities 1, 2, ...; the objective is deterministic:  *)
(* evaluating point p yields value identity p and derivative identity p.   *)
(***************************************************************************)
EXTENDS OptimizerSkeleton

CONSTANTS Routine,      \* which transcription
          MaxPoints,    \* fresh points per run
          Cap           \* iteration cap of the run (>= 0)

VARIABLES pc,           \* control state of the routine
          x,            \* current iterate (x1)
          t,            \* trial point (x2)
          held,         \* the point whose gradient the routine currently holds (0: placeholder values)
          nxt,          \* next fresh point
          truth,        \* environment: point -> [stop, cons]
          it,           \* iterations done
          viol          \* "" or the clause of the contract that rejected a step

mvars == <<svars, pc, x, t, held, nxt, truth, it, viol>>

HookKindOf == IF Routine \in {"rpropg_orig", "rpropg_fixed", "newton"} THEN "g" ELSE "gy"
Cfg(h, c) == [algo |-> Routine, maxit |-> Cap, hasHook |-> h, hasCons |-> c, sc |-> FALSE,
              hookKind |-> HookKindOf, iterBy |-> "eval", fixed |-> FALSE]
Truths == [stop : BOOLEAN, cons : BOOLEAN]

Init == /\ SkInit /\ pc = "call" /\ x = 1 /\ t = 1 /\ held = 0 /\ nxt = 2 /\ it = 0 /\ viol = ""
        /\ truth \in [{1} -> Truths]

(* offer an observable step to the contract *)
Offer(guard, effect, clause) == IF guard THEN effect /\ UNCHANGED viol ELSE viol' = clause /\ UNCHANGED svars
Keep == UNCHANGED <<x, t, held, nxt, truth, it>>
Goto(l) == pc' = l

DoBegin == /\ pc = "call" /\ \E h, c \in BOOLEAN : Begin(Cfg(h, c))
           /\ Goto("init") /\ Keep /\ UNCHANGED viol
DoEval(p, l) == /\ Offer(EvalG, EvalE(p, p, p), "eval") /\ Goto(l)
DoCons(p, lOk, lBad) == /\ Offer(ConstraintG, ConstraintE(p, truth[p].cons), "cons")
                        /\ Goto(IF truth[p].cons THEN lOk ELSE lBad)
(* the hook receives the gradient / value the routine holds: identities of the point 'held' *)
DoHook(p, lGo, lStop) ==
  \E stop \in BOOLEAN :
    /\ Offer(HookG(p, held, IF HookKindOf = "g" THEN None ELSE held, TRUE), HookE(stop), "hook_args")
    /\ Goto(IF stop THEN lStop ELSE lGo)
RetRec(p, err) == [p |-> p, err |-> err, stopOK |-> truth[p].stop, consOK |-> truth[p].cons, nearMin |-> TRUE, startOK |-> TRUE]
DoReturn(p, err) == /\ Offer(ReturnG(RetRec(p, err)), ReturnE(RetRec(p, err)),
                             IF ~ReturnClauses(RetRec(p, err)).cons THEN "return_violates_constraint" ELSE "stop_condition_fails")
                    /\ Goto("done") /\ Keep
Fresh(l) == /\ nxt <= MaxPoints
            /\ \E tr \in Truths : truth' = [q \in DOMAIN truth \cup {nxt} |-> IF q = nxt THEN tr ELSE truth[q]]
            /\ t' = nxt /\ nxt' = nxt + 1 /\ Goto(l) /\ UNCHANGED <<svars, x, held, it, viol>>
Skip(l) == Goto(l) /\ Keep /\ UNCHANGED <<svars, viol>>

(* --------------------------------------------------------------- rprop *)
Rprop ==
  \/ pc = "init" /\ (IF cfg.hasCons THEN DoCons(1, "eval0", "err") /\ Keep ELSE Skip("eval0"))
  \/ pc = "eval0" /\ DoEval(1, "top") /\ held' = 1 /\ UNCHANGED <<x, t, nxt, truth, it>>
  \/ pc = "top" /\ (IF it >= Cap THEN Skip("ret") ELSE Skip(IF cfg.hasHook THEN "hook" ELSE "stop"))
  \/ pc = "hook" /\ DoHook(x, "stop", "ret") /\ Keep
  \/ pc = "stop" /\ Skip(IF truth[held].stop THEN "ret" ELSE "move")
  \/ pc = "move" /\ Fresh("evalT")
  \/ pc = "evalT" /\ DoEval(t, IF cfg.hasCons THEN "consT" ELSE "accept") /\ Keep
  \/ pc = "consT" /\ DoCons(t, "accept", "move") /\ Keep
  \/ pc = "accept" /\ x' = t /\ held' = t /\ it' = it + 1 /\ Goto("top") /\ UNCHANGED <<svars, t, nxt, truth, viol>>
  \/ pc = "ret" /\ DoReturn(x, FALSE)
  \/ pc = "err" /\ DoReturn(x, TRUE)

(* ------------------------------------------------ rprop gradient interface *)
RpropG(fixed) ==
  \/ pc = "init" /\ (IF cfg.hasCons THEN DoCons(1, IF fixed THEN "eval0" ELSE "top", "err") /\ Keep
                     ELSE Skip(IF fixed THEN "eval0" ELSE "top"))
  \/ pc = "eval0" /\ DoEval(1, "top") /\ held' = 1 /\ UNCHANGED <<x, t, nxt, truth, it>>
  \/ pc = "top" /\ (IF it >= Cap THEN Skip("ret") ELSE Skip(IF cfg.hasHook THEN "hook" ELSE "move"))
  \/ pc = "hook" /\ DoHook(x, "move", "ret") /\ Keep
  \/ pc = "move" /\ Fresh("evalT")
  \* original: the gradient of the trial point overwrites the held one at once
  \/ pc = "evalT" /\ DoEval(t, IF cfg.hasCons THEN "consT" ELSE "accept")
                  /\ held' = (IF fixed THEN held ELSE t) /\ UNCHANGED <<x, t, nxt, truth, it>>
  \/ pc = "consT" /\ DoCons(t, "accept", "move") /\ Keep
  \* original: stop test before the trial point is accepted, the previous iterate is returned
  \/ pc = "accept" /\ (IF fixed THEN /\ x' = t /\ held' = t /\ it' = it + 1
                                      /\ Goto(IF truth[t].stop THEN "ret" ELSE "top")
                       ELSE IF truth[t].stop THEN /\ Goto("ret") /\ UNCHANGED <<x, held, it>>
                       ELSE /\ x' = t /\ it' = it + 1 /\ Goto("top") /\ UNCHANGED held)
                   /\ UNCHANGED <<svars, t, nxt, truth, viol>>
  \/ pc = "ret" /\ DoReturn(x, FALSE)
  \/ pc = "err" /\ DoReturn(x, TRUE)

(* ---------------------------------------------------------------- bfgs *)
Bfgs ==
  \/ pc = "init" /\ (IF cfg.hasCons THEN DoCons(1, "eval0", "err") /\ Keep ELSE Skip("eval0"))
  \/ pc = "eval0" /\ DoEval(1, "stop0") /\ held' = 1 /\ UNCHANGED <<x, t, nxt, truth, it>>
  \/ pc = "stop0" /\ Skip(IF truth[1].stop THEN "ret" ELSE IF cfg.hasHook THEN "hook0" ELSE "top")
  \/ pc = "hook0" /\ DoHook(x, "top", "ret") /\ Keep
  \/ pc = "top" /\ Skip(IF it >= Cap THEN "ret2" ELSE "move")
  \/ pc = "move" /\ Fresh("ls")
  \/ pc = "ls" /\ DoEval(t, "evalT") /\ Keep                     \* line search evaluates the trial point
  \/ pc = "evalT" /\ DoEval(t, IF cfg.hasHook THEN "hookT" ELSE "stopT") /\ held' = t /\ UNCHANGED <<x, t, nxt, truth, it>>
  \/ pc = "hookT" /\ DoHook(t, "stopT", "ret2") /\ Keep
  \/ pc = "stopT" /\ (IF truth[t].stop THEN Skip("ret2")
                      ELSE x' = t /\ it' = it + 1 /\ Goto("top") /\ UNCHANGED <<svars, t, held, nxt, truth, viol>>)
  \/ pc = "ret" /\ DoReturn(x, FALSE)
  \/ pc = "ret2" /\ DoReturn(t, FALSE)                           \* return x2
  \/ pc = "err" /\ DoReturn(x, TRUE)

(* ---------------------------------------------------------------- adam *)
Adam(fixed) ==
  \/ pc = "init" /\ (IF cfg.hasCons THEN DoCons(1, "top", "err") /\ Keep ELSE Skip("top"))
  \/ pc = "top" /\ Skip(IF it >= Cap THEN "ret" ELSE "evalT")
  \/ pc = "evalT" /\ DoEval(t, IF cfg.hasCons /\ ~fixed THEN "consTop" ELSE IF cfg.hasHook THEN "hook" ELSE "stop")
                  /\ held' = t /\ UNCHANGED <<x, t, nxt, truth, it>>
  \/ pc = "consTop" /\ DoCons(t, IF cfg.hasHook THEN "hook" ELSE "stop", "err") /\ Keep
  \/ pc = "hook" /\ DoHook(x, "stop", "ret") /\ Keep
  \/ pc = "stop" /\ Skip(IF truth[held].stop THEN "ret" ELSE "move")
  \/ pc = "move" /\ Fresh(IF fixed /\ cfg.hasCons THEN "consT" ELSE "accept")
  \/ pc = "consT" /\ DoCons(t, "accept", "err") /\ Keep
  \/ pc = "accept" /\ x' = t /\ it' = it + 1 /\ Goto("top") /\ UNCHANGED <<svars, t, held, nxt, truth, viol>>
  \/ pc = "ret" /\ DoReturn(x, FALSE)
  \/ pc = "err" /\ DoReturn(x, TRUE)

(* -------------------------------------------------------------- newton *)
Newton ==
  \/ pc = "init" /\ (IF cfg.hasCons THEN DoCons(1, "eval0", "err") /\ Keep ELSE Skip("eval0"))
  \/ pc = "eval0" /\ DoEval(1, "top") /\ held' = 1 /\ UNCHANGED <<x, t, nxt, truth, it>>
  \/ pc = "top" /\ Skip(IF it >= Cap THEN "ret" ELSE IF cfg.hasHook THEN "hook" ELSE "stop")
  \/ pc = "hook" /\ DoHook(x, "stop", "ret") /\ Keep
  \/ pc = "stop" /\ Skip(IF truth[held].stop THEN "ret" ELSE "move")
  \/ pc = "move" /\ Fresh(IF cfg.hasCons THEN "consT" ELSE "evalT")
  \/ pc = "consT" /\ DoCons(t, "evalT", "move") /\ Keep           \* backtracking until the constraints hold
  \/ pc = "evalT" /\ DoEval(t, "top") /\ x' = t /\ held' = t /\ it' = it + 1 /\ UNCHANGED <<t, nxt, truth>>
  \/ pc = "ret" /\ DoReturn(x, FALSE)
  \/ pc = "err" /\ DoReturn(x, TRUE)

Body == CASE Routine = "rprop" -> Rprop
          [] Routine = "rpropg_orig" -> RpropG(FALSE)
          [] Routine = "rpropg_fixed" -> RpropG(TRUE)
          [] Routine = "bfgs" -> Bfgs
          [] Routine = "adam_orig" -> Adam(FALSE)
          [] Routine = "adam_fixed" -> Adam(TRUE)
          [] Routine = "newton" -> Newton
Next == viol = "" /\ (DoBegin \/ (pc \notin {"call", "done"} /\ Body))
Spec == Init /\ [][Next]_mvars

(* refinement: the contract accepts every observable step of the mechanism *)
Refines == viol = ""
(* the three clauses separately, for the expected-outcome table of the check *)
HookFaithfulMech == viol # "hook_args"
FeasibleReturnMech == viol # "return_violates_constraint"
JustifiedReturnMech == viol # "stop_condition_fails"
=============================================================================
