------------------------------- MODULE EMTrace -------------------------------
(***************************************************************************)
(* C16 (second half) - EM and Baum-Welch never decrease the data           *)
(* log-likelihood, and the likelihood they report through their hooks is   *)
(* the log-likelihood of the model of that iteration.                      *)
(*                                                                         *)
(* Specification of the iteration as the library documents it              *)
(* (generic.EmAlgorithm / BaumWelchAlgorithm), observed ONLY through the   *)
(* public hook (EmHook / BaumWelchHook) and the returned estimate:         *)
(*                                                                         *)
(*   begin(epsilon, maxSteps)   the estimator is started                   *)
(*   hook(0, NaN)               announces the initial model M_0            *)
(*   hook(i, lik_i, eps_i)      i = 1, 2, ...: the model M_i after the     *)
(*                              i-th update; lik_i is the data             *)
(*                              log-likelihood of the model ENTERING the   *)
(*                              iteration, M_{i-1}; eps_i = lik_i -        *)
(*                              lik_{i-1}                                  *)
(*   return(final)              no error; final = log-likelihood of the    *)
(*                              returned model                             *)
(*                                                                         *)
(* The recorder evaluates, independently of the EM accumulators, the       *)
(* log-likelihood of every announced model on the data with the model's    *)
(* own LogPdf ("recomp").  Trajectory contract:                            *)
(*   Monotone      lik_{i+1} >= lik_i - tol        (never decreases)       *)
(*   Reported      lik_i = recomp(M_{i-1}) +- tol  (hook tells the truth)  *)
(*   Epsilon       eps_i = lik_i - lik_{i-1} +- tol for i >= 2             *)
(*   Stop rule     the loop continues after iteration i iff                *)
(*                 eps_i >= epsilon and i < maxSteps (maxSteps = -1: no    *)
(*                 cap); hence no hook after convergence, and return only  *)
(*                 after convergence or the cap                            *)
(*   Final         final >= lik_last - tol                                 *)
(* Likelihoods are logged as integers scaled by Scale; tol absorbs the     *)
(* rounding of the scaling and floating-point reduction order.             *)
(***************************************************************************)
EXTENDS Integers, Sequences, TLC, Json

CONSTANTS Tol,         \* tolerance in scaled units
          GTol         \* stationarity tolerance of numeric estimators (gradient scaled by 1e9)

Trace == ndJsonDeserialize("em_trace.ndjson")

VARIABLES l,        \* next event
          st,       \* "idle" | "started" | "iterating" | "converged" | "capped"
          k,        \* number of completed iterations
          likPrev,  \* lik_k (scaled)    (meaningful when k >= 1)
          recPrev,  \* recomp(M_k)
          eps,      \* configured epsilon (scaled)
          maxSteps

vars == <<l, st, k, likPrev, recPrev, eps, maxSteps>>
Ev == Trace[l]
IsEv(name) == l <= Len(Trace) /\ Ev.e = name /\ l' = l + 1
Near(a, b) == (a - b) \in (0 - Tol)..Tol

Init == TLCSet(1, 0) /\ l = 1 /\ st = "idle" /\ k = 0 /\ likPrev = 0 /\ recPrev = 0 /\ eps = 0 /\ maxSteps = 0

Begin == /\ IsEv("begin") /\ st \in {"idle"}
         /\ st' = "started" /\ k' = 0 /\ eps' = Ev.epsilon /\ maxSteps' = Ev.maxsteps
         /\ UNCHANGED <<likPrev, recPrev>>
(* the initial announcement *)
Hook0 == /\ IsEv("hook") /\ st = "started" /\ Ev.i = 0 /\ Ev.nan
         /\ st' = "iterating" /\ recPrev' = Ev.recomp
         /\ UNCHANGED <<k, likPrev, eps, maxSteps>>
(* one EM / Baum-Welch iteration *)
HookI == /\ IsEv("hook") /\ st = "iterating" /\ ~Ev.nan
         /\ Ev.i = k + 1
         /\ (maxSteps = -1 \/ Ev.i <= maxSteps)
         /\ Near(Ev.lik, recPrev)                               \* Reported
         /\ (k >= 1 => Ev.lik >= likPrev - Tol)                 \* Monotone
         /\ (k >= 1 => Near(Ev.eps, Ev.lik - likPrev))          \* Epsilon
         /\ k' = k + 1 /\ likPrev' = Ev.lik /\ recPrev' = Ev.recomp
         /\ st' = IF k >= 1 /\ Ev.lik - likPrev < eps - Tol THEN "converged"
                  ELSE IF maxSteps # -1 /\ Ev.i = maxSteps THEN "capped"
                  ELSE IF k >= 1 /\ Ev.lik - likPrev < eps + Tol THEN "maybe"   \* within tolerance of the threshold
                  ELSE "iterating"
         /\ UNCHANGED <<eps, maxSteps>>
(* within tolerance of the convergence threshold either continuation is accepted *)
HookMaybe == /\ st = "maybe" /\ l <= Len(Trace) /\ Ev.e = "hook"
             /\ st' = "iterating" /\ UNCHANGED <<l, k, likPrev, recPrev, eps, maxSteps>>
Return == /\ IsEv("return") /\ st \in {"converged", "capped", "maybe"}
          /\ ~Ev.err
          /\ Ev.final >= likPrev - Tol                           \* Final
          /\ st' = "idle"
          /\ UNCHANGED <<k, likPrev, recPrev, eps, maxSteps>>
(* a run that ends with an error promises nothing about the trajectory's end *)
ReturnErr == /\ IsEv("return") /\ Ev.err /\ st # "idle"
             /\ st' = "idle" /\ UNCHANGED <<k, likPrev, recPrev, eps, maxSteps>>

(* the recorder cut the run off (still iterating after its budget): nothing is promised about the end *)
Abort == /\ IsEv("abort") /\ st \in {"iterating", "maybe"}
         /\ st' = "idle" /\ UNCHANGED <<k, likPrev, recPrev, eps, maxSteps>>

(* a numeric estimator (logistic regression by SAGA) "stops at a stationary point": the gradient of   *)
(* the weighted log-likelihood, recomputed by the recorder from the data at the returned parameters, *)
(* vanishes up to GTol (per observation); an error return promises nothing, but is itself not        *)
(* acceptable on the problems the recorder marks well posed (NumericEstimator with newton / rprop on  *)
(* normal, exponential and gamma families)                                                            *)
NumericOK(e) == /\ (e.err => ~e.wellposed)      \* well-posed problem (interior maximiser, admissible start): no error
                /\ (e.err \/ e.gnorm <= GTol * e.n)
Numeric == /\ IsEv("numeric") /\ st = "idle"
           /\ NumericOK(Ev)
           /\ UNCHANGED <<st, k, likPrev, recPrev, eps, maxSteps>>
(* A numeric run that breaks the contract is a DEVIATION of the code, named here as an action of its *)
(* own so that the rest of the trace is still examined: the event is consumed and its position is   *)
(* printed; the orchestrator turns every printed position into a reported violation (or matches it  *)
(* with a listed known finding).                                                                     *)
NumericDeviation == /\ IsEv("numeric") /\ st = "idle"
                    /\ ~NumericOK(Ev)
                    /\ PrintT(<<"NUMERIC_DEVIATION", l>>)
                    /\ UNCHANGED <<st, k, likPrev, recPrev, eps, maxSteps>>

(* two quantities the contract says are equal, observed on two runs of the real estimators: the run  *)
(* with ChunkSize and the run on sequences cut by hand; DiscreteMixtureEstimator (repeated values     *)
(* stored once) and MixtureEstimator on the same data; the transition matrix before and after        *)
(* Baum-Welch with OptimizeTransitions = false                                                        *)
Twin == /\ IsEv("twin") /\ st = "idle"
        /\ Near(Ev.a, Ev.b)
        /\ UNCHANGED <<st, k, likPrev, recPrev, eps, maxSteps>>

Next == Twin \/ NumericDeviation \/ Begin \/ Hook0 \/ HookI \/ HookMaybe \/ Return \/ ReturnErr \/ Abort \/ Numeric
Spec == Init /\ [][Next]_vars

HighWater == TLCSet(1, IF TLCGet(1) < l THEN l ELSE TLCGet(1))
TraceAccepted ==
  IF TLCGet(1) = Len(Trace) + 1 THEN TRUE
  ELSE Print(<<"TRACE_REJECTED_AT", TLCGet(1), "OF", Len(Trace)>>, FALSE)
=============================================================================
