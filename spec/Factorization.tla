---------------------------- MODULE Factorization ----------------------------
(***************************************************************************)
(* C05 - matrix factorizations reproduce their input with the promised     *)
(* structure.                                                              *)
(*                                                                         *)
(* CONTRACT LAYER, written from the property text, the doc comments and    *)
(* the calling conventions shown by the package tests - not from the       *)
(* algorithms.  For every decomposition routine the table `Contracts`      *)
(* states                                                                  *)
(*   input   the admissible input class (spd / sym / square / tall m>=n)   *)
(*   f1..f3  the zero pattern / orthogonality promised for each returned   *)
(*           factor (names are the interface to the harness projection)    *)
(*   eq      the defining equation that must reproduce the input           *)
(*   opts    the option names whose every combination is quantified over   *)
(* The module is also the CASE GENERATOR: TLC enumerates the structure     *)
(* classes below over small integers and prints every case with what the   *)
(* construction makes known EXACTLY (Rat.tla): Cholesky / LDL factors of   *)
(* A = L L' for integer L, eigenvalues of reflector conjugations, of       *)
(* companion matrices of integer polynomials (real, repeated roots and     *)
(* complex pairs), of triangular/bidiagonal inputs, singular values of     *)
(* reflector x diagonal x reflector products.  The model-level invariant   *)
(* KnowledgeOK checks that knowledge against the definitions (L L' = A,    *)
(* A H = H D, p(root) = 0, S S^-1 = I, ||A||_F^2 = sum sigma^2) on every   *)
(* enumerated case.                                                        *)
(*                                                                         *)
(* A generator is a uniform record                                         *)
(*   [cls, m, n, p, q, r, k]   (p, q, r integer tuples, k an integer)      *)
(* interpreted per class; the matrix is Num(g) / Den(g) (integer numerator *)
(* matrix, one power-of-two denominator: exact in binary floating point).  *)
(*                                                                         *)
(*  spd      A = (D L)(D L)', L integer lower triangular with positive     *)
(*           diagonal (p, row major), D = diag(2^-k(i-1)) (graded scales)  *)
(*  symrefl  A = H diag(d) H / 2^k, H = (v'v) I - 2 v v' (integer scaled   *)
(*           Householder reflector, p = v, q = d): symmetric, eigenvalues  *)
(*           (v'v)^2 d_i / 2^k - repeated, clustered, zero, +-equal        *)
(*  compan   S D C D^-1 S^-1, C the companion matrix of                    *)
(*           prod (x - q_i) prod (x^2 + b x + c) (p = b1,c1,b2,c2,..,      *)
(*           b^2 < 4c: complex pairs), S unit lower triangular integer     *)
(*           (r = <<t>>, t = 0: identity), D = diag(2^k(i-1)) (grading)    *)
(*  triang   upper (k = 0) / lower (k = 1) triangular, p = diagonal,       *)
(*           q = strict part (all zero: diagonal matrix)                   *)
(*  bidiag   upper bidiagonal m x n (zero rows appended), p = diagonal,    *)
(*           q = super-diagonal                                            *)
(*  tridiag  symmetric tridiagonal, p = diagonal, q = off-diagonal         *)
(*  hess     dense upper Hessenberg pattern matrix, p = <<t>>              *)
(*  dense    dense m x n pattern matrix, p = <<t>>, q = <<zero row, zero   *)
(*           column>> (0: none), r = <<1>>: last column := first column    *)
(*           (rank deficient)                                              *)
(*  svdrefl  A = Hv E diag(d) Hw, E the m x n partial permutation with     *)
(*           rows shifted by k, Hv / Hw integer reflectors (q = v, r = w,  *)
(*           all zero: identity): singular values (v'v)(w'w)|d_j|          *)
(*  illcond  A = Hv E diag(d) Hw / 2^k with geometrically graded d         *)
(*           (2^k, .., 1): dense, ILL-CONDITIONED with the exact 2-norm    *)
(*           condition number max|d| / min|d| (p = d, q = v, r = w)        *)
(*  hilbert  420 / (i + j - 1)  (the Hilbert matrix scaled to integers),   *)
(*           symmetric positive definite, condition number from the exact  *)
(*           inverse (closed form, verified by TLC: H Hinv = I)            *)
(*  lauchli  the (n+1) x n Laeuchli matrix: a row of ones and eps I,       *)
(*           diag(c_j) 2^-k (p = c, q[1] = 0: ones first, 1: last; q[2] =  *)
(*           1: rows mixed by an integer reflector, scale (v'v));          *)
(*           the classical example on which an orthogonalisation that is   *)
(*           not backward stable loses orthogonality like u cond^2;        *)
(*           condition number sqrt(n + eps^2) / eps <= sqrt(n + 1) / eps   *)
(*  spdcond  A = H diag(e_i^2) H / 4^j, H = (v'v) I - 2 v v', e graded     *)
(*           2^j, .., 1 (p = v, q = e, k = 2j): SPD with the PRESCRIBED    *)
(*           condition number 4^j (64 .. 10^6), exact eigenvalues and the  *)
(*           exact square root H diag(e) H / ((v'v) 2^j) and inverse       *)
(*           square root (rationals) - TLC verifies S S = A, X A X = I     *)
(*  partred  PARTIALLY REDUCED inputs, sizes 3..NP: every pattern of       *)
(*           "column already reduced / not" (q = mask over the columns,    *)
(*           p = <<t>> value pattern), r = <<kind>>: 0 Hessenberg-type     *)
(*           (zeros below the sub-diagonal of the marked columns), 1 the   *)
(*           symmetric version (for the tridiagonalisation), 2 bidiagonal  *)
(*           type (zeros below the diagonal of the marked columns)         *)
(* For these classes the case carries the exact condition number and   *)
(* the orthogonality tolerance of the promised orthogonal factors is       *)
(* OrthK * u * cond * m (u = 2^-53), never looser than the general one:    *)
(* the loss of orthogonality of a backward stable orthogonalisation grows  *)
(* at most like u * cond, not like u * cond^2.                             *)
(***************************************************************************)
EXTENDS Rat, FiniteSets, SequencesExt, Json

CONSTANTS NP,       \* largest dimension of the partially reduced inputs (class partred)
          N,        \* largest dimension (3 quick, 4 thorough)
          Level     \* 1 quick parameter grids, 2 thorough parameter grids

VARIABLE g

(* ------------------------------------------------------------ integers *)
Abs(x) == IF x < 0 THEN -x ELSE x
RECURSIVE SumTo(_, _)
SumTo(s, k) == IF k = 0 THEN 0 ELSE s[k] + SumTo(s, k - 1)
SumInts(s) == SumTo(s, Len(s))
RECURSIVE MaxTo(_, _)
MaxTo(s, k) == IF k = 0 THEN 0 ELSE LET m == MaxTo(s, k - 1) IN IF s[k] > m THEN s[k] ELSE m
MaxInts(s) == MaxTo(s, Len(s))                                   \* of non-negative entries
RECURSIVE Pow2(_)
Pow2(e) == IF e <= 0 THEN 1 ELSE 2 * Pow2(e - 1)
Dot(u, v) == SumInts(TLCEval([i \in 1..Len(u) |-> u[i] * v[i]]))
AllZero(s) == \A i \in 1..Len(s) : s[i] = 0
HasRepeat(s) == \E i, j \in 1..Len(s) : i < j /\ s[i] = s[j]

(* all tuples t with t[i] \in S[i] *)
RECURSIVE Tuples(_)
Tuples(S) == IF S = <<>> THEN {<<>>} ELSE {<<x>> \o t : x \in Head(S), t \in Tuples(Tail(S))}
NonIncreasing(s) == \A i \in 1..(Len(s) - 1) : s[i] >= s[i + 1]

(* ------------------------------------------------------------ matrices *)
(* a matrix is a tuple of rows *)
Mat(m, n, F(_, _)) == TLCEval([i \in 1..m |-> TLCEval([j \in 1..n |-> F(i, j)])])
Rows(A) == Len(A)
Cols(A) == IF Len(A) = 0 THEN 0 ELSE Len(A[1])
Tr(A) == Mat(Cols(A), Rows(A), LAMBDA i, j : A[j][i])
Ident(n) == Mat(n, n, LAMBDA i, j : IF i = j THEN 1 ELSE 0)
MMul(A, B) == Mat(Rows(A), Cols(B), LAMBDA i, j : SumInts(TLCEval([t \in 1..Cols(A) |-> A[i][t] * B[t][j]])))
MAdd(A, B) == Mat(Rows(A), Cols(A), LAMBDA i, j : A[i][j] + B[i][j])
MNeg(A) == Mat(Rows(A), Cols(A), LAMBDA i, j : 0 - A[i][j])
MScale(c, A) == Mat(Rows(A), Cols(A), LAMBDA i, j : c * A[i][j])
DiagM(d) == Mat(Len(d), Len(d), LAMBDA i, j : IF i = j THEN d[i] ELSE 0)
IsSym(A) == Rows(A) = Cols(A) /\ \A i, j \in 1..Rows(A) : A[i][j] = A[j][i]
SumSq(A) == SumInts(TLCEval([i \in 1..Rows(A) |-> SumInts(TLCEval([j \in 1..Cols(A) |-> A[i][j] * A[i][j]]))]))
Sgn(k) == IF k % 2 = 0 THEN 1 ELSE -1
DelAt(s, k) == SubSeq(s, 1, k - 1) \o SubSeq(s, k + 1, Len(s))
Minor(A, i, j) == LET B == DelAt(A, i) IN TLCEval([r \in 1..Len(B) |-> DelAt(B[r], j)])
RECURSIVE Det(_)
Det(A) == IF Len(A) = 0 THEN 1
          ELSE IF Len(A) = 1 THEN A[1][1]
          ELSE LET n == Len(A)
               IN SumInts(TLCEval([i \in 1..n |-> IF A[i][n] = 0 THEN 0 ELSE Sgn(i + n) * A[i][n] * Det(Minor(A, i, n))]))

(* integer scaled Householder reflector  (v'v) I - 2 v v'  (identity for v = 0) *)
ReflScale(v) == IF AllZero(v) THEN 1 ELSE Dot(v, v)
Refl(v) == IF AllZero(v) THEN Ident(Len(v))
           ELSE Mat(Len(v), Len(v), LAMBDA i, j : (IF i = j THEN Dot(v, v) ELSE 0) - 2 * v[i] * v[j])

(* deterministic small-integer pattern in -2..2 *)
Pat(t, i, j) == ((7 * i + 3 * j + t * (i + 2 * j) + t * t + i * j) % 5) - 2

(* ------------------------------------------------------------ generators *)
G(cls, m, n, p, q, r, k) == [cls |-> cls, m |-> m, n |-> n, p |-> p, q |-> q, r |-> r, k |-> k]

LIdx(i, j) == (i * (i - 1)) \div 2 + j
LowerOf(p, n) == Mat(n, n, LAMBDA i, j : IF j <= i THEN p[LIdx(i, j)] ELSE 0)
UIdx(i, j, n) == (i - 1) * n - (i * (i - 1)) \div 2 + (j - i)            \* strict upper part, row major
StrictUpperOf(q, n) == Mat(n, n, LAMBDA i, j : IF j > i THEN q[UIdx(i, j, n)] ELSE 0)

(* polynomial (coefficient tuple, lowest degree first, monic) *)
PolyMul(a, b) == TLCEval([t \in 1..(Len(a) + Len(b) - 1) |->
                   SumInts(TLCEval([i \in 1..Len(a) |-> IF t - i + 1 >= 1 /\ t - i + 1 <= Len(b) THEN a[i] * b[t - i + 1] ELSE 0]))])
RECURSIVE PolyOfRoots(_)
PolyOfRoots(q) == IF q = <<>> THEN <<1>> ELSE PolyMul(<<0 - Head(q), 1>>, PolyOfRoots(Tail(q)))
RECURSIVE PolyOfPairs(_)
PolyOfPairs(p) == IF p = <<>> THEN <<1>> ELSE PolyMul(<<p[2], p[1], 1>>, PolyOfPairs(Tail(Tail(p))))
PolyOf(g_) == PolyMul(PolyOfRoots(g_.q), PolyOfPairs(g_.p))
PolyAt(c, x) == SumInts(TLCEval([i \in 1..Len(c) |-> c[i] * (IF i = 1 THEN 1 ELSE IF i = 2 THEN x ELSE IF i = 3 THEN x * x
                                                     ELSE IF i = 4 THEN x * x * x ELSE x * x * x * x)]))
Companion(c) == LET n == Len(c) - 1
                IN Mat(n, n, LAMBDA i, j : IF j = n THEN 0 - c[i] ELSE IF i = j + 1 THEN 1 ELSE 0)
(* unit lower triangular similarity S = I + Nl and its inverse I - Nl + Nl^2 - Nl^3 *)
SimN(t, n) == Mat(n, n, LAMBDA i, j : IF t > 0 /\ i > j THEN ((i + 2 * j + t) % 3) - 1 + (IF i = j + 1 THEN (t % 2) ELSE 0) ELSE 0)
SimS(t, n) == MAdd(Ident(n), SimN(t, n))
SimSinv(t, n) == LET Nl == SimN(t, n)  N2 == MMul(Nl, Nl)  N3 == MMul(N2, Nl)
                 IN MAdd(MAdd(Ident(n), MNeg(Nl)), MAdd(N2, MNeg(N3)))

CompanBase(g_) == LET C == Companion(PolyOf(g_)) IN MMul(SimS(g_.r[1], g_.n), MMul(C, SimSinv(g_.r[1], g_.n)))

Num(g_) ==
  CASE g_.cls = "spd" ->
         LET L == LowerOf(g_.p, g_.n)  LLt == MMul(L, Tr(L))
         IN Mat(g_.n, g_.n, LAMBDA i, j : LLt[i][j] * Pow2(g_.k * (2 * g_.n - i - j)))
    [] g_.cls = "symrefl" -> LET H == Refl(g_.p) IN MMul(H, MMul(DiagM(g_.q), H))
    [] g_.cls = "compan" ->
         LET B == CompanBase(g_)
         IN Mat(g_.n, g_.n, LAMBDA i, j : B[i][j] * Pow2(g_.k * (i - j + g_.n - 1)))
    [] g_.cls = "triang" ->
         LET U == MAdd(DiagM(g_.p), StrictUpperOf(g_.q, g_.n)) IN IF g_.k = 0 THEN U ELSE Tr(U)
    [] g_.cls = "bidiag" ->
         Mat(g_.m, g_.n, LAMBDA i, j : IF i = j THEN g_.p[i] ELSE IF j = i + 1 THEN g_.q[i] ELSE 0)
    [] g_.cls = "tridiag" ->
         Mat(g_.n, g_.n, LAMBDA i, j : IF i = j THEN g_.p[i] ELSE IF j = i + 1 THEN g_.q[i] ELSE IF i = j + 1 THEN g_.q[j] ELSE 0)
    [] g_.cls = "hess" ->
         Mat(g_.n, g_.n, LAMBDA i, j : IF j >= i - 1 THEN Pat(g_.p[1], i, j) ELSE 0)
    [] g_.cls = "dense" ->
         Mat(g_.m, g_.n, LAMBDA i, j : IF i = g_.q[1] \/ j = g_.q[2] THEN 0
                                       ELSE IF g_.r[1] = 1 /\ j = g_.n /\ g_.n > 1 THEN Pat(g_.p[1], i, 1)
                                       ELSE Pat(g_.p[1], i, j))
    [] g_.cls = "svdrefl" ->
         LET E == Mat(g_.m, g_.n, LAMBDA i, j : IF i = ((j - 1 + g_.k) % g_.m) + 1 THEN g_.p[j] ELSE 0)
         IN MMul(Refl(g_.q), MMul(E, Refl(g_.r)))
    [] g_.cls = "illcond" ->
         LET E == Mat(g_.m, g_.n, LAMBDA i, j : IF i = j THEN g_.p[j] ELSE 0)
         IN MMul(Refl(g_.q), MMul(E, Refl(g_.r)))
    [] g_.cls = "hilbert" -> Mat(g_.n, g_.n, LAMBDA i, j : 420 \div (i + j - 1))
    [] g_.cls = "spdcond" -> LET H == Refl(g_.p) IN MMul(H, MMul(DiagM(TLCEval([i \in 1..g_.n |-> g_.q[i] * g_.q[i]])), H))
    [] g_.cls = "partred" ->
         LET NZ(i, j) == IF Pat(g_.p[1], i, j) = 0 THEN 1 ELSE Pat(g_.p[1], i, j)       \* never an accidental zero
             Marked(j) == j <= Len(g_.q) /\ g_.q[j] = 1
             HessT(i, j) == IF i > j + 1 /\ Marked(j) THEN 0 ELSE NZ(i, j)
         IN IF g_.r[1] = 0 THEN Mat(g_.n, g_.n, HessT)
            ELSE IF g_.r[1] = 1 THEN Mat(g_.n, g_.n, LAMBDA i, j : IF i >= j THEN HessT(i, j) ELSE HessT(j, i))
            ELSE Mat(g_.m, g_.n, LAMBDA i, j : IF i > j /\ Marked(j) THEN 0 ELSE NZ(i, j))
    [] g_.cls = "lauchli" ->
         LET L == Mat(g_.m, g_.n, LAMBDA i, j : IF g_.q[1] = 0 THEN (IF i = 1 THEN Pow2(g_.k) ELSE IF i = j + 1 THEN g_.p[j] ELSE 0)
                                                ELSE (IF i = g_.m THEN Pow2(g_.k) ELSE IF i = j THEN g_.p[j] ELSE 0))
         IN IF g_.q[2] = 0 THEN L ELSE MMul(Refl(TLCEval([i \in 1..g_.m |-> IF i = 2 THEN -2 ELSE 1])), L)   \* orthogonal mixing of the rows

Den(g_) ==
  CASE g_.cls = "spd" -> Pow2(2 * g_.k * (g_.n - 1))
    [] g_.cls = "symrefl" -> Pow2(g_.k)
    [] g_.cls = "compan" -> Pow2(g_.k * (g_.n - 1))
    [] g_.cls \in {"illcond", "lauchli", "spdcond"} -> Pow2(g_.k)
    [] OTHER -> 1

(* ------------------------------------------------------------ parameter grids *)
Sizes == 1..N
LowerSets(n, dv, sv) == Tuples(TLCEval([t \in 1..((n * (n + 1)) \div 2) |->
                           IF \E i \in 1..n : t = LIdx(i, i) THEN dv
                           ELSE IF n = 4 /\ ~(\E i \in 2..n : t = LIdx(i, i - 1)) THEN {1} ELSE sv]))
SpdGens ==
  UNION {
    LET dv == IF n <= 2 THEN {1, 2, 3} ELSE IF n = 3 THEN {1, 2} ELSE {1, 3}
        sv == IF n <= 2 THEN {-2, -1, 0, 1} ELSE IF n = 3 THEN (IF Level = 1 THEN {-1, 2} ELSE {-1, 0, 2}) ELSE (IF Level = 1 THEN {1} ELSE {-1, 2})
    IN {G("spd", n, n, p, <<>>, <<>>, 0) : p \in LowerSets(n, dv, sv)}
       \cup {G("spd", n, n, p, <<>>, <<>>, k) : p \in LowerSets(n, {1, 2}, {1}), k \in (IF n = 1 THEN {} ELSE IF Level = 1 THEN {2} ELSE {1, 3})}
    : n \in Sizes}

ReflVecs(n) ==
  CASE n = 1 -> {<<0>>}
    [] n = 2 -> IF Level = 1 THEN {<<1, -2>>, <<0, 0>>} ELSE {<<1, 1>>, <<1, -2>>, <<0, 0>>}
    [] n = 3 -> IF Level = 1 THEN {<<1, 1, 1>>, <<1, -2, 0>>} ELSE {<<1, 1, 1>>, <<1, -2, 0>>, <<0, 1, 1>>, <<2, 1, -2>>}
    [] n = 4 -> IF Level = 1 THEN {<<1, 1, 1, 1>>} ELSE {<<1, 1, 1, 1>>, <<1, 0, -1, 2>>, <<0, 1, 1, 0>>}
ReflVecsSmall(n) == IF n = 3 THEN {<<1, 1, 1>>, <<1, -2, 0>>} ELSE IF n = 4 THEN {<<1, 1, 1, 1>>, <<1, 0, -1, 2>>} \cap ReflVecs(4) ELSE ReflVecs(n)
EigVals == IF Level = 1 THEN {-2, 0, 1, 2} ELSE {-2, -1, 0, 1, 2, 3}
SymReflGens ==
  UNION {
    {G("symrefl", n, n, v, d, <<>>, 0) :
       v \in ReflVecs(n), d \in {s \in Tuples(TLCEval([t \in 1..n |-> EigVals])) : NonIncreasing(s)}}
    \cup (IF n = 1 THEN {} ELSE
          {G("symrefl", n, n, v, TLCEval([t \in 1..n |-> Pow2(k) + (t - 1) * c]), <<>>, k) :   \* clustered: 1, 1 + c 2^-k, ..
             v \in ReflVecs(n), k \in {10, 18}, c \in {0, 1}})
    : n \in Sizes}

(* real roots (non-increasing) and complex pairs x^2 + b x + c, degree = n *)
PairSet == IF Level = 1 THEN {<<0, 1>>, <<-2, 2>>, <<2, 5>>} ELSE {<<0, 1>>, <<-2, 2>>, <<2, 5>>, <<1, 1>>, <<-4, 5>>}
RootVals == IF Level = 1 THEN {-2, -1, 1, 3} ELSE {-3, -2, -1, 0, 1, 2, 3}
RootSets(kk) == {s \in Tuples(TLCEval([t \in 1..kk |-> IF kk = 4 THEN {-2, -1, 1, 3} ELSE RootVals])) : NonIncreasing(s)}
PairSeqs(np) == IF np = 0 THEN {<<>>}
                ELSE IF np = 1 THEN {pr : pr \in PairSet}
                ELSE {p1 \o p2 : p1 \in PairSet, p2 \in PairSet}
(* the real part of a pair must stay clear of the real roots (TLC identifies the real eigenvalues by value) *)
PairClear(p, q) == \A i \in 1..(Len(p) \div 2) : \A j \in 1..Len(q) : 2 * q[j] # 0 - p[2 * i - 1]
CompanGens ==
  UNION {
    UNION {
      UNION {
        {G("compan", n, n, p, q, <<t>>, k) :
           q \in {s \in RootSets(n - 2 * np) : PairClear(p, s)},
           t \in (IF n = 1 THEN {0} ELSE IF Level = 1 THEN {0, 1} ELSE {0, 1, 2}),
           k \in (IF n = 1 \/ np > 0 THEN {0} ELSE IF Level = 1 THEN {0} ELSE {0, 2})}
        : p \in PairSeqs(np)}
      : np \in 0..(n \div 2)}
    : n \in Sizes}
  \cup {G("compan", n, n, <<>>, q, <<1>>, 3) : n \in (2..N) \cap {3}, q \in {<<3, 1, -2>>, <<2, 2, -1>>}}   \* graded scales

TriVals == {-1, 0, 2}
TriangGens ==
  UNION {
    {G("triang", n, n, d, u, <<>>, k) :
       d \in {s \in Tuples(TLCEval([t \in 1..n |-> IF Level = 1 THEN {-1, 2, 3} ELSE {-2, -1, 0, 2, 3}])) : NonIncreasing(s) \/ n <= 2},
       u \in (IF n <= 2 /\ Level = 2 THEN Tuples(TLCEval([t \in 1..((n * (n - 1)) \div 2) |-> TriVals]))
              ELSE {TLCEval([t \in 1..((n * (n - 1)) \div 2) |-> c]) : c \in {0, 2}}
                   \cup {TLCEval([t \in 1..((n * (n - 1)) \div 2) |-> ((t * 2) % 3) - 1])}
                   \cup (IF Level = 2 THEN {TLCEval([t \in 1..((n * (n - 1)) \div 2) |-> ((t * t + 1) % 4) - 1])} ELSE {})),
       k \in {0, 1}}
    : n \in Sizes}

BidiagGens ==
  UNION {
    {G("bidiag", m, n, d, e, <<>>, 0) :
       m \in {mm \in n..(n + 1) : mm <= N},
       d \in Tuples(TLCEval([t \in 1..n |-> IF Level = 1 \/ n = 4 THEN {0, 2} ELSE {-1, 0, 2}])),
       e \in Tuples(TLCEval([t \in 1..(n - 1) |-> IF Level = 1 THEN {0, 1} ELSE IF n = 4 THEN {-1, 0} ELSE {-1, 0, 1}]))}
    : n \in Sizes}

TridiagGens ==
  UNION {
    {G("tridiag", n, n, d, e, <<>>, 0) :
       d \in Tuples(TLCEval([t \in 1..n |-> IF Level = 1 \/ n = 4 THEN {-1, 3} ELSE {-1, 0, 3}])),
       e \in Tuples(TLCEval([t \in 1..(n - 1) |-> IF Level = 1 THEN {0, 1} ELSE IF n = 4 THEN {-2, 1} ELSE {-2, 0, 1}]))}
    : n \in Sizes \ {1}}

HessGens == {G("hess", n, n, <<t>>, <<>>, <<>>, 0) : n \in Sizes \ {1}, t \in 0..(IF Level = 1 THEN 3 ELSE 11)}

DenseGens ==
  {G("dense", m, n, <<t>>, <<zr, zc>>, <<dup>>, 0) :
     n \in Sizes, m \in Sizes, t \in 0..(IF Level = 1 THEN 1 ELSE 3),
     zr \in 0..N, zc \in 0..N, dup \in {0, 1}}

SvdVals == IF Level = 1 THEN {-2, 0, 1, 3} ELSE {-2, -1, 0, 1, 2, 3}
SvdReflGens ==
  UNION { UNION {
    {G("svdrefl", m, n, d, v, w, k) :
       d \in {s \in Tuples(TLCEval([t \in 1..n |-> IF n >= 3 THEN {-2, 0, 1, 3} ELSE SvdVals])) : NonIncreasing(s) \/ (Level = 2 /\ n <= 2)},
       v \in ReflVecs(m), w \in (IF n >= 3 THEN ReflVecsSmall(n) ELSE ReflVecs(n)), k \in (IF Level = 2 /\ n = 1 THEN {0, 1} ELSE {1})}
    : m \in {mm \in Sizes : mm >= n}} : n \in Sizes}

(* geometrically graded singular values 2^e, 2^(e/2), .., 1 *)
GradedD(n, e) == TLCEval([j \in 1..n |-> IF j = 1 THEN Pow2(e) ELSE IF j = n THEN 1 ELSE Pow2(e \div 2) + (j - 2)])
IllCondGens ==
  UNION { UNION {
    {G("illcond", m, n, GradedD(n, e), v, w, e) :
       e \in (IF Level = 1 THEN {12, 20} ELSE {10, 14, 18, 22}),
       v \in {TLCEval([i \in 1..m |-> 0]), TLCEval([i \in 1..m |-> 1])},
       w \in {TLCEval([i \in 1..n |-> 1]), TLCEval([i \in 1..n |-> IF i = 1 THEN 1 ELSE IF i = 2 THEN -2 ELSE 0])}}
    : m \in {mm \in Sizes : mm >= n /\ mm <= n + 1}} : n \in Sizes \ {1}}
LauchliGens == {G("lauchli", n + 1, n, SubSeq(c, 1, n), <<v, h>>, <<>>, e) :
                  n \in {nn \in Sizes : nn >= 2 /\ nn + 1 <= N}, v \in {0, 1}, h \in {0, 1},
                  c \in (IF Level = 1 THEN {<<3, 3, 3>>, <<3, 5, 7>>} ELSE {<<1, 1, 1>>, <<3, 3, 3>>, <<5, 5, 5>>, <<3, 5, 7>>, <<7, 5, 3>>, <<5, 7, 3>>}),
                  e \in (IF Level = 1 THEN {14, 18, 20} ELSE {8, 10, 12, 14, 16, 18, 20})}
HilbertGens == {G("hilbert", n, n, <<>>, <<>>, <<>>, 0) : n \in Sizes \ {1}}

SpdCondGens ==
  UNION {
    {G("spdcond", n, n, v, GradedD(n, j), <<>>, 2 * j) :
       v \in (ReflVecs(n) \ {TLCEval([i \in 1..n |-> 0])}),
       j \in (IF Level = 1 THEN {3, 5, 7, 8, 9, 10} ELSE 3..10)}
    : n \in Sizes \ {1}}
Masks(len) == Tuples(TLCEval([t \in 1..len |-> {0, 1}]))
PartRedGens ==
  UNION {
    {G("partred", n, n, <<t>>, mk, <<kind>>, 0) : t \in (IF Level = 1 THEN {0} ELSE {0, 3}), mk \in Masks(n - 2), kind \in {0, 1}}
    \cup (IF n <= 5 THEN {G("partred", n, n, <<t>>, mk, <<2>>, 0) : t \in (IF Level = 1 THEN {1} ELSE {1, 2}), mk \in Masks(n - 1)} ELSE {})
    : n \in 3..NP}

WellFormed(g_) ==
  /\ g_.m >= g_.n /\ g_.m <= (IF g_.cls = "partred" THEN NP ELSE N) /\ g_.n <= (IF g_.cls = "partred" THEN NP ELSE N)
  /\ g_.cls = "dense" => (g_.q[1] <= g_.m /\ g_.q[2] <= g_.n /\ (g_.r[1] = 1 => g_.n > 1)
                          /\ (Level = 1 => (g_.q[1] = 0 \/ g_.q[2] = 0 \/ g_.q[1] = g_.q[2])))

Gens == {x \in SpdGens \cup SymReflGens \cup CompanGens \cup TriangGens \cup BidiagGens \cup TridiagGens
                 \cup HessGens \cup DenseGens \cup SvdReflGens \cup IllCondGens \cup HilbertGens \cup LauchliGens
                 \cup SpdCondGens \cup PartRedGens : WellFormed(x)}

(* ------------------------------------------------------------ exact knowledge *)
RSeqOfInts(s, den) == TLCEval([i \in 1..Len(s) |-> Rat(s[i], den)])
Dup(s) == TLCEval([i \in 1..(2 * Len(s)) |-> s[(i + 1) \div 2]])

EigKnown(g_) ==
  \/ g_.cls \in {"symrefl", "compan", "triang", "spdcond"}
  \/ g_.cls = "bidiag" /\ g_.m = g_.n
(* all real eigenvalues, with multiplicity *)
EigReal(g_) ==
  CASE g_.cls = "symrefl" -> LET s == ReflScale(g_.p) IN TLCEval([i \in 1..g_.n |-> Rat(s * s * g_.q[i], Pow2(g_.k))])
    [] g_.cls = "spdcond" -> LET s == ReflScale(g_.p) IN TLCEval([i \in 1..g_.n |-> Rat(s * s * g_.q[i] * g_.q[i], Pow2(g_.k))])
    [] g_.cls = "compan" -> RSeqOfInts(g_.q, 1)
    [] g_.cls = "triang" -> RSeqOfInts(g_.p, 1)
    [] g_.cls = "bidiag" /\ g_.m = g_.n -> RSeqOfInts(g_.p, 1)
    [] OTHER -> <<>>
(* real parts of the complex-conjugate pairs, each listed twice *)
EigCRe(g_) ==
  IF g_.cls = "compan" THEN Dup(TLCEval([i \in 1..(Len(g_.p) \div 2) |-> Rat(0 - g_.p[2 * i - 1], 2)])) ELSE <<>>

SvKnown(g_) ==
  \/ g_.cls \in {"symrefl", "svdrefl", "illcond", "spdcond"}
  \/ g_.cls \in {"triang", "bidiag"} /\ AllZero(g_.q)
SingVals(g_) ==
  CASE g_.cls = "symrefl" -> LET s == ReflScale(g_.p) IN TLCEval([i \in 1..g_.n |-> Rat(s * s * Abs(g_.q[i]), Pow2(g_.k))])
    [] g_.cls = "spdcond" -> LET s == ReflScale(g_.p) IN TLCEval([i \in 1..g_.n |-> Rat(s * s * g_.q[i] * g_.q[i], Pow2(g_.k))])
    [] g_.cls = "svdrefl" -> LET s == ReflScale(g_.q) * ReflScale(g_.r) IN TLCEval([i \in 1..g_.n |-> RInt(s * Abs(g_.p[i]))])
    [] g_.cls \in {"triang", "bidiag"} /\ AllZero(g_.q) -> TLCEval([i \in 1..g_.n |-> RInt(Abs(g_.p[i]))])
    [] g_.cls = "illcond" -> LET s == ReflScale(g_.q) * ReflScale(g_.r) IN TLCEval([i \in 1..g_.n |-> Rat(s * Abs(g_.p[i]), Pow2(g_.k))])
    [] OTHER -> <<>>

CholKnown(g_) == g_.cls = "spd"
RZeroMat(n) == TLCEval([i \in 1..n |-> TLCEval([j \in 1..n |-> RZero])])
(* Cholesky factor D L *)
CholL(g_) == IF ~CholKnown(g_) THEN <<>> ELSE
  LET L == LowerOf(g_.p, g_.n)
  IN TLCEval([i \in 1..g_.n |-> TLCEval([j \in 1..g_.n |-> IF j <= i THEN Rat(L[i][j], Pow2(g_.k * (i - 1))) ELSE RZero])])
(* its LDL normalisation: unit lower L~_ij = (L_ij / L_jj) 2^-k(i-j), D_jj = (L_jj 2^-k(j-1))^2 *)
LdlL(g_) == IF ~CholKnown(g_) THEN <<>> ELSE
  LET L == LowerOf(g_.p, g_.n)
  IN TLCEval([i \in 1..g_.n |-> TLCEval([j \in 1..g_.n |-> IF j <= i THEN Rat(L[i][j], L[j][j] * Pow2(g_.k * (i - j))) ELSE RZero])])
LdlD(g_) == IF ~CholKnown(g_) THEN <<>> ELSE
  LET L == LowerOf(g_.p, g_.n)
  IN TLCEval([j \in 1..g_.n |-> Rat(L[j][j] * L[j][j], Pow2(2 * g_.k * (j - 1)))])

(* exact principal square root and inverse square root (class spdcond):                              *)
(*   A = Q L Q', Q = H / s, L = s^2 diag(e^2) / 4^j   =>   A^(1/2) = H diag(e) H / (s 2^j),           *)
(*   A^(-1/2) = H diag(1 / e) H 2^j / s^3                                                             *)
RootKnown(g_) == g_.cls = "spdcond"
SqrtM(g_) == IF ~RootKnown(g_) THEN <<>> ELSE
  LET H == Refl(g_.p)  s == ReflScale(g_.p)  R == MMul(H, MMul(DiagM(g_.q), H))
  IN TLCEval([i \in 1..g_.n |-> TLCEval([j \in 1..g_.n |-> Rat(R[i][j], s * Pow2(g_.k \div 2))])])
InvSqrtM(g_) == IF ~RootKnown(g_) THEN <<>> ELSE
  LET H == Refl(g_.p)  s == ReflScale(g_.p)
  IN TLCEval([i \in 1..g_.n |-> TLCEval([j \in 1..g_.n |->
       RMul(RSumSeq(TLCEval([t \in 1..g_.n |-> Rat(H[i][t] * H[t][j], g_.q[t])])), Rat(Pow2(g_.k \div 2), s * s * s))])])

(* ------------------------------------------------------------ input classes *)
Square(g_) == g_.m = g_.n
Symmetric(g_) == Square(g_) /\ (g_.cls \in {"spd", "symrefl", "tridiag", "hilbert", "spdcond"} \/ IsSym(Num(g_)))
DiagDominantPos(A) == \A i \in 1..Rows(A) : A[i][i] > SumInts(TLCEval([j \in 1..Cols(A) |-> IF j = i THEN 0 ELSE Abs(A[i][j])]))
SPD(g_) ==
  \/ g_.cls = "spd"
  \/ g_.cls = "symrefl" /\ \A i \in 1..g_.n : g_.q[i] > 0
  \/ g_.cls = "spdcond"
  \/ g_.cls \in {"tridiag", "triang", "dense", "bidiag", "hess"} /\ Symmetric(g_) /\ DiagDominantPos(Num(g_))
FullColRank(g_) ==
  CASE g_.cls = "spd" -> TRUE
    [] g_.cls = "symrefl" -> \A i \in 1..g_.n : g_.q[i] # 0
    [] g_.cls = "svdrefl" -> \A i \in 1..g_.n : g_.p[i] # 0
    [] g_.cls \in {"illcond", "hilbert", "lauchli", "spdcond"} -> TRUE
    [] g_.cls = "partred" -> TRUE                                          \* not evaluated: Gram-Schmidt is never run on this class
    [] g_.cls = "compan" -> PolyOf(g_)[1] # 0
    [] g_.cls = "triang" -> \A i \in 1..g_.n : g_.p[i] # 0
    [] OTHER -> LET A == Num(g_) IN Det(MMul(Tr(A), A)) # 0              \* Gram determinant (small entries)
(* non-symmetric with a repeated eigenvalue: possibly defective, eigenvalues only accurate to a root of the unit roundoff *)
Loose(g_) == EigKnown(g_) /\ ~Symmetric(g_) /\ HasRepeat(EigReal(g_) \o EigCRe(g_))

(* ------------------------------------------------------------ exact condition numbers *)
RECURSIVE Binom(_, _)
Binom(a, b) == IF b < 0 \/ b > a THEN 0 ELSE IF b = 0 THEN 1 ELSE (Binom(a - 1, b - 1) * a) \div b
(* inverse of the n x n Hilbert matrix (integers, closed form) *)
HilbertInv(n) == Mat(n, n, LAMBDA i, j : Sgn(i + j) * (i + j - 1) * Binom(n + i - 1, n - j) * Binom(n + j - 1, n - i)
                                           * Binom(i + j - 2, i - 1) * Binom(i + j - 2, i - 1))
HilbertR(n) == TLCEval([i \in 1..n |-> TLCEval([j \in 1..n |-> Rat(1, i + j - 1)])])
MaxAbsS(q) == MaxInts(TLCEval([i \in 1..Len(q) |-> Abs(q[i])]))
MinAbs(q) == MaxAbsS(q) - MaxInts(TLCEval([i \in 1..Len(q) |-> MaxAbsS(q) - Abs(q[i])]))
CondKnown(g_) == g_.cls \in {"illcond", "hilbert", "lauchli", "spdcond"}
(* the condition number as the symbolic term  a * b * 2^e2  (sqrt = FALSE) or  sqrt(a * b) * 2^e2  (sqrt = TRUE): *)
(*  lauchli  sqrt((n + 1) / min c^2) * 2^k  >=  sigma_max / sigma_min   (sigma_max^2 <= n + 1, sigma_min >= min c 2^-k) *)
(*  illcond  2-norm condition number  max|d| * (1 / min|d|)                                                      *)
(*  hilbert  Frobenius condition number  sqrt(||H||_F^2 * ||H^-1||_F^2)   (scaling by 420 cancels)               *)
CondTerm(g_) ==
  CASE g_.cls = "illcond" ->
         [a |-> RInt(MaxInts(TLCEval([i \in 1..g_.n |-> Abs(g_.p[i])]))),
          b |-> Rat(1, MinAbs(g_.p)), sqrt |-> FALSE, e2 |-> 0]
    [] g_.cls = "hilbert" ->
         [a |-> RSumSeq(TLCEval([t \in 1..(g_.n * g_.n) |-> LET x == HilbertR(g_.n)[((t - 1) \div g_.n) + 1][((t - 1) % g_.n) + 1] IN RMul(x, x)])),
          b |-> RInt(SumSq(HilbertInv(g_.n))), sqrt |-> TRUE, e2 |-> 0]
    [] g_.cls = "spdcond" -> [a |-> RInt(MaxAbsS(g_.q) * MaxAbsS(g_.q)), b |-> Rat(1, MinAbs(g_.q) * MinAbs(g_.q)), sqrt |-> FALSE, e2 |-> 0]
    [] g_.cls = "lauchli" -> [a |-> Rat(g_.n + 1, MinAbs(g_.p) * MinAbs(g_.p)), b |-> ROne, sqrt |-> TRUE, e2 |-> g_.k]
    [] OTHER -> [a |-> ROne, b |-> ROne, sqrt |-> FALSE, e2 |-> 0]
(* safety factor of the orthogonality tolerance  OrthK * 2^-53 * cond * m  *)
OrthK == 32

(* "sufficiently positive definite" for the forced-positive-definite LDL (Gill, Murray, Wright: the            *)
(* modification vanishes when every pivot d_j of the plain LDL dominates (theta_j / beta)^2, theta_j the        *)
(* largest |c_ij| = |l_ij d_j| below it and beta^2 >= gamma = max |a_ii|); decided exactly for the spd class.  *)
SuffPD(g_) ==
  /\ g_.cls = "spd"
  /\ LET Lt == LdlL(g_)  D == LdlD(g_)  A == Num(g_)
         gamma == Rat(MaxInts(TLCEval([i \in 1..g_.n |-> Abs(A[i][i])])), Den(g_))
     IN \A j \in 1..g_.n : \A i \in (j + 1)..g_.n :
          RLe(RMul(RMul(Lt[i][j], Lt[i][j]), D[j]), gamma)          \* c^2 <= d_j gamma with c = l_ij d_j, divided by d_j > 0

(* ------------------------------------------------------------ contracts *)
(* pattern names (interface to the harness projection and to FactorizationTrace):                      *)
(*  lower unitlower diag posdiag nonnegdiag upper upperbidiag tridiag hessenberg quasiupper orth       *)
(*  orthcols any (finite) free (nothing promised beyond the defining equation) none                   *)
(* equations: F1F1t  F1F2F1t  F1F2  F1F2F3t  F1F1  F1AF1  eig  (eig: A F1[:,j] = vals[j] F1[:,j])      *)
Contracts == <<
  [routine |-> "cholesky",    input |-> "spd",    f1 |-> "lower",     f2 |-> "none",        f3 |-> "none", eq |-> "F1F1t",   opts |-> <<"buf">>],
  [routine |-> "ldl",         input |-> "spd",    f1 |-> "unitlower", f2 |-> "posdiag",     f3 |-> "none", eq |-> "F1F2F1t", opts |-> <<"buf">>],
  [routine |-> "ldl_forcepd", input |-> "sym",    f1 |-> "unitlower", f2 |-> "posdiag",     f3 |-> "none", eq |-> "F1F2F1t", opts |-> <<"buf">>],
  [routine |-> "gramschmidt", input |-> "tall",   f1 |-> "orthcols",  f2 |-> "upper",       f3 |-> "none", eq |-> "F1F2",    opts |-> <<"buf">>],
  [routine |-> "bidiag",      input |-> "tall",   f1 |-> "orth",      f2 |-> "upperbidiag", f3 |-> "orth", eq |-> "F1F2F3t", opts |-> <<"cu", "cv", "buf">>],
  [routine |-> "tridiag",     input |-> "sym",    f1 |-> "orth",      f2 |-> "tridiag",     f3 |-> "none", eq |-> "F1F2F1t", opts |-> <<"cu", "buf">>],
  [routine |-> "hessenberg",  input |-> "square", f1 |-> "orth",      f2 |-> "hessenberg",  f3 |-> "none", eq |-> "F1F2F1t", opts |-> <<"cu", "setzero", "buf">>],
  [routine |-> "qr",          input |-> "square", f1 |-> "orth",      f2 |-> "quasiupper",  f3 |-> "none", eq |-> "F1F2F1t", opts |-> <<"cu", "eps", "buf">>],
  [routine |-> "qr_sym",      input |-> "sym",    f1 |-> "orth",      f2 |-> "diag",        f3 |-> "none", eq |-> "F1F2F1t", opts |-> <<"cu", "eps", "buf">>],
  [routine |-> "eigen",       input |-> "square", f1 |-> "free",      f2 |-> "none",        f3 |-> "none", eq |-> "eig",     opts |-> <<"vec", "eps", "buf">>],
  [routine |-> "eigen_sym",   input |-> "sym",    f1 |-> "free",      f2 |-> "none",        f3 |-> "none", eq |-> "eig",     opts |-> <<"vec", "eps", "buf">>],
  [routine |-> "svd",         input |-> "tall",   f1 |-> "orth",      f2 |-> "nonnegdiag",  f3 |-> "orth", eq |-> "F1F2F3t", opts |-> <<"cu", "cv", "eps", "buf">>],
  [routine |-> "msqrt",       input |-> "spd",    f1 |-> "any",       f2 |-> "none",        f3 |-> "none", eq |-> "F1F1",    opts |-> <<>>],
  [routine |-> "msqrtinv",    input |-> "spd",    f1 |-> "any",       f2 |-> "none",        f3 |-> "none", eq |-> "F1AF1",   opts |-> <<>>] >>
ContractOf(rt) == LET S == {i \in 1..Len(Contracts) : Contracts[i].routine = rt} IN Contracts[CHOOSE i \in S : TRUE]
RoutineNames == {Contracts[i].routine : i \in 1..Len(Contracts)}
(* routines whose result vector `vals` is promised sorted by decreasing magnitude *)
SortedVals(rt) == rt \in {"eigen", "eigen_sym"}
(* option domains; every combination is run (eps: 0 = routine default, 1 = 1e-12); buf: fresh / reuse / inplace *)
OptionDomain == [cu |-> {FALSE, TRUE}, cv |-> {FALSE, TRUE}, vec |-> {FALSE, TRUE}, setzero |-> {TRUE, FALSE},
                 eps |-> {0, 1}, buf |-> {"fresh", "reuse"}]

InClass(g_, c) ==
  CASE c = "spd" -> Square(g_) /\ SPD(g_)
    [] c = "sym" -> Symmetric(g_)
    [] c = "square" -> Square(g_)
    [] c = "tall" -> g_.m >= g_.n
Admissible(g_, rt) ==
  /\ InClass(g_, ContractOf(rt).input)
  /\ rt \in {"eigen"} => (EigKnown(g_) \/ Symmetric(g_))      \* the real eigenvalues must be identifiable
(* the classes a routine is exercised on (a routine is never run outside its admissible class) *)
Focus(g_, rt) ==
  CASE rt \in {"cholesky", "ldl"} -> TRUE
    [] rt = "ldl_forcepd" -> g_.cls \in {"spd", "symrefl", "tridiag"}
    [] rt \in {"msqrt", "msqrtinv"} -> g_.cls \in {"symrefl", "tridiag", "spdcond"} \/ (g_.cls = "spd" /\ g_.k <= 1)
    [] rt = "gramschmidt" -> g_.cls \in {"dense", "svdrefl", "bidiag", "triang", "illcond", "hilbert", "lauchli"}
    [] rt \in {"bidiag", "svd"} -> g_.cls \in {"dense", "svdrefl", "bidiag", "illcond", "hilbert", "lauchli"} \/ (g_.cls = "partred" /\ g_.r[1] = 2) \/ (Level = 2 /\ g_.cls \in {"symrefl", "triang", "compan", "hess"})
    [] rt \in {"tridiag", "qr_sym", "eigen_sym"} -> g_.cls \in {"symrefl", "tridiag", "spd", "hilbert", "spdcond"} \/ (g_.cls = "partred" /\ g_.r[1] = 1) \/ (g_.cls \in {"triang", "dense"} /\ Symmetric(g_))
    [] rt \in {"hessenberg", "qr"} -> g_.cls \in {"compan", "triang", "hess", "dense", "symrefl", "bidiag", "tridiag", "illcond", "hilbert"}
                                         \/ (g_.cls = "partred" /\ g_.r[1] \in {0, 1})
    [] rt = "eigen" -> g_.cls \in {"compan", "triang", "symrefl", "bidiag", "tridiag"} \/ (g_.cls = "partred" /\ g_.r[1] = 1)
RoutinesOf(g_) == SetToSeq({rt \in RoutineNames : Admissible(g_, rt) /\ Focus(g_, rt)})

(* ------------------------------------------------------------ the printed case *)
Case(g_) ==
  [kind |-> "case", gen |-> g_, num |-> Num(g_), den |-> Den(g_),
   sym |-> Symmetric(g_), spd |-> Square(g_) /\ SPD(g_), fullrank |-> FullColRank(g_), loose |-> Loose(g_),
   eigk |-> EigKnown(g_), eig |-> EigReal(g_), cre |-> EigCRe(g_),
   svk |-> SvKnown(g_), sv |-> SingVals(g_),
   condk |-> CondKnown(g_), cond |-> CondTerm(g_), orthk |-> OrthK,
   rootk |-> RootKnown(g_), sqrtm |-> SqrtM(g_), invsqrtm |-> InvSqrtM(g_),
   cholk |-> CholKnown(g_), chol |-> CholL(g_), ldll |-> LdlL(g_), ldld |-> LdlD(g_), suffpd |-> SuffPD(g_),
   routines |-> RoutinesOf(g_)]

ContractTable ==
  [kind |-> "contracts", contracts |-> Contracts,
   sortedvals |-> SetToSeq({rt \in RoutineNames : SortedVals(rt)}),
   cu |-> <<FALSE, TRUE>>, cv |-> <<FALSE, TRUE>>, vec |-> <<FALSE, TRUE>>, setzero |-> <<TRUE, FALSE>>,
   eps |-> <<0, 1>>, buf |-> <<"fresh", "reuse">>]
ASSUME PrintT(ToJson(ContractTable))

Init == g \in Gens
Next == FALSE /\ UNCHANGED g
Spec == Init /\ [][Next]_g

(* ------------------------------------------------------------ model-level sanity of the knowledge *)
RMatMul(A, B) == TLCEval([i \in 1..Len(A) |-> TLCEval([j \in 1..Len(B[1]) |->
                    RSumSeq(TLCEval([t \in 1..Len(B) |-> RMul(A[i][t], B[t][j])]))])])
RTr(A) == TLCEval([i \in 1..Len(A[1]) |-> TLCEval([j \in 1..Len(A) |-> A[j][i]])])
RDiagM(d) == TLCEval([i \in 1..Len(d) |-> TLCEval([j \in 1..Len(d) |-> IF i = j THEN d[i] ELSE RZero])])
RMatOf(g_) == LET A == Num(g_) IN TLCEval([i \in 1..Rows(A) |-> TLCEval([j \in 1..Cols(A) |-> Rat(A[i][j], Den(g_))])])
KnowledgeOK ==
  /\ CholKnown(g) =>
       /\ RMatMul(CholL(g), RTr(CholL(g))) = RMatOf(g)
       /\ RMatMul(LdlL(g), RMatMul(RDiagM(LdlD(g)), RTr(LdlL(g)))) = RMatOf(g)
       /\ \A i \in 1..g.n : REq(LdlL(g)[i][i], ROne) /\ RLt(RZero, LdlD(g)[i])
  /\ g.cls = "symrefl" =>                                   \* A H = (v'v)^2 H diag(d)  (numerators)
       LET H == Refl(g.p)  s == ReflScale(g.p)
       IN /\ MMul(H, H) = MScale(s * s, Ident(g.n))
          /\ g.k = 0 => MMul(Num(g), H) = MScale(s * s, MMul(H, DiagM(g.q)))       \* (k > 0: the same identity, scaled)
          /\ IsSym(Num(g))
  /\ g.cls = "compan" =>
       /\ \A i \in 1..Len(g.q) : PolyAt(PolyOf(g), g.q[i]) = 0
       /\ \A i \in 1..(Len(g.p) \div 2) : g.p[2 * i - 1] * g.p[2 * i - 1] < 4 * g.p[2 * i]
       /\ MMul(SimS(g.r[1], g.n), SimSinv(g.r[1], g.n)) = Ident(g.n)
       /\ Len(PolyOf(g)) = g.n + 1
       /\ \A i \in 1..Len(g.q) : Det(MAdd(CompanBase(g), MScale(0 - g.q[i], Ident(g.n)))) = 0
  /\ g.cls = "svdrefl" =>
       LET s == ReflScale(g.q) * ReflScale(g.r) IN SumSq(Num(g)) = s * s * Dot(g.p, g.p)
  /\ g.cls = "illcond" =>                                   \* both reflectors are scaled orthogonal matrices; d is graded and non-zero
       /\ MMul(Refl(g.q), Refl(g.q)) = MScale(ReflScale(g.q) * ReflScale(g.q), Ident(g.m))
       /\ MMul(Refl(g.r), Refl(g.r)) = MScale(ReflScale(g.r) * ReflScale(g.r), Ident(g.n))
       /\ \A i \in 1..g.n : g.p[i] > 0 /\ g.p[i] <= g.p[1]
       /\ MinAbs(g.p) = 1 /\ g.p[1] = Pow2(g.k)
  /\ g.cls = "spdcond" =>                                   \* S S = A and X A X = I in exact rationals, S and X symmetric
       LET Sq == SqrtM(g)  X == InvSqrtM(g)
       IN /\ (g.k > 10 \/ RMatMul(Sq, Sq) = RMatOf(g))                                       \* (larger gradings: same formula, 32-bit range)
          /\ (g.k > 10 \/ RMatMul(X, RMatMul(RMatOf(g), X)) = RDiagM(TLCEval([i \in 1..g.n |-> ROne])))
          /\ Sq = RTr(Sq) /\ X = RTr(X)
          /\ g.k % 2 = 0 /\ MinAbs(g.q) = 1
  /\ g.cls = "partred" =>
       LET A == Num(g) IN
       /\ g.r[1] \in {0, 1} => \A j \in 1..Len(g.q) : (g.q[j] = 1) = (\A i \in (j + 2)..g.n : A[i][j] = 0)
       /\ g.r[1] = 2 => \A j \in 1..Len(g.q) : (g.q[j] = 1) = (\A i \in (j + 1)..g.m : A[i][j] = 0)
       /\ g.r[1] = 1 => IsSym(A)
  /\ (g.cls = "lauchli" /\ g.q[2] = 0) =>                                \* A'A = J + diag(eps_j^2)  (numerators: 4^k J + diag(c_j^2)), eigenvalues n + eps^2 and eps^2
       (g.k > 14 \/ MMul(Tr(Num(g)), Num(g)) = Mat(g.n, g.n, LAMBDA i, j : Pow2(g.k) * Pow2(g.k) + (IF i = j THEN g.p[i] * g.p[i] ELSE 0)))
  /\ g.cls = "hilbert" =>
       /\ RMatMul(HilbertR(g.n), TLCEval([i \in 1..g.n |-> TLCEval([j \in 1..g.n |-> RInt(HilbertInv(g.n)[i][j])])]))
            = TLCEval([i \in 1..g.n |-> TLCEval([j \in 1..g.n |-> IF i = j THEN ROne ELSE RZero])])
       /\ \A i, j \in 1..g.n : Num(g)[i][j] * (i + j - 1) = 420
  /\ Symmetric(g) => IsSym(Num(g))
  /\ (Square(g) /\ SPD(g) /\ g.n <= 3 /\ g.k = 0 /\ g.cls # "symrefl") => \A kk \in 1..g.n : Det(Mat(kk, kk, LAMBDA i, j : Num(g)[i][j])) > 0   \* Sylvester
  /\ Rows(Num(g)) = g.m /\ Cols(Num(g)) = g.n

Emit == PrintT(ToJson(Case(g)))
=============================================================================
