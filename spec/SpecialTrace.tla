----------------------------- MODULE SpecialTrace -----------------------------
(***************************************************************************)
(* C13, code -> model.  The recorder instantiates the identity schemas of   *)
(* SpecialDefs.tla at seeded random dyadic points of the schema's domain,   *)
(* calls the library and logs one event per instance:                       *)
(*   [e |-> "id", idx, fam, args (pairs n/d), cls, r]                        *)
(* r is the residual |lhs - rhs| beyond the evaluator's own error bound in  *)
(* integer units of 2^-52 * scale (scale = the schema's conditioning term). *)
(* The trace is accepted iff every event names a schema of the              *)
(* specification, its arguments lie in a box of the schema's domain, every   *)
(* library value was finite (the points are inside the domain) and the       *)
(* residual is within the family's bound K.                                  *)
(***************************************************************************)
EXTENDS SpecialDefs

Trace == ndJsonDeserialize("special_trace.ndjson")

VARIABLE l

(* lo <= n/d <= hi for rationals given as pairs *)
LeqPair(a, b) == a[1] * b[2] <= b[1] * a[2]
InRange(rg, x) == LeqPair(rg.lo, x) /\ LeqPair(x, rg.hi)
InBox(box, args) == \A v \in 1..Len(box) : InRange(box[v], args[v])
InDomain(dom, args) == \E b \in 1..Len(dom) : InBox(dom[b], args)

Accept(ev) ==
  /\ ev.e = "id"
  /\ ev.idx \in 1..NIdFam
  /\ LET loc == Locate(ev.idx, 1)
         S   == SchemaOf(loc[1], loc[2])
     IN /\ S.fam = ev.fam
        /\ Len(ev.args) = S.nvars
        /\ \A v \in 1..S.nvars : ev.args[v][2] > 0
        /\ InDomain(S.dom, ev.args)
        /\ ev.cls = "finite"
        /\ ev.r >= 0 /\ ev.r <= S.K

Init == TLCSet(1, 0) /\ l = 1
Next == /\ l <= Len(Trace)
        /\ Accept(Trace[l])
        /\ l' = l + 1
Spec == Init /\ [][Next]_l

HighWater == TLCSet(1, IF TLCGet(1) < l THEN l ELSE TLCGet(1))
TraceAccepted ==
  IF TLCGet(1) = Len(Trace) + 1 THEN TRUE
  ELSE Print(<<"TRACE_REJECTED_AT", TLCGet(1), "OF", Len(Trace)>>, FALSE)
=============================================================================
