------------------------------- MODULE Aliasing -------------------------------
(***************************************************************************)
(* CONTRACT for property C08: "results do not depend on the receiver       *)
(* aliasing an operand".                                                   *)
(*                                                                         *)
(* The contract is SIMULTANEOUS-ASSIGNMENT semantics: the post-state of    *)
(* the receiver is a function of the PRE-state contents of the operands,   *)
(* whatever objects coincide or share storage.  No operator below can see  *)
(* which roles are played by the same object: the expectation of a case    *)
(* is computed from the role CONTENTS only (AliasBlind).                   *)
(*                                                                         *)
(* Two families of cases are enumerated and printed with the result the    *)
(* contract demands (the oracle of harness/cmd/alias):                     *)
(*                                                                         *)
(*  Part = "scalar"  every scalar operation (unary, binary, with scratch   *)
(*     scalar, with numeric parameter) x every ALIAS PATTERN = partition   *)
(*     of the roles {receiver r, operand a, operand b, temporary t} into   *)
(*     objects x the kind of every object (variable / nonlinear result of  *)
(*     order 1 | 2, linear result of order 1, order-0 magic scalar, plain  *)
(*     Float64, ConstFloat64 where it is not written) x n in NSet x a few  *)
(*     evaluation points.  Expected = the symbolic value / gradient /      *)
(*     Hessian terms (Expr.tla: Meaning, D, D2) of the operation applied    *)
(*     to the PRE-state terms.                                             *)
(*                                                                         *)
(*  Part = "cont"    element-wise vector and matrix operations, matrix     *)
(*     product, matrix-vector products and outer product on objects that   *)
(*     are VIEWS (whole / slice / transpose) of parent containers; roles   *)
(*     may be the same object, distinct headers on the same window, or     *)
(*     overlapping windows of one parent.  Expected = Containers.tla       *)
(*     Result applied to the pre-state contents read through the views,    *)
(*     written back through the receiver's view (all other cells of every  *)
(*     parent unchanged).                                                  *)
(*                                                                         *)
(* Decision on temporaries (docs/C08.md): the property statement is about  *)
(* the RECEIVER coinciding with operands.  Patterns in which the scratch   *)
(* scalar t coincides with another role (an operand handed over as scratch *)
(* space is destroyed by definition; the receiver handed over as its own   *)
(* scratch space is supported by no documentation) are enumerated and      *)
(* executed, but classified "info": reported in evidence, never a verdict. *)
(***************************************************************************)
EXTENDS Expr, AliasingViews, Json

CONSTANTS Part,     \* "scalar" | "cont"
          NSet,     \* numbers of independent variables (scalar part)
          Rich,     \* 0: quick enumeration; 1: everything
          Emit      \* print the cases

VARIABLES ph,       \* "start" | "group" | "case"
          grp,      \* the group picked at the first level (operation, pattern)
          c         \* the case

vars == <<ph, grp, c>>

Max2(x, y) == IF x > y THEN x ELSE y
RECURSIVE MaxSeq(_)
MaxSeq(s) == IF Len(s) = 0 THEN 0 ELSE Max2(Head(s), MaxSeq(Tail(s)))

(***************************************************************************)
(*                             SCALAR FAMILY                               *)
(***************************************************************************)

(* ---- signatures -------------------------------------------------------- *)
TempUnary  == {"Sigmoid"}
TempBinary == {"LogAdd", "LogSub"}
ParamList  == {<<"Mlgamma", 2, 1>>, <<"GammaP", 5, 2>>, <<"BesselI", 1, 2>>, <<"LogBesselI", 1, 1>>}
ParamNames == {p[1] : p \in ParamList}

RolesOf(op) ==
  IF op \in TempBinary THEN <<"r", "a", "b", "t">>
  ELSE IF op \in BinaryOps THEN <<"r", "a", "b">>
  ELSE IF op \in TempUnary THEN <<"r", "a", "t">>
  ELSE <<"r", "a">>

(* ---- alias patterns: set partitions as restricted growth strings ------- *)
Patterns(m) ==
  {f \in [1..m -> 1..m] : f[1] = 1 /\ \A k \in 2..m : f[k] <= 1 + MaxSeq(SubSeq(f, 1, k - 1))}

NObj(f) == MaxSeq(f)
RoleSet(roles, f, j) == {roles[k] : k \in {i \in 1..Len(roles) : f[i] = j}}
ObjOf(roles, f, role) ==
  IF \E k \in 1..Len(roles) : roles[k] = role
  THEN f[CHOOSE k \in 1..Len(roles) : roles[k] = role] ELSE 0

(* the temporary coincides with another role: information only *)
TempShared(roles, f) ==
  \E k \in 1..Len(roles) : roles[k] = "t" /\ \E i \in 1..Len(roles) : i # k /\ f[i] = f[k]
PatternName(roles, f) ==
  [k \in 1..Len(roles) |-> f[k]]

(* ---- object kinds -------------------------------------------------------
   k   "real"   magic scalar carrying derivatives of order o (1 | 2) w.r.t. n variables,
                content class cl: "var" the variable x_slot itself, "nl" a nonlinear
                polynomial, "lin" a linear polynomial (order 1 only)
       "magic0" magic scalar of order 0 (a constant that can acquire derivatives)
       "plain"  Float64 / Float32 (value only)
       "const"  ConstFloat64 (cannot be written)
       "tmp"    a fresh magic scalar used as scratch space only                    *)
Kind(k, o, cl) == [k |-> k, o |-> o, cl |-> cl]
RealKinds   == {Kind("real", o, cl) : o \in {1, 2}, cl \in {"var", "nl"}} \cup {Kind("real", 1, "lin")}
ConstKinds  == {Kind("magic0", 0, "c"), Kind("plain", 0, "c")}
TmpKind     == Kind("tmp", 0, "zero")
NInfKind    == Kind("const", 0, "ninf")

KindsFor(rs, op) ==
  IF rs = {"t"} THEN {TmpKind}
  ELSE IF "r" \in rs \/ "t" \in rs
       THEN (IF rs = {"r"} THEN {TmpKind, Kind("plain", 0, "c")}
                               \cup (IF Rich = 1 THEN {Kind("real", 1, "nl"), Kind("real", 2, "nl")} ELSE {})
             ELSE RealKinds \cup ConstKinds
                  \* a receiver that is the -Inf operand of LogAdd / LogSub
                  \cup (IF op \in {"LogAdd", "LogSub"} /\ "b" \in rs /\ "t" \notin rs
                        THEN {Kind("plain", 0, "ninf"), Kind("magic0", 0, "ninf")} ELSE {}))
       ELSE RealKinds \cup ConstKinds \cup {Kind("const", 0, "c")}
            \cup (IF op \in {"LogAdd", "LogSub"} /\ rs = {"b"} THEN {NInfKind} ELSE {})

(* an order-1 scalar carries no second-order information (GetHessian = 0): where the *)
(* result has order 2 its content must be LINEAR for the textbook Hessian to apply    *)
\* (opd: the objects that are operands; a receiver that is no operand may hold anything)
OrdersOK(ks, opd) ==
  LET os == {ks[j].o : j \in {i \in opd : ks[i].k = "real"}} IN
  2 \in os => \A j \in opd : (ks[j].k = "real" /\ ks[j].o = 1) => ks[j].cl \in {"var", "lin"}

(* ---- contents ------------------------------------------------------------ *)
X1 == X(1)
X2 == X(2)
\* slot 1 (first operand role of the object is a), slot 2 (b)
Content(cl, slot, n) ==
  CASE cl = "var"  -> IF slot = 1 THEN X(1) ELSE X(n)
    [] cl = "nl"   -> IF n = 1
                      THEN (IF slot = 1 THEN Add(Mul(Mul(X1, X1), X1), Mul(X1, X1))          \* x^3 + x^2
                                        ELSE Add(Mul(X1, X1), X1))                           \* x^2 + x
                      ELSE (IF slot = 1 THEN Add(Mul(Mul(X1, X2), X2), Mul(X1, X1))          \* x1 x2^2 + x1^2
                                        ELSE Add(Mul(Mul(X1, X1), X2), Mul(X2, X2)))         \* x1^2 x2 + x2^2
    [] cl = "lin"  -> IF n = 1
                      THEN (IF slot = 1 THEN Add(Mul(Two, X1), One) ELSE Add(Mul(QI(3), X1), Half))
                      ELSE (IF slot = 1 THEN Add(Add(Mul(Two, X1), Mul(QI(3), X2)), One)     \* 2 x1 + 3 x2 + 1
                                        ELSE Add(Sub(X1, Mul(Two, X2)), QI(4)))              \* x1 - 2 x2 + 4
    \* a constant (order-0 magic, plain Float / Int, ConstFloat64): the PARAMETER p_slot, a leaf that no
    \* variable occurs in (D(p, i) = 0) and whose value is coordinate `slot` of the evaluation point, so
    \* that constants walk through every branch region of the piecewise operations as well
    [] cl = "c"    -> X(10 + slot)
    [] cl = "ninf" -> NInf
    [] cl = "zero" -> Zero

SlotOf(rs) == IF "a" \in rs THEN 1 ELSE IF "b" \in rs THEN 2 ELSE 1

(* ---- evaluation points --------------------------------------------------- *)
R2(a, b) == <<a, b>>
Softplus == {"Log1pExp", "Sigmoid", "Logistic"}
\* every point has two coordinates: the first n are the variables, coordinate `slot` is the value of
\* the constant objects (parameters p_1, p_2)
PowOps == {"Pow"}
Points(op, n) ==
  << <<R2(1, 2), R2(5, 4)>>, <<R2(3, 2), R2(3, 4)>>, <<R2(-3, 4), R2(5, 4)>> >>      \* a < b, a > b, a < 0
  \o (IF Rich = 1 THEN << <<R2(5, 4), R2(1, 2)>> >> ELSE <<>>)
  \* Log1pExp: x <= -37, (-37, 18], (18, 33.3], > 33.3 for variable, nonlinear and constant contents;
  \* Sigmoid / Logistic: both signs
  \o (IF op \in Softplus THEN << <<R2(4, 1), R2(1, 1)>>, <<R2(5, 2), R2(2, 1)>>, <<R2(-8, 1), R2(4, 1)>>,
                                 <<R2(-40, 1), R2(20, 1)>>, <<R2(20, 1), R2(-40, 1)>>, <<R2(25, 1), R2(1, 1)>>,
                                 <<R2(40, 1), R2(1, 1)>>, <<R2(5, 2), R2(1, 1)>> >> ELSE <<>>)
  \* Pow: integer, negative and fractional exponents, base 0
  \o (IF op \in PowOps THEN << <<R2(3, 2), R2(2, 1)>>, <<R2(0, 1), R2(2, 1)>>, <<R2(2, 1), R2(-1, 1)>>,
                               <<R2(0, 1), R2(5, 4)>> >> ELSE <<>>)
\* integer points for the integer scalar types
IntPoints(op, n) ==
  << <<R2(2, 1), R2(1, 1)>>, <<R2(1, 1), R2(3, 1)>>, <<R2(-2, 1), R2(3, 1)>> >>
  \o (IF op \in Softplus THEN << <<R2(20, 1), R2(1, 1)>>, <<R2(25, 1), R2(3, 1)>>, <<R2(40, 1), R2(1, 1)>>,
                                 <<R2(-40, 1), R2(2, 1)>>, <<R2(-8, 1), R2(4, 1)>> >> ELSE <<>>)
  \o (IF op \in PowOps THEN << <<R2(2, 1), R2(3, 1)>>, <<R2(0, 1), R2(2, 1)>>, <<R2(3, 1), R2(0, 1)>> >> ELSE <<>>)

\* IEEE special values as evaluation points (floating point and magic scalar types).  A coordinate
\* <<k, 0>> is a token: 1 = +Inf, -1 = -Inf, 0 = NaN, 2 / -2 = the largest finite value of the type and its
\* negative, 3 = the smallest positive value of the type; <<0, -1>> = negative zero.  Where the terms of the
\* contract have no finite value at such a point the demanded relation is the property's own: every
\* slot of the aliased receiver equals (same IEEE class, same number) that of the fresh receiver.
SpecialVals == <<R2(-1, 0), R2(1, 0), R2(0, 0), R2(0, -1), R2(0, 1), R2(2, 0), R2(-2, 0), R2(3, 0)>>
SpecialPoints(op) ==
  IF op \in BinaryOps
  THEN [k \in 1..(Len(SpecialVals) * Len(SpecialVals)) |->
          <<SpecialVals[((k - 1) \div Len(SpecialVals)) + 1], SpecialVals[((k - 1) % Len(SpecialVals)) + 1]>>]
  ELSE [k \in 1..Len(SpecialVals) |-> <<SpecialVals[k], R2(1, 2)>>]

(* ---- what the contract demands ------------------------------------------- *)
SMeaning(op, par, ea, eb) ==
  IF op \in BinaryOps THEN Meaning2(op, ea, eb)
  ELSE IF op \in ParamNames THEN MeaningP(op, Rat(par[1], par[2]), ea)
  ELSE Meaning1(op, ea)

GradOf(e, n) == [i \in 1..n |-> D(e, i)]
HessOf(e, n) == [i \in 1..n |-> [j \in 1..n |-> D2(e, i, j)]]

\* objs: sequence of [k, o, cl, e]; ra, rb: object indices of the operands (rb = 0: none); rr: receiver
SExpect(op, par, n, objs, rr, ra, rb) ==
  LET ea   == objs[ra].e
      eb   == IF rb = 0 THEN Zero ELSE objs[rb].e
      ops  == IF rb = 0 THEN {ra} ELSE {ra, rb}
      ord  == IF objs[rr].k = "plain" THEN 0 ELSE MaxSeq([j \in 1..Len(objs) |-> IF j \in ops THEN objs[j].o ELSE 0])
      val  == SMeaning(op, par, ea, eb)
  IN [ord |-> ord, nn |-> IF ord >= 1 THEN n ELSE 0, val |-> val,
      grad |-> IF ord >= 1 THEN GradOf(val, n) ELSE <<>>,
      hess |-> IF ord >= 2 THEN HessOf(val, n) ELSE <<>>]

SCase(op, par, n, roles, f, ks) ==
  LET m    == NObj(f)
      objs == [j \in 1..m |-> [k |-> ks[j].k, o |-> ks[j].o, cl |-> ks[j].cl,
                               e |-> Content(ks[j].cl, SlotOf(RoleSet(roles, f, j)), n)]]
      rr   == ObjOf(roles, f, "r")
      ra   == ObjOf(roles, f, "a")
      rb   == ObjOf(roles, f, "b")
      rt   == ObjOf(roles, f, "t")
  IN [fam |-> "scalar", op |-> op, par |-> par, n |-> n, objs |-> objs,
      roles |-> [r |-> rr, a |-> ra, b |-> rb, t |-> rt], pat |-> PatternName(roles, f),
      cls |-> IF TempShared(roles, f) THEN "info" ELSE "req",
      pts |-> Points(op, n), ipts |-> IntPoints(op, n), spts |-> SpecialPoints(op), exp |-> SExpect(op, par, n, objs, rr, ra, rb)]

(* ---- groups: (operation, parameter, n, pattern) --------------------------- *)
ScalarOps == UnaryOps \cup BinaryOps
SGroup(op, par, n, f) == [fam |-> "scalar", op |-> op, par |-> par, n |-> n, f |-> f]
NoPar == <<0, 1>>
ScalarGroups ==
     {SGroup(op, NoPar, n, f) : op \in ScalarOps, n \in NSet, f \in UNION {Patterns(m) : m \in 2..4}}
\cup {SGroup(p[1], <<p[2], p[3]>>, n, f) : p \in ParamList, n \in NSet, f \in Patterns(2)}
SGroupOK(g) == Len(g.f) = Len(RolesOf(g.op))
               /\ (Rich = 0 => (g.n = 2 \/ g.op \in {"Mul", "Div", "Pow", "LogAdd", "Exp", "Sigmoid"}))

\* all kind assignments of a group
KindAssignments(g) ==
  LET roles == RolesOf(g.op)
      m     == NObj(g.f)
  IN {ks \in [1..m -> RealKinds \cup ConstKinds \cup {TmpKind, NInfKind, Kind("const", 0, "c"),
                                                    Kind("plain", 0, "ninf"), Kind("magic0", 0, "ninf")}] :
        /\ \A j \in 1..m : ks[j] \in KindsFor(RoleSet(roles, g.f, j), g.op)
        /\ OrdersOK(ks, {j \in 1..m : RoleSet(roles, g.f, j) \cap {"a", "b"} # {}})
        \* patterns with a shared temporary are information only: one representative kind family
        /\ (TempShared(roles, g.f) => \A j \in 1..m : ks[j].k \in {"real", "tmp"} /\ ks[j].o # 1)}

(***************************************************************************)
(* REDUCTIONS (information only): scalar operations whose operand is a     *)
(* vector or matrix; the receiver is ELEMENT ri of that operand (ri = 0: a *)
(* fresh receiver, the baseline).  The property statement speaks of scalar *)
(* operands; whether an element of a container operand counts as "sharing  *)
(* storage with an operand" is left open, so these cases are executed and  *)
(* reported, never judged (docs/C08.md).                                   *)
(***************************************************************************)
ReduceOps == {"Vmean", "Vnorm", "VdotV", "SmoothMax", "LogSmoothMax", "Mtrace", "Mnorm"}
ElemClasses == << <<"nl", 1>>, <<"nl", 2>>, <<"var", 1>>, <<"lin", 2>> >>
Elems(len, n) == [k \in 1..len |-> Content(ElemClasses[k][1], ElemClasses[k][2], n)]
Elems2(len, n) == [k \in 1..len |-> Content(ElemClasses[len + 1 - k][1], 3 - ElemClasses[len + 1 - k][2], n)]
RMeaning(op, x, y) ==
  CASE op \in {"Vmean", "Vnorm"} -> MeaningV(op, x, <<>>, Rat(1, 1))
    [] op = "VdotV" -> MeaningV(op, x, y, Rat(1, 1))
    [] op \in {"SmoothMax", "LogSmoothMax"} -> MeaningV(op, x, <<>>, Rat(2, 1))
    [] op \in {"Mtrace", "Mnorm"} -> MeaningM(op, << <<x[1], x[2]>>, <<x[3], x[4]>> >>)
RGroup(op, n, o, ri) == [fam |-> "reduce", op |-> op, n |-> n, o |-> o, ri |-> ri]
ReduceGroups ==
  {RGroup(op, n, o, ri) : op \in ReduceOps, n \in NSet \cap {2}, o \in {1, 2}, ri \in 0..4}
RLen(op) == IF op \in {"Mtrace", "Mnorm"} THEN 4 ELSE 3
RCase(g) ==
  LET len == RLen(g.op)
      x   == Elems(len, g.n)
      y   == IF g.op = "VdotV" THEN Elems2(len, g.n) ELSE <<>>
      val == RMeaning(g.op, x, y)
  IN [fam |-> "reduce", op |-> g.op, n |-> g.n, o |-> g.o, x |-> x, y |-> y, ri |-> g.ri,
      cls |-> IF g.ri = 0 THEN "req" ELSE "info", pts |-> Points(g.op, g.n),
      exp |-> [ord |-> g.o, nn |-> g.n, val |-> val, grad |-> GradOf(val, g.n),
               hess |-> IF g.o >= 2 THEN HessOf(val, g.n) ELSE <<>>]]

(***************************************************************************)
(*                            CONTAINER FAMILY                             *)
(***************************************************************************)
(* The view algebra (Parent, View, Idx, Read, WriteBack), the contract     *)
(* CResult and the modelled known deviations (SeqEval, MdotVSeq, VdotMSeq,  *)
(* OuterSeq) live in AliasingViews.tla, shared with AliasingTrace.tla.      *)
(***************************************************************************)
\* expected class: "correct" or "reject-or-correct" (a panic is fine, a silent wrong result is not)
CClass(op, sparseRecv) ==
  IF op \in {"MdotV", "VdotM"} \/ (op = "MdotM" /\ sparseRecv) THEN "reject-or-correct" ELSE "correct"

CCase(op, grpname, P, views, ri, ai, bi, s) ==
  LET r   == views[ri]
      a   == views[ai]
      b   == IF bi = 0 THEN NoView ELSE views[bi]
      res == CResult(op, P, r, a, b, s)
      post == WriteBack(P, r, res)
      dev  == CASE op \in EwOps \cup EwSOps -> SeqEval(op, P, r, a, b, s, 1)
                [] op = "MdotV" -> MdotVSeq(P, r, a, b)
                [] op = "VdotM" -> VdotMSeq(P, r, a, b)
                [] op = "Outer" -> OuterSeq(P, r, a, b, 1)
                [] OTHER -> post
  IN [fam |-> "cont", op |-> op, grp |-> grpname, parents |-> P, views |-> views,
      roles |-> [r |-> ri, a |-> ai, b |-> bi], s |-> s, cls |-> CClass(op, FALSE), clss |-> CClass(op, TRUE),
      exp |-> res, post |-> [q \in 1..Len(post) |-> post[q].c],
      dev |-> IF dev = post THEN <<>> ELSE [q \in 1..Len(dev) |-> dev[q].c],
      ok |-> AllFin(res)]

(* ---- contents of parents -------------------------------------------------- *)
\* value menus: every value non-zero and distinct enough to expose a misplaced read; small
\* enough for int8 after a product of two 3x3 matrices; `z` variants hold zeros (sparse paths)
MVals(name) ==
  CASE name = "A"  -> <<1, 2, -1, -2, 3, 1, 2, -3, -2>>
    [] name = "B"  -> <<2, -1, 1, 1, 1, -2, -1, 2, 1>>
    [] name = "Az" -> <<1, 0, -1, 0, 3, 0, 2, 0, -2>>
    [] name = "Bz" -> <<0, -1, 1, 1, 0, 0, -1, 2, 0>>
    [] name = "A2" -> <<-1, 3, 2, 1, -2, -3, 3, 1, -1>>
    [] name = "B2" -> <<1, 2, -2, -1, 3, 1, 2, -1, -3>>
    [] name = "A4" -> <<1, 2, -1, 3, -2, 3, 1, -1, 2, -3, -2, 1, 3, 1, -3, 2>>
    [] name = "B4" -> <<2, -1, 1, -2, 1, 1, -2, 3, -1, 2, 1, -3, -3, 2, -1, 1>>
    [] name = "N"  -> <<2, 4, -2, -4, 2, 4, 4, -2, -4>>      \* numerators: multiples of every entry of "Dn"
    [] name = "Dn" -> <<1, 2, -1, -2, 1, 2, 2, -1, -2>>
\* derivative weights: element k of parent q carries d = v * W(q, k)
W(q, k) == IF q = 1 THEN k ELSE 3 - 2 * k
\* rot rotates the menu (another assignment of the same values to the cells)
MkParentR(rows, cols, name, q, rot) ==
  LET n == IF cols < 0 THEN rows ELSE rows * cols
      L == Len(MVals(name))
      divv == name \in {"N", "Dn"}          \* quotients must be exact: equal weights, zero derivative of a/b
      val(k) == MVals(name)[((k - 1 + rot) % L) + 1]
  IN Parent(rows, cols, SeqOf(n, LAMBDA k : IF divv THEN <<val(k), 0>> ELSE Dual(val(k), W(q, k))))

IsDiv(op) == op \in {"VdivV", "MdivM", "VdivS", "MdivS"}
ScalarOpd(op) == IF IsDiv(op) THEN <<2, 0>> ELSE <<-2, -6>>

(* ---- groups ---------------------------------------------------------------- *)
CGroup(name, op) == [fam |-> "cont", name |-> name, op |-> op, rot |-> 0]
Rots == IF Rich = 1 THEN {0, 2, 4, 7} ELSE {0}
VecEw  == {"VaddV", "VsubV", "VmulV", "VdivV"}
MatEw  == {"MaddM", "MsubM", "MmulM", "MdivM"}
VecEwS == {"VaddS", "VsubS", "VmulS", "VdivS"}
MatEwS == {"MaddS", "MsubS", "MmulS", "MdivS"}
DivOps == {"VdivV", "MdivM", "VdivS", "MdivS"}
ContGroups ==
     {CGroup("id", op) : op \in VecEw \cup MatEw \cup VecEwS \cup MatEwS \cup {"MdotM", "MdotV", "VdotM", "Outer"}}
\cup {CGroup("hdr", op) : op \in VecEw \cup MatEw \cup VecEwS \cup MatEwS \cup {"MdotM"}}
\* (no division through partially overlapping windows: the deviation model needs exact quotients)
\cup {CGroup("ovl", op) : op \in ((VecEw \cup MatEw \cup VecEwS \cup MatEwS) \ DivOps) \cup {"MdotM", "MdotV", "VdotM"}}
\cup {CGroup("tr", op)  : op \in ((MatEw \cup MatEwS) \ DivOps) \cup {"MdotM"}}
\cup {CGroup("row", op) : op \in {"Outer", "MdotV", "VdotM"}}

Whole(p, P) == IF P[p].cols < 0 THEN View(p, 0, 0, P[p].rows, 0, -1, 1)
               ELSE View(p, 0, 0, P[p].rows, 0, P[p].cols, 1)
VSl(p, i0, i1) == View(p, 0, i0, i1, 0, -1, 0)
MSl(p, r0, r1, c0, c1) == View(p, 0, r0, r1, c0, c1, 0)
MSlT(p, r0, r1, c0, c1) == View(p, 1, r0, r1, c0, c1, 0)
RowV(p, i) == View(p, 2, i, i + 1, 0, -1, 0)

NamesFor(op) == IF IsDiv(op) THEN <<"N", "Dn">> ELSE <<"A", "B">>
\* the content menus of the view groups: a second pair in the rich enumeration
Menus(op) == IF IsDiv(op) THEN {<<"N", "Dn">>}
             ELSE {<<"A", "B">>} \cup (IF Rich = 1 THEN {<<"A2", "B2">>, <<"B", "A2">>} ELSE {})
ZNamesFor(op) == IF IsDiv(op) THEN <<"N", "Dn">> ELSE <<"Az", "Bz">>

\* P applied to every case of group g
ForCont(g, Put(_)) ==
  LET op == g.op
      S  == ScalarOpd(op)
      isV == op \in VecEw \cup VecEwS
      isS == op \in VecEwS \cup MatEwS
      C(P, views, ri, ai, bi) == Put(CCase(op, g.name, P, views, ri, ai, bi, IF isS THEN S ELSE Z))
      MkParent(rows, cols, name, q) == MkParentR(rows, cols, name, q, g.rot)
  IN
  CASE g.name = "id" /\ (op \in VecEw \cup MatEw) ->
         \* r = a, r = b, r = a = b on the very same object (two parents: the other operand is separate)
         \E zs \in {0, 1} : \E sh \in (IF isV THEN {<<1, -1>>, <<3, -1>>} ELSE {<<2, 2>>, <<2, 3>>, <<3, 3>>}) :
           LET nm == IF zs = 1 THEN ZNamesFor(op) ELSE NamesFor(op)
               P  == <<MkParent(sh[1], sh[2], nm[1], 1), MkParent(sh[1], sh[2], nm[2], 2)>>
               P2 == <<MkParent(sh[1], sh[2], nm[2], 1), MkParent(sh[1], sh[2], nm[1], 2)>>
               vw == <<Whole(1, P), Whole(2, P)>>
           IN \/ C(P, vw, 1, 1, 2)            \* r = a
              \/ C(P2, vw, 1, 2, 1)           \* r = b
              \/ (~IsDiv(op) \/ zs = 0) /\ C(IF IsDiv(op) THEN P2 ELSE P, vw, 1, 1, 1)   \* r = a = b
              \/ C(P, <<Whole(1, P), Whole(2, P), Whole(2, P)>>, 1, 2, 2)   \* baseline: a = b, receiver distinct (prior content)
    [] g.name = "id" /\ isS ->
         \E zs \in {0, 1} : \E sh \in (IF isV THEN {<<1, -1>>, <<3, -1>>} ELSE {<<2, 2>>, <<2, 3>>}) :
           LET nm == IF zs = 1 THEN ZNamesFor(op) ELSE NamesFor(op)
               P  == <<MkParent(sh[1], sh[2], nm[1], 1)>>
           IN C(P, <<Whole(1, P)>>, 1, 1, 0)
    [] g.name = "id" /\ op = "MdotM" ->
         \E zs \in {0, 1} :
           LET nm == IF zs = 1 THEN <<"Az", "Bz">> ELSE <<"A", "B">> IN
           \/ \E k \in {1, 2, 3} :          \* square: left, right, both, baseline
                LET P == <<MkParent(k, k, nm[1], 1), MkParent(k, k, nm[2], 2)>>
                    vw == <<Whole(1, P), Whole(2, P)>>
                IN C(P, vw, 1, 1, 2) \/ C(P, vw, 1, 2, 1) \/ C(P, vw, 1, 1, 1) \/ C(P, vw, 1, 2, 2)
           \/ LET P == <<MkParent(2, 3, nm[1], 1), MkParent(3, 3, nm[2], 2)>>       \* (2x3) = (2x3)(3x3): left
              IN C(P, <<Whole(1, P), Whole(2, P)>>, 1, 1, 2)
           \/ LET P == <<MkParent(2, 3, nm[1], 1), MkParent(2, 2, nm[2], 2)>>       \* (2x3) = (2x2)(2x3): right
              IN C(P, <<Whole(1, P), Whole(2, P)>>, 1, 2, 1)
           \/ LET P == <<MkParent(3, 2, nm[1], 1), MkParent(2, 2, nm[2], 2)>>       \* (3x2) = (3x2)(2x2): left
              IN C(P, <<Whole(1, P), Whole(2, P)>>, 1, 1, 2)
    [] g.name = "id" /\ op = "MdotV" ->     \* r.MdotV(A, r): must be rejected or right
         \E k \in {1, 2, 3} : \E zs \in {0, 1} :
           LET nm == IF zs = 1 THEN <<"Az", "Bz">> ELSE <<"A", "B">>
               P == <<MkParent(k, -1, nm[2], 1), MkParent(k, k, nm[1], 2)>>
           IN C(P, <<Whole(1, P), Whole(2, P)>>, 1, 2, 1)
    [] g.name = "id" /\ op = "VdotM" ->     \* r.VdotM(r, B)
         \E k \in {1, 2, 3} : \E zs \in {0, 1} :
           LET nm == IF zs = 1 THEN <<"Az", "Bz">> ELSE <<"A", "B">>
               P == <<MkParent(k, -1, nm[2], 1), MkParent(k, k, nm[1], 2)>>
           IN C(P, <<Whole(1, P), Whole(2, P)>>, 1, 1, 2)
    [] g.name = "id" /\ op = "Outer" ->     \* baseline: nothing shared (prior content of the receiver)
         LET P == <<MkParent(2, 3, "A", 1), MkParent(2, -1, "B", 2), MkParent(3, -1, "A", 1)>>
         IN C(P, <<Whole(1, P), Whole(2, P), Whole(3, P)>>, 1, 2, 3)
    [] g.name = "hdr" /\ (op \in VecEw \cup MatEw \cup VecEwS \cup MatEwS) ->
         \* distinct headers onto the same window of one parent
         \E sh \in (IF isV THEN {<<3, -1>>} ELSE {<<2, 3>>}) : \E nm \in Menus(op) :
           LET P  == <<MkParent(sh[1], sh[2], nm[1], 1), MkParent(sh[1], sh[2], nm[2], 2)>>
               P2 == <<MkParent(sh[1], sh[2], nm[2], 1), MkParent(sh[1], sh[2], nm[1], 2)>>
               full(p) == IF isV THEN VSl(p, 0, sh[1]) ELSE MSl(p, 0, sh[1], 0, sh[2])
               vw == <<full(1), full(1), full(2), full(1)>>
           IN IF isS THEN C(P, vw, 1, 2, 0)
              ELSE \/ C(P, vw, 1, 2, 3)           \* r ~ a
                   \/ C(P2, vw, 1, 3, 2)          \* r ~ b
                   \/ C(IF IsDiv(op) THEN P2 ELSE P, vw, 1, 2, 4)   \* r ~ a ~ b, three headers
    [] g.name = "hdr" /\ op = "MdotM" ->
         \E nm \in Menus(op) :
         LET P == <<MkParent(2, 2, nm[1], 1), MkParent(2, 2, nm[2], 2)>>
             vw == <<MSl(1, 0, 2, 0, 2), MSl(1, 0, 2, 0, 2), Whole(2, P), MSl(1, 0, 2, 0, 2)>>
         IN C(P, vw, 1, 2, 3) \/ C(P, vw, 1, 3, 2) \/ C(P, vw, 1, 2, 4)
    [] g.name = "ovl" /\ (op \in VecEw \cup VecEwS) ->
         \* overlapping slices of one vector parent of length 4 (windows of length 2 and 3)
         \E nm \in Menus(op) :
         LET P  == <<MkParent(4, -1, nm[1], 1), MkParent(4, -1, nm[2], 2)>>
             P2 == <<MkParent(4, -1, nm[2], 1), MkParent(4, -1, nm[1], 2)>>
         IN \E len \in {2, 3} : \E i \in 0..(4 - len) : \E j \in 0..(4 - len) : i # j /\
              LET vw == <<VSl(1, i, i + len), VSl(1, j, j + len), VSl(2, 0, len)>>
              IN IF isS THEN C(P, vw, 1, 2, 0)
                 ELSE \/ C(P, vw, 1, 2, 3)           \* a overlaps r
                      \/ C(P2, vw, 1, 3, 2)          \* b overlaps r
                      \/ (~IsDiv(op)) /\ C(P, vw, 1, 2, 2)   \* both
    [] g.name = "ovl" /\ (op \in MatEw \cup MatEwS) ->
         \* overlapping 2x2 windows of one 3x3 parent (rich: also 3x3 windows of a 4x4 parent)
         \E nm \in Menus(op) \cup (IF Rich = 1 THEN {<<"A4", "B4">>} ELSE {}) :
         LET K  == IF nm[1] = "A4" THEN 4 ELSE 3
             P  == <<MkParent(K, K, nm[1], 1), MkParent(K, K, nm[2], 2)>>
             P2 == <<MkParent(K, K, nm[2], 1), MkParent(K, K, nm[1], 2)>>
             Wn(p, o) == MSl(p, o[1], o[1] + K - 1, o[2], o[2] + K - 1)
             Off == {<<0, 0>>, <<0, 1>>, <<1, 0>>, <<1, 1>>}
         IN \E o1 \in Off : \E o2 \in Off : o1 # o2 /\
              LET vw == <<Wn(1, o1), Wn(1, o2), Wn(2, <<0, 0>>)>>
              IN IF isS THEN C(P, vw, 1, 2, 0)
                 ELSE \/ C(P, vw, 1, 2, 3)
                      \/ C(P2, vw, 1, 3, 2)
                      \/ (~IsDiv(op)) /\ C(P, vw, 1, 2, 2)
    [] g.name = "ovl" /\ op = "MdotM" ->
         \E nm \in Menus(op) \cup (IF Rich = 1 THEN {<<"A4", "B4">>} ELSE {}) :
         LET K == IF nm[1] = "A4" THEN 4 ELSE 3
             P == <<MkParent(K, K, nm[1], 1), MkParent(K, K, nm[2], 2)>>
             Wn(p, o) == MSl(p, o[1], o[1] + K - 1, o[2], o[2] + K - 1)
             Off == {<<0, 0>>, <<0, 1>>, <<1, 0>>, <<1, 1>>}
         IN \E o1 \in Off : \E o2 \in Off : o1 # o2 /\
              LET vw == <<Wn(1, o1), Wn(1, o2), Wn(2, <<0, 0>>)>>
              IN C(P, vw, 1, 2, 3) \/ C(P, vw, 1, 3, 2) \/ C(P, vw, 1, 2, 2)
    [] g.name = "ovl" /\ op = "MdotV" ->    \* r and b are overlapping slices of one vector
         LET P == <<MkParent(4, -1, "B", 1), MkParent(2, 2, "A", 2)>> IN
         \E i \in 0..2 : \E j \in 0..2 : i # j /\
            C(P, <<VSl(1, i, i + 2), Whole(2, P), VSl(1, j, j + 2)>>, 1, 2, 3)
    [] g.name = "ovl" /\ op = "VdotM" ->
         LET P == <<MkParent(4, -1, "B", 1), MkParent(2, 2, "A", 2)>> IN
         \E i \in 0..2 : \E j \in 0..2 : i # j /\
            C(P, <<VSl(1, i, i + 2), VSl(1, j, j + 2), Whole(2, P)>>, 1, 2, 3)
    [] g.name = "tr" /\ (op \in MatEw \cup MatEwS) ->
         \* the receiver is the transpose of an operand (same storage), whole 2x2 / 3x3 and windows
         \E nm \in Menus(op) :
         \E k \in {2, 3} :
           LET P  == <<MkParent(k, k, nm[1], 1), MkParent(k, k, nm[2], 2)>>
               P2 == <<MkParent(k, k, nm[2], 1), MkParent(k, k, nm[1], 2)>>
               vw == <<MSlT(1, 0, k, 0, k), Whole(1, P), Whole(2, P), MSl(1, 0, k, 0, k)>>
           IN IF isS THEN C(P, vw, 1, 2, 0) \/ C(P, vw, 2, 1, 0)
              ELSE \/ C(P, vw, 1, 2, 3)          \* P.T().Op(P, Q)
                   \/ C(P2, vw, 1, 3, 2)         \* P.T().Op(Q, P)
                   \/ C(P, vw, 2, 1, 3)          \* P.Op(P.T(), Q)
                   \/ (~IsDiv(op)) /\ C(P, vw, 1, 2, 2)     \* P.T().Op(P, P)
                   \/ (~IsDiv(op)) /\ C(P, vw, 2, 1, 4)     \* P.Op(P.T(), P')
    [] g.name = "tr" /\ op = "MdotM" ->
         \E k \in {2, 3} : \E nm \in Menus(op) :
           LET P  == <<MkParent(k, k, nm[1], 1), MkParent(k, k, nm[2], 2)>>
               vw == <<MSlT(1, 0, k, 0, k), Whole(1, P), Whole(2, P)>>
           IN \/ C(P, vw, 1, 2, 3) \/ C(P, vw, 1, 3, 2) \/ C(P, vw, 1, 2, 2)
              \/ C(P, vw, 2, 1, 3) \/ C(P, vw, 2, 3, 1) \/ C(P, vw, 2, 1, 1) \/ C(P, vw, 2, 1, 2) \/ C(P, vw, 2, 2, 1)
    [] g.name = "row" /\ op = "Outer" ->    \* an operand is a row of the receiver
         LET P == <<MkParent(3, 3, "A", 1), MkParent(3, -1, "B", 2)>> IN
         \E i \in 0..2 :
            \/ C(P, <<Whole(1, P), RowV(1, i), Whole(2, P)>>, 1, 2, 3)
            \/ C(P, <<Whole(1, P), Whole(2, P), RowV(1, i)>>, 1, 3, 2)
            \/ C(P, <<Whole(1, P), RowV(1, i)>>, 1, 2, 2)
    [] g.name = "row" /\ op = "MdotV" ->    \* the receiver is a row of the matrix operand
         LET P == <<MkParent(3, 3, "A", 1), MkParent(3, -1, "B", 2)>> IN
         \E i \in 0..2 : C(P, <<RowV(1, i), Whole(1, P), Whole(2, P)>>, 1, 2, 3)
    [] g.name = "row" /\ op = "VdotM" ->
         LET P == <<MkParent(3, 3, "A", 1), MkParent(3, -1, "B", 2)>> IN
         \E i \in 0..2 : C(P, <<RowV(1, i), Whole(2, P), Whole(1, P)>>, 1, 2, 3)

(***************************************************************************)
(* SPECIAL OPERAND VALUES under aliasing (fam "xcont"): +Inf, -Inf, NaN and *)
(* -0 entries meeting zero (for sparse storage: ABSENT) and finite entries  *)
(* of the other operand, for the element-wise operations with the receiver  *)
(* being the first operand, the second operand or both (same object).       *)
(* Elements are the extended triples <<v, d, f>> of Containers.tla (IEEE    *)
(* class algebra, XResult); the expectation is XResult on the PRE-state.    *)
(* Floating point and magic element types only.                            *)
(***************************************************************************)
XE == {XFin(0), XFin(2), XInf, XNInf, XNaN, XNZero}
XVecsA == {<<XFin(0), XFin(2), XFin(0)>>, <<XFin(2), XFin(0), XNaN>>, <<XFin(0), XFin(0), XFin(0)>>, <<XInf, XFin(0), XNZero>>}
XVecsB == {<<XInf, XNaN, XNInf>>, <<XFin(0), XInf, XFin(2)>>, <<XNaN, XFin(0), XFin(0)>>, <<XFin(2), XNZero, XInf>>}
XPairs == {<<<<x>>, <<y>>>> : x \in XE, y \in XE} \cup (XVecsA \X XVecsB)
XSingles == {<<x>> : x \in XE} \cup XVecsA \cup XVecsB
XPrior(n) == SeqOf(n, LAMBDA k : XFin(IF k % 2 = 1 THEN 2 ELSE -1))
XOps == {"VaddV", "VsubV", "VmulV", "VdivV", "MaddM", "MsubM", "MmulM", "MdivM"}
XSOps == {"VaddS", "VsubS", "VmulS", "VdivS", "MaddS", "MsubS", "MmulS", "MdivS"}
XGroup(op) == [fam |-> "xcont", op |-> op]
XCase(op, objs, rr, ra, rb, sc) ==
  LET n    == Len(objs[ra])
      isM  == op \in MatEw \cup MatEwS
      res  == XResult(op, objs[ra], IF rb = 0 THEN <<>> ELSE objs[rb], sc, <<n, -1, 0>>)
  IN [fam |-> "xcont", op |-> op, rows |-> IF isM THEN 1 ELSE n, cols |-> IF isM THEN n ELSE -1,
      objs |-> objs, roles |-> [r |-> rr, a |-> ra, b |-> rb], s |-> sc, exp |-> res]
ForSpecial(g, Put(_)) ==
  IF g.op \in XOps
  THEN \/ \E pr \in XPairs :
            \/ Put(XCase(g.op, <<pr[1], pr[2]>>, 1, 1, 2, XFin(0)))                      \* r = a
            \/ Put(XCase(g.op, <<pr[2], pr[1]>>, 1, 2, 1, XFin(0)))                      \* r = b
            \/ Put(XCase(g.op, <<pr[1], pr[2], XPrior(Len(pr[1]))>>, 3, 1, 2, XFin(0)))  \* baseline
       \/ \E x \in XSingles : Put(XCase(g.op, <<x>>, 1, 1, 1, XFin(0)))                  \* r = a = b
  ELSE \E x \in XSingles : \E sc \in XE :
            \/ Put(XCase(g.op, <<x>>, 1, 1, 0, sc))                                      \* r = a
            \/ Put(XCase(g.op, <<x, XPrior(Len(x))>>, 2, 1, 0, sc))                      \* baseline

(***************************************************************************)
(*                          the enumeration machine                        *)
(***************************************************************************)
NoGroup == [fam |-> "-"]
NoCase  == [fam |-> "-"]

Init == ph = "start" /\ grp = NoGroup /\ c = NoCase

PickGroup ==
  /\ ph = "start"
  /\ \/ Part = "scalar" /\ grp' \in {g \in ScalarGroups : SGroupOK(g)} \cup {g \in ReduceGroups : g.ri <= RLen(g.op)}
     \/ Part = "cont"   /\ grp' \in {[g EXCEPT !.rot = k] : g \in ContGroups, k \in Rots} \cup {XGroup(op) : op \in XOps \cup XSOps}
  /\ ph' = "group" /\ UNCHANGED c

Put(k) == /\ c' = k
          /\ (Emit => PrintT(ToJson(k)))

EmitScalar ==
  /\ ph = "group" /\ grp.fam = "scalar"
  /\ \E ks \in KindAssignments(grp) : Put(SCase(grp.op, grp.par, grp.n, RolesOf(grp.op), grp.f, ks))
  /\ ph' = "case" /\ UNCHANGED grp

EmitReduce ==
  /\ ph = "group" /\ grp.fam = "reduce"
  /\ Put(RCase(grp))
  /\ ph' = "case" /\ UNCHANGED grp

EmitSpecial ==
  /\ ph = "group" /\ grp.fam = "xcont"
  /\ ForSpecial(grp, Put)
  /\ ph' = "case" /\ UNCHANGED grp

EmitCont ==
  /\ ph = "group" /\ grp.fam = "cont"
  /\ ForCont(grp, Put)
  /\ ph' = "case" /\ UNCHANGED grp

Next == PickGroup \/ EmitScalar \/ EmitReduce \/ EmitCont \/ EmitSpecial
Spec == Init /\ [][Next]_vars

(***************************************************************************)
(* Model invariants.                                                       *)
(* AliasBlind: the expectation of a scalar case equals the expectation of  *)
(* the same operation on the same role contents with every role played by  *)
(* its own object (the "fresh receiver, cloned operands" execution).       *)
(***************************************************************************)
IsScalarCase == ph = "case" /\ c.fam = "scalar"
IsContCase   == ph = "case" /\ c.fam = "cont"

AliasBlind ==
  IsScalarCase =>
    LET ea == c.objs[c.roles.a].e
        eb == IF c.roles.b = 0 THEN Zero ELSE c.objs[c.roles.b].e
    IN c.exp.val = SMeaning(c.op, c.par, ea, eb)

\* exact-zero slots: a variable the value does not depend on has a literal zero derivative
ZeroSlots ==
  IsScalarCase =>
    \A i \in 1..Len(c.exp.grad) : ~Depends(c.exp.val, i) => IsZero(c.exp.grad[i])

\* the receiver is always a writable object, a written temporary too
WritableOK ==
  IsScalarCase => /\ c.objs[c.roles.r].k # "const"
                  /\ (c.roles.t # 0 => c.objs[c.roles.t].k # "const")

\* container cases: values fit every element type; cells outside the receiver's view are unchanged
SmallVals ==
  IsContCase => \A k \in 1..Len(c.exp) : c.exp[k][3] = 0 => c.exp[k][1] \in -120..120
Frame ==
  IsContCase =>
    \A q \in 1..Len(c.parents) : \A x \in 1..Len(c.parents[q].c) :
       (<<q, x>> \notin CellsOf(c.parents, c.views[c.roles.r])) => c.post[q][x] = c.parents[q].c[x]
\* the deviation model differs from the contract only where the receiver's cells are read through an operand
\* (element-wise operations: through ANOTHER window)
DevOnlyWhenOverlap ==
  IsContCase =>
    (c.dev # <<>> =>
       \E role \in {c.roles.a, c.roles.b} :
          role # 0 /\ (c.op \in EwOps \cup EwSOps => c.views[role] # c.views[c.roles.r])
          /\ CellsOf(c.parents, c.views[role]) \cap CellsOf(c.parents, c.views[c.roles.r]) # {})
=============================================================================
