------------------------ MODULE OptimizerSkeleton_MC ------------------------
EXTENDS OptimizerSkeleton

(***************************************************************************)
(* Model checking of the contract itself: small identity universes, every  *)
(* environment choice (OptimizerSkeleton.cfg).  Begin is enabled again     *)
(* after a return, and an error return is always possible, so the machine  *)
(* is deadlock free: a run can always end.                                 *)
(***************************************************************************)
CONSTANTS Points, Vals, Grads, Caps, MaxEvents
Maxits == Caps \cup {-1}      \* -1 = no iteration cap (cfg files cannot hold negative numbers)

VARIABLE steps            \* events of the current call (bounds the exploration)
mvars == <<svars, steps>>

(* the four interface shapes that occur: objective with value and derivative, derivative only, *)
(* finite sums without hook-visible derivative (SAGA), fixed-step routine without user objective *)
Shapes == {<<"gy", "eval", FALSE>>, <<"g", "eval", FALSE>>, <<"args", "eval", FALSE>>, <<"args", "hook", TRUE>>}
Cfgs == {[algo |-> "m", maxit |-> m, hasHook |-> h, hasCons |-> c, sc |-> s, hookKind |-> sh[1], iterBy |-> sh[2], fixed |-> sh[3]] :
           m \in Maxits, h \in BOOLEAN, c \in BOOLEAN, s \in BOOLEAN, sh \in Shapes}
Rets == [p : Points, err : BOOLEAN, stopOK : BOOLEAN, consOK : BOOLEAN, nearMin : BOOLEAN, startOK : BOOLEAN]

MInit == SkInit /\ steps = 0
MNext ==
  \/ \E c \in Cfgs : Begin(c) /\ steps' = 0
  \/ /\ steps < MaxEvents /\ steps' = steps + 1
     /\ \/ \E p \in Points, res \in BOOLEAN : Constraint(p, res)
        \/ \E p \in Points, y \in Vals, g \in Grads : Eval(p, y, g)
        \/ \E p \in Points, y \in Vals \cup {None}, g \in Grads \cup {None}, stop \in BOOLEAN, ok \in BOOLEAN : Hook(p, g, y, stop, ok)
  \/ \E r \in Rets : Return(r) /\ UNCHANGED steps
MSpec == MInit /\ [][MNext]_mvars

TypeOK == /\ st \in {"idle", "running", "returned"}
          /\ Len(evalOf) <= Cardinality(Points) /\ Len(consAt) <= Cardinality(Points)
          /\ nEvals >= Cardinality({p \in 1..Len(evalOf) : evalOf[p] # NoEval})
(* a return without error is justified, feasible and leaves the start alone *)
JustifiedReturn == (st = "returned" /\ ~ret.err) =>
                     /\ ret.startOK /\ (cfg.hasCons => ret.consOK)
                     /\ (hookStopped \/ CapPossiblyReached \/ ret.stopOK)
                     /\ ((~hookStopped /\ ~CapPossiblyReached /\ cfg.sc) => ret.nearMin)
(* with fewer iterations than the cap, no hook stop and a failed stopping condition there is no return without error *)
NoEarlyQuiet == (st = "returned" /\ ~ret.err /\ ~hookStopped /\ cfg.maxit >= 0 /\ Iterations < cfg.maxit) => ret.stopOK
(* a run can always be ended *)
CanAlwaysEnd == st = "running" => ENABLED (\E r \in Rets : Return(r))
(* (S): a hook-requested stop is honoured: the only event that may follow it is the return *)
HookStopHonoured == [][(hookStopped /\ st = "running") => (st' = "returned" /\ UNCHANGED <<nEvals, nHooks>>)]_mvars
(* (T): nothing is observed after the return until a new call begins *)
QuietAfterReturn == [][st = "returned" => (st' = "running" /\ nEvals' = 0 /\ nHooks' = 0)]_mvars
(* (H): hooks only ever see evaluated points when the routine has a user objective *)
HooksSeeEvaluated == [][(nHooks' = nHooks + 1 /\ cfg.hookKind # "args") => evalOf # <<>>]_mvars
=============================================================================
