---------------------------- MODULE OptimizerTrace ----------------------------
(***************************************************************************)
(* C07 - trace validation (code -> model).  The Go driver harness/cmd/optim*)
(* calls the REAL routines with recording closures around the user         *)
(* objective, hook and constraint callbacks and logs one ndjson event per  *)
(* callback invocation, plus begin / ret:                                  *)
(*   begin   algo maxit hashook hascons sc hookkind iterby fixed           *)
(*   cons    p b(=result)                                                  *)
(*   eval    p y g                                                         *)
(*   hook    p g y b(=stop answered) ok(=harness re-computation of args)   *)
(*   ret     p b(=error or panic) stopok consok nearmin startok            *)
(*   timeout (the routine did not return: no action explains it)           *)
(* p, y, g are identities assigned by bit-exact float64 content.  Every    *)
(* event is bound to the corresponding action of OptimizerSkeleton; there  *)
(* are no silent steps, so the explanation is a single chain.              *)
(*                                                                         *)
(* Many runs are concatenated (begin = reset).  An event that no action    *)
(* explains does not end the validation: the run is REJECTED (one JSON     *)
(* record per rejected run, with the clauses of the contract that failed), *)
(* the rest of that run is skipped (field skip = events up to the next     *)
(* begin, position independent so that traces can be cut at run boundaries)*)
(* and validation continues, so that one pass reports every run that is    *)
(* not a behaviour of the contract.  The trace is accepted iff all events  *)
(* are consumed (POSTCONDITION) and no rejection record was printed.       *)
(***************************************************************************)
EXTENDS OptimizerSkeleton, Json

Trace == ndJsonDeserialize("optim_trace.ndjson")

VARIABLES l,      \* next event
          rej     \* rejection record of the step just taken (run = 0: none)

tvars == <<svars, l, rej>>
Ev == Trace[l]
NoRej == [run |-> 0, at |-> 0, e |-> "", why |-> ""]

CfgOf(e) == [algo |-> e.algo, maxit |-> e.maxit, hasHook |-> e.hashook, hasCons |-> e.hascons, sc |-> e.sc,
             hookKind |-> e.hookkind, iterBy |-> e.iterby, fixed |-> e.fixed]
RetOf(e) == [p |-> e.p, err |-> e.b, stopOK |-> e.stopok, consOK |-> e.consok, nearMin |-> e.nearmin, startOK |-> e.startok]

Explained(e) ==
  CASE e.e = "begin" -> BeginG
    [] e.e = "cons"  -> ConstraintG
    [] e.e = "eval"  -> EvalG
    [] e.e = "hook"  -> HookG(e.p, e.g, e.y, e.ok)
    [] e.e = "ret"   -> ReturnG(RetOf(e))
    [] OTHER -> FALSE
Effect(e) ==
  CASE e.e = "begin" -> BeginE(CfgOf(e))
    [] e.e = "cons"  -> ConstraintE(e.p, e.b)
    [] e.e = "eval"  -> EvalE(e.p, e.y, e.g)
    [] e.e = "hook"  -> HookE(e.b)
    [] e.e = "ret"   -> ReturnE(RetOf(e))

(* which clause of the contract failed (for the signature of the report) *)
Why(e) ==
  CASE e.e = "timeout" -> "timeout"
    [] e.e = "begin" -> "begin_inside_run"
    [] e.e = "hook"  -> IF ~(st = "running") THEN "event_after_return"
                        ELSE IF hookStopped THEN "event_after_hook_stop"
                        ELSE IF ~cfg.hasHook THEN "hook_without_hook"
                        ELSE "hook_args"
    [] e.e \in {"eval", "cons"} -> IF ~(st = "running") THEN "event_after_return"
                                   ELSE IF hookStopped THEN "event_after_hook_stop" ELSE "cons_without_cons"
    [] e.e = "ret" -> LET c == ReturnClauses(RetOf(e)) IN
                        IF ~c.running THEN "return_twice"
                        ELSE IF ~c.start THEN "start_modified"
                        ELSE IF ~c.cons /\ ~c.justified THEN "infeasible_and_unjustified"
                        ELSE IF ~c.cons THEN
                          \* (known deviation of BFGS: the constraint callback is consulted for the start point only)
                          IF Cardinality({q \in 1..Len(consAt) : consAt[q] # 0}) <= 1
                          THEN "return_violates_constraint_only_start_checked" ELSE "return_violates_constraint"
                        ELSE IF cfg.fixed THEN "fixed_steps_not_near_optimum"
                        ELSE IF e.stopok THEN "stop_ok_but_far_from_minimiser"
                        ELSE "stop_condition_fails"
    [] OTHER -> "unknown_event"

TraceInit == SkInit /\ l = 1 /\ rej = NoRej /\ TLCSet(1, 0)

Consume ==
  /\ l <= Len(Trace)
  /\ Explained(Ev)
  /\ Effect(Ev)
  /\ l' = l + 1 /\ rej' = NoRej
Reject ==
  /\ l <= Len(Trace)
  /\ ~Explained(Ev)
  /\ rej' = [run |-> Ev.run, at |-> l, e |-> Ev.e, why |-> Why(Ev)]
  /\ l' = IF Ev.e = "begin" THEN l + 1 ELSE l + Ev.skip   \* skip the rest of the run
  /\ IF Ev.e = "begin" THEN BeginE(CfgOf(Ev))            \* (a begin inside a run: report, then start the new run)
     ELSE /\ st' = "idle" /\ cfg' = NoCfg /\ evalOf' = <<>> /\ consAt' = <<>> /\ nEvals' = 0 /\ nHooks' = 0
          /\ hookStopped' = FALSE /\ ret' = NoRet

TraceNext == Consume \/ Reject
TraceSpec == TraceInit /\ [][TraceNext]_tvars

(* one JSON line per rejected run (an invariant is evaluated once per distinct state) *)
EmitRejections == rej.run = 0 \/ PrintT(ToJson(rej))

HighWater == TLCSet(1, IF TLCGet(1) < l THEN l ELSE TLCGet(1))
TraceAccepted ==
  IF TLCGet(1) = Len(Trace) + 1 THEN TRUE
  ELSE Print(<<"TRACE_REJECTED_AT", TLCGet(1), "OF", Len(Trace)>>, FALSE)
=============================================================================
