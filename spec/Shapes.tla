------------------------------- MODULE Shapes -------------------------------
(***************************************************************************)
(* C20, part A: "shape mismatches, out-of-range indices, unsupported       *)
(* derivative orders and invalid option values are reported by an error or *)
(* panic at the call, never by silently returning a result of the wrong    *)
(* shape, reading out of the view's bounds or corrupting the receiver".    *)
(*                                                                         *)
(* For every public vector / matrix / scalar / algorithm entry point this  *)
(* module states the PRECONDITION on dimensions, indices, orders (written  *)
(* from the mathematical definition of the operation, the README tables    *)
(* and the doc comments - never from the code) and the required OUTCOME    *)
(* CLASS of a call:                                                        *)
(*     "ok"     the call is admissible: it must return, and the result     *)
(*              (or the receiver after the call) has shape sh;             *)
(*     "reject" the call is inadmissible: error OR panic at the call       *)
(*              (DESIGN 3.6: either is accepted);                          *)
(*     "any"    the sources do not decide (degenerate 0-sized input of an  *)
(*              algorithm, a restriction the code documents only in an     *)
(*              error text, an index that the operation does not use):     *)
(*              both are accepted, but IF the call returns normally the    *)
(*              result must have shape sh.                                 *)
(* TLC enumerates entry point x all dimension tuples in 0..DMax x in- and  *)
(* out-of-range index arguments (-1 .. n, resp. n+1 for slice bounds) x    *)
(* derivative orders 0..3 and prints every case with its class and shape.  *)
(* A case is the uniform record                                            *)
(*    [op, d (dimensions of receiver/operands), a (integer arguments),     *)
(*     p (permutation argument), exp (class), sh (result shape)]           *)
(* sh = <<>> scalar / none, <<n>> vector, <<n,m>> matrix, and for the      *)
(* derivative API <<N, Order>> of the scalar(s) after the call.            *)
(***************************************************************************)
EXTENDS Integers, Sequences, FiniteSets, TLC, Json

CONSTANTS DMax,      \* dimensions range over 0..DMax
          DMax6,     \* dimensions of the families with three matrix operands
          DIdx       \* dimensions of the families with four index arguments or a permutation argument

D      == 0..DMax
D6     == 0..DMax6
DI     == 0..DIdx
Orders == 0..3       \* requested derivative orders; 0,1,2 are supported (README)

(* Degenerate sizes: a call whose preconditions hold but which involves an  *)
(* EMPTY operand (some dimension is 0) is in the quantifier of the         *)
(* property, but the sources do not say whether empty containers are       *)
(* admissible operands; the property only demands "returns or fails        *)
(* loudly" there, so such a call is downgraded from "ok" to "any" (if it   *)
(* returns, the shape is still checked).  Size 1 is never downgraded.      *)
Empty(d) == \E k \in 1..Len(d) : d[k] = 0
(* val: for a read access that must return, the value it must read (<<>> = *)
(* not constrained).                                                       *)
CV(op, d, a, p, exp, sh, val) == [op |-> op, d |-> d, a |-> a, p |-> p,
                                  exp |-> IF exp = "ok" /\ Empty(d) THEN "any" ELSE exp, sh |-> sh, val |-> val]
C(op, d, a, p, exp, sh) == CV(op, d, a, p, exp, sh, <<>>)
Cls(pre)     == IF pre THEN "ok" ELSE "reject"
Idx(n)       == -1..n            \* -1, 0, .., n-1 in range (if any), n out of range
Bnd(n)       == -1..(n+1)        \* slice bounds: 0..n admissible
In(i, n)     == 0 <= i /\ i < n

(* Every family is a predicate "c is a case of the family": TLC enumerates *)
(* the bound variables of Init directly (nested ranges may depend on the   *)
(* dimensions, so only relevant index values are generated).               *)
VARIABLE c

(* ------------------------------------------------------------- vectors *)
VopV == {"VaddV", "VsubV", "VmulV", "VdivV"}     \* r.op(a, b): r[i] = a[i] op b[i]
VopS == {"VaddS", "VsubS", "VmulS", "VdivS"}     \* r.op(a, s)

VectorCases ==
  \/ \E op \in VopV, r \in D, a \in D, b \in D :
        c = C(op, <<r, a, b>>, <<>>, <<>>, Cls(r = a /\ a = b), <<r>>)
  \/ \E op \in VopS \cup {"VSet"}, r \in D, a \in D :
        c = C(op, <<r, a>>, <<>>, <<>>, Cls(r = a), <<r>>)
     \* scalar-valued: s.VdotV(a,b) = sum a[i] b[i];  a.Equals(b)
  \/ \E op \in {"VdotV", "VEquals"}, a \in D, b \in D :
        c = C(op, <<a, b>>, <<>>, <<>>, Cls(a = b), <<>>)
     \* r.MdotV(A, b): A is n x m, b has m entries, r has n entries
  \/ \E r \in D, n \in D, m \in D, b \in D :
        c = C("MdotV", <<r, n, m, b>>, <<>>, <<>>, Cls(r = n /\ b = m), <<r>>)
     \* r.VdotM(a, B): a has n entries, B is n x m, r has m entries
  \/ \E r \in D, a \in D, n \in D, m \in D :
        c = C("VdotM", <<r, a, n, m>>, <<>>, <<>>, Cls(a = n /\ r = m), <<r>>)
     \* element access
  \/ \E op \in {"VAt", "VConstAt"}, n \in D : \E i \in Idx(n) :
        c = C(op, <<n>>, <<i>>, <<>>, Cls(In(i, n)), <<>>)
  \/ \E n \in D : \E i \in Idx(n), j \in Idx(n) :
        c = C("VSwap", <<n>>, <<i, j>>, <<>>, Cls(In(i, n) /\ In(j, n)), <<n>>)
     \* v.Slice(i, j) = v[i], .., v[j-1]   requires 0 <= i <= j <= Dim
  \/ \E op \in {"VSlice", "VConstSlice"}, n \in D : \E i \in Bnd(n), j \in Bnd(n) :
        c = C(op, <<n>>, <<i, j>>, <<>>, Cls(0 <= i /\ i <= j /\ j <= n), <<j - i>>)
     \* v.AsMatrix(n, m): reinterpretation, requires n, m >= 0 and n*m = Dim
  \/ \E op \in {"VAsMatrix", "VAsConstMatrix"}, l \in 0..(2*DMax), n \in -2..DMax, m \in -2..DMax :
        c = C(op, <<l>>, <<n, m>>, <<>>, Cls(n >= 0 /\ m >= 0 /\ n*m = l), <<n, m>>)
     \* Append*: always admissible, result has n + k entries
  \/ \E op \in {"AppendScalar", "AppendVector"}, n \in D, k \in D :
        c = C(op, <<n, k>>, <<>>, <<>>, "ok", <<n + k>>)

(* Aliasing through a DIFFERENT vector object: MdotV / VdotM are documented *)
(* to need "different vectors" for result and argument ("result and        *)
(* argument must be different vectors").  The argument is the receiver     *)
(* itself (Self) or another vector object over the same elements           *)
(* (r.Slice(0, n), r.ConstSlice(0, n)).  Such a call must be rejected or   *)
(* compute the product of the operands as they were before the call        *)
(* ("any" + val) - never return something else.  Operand values as the     *)
(* driver fills them: r[i] = i + 1, A[i][j] = 10 + i n + j + 1 (0-based).  *)
RECURSIVE SumTo(_, _)
SumTo(f, k) == IF k = 0 THEN 0 ELSE f[k] + SumTo(f, k - 1)
AliasA(n, i, j) == 10 + (i - 1) * n + (j - 1) + 1                  \* 1-based i, j
MdotVAlias(n) == [i \in 1..n |-> SumTo([j \in 1..n |-> AliasA(n, i, j) * j], n)]
VdotMAlias(n) == [j \in 1..n |-> SumTo([i \in 1..n |-> i * AliasA(n, i, j)], n)]
AliasCases ==
  \E w \in {"Self", "Slice", "ConstSlice"}, n \in 1..DMax :
     \/ c = CV("MdotV.alias." \o w, <<n>>, <<>>, <<>>, "any", <<n>>, MdotVAlias(n))
     \/ c = CV("VdotM.alias." \o w, <<n>>, <<>>, <<>>, "any", <<n>>, VdotMAlias(n))

(* Permute(pi): pi must have one entry per element, each entry an index.   *)
(* The library applies pi as an interchange sequence, so a non-bijective   *)
(* pi is not excluded by the sources ("any").  Enumerated: all pi of       *)
(* length n-1, n, n+1 over -1..n.                                          *)
PiSeqs(n) == UNION { [1..l -> -1..n] : l \in {k \in {n-1, n, n+1} : k >= 0} }
PiValid(pi, n) == Len(pi) = n /\ \A k \in 1..Len(pi) : In(pi[k], n)
PiBij(pi, n)   == \A x \in 0..(n-1) : \E k \in 1..Len(pi) : pi[k] = x
PiCls(pi, n)   == IF ~PiValid(pi, n) THEN "reject" ELSE IF PiBij(pi, n) THEN "ok" ELSE "any"
Tup(pi)        == [k \in 1..Len(pi) |-> pi[k]]

PermuteCases ==
  \/ \E n \in DI : \E pi \in PiSeqs(n) :
        c = C("VPermute", <<n>>, <<>>, Tup(pi), PiCls(pi, n), <<n>>)
     \* rows of an n x m matrix: pi over 0..n-1; the code restricts the row and
     \* column permutations to square matrices (documented by its error text only)
  \/ \E n \in DI, m \in DI : \E pi \in PiSeqs(n) :
        c = C("PermuteRows", <<n, m>>, <<>>, Tup(pi),
              IF n = m THEN PiCls(pi, n) ELSE IF PiValid(pi, n) THEN "any" ELSE "reject", <<n, m>>)
  \/ \E n \in DI, m \in DI : \E pi \in PiSeqs(m) :
        c = C("PermuteColumns", <<n, m>>, <<>>, Tup(pi),
              IF n = m THEN PiCls(pi, m) ELSE IF PiValid(pi, m) THEN "any" ELSE "reject", <<n, m>>)
     \* P A P' is defined for square matrices only
  \/ \E n \in DI, m \in DI : \E pi \in PiSeqs(n) :
        c = C("SymmetricPermutation", <<n, m>>, <<>>, Tup(pi),
              IF n = m THEN PiCls(pi, n) ELSE "reject", <<n, m>>)

(* ------------------------------------------------------------ matrices *)
MopM == {"MaddM", "MsubM", "MmulM", "MdivM"}
MopS == {"MaddS", "MsubS", "MmulS", "MdivS"}

MatrixCases ==
  \/ \E op \in MopM, rn \in D6, rm \in D6, an \in D6, am \in D6, bn \in D6, bm \in D6 :
        c = C(op, <<rn, rm, an, am, bn, bm>>, <<>>, <<>>,
              Cls(rn = an /\ an = bn /\ rm = am /\ am = bm), <<rn, rm>>)
     \* r.MdotM(a, b): a is n x k, b is k x m, r is n x m
  \/ \E rn \in D6, rm \in D6, an \in D6, am \in D6, bn \in D6, bm \in D6 :
        c = C("MdotM", <<rn, rm, an, am, bn, bm>>, <<>>, <<>>,
              Cls(rn = an /\ rm = bm /\ am = bn), <<rn, rm>>)
  \/ \E op \in MopS \cup {"MSet"}, rn \in D, rm \in D, an \in D, am \in D :
        c = C(op, <<rn, rm, an, am>>, <<>>, <<>>, Cls(rn = an /\ rm = am), <<rn, rm>>)
  \/ \E rn \in D, rm \in D, an \in D, am \in D :
        c = C("MEquals", <<rn, rm, an, am>>, <<>>, <<>>, Cls(rn = an /\ rm = am), <<>>)
     \* r.Outer(a, b): r[i][j] = a[i] b[j]
  \/ \E rn \in D, rm \in D, a \in D, b \in D :
        c = C("Outer", <<rn, rm, a, b>>, <<>>, <<>>, Cls(rn = a /\ rm = b), <<rn, rm>>)
     \* trace and diagonal of a square matrix
  \/ \E n \in D, m \in D :
        c = C("Mtrace", <<n, m>>, <<>>, <<>>, IF n # m THEN "reject" ELSE IF n = 0 THEN "any" ELSE "ok", <<>>)
  \/ \E op \in {"Diag", "ConstDiag"}, n \in D, m \in D :
        c = C(op, <<n, m>>, <<>>, <<>>, Cls(n = m), <<n>>)
  \/ \E op \in {"Row", "ConstRow"}, n \in D, m \in D : \E i \in Idx(n) :
        \* a row of a matrix without columns has no element the index could miss
        c = C(op, <<n, m>>, <<i>>, <<>>, IF In(i, n) THEN "ok" ELSE IF m = 0 THEN "any" ELSE "reject", <<m>>)
  \/ \E op \in {"Col", "ConstCol"}, n \in D, m \in D : \E j \in Idx(m) :
        c = C(op, <<n, m>>, <<j>>, <<>>, IF In(j, m) THEN "ok" ELSE IF n = 0 THEN "any" ELSE "reject", <<n>>)
  \/ \E op \in {"MAt", "MConstAt"}, n \in D, m \in D : \E i \in Idx(n), j \in Idx(m) :
        c = C(op, <<n, m>>, <<i, j>>, <<>>, Cls(In(i, n) /\ In(j, m)), <<>>)
  \/ \E n \in DI, m \in DI : \E i1 \in Idx(n), j1 \in Idx(m), i2 \in Idx(n), j2 \in Idx(m) :
        c = C("MSwap", <<n, m>>, <<i1, j1, i2, j2>>, <<>>,
              Cls(In(i1, n) /\ In(j1, m) /\ In(i2, n) /\ In(j2, m)), <<n, m>>)
     \* row / column interchange (the code restricts it to square matrices)
  \/ \E n \in D, m \in D : \E i \in Idx(n), j \in Idx(n) :
        c = C("SwapRows", <<n, m>>, <<i, j>>, <<>>,
              IF ~(In(i, n) /\ In(j, n)) THEN (IF m = 0 THEN "any" ELSE "reject") ELSE IF n = m THEN "ok" ELSE "any", <<n, m>>)
  \/ \E n \in D, m \in D : \E i \in Idx(m), j \in Idx(m) :
        c = C("SwapColumns", <<n, m>>, <<i, j>>, <<>>,
              IF ~(In(i, m) /\ In(j, m)) THEN (IF n = 0 THEN "any" ELSE "reject") ELSE IF n = m THEN "ok" ELSE "any", <<n, m>>)
     \* A.Slice(r0, r1, c0, c1) = rows r0..r1-1, columns c0..c1-1
  \/ \E op \in {"MSlice", "MConstSlice"}, n \in DI, m \in DI :
       \E r0 \in Bnd(n), r1 \in Bnd(n), c0 \in Bnd(m), c1 \in Bnd(m) :
        c = C(op, <<n, m>>, <<r0, r1, c0, c1>>, <<>>,
              Cls(0 <= r0 /\ r0 <= r1 /\ r1 <= n /\ 0 <= c0 /\ c0 <= c1 /\ c1 <= m), <<r1 - r0, c1 - c0>>)
     \* transposition, identity, flattening: total operations
  \/ \E op \in {"T", "Tip"}, n \in D, m \in D :
        c = C(op, <<n, m>>, <<>>, <<>>, "ok", <<m, n>>)
  \/ \E n \in D, m \in D :
        c = C("SetIdentity", <<n, m>>, <<>>, <<>>, "ok", <<n, m>>)
  \/ \E op \in {"AsVector", "AsConstVector"}, n \in D, m \in D :
        c = C(op, <<n, m>>, <<>>, <<>>, "ok", <<n * m>>)
     \* r.Jacobian(f, x): f maps k variables to p values, the Jacobian is p x k.  The
     \* doc comment says the matrix is "reallocated if dimensions do not match", so a
     \* receiver of another shape may be rejected or replaced: the RESULT is p x k
  \/ \E rn \in D, rm \in D, k \in D, p \in D :
        c = C("Jacobian", <<rn, rm, k, p>>, <<>>, <<>>, IF rn = p /\ rm = k THEN "ok" ELSE "any", <<p, k>>)
     \* r.Hessian(f, x): the Hessian is k x k
  \/ \E rn \in D, rm \in D, k \in D :
        c = C("Hessian", <<rn, rm, k>>, <<>>, <<>>, IF rn = k /\ rm = k THEN "ok" ELSE "any", <<k, k>>)

(* ---------------------------------------- derivative-order API of Real *)
(* README: MagicScalars "compute first and second order derivatives";      *)
(* GetOrder: 0 = none, 1 = first, 2 = first and second.  Order 3 is        *)
(* unsupported.  SetVariable(i, n, order) makes the scalar the i-th of n   *)
(* variables.  sh = <<N, Order>> after the call.                           *)
RealCases ==
     \* Alloc(n, order) is the low-level allocator: an order above 2 is not promised
     \* to be rejected there ("any")
  \/ \E n \in D, o \in Orders :
        c = C("RAlloc", <<n>>, <<o>>, <<>>, IF o <= 2 THEN "ok" ELSE "any", <<n, o>>)
  \/ \E n \in D, o \in Orders : \E i \in Idx(n) :
        c = C("RSetVariable", <<n>>, <<i, o>>, <<>>,
              IF o > 2 THEN "reject"
              ELSE IF o = 0 THEN (IF In(i, n) THEN "ok" ELSE "any")      \* no derivative: i is not used
              ELSE Cls(In(i, n)), <<n, o>>)
     \* v.Variables(order) on a Real vector and the package function Variables(order, x...)
  \/ \E op \in {"RVariables", "RVariablesFunc"}, n \in D, o \in Orders :
        c = C(op, <<n>>, <<o>>, <<>>, IF o <= 2 THEN "ok" ELSE IF n = 0 THEN "any" ELSE "reject", <<n, o>>)
     \* x.GetDerivative(i) on a scalar holding derivatives of N variables up to order o
  \/ \E n \in D, o \in 0..2 : \E i \in Idx(n) :
        c = C("RGetDerivative", <<n>>, <<o, i>>, <<>>,
              IF In(i, n) THEN "ok" ELSE IF o >= 1 THEN "reject" ELSE "any", <<>>)
  \/ \E n \in D, o \in 0..2 : \E i \in Idx(n), j \in Idx(n) :
        c = C("RGetHessian", <<n>>, <<o, i, j>>, <<>>,
              IF In(i, n) /\ In(j, n) THEN "ok" ELSE IF o >= 2 THEN "reject" ELSE "any", <<>>)
     \* CopyGradient(g, x) / CopyHessian(H, x): g has N entries, H is N x N
  \/ \E g \in D, n \in D :
        c = C("CopyGradient", <<g, n>>, <<>>, <<>>, Cls(g = n), <<g>>)
  \/ \E hn \in D, hm \in D, n \in D :
        c = C("CopyHessian", <<hn, hm, n>>, <<>>, <<>>, Cls(hn = n /\ hm = n), <<hn, hm>>)

(* ---------------------------------------- shrinking re-allocation (history) *)
(* The index domain of the derivative accessors is the CURRENT number of   *)
(* variables N, whatever the scalar held before.  History: the scalar      *)
(* first holds first and second derivatives for n1 variables (all slots    *)
(* non-zero), then it is re-allocated for n2 < n1 variables with order o2  *)
(* in one of five ways:                                                    *)
(*   Alloc        x.Alloc(n2, o2)                                          *)
(*   SetVariable  x.SetVariable(0, n2, o2)                                 *)
(*   Variables    x is element 0 of a vector of n1 variables; the slice of *)
(*                its first n2 elements is passed to Variables(o2) again   *)
(*   Set          x.Set(b), b the variable 0 of n2 variables, order o2     *)
(*   Receiver     x.Mul(a, a), a = 3 the variable 0 of n2 variables, order *)
(*                o2 (x is the receiver of an operation on fewer variables)*)
(* Afterwards GetDerivative(i) / SetDerivative(i, v) / GetHessian(i, j) /  *)
(* SetHessian(i, j, v) with an index outside 0..n2-1 must be rejected      *)
(* (indices in n2..n1-1 would hit the old storage), and an admissible read *)
(* returns the FRESH value: 0 after Alloc; dx/dx_0 = 1, second derivatives *)
(* 0 after SetVariable / Variables / Set; d(a a)/da = 2a = 6 and           *)
(* d2(a a)/da2 = 2 for the receiver.  With o2 = 1 the Hessian accessors    *)
(* ask for a derivative order the scalar does not hold ("any").            *)
ShrinkWays == {"Alloc", "SetVariable", "Variables", "Set", "Receiver"}
FreshD(w, i)    == IF w = "Alloc" THEN 0 ELSE IF i # 0 THEN 0 ELSE IF w = "Receiver" THEN 6 ELSE 1
FreshH(w, i, j) == IF w = "Receiver" /\ i = 0 /\ j = 0 THEN 2 ELSE 0
ShrinkCases ==
  \/ \E w \in ShrinkWays, n1 \in 2..DMax : \E n2 \in 1..(n1-1), o2 \in 1..2, i \in Idx(n1) :
        \/ c = CV("RShrink." \o w \o ".GetDerivative", <<n1, n2>>, <<o2, i>>, <<>>, Cls(In(i, n2)), <<>>, <<FreshD(w, i)>>)
        \/ c = CV("RShrink." \o w \o ".SetDerivative", <<n1, n2>>, <<o2, i>>, <<>>, Cls(In(i, n2)), <<>>, <<>>)
  \/ \E w \in ShrinkWays, n1 \in 2..DMax : \E n2 \in 1..(n1-1), o2 \in 1..2, i \in Idx(n1), j \in Idx(n1) :
        \/ c = CV("RShrink." \o w \o ".GetHessian", <<n1, n2>>, <<o2, i, j>>, <<>>,
                   IF o2 < 2 THEN "any" ELSE Cls(In(i, n2) /\ In(j, n2)), <<>>,
                   IF o2 < 2 THEN <<>> ELSE <<FreshH(w, i, j)>>)
        \/ c = CV("RShrink." \o w \o ".SetHessian", <<n1, n2>>, <<o2, i, j>>, <<>>,
                   IF o2 < 2 THEN "any" ELSE Cls(In(i, n2) /\ In(j, n2)), <<>>, <<>>)

(* --------------------------------------------- algorithm entry points *)
(* SqCls(n,m): defined for square matrices with at least one row; the      *)
(* empty matrix is a degenerate size the sources do not decide.            *)
SqCls(n, m) == IF n # m THEN "reject" ELSE IF n = 0 THEN "any" ELSE "ok"
SquareAlgos == { <<"matrixInverse", 2>>, <<"cholesky", 2>>, <<"qrAlgorithm", 2>>, <<"qrAlgorithmSymmetric", 2>>,
                 <<"hessenbergReduction", 2>>, <<"householderTridiagonalization", 2>>,
                 <<"msqrt", 2>>, <<"msqrtInv", 2>>, <<"determinant", 0>>, <<"eigensystem", 1>>,
                 <<"eigensystemSymmetric", 1>> }
AlgoShape(k, n, m) == IF k = 2 THEN <<n, m>> ELSE IF k = 1 THEN <<n>> ELSE <<>>

AlgoCases ==
  \/ \E al \in SquareAlgos, n \in D, m \in D :
        c = C(al[1], <<n, m>>, <<>>, <<>>, SqCls(n, m), AlgoShape(al[2], n, m))
     \* A = U S V' exists for every shape; the routines document rows >= cols
  \/ \E op \in {"svd", "householderBidiagonalization"}, n \in D, m \in D :
        c = C(op, <<n, m>>, <<>>, <<>>, IF n >= m /\ m >= 1 THEN "ok" ELSE "any", <<n, m>>)
     \* A = Q R by orthonormalisation of the columns: needs rows >= cols
  \/ \E n \in D, m \in D :
        c = C("gramSchmidt", <<n, m>>, <<>>, <<>>, IF n >= m /\ m >= 1 THEN "ok" ELSE "any", <<n, m>>)
     \* A x = b with upper triangular A
  \/ \E n \in D, m \in D, b \in D :
        c = C("backSubstitution", <<n, m, b>>, <<>>, <<>>,
              IF n # m \/ b # n THEN "reject" ELSE IF n = 0 THEN "any" ELSE "ok", <<n>>)
     \* gaussJordan(a, x, b): a, x are n x n, b has n entries (a x_out = x_in, a y = b)
  \/ \E an \in D, am \in D, xn \in D, xm \in D, b \in D :
        c = C("gaussJordan", <<an, am, xn, xm, b>>, <<>>, <<>>,
              IF ~(an = am /\ xn = an /\ xm = an /\ b = an) THEN "reject" ELSE IF an = 0 THEN "any" ELSE "ok", <<xn, xm>>)

(* ------------------------------------------------------ option values *)
(* Optional arguments whose admissible values the sources state (doc       *)
(* comments and the error / panic texts of the argument checks):           *)
ByReference  == {"qrAlgorithm", "svd", "hessenbergReduction", "householderBidiagonalization",
                 "householderTridiagonalization", "matrixInverse", "cholesky", "determinant",
                 "backSubstitution", "newtonRoot", "newtonMin", "saga"}
ClosedOptions == {"rprop", "bfgs", "gradientDescent", "adam", "saga", "determinant", "cholesky", "gaussJordan"}
OptionCases ==
     \* rprop.Run(f, x0, step, eta): "Argument eta must have length two"
  \/ \E l \in 0..3 :
        c = C("opt.rprop.eta", <<l>>, <<>>, <<>>, Cls(l = 2), <<>>)
     \* bfgs.Run(f, x0, Hessian{B0}): B0 must be n x n for x0 of length n
  \/ \E n \in 1..2, hn \in D, hm \in D :
        c = C("opt.bfgs.Hessian", <<n, hn, hm>>, <<>>, <<>>, Cls(hn = n /\ hm = n), <<n>>)
     \* saga: regularisation constants must not be negative, at most one may be set
  \/ \E l1 \in -1..1, l2 \in -1..1, ti \in -1..1 :
        c = C("opt.saga.regularization", <<1>>, <<l1, l2, ti>>, <<>>,
              Cls(l1 >= 0 /\ l2 >= 0 /\ ti >= 0 /\ Cardinality({k \in 1..3 : <<l1, l2, ti>>[k] # 0}) <= 1), <<>>)
     \* determinant: "Parameter LogScale is valid only for positive definite matrices"
  \/ \E pd \in 0..1, lg \in 0..1 :
        c = C("opt.determinant.LogScale", <<2>>, <<pd, lg>>, <<>>, Cls(lg = 0 \/ pd = 1), <<>>)
     \* "InSitu must be passed by reference"
  \/ \E r \in ByReference :
        c = C("opt.InSituByValue." \o r, <<2>>, <<>>, <<>>, "reject", <<>>)
     \* routines that document a closed set of options: anything else is invalid
  \/ \E r \in ClosedOptions :
        c = C("opt.UnknownOption." \o r, <<2>>, <<>>, <<>>, "reject", <<>>)
     \* pre-allocated work space of the wrong shape: H of qrAlgorithm (n x n), X of
     \* backSubstitution (n), Q of gramSchmidt (n x m)
  \/ \E n \in 1..3, hn \in D, hm \in D :
        c = C("opt.qrAlgorithm.InSitu.H", <<n, hn, hm>>, <<>>, <<>>, Cls(hn = n /\ hm = n), <<n, n>>)
  \/ \E n \in 1..3, xn \in D :
        c = C("opt.backSubstitution.InSitu.X", <<n, xn>>, <<>>, <<>>, Cls(xn = n), <<n>>)
  \/ \E n \in 1..3, qn \in D, qm \in D :
        c = C("opt.gramSchmidt.InSitu.Q", <<n, qn, qm>>, <<>>, <<>>, Cls(qn = n /\ qm = n), <<n, n>>)

(* Option VALUES outside the documented set.  newton.HessianModification   *)
(* is a string: "None" (default), "LDL" and "Eigenvalue" are the values the *)
(* package knows, anything else is "invalid hessian modification" - a      *)
(* misspelt value must not silently select another method.  The value is   *)
(* the last component of the op name ("<empty>" = the empty string).       *)
(* scalarEstimator.NumericEstimator.Method is one of "newton", "bfgs",     *)
(* "rprop".                                                                *)
HessianModifications == {"None", "LDL", "Eigenvalue"}
HessianModificationValues == HessianModifications \cup {"ldl", "eigenvalue", "none", "Cholesky", "Newton", "<empty>"}
NumericMethods == {"newton", "bfgs", "rprop"}
NumericMethodValues == NumericMethods \cup {"Newton", "BFGS", "adam", "<empty>"}
OptionValueCases ==
  \/ \E r \in {"newtonRoot", "newtonCrit", "newtonMin"}, v \in HessianModificationValues :
        c = C("opt.newton.HessianModification." \o r \o "." \o v, <<2>>, <<>>, <<>>,
              Cls(v \in HessianModifications), <<2>>)
  \/ \E v \in NumericMethodValues :
        c = C("opt.NumericEstimator.Method." \o v, <<2>>, <<>>, <<>>, Cls(v \in NumericMethods), <<>>)

(* Caller-supplied or re-used InSitu work space of the wrong size: the      *)
(* work space member w is wn x wm (vectors: wn) while the input is n x n.  *)
(* The routine may reject the call or allocate a fitting work space, but a *)
(* call that returns must deliver the result that lives in / corresponds   *)
(* to that member with the shape the INPUT demands ("any" + shape); a      *)
(* fitting work space must be accepted.  f ranges over all combinations    *)
(* of the routine's Initialize / variant flags (qrAlgorithm: InitializeH,  *)
(* InitializeU, Symmetric; cholesky: LDL; others: none).                   *)
InSituMatrixMembers ==
  { <<"qrAlgorithm", "H", 8>>, <<"qrAlgorithm", "U", 8>>, <<"eigensystem", "Eigenvectors", 2>>,
    <<"cholesky", "L", 2>>, <<"cholesky", "D", 1>>, <<"matrixInverse", "Id", 2>>, <<"matrixInverse", "A", 2>>,
    <<"svd", "A", 1>>, <<"svd", "U", 1>>, <<"svd", "V", 1>>,
    <<"householderBidiagonalization", "A", 1>>, <<"householderBidiagonalization", "U", 1>>,
    <<"householderBidiagonalization", "V", 1>>, <<"householderTridiagonalization", "A", 1>>,
    <<"householderTridiagonalization", "U", 1>>, <<"hessenbergReduction", "H", 1>>, <<"hessenbergReduction", "U", 1>>,
    <<"backSubstitution", "A", 1>>, <<"gramSchmidt", "Q", 1>>, <<"gramSchmidt", "R", 1>> }
InSituVectorMembers ==
  { <<"eigensystem", "Eigenvalues", 2>>, <<"matrixInverse", "B", 2>>, <<"backSubstitution", "X", 1>>,
    <<"newtonRoot", "T1", 1>>, <<"newtonMin", "T1", 1>>, <<"qrAlgorithm", "T4", 8>> }
InSituCases ==
  \/ \E x \in InSituMatrixMembers, n \in 1..3, wn \in 1..4, wm \in 1..4 : \E f \in 0..(x[3]-1) :
        c = C("opt.InSitu." \o x[1] \o "." \o x[2], <<n, wn, wm>>, <<f>>, <<>>,
              IF wn = n /\ wm = n THEN "ok" ELSE "any", <<n, n>>)
  \/ \E x \in InSituVectorMembers, n \in 1..3, wn \in 1..4 : \E f \in 0..(x[3]-1) :
        c = C("opt.InSitu." \o x[1] \o "." \o x[2], <<n, wn>>, <<f>>, <<>>,
              IF wn = n THEN "ok" ELSE "any", IF x[2] \in {"T4", "T1", "B"} THEN (IF x[1] \in {"newtonRoot", "newtonMin"} THEN <<n>> ELSE <<n, n>>) ELSE <<n>>)

(* -------------------------------------------------------------- output *)
Init == VectorCases \/ AliasCases \/ MatrixCases \/ PermuteCases \/ RealCases \/ ShrinkCases \/ AlgoCases \/ OptionCases \/ OptionValueCases \/ InSituCases
Next == UNCHANGED c
Spec == Init /\ [][Next]_c

(* every case is printed exactly once (one line per distinct state) *)
Emit == PrintT(ToJson(c))

(* sanity of the specification itself *)
WellFormed ==
  /\ c.exp \in {"ok", "reject", "any"}
  /\ \A k \in 1..Len(c.sh) : c.exp = "ok" => c.sh[k] >= 0     \* an admissible call never has a negative shape
  /\ \A k \in 1..Len(c.d) : c.d[k] >= 0
=============================================================================
