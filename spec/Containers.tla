------------------------------ MODULE Containers ------------------------------
(***************************************************************************)
(* CONTRACT layer for vectors and matrices (properties C03, C09).          *)
(*                                                                         *)
(* Written from the property texts, README.md ("Vectors and Matrices") and *)
(* the doc comments of vector.go / matrix.go -- not from the code.         *)
(*                                                                         *)
(* A vector IS a total function 1..n -> Elem, a rows x cols matrix IS a    *)
(* total function 1..rows*cols -> Elem (row major).  An element is a dual  *)
(* number <<v, d>>: value v and the derivative d with respect to ONE       *)
(* variable (only the magic element types Real32/Real64 carry d; for all   *)
(* other element types the driver compares v only).  Values are small      *)
(* integers, so one abstract case is exact for int8 .. float64.            *)
(*                                                                         *)
(* Which entries a container physically stores (`st`, including explicit   *)
(* zeros of sparse containers) is REPRESENTATION state: it is enumerated   *)
(* by ContainersCases.tla but no operator below can see it -- every result *)
(* is a function of operand CONTENTS only (StorageIndependence).           *)
(*                                                                         *)
(* Results are sequences of triples <<v, d, f>>: f = 0 finite, 1 = +Inf,   *)
(* 2 = -Inf, 3 = NaN (IEEE result of a division by zero for the floating   *)
(* point element types; for integer element types a call whose expected    *)
(* result holds a triple with f # 0 may panic: "panic allowed").  For      *)
(* f # 0 only the class of the value is specified (not d).                 *)
(***************************************************************************)
EXTENDS Integers, Sequences, FiniteSets, TLC

(* ---- dual numbers ---------------------------------------------------- *)
Z           == <<0, 0>>
Dual(v, w)  == <<v, v * w>>          \* derivative proportional to the value: zeros have zero derivative
DAdd(x, y)  == <<x[1] + y[1], x[2] + y[2]>>
DSub(x, y)  == <<x[1] - y[1], x[2] - y[2]>>
DMul(x, y)  == <<x[1] * y[1], x[1] * y[2] + x[2] * y[1]>>
Fin(x)      == <<x[1], x[2], 0>>
ZeroT       == <<0, 0, 0>>
OneT        == <<1, 0, 0>>
\* exact integer quotient; the enumeration only builds exactly dividing
\* operands -- no witness is a TLC error (an assertion on the spec itself)
Quot(x, y)  == CHOOSE q \in -256..256 : q * y = x
DDiv(x, y)  == IF y[1] = 0
               THEN (IF x[1] > 0 THEN <<0, 0, 1>> ELSE IF x[1] < 0 THEN <<0, 0, 2>> ELSE <<0, 0, 3>>)
               ELSE <<Quot(x[1], y[1]), Quot(x[2] * y[1] - x[1] * y[2], y[1] * y[1]), 0>>

RECURSIVE DSum(_)
DSum(s) == IF Len(s) = 0 THEN Z ELSE DAdd(Head(s), DSum(Tail(s)))

\* sequence builder that yields <<>> (not an empty function) for n = 0
SeqOf(n, F(_)) == IF n = 0 THEN <<>> ELSE [i \in 1..n |-> F(i)]

(* ---- element-wise and broadcast operations (vectors and, on the flat   *)
(*      row-major content, matrices)                                      *)
EwAdd(a, b) == SeqOf(Len(a), LAMBDA i : Fin(DAdd(a[i], b[i])))
EwSub(a, b) == SeqOf(Len(a), LAMBDA i : Fin(DSub(a[i], b[i])))
EwMul(a, b) == SeqOf(Len(a), LAMBDA i : Fin(DMul(a[i], b[i])))
EwDiv(a, b) == SeqOf(Len(a), LAMBDA i : DDiv(a[i], b[i]))
BcAdd(a, s) == SeqOf(Len(a), LAMBDA i : Fin(DAdd(a[i], s)))
BcSub(a, s) == SeqOf(Len(a), LAMBDA i : Fin(DSub(a[i], s)))
BcMul(a, s) == SeqOf(Len(a), LAMBDA i : Fin(DMul(a[i], s)))
BcDiv(a, s) == SeqOf(Len(a), LAMBDA i : DDiv(a[i], s))

(* ---- products -------------------------------------------------------- *)
At(A, cols, i, j) == A[(i - 1) * cols + j]
RowOf(x, cols)    == ((x - 1) \div cols) + 1
ColOf(x, cols)    == ((x - 1) % cols) + 1
Dot(a, b)         == Fin(DSum(SeqOf(Len(a), LAMBDA i : DMul(a[i], b[i]))))
\* r = A b          A: rows x cols, b: cols
MatVec(A, rows, cols, b) ==
  SeqOf(rows, LAMBDA i : Fin(DSum(SeqOf(cols, LAMBDA j : DMul(At(A, cols, i, j), b[j])))))
\* r = a B          a: rows, B: rows x cols
VecMat(a, B, rows, cols) ==
  SeqOf(cols, LAMBDA j : Fin(DSum(SeqOf(rows, LAMBDA i : DMul(a[i], At(B, cols, i, j))))))
\* R = A B          A: rows x inner, B: inner x cols
MatMat(A, B, rows, inner, cols) ==
  SeqOf(rows * cols, LAMBDA x :
     Fin(DSum(SeqOf(inner, LAMBDA t : DMul(At(A, inner, RowOf(x, cols), t), At(B, cols, t, ColOf(x, cols)))))))
\* R = a b'         a: rows, b: cols
OuterP(a, b) ==
  SeqOf(Len(a) * Len(b), LAMBDA x : Fin(DMul(a[RowOf(x, Len(b))], b[ColOf(x, Len(b))])))

(* ---- assignment-like operations -------------------------------------- *)
Copy(a)          == SeqOf(Len(a), LAMBDA i : Fin(a[i]))         \* Set, As-conversions, New*(indices, values)
Zeros(n)         == SeqOf(n, LAMBDA i : ZeroT)                  \* Reset
Ident(rows, cols) == SeqOf(rows * cols, LAMBDA x : IF RowOf(x, cols) = ColOf(x, cols) THEN OneT ELSE ZeroT)
\* Equals compares values (with an epsilon below the spacing of the value domain)
SameValues(a, b) == \A i \in 1..Len(a) : a[i][1] = b[i][1]

(***************************************************************************)
(* The result CONTENT of an operation from operand CONTENTS only.          *)
(* a, b: operand contents (sequences of duals), s: scalar operand (dual),  *)
(* dims = <<rows, cols, inner>> of the RESULT (vectors: rows = n).         *)
(* The receiver's prior content is not a parameter: no result depends on   *)
(* what the receiver held before the call.                                 *)
(***************************************************************************)
VecOps  == {"VaddV", "VsubV", "VmulV", "VdivV", "VaddS", "VsubS", "VmulS", "VdivS", "MdotV", "VdotM"}
MatOps  == {"MaddM", "MsubM", "MmulM", "MdivM", "MaddS", "MsubS", "MmulS", "MdivS", "MdotM", "Outer", "SetIdentity"}
BothOps == {"Set", "Reset", "As", "New"}

Result(op, a, b, s, dims) ==
  CASE op \in {"VaddV", "MaddM"} -> EwAdd(a, b)
    [] op \in {"VsubV", "MsubM"} -> EwSub(a, b)
    [] op \in {"VmulV", "MmulM"} -> EwMul(a, b)
    [] op \in {"VdivV", "MdivM"} -> EwDiv(a, b)
    [] op \in {"VaddS", "MaddS"} -> BcAdd(a, s)
    [] op \in {"VsubS", "MsubS"} -> BcSub(a, s)
    [] op \in {"VmulS", "MmulS"} -> BcMul(a, s)
    [] op \in {"VdivS", "MdivS"} -> BcDiv(a, s)
    [] op = "MdotV"              -> MatVec(a, dims[1], dims[3], b)
    [] op = "VdotM"              -> VecMat(a, b, dims[3], dims[1])
    [] op = "MdotM"              -> MatMat(a, b, dims[1], dims[3], dims[2])
    [] op = "Outer"              -> OuterP(a, b)
    [] op \in {"Set", "As", "New"} -> Copy(a)
    [] op = "Reset"              -> Zeros(IF dims[2] < 0 THEN dims[1] ELSE dims[1] * dims[2])
    [] op = "SetIdentity"        -> Ident(dims[1], dims[2])

(***************************************************************************)
(* IEEE classes (C09, special operands).  An extended element is a triple  *)
(* <<v, d, f>>: f = 0 finite integer v, 1 = +Inf, 2 = -Inf, 3 = NaN,       *)
(* 4 = negative zero (v = 0; only as an OPERAND: the sign of a computed    *)
(* zero is not tracked, it matters only to a division by that zero).       *)
(* 5 = "any": unconstrained by IEEE arithmetic alone (only generic =       *)
(* concrete is demanded).  The derivative of an extended element is not    *)
(* specified (d = 0).  The operators give the class Go's IEEE arithmetic   *)
(* produces; absent entries of sparse containers are zeros.                *)
(***************************************************************************)
SSignOf(x) == IF x < 0 THEN -1 ELSE IF x > 0 THEN 1 ELSE 0
XFin(v)   == <<v, 0, 0>>
XInf      == <<0, 0, 1>>
XNInf     == <<0, 0, 2>>
XNaN      == <<0, 0, 3>>
XNZero    == <<0, 0, 4>>
XAny      == <<0, 0, 5>>
XIsFin(x) == x[3] \in {0, 4}
XIsNaN(x) == x[3] = 3
XIsInf(x) == x[3] \in {1, 2}
\* sign of an extended element: -1, 0, 1 (NaN excluded by the callers); a negative zero has sign 0
XSgn(x)   == CASE x[3] = 1 -> 1 [] x[3] = 2 -> -1 [] x[3] = 4 -> 0 [] OTHER -> SSignOf(x[1])
XOfSign(s) == IF s > 0 THEN XInf ELSE XNInf
XNeg(x)   == CASE x[3] = 1 -> XNInf [] x[3] = 2 -> XInf [] x[3] = 3 -> XNaN [] OTHER -> XFin(-x[1])
XAbs(x)   == CASE x[3] \in {1, 2} -> XInf [] x[3] = 3 -> XNaN [] OTHER -> XFin(IF x[1] < 0 THEN -x[1] ELSE x[1])
XAdd(x, y) ==
  IF XIsNaN(x) \/ XIsNaN(y) THEN XNaN
  ELSE IF XIsInf(x) /\ XIsInf(y) THEN (IF x[3] = y[3] THEN x ELSE XNaN)      \* Inf + -Inf = NaN
  ELSE IF XIsInf(x) THEN x
  ELSE IF XIsInf(y) THEN y
  ELSE XFin(x[1] + y[1])
XSub(x, y) == XAdd(x, XNeg(y))
XMul(x, y) ==
  IF XIsNaN(x) \/ XIsNaN(y) THEN XNaN
  ELSE IF XIsInf(x) \/ XIsInf(y)
       THEN (IF XSgn(x) = 0 \/ XSgn(y) = 0 THEN XNaN ELSE XOfSign(XSgn(x) * XSgn(y)))   \* 0 * Inf = NaN
  ELSE XFin(x[1] * y[1])
XDiv(x, y) ==
  IF XIsNaN(x) \/ XIsNaN(y) THEN XNaN
  ELSE IF XIsInf(x) /\ XIsInf(y) THEN XNaN
  ELSE IF XIsInf(x) THEN XOfSign(XSgn(x) * (IF y[3] = 4 \/ (y[3] = 0 /\ y[1] < 0) THEN -1 ELSE 1))
  ELSE IF XIsInf(y) THEN XFin(0)
  ELSE IF y[1] = 0                                                   \* finite / zero: the sign of the zero counts
       THEN (IF x[1] = 0 THEN XNaN ELSE XOfSign(SSignOf(x[1]) * (IF y[3] = 4 THEN -1 ELSE 1)))
  ELSE XFin(Quot(x[1], y[1]))
RECURSIVE XSum(_)
XSum(s) == IF Len(s) = 0 THEN XFin(0) ELSE XAdd(Head(s), XSum(Tail(s)))
\* comparisons as Go's <, > do: false as soon as a NaN is involved
XLess(x, y) ==
  IF XIsNaN(x) \/ XIsNaN(y) THEN FALSE
  ELSE IF x[3] = 2 THEN y[3] # 2
  ELSE IF y[3] = 1 THEN x[3] # 1
  ELSE IF x[3] = 1 \/ y[3] = 2 THEN FALSE
  ELSE x[1] < y[1]

XResult(op, a, b, s, dims) ==
  CASE op \in {"VaddV", "MaddM"} -> SeqOf(Len(a), LAMBDA i : XAdd(a[i], b[i]))
    [] op \in {"VsubV", "MsubM"} -> SeqOf(Len(a), LAMBDA i : XSub(a[i], b[i]))
    [] op \in {"VmulV", "MmulM"} -> SeqOf(Len(a), LAMBDA i : XMul(a[i], b[i]))
    [] op \in {"VdivV", "MdivM"} -> SeqOf(Len(a), LAMBDA i : XDiv(a[i], b[i]))
    [] op \in {"VaddS", "MaddS"} -> SeqOf(Len(a), LAMBDA i : XAdd(a[i], s))
    [] op \in {"VsubS", "MsubS"} -> SeqOf(Len(a), LAMBDA i : XSub(a[i], s))
    [] op \in {"VmulS", "MmulS"} -> SeqOf(Len(a), LAMBDA i : XMul(a[i], s))
    [] op \in {"VdivS", "MdivS"} -> SeqOf(Len(a), LAMBDA i : XDiv(a[i], s))
    [] op = "VdotV" -> <<XSum(SeqOf(Len(a), LAMBDA i : XMul(a[i], b[i])))>>
    [] op = "MdotV" -> SeqOf(dims[1], LAMBDA i : XSum(SeqOf(dims[3], LAMBDA j : XMul(At(a, dims[3], i, j), b[j]))))
    [] op = "VdotM" -> SeqOf(dims[1], LAMBDA j : XSum(SeqOf(dims[3], LAMBDA i : XMul(a[i], At(b, dims[1], i, j)))))
    [] op = "MdotM" -> SeqOf(dims[1] * dims[2], LAMBDA x :
                          XSum(SeqOf(dims[3], LAMBDA t : XMul(At(a, dims[3], RowOf(x, dims[2]), t), At(b, dims[2], t, ColOf(x, dims[2]))))))
    [] op = "Outer" -> SeqOf(Len(a) * Len(b), LAMBDA x : XMul(a[RowOf(x, Len(b))], b[ColOf(x, Len(b))]))
    [] op = "Set"   -> a

(* ---- scalar ring operations (C09; value only, exact) ------------------ *)
SAbs(x)    == IF x < 0 THEN -x ELSE x
SMin(x, y) == IF x < y THEN x ELSE y
SMax(x, y) == IF x > y THEN x ELSE y
SSign(x)   == IF x < 0 THEN -1 ELSE IF x > 0 THEN 1 ELSE 0
=============================================================================
