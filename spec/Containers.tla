------------------------------ MODULE Containers ------------------------------
(***************************************************************************)
(* CONTRACT layer for vectors and matrices (properties C03, C09).          *)
(*                                                                         *)
(* Written from the property texts, README.md ("Vectors and Matrices") and *)
(* the doc comments of vector.go / matrix.go -- not from the code.         *)
(*                                                                         *)
(* A vector IS a total function 1..n -> Elem, a rows x cols matrix IS a    *)
(* total function 1..rows*cols -> Elem (row major).  An element is a dual  *)
(* number <<v, d>>: value v and the derivative d with respect to ONE       *)
(* variable (only the magic element types Real32/Real64 carry d; for all   *)
(* other element types the driver compares v only).  Values are small      *)
(* integers, so one abstract case is exact for int8 .. float64.            *)
(*                                                                         *)
(* Which entries a container physically stores (`st`, including explicit   *)
(* zeros of sparse containers) is REPRESENTATION state: it is enumerated   *)
(* by ContainersCases.tla but no operator below can see it -- every result *)
(* is a function of operand CONTENTS only (StorageIndependence).           *)
(*                                                                         *)
(* Results are sequences of triples <<v, d, f>>: f = 0 finite, 1 = +Inf,   *)
(* 2 = -Inf, 3 = NaN (IEEE result of a division by zero for the floating   *)
(* point element types; for integer element types a call whose expected    *)
(* result holds a triple with f # 0 may panic: "panic allowed").  For      *)
(* f # 0 only the class of the value is specified (not d).                 *)
(***************************************************************************)
EXTENDS Integers, Sequences, FiniteSets, TLC

(* ---- dual numbers ---------------------------------------------------- *)
Z           == <<0, 0>>
Dual(v, w)  == <<v, v * w>>          \* derivative proportional to the value: zeros have zero derivative
DAdd(x, y)  == <<x[1] + y[1], x[2] + y[2]>>
DSub(x, y)  == <<x[1] - y[1], x[2] - y[2]>>
DMul(x, y)  == <<x[1] * y[1], x[1] * y[2] + x[2] * y[1]>>
Fin(x)      == <<x[1], x[2], 0>>
ZeroT       == <<0, 0, 0>>
OneT        == <<1, 0, 0>>
\* exact integer quotient; the enumeration only builds exactly dividing
\* operands -- no witness is a TLC error (an assertion on the spec itself)
Quot(x, y)  == CHOOSE q \in -256..256 : q * y = x
DDiv(x, y)  == IF y[1] = 0
               THEN (IF x[1] > 0 THEN <<0, 0, 1>> ELSE IF x[1] < 0 THEN <<0, 0, 2>> ELSE <<0, 0, 3>>)
               ELSE <<Quot(x[1], y[1]), Quot(x[2] * y[1] - x[1] * y[2], y[1] * y[1]), 0>>

RECURSIVE DSum(_)
DSum(s) == IF Len(s) = 0 THEN Z ELSE DAdd(Head(s), DSum(Tail(s)))

\* sequence builder that yields <<>> (not an empty function) for n = 0
SeqOf(n, F(_)) == IF n = 0 THEN <<>> ELSE [i \in 1..n |-> F(i)]

(* ---- element-wise and broadcast operations (vectors and, on the flat   *)
(*      row-major content, matrices)                                      *)
EwAdd(a, b) == SeqOf(Len(a), LAMBDA i : Fin(DAdd(a[i], b[i])))
EwSub(a, b) == SeqOf(Len(a), LAMBDA i : Fin(DSub(a[i], b[i])))
EwMul(a, b) == SeqOf(Len(a), LAMBDA i : Fin(DMul(a[i], b[i])))
EwDiv(a, b) == SeqOf(Len(a), LAMBDA i : DDiv(a[i], b[i]))
BcAdd(a, s) == SeqOf(Len(a), LAMBDA i : Fin(DAdd(a[i], s)))
BcSub(a, s) == SeqOf(Len(a), LAMBDA i : Fin(DSub(a[i], s)))
BcMul(a, s) == SeqOf(Len(a), LAMBDA i : Fin(DMul(a[i], s)))
BcDiv(a, s) == SeqOf(Len(a), LAMBDA i : DDiv(a[i], s))

(* ---- products -------------------------------------------------------- *)
At(A, cols, i, j) == A[(i - 1) * cols + j]
RowOf(x, cols)    == ((x - 1) \div cols) + 1
ColOf(x, cols)    == ((x - 1) % cols) + 1
Dot(a, b)         == Fin(DSum(SeqOf(Len(a), LAMBDA i : DMul(a[i], b[i]))))
\* r = A b          A: rows x cols, b: cols
MatVec(A, rows, cols, b) ==
  SeqOf(rows, LAMBDA i : Fin(DSum(SeqOf(cols, LAMBDA j : DMul(At(A, cols, i, j), b[j])))))
\* r = a B          a: rows, B: rows x cols
VecMat(a, B, rows, cols) ==
  SeqOf(cols, LAMBDA j : Fin(DSum(SeqOf(rows, LAMBDA i : DMul(a[i], At(B, cols, i, j))))))
\* R = A B          A: rows x inner, B: inner x cols
MatMat(A, B, rows, inner, cols) ==
  SeqOf(rows * cols, LAMBDA x :
     Fin(DSum(SeqOf(inner, LAMBDA t : DMul(At(A, inner, RowOf(x, cols), t), At(B, cols, t, ColOf(x, cols)))))))
\* R = a b'         a: rows, b: cols
OuterP(a, b) ==
  SeqOf(Len(a) * Len(b), LAMBDA x : Fin(DMul(a[RowOf(x, Len(b))], b[ColOf(x, Len(b))])))

(* ---- assignment-like operations -------------------------------------- *)
Copy(a)          == SeqOf(Len(a), LAMBDA i : Fin(a[i]))         \* Set, As-conversions, New*(indices, values)
Zeros(n)         == SeqOf(n, LAMBDA i : ZeroT)                  \* Reset
Ident(rows, cols) == SeqOf(rows * cols, LAMBDA x : IF RowOf(x, cols) = ColOf(x, cols) THEN OneT ELSE ZeroT)
\* Equals compares values (with an epsilon below the spacing of the value domain)
SameValues(a, b) == \A i \in 1..Len(a) : a[i][1] = b[i][1]

(***************************************************************************)
(* The result CONTENT of an operation from operand CONTENTS only.          *)
(* a, b: operand contents (sequences of duals), s: scalar operand (dual),  *)
(* dims = <<rows, cols, inner>> of the RESULT (vectors: rows = n).         *)
(* The receiver's prior content is not a parameter: no result depends on   *)
(* what the receiver held before the call.                                 *)
(***************************************************************************)
VecOps  == {"VaddV", "VsubV", "VmulV", "VdivV", "VaddS", "VsubS", "VmulS", "VdivS", "MdotV", "VdotM"}
MatOps  == {"MaddM", "MsubM", "MmulM", "MdivM", "MaddS", "MsubS", "MmulS", "MdivS", "MdotM", "Outer", "SetIdentity"}
BothOps == {"Set", "Reset", "As", "New"}

Result(op, a, b, s, dims) ==
  CASE op \in {"VaddV", "MaddM"} -> EwAdd(a, b)
    [] op \in {"VsubV", "MsubM"} -> EwSub(a, b)
    [] op \in {"VmulV", "MmulM"} -> EwMul(a, b)
    [] op \in {"VdivV", "MdivM"} -> EwDiv(a, b)
    [] op \in {"VaddS", "MaddS"} -> BcAdd(a, s)
    [] op \in {"VsubS", "MsubS"} -> BcSub(a, s)
    [] op \in {"VmulS", "MmulS"} -> BcMul(a, s)
    [] op \in {"VdivS", "MdivS"} -> BcDiv(a, s)
    [] op = "MdotV"              -> MatVec(a, dims[1], dims[3], b)
    [] op = "VdotM"              -> VecMat(a, b, dims[3], dims[1])
    [] op = "MdotM"              -> MatMat(a, b, dims[1], dims[3], dims[2])
    [] op = "Outer"              -> OuterP(a, b)
    [] op \in {"Set", "As", "New"} -> Copy(a)
    [] op = "Reset"              -> Zeros(IF dims[2] < 0 THEN dims[1] ELSE dims[1] * dims[2])
    [] op = "SetIdentity"        -> Ident(dims[1], dims[2])

(* ---- scalar ring operations (C09; value only, exact) ------------------ *)
SAbs(x)    == IF x < 0 THEN -x ELSE x
SMin(x, y) == IF x < y THEN x ELSE y
SMax(x, y) == IF x > y THEN x ELSE y
SSign(x)   == IF x < 0 THEN -1 ELSE IF x > 0 THEN 1 ELSE 0
=============================================================================
