---------------------------- MODULE SpecialValues ----------------------------
(***************************************************************************)
(* C13 - enumeration of the cases of SpecialDefs.tla.  One state per        *)
(*   (1, family, index)   closed-form / class case of a value family,       *)
(*   (2, family, index)   identity schema instantiated at an enumerated     *)
(*                        point,                                            *)
(*   (3, family, 1)       the identity schema itself (variables, domain,    *)
(*                        guards) for the code -> model direction.          *)
(* The invariant Emit prints the case of every state; the other invariants  *)
(* are model-level sanity of the contract (checked by TLC on the model).    *)
(***************************************************************************)
EXTENDS SpecialDefs

CONSTANTS Grid1,    \* regular grid: points per box of a one-variable schema (0 = no grid cases)
          Grid2     \* regular grid: Grid2 x Grid2 points per box of a two-variable schema

VARIABLES g, f, i

ValueFamilies == <<
  [name |-> "factorial.table", n |-> Len(FactTableN)],
  [name |-> "factorial.gamma", n |-> Len(FactGammaN)],
  [name |-> "bernoulli.exact", n |-> BMax + 1],
  [name |-> "bernoulli.odd",   n |-> Len(BernOddN)],
  [name |-> "bernoulli.rec",   n |-> Len(BernRecM)],
  [name |-> "zeta.neg",        n |-> BMax - 1],
  [name |-> "zeta.even",       n |-> BMax \div 2],
  [name |-> "zeta.sum",        n |-> Len(ZetaSumS)],
  [name |-> "zeta.em",         n |-> Len(ZetaEMS)],
  [name |-> "zeta.lin",        n |-> Len(ZetaLinS)],
  [name |-> "digamma.int",     n |-> Len(DigammaIntN)],
  [name |-> "digamma.half",    n |-> Len(DigammaHalfN)],
  [name |-> "digamma.neghalf", n |-> 8],
  [name |-> "digamma.quarter", n |-> 2 * Len(DigammaQuarterN)],
  [name |-> "digamma.negquarter", n |-> 12],
  [name |-> "trigamma.int",    n |-> Len(TrigammaIntN)],
  [name |-> "trigamma.half",   n |-> Len(TrigammaHalfN)],
  [name |-> "trigamma.neghalf", n |-> 6],
  [name |-> "trigamma.quarter", n |-> 2 * Len(TrigammaQuarterN)],
  [name |-> "trigamma.negquarter", n |-> 8],
  [name |-> "polygamma.int",   n |-> Len(PolyNs) * 9],
  [name |-> "polygamma.half",  n |-> Len(PolyNs) * 6],
  [name |-> "gamma.int",       n |-> Len(GammaIntN)],
  [name |-> "gamma.half",      n |-> Len(GammaHalfN)],
  [name |-> "gamma.neghalf",   n |-> Len(GammaNegHalfN)],
  [name |-> "lgamma.int",      n |-> Len(GammaIntN)],
  [name |-> "lgamma.half",     n |-> Len(GammaHalfN)],
  [name |-> "lgamma.neghalf",  n |-> Len(GammaNegHalfN)],
  [name |-> "mlgamma.closed",  n |-> Len(MlgKs) * 7],
  [name |-> "mgamma.closed",   n |-> Len(MlgKs) * 7],
  [name |-> "gammap.tiny",     n |-> 4],
  [name |-> "gammalower.tiny", n |-> 4],
  [name |-> "gammap.edge",     n |-> Len(GammaEdgeList)],
  [name |-> "logerfc.asym",    n |-> Len(LogErfcAsymX)],
  [name |-> "besseli.gen",     n |-> Len(BesGenXs)],
  [name |-> "besseli.edge",    n |-> Len(BesEdgeList)],
  [name |-> "besseli.bigx",    n |-> Len(BesBigNs) * Len(BesBigXs)],
  [name |-> "logadd.inf",      n |-> Len(LogInfList)],
  [name |-> "gammad1.tiny",    n |-> Len(TinyList)],
  [name |-> "gammad2.tiny",    n |-> Len(TinyList2)],
  [name |-> "gammaupper.big",  n |-> Len(UpperBigList)],
  [name |-> "gammalower.big",  n |-> Len(LowerBigList)],
  [name |-> "gammad1.big",     n |-> Len(D1BigList)],
  [name |-> "besseli.series",  n |-> Len(BesSerList)],
  [name |-> "logbesseli.series", n |-> Len(LogBesSerList)],
  [name |-> "polygamma.huge",  n |-> Len(PolyHugeList)],
  [name |-> "polygamma.highrec", n |-> Len(PolyHighNs) * Len(PolyHighXs)],
  [name |-> "zeta.refl",       n |-> Len(ZetaReflS)],
  [name |-> "gammaq.bigx",     n |-> Len(QBigXAs) * Len(QBigXXs)],
  [name |-> "gammaupper.bigx", n |-> Len(QBigXAs) * Len(QBigXXs)],
  [name |-> "gammaq.bigxhalf", n |-> Len(QBigXHalfMs) * Len(QBigXXs)],
  [name |-> "gammaupper.smalla", n |-> Len(SmallAEs) * Len(SmallXEs)],
  [name |-> "gammaq.smalla",   n |-> Len(SmallAEs) * Len(SmallXEs)],
  [name |-> "besseli.tinyx",   n |-> Len(TinyBesV2s) * Len(TinyBesXEs)],
  [name |-> "logbesseli.tinyx", n |-> Len(TinyBesV2s) * Len(TinyBesXEs)],
  [name |-> "besseli.negx",    n |-> Len(NegXNs) * Len(NegXXs)],
  [name |-> "polygamma.halfhigh", n |-> Len(HalfHighNs)],
  [name |-> "class",           n |-> Len(ClassList)]
>>

Q13(k) == IF k % 2 = 1 THEN 1 ELSE 3
ValueCase(name, k) ==
  CASE name = "factorial.table" -> FactorialCase(name, FactTableN[k])
    [] name = "factorial.gamma" -> FactorialCase(name, FactGammaN[k])
    [] name = "bernoulli.exact" -> BernoulliExact(k - 1)
    [] name = "bernoulli.odd"   -> BernoulliOdd(BernOddN[k])
    [] name = "bernoulli.rec"   -> BernoulliRec(BernRecM[k])
    [] name = "zeta.neg"        -> ZetaNeg(k)
    [] name = "zeta.even"       -> ZetaEven(k)
    [] name = "zeta.sum"        -> ZetaSum(ZetaSumS[k])
    [] name = "zeta.em"         -> ZetaEM(ZetaEMS[k])
    [] name = "zeta.lin"        -> ZetaLin(ZetaLinS[k])
    [] name = "digamma.int"     -> DigammaInt(DigammaIntN[k])
    [] name = "digamma.half"    -> DigammaHalf(DigammaHalfN[k])
    [] name = "digamma.neghalf" -> DigammaNegHalf(k)
    [] name = "digamma.quarter" -> DigammaQuarter(DigammaQuarterN[(k + 1) \div 2], Q13(k))
    [] name = "digamma.negquarter" -> DigammaNegQuarter((k + 1) \div 2, Q13(k))
    [] name = "trigamma.int"    -> TrigammaInt(TrigammaIntN[k])
    [] name = "trigamma.half"   -> TrigammaHalf(TrigammaHalfN[k])
    [] name = "trigamma.neghalf" -> TrigammaNegHalf(k)
    [] name = "trigamma.quarter" -> TrigammaQuarter(TrigammaQuarterN[(k + 1) \div 2], Q13(k))
    [] name = "trigamma.negquarter" -> TrigammaNegQuarter((k + 1) \div 2, Q13(k))
    [] name = "polygamma.int"   -> LET n == PolyNs[((k - 1) \div 9) + 1] IN PolygammaInt(n, PolyIntM(n)[((k - 1) % 9) + 1])
    [] name = "polygamma.half"  -> LET n == PolyNs[((k - 1) \div 6) + 1] IN PolygammaHalf(n, PolyHalfM(n)[((k - 1) % 6) + 1])
    [] name = "gamma.int"       -> GammaValue("int", GammaIntN[k])
    [] name = "gamma.half"      -> GammaValue("half", GammaHalfN[k])
    [] name = "gamma.neghalf"   -> GammaValue("neghalf", GammaNegHalfN[k])
    [] name = "lgamma.int"      -> LgammaValue("int", GammaIntN[k])
    [] name = "lgamma.half"     -> LgammaValue("half", GammaHalfN[k])
    [] name = "lgamma.neghalf"  -> LgammaValue("neghalf", GammaNegHalfN[k])
    [] name = "mlgamma.closed"  -> LET kk == MlgKs[((k - 1) \div 7) + 1] IN MlgammaClosed(MlgX2(kk)[((k - 1) % 7) + 1], kk)
    [] name = "gammap.tiny"     -> GammaTiny(<<1, 2, 3, 5>>[k])
    [] name = "gammalower.tiny" -> GammaLowerTiny(<<1, 2, 3, 5>>[k])
    [] name = "gammap.edge"     -> GammaEdge(GammaEdgeList[k])
    [] name = "logerfc.asym"    -> LogErfcAsym(k)
    [] name = "besseli.gen"     -> BesGen(BesGenXs[k])
    [] name = "besseli.edge"    -> BesEdge(BesEdgeList[k])
    [] name = "besseli.bigx"    -> BesBig(BesBigNs[((k - 1) \div Len(BesBigXs)) + 1], BesBigXs[((k - 1) % Len(BesBigXs)) + 1])
    [] name = "logadd.inf"      -> LogInf(LogInfList[k])
    [] name = "gammad1.tiny"    -> GammaD1Tiny(TinyList[k][1], TinyList[k][2])
    [] name = "gammad2.tiny"    -> GammaD2Tiny(TinyList2[k][1], TinyList2[k][2])
    [] name = "gammaupper.big"  -> GammaUpperBig(UpperBigList[k][1], UpperBigList[k][2])
    [] name = "gammalower.big"  -> GammaLowerBig(LowerBigList[k][1], LowerBigList[k][2])
    [] name = "gammad1.big"     -> GammaD1Big(D1BigList[k][1], D1BigList[k][2])
    [] name = "besseli.series"  -> BesSer(BesSerList[k][1], BesSerList[k][2])
    [] name = "logbesseli.series" -> LogBesSer(LogBesSerList[k][1], LogBesSerList[k][2])
    [] name = "polygamma.huge"  -> PolygammaHuge(k)
    [] name = "polygamma.highrec" -> PolygammaHighRec(PolyHighNs[((k - 1) \div Len(PolyHighXs)) + 1], PolyHighXs[((k - 1) % Len(PolyHighXs)) + 1])
    [] name = "zeta.refl"       -> ZetaRefl(ZetaReflS[k])
    [] name = "gammaq.bigx"     -> GammaQBigX(QBigXAs[((k - 1) \div Len(QBigXXs)) + 1], QBigXXs[((k - 1) % Len(QBigXXs)) + 1])
    [] name = "gammaupper.bigx" -> GammaUpperBigX(QBigXAs[((k - 1) \div Len(QBigXXs)) + 1], QBigXXs[((k - 1) % Len(QBigXXs)) + 1])
    [] name = "gammaq.bigxhalf" -> GammaQBigXHalf(QBigXHalfMs[((k - 1) \div Len(QBigXXs)) + 1], QBigXXs[((k - 1) % Len(QBigXXs)) + 1])
    [] name = "gammaupper.smalla" -> GammaUpperSmall(SmallAEs[((k - 1) \div Len(SmallXEs)) + 1], SmallXEs[((k - 1) % Len(SmallXEs)) + 1])
    [] name = "gammaq.smalla"   -> GammaQSmall(SmallAEs[((k - 1) \div Len(SmallXEs)) + 1], SmallXEs[((k - 1) % Len(SmallXEs)) + 1])
    [] name = "besseli.tinyx"   -> BesselTinyX(TinyBesV2s[((k - 1) \div Len(TinyBesXEs)) + 1], TinyBesXEs[((k - 1) % Len(TinyBesXEs)) + 1])
    [] name = "logbesseli.tinyx" -> LogBesselTinyX(TinyBesV2s[((k - 1) \div Len(TinyBesXEs)) + 1], TinyBesXEs[((k - 1) % Len(TinyBesXEs)) + 1])
    [] name = "besseli.negx"    -> BesselNegX(NegXNs[((k - 1) \div Len(NegXXs)) + 1], NegXXs[((k - 1) % Len(NegXXs)) + 1])
    [] name = "polygamma.halfhigh" -> PolygammaHalfHigh(HalfHighNs[k])
    [] name = "class"           -> ClassCase(k)
    [] name = "mgamma.closed"   -> LET kk == MlgKs[((k - 1) \div 7) + 1] IN MgammaClosed(MlgX2(kk)[((k - 1) % 7) + 1], kk)

CaseOf(gg, ff, k) ==
  IF gg = 1 THEN ValueCase(ValueFamilies[ff].name, k)
  ELSE IF gg = 5 THEN PureCase(ff)
  ELSE LET loc == Locate(ff, 1) IN
       IF gg = 2 THEN InstCase(SchemaOf(loc[1], loc[2]), PointAt(loc[1], loc[2], k), "")
       ELSE IF gg = 4 THEN LET S == SchemaOf(loc[1], loc[2]) IN GridCase(S, GridPoint(S, k, Grid1, Grid2))
       ELSE SchemaOf(loc[1], loc[2]) @@ [idx |-> ff]

Init == \/ /\ g = 1 /\ f \in 1..Len(ValueFamilies) /\ i \in 1..ValueFamilies[f].n
        \/ /\ g = 2 /\ f \in 1..NIdFam /\ i \in 1..PointCount(Locate(f, 1)[1], Locate(f, 1)[2])
        \/ /\ g = 3 /\ f \in 1..NIdFam /\ i = 1
        \/ /\ g = 5 /\ f \in 1..Len(PureFamilies) /\ i = 1
        \/ /\ Grid1 > 0 /\ g = 4 /\ f \in 1..NIdFam
           /\ i \in 1..GridCount(SchemaOf(Locate(f, 1)[1], Locate(f, 1)[2]), Grid1, Grid2)
Next == UNCHANGED <<g, f, i>>
Spec == Init /\ [][Next]_<<g, f, i>>

(* model-level sanity of the contract's own tables (checked by TLC before anything is printed) *)
ASSUME Bern(0) = ROne /\ Bern(1) = Rat(-1, 2) /\ Bern(2) = Rat(1, 6) /\ Bern(4) = Rat(-1, 30) /\ Bern(6) = Rat(1, 42)
ASSUME Bern(12) = Rat(-691, 2730) /\ Bern(14) = Rat(7, 6) /\ Bern(16) = Rat(-3617, 510)
ASSUME \A n \in 1..7 : RIsZero(Bern(2 * n + 1))
(* zeta(2n) = r_n pi^(2n) with r_1 = 1/6, r_2 = 1/90, r_3 = 1/945 *)
ZetaCoef(m2) == RDiv(RMul([n |-> RAbs(Bern(m2).n), d |-> Bern(m2).d], RInt(2^(m2 - 1))), RInt(FactI(m2)))
ASSUME ZetaCoef(2) = Rat(1, 6) /\ ZetaCoef(4) = Rat(1, 90) /\ ZetaCoef(6) = Rat(1, 945) /\ ZetaCoef(8) = Rat(1, 9450)
ASSUME Harm(4) = Rat(25, 12) /\ OddHarm(3) = Rat(23, 15) /\ Binom(10, 3) = 120 /\ Binom(33, 16) = 1166803110
(* derivatives of cot: P_1 = -(1 + t^2), P_2 = 2t + 2t^3, P_3 = -2 - 8t^2 - 6t^4 *)
ASSUME CotPoly(1) = <<-1, 0, -1>> /\ CotPoly(2) = <<0, 2, 0, 2>> /\ CotPoly(3) = <<-2, 0, -8, 0, -6>>
ASSUME DFact(4) = 105 /\ AsymCoef(1) = Rat(-1, 2) /\ AsymCoef(2) = Rat(3, 4) /\ AsymCoef(3) = Rat(-15, 8)

Emit == PrintT(ToJson(CaseOf(g, f, i)))
=============================================================================
