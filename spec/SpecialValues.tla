---------------------------- MODULE SpecialValues ----------------------------
(***************************************************************************)
(* C13 - enumeration of the cases of SpecialDefs.tla: one state per         *)
(* (family, index); the invariant Emit prints the case of every state.      *)
(***************************************************************************)
EXTENDS SpecialDefs

VARIABLES fam, i

Catalogue == <<
  [name |-> "factorial.table", n |-> Len(FactTableN)],
  [name |-> "factorial.gamma", n |-> Len(FactGammaN)],
  [name |-> "bernoulli.exact", n |-> BMax + 1],
  [name |-> "bernoulli.odd",   n |-> Len(BernOddN)],
  [name |-> "bernoulli.rec",   n |-> Len(BernRecM)],
  [name |-> "zeta.neg",        n |-> BMax - 1],
  [name |-> "zeta.even",       n |-> BMax \div 2],
  [name |-> "zeta.sum",        n |-> Len(ZetaSumS)],
  [name |-> "zeta.em",         n |-> Len(ZetaEMS)],
  [name |-> "zeta.lin",        n |-> Len(ZetaLinS)]
>>

CaseAt(f, k) ==
  CASE f = "factorial.table" -> FactorialCase(f, FactTableN[k])
    [] f = "factorial.gamma" -> FactorialCase(f, FactGammaN[k])
    [] f = "bernoulli.exact" -> BernoulliExact(k - 1)
    [] f = "bernoulli.odd"   -> BernoulliOdd(BernOddN[k])
    [] f = "bernoulli.rec"   -> BernoulliRec(BernRecM[k])
    [] f = "zeta.neg"        -> ZetaNeg(k)
    [] f = "zeta.even"       -> ZetaEven(k)
    [] f = "zeta.sum"        -> ZetaSum(ZetaSumS[k])
    [] f = "zeta.em"         -> ZetaEM(ZetaEMS[k])
    [] f = "zeta.lin"        -> ZetaLin(ZetaLinS[k])

Init == \E c \in 1..Len(Catalogue) : fam = Catalogue[c].name /\ i \in 1..Catalogue[c].n
Next == UNCHANGED <<fam, i>>
Spec == Init /\ [][Next]_<<fam, i>>

Emit == PrintT(ToJson(CaseAt(fam, i)))
=============================================================================
