---------------------------- MODULE SpecialValues ----------------------------
(***************************************************************************)
(* C13 - enumeration of the cases of SpecialDefs.tla.  One state per        *)
(*   (1, family, index)   closed-form / class case of a value family,       *)
(*   (2, family, index)   identity schema instantiated at an enumerated     *)
(*                        point,                                            *)
(*   (3, family, 1)       the identity schema itself (variables, domain,    *)
(*                        guards) for the code -> model direction.          *)
(* The invariant Emit prints the case of every state; the other invariants  *)
(* are model-level sanity of the contract (checked by TLC on the model).    *)
(***************************************************************************)
EXTENDS SpecialDefs

VARIABLES g, f, i

ValueFamilies == <<
  [name |-> "factorial.table", n |-> Len(FactTableN)],
  [name |-> "factorial.gamma", n |-> Len(FactGammaN)],
  [name |-> "bernoulli.exact", n |-> BMax + 1],
  [name |-> "bernoulli.odd",   n |-> Len(BernOddN)],
  [name |-> "bernoulli.rec",   n |-> Len(BernRecM)],
  [name |-> "zeta.neg",        n |-> BMax - 1],
  [name |-> "zeta.even",       n |-> BMax \div 2],
  [name |-> "zeta.sum",        n |-> Len(ZetaSumS)],
  [name |-> "zeta.em",         n |-> Len(ZetaEMS)],
  [name |-> "zeta.lin",        n |-> Len(ZetaLinS)],
  [name |-> "digamma.int",     n |-> Len(DigammaIntN)],
  [name |-> "digamma.half",    n |-> Len(DigammaHalfN)],
  [name |-> "digamma.neghalf", n |-> 8],
  [name |-> "digamma.quarter", n |-> 2 * Len(DigammaQuarterN)],
  [name |-> "digamma.negquarter", n |-> 12],
  [name |-> "trigamma.int",    n |-> Len(TrigammaIntN)],
  [name |-> "trigamma.half",   n |-> Len(TrigammaHalfN)],
  [name |-> "trigamma.neghalf", n |-> 6],
  [name |-> "trigamma.quarter", n |-> 2 * Len(TrigammaQuarterN)],
  [name |-> "trigamma.negquarter", n |-> 8],
  [name |-> "polygamma.int",   n |-> Len(PolyNs) * 9],
  [name |-> "polygamma.half",  n |-> Len(PolyNs) * 6],
  [name |-> "gamma.int",       n |-> Len(GammaIntN)],
  [name |-> "gamma.half",      n |-> Len(GammaHalfN)],
  [name |-> "gamma.neghalf",   n |-> Len(GammaNegHalfN)],
  [name |-> "lgamma.int",      n |-> Len(GammaIntN)],
  [name |-> "lgamma.half",     n |-> Len(GammaHalfN)],
  [name |-> "lgamma.neghalf",  n |-> Len(GammaNegHalfN)],
  [name |-> "mlgamma.closed",  n |-> Len(MlgKs) * 7],
  [name |-> "mgamma.closed",   n |-> Len(MlgKs) * 7],
  [name |-> "gammap.tiny",     n |-> 4],
  [name |-> "gammap.edge",     n |-> Len(GammaEdgeList)],
  [name |-> "logerfc.asym",    n |-> Len(LogErfcAsymX)],
  [name |-> "besseli.gen",     n |-> Len(BesGenXs)],
  [name |-> "besseli.edge",    n |-> Len(BesEdgeList)],
  [name |-> "logadd.inf",      n |-> Len(LogInfList)],
  [name |-> "class",           n |-> Len(ClassList)]
>>

Q13(k) == IF k % 2 = 1 THEN 1 ELSE 3
ValueCase(name, k) ==
  CASE name = "factorial.table" -> FactorialCase(name, FactTableN[k])
    [] name = "factorial.gamma" -> FactorialCase(name, FactGammaN[k])
    [] name = "bernoulli.exact" -> BernoulliExact(k - 1)
    [] name = "bernoulli.odd"   -> BernoulliOdd(BernOddN[k])
    [] name = "bernoulli.rec"   -> BernoulliRec(BernRecM[k])
    [] name = "zeta.neg"        -> ZetaNeg(k)
    [] name = "zeta.even"       -> ZetaEven(k)
    [] name = "zeta.sum"        -> ZetaSum(ZetaSumS[k])
    [] name = "zeta.em"         -> ZetaEM(ZetaEMS[k])
    [] name = "zeta.lin"        -> ZetaLin(ZetaLinS[k])
    [] name = "digamma.int"     -> DigammaInt(DigammaIntN[k])
    [] name = "digamma.half"    -> DigammaHalf(DigammaHalfN[k])
    [] name = "digamma.neghalf" -> DigammaNegHalf(k)
    [] name = "digamma.quarter" -> DigammaQuarter(DigammaQuarterN[(k + 1) \div 2], Q13(k))
    [] name = "digamma.negquarter" -> DigammaNegQuarter((k + 1) \div 2, Q13(k))
    [] name = "trigamma.int"    -> TrigammaInt(TrigammaIntN[k])
    [] name = "trigamma.half"   -> TrigammaHalf(TrigammaHalfN[k])
    [] name = "trigamma.neghalf" -> TrigammaNegHalf(k)
    [] name = "trigamma.quarter" -> TrigammaQuarter(TrigammaQuarterN[(k + 1) \div 2], Q13(k))
    [] name = "trigamma.negquarter" -> TrigammaNegQuarter((k + 1) \div 2, Q13(k))
    [] name = "polygamma.int"   -> LET n == PolyNs[((k - 1) \div 9) + 1] IN PolygammaInt(n, PolyIntM(n)[((k - 1) % 9) + 1])
    [] name = "polygamma.half"  -> LET n == PolyNs[((k - 1) \div 6) + 1] IN PolygammaHalf(n, PolyHalfM(n)[((k - 1) % 6) + 1])
    [] name = "gamma.int"       -> GammaValue("int", GammaIntN[k])
    [] name = "gamma.half"      -> GammaValue("half", GammaHalfN[k])
    [] name = "gamma.neghalf"   -> GammaValue("neghalf", GammaNegHalfN[k])
    [] name = "lgamma.int"      -> LgammaValue("int", GammaIntN[k])
    [] name = "lgamma.half"     -> LgammaValue("half", GammaHalfN[k])
    [] name = "lgamma.neghalf"  -> LgammaValue("neghalf", GammaNegHalfN[k])
    [] name = "mlgamma.closed"  -> LET kk == MlgKs[((k - 1) \div 7) + 1] IN MlgammaClosed(MlgX2(kk)[((k - 1) % 7) + 1], kk)
    [] name = "gammap.tiny"     -> GammaTiny(<<1, 2, 3, 5>>[k])
    [] name = "gammap.edge"     -> GammaEdge(GammaEdgeList[k])
    [] name = "logerfc.asym"    -> LogErfcAsym(k)
    [] name = "besseli.gen"     -> BesGen(BesGenXs[k])
    [] name = "besseli.edge"    -> BesEdge(BesEdgeList[k])
    [] name = "logadd.inf"      -> LogInf(LogInfList[k])
    [] name = "class"           -> ClassCase(k)
    [] name = "mgamma.closed"   -> LET kk == MlgKs[((k - 1) \div 7) + 1] IN MgammaClosed(MlgX2(kk)[((k - 1) % 7) + 1], kk)

GFam(what)  == [a \in 1..Len(GIntAs)  |-> [s |-> GIntS(what, GIntAs[a]),   p |-> GIntP(GIntAs[a])]]
GHFam(what) == [a \in 1..Len(GHalfMs) |-> [s |-> GHalfS(what, GHalfMs[a]), p |-> GHalfP(GHalfMs[a])]]
IdFamilies == <<
  [s |-> DigammaRecS,  p |-> DigammaRecP],
  [s |-> DigammaReflS, p |-> DigammaReflP],
  [s |-> DigammaDupS,  p |-> DigammaDupP],
  [s |-> TrigammaRecS,  p |-> TrigammaRecP],
  [s |-> TrigammaReflS, p |-> TrigammaReflP],
  [s |-> TrigammaDupS,  p |-> TrigammaDupP],
  [s |-> GammaRecS,  p |-> GammaRecP],
  [s |-> GammaReflS, p |-> GammaReflP],
  [s |-> GammaDupS,  p |-> GammaDupP],
  [s |-> LgammaRecS, p |-> LgammaRecP],
  [s |-> LgammaLogS, p |-> LgammaLogP],
  [s |-> PolyDelegateS(0), p |-> PolyDelegateP],
  [s |-> PolyDelegateS(1), p |-> PolyDelegateP]
>> \o [a \in 1..Len(PolyNs) |-> [s |-> PolyRecS(PolyNs[a]),  p |-> PolyRecP(PolyNs[a])]]
   \o [a \in 1..Len(PolyNs) |-> [s |-> PolyReflS(PolyNs[a]), p |-> PolyReflP(PolyNs[a])]]
   \o [a \in 1..Len(PolyNs) |-> [s |-> PolyDupS(PolyNs[a]),  p |-> PolyDupP(PolyNs[a])]]
   \o [a \in 1..3 |-> [s |-> MlgammaSumS(a + 1), p |-> MlgammaSumP(a + 1)]]
   \o [a \in 1..3 |-> [s |-> MgammaLogS(a + 1),  p |-> MgammaLogP(a + 1)]]
   \o GFam("p") \o GFam("q") \o GFam("lower") \o GFam("upper") \o GFam("d1") \o GFam("d2")
   \o GHFam("p") \o GHFam("q") \o GHFam("d1")
   \o << [s |-> GammaPQS, p |-> GPointsAll], [s |-> GammaRecPS, p |-> GPointsAll], [s |-> GammaLUS, p |-> GPointsSmall],
          [s |-> GammaLPS, p |-> GPointsSmall], [s |-> GammaUQS, p |-> GPointsSmall], [s |-> GammaD1S, p |-> GPointsSmall],
          [s |-> GammaD2S, p |-> GPointsSmall],
          [s |-> LogErfcSmallS, p |-> LogErfcSmallP], [s |-> LogErfcMidS, p |-> LogErfcMidP],
          [s |-> BesRecS, p |-> BesRecP], [s |-> LogBesLogS, p |-> LogBesLogP], [s |-> LogBesRecS, p |-> LogBesRecP],
          [s |-> BesNegIntS, p |-> BesNegIntP],
          [s |-> LogAddLinS, p |-> LogAddLinP], [s |-> LogSubLinS, p |-> LogSubLinP],
          [s |-> LogAddRatS, p |-> RatPairs], [s |-> LogSubRatS, p |-> RatSubPairs] >>
   \o [a \in 1..Len(BesHalfNs) |-> [s |-> BesHalfS(BesHalfNs[a]), p |-> BesHalfP(BesHalfNs[a])]]
   \o [a \in 1..6 |-> [s |-> LogBesHalfS(a - 2), p |-> LogBesHalfP(a - 2)]]

CaseOf(gg, ff, k) ==
  IF gg = 1 THEN ValueCase(ValueFamilies[ff].name, k)
  ELSE IF gg = 2 THEN InstCase(IdFamilies[ff].s, IdFamilies[ff].p[k], "")
  ELSE IdFamilies[ff].s

Init == \/ /\ g = 1 /\ f \in 1..Len(ValueFamilies) /\ i \in 1..ValueFamilies[f].n
        \/ /\ g = 2 /\ f \in 1..Len(IdFamilies) /\ i \in 1..Len(IdFamilies[f].p)
        \/ /\ g = 3 /\ f \in 1..Len(IdFamilies) /\ i = 1
Next == UNCHANGED <<g, f, i>>
Spec == Init /\ [][Next]_<<g, f, i>>

Emit == PrintT(ToJson(CaseOf(g, f, i)))
=============================================================================
