------------------------------ MODULE MatrixView ------------------------------
(* C10 - views and transposes address exactly the elements they denote.

   CONTRACT (written from the property text, the README tables and the comment
   in matrix.go, not from the code):  a view is a word w over
        S(r0,r1,c0,c1)  |  T
   applied to an owner matrix of pr x pc cells (cell k = row-major number,
   holding the value Val(pat,k)).  Den(w)(i,j) is the parent coordinate the
   element (i,j) of the view denotes:
        Den(<<>>)(i,j)      = (i,j)
        Den(w o S(r0,..,c0,..))(i,j) = Den(w)(r0+i, c0+j)     "Slice(r0,r1,c0,c1).At(i,j) is At(r0+i,c0+j)"
        Den(w o T)(i,j)     = Den(w)(j,i)                      "T().At(i,j) is At(j,i)"
   Everything the conformance driver expects (rows, columns, diagonal, the
   elements of AsVector, iteration order, Tip on owners, write-through targets)
   is derived from Den in this module and PRINTED by TLC, one JSON object per
   (parent dims, word).

   MECHANISM (transcribed from matrix_dense_template.in / matrix_sparse_template.in,
   AFTER the fix commits of branch agent/c10): the dense header
   {rows, cols, rowOffset, rowMax, colOffset, colMax, transposed} with index(),
   SLICE, T, Tip, the iterator Ok/next, the ConstRow/ConstCol contiguity
   shortcuts, AsVector, Reset and the MarshalJSON re-packing condition; the
   sparse header (no transposed flag) whose T() re-keys the storage and whose
   iterator walks the storage keys clipped to the window.  TLC checks
   mechanism = contract in every reachable state. *)
EXTENDS Integers, Sequences, FiniteSets, TLC, Json, SequencesExt

CONSTANTS MaxR, MaxC,     \* owners of 1..MaxR x 1..MaxC cells
          MaxDepth,       \* length of the view word
          Slices,         \* FALSE: words of T only (larger owners for Tip)
          Emit,           \* print the cases
          Variant         \* "fixed": the code of branch agent/c10 (what every check run uses);
                          \* "orig": the mechanism as found at 64329c4, kept so that TLC reproduces
                          \* the design findings D1, D2, D3, Tip, S1 (checks/c10.py requires the violations)

VARIABLES pr, pc,         \* owner dimensions
          w,              \* the word (contract state)
          dims,           \* dimensions of the view (contract state)
          hd,             \* dense header (mechanism)
          sp              \* sparse header + storage keys (mechanism)
vars == <<pr, pc, w, dims, hd, sp>>

(* ------------------------------------------------------------------ contract *)
SOp(r0, r1, c0, c1) == [op |-> "S", a |-> r0, b |-> r1, c |-> c0, d |-> c1]
TOp == [op |-> "T", a |-> 0, b |-> 0, c |-> 0, d |-> 0]

RECURSIVE Den(_, _, _)
Den(word, i, j) ==
  IF Len(word) = 0 THEN <<i, j>>
  ELSE LET o == word[Len(word)]
           rest == SubSeq(word, 1, Len(word) - 1)
       IN IF o.op = "T" THEN Den(rest, j, i) ELSE Den(rest, o.a + i, o.c + j)

RECURSIVE DimsOf(_, _, _)
DimsOf(word, r, c) ==
  IF Len(word) = 0 THEN <<r, c>>
  ELSE LET o == word[Len(word)]
           d == DimsOf(SubSeq(word, 1, Len(word) - 1), r, c)
       IN IF o.op = "T" THEN <<d[2], d[1]>> ELSE <<o.b - o.a, o.d - o.c>>

Cell(word, i, j) == LET p == Den(word, i, j) IN p[1] * pc + p[2]
NCells == pr * pc
HasT(word) == \E n \in 1..Len(word) : word[n].op = "T"

(* values held by the owner: "f" all cells distinct and non-zero, "z" some zero *)
ZeroCells == {1, 3, 4, 8, 10, 15, 17, 18, 24, 29, 33}
Val(pat, k) == IF pat = "z" /\ k \in ZeroCells THEN 0 ELSE k + 1
Pats == {"f", "z"}

VR == dims[1]
VC == dims[2]
RowsOf(word, r, c) == [i \in 1..r |-> [j \in 1..c |-> Cell(word, i - 1, j - 1)]]
ColsOf(word, r, c) == [j \in 1..c |-> [i \in 1..r |-> Cell(word, i - 1, j - 1)]]
DiagOf(word, r, c) == IF r = c THEN [i \in 1..r |-> Cell(word, i - 1, i - 1)] ELSE <<>>
CellSet(word, r, c) == {Cell(word, i, j) : i \in 0..(r - 1), j \in 0..(c - 1)}
RowMajor(word, r, c) == [p \in 1..(r * c) |-> Cell(word, (p - 1) \div c, (p - 1) % c)]
ValRows(word, r, c, pat) == [i \in 1..r |-> [j \in 1..c |-> Val(pat, Cell(word, i - 1, j - 1))]]
(* iteration: row-major over the view, zero elements skipped *)
IterAll(word, r, c, pat) ==
  [p \in 1..(r * c) |-> <<(p - 1) \div c, (p - 1) % c, Val(pat, Cell(word, (p - 1) \div c, (p - 1) % c))>>]
NonZero(t) == t[3] # 0
IterSeq(word, r, c, pat) == SelectSeq(IterAll(word, r, c, pat), NonZero)
IterFromSeq(word, r, c, pat, i0, j0) ==
  LET Later(t) == t[3] # 0 /\ (t[1] > i0 \/ (t[1] = i0 /\ t[2] >= j0))
  IN SelectSeq(IterAll(word, r, c, pat), Later)

(* ---------------------------------------------------------- dense mechanism *)
Hdr(rows, cols, ro, rm, co, cm, tr) ==
  [rows |-> rows, cols |-> cols, ro |-> ro, rm |-> rm, co |-> co, cm |-> cm, tr |-> tr]

DIndex(h, i, j) == IF h.tr THEN (h.co + j) * h.rm + (h.ro + i)
                           ELSE (h.ro + i) * h.cm + (h.co + j)
DSlice(h, r0, r1, c0, c1) ==
  [h EXCEPT !.ro = h.ro + r0, !.rows = r1 - r0, !.co = h.co + c0, !.cols = c1 - c0]
DT(h) == Hdr(h.cols, h.rows, h.co, h.cm, h.ro, h.rm, ~h.tr)
(* the view is the whole storage (test used by Reset / AsVector / MarshalJSON) *)
Covers(h) == h.rows = h.rm /\ h.cols = h.cm

(* iterator: ITERATOR() = {m, 0, -1}; Next() = next(); for Ok() && GET() = 0 { next() } *)
DItOk(h, i, j) == IF Variant = "orig" THEN i < h.rm /\ j < h.cm
                  ELSE i < h.rows /\ j < h.cols
DItNext(h, i, j) == IF Variant = "orig" THEN (IF j = h.cm - 1 THEN <<i + 1, h.co>> ELSE <<i, j + 1>>)
                    ELSE IF j = h.cols - 1 THEN <<i + 1, 0>> ELSE <<i, j + 1>>
RECURSIVE DWalk(_, _, _, _, _)
DWalk(h, pat, i, j, fuel) ==
  IF fuel = 0 THEN <<<<-9, -9, -9>>>>                              \* does not terminate
  ELSE IF ~DItOk(h, i, j) THEN <<>>
  ELSE IF i < 0 \/ j < 0 \/ i >= h.rows \/ j >= h.cols THEN <<<<-1, -1, -1>>>>   \* GET panics in index()
  ELSE LET v == Val(pat, DIndex(h, i, j))                          \* dense storage: key k holds cell k
           n == DItNext(h, i, j)
       IN IF v = 0 THEN DWalk(h, pat, n[1], n[2], fuel - 1)
          ELSE <<<<i, j, v>>>> \o DWalk(h, pat, n[1], n[2], fuel - 1)
DIter(h, pat) == LET n == DItNext(h, 0, -1) IN DWalk(h, pat, n[1], n[2], 80)
DIterFrom(h, pat, i, j) == LET n == DItNext(h, i, j - 1) IN DWalk(h, pat, n[1], n[2], 80)

(* ConstRow / ConstCol: contiguous storage range when the layout allows it *)
DConstRow(h, i) == IF h.tr THEN [j \in 1..h.cols |-> DIndex(h, i, j - 1)]
                   ELSE [j \in 1..h.cols |-> DIndex(h, i, 0) + (j - 1)]
DConstCol(h, j) == IF h.tr THEN [i \in 1..h.rows |-> DIndex(h, 0, j) + (i - 1)]
                   ELSE [i \in 1..h.rows |-> DIndex(h, i - 1, j)]
(* MarshalJSON: re-pack through Set() unless the header is the plain owner *)
DJson(h) == IF h.tr \/ h.rm > h.rows \/ h.cm > h.cols
            THEN [p \in 1..(h.rows * h.cols) |-> DIndex(h, (p - 1) \div h.cols, (p - 1) % h.cols)]
            ELSE [p \in 1..(h.rows * h.cols) |-> p - 1]
(* AsVector / AsConstVector: the storage itself for an owner, a row-major copy for a proper view *)
DAsVector(h) == IF Covers(h) \/ Variant = "orig" THEN [p \in 1..(h.rm * h.cm) |-> p - 1]
                ELSE [p \in 1..(h.rows * h.cols) |-> DIndex(h, (p - 1) \div h.cols, (p - 1) % h.cols)]
(* Reset: storage keys that are zeroed *)
DReset(h) == IF Covers(h) \/ Variant = "orig" THEN 0..(h.rm * h.cm - 1)
             ELSE {DIndex(h, i, j) : i \in 0..(h.rows - 1), j \in 0..(h.cols - 1)}
(* Tip on a matrix that is its whole storage: the cycle-leader loop of the code,
     for cycle := 1; cycle < mn; cycle++ { if visited[cycle] {continue}; k = cycle
       for { if k != mn-1 {k = R*k % (mn-1)}; visited[k] = true; swap(values[k], values[cycle]); if k == cycle {break} } }
   R = number of rows of the STORAGE layout.  st[k] = cell found under storage key k. *)
RECURSIVE TipInner(_, _, _, _, _, _)
TipInner(st, vis, k, cyc, R, mn) ==
  LET k2 == IF k # mn - 1 THEN (R * k) % (mn - 1) ELSE k
      st2 == [st EXCEPT ![k2] = st[cyc], ![cyc] = st[k2]]
  IN IF k2 = cyc THEN <<st2, vis \cup {k2}>> ELSE TipInner(st2, vis \cup {k2}, k2, cyc, R, mn)
RECURSIVE TipOuter(_, _, _, _, _)
TipOuter(st, vis, cyc, R, mn) ==
  IF cyc >= mn THEN st
  ELSE IF cyc \in vis THEN TipOuter(st, vis, cyc + 1, R, mn)
  ELSE LET r == TipInner(st, vis, cyc, cyc, R, mn) IN TipOuter(r[1], r[2], cyc + 1, R, mn)
(* net effect the loop is meant to have: the element under key x moves to x*R mod (mn-1) *)
TipPerm(x, R, mn) == IF x = mn - 1 THEN x ELSE (x * R) % (mn - 1)
DTip(h) ==
  LET mn == h.rm * h.cm
      R  == IF h.tr /\ Variant # "orig" THEN h.cols ELSE h.rows
  IN [h |-> Hdr(h.cols, h.rows, h.co, h.cm, h.ro, h.rm, h.tr),
      st |-> TipOuter([k \in 0..(mn - 1) |-> k], {}, 1, R, mn)]

(* --------------------------------------------------------- sparse mechanism *)
(* header without transposed flag; st[k] = cell whose scalar is stored under key k *)
SIndex(h, i, j) == (h.ro + i) * h.cm + (h.co + j)
SIJ(h, k) == <<(k \div h.cm) - h.ro, (k % h.cm) - h.co>>
SSlice(s, r0, r1, c0, c1) == [s EXCEPT !.h = DSlice(s.h, r0, r1, c0, c1)]
(* T(): fresh storage, every stored key (I,J) of the rowMax x colMax storage re-keyed to (J,I) *)
ST(s) == LET h == s.h IN
  [h  |-> Hdr(h.cols, h.rows, h.co, h.cm, h.ro, h.rm, FALSE),
   st |-> [k2 \in 0..(NCells - 1) |-> s.st[(k2 % h.rm) * h.cm + (k2 \div h.rm)]]]
(* iterator: storage keys ascending from the first key of the window, zero entries are
   skipped by the vector iterator, keys outside the window are skipped, stop after the last row *)
RECURSIVE SWalk(_, _, _)
SWalk(s, pat, k) ==
  IF k >= NCells THEN <<>>
  ELSE LET v == Val(pat, s.st[k])
           ij == SIJ(s.h, k)
       IN IF v = 0 THEN SWalk(s, pat, k + 1)
          ELSE IF Variant = "orig" THEN <<<<ij[1], ij[2], v>>>> \o SWalk(s, pat, k + 1)
          ELSE IF ij[1] >= s.h.rows THEN <<>>
          ELSE IF ij[1] < 0 \/ ij[2] < 0 \/ ij[2] >= s.h.cols THEN SWalk(s, pat, k + 1)
          ELSE <<<<ij[1], ij[2], v>>>> \o SWalk(s, pat, k + 1)
SIter(s, pat) == SWalk(s, pat, IF Variant = "orig" THEN 0 ELSE s.h.ro * s.h.cm + s.h.co)
SIterFrom(s, pat, i, j) == SWalk(s, pat, SIndex(s.h, i, j))
SConstRow(s, i) == [j \in 1..s.h.cols |-> s.st[SIndex(s.h, i, 0) + (j - 1)]]
STip(s) ==
  LET h == s.h
      mn == h.rm * h.cm
  IN [h |-> Hdr(h.cols, h.rows, h.co, h.cm, h.ro, h.rm, FALSE),
      st |-> TipOuter(s.st, {}, 1, h.rows, mn)]

(* ------------------------------------------------------------------ machine *)
Init == /\ pr \in 1..MaxR /\ pc \in 1..MaxC
        /\ w = <<>> /\ dims = <<pr, pc>>
        /\ hd = Hdr(pr, pc, 0, pr, 0, pc, FALSE)
        /\ sp = [h |-> Hdr(pr, pc, 0, pr, 0, pc, FALSE), st |-> [k \in 0..(pr * pc - 1) |-> k]]

DoSlice == /\ Slices /\ Len(w) < MaxDepth
           /\ \E r0 \in 0..dims[1], r1 \in 0..dims[1], c0 \in 0..dims[2], c1 \in 0..dims[2] :
                /\ r0 <= r1 /\ c0 <= c1
                /\ w' = Append(w, SOp(r0, r1, c0, c1))
                /\ dims' = <<r1 - r0, c1 - c0>>
                /\ hd' = DSlice(hd, r0, r1, c0, c1)
                /\ sp' = SSlice(sp, r0, r1, c0, c1)
           /\ UNCHANGED <<pr, pc>>
DoT == /\ Len(w) < MaxDepth
       /\ w' = Append(w, TOp) /\ dims' = <<dims[2], dims[1]>>
       /\ hd' = DT(hd) /\ sp' = ST(sp)
       /\ UNCHANGED <<pr, pc>>
Next == DoSlice \/ DoT
Spec == Init /\ [][Next]_vars

(* --------------------------------------------------- mechanism = contract *)
In(i, j) == i \in 0..(VR - 1) /\ j \in 0..(VC - 1)
DimsOK == /\ dims = DimsOf(w, pr, pc)
          /\ hd.rows = VR /\ hd.cols = VC /\ sp.h.rows = VR /\ sp.h.cols = VC
Sane(h) == /\ h.ro >= 0 /\ h.co >= 0 /\ h.rows >= 0 /\ h.cols >= 0
           /\ h.ro + h.rows <= h.rm /\ h.co + h.cols <= h.cm /\ h.rm * h.cm = NCells
HeaderSane == Sane(hd) /\ Sane(sp.h)
Injective == Cardinality(CellSet(w, VR, VC)) = VR * VC
InParent == \A i \in 0..(VR - 1), j \in 0..(VC - 1) :
              LET p == Den(w, i, j) IN p[1] \in 0..(pr - 1) /\ p[2] \in 0..(pc - 1)
IndexOK == \A i \in 0..(VR - 1), j \in 0..(VC - 1) :
             /\ DIndex(hd, i, j) = Cell(w, i, j)
             /\ sp.st[SIndex(sp.h, i, j)] = Cell(w, i, j)
             /\ SIJ(sp.h, SIndex(sp.h, i, j)) = <<i, j>>
IterOK == \A pat \in Pats :
             /\ DIter(hd, pat) = IterSeq(w, VR, VC, pat)
             /\ SIter(sp, pat) = IterSeq(w, VR, VC, pat)
             /\ \A i \in 0..(VR - 1), j \in 0..(VC - 1) :
                  /\ DIterFrom(hd, pat, i, j) = IterFromSeq(w, VR, VC, pat, i, j)
                  /\ SIterFrom(sp, pat, i, j) = IterFromSeq(w, VR, VC, pat, i, j)
DIterOK == \A pat \in Pats : DIter(hd, pat) = IterSeq(w, VR, VC, pat)
SIterOK == \A pat \in Pats : SIter(sp, pat) = IterSeq(w, VR, VC, pat)
RowColOK == /\ \A i \in 0..(VR - 1) : /\ DConstRow(hd, i) = RowsOf(w, VR, VC)[i + 1]
                                       /\ SConstRow(sp, i) = RowsOf(w, VR, VC)[i + 1]
            /\ \A j \in 0..(VC - 1) : DConstCol(hd, j) = ColsOf(w, VR, VC)[j + 1]
JsonOK == DJson(hd) = RowMajor(w, VR, VC)
VecOK == LET v == DAsVector(hd) IN
           /\ Len(v) = VR * VC
           /\ {v[p] : p \in 1..Len(v)} = CellSet(w, VR, VC)
ResetOK == DReset(hd) = CellSet(w, VR, VC)
TipLoopOK == Covers(hd) =>
  LET mn == NCells
      R  == IF hd.tr THEN hd.cols ELSE hd.rows
      st == TipOuter([k \in 0..(mn - 1) |-> k], {}, 1, R, mn)
  IN \A x \in 0..(mn - 1) : st[TipPerm(x, R, mn)] = x
TW == Append(w, TOp)
TipOK == Covers(hd) =>
           /\ LET r == DTip(hd) IN
                \A i \in 0..(VC - 1), j \in 0..(VR - 1) : r.st[DIndex(r.h, i, j)] = Cell(TW, i, j)
           /\ LET r == STip(sp) IN
                \A i \in 0..(VC - 1), j \in 0..(VR - 1) : r.st[SIndex(r.h, i, j)] = Cell(TW, i, j)

(* ------------------------------------------------------------- the cases *)
Mid == <<VR \div 2, VC \div 2>>
Case ==
  [pr |-> pr, pc |-> pc, w |-> w, vr |-> VR, vc |-> VC,
   own |-> Covers(hd),                                  \* the view is its whole storage: Tip is constrained
   hasT |-> HasT(w),
   den |-> RowsOf(w, VR, VC),                           \* parent cell of every (i,j) = write-through target
   cols |-> ColsOf(w, VR, VC),
   diag |-> [sq |-> VR = VC, d |-> DiagOf(w, VR, VC)],
   vec |-> SetToSortSeq(CellSet(w, VR, VC), <),         \* elements of AsVector (order unspecified)
   par |-> [pat \in Pats |-> [k \in 1..NCells |-> Val(pat, k - 1)]],
   val |-> [pat \in Pats |-> ValRows(w, VR, VC, pat)],
   it  |-> [pat \in Pats |-> IterSeq(w, VR, VC, pat)],
   itfrom |-> [i |-> Mid[1], j |-> Mid[2],
               s |-> [pat \in Pats |-> IF VR * VC = 0 THEN <<>> ELSE IterFromSeq(w, VR, VC, pat, Mid[1], Mid[2])]],
   tip |-> IF Covers(hd) THEN RowsOf(TW, VC, VR) ELSE <<>>]
EmitCase == Emit => PrintT(ToJson(Case))
=============================================================================
