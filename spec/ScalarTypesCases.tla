--------------------------- MODULE ScalarTypesCases ---------------------------
(***************************************************************************)
(* Case enumeration for property C02 over the contract ScalarTypes.tla     *)
(* (values, conversions, integer ring, order) and the meaning tables of    *)
(* Expr.tla (real-valued operations).                                      *)
(*                                                                         *)
(* state graph:  start --> group --> done.   A group is (class, operation, *)
(* receiver type); expanding a group state prints every case of the group  *)
(* together with the result the specification demands (field `exp`):       *)
(*    {k:"int"|"rat"|"tok"|"huge"}  exactly this value                     *)
(*    {k:"term", e: term}            the meaning term over x_1, x_2, ...    *)
(*                                   (x_i = the i-th operand's own value)   *)
(*    {k:"bool"|"sign", n}           result of a comparison / of Sign       *)
(*    {k:"panic"}                    a run-time panic is allowed (either    *)
(*                                   outcome passes)                       *)
(*    {k:"any"}                      unconstrained (DESIGN 3.6)             *)
(*    {k:"idef"}                     implementation-defined by the Go spec  *)
(* and, for conversions and constructors, `ty`: the dynamic type demanded.  *)
(*                                                                         *)
(* Quantifier: operation x receiver type (9 writable types; all 16 for the  *)
(* read-only operations) x operand types (16, ordered pairs for binary      *)
(* operations) x value grid.  Unary, read-only, setter, parametrised,       *)
(* reduction, conversion and constructor cases are enumerated completely.   *)
(* Binary cases (ring, Min/Max, Pow, LogAdd, LogSub) form a space of        *)
(* 9 x 256 x |grid|^2 per operation: the CORE (operands of one type, or one *)
(* operand of the receiver's type: every operand type meets every receiver  *)
(* in both positions, every grid value of it at least once) is always       *)
(* printed; the rest is a covering sample, one K-th of it selected by a     *)
(* hash of the coordinates shifted by Seed (different seeds = different     *)
(* slices; K = 1 prints the whole space).                                  *)
(***************************************************************************)
EXTENDS ScalarTypes, Json, FiniteSets

CONSTANTS Seed,     \* shifts the sample
          K,        \* one K-th of the non-core binary cases is printed
          Rich,     \* 1: larger value subsets for the comparison / ring / binary function classes
          Part      \* "all" or one group class (to split large runs)

VARIABLES ph, grp
vars == <<ph, grp>>

(* ---------------------------------------------------------- the value grid *)
G == << VI(0), VI(1), VI(-1), VI(2), VI(-2), VI(3), VI(-3), VI(5), VI(7), VI(10), VI(-10),            \*  1..11
        VI(20), VI(30), VI(-40), VI(100), VI(-100),                                                   \* 12..16
        VI(127), VI(-128), VI(128), VI(-129), VI(200), VI(255), VI(256),                              \* 17..23
        VI(32767), VI(-32768), VI(32768), VI(-32769), VI(65535), VI(65536), VI(16777217),             \* 24..30
        VInt(MaxOf(32)), VInt(MinOf(32)), VInt(P2B(31)), VInt(BSub(MinOf(32), One8)), VInt(P2B(32)),  \* 31..35
        VInt(P2B(53)), VInt(BAdd(P2B(53), One8)), VInt(P2B(62)), VInt(MaxOf(64)), VInt(MinOf(64)),    \* 36..40
        VRat(1, 2), VRat(-1, 2), VRat(1, 4), VRat(3, 2), VRat(-3, 2), VRat(5, 2), VRat(-5, 2),        \* 41..47
        VRat(7, 4), VRat(255, 2), VRat(-257, 2), VRat(257, 2), VRat(33554433, 33554432),              \* 48..52
        NZero, PInf, NInf_, NaN,                                                                      \* 53..56
        VHuge(1, 63), VHuge(1, 100), VHuge(-1, 100), VHuge(1, 200),                                   \* 57..60
        \* subnormal and near-overflow magnitudes: 2^-1074 (smallest binary64 subnormal), 2^-1030
        \* (subnormal: its reciprocal overflows), 2^-1022 (smallest normal), the binary32 counterparts
        \* 2^-149, 2^-126, and 2^127, 2^1023 (the largest powers of two), -2^-1030
        VTiny(1, 1074), VTiny(1, 1030), VTiny(1, 1022), VTiny(1, 149), VTiny(1, 126),                 \* 61..65
        VHuge(1, 127), VHuge(1, 1023), VTiny(-1, 1030) >>                                             \* 66..68
NG == Len(G)
Tiny == 52        \* 1 + 2^-25: differs from 1 by less than the Equals epsilon

RECURSIVE SortedSeq(_)
SortedSeq(S) == IF S = {} THEN <<>>
                ELSE LET m == CHOOSE x \in S : \A y \in S : x <= y IN <<m>> \o SortedSeq(S \ {m})

TB == AllTypes \cup BaseTypes
ValsOf == [T \in TB |-> SortedSeq({i \in 1..NG : Holds(T, G[i])})]

\* subsets of the grid used by the operation classes (as index sets)
MoreIf(S) == IF Rich = 1 THEN S ELSE {}
CmpSet   == {1, 3, 4, 7, 17, 18, 19, 21, 25, 31, 32, 33, 39, 40, 41, 47, 49, 50, 53, 54, 55, 56, 62, 64}
            \cup MoreIf({2, 9, 20, 24, 30, 34, 36, 37, 51, 57, 59})
RingSet  == {1, 2, 3, 4, 7, 9, 17, 18, 19, 24, 32, 39, 40, 41, 47, 53, 54, 56, 61, 62, 63, 64, 65, 66, 67}
            \cup MoreIf({5, 15, 20, 25, 31, 35, 38, 44, 49, 55, 57})
MathSet  == {1, 2, 3, 4, 5, 6, 8, 41, 42, 43, 44, 45, 46, 48, 53, 54, 55, 56, 62, 64, 66, 67}
MathXtra(op) == CASE op = "Log1pExp" -> {10, 12, 13, 14, 15, 16}       \* the branches -37, 18, 33.3
                  [] op \in {"Exp", "Sinh", "Cosh", "Tanh", "Logistic", "Sigmoid"} -> {10, 11, 12}
                  [] op \in {"Erf", "Erfc", "LogErfc"} -> {7, 10, 11}
                  [] op \in {"Sqrt", "Log", "Log1p"} -> {7, 10, 11, 15, 29}      \* also below the domain
                  [] op = "Lgamma" -> {7, 10, 12, 15, 29, 47, 50}     \* poles, both signs of Gamma, large arguments
                  [] op = "Gamma" -> {7, 10, 12, 13, 15, 47, 50}
                  [] OTHER -> {}
Math2Set == {1, 2, 3, 4, 5, 6, 15, 21, 41, 42, 44, 54, 55, 56} \cup MoreIf({7, 8, 10, 43, 46, 53, 62, 67})
Pick(T, S) == SortedSeq({i \in S : Holds(T, G[i])})
CmpVals  == [T \in AllTypes |-> Pick(T, CmpSet)]
RingVals == [T \in AllTypes |-> Pick(T, RingSet)]
Math2Vals == [T \in AllTypes |-> Pick(T, Math2Set)]

(* ------------------------------------------------------------ operations *)
ExactUnOps == <<"Set", "Neg", "Abs">>
RingOps    == <<"Add", "Sub", "Mul", "Div", "Min", "Max">>
Math1Ops   == <<"Sqrt", "Sin", "Sinh", "Cos", "Cosh", "Tan", "Tanh", "Exp", "Log", "Log1p", "Log1pExp",
                "Logistic", "Sigmoid", "Erf", "Erfc", "LogErfc", "Gamma", "Lgamma">>
Math2Ops   == <<"Pow", "LogAdd", "LogSub">>
ParOps     == <<"Mlgamma", "GammaP", "BesselI", "LogBesselI">>
VecOps     == <<"Vmean", "VdotV", "Vnorm", "SmoothMax", "LogSmoothMax", "Mtrace", "Mnorm">>
SeqSet(s)  == {s[i] : i \in 1..Len(s)}
OpIdx(s, op) == CHOOSE i \in 1..Len(s) : s[i] = op
WSeq == SortedSeq({TIdx(T) : T \in WritableTypes})       \* receivers in table order

(* ---------------------------------------------------------------- groups *)
Grp(c, op, t) == [c |-> c, op |-> op, t |-> t]
NoGrp == Grp("-", "-", "-")
AllGroups ==
  {Grp("un", op, R)    : op \in SeqSet(ExactUnOps), R \in WritableTypes} \cup
  {Grp("self", "-", T) : T \in AllTypes} \cup
  {Grp("setter", "-", R) : R \in WritableTypes} \cup
  {Grp("cmp", "-", T)  : T \in AllTypes} \cup
  {Grp("ring", op, R)  : op \in SeqSet(RingOps), R \in WritableTypes} \cup
  {Grp("math1", op, R) : op \in SeqSet(Math1Ops), R \in WritableTypes} \cup
  {Grp("math2", op, R) : op \in SeqSet(Math2Ops), R \in WritableTypes} \cup
  {Grp("param", op, R) : op \in SeqSet(ParOps), R \in WritableTypes} \cup
  {Grp("vec", op, R)   : op \in SeqSet(VecOps), R \in WritableTypes} \cup
  {Grp("conv", "-", T) : T \in AllTypes} \cup
  {Grp("new", "-", T)  : T \in AllTypes} \cup
  {Grp("pkg", "-", "-")}
\* the group "contract" evaluates ContractOK (below): inside an action, because TLC caches operator
\* arguments only while it evaluates a next-state relation (the long division is exponential without)
Groups == (IF Part = "all" THEN AllGroups ELSE {g \in AllGroups : g.c = Part}) \cup {Grp("contract", "-", "-")}

(* ----------------------------------------------------------------- cases *)
Arg(T, v) == [t |-> T, v |-> v]
NoVec == <<>>
\* g: class, op, r: receiver type ("" = none), args: operands <<[t, v]>>, par: numeric parameter,
\* vec/vec2: vector operands (values of element type et; a matrix is its rows concatenated, vec2 = <<rows>>),
\* exp: demanded result, ty: demanded dynamic type ("" = not applicable)
Case(c, op, r, args, par, exp, ty) ==
  IF par = VZero THEN [g |-> c, op |-> op, r |-> r, args |-> args, exp |-> exp, ty |-> ty]
  ELSE [g |-> c, op |-> op, r |-> r, args |-> args, par |-> par, exp |-> exp, ty |-> ty]
PCase(c, op, r, args, par, exp) == [g |-> c, op |-> op, r |-> r, args |-> args, par |-> par, exp |-> exp, ty |-> ""]
VCase(op, r, et, st, vec, vec2, par, exp) ==
  [g |-> "vec", op |-> op, r |-> r, par |-> par, et |-> et, st |-> st, vec |-> vec, vec2 |-> vec2, exp |-> exp]
Emit(c) == PrintT(ToJson(c))

\* the type in which receiver R evaluates a real-valued function of its operands
EvalType(R) == IF Cls(R) = "float" THEN R ELSE "float64"
\* the view overflowed / is not the operand any more: nothing is demanded
Lost(own, x) == (IsInfV(x) /\ ~IsInfV(own)) \/ x.k = "idef" \/ (own.k = "tiny" /\ x.k # "tiny")    \* (underflow to 0)

(* -- modelled known deviations (known_findings.d/C02.json): what the code is known to compute instead.
      A case carries `dev` next to `exp`; an observation that misses `exp` is the known finding only if it
      equals `dev` (DESIGN 6.2).  They are printed for every receiver type; the findings name the Real types. *)
WithDev(c, d) == c @@ [dev |-> d]
\* Log1pExp, 18 < x <= 33.3: exp(x) + x   (the branch exponentiates the argument, not the negated receiver)
KnownDeviation_Log1pExp(a) == Add(Exp(a), a)
InLog1pExpBranch3(v) == v.k = "int" /\ LtV(VI(18), v) /\ LtV(v, VI(34))
\* LogSmoothMax: the log-scale numerator starts at log 1, i.e. the numerator is 1 too large
KnownDeviation_LogSmoothMax(s, alpha) ==
  DivV(Add(One, SumTerms([k \in 1..Len(s) |-> MulV(s[k], Exp(MulV(Q(alpha), s[k])))])),
       SumTerms([k \in 1..Len(s) |-> Exp(MulV(Q(alpha), s[k]))]))
\* Sqrt computed as Pow(x, 1/2): pow(-Inf, 1/2) = +Inf (known finding C02-real-sqrt-neginf)
KnownDeviation_SqrtNegInf == PInf
\* type-specific ABS on a fresh (non-negative) receiver: the argument itself
KnownDeviation_ABS(x) == x

(* -- un: Set, Neg, Abs ------------------------------------------------- *)
EmitUn(op, R) ==
  \A T \in AllTypes : \A p \in 1..Len(ValsOf[T]) :
    LET v == G[ValsOf[T][p]]
        c == Case("un", op, R, <<Arg(T, v)>>, VZero, UnaryExact(op, R, v, View(R, T, v)), "")
    IN IF op = "Abs" /\ T = R /\ IsKnown(v) /\ ~IsNaN(v) /\ NegBit(v)
       THEN Emit(WithDev(c, KnownDeviation_ABS(v))) ELSE Emit(c)

(* -- self: Sign, getters, clones ---------------------------------------- *)
Getter(B) == CASE B = "int8" -> "GetInt8" [] B = "int16" -> "GetInt16" [] B = "int32" -> "GetInt32"
               [] B = "int64" -> "GetInt64" [] B = "int" -> "GetInt" [] B = "float32" -> "GetFloat32"
               [] B = "float64" -> "GetFloat64"
Setter(B) == CASE B = "int8" -> "SetInt8" [] B = "int16" -> "SetInt16" [] B = "int32" -> "SetInt32"
               [] B = "int64" -> "SetInt64" [] B = "int" -> "SetInt" [] B = "float32" -> "SetFloat32"
               [] B = "float64" -> "SetFloat64"
EmitSelf(T) ==
  \A p \in 1..Len(ValsOf[T]) :
    LET v == G[ValsOf[T][p]]  a == <<Arg(T, v)>> IN
    /\ Emit(Case("self", "Sign", "", a, VZero, SignRes(v), ""))
    /\ \A B \in BaseTypes : Emit(Case("self", Getter(B), "", a, VZero, Convert(T, B, v), B))
    /\ Emit(Case("self", "CloneConstScalar", "", a, VZero, v, T))
    /\ (T \in WritableTypes => Emit(Case("self", "CloneScalar", "", a, VZero, v, T)))
    /\ (T \in MagicTypes => Emit(Case("self", "CloneMagicScalar", "", a, VZero, v, T)))

(* -- setter: SetInt8 .. SetFloat64 --------------------------------------- *)
EmitSetter(R) ==
  /\ Emit(Case("setter", "Reset", R, <<>>, VZero, VZero, ""))
  /\ \A B \in BaseTypes : \A p \in 1..Len(ValsOf[B]) :
    LET v == G[ValsOf[B][p]] IN
    Emit(Case("setter", Setter(B), R, <<Arg(B, v)>>, VZero, Convert(B, R, v), ""))

(* -- sampling of the binary spaces ---------------------------------------- *)
Hash(o, r, t1, t2, p, q) == (((((o * 37 + r) * 41 + t1) * 43 + t2) % 99991) * 47 + p) * 53 + q
\* core: operands of the receiver's own type completely; operands of one type, or one operand of the
\* receiver's type: a diagonal family of value pairs (every value of either operand occurs: the value
\* lists have at least CoreStep entries or are covered by the own-type block)
CoreStep == 7
Selected(o, R, T1, T2, p, q) ==
  \/ (T1 = T2 /\ T1 = R)
  \/ ((T1 = T2 \/ T1 = R \/ T2 = R) /\ (p + 2 * q + TIdx(T1) + TIdx(T2) + o) % CoreStep = 0)
  \/ (Hash(o, TIdx(R), TIdx(T1), TIdx(T2), p, q) + Seed) % K = 0

(* -- cmp: Greater, Smaller, Equals (epsilon 1/8) -------------------------- *)
\* Equals(b, epsilon) is demanded where its three readings agree: comparing in the receiver's
\* representation (y: the operand's view), comparing the operands' own values (vb), and comparing
\* both after conversion to float64 (epsilon is a float64)
EqualsRes(Ta, x, Tb, vb, y) ==
  LET ZT(v) == IF v.k = "tiny" THEN VZero ELSE v     \* far below epsilon = 1/8
      c == Cmp(ZT(x), ZT(y)) IN
  IF c = "na" THEN Undef(x, y)
  ELSE IF y # vb \/ Convert(Ta, "float64", x) # x \/ Convert(Tb, "float64", vb) # vb THEN AnyRes
  ELSE VBool(c = "eq")     \* distinct grid values differ by >= 1/4
EmitCmp(Ta) ==
  \A Tb \in AllTypes : \A p \in 1..Len(CmpVals[Ta]) : \A q \in 1..Len(CmpVals[Tb]) :
    (Ta = Tb \/ (p + 2 * q + TIdx(Tb)) % 3 = 0 \/ (Hash(20, TIdx(Ta), TIdx(Tb), 1, p, q) + Seed) % K = 0) =>
    LET va == G[CmpVals[Ta][p]]  vb == G[CmpVals[Tb][q]]
        y  == View(Ta, Tb, vb)
        a  == <<Arg(Ta, va), Arg(Tb, vb)>>
    IN /\ Emit(Case("cmp", "Greater", "", a, VZero, GreaterRes(va, y), ""))
       /\ Emit(Case("cmp", "Smaller", "", a, VZero, SmallerRes(va, y), ""))
       /\ Emit(Case("cmp", "Equals", "", a, VRat(1, 8), EqualsRes(Ta, va, Tb, vb, y), ""))

(* -- ring: Add Sub Mul Div Min Max ----------------------------------------- *)
RingExp(op, R, v1, v2, x, y) ==
  IF Cls(R) = "int" /\ op = "Div" /\ y = VZero THEN PanicRes
  ELSE IF x.k = "idef" \/ y.k = "idef" THEN IDef
  ELSE IF op = "Min" THEN MinRes(x, y)
  ELSE IF op = "Max" THEN MaxRes(x, y)
  ELSE IF Cls(R) = "int" THEN IntRing(op, R, x, y)
  ELSE IF Lost(v1, x) \/ Lost(v2, y) THEN AnyRes
  ELSE LET s == Special2(op, x, y) IN
       IF s # NoSpecial THEN s ELSE VTerm(Meaning2(op, X(1), X(2)))
EmitRing(op, R) ==
  LET o == OpIdx(RingOps, op) IN
  \A T1 \in AllTypes : \A T2 \in AllTypes :
    \A p \in 1..Len(RingVals[T1]) : \A q \in 1..Len(RingVals[T2]) :
      Selected(o, R, T1, T2, p, q) =>
        LET v1 == G[RingVals[T1][p]]  v2 == G[RingVals[T2][q]] IN
        Emit(Case("ring", op, R, <<Arg(T1, v1), Arg(T2, v2)>>, VZero,
                  RingExp(op, R, v1, v2, View(R, T1, v1), View(R, T2, v2)), ""))

(* -- math1: real-valued unary functions ------------------------------------- *)
Math1Exp(op, R, v, x) ==
  IF Lost(v, x) THEN AnyRes
  ELSE LET s == Special1(op, x) IN
       IF s # NoSpecial
       THEN (IF Cls(R) = "int" /\ s.k = "tok" THEN IDef
             ELSE IF s = AnyRes /\ Cls(R) = "float" THEN AgreeRes ELSE s)
       ELSE IF ~InDomain1(op, x) THEN (IF Cls(R) = "float" THEN AgreeRes ELSE AnyRes)
       ELSE VTerm(Meaning1(op, X(1)))
Math1Vals == [op \in SeqSet(Math1Ops) |-> [T \in AllTypes |-> Pick(T, MathSet \cup MathXtra(op))]]
Composite1 == {"Log1pExp", "Logistic", "Sigmoid"}
EmitMath1(op, R) ==
  \A T \in AllTypes :
    \A p \in 1..Len(Math1Vals[op][T]) :
      LET v == G[Math1Vals[op][T][p]]
          x == View(EvalType(R), T, v)
      IN \* integer receivers: integer operands only (the operand then is the same number in the
         \* receiver's representation), small ones for the operations that are compositions of
         \* other operations (every intermediate result is an integer of the receiver's type);
         \* everybody: inside the domain
         (/\ (Cls(R) = "int" => v.k = "int" /\ (op \in Composite1 => SmallB(v.b) /\ RAbs(ToInt(v.b)) <= 3))
          /\ (Cls(R) = "int" => IsSpecialOperand(x) \/ Lost(v, x) \/ InDomain1(op, x)))
         => LET c == Case("math1", op, R, <<Arg(T, v)>>, VZero, Math1Exp(op, R, v, x), "")
            IN IF op = "Log1pExp" /\ InLog1pExpBranch3(v)
               THEN Emit(WithDev(c, VTerm(KnownDeviation_Log1pExp(X(1)))))
               ELSE IF op = "Sqrt" /\ x = NInf_ /\ Cls(R) = "float"
               THEN Emit(WithDev(c, KnownDeviation_SqrtNegInf))
               ELSE Emit(c)

(* -- math2: Pow, LogAdd, LogSub ---------------------------------------------- *)
Math2Exp(op, R, v1, v2, x, y) ==
  IF Lost(v1, x) \/ Lost(v2, y) THEN AnyRes
  ELSE LET s == Special2(op, x, y) IN
       IF s # NoSpecial
       THEN (IF Cls(R) = "int" /\ s.k = "tok" THEN IDef ELSE s)
       ELSE VTerm(Meaning2(op, X(1), X(2)))
EmitMath2(op, R) ==
  LET o == 10 + OpIdx(Math2Ops, op) IN
  \A T1 \in AllTypes : \A T2 \in AllTypes :
    \A p \in 1..Len(Math2Vals[T1]) : \A q \in 1..Len(Math2Vals[T2]) :
      LET v1 == G[Math2Vals[T1][p]]  v2 == G[Math2Vals[T2][q]]
          x  == View(EvalType(R), T1, v1)  y == View(EvalType(R), T2, v2)
      IN (/\ Selected(o, R, T1, T2, p, q)
          /\ (Cls(R) = "int" => v1.k = "int" /\ v2.k = "int")
          /\ (Special2(op, x, y) # NoSpecial \/ InDomain2(op, x, y)))
         => Emit(Case("math2", op, R, <<Arg(T1, v1), Arg(T2, v2)>>, VZero, Math2Exp(op, R, v1, v2, x, y), ""))

(* -- pkg: the float64 functions logarithmetic.LogAdd / LogSub and special.LogErfc ---------- *)
Math2ValsF == Pick("float64", Math2Set)
LogErfcValsF == Pick("float64", MathSet \cup MathXtra("LogErfc"))
EmitPkg ==
  /\ \A op \in {"LogAdd", "LogSub"} : \A p \in 1..Len(Math2ValsF) : \A q \in 1..Len(Math2ValsF) :
       LET v1 == G[Math2ValsF[p]]  v2 == G[Math2ValsF[q]] IN
       (Special2(op, v1, v2) # NoSpecial \/ InDomain2(op, v1, v2)) =>
         Emit(Case("pkg", op, "", <<Arg("float64", v1), Arg("float64", v2)>>, VZero,
                   Math2Exp(op, "Float64", v1, v2, v1, v2), ""))
  /\ \A p \in 1..Len(LogErfcValsF) :
       LET v == G[LogErfcValsF[p]] IN
       Emit(Case("pkg", "LogErfc", "", <<Arg("float64", v)>>, VZero, Math1Exp("LogErfc", "Float64", v, v), ""))

(* -- param: Mlgamma(x, k), GammaP(a, x), BesselI(v, x), LogBesselI(v, x) ------ *)
ParSet(op) == IF op = "Mlgamma" THEN {VI(1), VI(2), VI(3)}
              ELSE IF op = "GammaP" THEN {VRat(1, 2), VI(1), VI(2)}
              ELSE {VI(0), VRat(1, 2), VI(1)}
ParArgSet(op) == IF op = "Mlgamma" THEN {4, 6, 8, 46} ELSE {2, 4, 6, 41, 44}
RatOfV(v) == IF v.k = "int" THEN RInt(ToInt(v.b)) ELSE [n |-> v.n, d |-> v.d]
ParVals == [op \in SeqSet(ParOps) |-> [T \in AllTypes |-> Pick(T, ParArgSet(op))]]
EmitParam(op, R) ==
  \A T \in AllTypes : \A par \in ParSet(op) :
    \A p \in 1..Len(ParVals[op][T]) :
      LET v == G[ParVals[op][T][p]] IN
      (Cls(R) = "int" => v.k = "int") =>
      Emit(PCase("param", op, R, <<Arg(T, v)>>, par, VTerm(MeaningP(op, RatOfV(par), X(1)))))

(* -- vec: reductions over dense vectors / matrices of element type ET -------- *)
\* vectors as grid indices (index 1 is the value 0): exact zeros leading, interior, trailing, all-zero
IntVecs  == << <<4>>, <<8, 6>>, <<2, 4, 6>>, <<1, 5>>, <<7, 4, 2>>, <<3, 9>>,
               <<1, 2>>, <<2, 1, 4>>, <<6, 1>>, <<1, 1>>, <<1>> >>
FltVecs  == << <<41, 44>>, <<43, 2, 46>>, <<45, 4>>, <<1, 41>>, <<44, 1, 43>> >>
IntVecs2 == << <<6>>, <<2, 7>>, <<3, 2, 4>>, <<4, 4>>, <<2, 3, 8>>, <<8, 5>>,
               <<4, 6>>, <<2, 8, 1>>, <<1, 3>>, <<2, 4>>, <<6>> >>
FltVecs2 == << <<44, 41>>, <<4, 46, 42>>, <<43, 48>>, <<43, 1>>, <<2, 44, 41>> >>
PosVecs  == << <<4>>, <<4, 6>>, <<2, 4, 6>>, <<6, 2>>, <<1, 2>>, <<2, 1, 4>>, <<6, 1>>, <<1, 1>>, <<1>> >>   \* entries >= 0
PosFlt   == << <<41, 44>>, <<43, 2, 46>>, <<2, 8>>, <<1, 41>>, <<44, 1, 43>> >>
\* spreads beyond the range of exp (100, 200, 32767): alpha * (max - min) > 88.7 (binary32) / 709.8 (binary64)
PosBig   == << <<1, 15>>, <<15, 21>>, <<1, 24>>, <<24, 1, 15>> >>
Mats     == << <<4, 3, 2, 6>>, <<2, 1, 1, 2>>, <<7, 4, 8, 2>>, <<1, 2, 4, 1>>, <<1, 1, 1, 6>> >>   \* 2x2, row major
FltMats  == << <<41, 44, 4, 43>>, <<1, 41, 44, 1>> >>
Storages == {"dense", "sparse"}
ValsAt(s) == [k \in 1..Len(s) |-> G[s[k]]]
XSeq(a, n) == [k \in 1..n |-> X(a + k)]
\* SmoothMax / LogSmoothMax: the exp-weighted mean  sum x_i w_i / sum w_i,  w_i = exp(alpha x_i).  Multiplying all
\* weights by exp(-alpha x_m) does not change it; with m an entry of largest alpha x_i every exponent is <= 0, so
\* the same number can be evaluated whatever the spread (the specification knows the operand values)
SmoothMaxShifted(s, alpha, m) ==
  DivV(SumTerms([k \in 1..Len(s) |-> MulV(s[k], Exp(MulV(Q(alpha), Sub(s[k], s[m]))))]),
       SumTerms([k \in 1..Len(s) |-> Exp(MulV(Q(alpha), Sub(s[k], s[m])))]))
AlphaX(alpha, v) == RMul(alpha, RatOfV(v))
ArgTop(vals, alpha) == CHOOSE k \in 1..Len(vals) : \A j \in 1..Len(vals) : ~RLt(AlphaX(alpha, vals[k]), AlphaX(alpha, vals[j]))
TopAlphaX(vals, alpha) == AlphaX(alpha, vals[ArgTop(vals, alpha)])
MinOfVals(vals) == vals[CHOOSE k \in 1..Len(vals) : \A j \in 1..Len(vals) : ~LtV(vals[j], vals[k])]
MaxOfVals(vals) == vals[CHOOSE k \in 1..Len(vals) : \A j \in 1..Len(vals) : ~LtV(vals[k], vals[j])]
VecExpTerm(op, vals, alpha) ==
  LET n == Len(vals) IN
  IF op \in {"Mtrace", "Mnorm"}
  THEN MeaningM(op, << <<X(1), X(2)>>, <<X(3), X(4)>> >>)
  ELSE IF op \in {"SmoothMax", "LogSmoothMax"} /\ RLt(RInt(40), TopAlphaX(vals, alpha))
  THEN SmoothMaxShifted(XSeq(0, n), alpha, ArgTop(vals, alpha))
  ELSE MeaningV(op, XSeq(0, n), XSeq(n, n), alpha)
EmitVec(op, R) ==
  \A ET \in WritableTypes :
    LET fl == Cls(ET) = "float" /\ Cls(R) = "float"     \* integer receivers: integer elements, small ones
        vs == IF op \in {"Mtrace", "Mnorm"} THEN (IF fl THEN Mats \o FltMats ELSE Mats)
              ELSE IF op \in {"SmoothMax", "LogSmoothMax"}
                   THEN (IF fl THEN PosVecs \o PosFlt \o PosBig ELSE IF Cls(R) = "float" THEN PosVecs \o PosBig ELSE PosVecs)
              ELSE (IF fl THEN IntVecs \o FltVecs ELSE IntVecs)
        ws == IF fl THEN IntVecs2 \o FltVecs2 ELSE IntVecs2
        \* moderate alpha (alpha * max x of order 1: every entry matters); an extreme one on the log scale only
        alphas == IF op \in {"SmoothMax", "LogSmoothMax"}
                  THEN (IF Cls(R) = "int" THEN {VI(1)}
                        \* both signs (alpha < 0: smooth minimum), moderate and extreme
                        ELSE {VRat(1, 2), VI(1), VI(2), VI(20), VRat(-1, 2), VI(-1), VI(-2), VI(-20)})
                  ELSE {VZero}
    IN \* (an integer receiver has no log scale)
       (Cls(R) = "int" => op # "LogSmoothMax") =>
       \A i \in 1..Len(vs) : \A al \in alphas : \A st \in Storages :
         \* the element type holds every entry; SmoothMax forms exp(alpha x_i) itself: inside the range of exp of
         \* every storage type (LogSmoothMax is the variant for the rest)
         (/\ \A k \in 1..Len(vs[i]) : Holds(ET, G[vs[i][k]])
          /\ (op = "SmoothMax" => /\ ~RLt(RInt(80), TopAlphaX(ValsAt(vs[i]), RatOfV(al)))
                                   /\ ~RLt(TopAlphaX(ValsAt(vs[i]), RatOfV(al)), RInt(-80)))) =>
         LET n == Len(vs[i])
             second == IF op = "VdotV" THEN ValsAt(ws[i]) ELSE NoVec
             base0 == VCase(op, R, ET, st, ValsAt(vs[i]), second, al, VTerm(VecExpTerm(op, ValsAt(vs[i]), RatOfV(al))))
             \* a mean with positive weights lies between the smallest and the largest entry
             \* `cond`: LogSmoothMax is exp of a difference of log-scale quantities of size |alpha x_i| + |log x_i|;
             \* their rounding is an ABSOLUTE error of the exponent, i.e. a relative error cond * u of the result
             alr == RatOfV(al)
             top == TopAlphaX(ValsAt(vs[i]), IF alr.n < 0 THEN RNeg(alr) ELSE alr)
             cond == (top.n \div top.d) + 16
             base1 == IF op \in {"SmoothMax", "LogSmoothMax"}
                      THEN base0 @@ [lo |-> MinOfVals(ValsAt(vs[i])), hi |-> MaxOfVals(ValsAt(vs[i]))] ELSE base0
             base == IF op = "LogSmoothMax" THEN base1 @@ [cond |-> cond] ELSE base1
         IN \* `dev`: what the code is known to compute instead (known finding Mnorm without the square root);
            \* an observation that misses `exp` is that finding only if it equals `dev`
            IF op = "Mnorm"
            THEN Emit(WithDev(base, VTerm(KnownDeviation_Mnorm(<< <<X(1), X(2)>>, <<X(3), X(4)>> >>))))
            ELSE IF op = "LogSmoothMax"
            THEN Emit(WithDev(base, VTerm(KnownDeviation_LogSmoothMax(XSeq(0, n), RatOfV(al)))))
            ELSE Emit(base)

(* -- conv / new: conversions and registry constructors ------------------------ *)
EmitConv(T1) ==
  \A T2 \in AllTypes : \A p \in 1..Len(ValsOf[T1]) :
    LET v == G[ValsOf[T1][p]]  a == <<Arg(T1, v)>>  c == Convert(T1, T2, v) IN
    /\ Emit(Case("conv", "ConvertConstScalar", "", a, VZero, c, T2))
    /\ (T1 \in WritableTypes =>
          Emit(Case("conv", "ConvertScalar", "", a, VZero, IF T2 \in WritableTypes THEN c ELSE PanicRes, T2)))
    /\ (T1 \in MagicTypes =>
          Emit(Case("conv", "ConvertMagicScalar", "", a, VZero, IF T2 \in MagicTypes THEN c ELSE PanicRes, T2)))
EmitNew(T2) ==
  /\ \A p \in 1..Len(ValsOf["float64"]) :
       LET v == G[ValsOf["float64"][p]]  a == <<Arg("float64", v)>>  c == Convert("float64", T2, v) IN
       /\ Emit(Case("new", "NewConstScalar", "", a, VZero, c, T2))
       /\ Emit(Case("new", "NewScalar", "", a, VZero, IF T2 \in WritableTypes THEN c ELSE PanicRes, T2))
       /\ Emit(Case("new", "NewMagicScalar", "", a, VZero, IF T2 \in MagicTypes THEN c ELSE PanicRes, T2))
  /\ Emit(Case("new", "NullConstScalar", "", <<>>, VZero, VZero, T2))
  /\ Emit(Case("new", "NullScalar", "", <<>>, VZero, IF T2 \in WritableTypes THEN VZero ELSE PanicRes, T2))
  /\ Emit(Case("new", "NullMagicScalar", "", <<>>, VZero, IF T2 \in MagicTypes THEN VZero ELSE PanicRes, T2))

(* --------------------- the contract checked on itself (evaluated once by TLC) *)
SmallInts == {-300, -129, -128, -127, -3, -1, 0, 1, 2, 7, 100, 127, 128, 255, 256, 1000, 32767, 32768, 70000}
DivInts == {-300, -128, -1, 0, 7, 100, 32768, 70000}
ContractOK ==
  /\ \A a \in SmallInts : ToInt(FromInt(a)) = a
  /\ \A a \in SmallInts : \A b \in SmallInts :
       /\ BAdd(FromInt(a), FromInt(b)) = FromInt(a + b)
       /\ BSub(FromInt(a), FromInt(b)) = FromInt(a - b)
       /\ (RAbs(a) <= 1000 /\ RAbs(b) <= 1000 => BMul(FromInt(a), FromInt(b)) = FromInt(a * b))
       /\ BLt(FromInt(a), FromInt(b)) = (a < b)
  /\ \A a \in DivInts : \A b \in DivInts :
       /\ (b # 0 => /\ UDiv(MagB(FromInt(a)), MagB(FromInt(b))) = FromInt(RAbs(a) \div RAbs(b))
                    /\ BQuo(64, FromInt(a), FromInt(b)) =
                         FromInt((RAbs(a) \div RAbs(b)) * (IF (a < 0) # (b < 0) THEN -1 ELSE 1)))
  \* wrap-around
  /\ Wrap(8, FromInt(200)) = FromInt(-56) /\ Wrap(8, FromInt(-129)) = FromInt(127)
  /\ Wrap(16, FromInt(70000)) = FromInt(4464) /\ Wrap(8, MaxOf(64)) = FromInt(-1) /\ Wrap(8, MinOf(64)) = Z8
  /\ BAdd(MaxOf(64), One8) = MinOf(64) /\ BNeg(MinOf(64)) = MinOf(64)
  /\ BQuo(64, MinOf(64), FromInt(-1)) = MinOf(64) /\ BQuo(8, MinOf(8), FromInt(-1)) = MinOf(8)
  /\ BQuo(64, MaxOf(64), MaxOf(32)) = BAdd(P2B(32), FromInt(2))            \* (2^63-1) / (2^31-1) = 2^32 + 2
  /\ BQuo(64, MinOf(64), P2B(32)) = BNeg(P2B(31))
  /\ BMul(P2B(32), P2B(31)) = MinOf(64) /\ BMul(MaxOf(64), FromInt(2)) = FromInt(-2)
  \* rounding
  /\ IntToFloat(FromInt(16777217), 24) = VI(16777216) /\ IntToFloat(FromInt(16777219), 24) = VI(16777220)
  /\ IntToFloat(MaxOf(64), 53) = VHuge(1, 63) /\ IntToFloat(MaxOf(32), 24) = VInt(P2B(31))
  /\ IntToFloat(BAdd(P2B(53), One8), 53) = VInt(P2B(53)) /\ IntToFloat(MinOf(64), 24) = VInt(MinOf(64))
  /\ RatToFloat(33554433, 33554432, 24) = VI(1) /\ RatToFloat(33554435, 33554432, 24) = VRat(8388609, 8388608)
  \* conversions
  /\ Convert("Float64", "Int8", VRat(-257, 2)) = VI(-128) /\ Convert("Float64", "Int8", VRat(257, 2)) = IDef
  /\ Convert("Float64", "Int8", VRat(-5, 2)) = VI(-2) /\ Convert("Float64", "Int64", VHuge(1, 63)) = IDef
  /\ Convert("Int64", "Int8", VI(200)) = VI(-56) /\ Convert("Float64", "Float32", VHuge(1, 200)) = PInf
  /\ Convert("Float64", "Int", NaN) = IDef /\ Convert("Real64", "ConstInt16", NZero) = VZero
  \* order
  /\ LtV(VRat(-5, 2), VI(-2)) /\ LtV(VI(2), VRat(5, 2)) /\ ~LtV(VRat(5, 2), VI(2)) /\ LtV(NInf_, VInt(MinOf(64)))
  /\ LtV(VInt(MaxOf(64)), VHuge(1, 63)) /\ LtV(VHuge(-1, 100), VInt(MinOf(64))) /\ ~LtV(NZero, VZero)
  /\ LtV(VRat(255, 2), VI(128)) /\ LtV(VI(127), VRat(255, 2))
  \* every grid value is in normal form and held by some type; the type table
  /\ \A i \in 1..NG : \E T \in AllTypes : Holds(T, G[i])
  /\ Cardinality(AllTypes) = 16 /\ \A T \in AllTypes : TypeSeq[TIdx(T)] = T

EmitGroup(g) ==
  CASE g.c = "contract" -> Assert(ContractOK, "ScalarTypes: the contract fails its own self-check")
    [] g.c = "un"     -> EmitUn(g.op, g.t)
    [] g.c = "self"   -> EmitSelf(g.t)
    [] g.c = "setter" -> EmitSetter(g.t)
    [] g.c = "cmp"    -> EmitCmp(g.t)
    [] g.c = "ring"   -> EmitRing(g.op, g.t)
    [] g.c = "math1"  -> EmitMath1(g.op, g.t)
    [] g.c = "math2"  -> EmitMath2(g.op, g.t)
    [] g.c = "param"  -> EmitParam(g.op, g.t)
    [] g.c = "vec"    -> EmitVec(g.op, g.t)
    [] g.c = "conv"   -> EmitConv(g.t)
    [] g.c = "new"    -> EmitNew(g.t)
    [] g.c = "pkg"    -> EmitPkg

(* ------------------------------------------------------------ state machine *)
Meta == [g |-> "meta", intwidth |-> IntWidth, orders |-> <<0, 1, 2>>, seed |-> Seed, k |-> K,
         types |-> TypeSeq, kinds |-> [i \in 1..16 |-> Kind(TypeSeq[i])]]
Init == ph = "start" /\ grp = NoGrp
Choose == ph = "start" /\ \E g \in Groups : ph' = "group" /\ grp' = g
Expand == ph = "group" /\ EmitGroup(grp) /\ ph' = "done" /\ UNCHANGED grp
Next == Choose \/ Expand
Spec == Init /\ [][Next]_vars
ASSUME Emit(Meta)

=============================================================================
