----------------------------- MODULE ParallelEM -----------------------------
(***************************************************************************)
(* C17 - parallel estimation is schedule independent and race free.        *)
(*                                                                         *)
(* MECHANISM model of one EM / Baum-Welch step as the library runs it on   *)
(* pbenner/threadpool (statistics/generic/mixture_em.go EmStep,            *)
(* hmm_baumWelch.go BaumWelchStep, and every estimator that keeps "a slice *)
(* indexed by GetThreadId(), sized NumberOfThreads(), merged after Wait"): *)
(*                                                                         *)
(*   threads 0..W-1, 0 = the calling ("main") thread; a bounded channel of *)
(*   B jobs; AddJob enqueues or, when the buffer is full, runs the job     *)
(*   inline on the adding thread; AddRangeJob cuts 0..N-1 into chunks of   *)
(*   N div min(W,N) observations, one job per chunk, a chunk's             *)
(*   observations run back to back on one thread; Wait makes the main      *)
(*   thread act as a worker while jobs are queued and then blocks until    *)
(*   the group's counter is zero; every thread t owns the accumulator slot *)
(*   tmp[t] = [init, acc]; a step first clears all init flags (lazy reset: *)
(*   a slot is re-initialised by the first observation processed on its    *)
(*   thread, so stale contents of the previous step survive in the slots   *)
(*   of unused threads); after Wait the slots of the USED threads are      *)
(*   folded into slot 0 (force-initialised when thread 0 processed         *)
(*   nothing).                                                             *)
(*                                                                         *)
(* The configuration [W, N, B, S, range] is a state variable chosen in the *)
(* initial state from the constant set Configs, so that one TLC run covers *)
(* a family of pool shapes and the trace specification can switch          *)
(* configuration between recorded runs.                                    *)
(*                                                                         *)
(* A contribution is the pair <<step, observation>>.  CONTRACT (what C17   *)
(* demands): for every schedule the merged result of step s is exactly     *)
(* {<<s, l>> : l \in 1..N}, each observation was processed exactly once,   *)
(* the merge starts only after every job has ended, no deadlock, and the   *)
(* run terminates under weak fairness.                                     *)
(***************************************************************************)
EXTENDS Integers, Sequences, FiniteSets, TLC

CONSTANTS Configs,    \* set of records [W, N, B, S, range]
          MaxW        \* largest W in Configs (fairness is stated per thread id)

VARIABLES cfg,     \* the configuration of this run
          pc,      \* main: "reset" | "adding" | "wait" | "blocked" | "merge" | "done"
          step,    \* current step
          nextj,   \* next job (chunk) main will add
          chan,    \* queued jobs (FIFO)
          wg,      \* outstanding jobs of the group
          run,     \* run[t]   : job (chunk) running on thread t (0 = none)
          pos,     \* pos[t]   : index of the observation being processed inside the chunk
          phase,   \* phase[t] : "idle" | "new" (observation not begun) | "mid" (slot initialised, contribution pending)
          tmp,     \* tmp[t]   : [init, acc]  accumulator slot of thread t
          mi,      \* merge index
          exec,    \* exec[s][l] : how often observation l of step s has been processed
          result   \* result[s] : merged contributions of step s

vars == <<cfg, pc, step, nextj, chan, wg, run, pos, phase, tmp, mi, exec, result>>

Threads(c) == 0..(c.W-1)
MinI(a, b) == IF a < b THEN a ELSE b
(* AddRangeJob: chunk size n = N div min(W, N); chunks start at 0, n, 2n, ... *)
ChunkSize(c) == IF c.range THEN c.N \div MinI(c.W, c.N) ELSE 1
NChunks(c)   == (c.N + ChunkSize(c) - 1) \div ChunkSize(c)
ChunkObs(c, k) == LET lo == (k - 1) * ChunkSize(c) + 1
                      hi == MinI(k * ChunkSize(c), c.N)
                  IN [i \in 1..(hi - lo + 1) |-> lo + i - 1]      \* observations 1..N

InitFor(c) ==
  /\ cfg = c
  /\ pc = "reset" /\ step = 1 /\ nextj = 1 /\ chan = <<>> /\ wg = 0
  /\ run = [t \in Threads(c) |-> 0] /\ pos = [t \in Threads(c) |-> 0]
  /\ phase = [t \in Threads(c) |-> "idle"]
  /\ tmp = [t \in Threads(c) |-> [init |-> FALSE, acc |-> {}]]
  /\ mi = 0
  /\ exec = [s \in 1..c.S |-> [l \in 1..c.N |-> 0]]
  /\ result = [s \in 1..c.S |-> {}]
Init == \E c \in Configs : InitFor(c)

(* "tell every thread that it needs to reset all variables" *)
MainReset ==
  /\ pc = "reset"
  /\ tmp' = [t \in Threads(cfg) |-> [tmp[t] EXCEPT !.init = FALSE]]
  /\ nextj' = 1 /\ pc' = "adding"
  /\ UNCHANGED <<cfg, step, chan, wg, run, pos, phase, mi, exec, result>>

(* AddJob: enqueue, or run inline when the buffer is full *)
MainAddEnqueue ==
  /\ pc = "adding" /\ run[0] = 0 /\ nextj <= NChunks(cfg) /\ Len(chan) < cfg.B
  /\ chan' = Append(chan, nextj) /\ wg' = wg + 1 /\ nextj' = nextj + 1
  /\ UNCHANGED <<cfg, pc, step, run, pos, phase, tmp, mi, exec, result>>
MainAddInline ==
  /\ pc = "adding" /\ run[0] = 0 /\ nextj <= NChunks(cfg) /\ Len(chan) >= cfg.B
  /\ run' = [run EXCEPT ![0] = nextj] /\ pos' = [pos EXCEPT ![0] = 1]
  /\ phase' = [phase EXCEPT ![0] = "new"]
  /\ wg' = wg + 1 /\ nextj' = nextj + 1
  /\ UNCHANGED <<cfg, pc, step, chan, tmp, mi, exec, result>>
MainAddDone ==
  /\ pc = "adding" /\ run[0] = 0 /\ nextj > NChunks(cfg)
  /\ pc' = "wait"
  /\ UNCHANGED <<cfg, step, nextj, chan, wg, run, pos, phase, tmp, mi, exec, result>>

(* a worker (or the waiting main thread) takes the head of the channel *)
Take(t) ==
  /\ t \in Threads(cfg) /\ run[t] = 0 /\ chan # <<>>
  /\ (t = 0 => pc = "wait" /\ wg > 0)
  /\ run' = [run EXCEPT ![t] = Head(chan)] /\ pos' = [pos EXCEPT ![t] = 1]
  /\ phase' = [phase EXCEPT ![t] = "new"]
  /\ chan' = Tail(chan)
  /\ UNCHANGED <<cfg, pc, step, nextj, wg, tmp, mi, exec, result>>

CurObs(t) == ChunkObs(cfg, run[t])[pos[t]]

(* observation body, first half: lazy re-initialisation of the thread's slot *)
JobStart(t) ==
  /\ t \in Threads(cfg) /\ run[t] # 0 /\ phase[t] = "new"
  /\ tmp' = [tmp EXCEPT ![t] = IF tmp[t].init THEN tmp[t] ELSE [init |-> TRUE, acc |-> {}]]
  /\ phase' = [phase EXCEPT ![t] = "mid"]
  /\ UNCHANGED <<cfg, pc, step, nextj, chan, wg, run, pos, mi, exec, result>>
(* second half: add the contribution; after the chunk's last observation wg.Done() *)
JobEnd(t) ==
  /\ t \in Threads(cfg) /\ run[t] # 0 /\ phase[t] = "mid"
  /\ tmp' = [tmp EXCEPT ![t].acc = @ \cup {<<step, CurObs(t)>>}]
  /\ exec' = [exec EXCEPT ![step][CurObs(t)] = @ + 1]
  /\ IF pos[t] < Len(ChunkObs(cfg, run[t]))
     THEN /\ pos' = [pos EXCEPT ![t] = @ + 1] /\ phase' = [phase EXCEPT ![t] = "new"]
          /\ UNCHANGED <<wg, run>>
     ELSE /\ wg' = wg - 1
          /\ run' = [run EXCEPT ![t] = 0] /\ pos' = [pos EXCEPT ![t] = 0]
          /\ phase' = [phase EXCEPT ![t] = "idle"]
  /\ UNCHANGED <<cfg, pc, step, nextj, chan, mi, result>>

(* Wait: with an empty channel main blocks in wg.Wait(); with wg = 0 it returns *)
MainWaitBlock ==
  /\ pc = "wait" /\ run[0] = 0 /\ wg > 0 /\ chan = <<>>
  /\ pc' = "blocked"
  /\ UNCHANGED <<cfg, step, nextj, chan, wg, run, pos, phase, tmp, mi, exec, result>>
MainWaitReturn ==
  /\ pc \in {"wait", "blocked"} /\ run[0] = 0 /\ wg = 0
  /\ pc' = "merge" /\ mi' = 0
  /\ UNCHANGED <<cfg, step, nextj, chan, wg, run, pos, phase, tmp, exec, result>>

(* merge: slot 0 is force-initialised, the slots of used threads are folded into it *)
MergeStep ==
  /\ pc = "merge" /\ mi < cfg.W
  /\ tmp' = IF mi = 0
            THEN (IF tmp[0].init THEN tmp ELSE [tmp EXCEPT ![0] = [init |-> TRUE, acc |-> {}]])
            ELSE (IF tmp[mi].init THEN [tmp EXCEPT ![0].acc = @ \cup tmp[mi].acc] ELSE tmp)
  /\ mi' = mi + 1
  /\ UNCHANGED <<cfg, pc, step, nextj, chan, wg, run, pos, phase, exec, result>>
MergeDone ==
  /\ pc = "merge" /\ mi = cfg.W
  /\ result' = [result EXCEPT ![step] = tmp[0].acc]
  /\ IF step < cfg.S THEN step' = step + 1 /\ pc' = "reset" ELSE step' = step /\ pc' = "done"
  /\ UNCHANGED <<cfg, nextj, chan, wg, run, pos, phase, tmp, mi, exec>>

MainStep == MainReset \/ MainAddEnqueue \/ MainAddInline \/ MainAddDone \/ MainWaitBlock
            \/ MainWaitReturn \/ MergeStep \/ MergeDone \/ Take(0) \/ JobStart(0) \/ JobEnd(0)
WorkerStep(t) == Take(t) \/ JobStart(t) \/ JobEnd(t)

Next == MainStep \/ (\E t \in 1..(MaxW-1) : WorkerStep(t)) \/ (pc = "done" /\ UNCHANGED vars)
Spec == Init /\ [][Next]_vars /\ WF_vars(MainStep) /\ \A t \in 1..(MaxW-1) : WF_vars(WorkerStep(t))

(* ------------------------------------------------------------ properties *)
TypeOK == /\ pc \in {"reset", "adding", "wait", "blocked", "merge", "done"}
          /\ wg \in 0..NChunks(cfg) /\ Len(chan) <= cfg.B /\ nextj \in 1..(NChunks(cfg)+1)
          /\ cfg.W <= MaxW

(* the merge never overlaps a job *)
MergeAfterJobs == pc = "merge" => /\ wg = 0 /\ chan = <<>> /\ \A t \in Threads(cfg) : run[t] = 0
(* wg counts exactly the queued and running jobs *)
WgExact == wg = Len(chan) + Cardinality({t \in Threads(cfg) : run[t] # 0})
(* no observation is processed twice, none is lost *)
AtMostOnce == \A s \in 1..cfg.S, l \in 1..cfg.N : exec[s][l] <= 1
ResultExact == \A s \in 1..cfg.S :
                 (s < step \/ pc = "done") => /\ result[s] = {<<s, l>> : l \in 1..cfg.N}
                                              /\ \A l \in 1..cfg.N : exec[s][l] = 1
(* a slot marked initialised holds contributions of the current step only *)
NoStaleInInitialised == \A t \in Threads(cfg) :
                          (tmp[t].init /\ pc # "reset") => \A c \in tmp[t].acc : c[1] = step
Terminates == <>(pc = "done")
(* vacuity witnesses (each must be VIOLATED; checked in ParallelEM_vacuity*.cfg): the main
   thread does run jobs inline and as a worker, and unused threads keep stale slots *)
NeverInline    == ~(pc = "adding" /\ run[0] # 0)
NeverMainWorks == ~(pc = "wait" /\ run[0] # 0)
NeverStaleUnused == ~(pc = "merge" /\ \E t \in Threads(cfg) : ~tmp[t].init /\ tmp[t].acc # {})
=============================================================================
