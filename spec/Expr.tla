-------------------------------- MODULE Expr --------------------------------
(***************************************************************************)
(* Symbolic real-valued terms: the contract layer of the scalar engine     *)
(* (properties C01, C02, C14).  TLC has no reals, so the specification      *)
(* never evaluates a transcendental function; it BUILDS THE TERM and owns   *)
(*   - the differentiation table D (chain, product, quotient, power rules,  *)
(*     D(sin)=cos, D(erf)=2/sqrt(pi) exp(-x^2), D(gamma)=gamma*digamma,...),*)
(*   - the MEANING of every scalar operation of the library's README table  *)
(*     as a term over its operands (Log1pExp(x) = log(1+exp(x)), ...).       *)
(* A dumb evaluator in the Go harness interprets the leaves with Go's math. *)
(*                                                                         *)
(* Terms are tagged tuples (compact JSON arrays):                          *)
(*   <<"q", n, d>>            rational constant n/d (normalised, see Rat)   *)
(*   <<"ninf">>  <<"pi">>     the constants -Infinity and pi               *)
(*   <<"x", i>>               the i-th independent variable                *)
(*   <<"z", i, id>>           a scalar RE-ACTIVATED as variable i (a fresh  *)
(*                            leaf: its value is whatever the scalar held   *)
(*                            when it was re-declared, id names the leaf)   *)
(*   <<"u", f, e>>            unary function f in                          *)
(*        neg sin cos tan sinh cosh tanh exp log erf gamma lgamma digamma  *)
(*        trigamma abs sgn                                                 *)
(*   <<"b", op, e1, e2>>      op in add sub mul div pow gammap besseli     *)
(*        (gammap(a,x) regularised lower incomplete gamma, besseli(v,x)    *)
(*         modified Bessel function of the first kind; first operand a     *)
(*         constant)                                                       *)
(*   <<"ite", a, b, e1, e2>>  IF a < b THEN e1 ELSE e2 (a = b is a tie: the *)
(*                            specification does not choose a branch)      *)
(* Smart constructors keep terms small: 0*e = 0, 1*e = e, e+0 = e, e^1 = e,  *)
(* e^0 = 1, 0/e = 0, constant folding over Rat (guarded against 32-bit       *)
(* overflow: large constants simply stay unfolded).                        *)
(***************************************************************************)
EXTENDS Rat

(* ------------------------------------------------------------ constants *)
Q(r)      == <<"q", r.n, r.d>>
QI(i)     == <<"q", i, 1>>
QF(n, d)  == Q(Rat(n, d))
Zero      == QI(0)
One       == QI(1)
Two       == QI(2)
Half      == <<"q", 1, 2>>
NInf      == <<"ninf">>
Pi        == <<"pi">>
X(i)      == <<"x", i>>
ZLeaf(i, id)  == <<"z", i, id>>

Tag(e)    == e[1]
IsQ(e)    == e[1] = "q"
RatOf(e)  == [n |-> e[2], d |-> e[3]]
IsZero(e) == e[1] = "q" /\ e[2] = 0
IsOne(e)  == e[1] = "q" /\ e[2] = 1 /\ e[3] = 1
IsMOne(e) == e[1] = "q" /\ e[2] = -1 /\ e[3] = 1
IsConst(e) == e[1] \in {"q", "ninf", "pi"}

FoldLimit == 20000
Small(e)  == RAbs(e[2]) < FoldLimit /\ e[3] < FoldLimit
CanFold(a, b) == IsQ(a) /\ IsQ(b) /\ Small(a) /\ Small(b)

(* ---------------------------------------------------- smart constructors *)
U(f, a) == <<"u", f, a>>

Neg(a) == IF IsQ(a) THEN Q(RNeg(RatOf(a)))
          ELSE IF a[1] = "u" /\ a[2] = "neg" THEN a[3]
          ELSE <<"u", "neg", a>>

Add(a, b) == IF IsZero(a) THEN b
             ELSE IF IsZero(b) THEN a
             ELSE IF CanFold(a, b) THEN Q(RAdd(RatOf(a), RatOf(b)))
             ELSE <<"b", "add", a, b>>

Sub(a, b) == IF IsZero(b) THEN a
             ELSE IF IsZero(a) THEN Neg(b)
             ELSE IF CanFold(a, b) THEN Q(RSub(RatOf(a), RatOf(b)))
             ELSE <<"b", "sub", a, b>>

Mul(a, b) == IF IsZero(a) \/ IsZero(b) THEN Zero
             ELSE IF IsOne(a) THEN b
             ELSE IF IsOne(b) THEN a
             ELSE IF IsMOne(a) THEN Neg(b)
             ELSE IF IsMOne(b) THEN Neg(a)
             ELSE IF CanFold(a, b) THEN Q(RMul(RatOf(a), RatOf(b)))
             ELSE <<"b", "mul", a, b>>

Div(a, b) == IF IsZero(a) THEN Zero
             ELSE IF IsOne(b) THEN a
             ELSE IF CanFold(a, b) /\ ~IsZero(b) THEN Q(RDiv(RatOf(a), RatOf(b)))
             ELSE <<"b", "div", a, b>>

(* Constructors for VALUES (the meaning table): no rewriting that is wrong for  *)
(* some IEEE operand, i.e. no 0*e = 0 and no 0/e = 0 (e may be infinite or 0).  *)
(* Mul/Div above are used by the differentiation table only, where a literal    *)
(* zero factor is the derivative of something the variable does not occur in;   *)
(* singular points of the local derivatives are excluded by the guard terms of  *)
(* ScalarMachine.                                                              *)
MulV(a, b) == IF IsOne(a) THEN b
              ELSE IF IsOne(b) THEN a
              ELSE IF CanFold(a, b) THEN Q(RMul(RatOf(a), RatOf(b)))
              ELSE <<"b", "mul", a, b>>
DivV(a, b) == IF IsOne(b) THEN a
              ELSE IF CanFold(a, b) /\ ~IsZero(b) THEN Q(RDiv(RatOf(a), RatOf(b)))
              ELSE <<"b", "div", a, b>>

Pow(a, k) == IF IsZero(k) THEN One
             ELSE IF IsOne(k) THEN a
             ELSE <<"b", "pow", a, k>>

Ite(a, b, e1, e2) == IF e1 = e2 THEN e1 ELSE <<"ite", a, b, e1, e2>>

Exp(a)    == U("exp", a)
Log(a)    == U("log", a)
Sq(a)     == Pow(a, Two)

RECURSIVE SumTerms(_)
SumTerms(s) == IF s = <<>> THEN Zero
               ELSE IF Len(s) = 1 THEN s[1]
               ELSE Add(SumTerms(SubSeq(s, 1, Len(s) - 1)), s[Len(s)])

(* --------------------------------------------------- syntactic dependence *)
RECURSIVE Depends(_, _)
Depends(e, i) ==
  CASE e[1] = "x"   -> e[2] = i
    [] e[1] = "z"   -> e[2] = i
    [] e[1] = "u"   -> Depends(e[3], i)
    [] e[1] = "b"   -> Depends(e[3], i) \/ Depends(e[4], i)
    [] e[1] = "ite" -> Depends(e[2], i) \/ Depends(e[3], i) \/ Depends(e[4], i) \/ Depends(e[5], i)
    [] OTHER        -> FALSE

RECURSIVE Size(_)
Size(e) ==
  CASE e[1] = "u"   -> 1 + Size(e[3])
    [] e[1] = "b"   -> 1 + Size(e[3]) + Size(e[4])
    [] e[1] = "ite" -> 1 + Size(e[2]) + Size(e[3]) + Size(e[4]) + Size(e[5])
    [] OTHER        -> 1

(* ------------------------------------------------ the differentiation table *)
TwoOverSqrtPi == Div(Two, Pow(Pi, Half))

(* derivative of the unary function f at the point a (a term) *)
DU(f, a) ==
  CASE f = "neg"     -> QI(-1)
    [] f = "sin"     -> U("cos", a)
    [] f = "cos"     -> Neg(U("sin", a))
    [] f = "tan"     -> Add(One, Sq(U("tan", a)))
    [] f = "sinh"    -> U("cosh", a)
    [] f = "cosh"    -> U("sinh", a)
    [] f = "tanh"    -> Sub(One, Sq(U("tanh", a)))
    [] f = "exp"     -> U("exp", a)
    [] f = "log"     -> Div(One, a)
    [] f = "erf"     -> Mul(TwoOverSqrtPi, Exp(Neg(Sq(a))))
    [] f = "gamma"   -> Mul(U("gamma", a), U("digamma", a))
    [] f = "lgamma"  -> U("digamma", a)
    [] f = "digamma" -> U("trigamma", a)
    [] f = "abs"     -> U("sgn", a)
    [] f = "sgn"     -> Zero
    [] OTHER         -> Assert(FALSE, <<"Expr: no derivative rule for", f>>)

RECURSIVE D(_, _)
D(e, i) ==
  CASE e[1] = "x" -> IF e[2] = i THEN One ELSE Zero
    [] e[1] = "z" -> IF e[2] = i THEN One ELSE Zero     \* shares the derivative slot of variable i
    [] e[1] = "u" ->
         LET da == D(e[3], i) IN
         IF IsZero(da) THEN Zero ELSE Mul(DU(e[2], e[3]), da)
    [] e[1] = "b" ->
         LET op == e[2]  a == e[3]  b == e[4]
             da == D(a, i)  db == D(b, i) IN
         IF IsZero(da) /\ IsZero(db) THEN Zero
         ELSE CASE op = "add" -> Add(da, db)
                [] op = "sub" -> Sub(da, db)
                [] op = "mul" -> Add(Mul(da, b), Mul(a, db))
                [] op = "div" -> IF IsZero(db) THEN Div(da, b)
                                 ELSE IF IsZero(da) THEN Neg(Div(Mul(a, db), Sq(b)))
                                 ELSE Sub(Div(da, b), Div(Mul(a, db), Sq(b)))
                [] op = "pow" ->
                     IF IsZero(db)
                     THEN (* constant exponent: k a^(k-1) a' *)
                          Mul(Mul(b, Pow(a, Sub(b, One))), da)
                     ELSE (* a^k (k' log a + k a'/a) *)
                          Mul(e, Add(Mul(db, Log(a)), Div(Mul(b, da), a)))
                [] op = "gammap" ->
                     (* d/dx P(s,x) = x^(s-1) exp(-x) / Gamma(s); s constant *)
                     IF ~IsZero(da) THEN Assert(FALSE, "Expr: gammap shape parameter must be constant")
                     ELSE Mul(Div(Mul(Pow(b, Sub(a, One)), Exp(Neg(b))), U("gamma", a)), db)
                [] op = "besseli" ->
                     (* d/dx I_v(x) = (I_{v-1}(x) + I_{v+1}(x)) / 2; v constant *)
                     IF ~IsZero(da) THEN Assert(FALSE, "Expr: besseli order must be constant")
                     ELSE Mul(Mul(Half, Add(<<"b", "besseli", Sub(a, One), b>>,
                                            <<"b", "besseli", Add(a, One), b>>)), db)
                [] OTHER -> Assert(FALSE, <<"Expr: unknown binary operation", op>>)
    [] e[1] = "ite" -> Ite(e[2], e[3], D(e[4], i), D(e[5], i))
    [] OTHER -> Zero

D2(e, i, j) == D(D(e, i), j)

(* local variables y_1, y_2, ... (placeholders for the operands of one call) and *)
(* their replacement by the operand terms                                       *)
Y(k) == <<"x", 100 + k>>
RECURSIVE Subst(_, _)
Subst(e, s) ==
  CASE e[1] = "x"   -> IF e[2] > 100 THEN s[e[2] - 100] ELSE e
    [] e[1] = "u"   -> <<"u", e[2], Subst(e[3], s)>>
    [] e[1] = "b"   -> <<"b", e[2], Subst(e[3], s), Subst(e[4], s)>>
    [] e[1] = "ite" -> <<"ite", Subst(e[2], s), Subst(e[3], s), Subst(e[4], s), Subst(e[5], s)>>
    [] OTHER        -> e

(* ------------------------------------------------------- the MEANING table *)
(* unary scalar operations  r.Op(a) *)
UnaryOps == {"Neg", "Abs", "Sqrt", "Sin", "Sinh", "Cos", "Cosh", "Tan", "Tanh", "Exp", "Log",
             "Log1p", "Log1pExp", "Logistic", "Sigmoid", "Erf", "Erfc", "LogErfc", "Gamma", "Lgamma"}
Meaning1(op, a) ==
  CASE op = "Neg"      -> Neg(a)
    [] op = "Abs"      -> U("abs", a)
    [] op = "Sqrt"     -> Pow(a, Half)
    [] op = "Sin"      -> U("sin", a)
    [] op = "Sinh"     -> U("sinh", a)
    [] op = "Cos"      -> U("cos", a)
    [] op = "Cosh"     -> U("cosh", a)
    [] op = "Tan"      -> U("tan", a)
    [] op = "Tanh"     -> U("tanh", a)
    [] op = "Exp"      -> Exp(a)
    [] op = "Log"      -> Log(a)
    [] op = "Log1p"    -> Log(Add(One, a))
    [] op = "Log1pExp" -> Log(Add(One, Exp(a)))
    [] op = "Logistic" -> DivV(One, Add(One, Exp(Neg(a))))
    [] op = "Sigmoid"  -> DivV(One, Add(One, Exp(Neg(a))))
    [] op = "Erf"      -> U("erf", a)
    [] op = "Erfc"     -> Sub(One, U("erf", a))
    [] op = "LogErfc"  -> Log(Sub(One, U("erf", a)))
    [] op = "Gamma"    -> U("gamma", a)
    [] op = "Lgamma"   -> U("lgamma", a)
    [] OTHER -> Assert(FALSE, <<"Expr: no meaning for unary", op>>)

(* binary scalar operations  r.Op(a, b)  (LogAdd/LogSub take a scratch scalar too) *)
BinaryOps == {"Add", "Sub", "Mul", "Div", "Pow", "Min", "Max", "LogAdd", "LogSub"}
Meaning2(op, a, b) ==
  CASE op = "Add"    -> Add(a, b)
    [] op = "Sub"    -> Sub(a, b)
    [] op = "Mul"    -> MulV(a, b)
    [] op = "Div"    -> DivV(a, b)
    [] op = "Pow"    -> Pow(a, b)
    [] op = "Min"    -> Ite(a, b, a, b)
    [] op = "Max"    -> Ite(b, a, a, b)
    [] op = "LogAdd" -> Log(Add(Exp(a), Exp(b)))
    [] op = "LogSub" -> Log(Sub(Exp(a), Exp(b)))
    [] OTHER -> Assert(FALSE, <<"Expr: no meaning for binary", op>>)

(* operations with a plain numeric parameter p (a rational [n, d]) and one scalar operand *)
ParamOps == {"Mlgamma", "GammaP", "BesselI", "LogBesselI"}
RECURSIVE MlgammaSum(_, _)
MlgammaSum(a, j) == IF j = 0 THEN Zero
                    ELSE Add(MlgammaSum(a, j - 1), U("lgamma", Add(a, QF(1 - j, 2))))
MeaningP(op, p, a) ==
  CASE op = "Mlgamma"    -> (* log of the multivariate gamma function of dimension k = p.n *)
                            Add(Mul(QF(p.n * (p.n - 1), 4), Log(Pi)), MlgammaSum(a, p.n))
    [] op = "GammaP"     -> <<"b", "gammap", Q(p), a>>
    [] op = "BesselI"    -> <<"b", "besseli", Q(p), a>>
    [] op = "LogBesselI" -> Log(<<"b", "besseli", Q(p), a>>)
    [] OTHER -> Assert(FALSE, <<"Expr: no meaning for parametrised", op>>)

(* scalar-valued reductions over a sequence of terms (vector) or a sequence  *)
(* of rows (matrix); alpha is a rational                                     *)
SqSeq(s)   == [k \in 1..Len(s) |-> Sq(s[k])]
Flatten2(m) == IF Len(m) = 1 THEN m[1] ELSE IF Len(m) = 2 THEN m[1] \o m[2] ELSE m[1] \o m[2] \o m[3]
SmoothMaxTerm(s, alpha) ==
  DivV(SumTerms([k \in 1..Len(s) |-> MulV(s[k], Exp(MulV(Q(alpha), s[k])))]),
       SumTerms([k \in 1..Len(s) |-> Exp(MulV(Q(alpha), s[k]))]))
MeaningV(op, s, t, alpha) ==
  CASE op = "Vmean"        -> DivV(SumTerms(s), QI(Len(s)))
    [] op = "VdotV"        -> SumTerms([k \in 1..Len(s) |-> MulV(s[k], t[k])])
    [] op = "Vnorm"        -> Pow(SumTerms(SqSeq(s)), Half)
    [] op = "SmoothMax"    -> SmoothMaxTerm(s, alpha)
    [] op = "LogSmoothMax" -> SmoothMaxTerm(s, alpha)   \* the same function, computed on log scale
    [] OTHER -> Assert(FALSE, <<"Expr: no meaning for vector reduction", op>>)
MeaningM(op, m) ==
  CASE op = "Mtrace" -> SumTerms([k \in 1..Len(m) |-> m[k][k]])
    [] op = "Mnorm"  -> Pow(SumTerms(SqSeq(Flatten2(m))), Half)      \* Frobenius norm
    [] OTHER -> Assert(FALSE, <<"Expr: no meaning for matrix reduction", op>>)

(* what the code is known to compute instead (known finding C01-mnorm-nosqrt) *)
KnownDeviation_Mnorm(m) == SumTerms(SqSeq(Flatten2(m)))
=============================================================================
