------------------------- MODULE SerializationTrace -------------------------
(***************************************************************************)
(* Trace validation (code -> model) for C18.  The Go recorder              *)
(* (harness/cmd/serial record) builds seeded random objects of larger      *)
(* size, encodes them with the REAL encoder, parses the produced bytes     *)
(* generically into the abstract document form (field names, lengths,      *)
(* index lists, values classified back to atoms), decodes with the REAL    *)
(* decoder and projects the decoded object.  Every event must satisfy      *)
(*     document = Encode(object, format)                                   *)
(*     decoded  = what the format carries of the object                    *)
(* and the invariants of Serialization (RoundTrip of the model decoder on  *)
(* the real document, Repacked) are evaluated on the logged document.      *)
(***************************************************************************)
EXTENDS Serialization

Trace == ndJsonDeserialize("serial_trace.ndjson")

VARIABLE l          \* next event to consume
tvars == <<obj, fmt, faults, doc, lay, rcv, l>>

Load(e) == /\ obj' = e.obj /\ fmt' = e.fmt /\ faults' = <<>> /\ doc' = e.doc /\ lay' = "canonical" /\ rcv' = FreshRcv

TraceInit == /\ l = 2
             /\ obj = Trace[1].obj /\ fmt = Trace[1].fmt /\ faults = <<>> /\ doc = Trace[1].doc /\ lay = "canonical" /\ rcv = FreshRcv
TraceNext == /\ l <= Len(Trace)
             /\ Load(Trace[l])
             /\ l' = l + 1
TraceSpec == TraceInit /\ [][TraceNext]_tvars

Ev == Trace[l-1]

(* the real encoder wrote exactly the document the specification defines *)
DocIsEncode == doc = Encode(obj, fmt)

(* the real decoder produced what the format carries (or the known deviation
   of the header-less dense table format for degenerate dimensions) *)
Proj(d) == CASE d.k = "scalar" -> [k |-> "scalar", v |-> d.v, order |-> d.order, n |-> d.n, grad |-> d.grad, hess |-> d.hess]
             [] d.k = "vector" -> [k |-> "vector", n |-> d.n, c |-> d.c]
             [] d.k = "matrix" -> [k |-> "matrix", rows |-> d.rows, cols |-> d.cols, c |-> d.c]
DecodedMatches ==
  IF TableLosesDims(obj, fmt) THEN Proj(Ev.dec) = KnownDeviation_TableDims
  ELSE Proj(Ev.dec) = Carried(obj, fmt)
IteratorOK == Ev.dec.k \in {"vector", "matrix"} => Ev.dec.iter

TraceAccepted ==
  IF TLCGet("stats").diameter = Len(Trace) THEN TRUE
  ELSE Print(<<"TRACE_REJECTED_AT", TLCGet("stats").diameter, "OF", Len(Trace)>>, FALSE)
=============================================================================
