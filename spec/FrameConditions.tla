--------------------------- MODULE FrameConditions ---------------------------
(***************************************************************************)
(* CONTRACT layer for C12, part B: "read-only inputs are left unchanged".  *)
(*                                                                         *)
(* The table below is written from the signatures and doc comments of the  *)
(* library (algorithm/*, statistics/*, vector.go, matrix.go), not from the *)
(* code.  For every entry point it names                                   *)
(*   ro    the caller's input objects (arguments, option payloads such as  *)
(*         bfgs.Hessian, the eta slice of rprop, data vectors)             *)
(*   rw    what the call is documented to write: the receiver of           *)
(*         r.Op(a,b), out-parameters of the kernels that return nothing    *)
(*         (gaussJordan, givensRotation, householder: in place by design), *)
(*         and the buffers of an InSitu structure WHEN THE CALLER SUPPLIES *)
(*         THEM ("InSitu must be passed by reference")                     *)
(*   opts  boolean options (every valid combination is a case)             *)
(*   modes how the caller uses the in-situ options:                        *)
(*           "none"    no InSitu argument: the call allocates its own      *)
(*                     work space and must not touch any input             *)
(*           "buffers" InSitu with caller-owned, distinct buffers          *)
(*           "alias"   the caller passes the input matrix itself as the    *)
(*                     work matrix (InSitu.H = a / InSitu.A = a): the      *)
(*                     documented opt-in to in-place work; then, and only  *)
(*                     then, the input may change                          *)
(*                                                                         *)
(*   MayModify(e, mode) = rw  \cup  (IF mode = "alias" THEN {e.alias})     *)
(*   MustKeep(e, mode)  = ro  \   MayModify(e, mode)                       *)
(*                                                                         *)
(* TLC enumerates entry x option combination x mode (x element type x      *)
(* dimension class) and prints each case with the roles that must be       *)
(* bitwise unchanged (values, derivatives, dimensions) after the call -    *)
(* also when the call returns an error.  The Go driver builds admissible   *)
(* inputs, digests every role before and after, and compares per the       *)
(* printed frame condition.                                                *)
(***************************************************************************)
EXTENDS Integers, Sequences, FiniteSets, TLC, Json

CONSTANTS Sizes,     \* dimension classes handed to the driver, e.g. {2, 3}
          Emit

VARIABLE c
vars == <<c>>

(* fam: "alg" | "op" | "dist";  ro / rw / is: sequences of role names; is = buffers of the InSitu structure *)
E(fam, name, ro, rw, is, opts, modes, alias) ==
  [fam |-> fam, name |-> name, ro |-> ro, rw |-> rw, is |-> is, opts |-> opts, modes |-> modes, alias |-> alias]
A(name, ro, rw, is, opts, modes, alias) == E("alg", name, ro, rw, is, opts, modes, alias)

NoIS == {"none"}
Buf  == {"none", "buffers", "reuse"}
BufA == {"none", "buffers", "reuse", "alias"}
(* mode "reuse": the caller hands ONE work-space structure (InSitu, initially without buffers, *)
(* flags such as InitializeH set) to two consecutive calls with different inputs.  A work-space *)
(* object passed as an option does not retain references to the caller's inputs: after the      *)
(* second call the inputs of the FIRST call (roles prev.<r>) are unchanged too, and after every *)
(* call the storage reachable from the work-space structure (role IS) is disjoint from the      *)
(* storage of every input (unless the caller aliased them, mode "alias").                       *)
PrevName == [A |-> "prev.A", b |-> "prev.b", a |-> "prev.a", matrix |-> "prev.matrix", x |-> "prev.x",
             submatrix |-> "prev.submatrix"]
GivensKernel(name) == A(name, <<"c", "s">>, <<"A", "t1", "t2">>, <<>>, <<>>, NoIS, "")
Optimizer(name, ro, opts) == A(name, ro, <<>>, <<>>, opts, NoIS, "")
HCM == <<"Hook", "Constraints", "MaxIterations">>

Algorithms == {
  A("backSubstitution.Run",   <<"A", "b">>,  <<>>, <<"IS.A", "IS.X", "IS.T">>,               <<>>,                               Buf,  ""),
  A("cholesky.Run",           <<"a">>,       <<>>, <<"IS.L", "IS.D", "IS.S", "IS.T">>,       <<"LDL", "ForcePD">>,               Buf,  ""),
  A("determinant.Run",        <<"a">>,       <<>>, <<"IS.L", "IS.D", "IS.S", "IS.T">>,       <<"PositiveDefinite", "LogScale">>, Buf,  ""),
  A("eigensystem.Run",        <<"a">>,       <<>>, <<"IS.Eigenvalues", "IS.Eigenvectors", "IS.H", "IS.U">>,
                                                                            <<"ComputeEigenvectors", "Symmetric">>, Buf,  ""),
  A("gaussJordan.Run",        <<"submatrix">>, <<"a", "x", "b">>, <<>>,                      <<"Submatrix", "UpperTriangular">>, NoIS, ""),
  A("gramSchmidt.Run",        <<"a">>,       <<>>, <<"IS.Q", "IS.R">>,                       <<>>,                               Buf,  ""),
  A("hessenbergReduction.Run", <<"a">>,      <<>>, <<"IS.H", "IS.U", "IS.X", "IS.Nu", "IS.T4">>, <<"ComputeU", "SetZero">>,      BufA, "a"),
  A("householderBidiagonalization.Run", <<"a">>, <<>>, <<"IS.A", "IS.U", "IS.V", "IS.X", "IS.Nu", "IS.T4">>,
                                                                            <<"ComputeU", "ComputeV">>,             BufA, "a"),
  A("householderTridiagonalization.Run", <<"a">>, <<>>, <<"IS.A", "IS.U", "IS.X", "IS.Nu", "IS.T4">>, <<"ComputeU">>, BufA, "a"),
  A("matrixInverse.Run",      <<"matrix", "submatrix">>, <<>>, <<"IS.Id", "IS.A", "IS.B", "IS.L", "IS.D">>,
                              <<"PositiveDefinite", "UpperTriangular", "Submatrix">>, Buf, ""),   \* Submatrix: passed through to gaussJordan
  A("msqrt.Run",              <<"matrix">>,  <<>>, <<>>,                                     <<>>,                               NoIS, ""),
  A("msqrtInv.Run",           <<"matrix">>,  <<>>, <<>>,                                     <<>>,                               NoIS, ""),
  A("qrAlgorithm.Run",        <<"a">>,       <<>>, <<"IS.H", "IS.U", "IS.T4", "IS.X", "IS.Nu">>, <<"ComputeU", "Symmetric">>,    BufA, "a"),
  A("svd.Run",                <<"a">>,       <<>>, <<"IS.A", "IS.U", "IS.V">>,               <<"ComputeU", "ComputeV">>,         Buf,  ""),
  (* kernels that return nothing: out-parameters by signature ("Compute c and s such that ...") *)
  A("givensRotation.Run",     <<"a", "b">>,  <<"c", "s">>, <<>>,                             <<>>,                               NoIS, ""),
  GivensKernel("givensRotation.ApplyLeft"),          GivensKernel("givensRotation.ApplyRight"),
  GivensKernel("givensRotation.ApplyBidiagLeft"),    GivensKernel("givensRotation.ApplyBidiagRight"),
  GivensKernel("givensRotation.ApplyTridiagLeft"),   GivensKernel("givensRotation.ApplyTridiagRight"),
  GivensKernel("givensRotation.ApplyHessenbergLeft"), GivensKernel("givensRotation.ApplyHessenbergRight"),
  A("householder.Run",        <<"x">>,       <<"beta", "nu", "t1", "t2", "t3">>, <<>>,       <<>>,                               NoIS, ""),
  A("householder.ApplyLeft",  <<"beta", "nu">>, <<"A", "t1", "t2">>, <<>>,                   <<>>,                               NoIS, ""),
  A("householder.ApplyRight", <<"beta", "nu">>, <<"A", "t1", "t2">>, <<>>,                   <<>>,                               NoIS, ""),
  (* optimisers and root finders: "optimizers do not move the starting point they were given" *)
  Optimizer("bfgs.Run",            <<"x0", "H0">>,  <<"Hessian", "Hook", "Constraints", "MaxIterations">>),
  Optimizer("rprop.Run",           <<"x0", "eta">>, HCM \o <<"EtaSwapped">>),   \* EtaSwapped: the two step-size factors in the
  Optimizer("rprop.RunGradient",   <<"x0", "eta">>, HCM \o <<"EtaSwapped">>),   \* unusual but admissible order (decrease, increase)
  Optimizer("adam.Run",            <<"x0">>,        HCM),
  Optimizer("adam.RunGradient",    <<"x0">>,        HCM),
  Optimizer("gradientDescent.Run", <<"x0">>,        <<"Hook">>),
  A("newton.RunRoot",  <<"x">>, <<>>, <<"IS.T1">>, HCM,                                   Buf, ""),
  A("newton.RunCrit",  <<"x">>, <<>>, <<"IS.T1">>, HCM,                                   Buf, ""),
  A("newton.RunMin",   <<"x">>, <<>>, <<"IS.T1">>, HCM \o <<"HessianModification">>,      Buf, ""),
  A("saga.Run",        <<"x">>, <<>>, <<"IS.T1">>, <<"L1Regularization", "L2Regularization", "TikhonovRegularization">>, Buf, ""),
  Optimizer("blahut.Run",          <<"channel", "p_init">>, <<"Hook", "Lambda">>)
}

(* option combinations the documentation excludes *)
ValidOpts(e, ov) ==
  /\ (e.name = "determinant.Run" /\ ov["LogScale"]) => ov["PositiveDefinite"]     \* "LogScale is valid only for positive definite matrices"
  /\ (e.name = "matrixInverse.Run") => ~(ov["PositiveDefinite"] /\ ov["UpperTriangular"])
  /\ (e.name = "saga.Run") =>
        Cardinality({o \in {"L1Regularization", "L2Regularization", "TikhonovRegularization"} : ov[o]}) <= 1

(* element-wise and linear-algebra operations r.Op(a, b): "unless the caller aliases them with the receiver" *)
VecOps == {"VaddV", "VsubV", "VmulV", "VdivV", "VaddS", "VsubS", "VmulS", "VdivS", "MdotV", "VdotM", "Set"}
MatOps == {"MaddM", "MsubM", "MmulM", "MdivM", "MaddS", "MsubS", "MmulS", "MdivS", "MdotM", "Outer", "Set"}
ScaOps == {"Vmean", "VdotV", "Vnorm", "Mnorm", "Mtrace", "Add", "Mul", "LogAdd", "SmoothMax", "LogSmoothMax"}
Storages == {"dense", "sparse"}
OpEntry(name) == E("op", name, <<"a", "b">>, <<"r", "t">>, <<>>, <<>>, NoIS, "")

(* distributions and estimators: parameter objects, evaluation points and data handed in by the caller. *)
(* dist.Clone / estimator.Clone: a call on the clone (SetParameters, LogPdf, Estimate) leaves the source *)
(* observably as it was, and vice versa                                                                  *)
ScalarDists == {"beta", "binomial", "categorical", "cauchy", "chiSquared", "delta", "exponential", "gamma",
                "generalizedGamma", "geometric", "gev", "gpareto", "laplace", "negativeBinomial", "normal",
                "pareto", "poisson", "powerLaw", "mixture", "pdfLogTransform", "pdfTranslation"}
VectorDists == {"vnormal", "vskewnormal", "vt", "logisticRegression", "scalarId", "scalarIid", "vmixture", "hmm"}
MatrixDists == {"inverseWishart", "vectorId", "vectorIid"}   \* normalIWishart is not a MatrixPdf (other LogPdf signature)
Estimators  == {"e.categorical", "e.delta", "e.exponential", "e.geometric", "e.negativeBinomial", "e.normal",
                "e.poisson", "e.vnormal", "e.scalarId", "e.scalarIid", "e.mixture"}
DistEntry(name, ro, rw) == E("dist", name, ro, rw, <<>>, <<>>, NoIS, "")
DistEntries == {
  DistEntry("dist.New",           <<"params">>,      <<>>),      \* the constructor call leaves its arguments unchanged
  DistEntry("dist.LogPdf",        <<"x", "params">>, <<"r">>),
  DistEntry("dist.SetParameters", <<"arg">>,         <<>>),
  DistEntry("dist.GetParameters", <<"params">>,      <<>>),
  DistEntry("dist.Clone",         <<"x", "params", "logpdf">>, <<>>),   \* work on the clone: the SOURCE keeps parameters and density
  DistEntry("dist.CloneRev",      <<"x", "params", "logpdf">>, <<>>)    \* work on the source: the CLONE keeps them
}
EstEntries == {
  DistEntry("estimator.SetData",        <<"x">>,          <<>>),
  DistEntry("estimator.EstimateOnData", <<"x", "gamma">>, <<>>),
  DistEntry("estimator.Clone",          <<"x", "gamma", "params">>, <<>>),
  DistEntry("estimator.CloneRev",       <<"x", "gamma", "params">>, <<>>)
}

MayModify(e, mode) == e.rw \o (IF mode = "none" THEN <<>> ELSE e.is)
                           \o (IF mode = "alias" THEN <<e.alias>> ELSE <<>>)
KeepObjs(e, mode)  == SelectSeq(e.ro, LAMBDA r : mode # "alias" \/ r # e.alias)
                      \o (IF mode = "reuse" THEN [i \in 1..Len(e.ro) |-> PrevName[e.ro[i]]] ELSE <<>>)
(* the variadic option list is an input too: the caller may keep the slice it spreads (opts...) and  *)
(* use it again; role "opts" = its length, every element and the spare capacity behind them          *)
MustKeep(e, mode)  == KeepObjs(e, mode) \o (IF e.fam = "alg" THEN <<"opts">> ELSE <<>>)
(* share sets that must be empty after the call *)
Disjoint(e, mode) ==
  IF e.fam = "alg" /\ mode \in {"buffers", "reuse", "alias"}
  THEN LET k == KeepObjs(e, mode) IN [i \in 1..Len(k) |-> <<"IS", k[i]>>]
  ELSE IF e.name \in {"dist.Clone", "dist.CloneRev", "estimator.Clone", "estimator.CloneRev"}
  THEN << <<"source", "clone">> >>       \* a clone reaches no storage that its source reaches (scratch included)
  ELSE <<>>

OptVals(e) == {ov \in [{e.opts[i] : i \in 1..Len(e.opts)} -> BOOLEAN] : ValidOpts(e, ov)}
(* magnitude class of the input values: the frame condition is bit-for-bit, also at the boundary of  *)
(* the floating-point range (entries scaled by 1e150, by 1e-150, or alternately by both)             *)
OptimizerNames == {"bfgs.Run", "rprop.Run", "rprop.RunGradient", "adam.Run", "adam.RunGradient", "gradientDescent.Run",
                   "newton.RunRoot", "newton.RunCrit", "newton.RunMin", "saga.Run", "blahut.Run"}
Mags(e, n) == IF e.name \in OptimizerNames \/ n # 2 THEN {"1"} ELSE {"1", "1e150", "1e-150", "mixed"}
Case(e, op, m, t, n, sr, sa, sb, ov, mag) ==
  [entry |-> e.name, op |-> op, mode |-> m, elem |-> t, n |-> n, sr |-> sr, sa |-> sa, sb |-> sb, mag |-> mag,
   opts |-> [i \in 1..Len(e.opts) |-> [o |-> e.opts[i], v |-> ov[e.opts[i]]]],
   keep |-> MustKeep(e, m), may |-> MayModify(e, m), disjoint |-> Disjoint(e, m)]

AlgCases == UNION {UNION {{Case(e, "", m, t, n, "-", "-", "-", ov, mag) :
                      m \in e.modes, t \in {"float64", "real64"}, ov \in OptVals(e), mag \in Mags(e, n)} : n \in Sizes}
                   : e \in Algorithms}
OpCasesOf(name, ops, srs) ==
  {Case(OpEntry(name), op, "none", t, 0, sr, sa, sb, <<>>, "1") :
     op \in ops, t \in {"float64", "real64", "int"}, sr \in srs, sa \in Storages, sb \in Storages}
OpCases == OpCasesOf("vector.op", VecOps, Storages) \cup OpCasesOf("matrix.op", MatOps, Storages)
           \cup OpCasesOf("scalar.op", ScaOps, {"-"})
DistCases == {Case(e, d, "none", "-", 0, "-", "-", "-", <<>>, "1") :
                e \in DistEntries, d \in ScalarDists \cup VectorDists \cup MatrixDists}
             \cup {Case(e, d, "none", "-", 0, "-", "-", "-", <<>>, "1") : e \in EstEntries, d \in Estimators}
Cases == AlgCases \cup OpCases \cup DistCases

(* sanity of the table itself *)
Rng(s) == {s[i] : i \in 1..Len(s)}
AllEntries == Algorithms \cup DistEntries \cup EstEntries \cup {OpEntry("vector.op")}
TableOK ==
  /\ \A e \in AllEntries : Rng(e.ro) \cap (Rng(e.rw) \cup Rng(e.is)) = {}
  /\ \A e \in AllEntries : ("alias" \in e.modes) => e.alias \in Rng(e.ro)
  /\ \A e1, e2 \in AllEntries : e1.name = e2.name => e1 = e2
ASSUME TableOK

Init == c \in Cases
Next == UNCHANGED c
Spec == Init /\ [][Next]_vars

(* every input is in the frame unless the caller opted into in-place work; nothing is both kept and writable *)
FrameOK ==
  /\ Rng(c.keep) \cap Rng(c.may) = {}
  /\ c.mode \notin {"alias", "reuse"} => \A e \in AllEntries : e.name = c.entry => Rng(e.ro) = Rng(c.keep) \ {"opts"}
  /\ c.mode = "reuse" => \A e \in AllEntries : e.name = c.entry =>
        /\ Rng(e.ro) \subseteq Rng(c.keep) /\ Len(c.keep) = 2 * Len(e.ro) + 1
        /\ Len(c.disjoint) = 2 * Len(e.ro)
  /\ c.mode = "none" => \A i \in 1..Len(c.may) : \A e \in AllEntries : e.name = c.entry => c.may[i] \in Rng(e.rw)
PrintCase == Emit => PrintT(ToJson(c))
=============================================================================
